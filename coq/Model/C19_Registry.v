(* C19 -- executable model of the element / isotope registry.
   Source: /repo/cherab/core/atomic/elements.pyx (classes Element, Isotope, the two index builders,
   lookup_element, lookup_isotope and the module-level table of definitions),
   /repo/cherab/core/atomic/line.pyx (Line: constructor guards, equality, hash),
   /repo/cherab/openadas/repository/utility.py (encode_transition, valid_charge).
   Definitions only.  Strings are ASCII (the translator rejects anything else), so Python's
   str.lower() is the byte-wise map below. *)
Require Import Cherab.Common.Qx.
From Coq Require Import String Ascii DecimalString Qabs.
Local Open Scope Z_scope.

(* ------------------------------------------------------------------------------------------ *)
(* strings                                                                                     *)
(* ------------------------------------------------------------------------------------------ *)
Definition lower_ascii (c : ascii) : ascii :=
  let n := N_of_ascii c in
  if (N.leb 65 n && N.leb n 90)%bool then ascii_of_N (n + 32) else c.

Fixpoint lower (s : string) : string :=
  match s with EmptyString => EmptyString | String c t => String (lower_ascii c) (lower t) end.

(* Python str(int) *)
Definition zstr (z : Z) : string := NilZero.string_of_int (Z.to_int z).

Definition sapp (a b : string) : string := String.append a b.

(* ------------------------------------------------------------------------------------------ *)
(* objects: elements.pyx lines 30-135                                                          *)
(* ------------------------------------------------------------------------------------------ *)
Record element := mkElement { e_name : string; e_symbol : string; e_Z : Z; e_weight : Q }.

(* An Isotope is an Element (subclass) with two more fields; i_Z is the inherited atomic_number. *)
Record isotope := mkIsotope { i_name : string; i_symbol : string; i_Z : Z; i_weight : Q;
                              i_A : Z; i_element : element }.

Inductive species := SE (e : element) | SI (i : isotope).

(* Element.__init__ (l.51-56) *)
Definition new_element (name symbol : string) (z : Z) (w : Q) : element := mkElement name symbol z w.

(* Isotope.__init__ (l.105-109): super().__init__(name, symbol, element.atomic_number, atomic_weight) *)
Definition new_isotope (name symbol : string) (el : element) (a : Z) (w : Q) : isotope :=
  mkIsotope name symbol (e_Z el) w a el.

(* the Element part of any species (what a `cdef Element e = <Element> other` cast sees) *)
Definition base (o : species) : element :=
  match o with SE e => e | SI i => mkElement (i_name i) (i_symbol i) (i_Z i) (i_weight i) end.

Definition species_name (o : species) : string := e_name (base o).
Definition species_symbol (o : species) : string := e_symbol (base o).
Definition species_Z (o : species) : Z := e_Z (base o).

(* ------------------------------------------------------------------------------------------ *)
(* the module body: a list of top-level definitions executed in source order (l.239-652)       *)
(* ------------------------------------------------------------------------------------------ *)
Inductive stmt :=
| DefElement (attr name symbol : string) (z : Z) (w : Q)
| DefIsotope (attr name symbol elem_attr : string) (a : Z) (w : Q).

Definition env := list (string * species).      (* module namespace restricted to species *)

Fixpoint env_get (en : env) (a : string) : option species :=
  match en with [] => None | (k, v) :: t => if String.eqb k a then Some v else env_get t a end.

(* rebinding a module attribute replaces the earlier object *)
Fixpoint env_set (en : env) (a : string) (v : species) : env :=
  match en with
  | [] => [(a, v)]
  | (k, x) :: t => if String.eqb k a then (k, v) :: t else (k, x) :: env_set t a v
  end.

(* None = the import raises (NameError / TypeError for an element argument that is not a plain Element) *)
Fixpoint exec (prog : list stmt) (en : env) : option env :=
  match prog with
  | [] => Some en
  | DefElement a n s z w :: t => exec t (env_set en a (SE (new_element n s z w)))
  | DefIsotope a n s ea m w :: t =>
      match env_get en ea with
      | Some (SE el) => exec t (env_set en a (SI (new_isotope n s el m w)))
      | _ => None
      end
  end.

(* dir(module) is sorted by attribute name *)
Fixpoint insert_attr (x : string * species) (l : env) : env :=
  match l with
  | [] => [x]
  | y :: t => if String.leb (fst x) (fst y) then x :: l else y :: insert_attr x t
  end.
Definition dir_sorted (en : env) : env := fold_right insert_attr [] en.

(* the objects the two index builders see, in iteration order:
   `type(obj) is Element` (l.148) / `type(obj) is Isotope` (l.166) *)
Record registry := mkRegistry { elements : list element; isotopes : list isotope }.

Definition registry_of_env (en : env) : registry :=
  let d := dir_sorted en in
  mkRegistry (flat_map (fun p => match snd p with SE e => [e] | SI _ => [] end) d)
             (flat_map (fun p => match snd p with SI i => [i] | SE _ => [] end) d).

Definition load (prog : list stmt) : option registry := option_map registry_of_env (exec prog []).

Definition all_species (r : registry) : list species := map SE (elements r) ++ map SI (isotopes r).

(* ------------------------------------------------------------------------------------------ *)
(* the search indices (l.138-172).  A dict is an association list; assignment conses, lookup    *)
(* takes the first match, so a later assignment to the same key wins, as in Python.            *)
(* ------------------------------------------------------------------------------------------ *)
Definition index (A : Type) := list (string * A).

Fixpoint idx_get {A} (ix : index A) (k : string) : option A :=
  match ix with [] => None | (k', v) :: t => if String.eqb k' k then Some v else idx_get t k end.

Definition add_keys {A} (keys : A -> list string) (ix : index A) (o : A) : index A :=
  fold_left (fun acc k => (k, o) :: acc) (keys o) ix.

Definition build_index {A} (keys : A -> list string) (objs : list A) : index A :=
  fold_left (add_keys keys) objs [].

(* specification of the builders' loop: the object that ends up under key k is the LAST object (in
   iteration order) that writes k (proved in Proofs/C19_Deepen.v for every list, no wf needed) *)
Fixpoint last_with {A} (keys : A -> list string) (k : string) (l : list A) : option A :=
  match l with
  | [] => None
  | o :: t => match last_with keys k t with
              | Some x => Some x
              | None => if existsb (String.eqb k) (keys o) then Some o else None
              end
  end.

(* l.150-152, in assignment order *)
Definition element_keys (e : element) : list string :=
  [lower (e_symbol e); lower (e_name e); zstr (e_Z e)].

(* l.168-171, in assignment order *)
Definition isotope_keys (i : isotope) : list string :=
  [lower (i_symbol i); lower (i_name i);
   sapp (lower (e_symbol (i_element i))) (zstr (i_A i));
   sapp (lower (e_name (i_element i))) (zstr (i_A i))].

Definition element_index (r : registry) : index element := build_index element_keys (elements r).
Definition isotope_index (r : registry) : index isotope := build_index isotope_keys (isotopes r).

(* ------------------------------------------------------------------------------------------ *)
(* lookup_element (l.175-197), lookup_isotope (l.200-235)                                       *)
(* ------------------------------------------------------------------------------------------ *)
(* VOther s: any other Python object (bool, float, numpy scalar, bytes, None, tuple, instance of a
   Python subclass ...) whose str() is s; the code only ever looks at str(v) of such an argument *)
Inductive value := VStr (s : string) | VInt (z : Z) | VSpecies (o : species) | VOther (s : string).
Inductive result (A : Type) := Ok (a : A) | ErrValue.
Arguments Ok {A} a.
Arguments ErrValue {A}.

(* str(v): __repr__ of the two classes (l.58, l.112) *)
Definition py_str (v : value) : string :=
  match v with
  | VStr s => s
  | VInt z => zstr z
  | VSpecies (SE e) => sapp "<Element: " (sapp (e_name e) ">")
  | VSpecies (SI i) => sapp "<Isotope: " (sapp (i_name i) ">")
  | VOther s => s
  end.

Definition lookup_element_ix (ixe : index element) (v : value) : result element :=
  match v with
  | VSpecies (SE e) => Ok e                                   (* type(v) is Element *)
  | _ => match idx_get ixe (lower (py_str v)) with Some e => Ok e | None => ErrValue end
  end.

(* `if number:` is false for None and for 0 *)
Definition truthy (number : option Z) : option Z :=
  match number with Some n => if Z.eqb n 0 then None else Some n | None => None end.

(* [num] = Some s: `number` is truthy and str(number) = s; None: `number` is None / 0 / '' / [] ... *)
Definition lookup_isotope_core (ixe : index element) (ixi : index isotope) (v : value) (num : option string)
  : result isotope :=
  match v with
  | VSpecies (SI i) => Ok i                                   (* type(v) is Isotope *)
  | _ =>
    match num with
    | Some sn =>
        match lookup_element_ix ixe v with
        | ErrValue => ErrValue
        | Ok el => match idx_get ixi (lower (sapp (e_symbol el) sn)) with
                   | Some i => Ok i | None => ErrValue end
        end
    | None => match idx_get ixi (lower (py_str v)) with Some i => Ok i | None => ErrValue end
    end
  end.

Definition lookup_isotope_ix (ixe : index element) (ixi : index isotope) (v : value) (number : option Z)
  : result isotope := lookup_isotope_core ixe ixi v (option_map zstr (truthy number)).

Definition lookup_element (r : registry) (v : value) : result element :=
  lookup_element_ix (element_index r) v.
Definition lookup_isotope (r : registry) (v : value) (number : option Z) : result isotope :=
  lookup_isotope_ix (element_index r) (isotope_index r) v number.

(* ------------------------------------------------------------------------------------------ *)
(* equality and hashing (l.60-76, l.114-135)                                                    *)
(* ------------------------------------------------------------------------------------------ *)
(* Element.__richcmp__ op 2 / op 3 on the Element parts; weights are doubles compared with == *)
Definition element_eq (a b : element) : bool :=
  (String.eqb (e_name a) (e_name b) && String.eqb (e_symbol a) (e_symbol b)
   && Z.eqb (e_Z a) (e_Z b) && Qeq_bool (e_weight a) (e_weight b))%bool.
Definition element_ne (a b : element) : bool :=
  (negb (String.eqb (e_name a) (e_name b)) || negb (String.eqb (e_symbol a) (e_symbol b))
   || negb (Z.eqb (e_Z a) (e_Z b)) || negb (Qeq_bool (e_weight a) (e_weight b)))%bool.

(* Isotope.__richcmp__; `self.element == e.element` compares two plain Elements *)
Definition isotope_eq (a b : isotope) : bool :=
  (String.eqb (i_name a) (i_name b) && String.eqb (i_symbol a) (i_symbol b)
   && Z.eqb (i_Z a) (i_Z b) && Qeq_bool (i_weight a) (i_weight b)
   && element_eq (i_element a) (i_element b) && Z.eqb (i_A a) (i_A b))%bool.
Definition isotope_ne (a b : isotope) : bool :=
  (negb (String.eqb (i_name a) (i_name b)) || negb (String.eqb (i_symbol a) (i_symbol b))
   || negb (Z.eqb (i_Z a) (i_Z b)) || negb (Qeq_bool (i_weight a) (i_weight b))
   || element_ne (i_element a) (i_element b) || negb (Z.eqb (i_A a) (i_A b)))%bool.

(* one call of __richcmp__; None = NotImplemented.  Every species is an instance of Element. *)
Definition richcmp_eq (self other : species) : option bool :=
  match self with
  | SE a => Some (element_eq a (base other))
  | SI a => match other with SI b => Some (isotope_eq a b) | SE _ => None end
  end.
Definition richcmp_ne (self other : species) : option bool :=
  match self with
  | SE a => Some (element_ne a (base other))
  | SI a => match other with SI b => Some (isotope_ne a b) | SE _ => None end
  end.

(* CPython's binary comparison protocol: the reflected method of the right operand goes first when
   its type is a proper subclass of the left operand's type; if both return NotImplemented the
   result is decided by identity (never reached between two species). *)
Definition proper_subclass (a b : species) : bool :=     (* type(a) is a proper subclass of type(b) *)
  match a, b with SI _, SE _ => true | _, _ => false end.
Definition py_cmp (f : species -> species -> option bool) (fallback : bool) (a b : species) : bool :=
  let first := if proper_subclass b a then f b a else f a b in
  let second := if proper_subclass b a then f a b else f b a in
  match first with Some x => x | None => match second with Some x => x | None => fallback end end.
Definition py_eq (a b : species) : bool := py_cmp richcmp_eq false a b.
Definition py_ne (a b : species) : bool := py_cmp richcmp_ne true a b.

(* what __hash__ hashes: a tuple of str / int / float.  CPython guarantees that tuples that are
   equal (component-wise, an int equal to a float included) hash equally. *)
Inductive hatom := HStr (s : string) | HInt (z : Z) | HFloat (q : Q).
Definition hash_key (o : species) : list hatom :=
  match o with
  | SE e => [HStr (e_name e); HStr (e_symbol e); HInt (e_Z e); HFloat (e_weight e)]
  | SI i => [HStr (i_name i); HStr (i_symbol i); HInt (i_Z i); HFloat (i_weight i); HInt (i_A i)]
  end.
Definition hatom_eqb (a b : hatom) : bool :=
  match a, b with
  | HStr s, HStr t => String.eqb s t
  | HInt x, HInt y => Z.eqb x y
  | HFloat p, HFloat q => Qeq_bool p q
  | HInt x, HFloat q | HFloat q, HInt x => Qeq_bool (inject_Z x) q
  | _, _ => false
  end.
Fixpoint hkey_eqb (a b : list hatom) : bool :=
  match a, b with
  | [], [] => true
  | x :: s, y :: t => (hatom_eqb x y && hkey_eqb s t)%bool
  | _, _ => false
  end.

(* ------------------------------------------------------------------------------------------ *)
(* Line (line.pyx l.49-82) and the repository helpers (utility.py)                              *)
(* ------------------------------------------------------------------------------------------ *)
(* a transition is a tuple (any length; two entries in practice) of ints and strings *)
Inductive tval := TInt (z : Z) | TStr (s : string).
Record line := mkLine { l_element : species; l_charge : Z; l_transition : list tval }.

Definition new_line (o : species) (charge : Z) (tr : list tval) : result line :=
  if Z.gtb charge (species_Z o - 1) then ErrValue
  else if Z.ltb charge 0 then ErrValue
  else Ok (mkLine o charge tr).

Definition tval_eqb (a b : tval) : bool :=
  match a, b with TInt x, TInt y => Z.eqb x y | TStr s, TStr t => String.eqb s t | _, _ => false end.
Fixpoint tlist_eqb (a b : list tval) : bool :=
  match a, b with
  | [], [] => true
  | x :: s, y :: t => (tval_eqb x y && tlist_eqb s t)%bool
  | _, _ => false
  end.

Definition line_eq (a b : line) : bool :=
  (py_eq (l_element a) (l_element b) && Z.eqb (l_charge a) (l_charge b)
   && tlist_eqb (l_transition a) (l_transition b))%bool.
Definition line_ne (a b : line) : bool :=
  (py_ne (l_element a) (l_element b) || negb (Z.eqb (l_charge a) (l_charge b))
   || negb (tlist_eqb (l_transition a) (l_transition b)))%bool.
(* hash((element, charge, transition)) is a function of hash(element), charge, transition *)
Definition line_key_eqb (a b : line) : bool :=
  (hkey_eqb (hash_key (l_element a)) (hash_key (l_element b)) && Z.eqb (l_charge a) (l_charge b)
   && tlist_eqb (l_transition a) (l_transition b))%bool.

Definition tval_str (t : tval) : string := match t with TInt z => zstr z | TStr s => s end.
(* `upper, lower = transition` raises ValueError unless there are exactly two entries *)
Definition encode_transition (tr : list tval) : result string :=
  match tr with
  | [u; l] => Ok (sapp (lower (tval_str u)) (sapp " -> " (lower (tval_str l))))
  | _ => ErrValue
  end.
Definition valid_charge (o : species) (charge : Z) : bool := Z.leb charge (species_Z o).

(* ------------------------------------------------------------------------------------------ *)
(* a Python dict keyed by hashable objects: a slot matches when the hashes are equal and the     *)
(* keys are identical or equal.  Generic in the key type, the hash and the equality.            *)
(* ------------------------------------------------------------------------------------------ *)
Section Dict.
  Context {K V : Type} (khash : K -> Z) (ksame keq : K -> K -> bool).
  Definition slot_match (a b : K) : bool := (Z.eqb (khash a) (khash b) && (ksame a b || keq a b))%bool.
  Fixpoint dict_get (d : list (K * V)) (k : K) : option V :=
    match d with [] => None | (k', v) :: t => if slot_match k' k then Some v else dict_get t k end.
  Fixpoint dict_set (d : list (K * V)) (k : K) (v : V) : list (K * V) :=
    match d with
    | [] => [(k, v)]
    | (k', x) :: t => if slot_match k' k then (k', v) :: t else (k', x) :: dict_set t k v
    end.
  (* d.pop(k, None): removes the slot that matches, if any (no theorem is stated about deletion) *)
  Fixpoint dict_del (d : list (K * V)) (k : K) : list (K * V) :=
    match d with
    | [] => []
    | (k', x) :: t => if slot_match k' k then t else (k', x) :: dict_del t k
    end.
  Definition dict_run (ops : list (K * V)) : list (K * V) := fold_left (fun d kv => dict_set d (fst kv) (snd kv)) ops [].
End Dict.

(* ------------------------------------------------------------------------------------------ *)
(* the periodic table, written from the IUPAC list (not from the code): Z, name, symbol          *)
(* ------------------------------------------------------------------------------------------ *)
Local Open Scope string_scope.
Definition periodic_table : list (Z * string * string) :=
  [(1,"hydrogen","H"); (2,"helium","He"); (3,"lithium","Li"); (4,"beryllium","Be"); (5,"boron","B");
   (6,"carbon","C"); (7,"nitrogen","N"); (8,"oxygen","O"); (9,"fluorine","F"); (10,"neon","Ne");
   (11,"sodium","Na"); (12,"magnesium","Mg"); (13,"aluminium","Al"); (14,"silicon","Si");
   (15,"phosphorus","P"); (16,"sulfur","S"); (17,"chlorine","Cl"); (18,"argon","Ar");
   (19,"potassium","K"); (20,"calcium","Ca"); (21,"scandium","Sc"); (22,"titanium","Ti");
   (23,"vanadium","V"); (24,"chromium","Cr"); (25,"manganese","Mn"); (26,"iron","Fe");
   (27,"cobalt","Co"); (28,"nickel","Ni"); (29,"copper","Cu"); (30,"zinc","Zn"); (31,"gallium","Ga");
   (32,"germanium","Ge"); (33,"arsenic","As"); (34,"selenium","Se"); (35,"bromine","Br");
   (36,"krypton","Kr"); (37,"rubidium","Rb"); (38,"strontium","Sr"); (39,"yttrium","Y");
   (40,"zirconium","Zr"); (41,"niobium","Nb"); (42,"molybdenum","Mo"); (43,"technetium","Tc");
   (44,"ruthenium","Ru"); (45,"rhodium","Rh"); (46,"palladium","Pd"); (47,"silver","Ag");
   (48,"cadmium","Cd"); (49,"indium","In"); (50,"tin","Sn"); (51,"antimony","Sb");
   (52,"tellurium","Te"); (53,"iodine","I"); (54,"xenon","Xe"); (55,"caesium","Cs");
   (56,"barium","Ba"); (57,"lanthanum","La"); (58,"cerium","Ce"); (59,"praseodymium","Pr");
   (60,"neodymium","Nd"); (61,"promethium","Pm"); (62,"samarium","Sm"); (63,"europium","Eu");
   (64,"gadolinium","Gd"); (65,"terbium","Tb"); (66,"dysprosium","Dy"); (67,"holmium","Ho");
   (68,"erbium","Er"); (69,"thulium","Tm"); (70,"ytterbium","Yb"); (71,"lutetium","Lu");
   (72,"hafnium","Hf"); (73,"tantalum","Ta"); (74,"tungsten","W"); (75,"rhenium","Re");
   (76,"osmium","Os"); (77,"iridium","Ir"); (78,"platinum","Pt"); (79,"gold","Au");
   (80,"mercury","Hg"); (81,"thallium","Tl"); (82,"lead","Pb"); (83,"bismuth","Bi");
   (84,"polonium","Po"); (85,"astatine","At"); (86,"radon","Rn"); (87,"francium","Fr");
   (88,"radium","Ra"); (89,"actinium","Ac"); (90,"thorium","Th"); (91,"protactinium","Pa");
   (92,"uranium","U"); (93,"neptunium","Np"); (94,"plutonium","Pu"); (95,"americium","Am");
   (96,"curium","Cm"); (97,"berkelium","Bk"); (98,"californium","Cf"); (99,"einsteinium","Es");
   (100,"fermium","Fm"); (101,"mendelevium","Md"); (102,"nobelium","No"); (103,"lawrencium","Lr");
   (104,"rutherfordium","Rf"); (105,"dubnium","Db"); (106,"seaborgium","Sg"); (107,"bohrium","Bh");
   (108,"hassium","Hs"); (109,"meitnerium","Mt"); (110,"darmstadtium","Ds"); (111,"roentgenium","Rg");
   (112,"copernicium","Cn"); (113,"nihonium","Nh"); (114,"flerovium","Fl"); (115,"moscovium","Mc");
   (116,"livermorium","Lv"); (117,"tennessine","Ts"); (118,"oganesson","Og")].
(* accepted alternative spellings of names *)
Definition alternate_names : list (Z * string) := [(13,"aluminum"); (16,"sulphur"); (55,"cesium")].
Local Close Scope string_scope.

(* the element is a row of the periodic table: same number, same symbol and same name (or an
   accepted alternative spelling), letter case ignored *)
Definition row_matches (e : element) (row : Z * string * string) : bool :=
  let '(z, nm, sy) := row in
  (Z.eqb (e_Z e) z && String.eqb (lower (e_symbol e)) (lower sy)
   && (String.eqb (lower (e_name e)) nm
       || existsb (fun a => Z.eqb (fst a) z && String.eqb (lower (e_name e)) (snd a)) alternate_names))%bool.
Definition in_periodic_table (e : element) : bool := existsb (row_matches e) periodic_table.

(* ------------------------------------------------------------------------------------------ *)
(* well-formedness of a registry: the boolean the tie evaluates on the regenerated table        *)
(* ------------------------------------------------------------------------------------------ *)
Fixpoint nodupb (l : list string) : bool :=
  match l with [] => true | x :: t => (negb (existsb (String.eqb x) t) && nodupb t)%bool end.

Definition disjointb (l1 l2 : list string) : bool :=
  forallb (fun k => negb (existsb (String.eqb k) l2)) l1.

(* two different objects (different names) never write the same key *)
(* (the names and key lists are computed once per object, not once per pair) *)
Definition pairwise_disjoint {A} (nm : A -> string) (keys : A -> list string) (l : list A) : bool :=
  let ks := map (fun a => (nm a, keys a)) l in
  forallb (fun a => forallb (fun b => (String.eqb (fst a) (fst b) || disjointb (snd a) (snd b))%bool) ks) ks.

Definition Qeqb_struct (a b : Q) : bool := (Z.eqb (Qnum a) (Qnum b) && Pos.eqb (Qden a) (Qden b))%bool.
Definition element_eqb (a b : element) : bool :=
  (String.eqb (e_name a) (e_name b) && String.eqb (e_symbol a) (e_symbol b)
   && Z.eqb (e_Z a) (e_Z b) && Qeqb_struct (e_weight a) (e_weight b))%bool.

Definition isotope_ok (r : registry) (i : isotope) : bool :=
  (existsb (element_eqb (i_element i)) (elements r)
   && Z.eqb (i_Z i) (e_Z (i_element i))
   && Z.leb (i_Z i) (i_A i) && Z.leb 1 (i_A i)
   && Qle_bool (Qabs (i_weight i - inject_Z (i_A i))%Q) (1 # 10))%bool.

Definition wf (r : registry) : bool :=
  (nodupb (map species_name (all_species r))
   && pairwise_disjoint e_name element_keys (elements r)
   && pairwise_disjoint i_name isotope_keys (isotopes r)
   && forallb in_periodic_table (elements r)
   && forallb (isotope_ok r) (isotopes r))%bool.

Definition wf_program (prog : list stmt) : bool :=
  match load prog with Some r => wf r | None => false end.
