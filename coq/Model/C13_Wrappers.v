(* C13 -- executable model of the function wrappers and samplers of cherab.core.math
   (definitions only; proofs are in Proofs/C13_*.v).

   The routing wrappers are polymorphic in the carrier [A] of coordinates and the result type [B]
   of the wrapped function: the same definitions are used with A = Q for the theorems that need an
   order, and with A = float (Coq primitive binary64) in the correspondence, where the wrapped
   function is a recorder (fun x y z => [x; y; z]) and the arguments it receives are compared
   bit for bit with the arguments the real wrapped Python callable received. *)
Require Import Cherab.Common.Qx.
From Coq Require Import Qround Qabs String.
Open Scope Q_scope.

Inductive err : Set := ErrValue | ErrType.

(* ------------------------------------------------------------------------------------------- *)
Section Routing.
  Context {A B : Type}.

  (* mappers.pyx:68-71, 115-118  IsoMapper2D / IsoMapper3D:  g(f(x, y)) *)
  Definition iso2 {C : Type} (g : B -> C) (f : A -> A -> B) (x y : A) : C := g (f x y).
  Definition iso3 {C : Type} (g : B -> C) (f : A -> A -> A -> B) (x y z : A) : C := g (f x y z).

  (* mappers.pyx:146-149  Swizzle2D *)
  Definition swizzle2 (f : A -> A -> B) (x y : A) : B := f y x.

  (* mappers.pyx:203-221  Swizzle3D.evaluate: d[i] = x | y | z according to shape[i] *)
  Definition pick3 (i : Z) (x y z : A) : A :=
    if (i =? 0)%Z then x else if (i =? 1)%Z then y else z.
  Definition swizzle3 (s0 s1 s2 : Z) (f : A -> A -> A -> B) (x y z : A) : B :=
    f (pick3 s0 x y z) (pick3 s1 x y z) (pick3 s2 x y z).

  (* slice.pyx:62-67  Slice2D.evaluate;  slice.pyx:110-117  Slice3D.evaluate *)
  Definition slice2 (axis : Z) (v : A) (f : A -> A -> B) (x : A) : B :=
    if (axis =? 0)%Z then f v x else f x v.
  Definition slice3 (axis : Z) (v : A) (f : A -> A -> A -> B) (x y : A) : B :=
    if (axis =? 0)%Z then f v x y else if (axis =? 1)%Z then f x v y else f x y v.

  (* raysect clamp(v, lo, hi) over any carrier with a strict order test *)
  Variable ltb : A -> A -> bool.
  Definition clampG (v lo hi : A) : A := if ltb v lo then lo else if ltb hi v then hi else v.

  (* clamp.pyx:170-172, 208-211, 252-256  ClampInput1D/2D/3D.evaluate *)
  Definition clamp_in1 (lo hi : A) (f : A -> B) (x : A) : B := f (clampG x lo hi).
  Definition clamp_in2 (xlo xhi ylo yhi : A) (f : A -> A -> B) (x y : A) : B :=
    f (clampG x xlo xhi) (clampG y ylo yhi).
  Definition clamp_in3 (xlo xhi ylo yhi zlo zhi : A) (f : A -> A -> A -> B) (x y z : A) : B :=
    f (clampG x xlo xhi) (clampG y ylo yhi) (clampG z zlo zhi).
End Routing.

(* clamp.pyx:60-61, 96-97, 133-134  ClampOutput1D/2D/3D.evaluate: clamp(f(x), min, max) *)
Definition clamp_out1 {A} (ltb : A -> A -> bool) (lo hi : A) (f : A -> A) (x : A) : A := clampG ltb (f x) lo hi.
Definition clamp_out2 {A} (ltb : A -> A -> bool) (lo hi : A) (f : A -> A -> A) (x y : A) : A := clampG ltb (f x y) lo hi.
Definition clamp_out3 {A} (ltb : A -> A -> bool) (lo hi : A) (f : A -> A -> A -> A) (x y z : A) : A :=
  clampG ltb (f x y z) lo hi.

(* ---- constructor validation (which exception, or none) --------------------------------------- *)
(* mappers.pyx:186-201: every entry must be in [0,1,2] (ValueError), then tuple of length 3 (TypeError) *)
Definition swizzle3_validate (is_tuple : bool) (shape : list Z) : option err :=
  if negb (forallb (fun i => (0 <=? i)%Z && (i <=? 2)%Z) shape) then Some ErrValue
  else if is_tuple && (Z.of_nat (List.length shape) =? 3)%Z then None else Some ErrType.

(* slice.pyx:44-56 / 92-104: a string is lower-cased and looked up, a number must be in range *)
Inductive axis_sel : Set := AxName (s : string) | AxNum (z : Z).
Definition axis_of_name (dims : Z) (s : string) : option Z :=
  if (String.eqb s "x" || String.eqb s "X")%bool then Some 0%Z
  else if (String.eqb s "y" || String.eqb s "Y")%bool then Some 1%Z
  else if ((2 <? dims)%Z && (String.eqb s "z" || String.eqb s "Z"))%bool then Some 2%Z
  else None.
Definition slice_validate (dims : Z) (a : axis_sel) : err + Z :=
  match a with
  | AxName s => match axis_of_name dims s with Some k => inr k | None => inl ErrValue end
  | AxNum z => if (0 <=? z)%Z && (z <? dims)%Z then inr z else inl ErrValue
  end.

(* clamp.pyx:53-54 ...: min >= max is rejected.  Bounds are extended reals (None = infinite). *)
Definition Qltb (a b : Q) : bool := negb (Qle_bool b a).
Definition clamp_validate (lo hi : option Q) : option err :=
  match lo, hi with
  | Some l, Some h => if Qle_bool h l then Some ErrValue else None
  | _, _ => None            (* -inf < anything, anything < +inf *)
  end.

(* periodic.pyx:55-57 (1-D: period <= 0 rejected), :100-104, :160-166 (2-D/3-D: period < 0 rejected,
   0 means "not periodic along this axis") *)
Definition period1_validate (p : Q) : option err := if Qle_bool p 0 then Some ErrValue else None.
Definition periodn_validate (ps : list Q) : option err :=
  if forallb (fun p => Qle_bool 0 p) ps then None else Some ErrValue.

(* samplers.pyx:65-72 ...: len(range) = 3, min <= max, samples >= 1 *)
Definition range_validate (len : Z) (a b : Q) (n : Z) : option err :=
  if negb (len =? 3)%Z then Some ErrValue
  else if Qltb b a then Some ErrValue
  else if (n <? 1)%Z then Some ErrValue else None.

(* ---- clamping over Q with extended bounds ------------------------------------------------------ *)
Definition clampQ (v : Q) (lo hi : option Q) : Q :=
  match lo with
  | Some l => if Qltb v l then l else
      match hi with Some h => if Qltb h v then h else v | None => v end
  | None => match hi with Some h => if Qltb h v then h else v | None => v end
  end.

(* ---- periodic extension, exact arithmetic ------------------------------------------------------- *)
(* the specification: x reduced into [0, p) by a whole number of periods *)
Definition remainder_Q (x p : Q) : Q := if Qeq_bool p 0 then x else x - p * inject_Z (Qfloor (x / p)).

(* the algorithm of periodic.pxd:26-36 in exact arithmetic: C fmod truncates the quotient towards
   zero (result has the sign of x), a negative result is shifted up by one period *)
Definition Qtrunc (q : Q) : Z := if Qle_bool 0 q then Qfloor q else Qceiling q.
Definition fmod_Q (x p : Q) : Q := x - p * inject_Z (Qtrunc (x / p)).
Definition remainder_alg_Q (x p : Q) : Q :=
  if Qeq_bool p 0 then x
  else let r := fmod_Q x p in if Qltb r 0 then r + p else r.

Definition periodic1 {B} (p : Q) (f : Q -> B) (x : Q) : B := f (remainder_alg_Q x p).
Definition periodic2 {B} (px py : Q) (f : Q -> Q -> B) (x y : Q) : B :=
  f (remainder_alg_Q x px) (remainder_alg_Q y py).
Definition periodic3 {B} (px py pz : Q) (f : Q -> Q -> Q -> B) (x y z : Q) : B :=
  f (remainder_alg_Q x px) (remainder_alg_Q y py) (remainder_alg_Q z pz).

(* the last two lines of the fixed algorithm with an abstract rounding of the sum (what binary64
   does to r + p) and an abstract predecessor of p:  used for the range theorem *)
Definition remainder_rounded (rnd : Q -> Q) (pred_p : Q) (x p : Q) : Q :=
  if Qeq_bool p 0 then x
  else let r := fmod_Q x p in
       if Qltb r 0 then (let r' := rnd (r + p) in if Qeq_bool r' p then pred_p else r') else r.
Definition remainder_rounded_old (rnd : Q -> Q) (x p : Q) : Q :=
  if Qeq_bool p 0 then x
  else let r := fmod_Q x p in if Qltb r 0 then rnd (r + p) else r.

(* ---- axisymmetric / cylindrical mapping ----------------------------------------------------------- *)
Definition vec : Type := (Q * Q * Q)%type.
(* rotation about z by the angle whose cosine and sine are (c, s)  (raysect rotate_z) *)
Definition rotz (c s : Q) (v : vec) : vec :=
  let '(vx, vy, vz) := v in (c * vx - s * vy, s * vx + c * vy, vz).

Section Cylindrical.
  (* libm oracles: square root and atan2 (no Coq definition; hypotheses are stated with the theorems) *)
  Variable sqrtQ : Q -> Q.
  Variable atan2Q : Q -> Q -> Q.
  Definition radius (x y : Q) : Q := sqrtQ (x * x + y * y).

  (* mappers.pyx:241-245  AxisymmetricMapper.evaluate *)
  Definition axisym {B} (f : Q -> Q -> B) (x y z : Q) : B := f (radius x y) z.
  (* cylindrical.pyx:60-70  CylindricalTransform.evaluate *)
  Definition cylindrical {B} (f : Q -> Q -> Q -> B) (x y z : Q) : B := f (radius x y) (atan2Q y x) z.
  (* mappers.pyx:294-307 / cylindrical.pyx:114-127: the returned vector is rotated about z by the
     toroidal angle of (x, y); the rotation is given by (cos, sin) = (x / r, y / r) *)
  Definition vector_axisym (f : Q -> Q -> vec) (x y z : Q) : vec :=
    let r := radius x y in rotz (x / r) (y / r) (f r z).
  Definition vector_cylindrical (f : Q -> Q -> Q -> vec) (x y z : Q) : vec :=
    let r := radius x y in rotz (x / r) (y / r) (f r (atan2Q y x) z).
End Cylindrical.

(* ---- the same mapping made total: on the symmetry axis (r = 0) the toroidal angle is libm's atan2 of two
   signed zeros: 0 when x is +0 (no rotation), +-pi when x is -0 (half turn).  [xneg] says that x is -0. ---- *)
Definition toroidal_cs (xneg : bool) (x y r : Q) : Q * Q :=
  if Qeq_bool r 0 then ((if xneg then - (1) else 1), 0) else (x / r, y / r).
Definition vector_axisym_total (sqrtQ : Q -> Q) (xneg : bool) (f : Q -> Q -> vec) (x y z : Q) : vec :=
  let r := radius sqrtQ x y in
  let cs := toroidal_cs xneg x y r in rotz (fst cs) (snd cs) (f r z).
Definition vector_cylindrical_total (sqrtQ : Q -> Q) (atan2Q : Q -> Q -> Q) (xneg : bool) (f : Q -> Q -> Q -> vec) (x y z : Q) : vec :=
  let r := radius sqrtQ x y in
  let cs := toroidal_cs xneg x y r in rotz (fst cs) (snd cs) (f r (atan2Q y x) z).

(* quadrant of the toroidal angle decided in exact arithmetic (what atan2 must respect):
   0: phi = 0 (positive x axis)   1: 0 < phi < pi/2   2: phi = pi/2   3: pi/2 < phi < pi
   4: |phi| = pi (negative x axis) 5: -pi < phi < -pi/2  6: phi = -pi/2  7: -pi/2 < phi < 0
   8: origin (angle undefined) *)
Definition quadrant (x y : Q) : Z :=
  match Qcompare y 0, Qcompare x 0 with
  | Eq, Gt => 0 | Gt, Gt => 1 | Gt, Eq => 2 | Gt, Lt => 3 | Eq, Lt => 4
  | Lt, Lt => 5 | Lt, Eq => 6 | Lt, Gt => 7 | Eq, Eq => 8
  end%Z.

(* ---- samplers ---------------------------------------------------------------------------------------- *)
Definition zrange (n : Z) : list Z := map Z.of_nat (seq 0 (Z.to_nat n)).
(* numpy.linspace(a, b, n): a + i * (b - a)/(n - 1), the last point is set to b when n > 1 *)
Definition linspace_at (n : Z) (a b : Q) (i : Z) : Q :=
  if (1 <? n)%Z && (i =? n - 1)%Z then b else a + inject_Z i * ((b - a) / inject_Z (n - 1)).
Definition linspace (n : Z) (a b : Q) : list Q := map (linspace_at n a b) (zrange n).

(* samplers.pyx:84-85, 201-203, 397-400 (and the _grid / vector variants): nested loops, v[i,j,k] = f(x_i,y_j,z_k) *)
Definition sample1d {A B} (f : A -> B) (xs : list A) : list B := map f xs.
Definition sample2d {A B} (f : A -> A -> B) (xs ys : list A) : list (list B) :=
  map (fun x => map (fun y => f x y) ys) xs.
Definition sample3d {A B} (f : A -> A -> A -> B) (xs ys zs : list A) : list (list (list B)) :=
  map (fun x => map (fun y => map (fun z => f x y z) zs) ys) xs.
(* samplers.pyx:126-127, 252-253, 451-452: the _points variants, v[i] = f(points[i]) *)
Definition sample2d_points {A B} (f : A -> A -> B) (pts : list (A * A)) : list B :=
  map (fun p => f (fst p) (snd p)) pts.
Definition sample3d_points {A B} (f : A -> A -> A -> B) (pts : list (A * A * A)) : list B :=
  map (fun p => f (fst (fst p)) (snd (fst p)) (snd p)) pts.

(* ---- polygon mask ---------------------------------------------------------------------------------------- *)
Definition pt : Type := (Q * Q)%type.
(* does the horizontal ray from p towards +x cross the edge a-b ?  (half-open in y, so that a ray
   through a vertex is counted once) *)
Definition crosses (p : pt) (e : pt * pt) : bool :=
  let '(px, py) := p in let '((x1, y1), (x2, y2)) := e in
  if Bool.eqb (Qltb py y1) (Qltb py y2) then false
  else
    let lhs := (px - x1) * (y2 - y1) in
    let rhs := (py - y1) * (x2 - x1) in
    if Qltb y1 y2 then Qltb lhs rhs else Qltb rhs lhs.

Fixpoint path_edges (l : list pt) : list (pt * pt) :=
  match l with
  | a :: t => match t with b :: _ => (a, b) :: path_edges t | [] => [] end
  | [] => []
  end.
(* the closed polygon: the last vertex is joined to the first (mask.pyx / triangulate2d convention) *)
Definition edges (poly : list pt) : list (pt * pt) :=
  match poly with [] => [] | a :: _ => path_edges (poly ++ [a]) end.
Definition parity (p : pt) (es : list (pt * pt)) : bool := fold_right xorb false (map (crosses p) es).
(* even-odd rule: inside iff the ray crosses the boundary an odd number of times *)
Definition point_in_polygon (p : pt) (poly : list pt) : bool := parity p (edges poly).

Definition rot1 {A} (l : list A) : list A := match l with [] => [] | a :: t => t ++ [a] end.
Fixpoint rotate {A} (k : nat) (l : list A) : list A := match k with O => l | S k' => rotate k' (rot1 l) end.

(* the mask as the implementation builds it (mask.pyx: triangulate2d + a mesh of triangles with value 1): a fan of
   triangles from the first vertex, combined by parity *)
Fixpoint fan_parity (p : pt) (a : pt) (l : list pt) : bool :=
  match l with
  | b :: t => match t with c :: _ => xorb (point_in_polygon p [a; b; c]) (fan_parity p a t) | [] => false end
  | [] => false
  end.
