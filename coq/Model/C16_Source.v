(* C16: the tables of the source that the hand-written model mirrors (definitions only).

   harness/c16_source.py regenerates the same tables from the CURRENT source on every run
   (coq/Gen/C16/Source.v) and the kernel checks [source_ok ... = true] there.  The tables below are maintained by
   hand together with Model/C16_Instruments.v; Proofs/C16_Source.v proves that the model's setters have exactly the
   cache effects these tables list.

   Reading the effect lists: EAssign "_x" = the attribute is assigned; EClear = self._clear_spectral_settings();
   EUpdW2p = self._update_wavelength_to_pixel(); EKwNone / EClNone = _pipeline_kwargs / _pipeline_classes := None;
   ESet "x" (constructors) = assignment through the property setter; ESuper = super().__init__(name);
   EReturnIfNone "_x" = early return when the attribute is None.
   Guards: GIntPos = value = int(value); if value <= 0: raise;  GPos = if value <= 0: raise;  GCustom = a validation
   loop (mirrored by valid_arr / acc_valid / all_some);  GNone = no guard. *)
Require Import Cherab.Common.Qx.
Require Import Cherab.Model.C16_Instruments.
From Coq Require Import String.
Open Scope Q_scope.

Inductive eff := EAssign (a : string) | EClear | EUpdW2p | EKwNone | EClNone | ESet (a : string) | ESuper
               | EReturnIfNone (a : string) | EUnknown (text : string).
Inductive guard := GIntPos | GPos | GCustom | GNone | GUnknown.
Inductive dflt := DNum (q : Q) | DStr (s : string) | DNone | DUnknown (text : string).
Definition setter_row : Type := string * string * guard * list eff * list string.

(* the effect of one statement on the caches of SpectroscopicInstrument; [acc_set]: _accommodated_spectra is not None *)
Definition eff_base (acc_set : bool) (e : eff) (b : base) : base :=
  match e with
  | EClear => clear_spectral b
  | EUpdW2p => if acc_set then clear_spectral b else b          (* _update_wavelength_to_pixel ends with EClear *)
  | EKwNone => set_kwargs b None
  | EClNone => set_classes b NoneV
  | _ => b
  end.
Definition run_effs (acc_set : bool) (l : list eff) (b : base) : base := fold_left (fun b e => eff_base acc_set e b) l b.

Definition model_setters : list setter_row := [("SpectroscopicInstrument"%string, "name"%string, GNone, [EAssign "_name"%string; EKwNone], []);
   ("Spectrometer"%string, "wavelength_to_pixel"%string, GCustom, [EAssign "_wavelength_to_pixel"%string; EAssign "_wavelengths"%string; EClear], ["ValueError"%string]);
   ("Spectrometer"%string, "min_bins_per_pixel"%string, GIntPos, [EAssign "_min_bins_per_pixel"%string; EClear], ["ValueError"%string]);
   ("CzernyTurnerSpectrometer"%string, "diffraction_order"%string, GIntPos, [EAssign "_diffraction_order"%string; EUpdW2p], ["ValueError"%string]);
   ("CzernyTurnerSpectrometer"%string, "grating"%string, GPos, [EAssign "_grating"%string; EUpdW2p], ["ValueError"%string]);
   ("CzernyTurnerSpectrometer"%string, "focal_length"%string, GPos, [EAssign "_focal_length"%string; EUpdW2p], ["ValueError"%string]);
   ("CzernyTurnerSpectrometer"%string, "pixel_spacing"%string, GPos, [EAssign "_pixel_spacing"%string; EUpdW2p], ["ValueError"%string]);
   ("CzernyTurnerSpectrometer"%string, "diffraction_angle"%string, GPos, [EAssign "_diffraction_angle"%string; EUpdW2p], ["ValueError"%string]);
   ("CzernyTurnerSpectrometer"%string, "accommodated_spectra"%string, GCustom, [EAssign "_accommodated_spectra"%string; EUpdW2p], ["ValueError"%string]);
   ("Polychromator"%string, "min_bins_per_window"%string, GIntPos, [EAssign "_min_bins_per_window"%string; EClear], ["ValueError"%string]);
   ("Polychromator"%string, "filters"%string, GCustom, [EAssign "_filters"%string; EClear; EClNone; EKwNone], ["TypeError"%string]);
   ("SpectroscopicInstrument"%string, "_clear_spectral_settings"%string, GNone, [EAssign "_min_wavelength"%string; EAssign "_max_wavelength"%string; EAssign "_spectral_bins"%string], []);
   ("CzernyTurnerSpectrometer"%string, "_update_wavelength_to_pixel"%string, GCustom, [EReturnIfNone "_accommodated_spectra"%string; EAssign "_wavelength_to_pixel"%string; EAssign "_wavelengths"%string; EClear], [])].

(* the order of the assignments in the constructors: mirrored by sp_construct / ct_construct / pc_construct;
   CzernyTurnerSpectrometer has no ESuper, hence _pipeline_classes is never assigned (Missing) *)
Definition model_ctors : list (string * list eff) := [("SpectroscopicInstrument"%string, [EClNone; ESet "name"%string; EClear]);
   ("Spectrometer"%string, [ESet "min_bins_per_pixel"%string; ESet "wavelength_to_pixel"%string; ESuper]);
   ("CzernyTurnerSpectrometer"%string, [EAssign "_accommodated_spectra"%string; ESet "diffraction_order"%string; ESet "grating"%string; ESet "focal_length"%string; ESet "pixel_spacing"%string; ESet "diffraction_angle"%string; ESet "accommodated_spectra"%string; ESet "min_bins_per_pixel"%string; ESet "name"%string]);
   ("Polychromator"%string, [ESuper; ESet "min_bins_per_window"%string; ESet "filters"%string])].

(* (property, cache tested for None, hook called, attribute returned): mirrored by gstep *)
Definition model_getters : list (string * string * string * string) := [("name"%string, ""%string, ""%string, "_name"%string);
   ("pipeline_classes"%string, "_pipeline_classes"%string, "_update_pipeline_classes"%string, "_pipeline_classes"%string);
   ("pipeline_kwargs"%string, "_pipeline_kwargs"%string, "_update_pipeline_kwargs"%string, "_pipeline_kwargs"%string);
   ("min_wavelength"%string, "_min_wavelength"%string, "_update_spectral_settings"%string, "_min_wavelength"%string);
   ("max_wavelength"%string, "_max_wavelength"%string, "_update_spectral_settings"%string, "_max_wavelength"%string);
   ("spectral_bins"%string, "_spectral_bins"%string, "_update_spectral_settings"%string, "_spectral_bins"%string)].

Definition model_defaults : list (string * string * dflt) := [("SpectroscopicInstrument"%string, "name"%string, DStr ""%string);
   ("Spectrometer"%string, "min_bins_per_pixel"%string, DNum (Qmake 1 1));
   ("Spectrometer"%string, "name"%string, DStr ""%string);
   ("CzernyTurnerSpectrometer"%string, "min_bins_per_pixel"%string, DNum (Qmake 1 1));
   ("CzernyTurnerSpectrometer"%string, "name"%string, DStr ""%string);
   ("PolychromatorFilter"%string, "normalise"%string, DStr "False"%string);
   ("PolychromatorFilter"%string, "name"%string, DStr ""%string);
   ("TrapezoidalFilter"%string, "window"%string, DNum (Qmake 3 1));
   ("TrapezoidalFilter"%string, "flat_top"%string, DNone);
   ("TrapezoidalFilter"%string, "name"%string, DStr ""%string);
   ("Polychromator"%string, "min_bins_per_window"%string, DNum (Qmake 10 1));
   ("Polychromator"%string, "name"%string, DStr ""%string)].

(* functions mirrored as a whole; the text is ast.unparse of the body without docstring (comments and layout do not
   matter).  Mirrored by: SpectroscopicInstrument.create_pipelines -> gstep ... CreatePipelines; Spectrometer._update_pipeline_classes -> sp_view (v_cl); Spectrometer._update_pipeline_kwargs -> sp_view (v_kw); Spectrometer._update_spectral_settings -> sp_derive; Spectrometer.calibrate -> calibrate_call / calibrate / calibrate_arr; CzernyTurnerSpectrometer._update_wavelength_to_pixel -> ct_update_w2p / ct_edges; PolychromatorFilter.__init__ -> mk_filter; TrapezoidalFilter.__init__ -> mk_trapezoid; Polychromator._update_pipeline_classes -> pc_view (v_cl); Polychromator._update_pipeline_kwargs -> pc_view (v_kw); Polychromator._update_spectral_settings -> pc_derive *)
Definition model_consts : list (string * string) := [("SpectroscopicInstrument.create_pipelines"%string, "if self._pipeline_classes is None: self._update_pipeline_classes() ; if self._pipeline_kwargs is None: self._update_pipeline_kwargs() ; pipelines = [] ; for PipelineClass, kwargs in zip(self._pipeline_classes, self._pipeline_kwargs): pipeline = PipelineClass(**kwargs) pipelines.append(pipeline) ; return pipelines"%string);
   ("Spectrometer._update_pipeline_classes"%string, "self._pipeline_classes = [SpectralRadiancePipeline0D]"%string);
   ("Spectrometer._update_pipeline_kwargs"%string, "self._pipeline_kwargs = [{'name': self._name}]"%string);
   ("Spectrometer._update_spectral_settings"%string, "self._min_wavelength = min((wl2pix[0] for wl2pix in self._wavelength_to_pixel)) ; self._max_wavelength = max((wl2pix[-1] for wl2pix in self._wavelength_to_pixel)) ; step = min((np.diff(wl2pix).min() for wl2pix in self._wavelength_to_pixel)) / self._min_bins_per_pixel ; self._spectral_bins = int(np.ceil((self._max_wavelength - self._min_wavelength) / step))"%string);
   ("Spectrometer.calibrate"%string, "if not isinstance(spectrum, Spectrum): raise TypeError('Argument spectrum must be a Spectrum instance.') ; if spectrum.min_wavelength > self.min_wavelength or spectrum.max_wavelength < self.max_wavelength: raise ValueError('Unable to calibrate the spectrum. The spectrum has narrower range ({}, {}) than the spectrometer ({}, {}).'.format(spectrum.min_wavelength, spectrum.max_wavelength, self.min_wavelength, self.max_wavelength)) ; calibrated_spectra = [] ; for wl2pix in self.wavelength_to_pixel: calibrated_spectrum = np.zeros(wl2pix.size - 1) for i in range(wl2pix.size - 1): calibrated_spectrum[i] = spectrum.integrate(wl2pix[i], wl2pix[i + 1]) / (wl2pix[i + 1] - wl2pix[i]) calibrated_spectra.append(calibrated_spectrum) ; return calibrated_spectra"%string);
   ("CzernyTurnerSpectrometer._update_wavelength_to_pixel"%string, "if self._accommodated_spectra is None: return ; _wavelength_to_pixel = [] ; _wavelengths = [] ; for min_wavelength, pixels in self._accommodated_spectra: pixels = int(pixels) wl2pix = np.zeros(pixels + 1) wl2pix[0] = min_wavelength for i in range(1, pixels + 1): wl2pix[i] = wl2pix[i - 1] + self.resolution(wl2pix[i - 1]) wl2pix.flags.writeable = False _wavelength_to_pixel.append(wl2pix) wl_center = 0.5 * (wl2pix[1:] + wl2pix[:-1]) wl_center.flags.writeable = False _wavelengths.append(wl_center) ; self._wavelength_to_pixel = tuple(_wavelength_to_pixel) ; self._wavelengths = tuple(_wavelengths) ; self._clear_spectral_settings()"%string);
   ("PolychromatorFilter.__init__"%string, "wavelengths = np.array(wavelengths, dtype=np.float64) ; samples = np.array(samples, dtype=np.float64) ; if wavelengths.ndim != 1: raise ValueError('Wavelength array must be 1D.') ; if samples.shape[0] != wavelengths.shape[0]: raise ValueError('Wavelength and sample arrays must be the same length.') ; indices = np.argsort(wavelengths) ; wavelengths = wavelengths[indices] ; samples = samples[indices] ; self._min_wavelength = wavelengths[0] ; self._max_wavelength = wavelengths[-1] ; self._window = self._max_wavelength - self._min_wavelength ; self._central_wavelength = 0.5 * (self._max_wavelength + self._min_wavelength) ; if samples[0] != 0: wavelengths = np.insert(wavelengths, 0, wavelengths[0] * (1.0 - 1e-15)) samples = np.insert(samples, 0, 0) ; if samples[-1] != 0: wavelengths = np.append(wavelengths, wavelengths[-1] * (1.0 + 1e-15)) samples = np.append(samples, 0) ; super().__init__(wavelengths, samples, normalise) ; self._name = str(name)"%string);
   ("TrapezoidalFilter.__init__"%string, "if central_wavelength <= 0: raise ValueError(""Argument 'central_wavelength' must be positive."") ; if window <= 0: raise ValueError(""Argument 'window' must be positive."") ; flat_top = flat_top or window ; if flat_top <= 0: raise ValueError(""Argument 'flat_top' must be positive."") ; if flat_top > window: raise ValueError(""Argument 'flat_top' must be less or equal than 'window'."") ; self._flat_top = flat_top ; if flat_top == window: flat_top -= flat_top * 1e-15 ; wavelengths = [central_wavelength - 0.5 * window, central_wavelength - 0.5 * flat_top, central_wavelength + 0.5 * flat_top, central_wavelength + 0.5 * window] ; samples = [0, 1, 1, 0] ; super().__init__(wavelengths, samples, normalise=False, name=name)"%string);
   ("Polychromator._update_pipeline_classes"%string, "self._pipeline_classes = [RadiancePipeline0D for poly_filter in self._filters]"%string);
   ("Polychromator._update_pipeline_kwargs"%string, "self._pipeline_kwargs = [{'name': self._name + ': ' + poly_filter.name, 'filter': poly_filter} for poly_filter in self._filters]"%string);
   ("Polychromator._update_spectral_settings"%string, "min_wavelength = np.inf ; max_wavelength = 0 ; step = np.inf ; for poly_filter in self._filters: step = min(step, poly_filter.window / self._min_bins_per_window) min_wavelength = min(min_wavelength, poly_filter.min_wavelength) max_wavelength = max(max_wavelength, poly_filter.max_wavelength) ; self._min_wavelength = min_wavelength ; self._max_wavelength = max_wavelength ; self._spectral_bins = int(np.ceil((max_wavelength - min_wavelength) / step))"%string)].

(* the functions every class of the anchored files defines (with decorators) and its bases: an override added in a
   subclass, a removed setter or a new method changes what the model has to mirror *)
Definition model_members : list (string * list string * list string) := [("SpectroscopicInstrument"%string, [], ["__init__"%string; "name@property"%string; "name@name.setter"%string; "pipeline_classes@property"%string; "pipeline_kwargs@property"%string; "create_pipelines"%string; "min_wavelength@property"%string; "max_wavelength@property"%string; "spectral_bins@property"%string; "_clear_spectral_settings"%string; "_update_spectral_settings"%string; "_update_pipeline_classes"%string; "_update_pipeline_kwargs"%string]);
   ("Spectrometer"%string, ["SpectroscopicInstrument"%string], ["__init__"%string; "wavelength_to_pixel@property"%string; "wavelength_to_pixel@wavelength_to_pixel.setter"%string; "wavelengths@property"%string; "min_bins_per_pixel@property"%string; "min_bins_per_pixel@min_bins_per_pixel.setter"%string; "_update_pipeline_classes"%string; "_update_pipeline_kwargs"%string; "_update_spectral_settings"%string; "calibrate"%string]);
   ("CzernyTurnerSpectrometer"%string, ["Spectrometer"%string], ["__init__"%string; "diffraction_order@property"%string; "diffraction_order@diffraction_order.setter"%string; "grating@property"%string; "grating@grating.setter"%string; "focal_length@property"%string; "focal_length@focal_length.setter"%string; "pixel_spacing@property"%string; "pixel_spacing@pixel_spacing.setter"%string; "diffraction_angle@property"%string; "diffraction_angle@diffraction_angle.setter"%string; "accommodated_spectra@property"%string; "accommodated_spectra@accommodated_spectra.setter"%string; "_update_wavelength_to_pixel"%string; "wavelength_to_pixel@property"%string; "resolution"%string]);
   ("PolychromatorFilter"%string, ["InterpolatedSF"%string], ["__init__"%string; "name@property"%string; "min_wavelength@property"%string; "max_wavelength@property"%string; "window@property"%string; "central_wavelength@property"%string]);
   ("TrapezoidalFilter"%string, ["PolychromatorFilter"%string], ["__init__"%string; "flat_top@property"%string]);
   ("Polychromator"%string, ["SpectroscopicInstrument"%string], ["__init__"%string; "min_bins_per_window@property"%string; "min_bins_per_window@min_bins_per_window.setter"%string; "filters@property"%string; "filters@filters.setter"%string; "_update_pipeline_classes"%string; "_update_pipeline_kwargs"%string; "_update_spectral_settings"%string])].

(* the double 1.e-15 of TrapezoidalFilter / PolychromatorFilter, and the number of places it is written *)
Definition eps15 : Q := (Qmake 2535301200456459 2535301200456458802993406410752).
Definition model_eps_sites : Z := 3.

(* ---- comparison ---- *)
Definition eff_eqb (a b : eff) : bool :=
  match a, b with
  | EAssign x, EAssign y | ESet x, ESet y | EReturnIfNone x, EReturnIfNone y => String.eqb x y
  | EClear, EClear | EUpdW2p, EUpdW2p | EKwNone, EKwNone | EClNone, EClNone | ESuper, ESuper => true
  | _, _ => false                                   (* EUnknown equals nothing *)
  end.
Definition guard_eqb (a b : guard) : bool :=
  match a, b with GIntPos, GIntPos | GPos, GPos | GCustom, GCustom | GNone, GNone => true | _, _ => false end.
Definition dflt_eqb (a b : dflt) : bool :=
  match a, b with DNum x, DNum y => Qeq_bool x y | DStr x, DStr y => String.eqb x y | DNone, DNone => true | _, _ => false end.
Fixpoint list_eqb {A} (eq : A -> A -> bool) (l1 l2 : list A) : bool :=
  match l1, l2 with [], [] => true | a :: t1, b :: t2 => eq a b && list_eqb eq t1 t2 | _, _ => false end.
Definition row_eqb (a b : setter_row) : bool :=
  match a, b with (c1, n1, g1, e1, r1), (c2, n2, g2, e2, r2) =>
    String.eqb c1 c2 && String.eqb n1 n2 && guard_eqb g1 g2 && list_eqb eff_eqb e1 e2 && list_eqb String.eqb r1 r2 end.
Definition ctor_eqb (a b : string * list eff) : bool := String.eqb (fst a) (fst b) && list_eqb eff_eqb (snd a) (snd b).
Definition getter_eqb (a b : string * string * string * string) : bool :=
  match a, b with (a1, a2, a3, a4), (b1, b2, b3, b4) => String.eqb a1 b1 && String.eqb a2 b2 && String.eqb a3 b3 && String.eqb a4 b4 end.
Definition default_eqb (a b : string * string * dflt) : bool :=
  match a, b with (a1, a2, a3), (b1, b2, b3) => String.eqb a1 b1 && String.eqb a2 b2 && dflt_eqb a3 b3 end.
Definition const_eqb (a b : string * string) : bool := String.eqb (fst a) (fst b) && String.eqb (snd a) (snd b).
Definition member_eqb (a b : string * list string * list string) : bool :=
  match a, b with (c1, b1, m1), (c2, b2, m2) => String.eqb c1 c2 && list_eqb String.eqb b1 b2 && list_eqb String.eqb m1 m2 end.

Definition source_ok (s : list setter_row) (c : list (string * list eff)) (g : list (string * string * string * string))
           (d : list (string * string * dflt)) (k : list (string * string)) (m : list (string * list string * list string))
           (e : list Q) (sites : Z) : bool :=
  list_eqb row_eqb s model_setters && list_eqb ctor_eqb c model_ctors && list_eqb getter_eqb g model_getters
  && list_eqb default_eqb d model_defaults && list_eqb const_eqb k model_consts && list_eqb member_eqb m model_members
  && list_eqb Qeq_bool e [eps15] && Z.eqb sites model_eps_sites.

(* names of the rows that differ (diagnostics printed by the generated file) *)
Fixpoint diff_names {A} (eq : A -> A -> bool) (name : A -> string) (l1 l2 : list A) : list string :=
  match l1 with
  | [] => map name l2
  | a :: t1 =>
    match l2 with
    | [] => name a :: diff_names eq name t1 []
    | b :: t2 => if eq a b then diff_names eq name t1 t2 else name a :: diff_names eq name t1 t2
    end
  end.
Definition source_diff (s : list setter_row) (c : list (string * list eff)) (g : list (string * string * string * string))
           (d : list (string * string * dflt)) (k : list (string * string)) (m : list (string * list string * list string))
           (e : list Q) (sites : Z) : list string :=
  diff_names row_eqb (fun r => match r with (c, n, _, _, _) => (c ++ "." ++ n)%string end) s model_setters
  ++ diff_names ctor_eqb (fun r => (fst r ++ ".__init__")%string) c model_ctors
  ++ diff_names getter_eqb (fun r => match r with (n, _, _, _) => ("getter " ++ n)%string end) g model_getters
  ++ diff_names default_eqb (fun r => match r with (c, a, _) => ("default " ++ c ++ "." ++ a)%string end) d model_defaults
  ++ diff_names const_eqb (fun r => ("body of " ++ fst r)%string) k model_consts
  ++ diff_names member_eqb (fun r => match r with (c, _, _) => ("members of class " ++ c)%string end) m model_members
  ++ (if list_eqb Qeq_bool e [eps15] && Z.eqb sites model_eps_sites then [] else ["literal 1.e-15"%string]).

(* the effects the tables list for one setter *)
Fixpoint effects_of (c n : string) (l : list setter_row) : list eff :=
  match l with
  | [] => []
  | (c', n', _, e, _) :: t => if String.eqb c c' && String.eqb n n' then e else effects_of c n t
  end.
