(* C13 -- bit-exact binary64 model (Coq primitive floats) of the float-specific parts of the wrappers.
   Definitions only.

   remainder_F      mirrors cherab/core/math/transform/periodic.pxd:26-36 (the inline [remainder]),
                    with libm's fmod computed exactly from the operands' integer mantissas;
   remainder_F_old  is the algorithm before commit 0cf4f10 (kept as the record of finding F10);
   clamp_F          mirrors raysect.core.math.cython.utility.clamp (used by clamp.pyx);
   radius_F_old     is sqrt(x*x + y*y), the radius of mappers.pyx / cylindrical.pyx before commit efb2198 (kept as
                    the record of the overflow/underflow finding); the code now calls libm hypot(x, y), which is not
                    correctly rounded and therefore has no bit-exact model: the comparator accurate_radius of
                    Model/C13_Check.v states what is required of it.
   PrimFloat add/mul/sqrt/next_down are the IEEE-754 binary64 round-to-nearest-even operations. *)
From Coq Require Import ZArith Bool List.
From Coq Require Import Uint63 PrimFloat SpecFloat FloatOps.
Import ListNotations.

(* ---- floats <-> integers (how values cross the Python/Coq border: sign, mantissa, exponent) ---- *)
Inductive fbits : Set :=
| FNan : fbits
| FInf : bool -> fbits                 (* true = negative *)
| FZero : bool -> fbits
| FFin : bool -> positive -> Z -> fbits. (* (-1)^s * m * 2^e, canonical (m, e) of the binary64 value *)

Definition F_of_bits (b : fbits) : float :=
  match b with
  | FNan => nan
  | FInf s => SF2Prim (S754_infinity s)
  | FZero s => SF2Prim (S754_zero s)
  | FFin s m e => SF2Prim (S754_finite s m e)
  end.

Definition bits_of_F (f : float) : fbits :=
  match Prim2SF f with
  | S754_nan => FNan
  | S754_infinity s => FInf s
  | S754_zero s => FZero s
  | S754_finite s m e => FFin s m e
  end.

Definition fbits_eqb (a b : fbits) : bool :=
  match a, b with
  | FNan, FNan => true
  | FInf s, FInf t => Bool.eqb s t
  | FZero s, FZero t => Bool.eqb s t
  | FFin s m e, FFin t n g => Bool.eqb s t && Pos.eqb m n && Z.eqb e g
  | _, _ => false
  end.

(* bit-for-bit equality of two floats (distinguishes +0 / -0, identifies all NaNs) *)
Definition F_same (a b : float) : bool := fbits_eqb (bits_of_F a) (bits_of_F b).

(* ---- C fmod(x, p): x - trunc(x/p)*p computed exactly; the result has the sign of x ---- *)
(* the integer core: |x| = mx * 2^ex, |p| = mp * 2^ep; both are brought to the common exponent e = min ex ep and the
   integer remainder is taken.  Returns (r, e) with |fmod(x, p)| = r * 2^e  (proved exact in Proofs/C13_Periodic.v). *)
Definition fmod_int (mx : positive) (ex : Z) (mp : positive) (ep : Z) : Z * Z :=
  let e := Z.min ex ep in
  (((Zpos mx * 2 ^ (ex - e)) mod (Zpos mp * 2 ^ (ep - e)))%Z, e).

Definition fmod_F (x p : float) : float :=
  match Prim2SF x, Prim2SF p with
  | S754_nan, _ => nan
  | _, S754_nan => nan
  | S754_infinity _, _ => nan
  | _, S754_zero _ => nan
  | S754_zero _, _ => x
  | S754_finite _ _ _, S754_infinity _ => x
  | S754_finite sx mx ex, S754_finite _ mp ep =>
      let '(r, e) := fmod_int mx ex mp ep in
      (* r < P and r <= X: r * 2^e needs at most 53 bits at exponent e, so this conversion is exact *)
      SF2Prim (binary_normalize prec emax (if sx then - r else r)%Z e sx)
  end.

(* C nextafter(p, 0) *)
Definition toward_zero_F (p : float) : float :=
  if (zero <? p)%float then next_down p else if (p <? zero)%float then next_up p else p.

(* periodic.pxd:26-36 *)
Definition remainder_F (x1 x2 : float) : float :=
  if (x2 =? zero)%float then x1
  else
    let r := fmod_F x1 x2 in
    if (r <? zero)%float then
      let r' := (r + x2)%float in
      if (r' =? x2)%float then toward_zero_F x2 else r'
    else r.

(* the same function before commit 0cf4f10:  return x1 + x2 if (x1 < 0) else x1 *)
Definition remainder_F_old (x1 x2 : float) : float :=
  if (x2 =? zero)%float then x1
  else
    let r := fmod_F x1 x2 in
    if (r <? zero)%float then (r + x2)%float else r.

(* the range claim of the property, decided on floats: 0 <= r < p (p > 0) *)
Definition in_period_F (r p : float) : bool := (zero <=? r)%float && (r <? p)%float.

(* raysect clamp: if v < lo: lo; if v > hi: hi; v  (a NaN passes through) *)
Definition clamp_F (v lo hi : float) : float :=
  if (v <? lo)%float then lo else if (hi <? v)%float then hi else v.

(* sqrt(x*x + y*y), three correctly rounded operations: the radius before commit efb2198 *)
Definition radius_F_old (x y : float) : float := sqrt (x * x + y * y)%float.

(* ---- exact rational value of a finite float (for statements that relate floats to Q) ---- *)
From Coq Require Import QArith.
Definition Q_of_bits (b : fbits) : option Q :=
  match b with
  | FZero _ => Some 0%Q
  | FFin s m e =>
      let mz := if s then Zneg m else Zpos m in
      Some (match e with
            | Zneg k => Qmake mz (2 ^ k)%positive
            | _ => inject_Z (mz * 2 ^ e)
            end)
  | _ => None
  end.

(* ---- numpy.linspace(start, stop, num) (endpoint=True) evaluated in binary64, as samplers.pyx calls it (numpy 1.26
   core/function_base.py): step = (stop - start) / (num - 1); y_i = i * step + start (or (i / (num - 1)) * (stop - start)
   + start when the step underflows to zero); the last point is then set to stop itself; for num = 1 the single point is
   0 * (stop - start) + start.  Every operation is one correctly rounded binary64 operation. *)
Definition F_of_Z (i : Z) : float := of_uint63 (Uint63.of_Z i).
Definition linspace_F_at (n : Z) (a b : float) (i : Z) : float :=
  let delta := (b - a)%float in
  let fi := F_of_Z i in
  if (0 <? n - 1)%Z then
    if (i =? n - 1)%Z then b
    else
      let div := F_of_Z (n - 1) in
      let step := (delta / div)%float in
      if (step =? zero)%float then (fi / div * delta + a)%float else (fi * step + a)%float
  else (fi * delta + a)%float.
Definition linspace_F (n : Z) (a b : float) : list float :=
  map (linspace_F_at n a b) (map Z.of_nat (seq 0 (Z.to_nat n))).
