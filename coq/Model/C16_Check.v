(* Executable comparators used by the correspondence check of C16 (definitions only).
   The model is run with rnd := round53 and the outputs of every public call of a history are
   compared with what the implementation returned: exactly (Qeq_bool / Z.eqb / string equality). *)
Require Import Cherab.Common.Qx.
Require Import Cherab.Model.C16_Instruments.
From Coq Require Import String Qabs.
Open Scope Q_scope.

Fixpoint forallb2 {A B} (p : A -> B -> bool) (l1 : list A) (l2 : list B) : bool :=
  match l1, l2 with
  | [], [] => true
  | a :: t1, b :: t2 => p a b && forallb2 p t1 t2
  | _, _ => false
  end.

Definition err_eqb (a b : err) : bool :=
  match a, b with
  | ErrValue, ErrValue | ErrType, ErrType | ErrAttribute, ErrAttribute | ErrOther, ErrOther => true
  | _, _ => false
  end.
Definition xq_eqb (a b : xq) : bool :=
  match a, b with Fin x, Fin y => Qeq_bool x y | PInf, PInf => true | _, _ => false end.
Definition pclass_eqb (a b : pclass) : bool :=
  match a, b with SpectralRadiance0D, SpectralRadiance0D | Radiance0D, Radiance0D => true | _, _ => false end.
Definition optz_eqb (a b : option Z) : bool :=
  match a, b with Some x, Some y => Z.eqb x y | None, None => true | _, _ => false end.
Definition kwarg_eqb (a b : kwarg) : bool :=
  String.eqb (kw_name a) (kw_name b) && optz_eqb (kw_filter a) (kw_filter b).
Definition out_eqb (a b : out) : bool :=
  match a, b with
  | OUnit, OUnit => true
  | OX x, OX y => xq_eqb x y
  | OZ x, OZ y => Z.eqb x y
  | OArrs x, OArrs y => forallb2 (forallb2 Qeq_bool) x y
  | OKw x, OKw y => forallb2 kwarg_eqb x y
  | OCl x, OCl y => forallb2 pclass_eqb x y
  | OErr x, OErr y => err_eqb x y
  | OPipes x, OPipes y => forallb2 (fun a b => pclass_eqb (fst a) (fst b) && kwarg_eqb (snd a) (snd b)) x y
  | _, _ => false
  end.

(* position of the first disagreeing call + 1, 0 when all calls agree (and the lengths agree) *)
Fixpoint first_diff (i : Z) (l1 l2 : list out) : Z :=
  match l1, l2 with
  | [], [] => 0
  | a :: t1, b :: t2 => if out_eqb a b then first_diff (i + 1) t1 t2 else i
  | _, _ => i
  end.

Definition no_res (k : ct_key) (w : Q) : Q := 0.
Definition no_d2r (x : Q) : Q := 0.

(* ---- Spectrometer ---- *)
(* 0 = agree; n > 0 = the n-th public call (1-based; call 1 is the constructor) disagrees *)
Definition check_sp (p : sp_params) (ops : list sp_op) (expected : list out) : Z :=
  match sp_construct round53 p with
  | Ok s => first_diff 1 (OUnit :: snd (run (sp_step round53) ops s)) expected
  | Err e => first_diff 1 [OErr e] expected
  end.

(* ---- Polychromator ---- *)
Definition check_pc (p : pc_params) (ops : list pc_op) (expected : list out) : Z :=
  match pc_construct p with
  | Ok s => first_diff 1 (OUnit :: snd (run (pc_step round53) ops s)) expected
  | Err e => first_diff 1 [OErr e] expected
  end.

(* filters: (min_wavelength, max_wavelength, window, central_wavelength) of the implementation's filter object *)
Definition filter_eqb (f : res pfilter) (impl : res (Q * Q * Q * Q)) : bool :=
  match f, impl with
  | Ok f, Ok (mn, mx, w, ce) => Qeq_bool (f_min f) mn && Qeq_bool (f_max f) mx && Qeq_bool (f_window f) w
                                && Qeq_bool (f_central f) ce
  | Err e, Err e' => err_eqb e e'
  | _, _ => false
  end.

(* ---- Czerny-Turner: the resolution oracle is a finite table taken from the running system ---- *)
Definition key_eqb (a b : ct_key) : bool :=
  Z.eqb (k_order a) (k_order b) && Qeq_bool (k_grating a) (k_grating b) && Qeq_bool (k_focal a) (k_focal b)
  && Qeq_bool (k_spacing a) (k_spacing b) && Qeq_bool (k_angle a) (k_angle b).

Definition oracle_missing : Q := - pow2 100.

Fixpoint lookup_w (t : list (Q * Q)) (w : Q) : Q :=
  match t with
  | [] => oracle_missing
  | (w', r) :: t' => if Qeq_bool w w' then r else lookup_w t' w
  end.
Fixpoint lookup_res (t : list (ct_key * list (Q * Q))) (k : ct_key) (w : Q) : Q :=
  match t with
  | [] => oracle_missing
  | (k', tw) :: t' => if key_eqb k k' then lookup_w tw w else lookup_res t' k w
  end.

Definition has_missing (o : out) : bool :=
  match o with
  | OArrs a => existsb (existsb (fun x => Qle_bool x (- pow2 90))) a
  | _ => false
  end.

(* ---- the entries of the resolution table against the formula [resolution_of] ----
   Certificate form (no square root needed): with S := r * (m fl g) / dxdp + p tan, the value r is the formula's
   value iff S >= 0 and S^2 = cos^2 - p^2 (Proofs/C16_Resolution.v, resolution_certificate_exact); on doubles the
   equation is required up to relative 2^-40.  cosa, tana are the running system's np.cos / np.tan of the stored
   angle; they are tied to each other by cos^2 (1 + tan^2) = 1 (same tolerance), not to the angle. *)
Definition res_tol : Q := pow2 (-40).
Definition resolution_entry_ok (cosa tana : Q) (k : ct_key) (w r : Q) : bool :=
  let p := res_p k w in
  let S := r * res_den k / k_spacing k + p * tana in
  Qle_bool 0 S && close res_tol 0 (Qred (S * S)) (Qred (cosa * cosa - p * p)).
Definition trig_ok (cosa tana : Q) : bool :=
  Qle_bool 0 cosa && Qle_bool 0 tana && close res_tol 0 (cosa * cosa * (1 + tana * tana)) 1.
Definition check_res_table (tab : list (ct_key * (Q * Q) * list (Q * Q))) : bool :=
  forallb (fun row => match row with (k, (c, t), ents) =>
             trig_ok c t && forallb (fun wr => resolution_entry_ok c t k (fst wr) (snd wr)) ents end) tab.
Definition strip_trig (tab : list (ct_key * (Q * Q) * list (Q * Q))) : list (ct_key * list (Q * Q)) :=
  map (fun row => match row with (k, _, ents) => (k, ents) end) tab.

(* [d2r] is the double pi/180 of the running system (np.deg2rad(x) = x * d2r) *)
Definition check_ct (d2r : Q) (tab : list (ct_key * list (Q * Q))) (p : ct_params) (ops : list ct_op)
           (expected : list out) : Z :=
  let deg2rad := fun x => round53 (x * d2r) in
  match ct_construct round53 (lookup_res tab) deg2rad p with
  | Ok s => let outs := snd (run (ct_step round53 (lookup_res tab) deg2rad) ops s) in
            if existsb has_missing outs then (-1)%Z
            else first_diff 1 (OUnit :: outs) expected
  | Err e => first_diff 1 [OErr e] expected
  end.

(* ---- calibrate ---- *)
(* fast evaluator of segs_integral: reduced fractions, and segments that lie entirely to one side of
   [a,b] are skipped (their contribution is zero); proved == in Proofs/C16_Check.v *)
Definition seg_outside (x0 x1 a b : Q) : bool :=
  Qle_bool x0 x1 && ((Qle_bool a x0 && Qle_bool b x0) || (Qle_bool x1 a && Qle_bool x1 b)).

Fixpoint segs_integral_red (xs ys : list Q) (a b : Q) : Q :=
  match xs, ys with
  | x0 :: ((x1 :: _) as xt), y0 :: ((y1 :: _) as yt) =>
    if seg_outside x0 x1 a b then segs_integral_red xt yt a b
    else Qred (Qred (seg_integral x0 y0 x1 y1 a b) + segs_integral_red xt yt a b)
  | _, _ => 0
  end.
Definition pl_integral_red (xs ys : list Q) (a b : Q) : Q :=
  Qred (hd 0 ys * len_below (hd 0 xs) a b + segs_integral_red xs ys a b + last ys 0 * len_above (last xs 0) a b).

Definition cal_abs : Q := pow2 (-50).
Definition cal_eqb (m : res (list (list Q))) (impl : res (list (list Q))) : bool :=
  match m, impl with
  | Ok a, Ok b => forallb2 (forallb2 (close rel40 cal_abs)) a b
  | Err e, Err e' => err_eqb e e'
  | _, _ => false
  end.

(* the instrument's range comes from the model of the Spectrometer; xs, ys = bin centres and samples
   of the raysect Spectrum, smin/smax its range *)
Definition check_cal_arg (p : sp_params) (a : cal_arg) (impl : res (list (list Q))) : bool :=
  match sp_construct round53 p with
  | Ok s =>
    match d_min (v_d (sp_view round53 s)), d_max (v_d (sp_view round53 s)) with
    | Some (Fin mn), Some (Fin mx) => cal_eqb (calibrate_call pl_integral_red mn mx (sp_w2p s) a) impl
    | _, _ => false
    end
  | Err _ => false
  end.

Definition check_cal (p : sp_params) (smin smax : Q) (xs ys : list Q) (impl : res (list (list Q))) : bool :=
  check_cal_arg p (ASpectrum smin smax xs ys) impl.

(* the same, after every entry of the resolution table has been checked against the formula; -2 = an entry fails *)
Definition check_ct_full (d2r : Q) (tab : list (ct_key * (Q * Q) * list (Q * Q))) (p : ct_params) (ops : list ct_op)
           (expected : list out) : Z :=
  if check_res_table tab then check_ct d2r (strip_trig tab) p ops expected else (-2)%Z.
