(* Executable comparators used by the correspondence check of C17 (definitions only).
   Every comparator evaluates the model of Model/C17_Voxels.v on the case's inputs and compares with
   the numbers recorded from the running implementation.  Result codes: 0 = agree, 1 = differ,
   2 = ambiguous (a deciding comparison has a margin below the tolerance; not compared). *)
Require Import Cherab.Common.Qx.
Require Import Cherab.Model.C17_Voxels.
From Coq Require Import Qabs.
Open Scope Q_scope.

Fixpoint forallb2 {A B} (p : A -> B -> bool) (l1 : list A) (l2 : list B) : bool :=
  match l1, l2 with
  | [], [] => true
  | a :: t1, b :: t2 => p a b && forallb2 p t1 t2
  | _, _ => false
  end.

Definition pt_eqb (a b : pt) : bool := Qeq_bool (px a) (px b) && Qeq_bool (py a) (py b).
Definition within (tol a b : Q) : bool := Qle_bool (Qabs (a - b)) tol.

(* ---- fast evaluators: the model's sums with the fractions reduced after every addition; proved equal to
   the model in Proofs/C17_Check.v ---- *)
Fixpoint open_sum_r (g : pt -> pt -> Q) (l : list pt) : Q :=
  match l with
  | a :: ((b :: _) as t) => Qred (g a b + open_sum_r g t)
  | _ => 0
  end.
Definition cyc_sum_r (g : pt -> pt -> Q) (l : list pt) : Q :=
  match l with
  | [] => 0
  | a :: _ => Qred (open_sum_r g l + g (last l a) a)
  end.
Definition area_r (l : list pt) : Q := Qred (Qabs (cyc_sum_r cross l) / 2).
Definition centroid_r (l : list pt) : option pt :=
  let a := Qred (cyc_sum_r cross l / 2) in
  if Qeq_bool a 0 then None
  else Some (Qred (cyc_sum_r gx l / (6 * a)), Qred (cyc_sum_r gy l / (6 * a))).
Definition volume_r (pi : Q) (l : list pt) : Q :=
  match centroid_r l with
  | Some c => Qred (2 * pi * (px c * area_r l))
  | None => 0
  end.
Definition total_volume_r (pi : Q) (voxels : list (list pt)) : Q :=
  fold_left (fun acc v => Qred (acc + volume_r pi (normalise v))) voxels 0.

(* ---- rounding-error scales (exact): sums of the absolute values of the terms the code adds ---- *)
Definition acr (a b : pt) : Q := Qabs (px a * py b) + Qabs (px b * py a).
Definition agx (a b : pt) : Q := Qabs (px a + px b) * acr a b.
Definition agy (a b : pt) : Q := Qabs (py a + py b) * acr a b.
Definition eps48 : Q := pow2 (-48).
Definition nq (l : list pt) : Q := inject_Z (Z.of_nat (length l)).

(* |float shoelace sum - exact| <= (n+2) 2^-53 * cyc_sum acr; the tolerance below is 32 times that
   bound with n in place of n+2, and correspondingly for the centroid and the volume *)
Definition tol_area (l : list pt) : Q := Qred (eps48 * nq l * cyc_sum_r acr l / 2).
Definition tol_centroid (num_scale : Q) (c : Q) (l : list pt) : Q :=
  let s := Qabs (cyc_sum_r cross l) in
  Qred (eps48 * nq l * (num_scale / (3 * s) + Qabs c * cyc_sum_r acr l / s) + pow2 (-50) * Qabs c).

Definition err_code (r : err + list pt) : Z :=
  match r with inl ErrType => 1 | inl ErrValue => 2 | inr _ => 0 end%Z.

(* small dyadic inputs: every coordinate is k / 256 with |k| < 2^15 and there are at most 12 vertices.  Then every
   product and partial sum of the shoelace and centroid loops is an integer multiple of 2^-24 below 2^53 in
   magnitude, i.e. computed without rounding: the area is exact, each centroid coordinate carries the one rounding
   of its division (relative 2^-53), the volume three roundings.  Tolerances: 0, 2^-52, 2^-51 relative. *)
Definition small_coord (x : Q) : bool :=
  let q := Qred (x * 256) in Pos.eqb (Qden q) 1 && (Z.abs (Qnum q) <? 32768)%Z.
Definition small_dyadic (l : list pt) : bool :=
  (Z.of_nat (length l) <=? 12)%Z && forallb (fun p => small_coord (px p) && small_coord (py p)) l.

(* wider class for the area alone: coordinates k / 4096 with |k| < 2^23, at most 12 vertices: products are
   multiples of 2^-24 below 2^46, sums of 24 of them below 2^51 -- the shoelace sum is computed without rounding *)
Definition mid_coord (x : Q) : bool :=
  let q := Qred (x * 4096) in Pos.eqb (Qden q) 1 && (Z.abs (Qnum q) <? 8388608)%Z.
Definition area_exact_dyadic (l : list pt) : bool :=
  (Z.of_nat (length l) <=? 12)%Z && forallb (fun p => mid_coord (px p) && mid_coord (py p)) l.

(* geometry of one voxel: stored vertex list (exactly), area, centroid, volume *)
Definition check_geom (user stored : list pt) (pi a cx cy vol : Q) : Z :=
  match stored_vertices user with
  | inl _ => 1%Z
  | inr l =>
    if negb (forallb2 pt_eqb l stored) then 1%Z
    else match centroid_r l with
         | None => 1%Z
         | Some c =>
           let sd := small_dyadic l in
           let ta := if sd || area_exact_dyadic l then 0 else tol_area l in
           let tx := if sd then pow2 (-52) * Qabs (px c) else tol_centroid (cyc_sum_r agx l) (px c) l in
           let ty := if sd then pow2 (-52) * Qabs (py c) else tol_centroid (cyc_sum_r agy l) (py c) l in
           let v := volume_r pi l in
           let tv := if sd then pow2 (-51) * Qabs v
                     else 2 * pi * (tx * area_r l + Qabs (px c) * ta) + pow2 (-50) * Qabs v in
           if within ta (area_r l) a && within tx (px c) cx && within ty (py c) cy && within tv v vol
           then 0%Z else 1%Z
         end
  end.

(* zero-area vertex lists: area 0, centroid raises ZeroDivisionError (raised = true), volume 0 *)
Definition check_degenerate (user stored : list pt) (a vol : Q) (raised : bool) : Z :=
  match stored_vertices user with
  | inl _ => 1%Z
  | inr l =>
    if forallb2 pt_eqb l stored && Qeq_bool (area_r l) 0 && Qeq_bool a 0 && Qeq_bool vol 0 && raised
       && match centroid_r l with None => true | Some _ => false end && Qeq_bool (volume_r 1 l) 0
    then 0%Z else 1%Z
  end.

(* constructor errors: 0 = accepted, 1 = TypeError, 2 = ValueError *)
Definition check_err (user : list pt) (code : Z) : Z :=
  if (err_code (stored_vertices user) =? code)%Z then 0%Z else 1%Z.

(* grid total: the per-voxel rounding budgets of check_geom added up (small cells far from the axis are
   ill-conditioned: relative error ~ 2^-53 R z / cell^2), plus 2^-44 relative for the summation itself *)
Definition vol_budget (pi : Q) (l : list pt) : Q :=
  match centroid_r l with
  | None => 0
  | Some c =>
    let ta := tol_area l in
    let tx := tol_centroid (cyc_sum_r agx l) (px c) l in
    Qred (2 * pi * (tx * area_r l + Qabs (px c) * ta) + pow2 (-50) * Qabs (volume_r pi l))
  end.
Definition check_total (pi : Q) (polys : list (list pt)) (total : Q) : Z :=
  let m := total_volume_r pi polys in
  let tol := Qred (Qsum (map (fun v => vol_budget pi (normalise v)) polys)) + pow2 (-44) * Qabs m in
  if within tol m total then 0%Z else 1%Z.

(* ---- emissivity ---------------------------------------------------------------------------------- *)
Definition sqrt_tbl (tbl : list (Q * Q)) (u : Q) : Q :=
  match find (fun p => Qeq_bool (fst p) u) tbl with Some p => snd p | None => 0 end.

(* the implementation's sqrt(u1): accepted when in [0,1] and its square is within 2^-50 of u1 *)
Definition sqrt_ok (p : Q * Q) : bool :=
  Qle_bool 0 (snd p) && Qle_bool (snd p) 1 && within (pow2 (-50)) (snd p * snd p) (fst p).

Definition maxabs_pts (l : list pt) : Q :=
  fold_right (fun p m => Qmaxabs (Qmaxabs (px p) (py p)) m) 0 l.

(* margin of the lookup: v must be at least 2^-40 * total away from every cumulative area *)
Definition clear_of (cum : list Q) (total v : Q) : bool :=
  forallb (fun c => negb (within (pow2 (-40) * total) c v)) cum.

Definition check_emissivity (l : list pt) (tris : list tri) (tbl : list (Q * Q)) (draws : list draw)
           (points : list pt) (c0 c1 c2 : Q) (value : Q) : Z :=
  let n := length l in
  let areas := map (tri_area_of l) tris in
  let cum := map Qred (cumulative areas) in
  let total := area l in
  let m := maxabs_pts l in
  if negb (clip_check (seq 0 n) tris && forallb (fun t => Qle_bool (tri2_of l t) 0) tris
           && Qeq_bool (Qsum areas) total && forallb sqrt_ok tbl
           && Nat.eqb (length draws) (length points) && negb (Nat.eqb (length draws) 0))
  then 1%Z
  else if (1 <? Z.of_nat (length tris))%Z && negb (forallb (fun d => clear_of cum total (total * u_sel d)) draws)
  then 2%Z
  else
    let sq := sqrt_tbl tbl in
    let model_pts := map (fun d => sample_point sq l tris d) draws in
    let tp := pow2 (-40) * m in
    let mv := Qred (emissivity sq (linf c0 c1 c2) l tris draws) in
    let tv := pow2 (-38) * (Qabs c0 + (Qabs c1 + Qabs c2) * m) in
    if forallb2 (fun p q => within tp (px p) (px q) && within tp (py p) (py q)) model_pts points
       && within tv mv value
    then 0%Z else 1%Z.

(* which CSG builder the constructor used (1 = _build_csg_from_rectangle), compared for small dyadic lists only
   (the code compares rounded square roots, the model exact squares) *)
Definition check_rect_path (stored : list pt) (flag : bool) : Z :=
  if negb (small_dyadic stored) then 2%Z
  else if Bool.eqb (has_rectangular_cross_section stored) flag then 0%Z else 1%Z.

(* constructor with raw rows and primitive_type: code 0 = accepted (stored list compared exactly) *)
Definition check_construct (rows : list (list Q)) (ptype code : Z) (stored : list pt) : Z :=
  match construct rows ptype with
  | inl ErrType => if (code =? 1)%Z then 0%Z else 1%Z
  | inl ErrValue => if (code =? 2)%Z then 0%Z else 1%Z
  | inr l => if (code =? 0)%Z && forallb2 pt_eqb l stored then 0%Z else 1%Z
  end.

(* grid_samples = 0 (code 1 = ZeroDivisionError) and < 0 (code 0, value 0, nothing drawn) *)
Definition check_call_policy (l : list pt) (tris : list tri) (n code : Z) (value : Q) : Z :=
  match fst (emissivity_call (fun _ => 0) (fun _ => 1) l tris n []) with
  | None => if (code =? 1)%Z then 0%Z else 1%Z
  | Some q => if (code =? 0)%Z && Qeq_bool q value then 0%Z else 1%Z
  end.

(* __getitem__ / set_active argument policy: 0 = accepted, 1 = TypeError, 2 = IndexError, 3 = ValueError *)
Definition cerr_code (e : cerr) : Z := match e with CType => 1 | CIndex => 2 | CValue => 3 end%Z.
Definition check_getitem (count : Z) (it : item) (code : Z) : Z :=
  let m := match getitem count it with inl e => cerr_code e | inr _ => 0%Z end in if (m =? code)%Z then 0%Z else 1%Z.
Definition check_set_active (count : Z) (it : item) (code : Z) : Z :=
  let m := match set_active count it with Some e => cerr_code e | None => 0%Z end in if (m =? code)%Z then 0%Z else 1%Z.

(* emissivities_from_function: the voxels in order on ONE flat stream of uniforms; per voxel the draws are taken
   from the stream by the model ([take_draws]) and compared like a single call *)
Fixpoint check_emissivities (voxels : list (list pt * list tri)) (tbl : list (Q * Q)) (n : nat) (stream : list Q)
         (points : list (list pt)) (values : list Q) (c0 c1 c2 : Q) : Z :=
  match voxels, points, values with
  | [], [], [] => 0%Z
  | (l, tris) :: vt, ps :: pt', v :: vt' =>
    let (ds, rest) := take_draws (length tris) n stream in
    let tb := filter (fun p => existsb (fun d => Qeq_bool (u_one d) (fst p)) ds) tbl in
    let r := check_emissivity l tris tb ds ps c0 c1 c2 v in
    let r' := check_emissivities vt tbl n rest pt' vt' c0 c1 c2 in
    if (r =? 1)%Z || (r' =? 1)%Z then 1%Z else if (r =? 2)%Z || (r' =? 2)%Z then 2%Z else 0%Z
  | _, _, _ => 1%Z
  end.

Definition codes_eq (c : Z) (l : list Z) : list Z :=
  failing (map (fun x => negb (x =? c)%Z) l).
