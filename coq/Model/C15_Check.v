(* Executable comparators used by the correspondence check and the Gen tie lemmas of C15
   (definitions only). *)
Require Import Cherab.Common.Qx.
From Coq Require Import String.
Require Import Cherab.Model.C15_Groups Cherab.Model.C15_Table.
Open Scope string_scope.
Open Scope list_scope.
Open Scope Z_scope.

Fixpoint forallb2 {A B} (p : A -> B -> bool) (l1 : list A) (l2 : list B) : bool :=
  match l1, l2 with
  | [], [] => true
  | a :: t1, b :: t2 => p a b && forallb2 p t1 t2
  | _, _ => false
  end.

(* values read back from the implementation are compared exactly: numbers as rationals, objects by
   identity, value objects field by field.  The container kind of a value that was READ from a
   member is not compared (raysect returns tuples for targets / pipelines whatever was assigned). *)
Fixpoint val_eqb (a b : val) : bool :=
  match a, b with
  | VNone, VNone => true
  | VQ x, VQ y => Qeq_bool x y
  | VB x, VB y => Bool.eqb x y
  | VS x, VS y => String.eqb x y
  | VObj t i, VObj u j => (t =? u) && (i =? j)
  | VRec t l, VRec u m =>
      (t =? u) && (fix go (l m : list val) : bool :=
                     match l, m with
                     | [], [] => true
                     | x :: l', y :: m' => val_eqb x y && go l' m'
                     | _, _ => false
                     end) l m
  | VSeq _ l, VSeq _ m =>
      (fix go (l m : list val) : bool :=
         match l, m with
         | [], [] => true
         | x :: l', y :: m' => val_eqb x y && go l' m'
         | _, _ => false
         end) l m
  | _, _ => false
  end.

Definition err_eqb (a b : err) : bool :=
  match a, b with
  | EValue, EValue | EType, EType | EIndex, EIndex | EAttr, EAttr | EOther, EOther => true
  | _, _ => false
  end.

Definition zlist_eqb (a b : list Z) : bool := forallb2 Z.eqb a b.

Definition res_eqb (a b : res) : bool :=
  match a, b with
  | ROk, ROk => true
  | RErr x, RErr y => err_eqb x y
  | RVals l, RVals m => forallb2 val_eqb l m
  | RMem i, RMem j => i =? j
  | RMems l, RMems m => zlist_eqb l m
  | RObs l, RObs m => zlist_eqb l m
  | RLen n, RLen m => n =? m
  | _, _ => false
  end.

(* what the harness records of one member after the last operation: identity, type tag, whether its
   scene-graph parent is the group, how often observe() ran on it, the value of every member
   attribute of the class (in the order of [attrs_of]) *)
Record snap := { s_id : Z; s_ty : Z; s_parent_ok : bool; s_obs : Z; s_vals : list val }.

Fixpoint dedup (l : list string) : list string :=
  match l with
  | [] => []
  | a :: t => if existsb (String.eqb a) t then dedup t else a :: dedup t
  end.

Definition is_members (d : descr) : bool := match d_shape d with Members => true | _ => false end.

Definition attrs_of (c : gcls) : list string :=
  dedup (map d_get (filter (fun d => negb (is_members d)) (c_table c))).

Definition snap_ok (c : gcls) (m : member) (s : snap) : bool :=
  (mid m =? s_id s) && (mtype m =? s_ty s) && Bool.eqb (mparent m =? gid) (s_parent_ok s)
  && (mobs m =? s_obs s) && forallb2 val_eqb (map (fun a => mget a m) (attrs_of c)) (s_vals s).

(* one case: a history on an initially empty group.  1 = agree *)
Definition check_case (c : gcls) (e : env) (ops : list op) (impl : list res) (final : list snap) : bool :=
  let (g, rs) := run_shared c e [] ops in      (* = run on histories of distinct observers: Proofs/C15_Shared.v *)
  forallb2 res_eqb rs impl && forallb2 (snap_ok c) g final.

(* diagnostics printed by a failing case file: index of the first differing result, or -1 when
   only the final state differs *)
Fixpoint first_diff (i : Z) (rs impl : list res) : Z :=
  match rs, impl with
  | [], [] => -1
  | a :: t1, b :: t2 => if res_eqb a b then first_diff (i + 1) t1 t2 else i
  | _, _ => i
  end.
Definition diff_at (c : gcls) (e : env) (ops : list op) (impl : list res) : Z :=
  first_diff 0 (snd (run_shared c e [] ops)) impl.

(* ---- Gen tie lemmas --------------------------------------------------------------------- *)
Definition kinds_eqb (a b : list kind) : bool := forallb2 kind_eqb a b.

Definition shape_eqb (a b : shape) : bool :=
  match a, b with
  | Broadcast k, Broadcast k' => kinds_eqb k k'
  | TypedBroadcast k t, TypedBroadcast k' t' => kinds_eqb k k' && (t =? t')
  | NestedSeq, NestedSeq | LenOnly, LenOnly | Members, Members | ReadOnly, ReadOnly | Custom, Custom => true
  | SeqOnly k, SeqOnly k' => kinds_eqb k k'
  | _, _ => false
  end.

Definition descr_eqb (a b : descr) : bool :=
  String.eqb (d_name a) (d_name b) && String.eqb (d_settarget a) (d_settarget b)
  && String.eqb (d_get a) (d_get b) && String.eqb (d_zip a) (d_zip b)
  && String.eqb (d_bcast a) (d_bcast b) && shape_eqb (d_shape a) (d_shape b).

(* the extracted table of a class: (class name, descriptors in any order) *)
Definition extracted_table := list (string * list descr).

Definition bad_wf (x : extracted_table) : list (string * string) :=
  flat_map (fun cd => map (fun d => (fst cd, d_name d)) (filter (fun d => negb (wf_entry d)) (snd cd))) x.

Definition all_wf (x : extracted_table) : bool :=
  forallb (fun cd => forallb wf_entry (snd cd)) x.

Definition sub_table (a b : list descr) : list string :=
  map d_name (filter (fun d => negb (existsb (descr_eqb d) b)) a).

(* entries of the extracted table missing from / differing in the hand-written table and back *)
Definition canon_diff (x : extracted_table) : list (string * list string * list string) :=
  flat_map (fun c =>
    match find (fun cd => String.eqb (fst cd) (c_name c)) x with
    | Some cd =>
        let a := sub_table (snd cd) (c_table c) in
        let b := sub_table (c_table c) (snd cd) in
        match a, b with [], [] => [] | _, _ => [(c_name c, a, b)] end
    | None => [(c_name c, ["<class missing>"], [])]
    end) canonical.

Definition canon_agrees (x : extracted_table) : bool :=
  Nat.eqb (List.length x) (List.length canonical) && match canon_diff x with [] => true | _ => false end.

(* the isinstance matrix measured on the real classes: (class name, accepted type tags) *)
Definition accept_diff (x : list (string * list Z)) : list string :=
  flat_map (fun c =>
    match find (fun cd => String.eqb (fst cd) (c_name c)) x with
    | Some cd => if zlist_eqb (snd cd) (c_accept c) then [] else [c_name c]
    | None => [c_name c]
    end) canonical.
Definition accept_agrees (x : list (string * list Z)) : bool :=
  match accept_diff x with [] => true | _ => false end.

(* the method table measured on the source: (class name, [(method, body shape)]) *)
Definition mshape_eqb (a b : mshape) : bool :=
  match a, b with
  | MInit0D, MInit0D | MInitSpectroscopic, MInitSpectroscopic | MInitBolometer, MInitBolometer
  | MGetitem0D, MGetitem0D | MGetitemBolometer, MGetitemBolometer | MLen0D, MLen0D | MLenBolometer, MLenBolometer
  | MIterBolometer, MIterBolometer | MAdd0D, MAdd0D | MAddAlias, MAddAlias | MAddBolometer, MAddBolometer
  | MObserve0D, MObserve0D | MObserveBolometer, MObserveBolometer | MAbsent, MAbsent => true
  | _, _ => false          (* MCustom equals nothing, not even itself *)
  end.

Definition methods_eqb (a b : list (string * mshape)) : bool :=
  forallb2 (fun x y => String.eqb (fst x) (fst y) && mshape_eqb (snd x) (snd y)) a b.

Definition methods_diff (x : list (string * list (string * mshape))) : list (string * list (string * mshape)) :=
  flat_map (fun c =>
    match find (fun cd => String.eqb (fst cd) (c_name c)) x with
    | Some cd => if methods_eqb (snd cd) (methods_of c) then []
                 else [(c_name c, filter (fun m => negb (existsb (fun w => String.eqb (fst m) (fst w) && mshape_eqb (snd m) (snd w))
                                                                  (methods_of c))) (snd cd))]
    | None => [(c_name c, [])]
    end) canonical.

Definition methods_agree (x : list (string * list (string * mshape))) : bool :=
  Nat.eqb (List.length x) (List.length canonical) && match methods_diff x with [] => true | _ => false end.

(* intermediate states: the state after every operation, and checkpoints (operation index, recorded
   state of every member at that moment) compared exactly like the final state *)
Fixpoint states (c : gcls) (e : env) (g : group) (ops : list op) : list group :=
  match ops with
  | [] => []
  | o :: t => let g1 := fst (step_shared c e g o) in g1 :: states c e g1 t
  end.

Definition check_points (c : gcls) (sts : list group) (cps : list (nat * list snap)) : bool :=
  forallb (fun cp => match nth_error sts (fst cp) with
                     | Some g => forallb2 (snap_ok c) g (snd cp)
                     | None => false
                     end) cps.

Definition check_case_cp (c : gcls) (e : env) (ops : list op) (impl : list res) (final : list snap)
           (cps : list (nat * list snap)) : bool :=
  check_case c e ops impl final && check_points c (states c e [] ops) cps.

(* slit checkpoints of a BolometerCamera history: (operation index, camera.slits as identities) *)
Definition check_slits (c : gcls) (e : env) (ops : list op) (cps : list (nat * list Z)) : bool :=
  let sts := slits_states c e [] ops in
  forallb (fun cp => match nth_error sts (fst cp) with Some sl => zlist_eqb sl (snd cp) | None => false end) cps.
