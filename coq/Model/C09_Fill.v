(* The assignments of _fractional_abundance_point (lines 209-228) as data: a small language of
   "matbal[row, col] +=/-= sum of rate terms" statements, and its interpreter.  The list of statements is
   regenerated from the current source on every run (harness/c09_fill.py -> coq/Gen/C09/Fill.v) and tied to
   Model.C09_Balance.entry by a kernel-checked lemma there (definitions only here). *)
Require Import Cherab.Common.Qx.
Require Import Cherab.Model.C09_Balance.
Open Scope Q_scope.

(* an index expression  a * atomic_number + b * i + c  with Python's negative-index rule for a size-(Z+1) axis *)
Record idx := { ia : Z; ib : Z; ic : Z }.
Inductive kind := KIon | KRec | KCx.      (* coef_ion[.](n_e,t_e) | coef_recom[.](n_e,t_e) | tcx_donor_density/n_e*coef_tcx[.](n_e,t_e) *)
Record term := { t_pos : bool; t_kind : kind; t_idx : idx }.
Record upd := { u_loop : bool;      (* inside  for i in range(1, atomic_number) *)
                u_cx : bool;        (* inside  if coef_tcx is not None *)
                u_row : idx; u_col : idx;
                u_add : bool;       (* += or -= *)
                u_terms : list term }.

Definition idx_raw (Zn l : Z) (ix : idx) : Z := (ia ix * Zn + ib ix * l + ic ix)%Z.
Definition idx_pos (Zn l : Z) (ix : idx) : Z := let v := idx_raw Zn l ix in if (v <? 0)%Z then (v + (Zn + 1))%Z else v.

Definition term_val (ion rec cx : rate) (d : Q) (Zn l : Z) (t : term) : Q :=
  let k := Z.to_nat (idx_raw Zn l (t_idx t)) in      (* dictionary keys are not wrapped *)
  let v := match t_kind t with KIon => ion k | KRec => rec k | KCx => d * cx k end in
  if t_pos t then v else - v.

Definition contrib (ion rec cx : rate) (d : Q) (Zn l : Z) (i j : nat) (u : upd) : Q :=
  if (idx_pos Zn l (u_row u) =? Z.of_nat i)%Z && (idx_pos Zn l (u_col u) =? Z.of_nat j)%Z
  then (let s := Qsum (map (term_val ion rec cx d Zn l) (u_terms u)) in if u_add u then s else - s)
  else 0.

Definition entry_dsl (us : list upd) (Zn : nat) (ion rec : rate) (cx : option rate) (nd ne : Q) (i j : nat) : Q :=
  let d := nd / ne in
  let c := match cx with Some f => f | None => fun _ => 0 end in
  Qsum (map (fun u =>
               if u_cx u && match cx with None => true | Some _ => false end then 0
               else if u_loop u
                    then Qsum (map (fun l => contrib ion rec c d (Z.of_nat Zn) (Z.of_nat l) i j u) (seq 1 (Zn - 1)))
                    else contrib ion rec c d (Z.of_nat Zn) 0 i j u) us).

(* rate values that make a linear form with coefficients in [-4, 4] readable from its value (balanced base 10):
   equality of two such forms at these values is equality of the forms *)
Definition ionT : rate := fun k => inject_Z (10 ^ (3 * Z.of_nat k)).
Definition recT : rate := fun k => inject_Z (10 ^ (3 * Z.of_nat k + 1)).
Definition cxT : rate := fun k => inject_Z (10 ^ (3 * Z.of_nat k + 2)).

Definition fill_agrees (us : list upd) (Zmax : nat) : bool :=
  forallb (fun Zn =>
    forallb (fun i => forallb (fun j =>
       Qeq_bool (entry_dsl us Zn ionT recT (Some cxT) 1 1 i j) (entry Zn ionT recT (Some cxT) 1 1 i j)
       && Qeq_bool (entry_dsl us Zn ionT recT None 1 1 i j) (entry Zn ionT recT None 1 1 i j))
      (seq 0 (S Zn))) (seq 0 (S Zn))) (seq 1 Zmax).
