(* Model for C01: cherab/core/utility/notify.py, the Notifier through which every setter of plasma,
   beam and laser tells the dependent objects to drop their caches (definitions only).

   A registered callback is a weak reference: either (weakref(instance), method name) for a bound
   method or weakref(function) for a plain callable.  An object is identified by a number; the set of
   objects that have been garbage collected is part of the world state.  A dead reference compares
   equal only to itself (weakref equality falls back to identity once the referent is gone), which is
   why every registered reference carries its own identity [rid] in the model.

   Mirrors, statement by statement:
     add            notify.py lines 61-70     (is_present guard, then append)
     remove         lines 72-77, 121-138      (first live reference with the same target; list.remove)
     is_present     lines 79-84, 145-165
     notify         lines 86-119              (iterate, collect dead, call live; purge the dead afterwards)
     _purge         lines 140-143             (list.remove of each collected reference) *)
From Coq Require Import List Arith Bool.
Import ListNotations.

(* what a callback points at: a bound method (object, method name) or a plain callable (object) *)
Inductive target := Meth (obj : nat) (name : nat) | Fun (obj : nat).

Definition tobj (t : target) : nat := match t with Meth o _ => o | Fun o => o end.

Definition target_eqb (a b : target) : bool :=
  match a, b with
  | Meth o n, Meth o' n' => Nat.eqb o o' && Nat.eqb n n'
  | Fun o, Fun o' => Nat.eqb o o'
  | _, _ => false
  end.

Record wref := { rid : nat; tgt : target }.

Record nstate := { refs : list wref; dead : list nat; next : nat }.

Definition ninit : nstate := {| refs := []; dead := []; next := 0 |}.

Definition is_dead (s : nstate) (o : nat) : bool := existsb (Nat.eqb o) (dead s).
Definition live (s : nstate) (r : wref) : bool := negb (is_dead s (tobj (tgt r))).

(* `callback.__self__ == instance and callback.__name__ == method` / `callable is reference()`:
   a dead reference yields None, which never equals the callback that is being passed in *)
Definition matches (s : nstate) (t : target) (r : wref) : bool := live s r && target_eqb (tgt r) t.

Definition is_present (s : nstate) (t : target) : bool := existsb (matches s t) (refs s).

(* list.remove(x): drops the first element equal to x.  Tuple / weakref equality: two references are
   equal when they are the same reference, or both live with equal targets. *)
Definition wref_eqb (s : nstate) (a b : wref) : bool :=
  Nat.eqb (rid a) (rid b) || (live s a && live s b && target_eqb (tgt a) (tgt b)).

Fixpoint remove_first (s : nstate) (x : wref) (l : list wref) : list wref :=
  match l with
  | [] => []
  | r :: t => if wref_eqb s r x then t else r :: remove_first s x t
  end.

Definition purge (s : nstate) (xs : list wref) (l : list wref) : list wref :=
  fold_left (fun acc x => remove_first s x acc) xs l.

Definition add (s : nstate) (t : target) : nstate :=
  if is_present s t then s
  else {| refs := refs s ++ [{| rid := next s; tgt := t |}]; dead := dead s; next := S (next s) |}.

Definition remove (s : nstate) (t : target) : nstate :=
  match find (matches s t) (refs s) with
  | Some r => {| refs := remove_first s r (refs s); dead := dead s; next := next s |}
  | None => s
  end.

(* the loop of notify(): the calls made, in order, and the dead references collected *)
Fixpoint scan (s : nstate) (l : list wref) : list target * list wref :=
  match l with
  | [] => ([], [])
  | r :: t => let (calls, deads) := scan s t in
              if live s r then (tgt r :: calls, deads) else (calls, r :: deads)
  end.

Definition notify (s : nstate) : nstate * list target :=
  let (calls, deads) := scan s (refs s) in
  ({| refs := purge s deads (refs s); dead := dead s; next := next s |}, calls).

(* the object is garbage collected (the user dropped the last strong reference) *)
Definition kill (s : nstate) (o : nat) : nstate :=
  {| refs := refs s; dead := o :: dead s; next := next s |}.

Inductive nop := Add (t : target) | Remove (t : target) | Kill (o : nat) | Notify.

(* a history is well formed when a callback handed to add/remove belongs to an object that still
   exists (one cannot pass a method of a collected object) *)
Definition nstep (s : nstate) (o : nop) : nstate * list target :=
  match o with
  | Add t => (add s t, [])
  | Remove t => (remove s t, [])
  | Kill x => (kill s x, [])
  | Notify => notify s
  end.

(* observable trace of a history: for every operation the calls it made and the number of
   references held afterwards *)
Fixpoint nrun (s : nstate) (ops : list nop) : list (list target * nat) :=
  match ops with
  | [] => []
  | o :: t => let (s', out) := nstep s o in (out, length (refs s')) :: nrun s' t
  end.

Fixpoint nfinal (s : nstate) (ops : list nop) : nstate :=
  match ops with [] => s | o :: t => nfinal (fst (nstep s o)) t end.

(* ---- the abstract specification: the ordered set of live subscriptions ------------------------ *)
Definition subs (s : nstate) : list target := map tgt (filter (live s) (refs s)).

Definition spec := list target.                      (* live subscriptions, oldest first, no duplicates *)
Definition spec_add (l : spec) (t : target) : spec := if existsb (target_eqb t) l then l else l ++ [t].
Fixpoint spec_remove (l : spec) (t : target) : spec :=
  match l with [] => [] | x :: r => if target_eqb x t then r else x :: spec_remove r t end.
Definition spec_kill (l : spec) (o : nat) : spec := filter (fun t => negb (Nat.eqb (tobj t) o)) l.

Definition spec_step (l : spec) (o : nop) : spec * list target :=
  match o with
  | Add t => (spec_add l t, [])
  | Remove t => (spec_remove l t, [])
  | Kill x => (spec_kill l x, [])
  | Notify => (l, l)
  end.

Fixpoint spec_run (l : spec) (ops : list nop) : list (list target) :=
  match ops with
  | [] => []
  | o :: t => let (l', out) := spec_step l o in out :: spec_run l' t
  end.

(* well-formed histories: add/remove name a callback of an object that exists *)
Fixpoint wf_from (dead0 : list nat) (ops : list nop) : bool :=
  match ops with
  | [] => true
  | Add t :: r | Remove t :: r => negb (existsb (Nat.eqb (tobj t)) dead0) && wf_from dead0 r
  | Kill o :: r => wf_from (o :: dead0) r
  | Notify :: r => wf_from dead0 r
  end.

(* ---- the variant that a plausible "tidy-up" produces: dead references are purged while the list is
   being iterated, so the element after each dead one is skipped for that notification ----------- *)
Fixpoint scan_purging (s : nstate) (fuel : nat) (i : nat) (l : list wref) : list wref * list target :=
  match fuel with
  | 0 => (l, [])
  | S k => match nth_error l i with
           | None => (l, [])
           | Some r => if live s r then let (l', c) := scan_purging s k (S i) l in (l', tgt r :: c)
                       else scan_purging s k (S i) (remove_first s r l)
           end
  end.
Definition notify_purging (s : nstate) : nstate * list target :=
  let (l, c) := scan_purging s (S (length (refs s))) 0 (refs s) in
  ({| refs := l; dead := dead s; next := next s |}, c).

(* ---- comparators used by the correspondence check ------------------------------------------------
   Python-level callbacks (methods m0/m1 of plain objects, plain functions) log their calls, so their
   order is observable; builtin methods (name 2: `rotate` of a deque subclass, the kind of callback
   that the cdef classes of cherab register) are observable only through the number of calls. *)
Definition is_builtin (t : target) : bool := match t with Meth _ 2 => true | _ => false end.

Fixpoint tlist_eqb (a b : list target) : bool :=
  match a, b with
  | [], [] => true
  | x :: a', y :: b' => target_eqb x y && tlist_eqb a' b'
  | _, _ => false
  end.

Definition count_t (t : target) (l : list target) : nat := length (filter (target_eqb t) l).

(* expected observation of one operation: ordered Python-level calls, (builtin target, count) for every
   builtin target of the pool, number of references held afterwards *)
Definition obs := (list target * list (target * nat) * nat)%type.

Definition obs_ok (m : list target * nat) (o : obs) : bool :=
  let '(py, bc, n) := o in
  tlist_eqb (filter (fun t => negb (is_builtin t)) (fst m)) py &&
  forallb (fun p => Nat.eqb (count_t (fst p) (fst m)) (snd p)) bc &&
  Nat.eqb (length (filter is_builtin (fst m))) (fold_right (fun p acc => snd p + acc) 0 bc) &&
  Nat.eqb (snd m) n.

Fixpoint first_diff (i : nat) (ms : list (list target * nat)) (os : list obs) : option nat :=
  match ms, os with
  | [], [] => None
  | m :: ms', o :: os' => if obs_ok m o then first_diff (S i) ms' os' else Some i
  | _, _ => Some i
  end.

(* None: the implementation's trace is the model's trace; Some i: first operation that differs *)
Definition check_history (ops : list nop) (os : list obs) : option nat :=
  if wf_from [] ops then first_diff 0 (nrun ninit ops) os else Some 0.
