(* Model of how generate_derivative_operators infers the voxel spacing (admt_utils.py, lines
     cell_sizes = np.diff(cell_centres, axis=0); dx = np.min(abs(dx[dx != 0]))  ):
   the smallest non-zero absolute difference between the centre coordinates of CONSECUTIVE voxels
   of the 1-D list (definitions only). *)
Require Import Cherab.Common.Qx.
From Coq Require Import Qabs Qminmax.
Open Scope Q_scope.

Fixpoint diffs (l : list Q) : list Q :=
  match l with
  | a :: ((b :: _) as t) => (b - a) :: diffs t
  | _ => []
  end.

(* minimum of |d| over the non-zero entries; None when there is none (numpy raises there) *)
Fixpoint min_abs_nonzero (l : list Q) : option Q :=
  match l with
  | [] => None
  | d :: t =>
      let r := min_abs_nonzero t in
      if Qeq_bool d 0 then r
      else match r with None => Some (Qabs d) | Some m => Some (if Qle_bool (Qabs d) m then Qabs d else m) end
  end.

Definition infer_spacing (coords : list Q) : option Q := min_abs_nonzero (diffs coords).

(* centre coordinates of a list of column (or row) numbers on a regular axis *)
Definition axis_coords (x0 dx : Q) (cols : list Z) : list Q := map (fun k => x0 + inject_Z k * dx) cols.

(* some two consecutive voxels are neighbours along this axis *)
Fixpoint has_unit_step (cols : list Z) : bool :=
  match cols with
  | a :: ((b :: _) as t) => (Z.abs (b - a) =? 1)%Z || has_unit_step t
  | _ => false
  end.
