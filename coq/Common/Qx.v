(* Common helpers over Q used by the models and by the correspondence comparators. *)
From Coq Require Export ZArith QArith List Bool Lia Lra.
From Coq Require Import Qabs Qround.
Export ListNotations.
Open Scope Q_scope.

(* |a-b| <= abs + rel*max(|a|,|b|) decided as a boolean (exact arithmetic) *)
Definition Qmaxabs (a b : Q) : Q := if Qle_bool (Qabs a) (Qabs b) then Qabs b else Qabs a.
Definition close (rel abs a b : Q) : bool :=
  Qle_bool (Qabs (a - b)) (abs + rel * Qmaxabs a b).

Definition Qeqb (a b : Q) : bool := Qeq_bool a b.

Fixpoint Qsum (l : list Q) : Q := match l with [] => 0 | x :: t => x + Qsum t end.

Definition pow2 (n : Z) : Q := Qpower 2 n.
Definition rel40 : Q := pow2 (-40).
Definition rel30 : Q := pow2 (-30).

(* indices of the false entries of a list of booleans: what a cases file prints *)
Fixpoint failing_from (i : Z) (l : list bool) : list Z :=
  match l with [] => [] | b :: t => if b then failing_from (i + 1) t else i :: failing_from (i + 1) t end.
Definition failing (l : list bool) : list Z := failing_from 0 l.

Definition Qfloor_Z (q : Q) : Z := Qfloor q.
Definition Qceil_Z (q : Q) : Z := Qceiling q.

Lemma Qsum_app l1 l2 : Qsum (l1 ++ l2) == Qsum l1 + Qsum l2.
Proof. induction l1 as [|x l1 IH]; simpl; [ring | rewrite IH; ring]. Qed.
