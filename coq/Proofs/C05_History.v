(* Live models with caches against freshly built models: for every history of mutators and evaluations. *)
Require Import Cherab.Common.Qx.
Require Import Cherab.Model.C05_BeamModels Cherab.Model.C05_History.
Open Scope Q_scope.

Section History.
  Variable P : Type.
  Variable sqrt : Q -> Q.
  Variable K : consts.
  Variable tbl : Z -> bool * bool.
  Hypothesis Htbl : table_ok tbl = true.

  Notation state := (state P). Notation config := (config P).

  Definition cache_valid (o : option (snap P)) (c : config) : Prop :=
    o = None \/ o = Some (snapshot_of P c).

  Lemma tbl_true k : In k cache_kinds -> tbl k = (true, true).
  Proof.
    intros Hin. unfold table_ok in Htbl. rewrite forallb_forall in Htbl. specialize (Htbl k Hin).
    apply andb_true_iff in Htbl. destruct (tbl k) as [a b]. simpl in Htbl. destruct Htbl as [-> ->]. reflexivity.
  Qed.

  (* a mutation either clears both caches or leaves what _populate_cache reads unchanged *)
  Lemma step_keeps_valid (m : mutation P) c ocx obes :
    cache_valid ocx c -> cache_valid obes c ->
    let k := kind_of P c m in
    cache_valid (if fst (tbl k) then None else ocx) (apply_mut P m c) /\
    cache_valid (if snd (tbl k) then None else obes) (apply_mut P m c).
  Proof.
    intros Hcx Hbes k.
    assert (Hcase : In k cache_kinds \/ snapshot_of P (apply_mut P m c) = snapshot_of P c).
    { unfold k. destruct m; cbn [kind_of].
      - left. destruct (existsb _ _); cbn; tauto.
      - left. cbn; tauto.
      - left. cbn; tauto.
      - left. cbn; tauto.
      - left. cbn; tauto.
      - right. reflexivity.
      - right. reflexivity. }
    destruct Hcase as [Hin|Hsame].
    - rewrite (tbl_true k Hin). cbn [fst snd]. split; left; reflexivity.
    - unfold cache_valid. rewrite Hsame.
      split; [destruct (fst (tbl k)) | destruct (snd (tbl k))]; auto.
  Qed.

  Lemma get_cache_valid o c : cache_valid o c -> get_cache P o c = snapshot_of P c.
  Proof. intros [->| ->]; reflexivity. Qed.

  Lemma run_live_fresh evs : forall st,
    cache_valid (st_cx P st) (st_cfg P st) -> cache_valid (st_bes P st) (st_cfg P st) ->
    run_live P sqrt K tbl evs st = run_fresh P sqrt K evs (st_cfg P st).
  Proof.
    induction evs as [|e evs IH]; intros st Hcx Hbes; [reflexivity|].
    destruct e as [m|p z d|p z d]; cbn [run_live run_fresh].
    - destruct (step_keeps_valid m (st_cfg P st) (st_cx P st) (st_bes P st) Hcx Hbes) as [H1 H2].
      rewrite IH; cbn [st_cfg st_cx st_bes]; [reflexivity | exact H1 | exact H2].
    - rewrite (get_cache_valid _ _ Hcx). unfold fresh_cx. f_equal.
      apply (IH (mkState P (st_cfg P st) (Some (snapshot_of P (st_cfg P st))) (st_bes P st))); cbn [st_cfg st_cx st_bes]; [right; reflexivity | assumption].
    - rewrite (get_cache_valid _ _ Hbes). unfold fresh_bes. f_equal.
      apply (IH (mkState P (st_cfg P st) (st_cx P st) (Some (snapshot_of P (st_cfg P st))))); cbn [st_cfg st_cx st_bes]; [assumption | right; reflexivity].
  Qed.

  (* starting from models that have never been evaluated *)
  Lemma history_independence evs c :
    run_live P sqrt K tbl evs (mkState P c None None) = run_fresh P sqrt K evs c.
  Proof. apply run_live_fresh; left; reflexivity. Qed.
End History.

(* the dictionary semantics of Composition *)
Section Dict.
  Variable P : Type.
  Notation sobj := (sobj P).

  Lemma comp_add_keys o l :
    map (fun x : sobj => (o_el P x, o_ch P x)) (comp_add P o l) =
    if existsb (fun x => same_key P x o) l then map (fun x => (o_el P x, o_ch P x)) l
    else map (fun x => (o_el P x, o_ch P x)) l ++ [(o_el P o, o_ch P o)].
  Proof.
    induction l as [|x l IH]; [reflexivity|]. cbn [comp_add existsb map].
    destruct (same_key P x o) eqn:E; cbn [orb map].
    - unfold same_key in E. apply andb_true_iff in E. destruct E as [E1 E2].
      apply Z.eqb_eq in E1, E2. rewrite E1, E2. reflexivity.
    - rewrite IH. destruct (existsb _ l); reflexivity.
  Qed.

  (* after add(o), looking up o's key returns o; every other key is untouched *)
  Lemma comp_add_lookup o l q :
    find (fun x => same_key P x q) (comp_add P o l) =
    if same_key P o q then Some o else find (fun x => same_key P x q) l.
  Proof.
    assert (T : forall a b c : sobj, same_key P a b = true -> same_key P a c = same_key P b c).
    { intros a b c H. unfold same_key in *. apply andb_true_iff in H. destruct H as [H1 H2].
      apply Z.eqb_eq in H1, H2. rewrite H1, H2. reflexivity. }
    induction l as [|x l IH]; cbn [comp_add find].
    - destruct (same_key P o q); reflexivity.
    - destruct (same_key P x o) eqn:E; cbn [find].
      + rewrite (T x o q E). destruct (same_key P o q); reflexivity.
      + rewrite IH. destruct (same_key P x q) eqn:E2; [|reflexivity].
        destruct (same_key P o q) eqn:E3; [|reflexivity].
        exfalso. assert (same_key P x o = true); [|congruence].
        unfold same_key in *. apply andb_true_iff in E2, E3. destruct E2 as [A1 A2], E3 as [B1 B2].
        apply Z.eqb_eq in A1, A2, B1, B2. apply andb_true_iff. split; apply Z.eqb_eq; congruence.
  Qed.
End Dict.
