(* C06: a call raises exactly when one of its checks fails; what a zero of the comparator means;
   the '>' hypothesis on the upper level cannot be dropped. *)
From Coq Require Import ZArith List Bool String Ascii Lia.
Require Import Cherab.Model.C06_Repo Cherab.Model.C06_Spec Cherab.Model.C06_Check.
Require Import Cherab.Proofs.C06_Keys Cherab.Proofs.C06_Refine Cherab.Proofs.C06_Props Cherab.Proofs.C06_Check.
Import ListNotations.
Open Scope Z_scope.
Open Scope list_scope.

(* ---- files that hold one rate are visited with exactly one leaf ---- *)
Definition shape_ok (m : mode) (g : group) : bool :=
  match m with MC => match g_items g with [_] => true | _ => false end | _ => true end.

Lemma bstop_shape r : forallb (shape_ok MC) (groups_bstop r) = true.
Proof. unfold groups_bstop. apply forallb_forall; intros g Hg; in_groups Hg. reflexivity. Qed.
Lemma bpop_shape r : forallb (shape_ok MC) (groups_bpop r) = true.
Proof. unfold groups_bpop. apply forallb_forall; intros g Hg; in_groups Hg. reflexivity. Qed.

Lemma shape_trivial m gs : m <> MC -> forallb (shape_ok m) gs = true.
Proof. intros N. apply forallb_forall. intros g _. destruct m; try reflexivity. congruence. Qed.

Lemma steps_shape_ok c : forallb (fun s : mode * path * list group => forallb (shape_ok (fst (fst s))) (snd s)) (steps c) = true.
Proof.
  destruct c; cbn [steps]; try destruct tcx; cbn [forallb app fst snd];
  rewrite ?bstop_shape, ?bpop_shape, ?(shape_trivial MA), ?(shape_trivial MB) by discriminate; reflexivity.
Qed.

(* ---- Done <-> every check passes ---- *)
Lemma commit_items_A_done_iff items : snd (commit_items_A items) = Done <-> forallb it_ok items = true.
Proof.
  induction items as [|it items IH]; cbn; [tauto|].
  destruct (it_ok it); cbn; [|split; discriminate].
  destruct (commit_items_A items) as [l o]; cbn in *. exact IH.
Qed.

Lemma forallb_ok_true items : forallb (fun it : item => it_ok it && true) items = forallb it_ok items.
Proof. induction items as [|it items IH]; cbn; [reflexivity|]. now rewrite IH, andb_true_r. Qed.

Lemma commit_done_iff m gs :
  forallb (shape_ok m) gs = true -> (snd (commit m gs) = Done <-> forallb (group_valid m) gs = true).
Proof.
  unfold group_valid. destruct m; cbn [commit]; induction gs as [|g gs IH]; cbn [forallb commit_A commit_B commit_C snd];
    try tauto; intros S.
  - rewrite forallb_ok_true. destruct (g_ok g); cbn; [|split; discriminate].
    pose proof (commit_items_A_done_iff (g_items g)) as HA.
    destruct (commit_items_A (g_items g)) as [l o]; cbn in HA. destruct o; cbn.
    + destruct HA as [HA _]. rewrite (HA eq_refl). cbn.
      destruct (commit_A gs) as [l' o']; cbn in *. apply IH. exact S.
    + destruct (forallb it_ok (g_items g)); [destruct HA as [_ HA]; discriminate (HA eq_refl)|].
      cbn. split; discriminate.
  - rewrite forallb_ok_true. destruct (g_ok g); cbn; [|split; discriminate].
    destruct (forallb it_ok (g_items g)); cbn; [|split; discriminate].
    destruct (commit_B gs) as [l' o']; cbn in *. apply IH. exact S.
  - cbn [forallb] in S. apply andb_true_iff in S as [S1 S2]. unfold shape_ok in S1.
    destruct (g_ok g); cbn; [|split; discriminate].
    destruct (g_items g) as [|it [|it2 rest]]; try discriminate. cbn.
    destruct (it_ok it); cbn; [|split; discriminate].
    destruct (it_ser it); cbn; [|split; discriminate].
    destruct (commit_C gs) as [l' o']; cbn in *. apply IH. exact S2.
Qed.

Lemma commit_steps_done_iff ss :
  forallb (fun s : mode * path * list group => forallb (shape_ok (fst (fst s))) (snd s)) ss = true ->
  (snd (commit_steps ss) = Done <-> forallb (fun s : mode * path * list group => forallb (group_valid (fst (fst s))) (snd s)) ss = true).
Proof.
  induction ss as [|[[m r] gs] ss IH]; cbn; [tauto|]. intros S.
  apply andb_true_iff in S as [S1 S2].
  pose proof (commit_done_iff m gs S1) as HD.
  destruct (commit m gs) as [l o]; cbn in HD. destruct o; cbn.
  - destruct HD as [HD _]. rewrite (HD eq_refl). cbn.
    destruct (commit_steps ss) as [l' o']; cbn in *. apply IH. exact S2.
  - destruct (forallb (group_valid m) gs); [destruct HD as [_ HD]; discriminate (HD eq_refl)|].
    cbn. split; discriminate.
Qed.

Theorem outcome_done_iff_valid c : outcome_call c = Done <-> call_valid c = true.
Proof. apply commit_steps_done_iff. apply steps_shape_ok. Qed.

(* the concrete run raises exactly when the abstract summary says so *)
Lemma run_call_outcome root c d : call_ok c = true -> root_ok root c -> snd (run_call c d) = outcome_call c.
Proof.
  intros OK R. pose proof (call_wf_of root c OK R) as W. unfold run_call, outcome_call, call_wf in *.
  revert d. induction W as [|[[m r] gs] ss [Wg _] W IH]; intros d; cbn; [reflexivity|]. cbn in Wg.
  pose proof (exec_outcome m r gs Wg d) as HO.
  destruct (exec m r gs d) as [d1 o1]. destruct (commit m gs) as [l1 o1']. cbn in HO. subst o1'.
  destruct o1; cbn; [|reflexivity]. rewrite IH. destruct (commit_steps ss); reflexivity.
Qed.

Theorem valid_calls_return root c d :
  call_ok c = true -> root_ok root c -> (snd (run_call c d) = Done <-> call_valid c = true).
Proof. intros OK R. rewrite (run_call_outcome root c d OK R). apply outcome_done_iff_valid. Qed.

(* ---- what a zero of the comparator means ---- *)
Fixpoint model_steps (locs : list (path * (path * subkey))) (cs : list call) (d : fs) : list (Z * list Z) :=
  match cs with
  | [] => []
  | c :: cs' => let (d', o) := run_call c d in (oc_code o, read_all locs d') :: model_steps locs cs' d'
  end.

Lemma zlist_eqb_eq a b : zlist_eqb a b = true -> a = b.
Proof.
  revert b; induction a as [|x a IH]; destruct b as [|y b]; cbn; try discriminate; auto.
  intros H. apply andb_true_iff in H as [H1 H2]. apply Z.eqb_eq in H1. subst. f_equal. auto.
Qed.

Lemma check_steps_sound locs cs : forall impl d i d',
  0 <= i -> check_steps locs cs impl d i = (0, d') -> impl = model_steps locs cs d.
Proof.
  induction cs as [|c cs IH]; intros [|[oc reads] impl] d i d' Hi; cbn [check_steps model_steps];
    try (intros _; reflexivity); try (intros H; apply (f_equal fst) in H; cbn in H; discriminate H).
  - destruct (run_call c d) as [d1 o] eqn:E.
    destruct (oc_code o =? oc) eqn:E1; cbn [negb]; [|intros H; apply (f_equal fst) in H; cbn [fst] in H; lia].
    destruct (zlist_eqb (read_all locs d1) reads) eqn:E2; cbn [negb]; [|intros H; apply (f_equal fst) in H; cbn [fst] in H; lia].
    intros H. apply Z.eqb_eq in E1. apply zlist_eqb_eq in E2. subst. f_equal. apply (IH impl d1 (i + 1) d'); [lia | exact H].
Qed.

Lemma path_mem_in p l : path_mem p l = true -> In p l.
Proof.
  unfold path_mem. intros H. apply existsb_exists in H as [q [I E]].
  destruct (path_eqb_spec p q); [now subst | discriminate].
Qed.

(* comparator = 0: the implementation's outcomes and reads are those of the model at every call, and
   the files on disk are exactly the model's files after the whole history *)
Theorem check_seq_sound cs queries impl impl_files :
  check_seq cs queries impl impl_files = 0 ->
  impl = model_steps (map qloc queries) cs [] /\
  (forall p, In p (files (run cs [])) -> In p impl_files) /\ (forall p, In p impl_files -> In p (files (run cs []))).
Proof.
  unfold check_seq. destruct (check_steps (map qloc queries) cs impl [] 0) as [code d] eqn:E.
  destruct (code =? 0) eqn:EC; [|intros H; apply Z.eqb_neq in EC; congruence].
  apply Z.eqb_eq in EC. subst code.
  destruct (same_files (files d) impl_files) eqn:ES; [|discriminate]. intros _.
  pose proof (check_steps_final _ _ _ _ _ _ (Z.le_refl 0) E) as ->.
  split; [exact (check_steps_sound _ _ _ _ _ _ (Z.le_refl 0) E)|].
  unfold same_files in ES. apply andb_true_iff in ES as [S1 S2]. rewrite forallb_forall in S1, S2.
  split; intros p Hp; apply path_mem_in; auto.
Qed.

(* ---- the hypothesis on the upper level is needed: with a '>' in it two transitions collide ---- *)
Lemma arrow_alias_witness :
  exists t t' : ntrans, t <> t' /\ join_trans t = join_trans t' /\ ntrans_ok t = false.
Proof. exists ("1 ->", " 2")%string, ("1", "->  2")%string. split; [discriminate | split; reflexivity]. Qed.
