(* Voxel maps: merged sources are sums of their cells; the map built from a mask. *)
Require Import Cherab.Common.Qx.
Require Import Cherab.Model.C10_RayTransfer Cherab.Proofs.C10_Loop.
From Coq Require Import Lqa.
Open Scope Q_scope.

Fixpoint sumz {A} (f : A -> Z) (l : list A) : Z :=
  match l with [] => 0%Z | x :: t => (f x + sumz f t)%Z end.

Lemma sumz_plus {A} (f g : A -> Z) l : sumz (fun x => (f x + g x)%Z) l = (sumz f l + sumz g l)%Z.
Proof. induction l as [|x l IH]; cbn [sumz]; [reflexivity | rewrite IH; lia]. Qed.

Lemma sumz_ext {A} (f g : A -> Z) l : (forall x, In x l -> f x = g x) -> sumz f l = sumz g l.
Proof.
  induction l as [|x l IH]; intros H; cbn [sumz]; [reflexivity|].
  rewrite (H x (or_introl eq_refl)), IH; [reflexivity | intros y Hy; apply H; right; exact Hy].
Qed.

Lemma sumz_zero {A} (f : A -> Z) l : (forall x, In x l -> f x = 0%Z) -> sumz f l = 0%Z.
Proof.
  induction l as [|x l IH]; intros H; cbn [sumz]; [reflexivity|].
  rewrite (H x (or_introl eq_refl)), IH; [reflexivity | intros y Hy; apply H; right; exact Hy].
Qed.

Lemma sumz_filter {A} (g : A -> Z) (p : A -> bool) l :
  sumz g (filter p l) = sumz (fun x => if p x then g x else 0%Z) l.
Proof. induction l as [|x l IH]; cbn [sumz filter]; [reflexivity|]. destruct (p x); cbn [sumz]; rewrite IH; lia. Qed.

Section Merged.
  Variables (vm idm : cell -> Z) (grid : list cell).
  Hypothesis Hnd : NoDup grid.
  Hypothesis Hinj : forall c c', In c grid -> In c' grid -> idm c = idm c' -> c = c'.

  Definition ind (p : cell -> bool) (c0 c : cell) : Z := if p c && (idm c0 =? idm c)%Z then 1%Z else 0%Z.

  Lemma one_hit (p : cell -> bool) c0 l : NoDup l -> incl l grid -> In c0 grid ->
    (In c0 l -> sumz (ind p c0) l = if p c0 then 1 else 0)%Z /\ (~ In c0 l -> sumz (ind p c0) l = 0%Z).
  Proof.
    intros Hn Hi Hc0. induction l as [|x t IH]; [split; [intros []| reflexivity]|].
    inversion Hn as [|? ? Hx Ht]; subst.
    assert (Hit : incl t grid) by (intros y Hy; apply Hi; right; exact Hy).
    destruct (IH Ht Hit) as [IH1 IH2].
    assert (Hxg : In x grid) by (apply Hi; left; reflexivity).
    assert (Hne : x <> c0 -> ind p c0 x = 0%Z).
    { intros Hne. unfold ind. destruct (idm c0 =? idm x)%Z eqn:E; [|rewrite andb_false_r; reflexivity].
      apply Z.eqb_eq in E. exfalso. apply Hne. symmetry. apply Hinj; assumption. }
    cbn [sumz]. split.
    - intros [->|Hin].
      + rewrite IH2 by exact Hx. unfold ind. rewrite Z.eqb_refl, andb_true_r. destruct (p c0); reflexivity.
      + rewrite Hne by (intros ->; contradiction). rewrite IH1 by exact Hin. reflexivity.
    - intros Hnot. rewrite Hne by (intros ->; apply Hnot; left; reflexivity).
      rewrite IH2 by (intros Hin; apply Hnot; right; exact Hin). reflexivity.
  Qed.

  Lemma merged_count cells s : (forall c, In c cells -> In c grid) ->
    countp (fun c => (vm c =? s)%Z) cells =
    sumz (fun c => countp (fun c' => (idm c' =? idm c)%Z) cells) (filter (fun c => (vm c =? s)%Z) grid).
  Proof.
    intros Hc. rewrite sumz_filter. induction cells as [|c0 r IH].
    - cbn [countp]. symmetry. apply sumz_zero. intros x _. destruct (vm x =? s)%Z; reflexivity.
    - cbn [countp].
      transitivity (sumz (fun c => (ind (fun c => (vm c =? s)%Z) c0 c
                                    + (if (vm c =? s)%Z then countp (fun c' => (idm c' =? idm c)%Z) r else 0))%Z) grid).
      + rewrite sumz_plus.
        destruct (one_hit (fun c => (vm c =? s)%Z) c0 grid Hnd (fun x H => H) (Hc c0 (or_introl eq_refl))) as [H1 _].
        rewrite H1 by (apply Hc; left; reflexivity).
        rewrite IH by (intros c H; apply Hc; right; exact H). reflexivity.
      + apply sumz_ext. intros x _. unfold ind. destruct (vm x =? s)%Z; cbn [andb]; [|reflexivity].
        rewrite (Z.eqb_sym (idm c0) (idm x)). destruct (idm x =? idm c0)%Z; reflexivity.
  Qed.

  Lemma Qsum_scale (g : cell -> Z) dt l :
    Qsum (map (fun c => 0 + dt * inject_Z (g c)) l) == dt * inject_Z (sumz g l).
  Proof.
    induction l as [|x l IH]; cbn [map Qsum sumz]; [change (inject_Z 0) with 0; ring|].
    rewrite IH, inject_Z_plus. ring.
  Qed.

  (* merged_map_additive *)
  Lemma merged_map_additive dt cells s : (-1 < s)%Z ->
    (forall c, In c grid -> (-1 < idm c)%Z) -> (forall c, In c cells -> In c grid) ->
    accumulate_simple vm dt cells (fun _ => 0) s ==
    Qsum (map (fun c => accumulate_simple idm dt cells (fun _ => 0) (idm c)) (filter (fun c => (vm c =? s)%Z) grid)).
  Proof.
    intros Hs Hid Hc. rewrite simple_count by exact Hs. rewrite (merged_count cells s Hc).
    rewrite <- Qsum_scale.
    assert (G : forall l, (forall c, In c l -> In c grid) ->
                Qsum (map (fun c => accumulate_simple idm dt cells (fun _ => 0) (idm c)) l) ==
                Qsum (map (fun c => 0 + dt * inject_Z (countp (fun c' => (idm c' =? idm c)%Z) cells)) l)).
    { induction l as [|x l IH]; intros Hl; cbn [map Qsum]; [reflexivity|].
      rewrite IH by (intros c H; apply Hl; right; exact H).
      rewrite simple_count by (apply Hid, Hl; left; reflexivity). reflexivity. }
    rewrite Qplus_0_l. symmetry. apply G. intros c H. apply filter_In in H. apply H.
  Qed.
End Merged.

(* ---- the map built from a mask ---- *)
Lemma map_from_mask_spec mask : forall next i, (i < length mask)%nat ->
  nth i (map_from_mask_from next mask) (-1)%Z =
  if nth i mask false then (next + countp (fun b : bool => b) (firstn i mask))%Z else (-1)%Z.
Proof.
  induction mask as [|b t IH]; intros next i Hi; [cbn in Hi; lia|].
  destruct i as [|i].
  - destruct b; cbn; [lia | reflexivity].
  - cbn [length] in Hi. destruct b; cbn [map_from_mask_from nth firstn countp].
    + rewrite IH by lia. destruct (nth i t false); [lia | reflexivity].
    + rewrite IH by lia. destruct (nth i t false); [lia | reflexivity].
Qed.

Lemma map_from_mask_length mask : forall next, length (map_from_mask_from next mask) = length mask.
Proof. induction mask as [|b t IH]; intros next; [reflexivity|]. destruct b; cbn; rewrite IH; reflexivity. Qed.
