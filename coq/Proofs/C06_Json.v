(* C06: the reader of the JSON token model recovers every value from what the printer writes; hence the
   printer is injective (two different contents never give the same file). *)
From Coq Require Import ZArith List Bool String Lia.
Require Import Cherab.Model.C06_Json.
Import ListNotations.

Section jv_ind2.
  Variable P : jv -> Prop.
  Hypothesis Hn : forall n, P (JNum n).
  Hypothesis Ha : forall l, Forall P l -> P (JArr l).
  Hypothesis Ho : forall l, Forall (fun kv : string * jv => P (snd kv)) l -> P (JObj l).
  Fixpoint jv_ind2 (v : jv) : P v :=
    match v with
    | JNum n => Hn n
    | JArr l => Ha l ((fix go (l : list jv) : Forall P l :=
                         match l with [] => Forall_nil _ | x :: t => Forall_cons x (jv_ind2 x) (go t) end) l)
    | JObj l => Ho l ((fix go (l : list (string * jv)) : Forall (fun kv : string * jv => P (snd kv)) l :=
                         match l with [] => Forall_nil _ | kx :: t => Forall_cons kx (jv_ind2 (snd kx)) (go t) end) l)
    end.
End jv_ind2.

Definition roundtrips (v : jv) : Prop :=
  forall f rest, List.length (print v) <= f -> pval f (print v ++ rest) = Some (v, rest).

Lemma print_not_rbrack v rest r' : print v ++ rest <> TRBrack :: r'.
Proof. destruct v; cbn; discriminate. Qed.

Lemma pval_lbrack f' r :
  (forall r', r <> TRBrack :: r') ->
  pval (S f') (TLBrack :: r) =
  match pval f' r with
  | Some (x, r1) => match pelems f' r1 with Some (xs, r2) => Some (JArr (x :: xs), r2) | None => None end
  | None => None
  end.
Proof.
  intros H. destruct r as [|t r']; [reflexivity|]. destruct t; try reflexivity.
  exfalso. exact (H r' eq_refl).
Qed.

Definition elems_toks (l : list jv) : list tok := flat_map (fun y => TComma :: y) (map print l).
Definition mems_toks (l : list (string * jv)) : list tok :=
  flat_map (fun y => TComma :: y) (map (fun kv : string * jv => TStr (fst kv) :: TColon :: print (snd kv)) l).

Lemma pelems_print l :
  Forall roundtrips l ->
  forall f rest, List.length (elems_toks l) + 1 <= f -> pelems f (elems_toks l ++ TRBrack :: rest) = Some (l, rest).
Proof.
  unfold elems_toks. intros W. induction W as [|x t Hx W IH]; intros f rest Hf; cbn in *.
  - destruct f; [lia | reflexivity].
  - destruct f as [|f']; [lia|]. rewrite app_length in Hf. cbn [pelems app].
    rewrite <- app_assoc. rewrite (Hx f' _) by lia. rewrite (IH f' rest) by lia. reflexivity.
Qed.

Lemma pmems_print l :
  Forall (fun kv : string * jv => roundtrips (snd kv)) l ->
  forall f rest, List.length (mems_toks l) + 1 <= f -> pmems f (mems_toks l ++ TRBrace :: rest) = Some (l, rest).
Proof.
  unfold mems_toks. intros W. induction W as [|[k x] t Hx W IH]; intros f rest Hf; cbn in *.
  - destruct f; [lia | reflexivity].
  - destruct f as [|f']; [lia|]. rewrite app_length in Hf. cbn [pmems app].
    rewrite <- app_assoc. rewrite (Hx f' _) by lia. rewrite (IH f' rest) by lia. reflexivity.
Qed.

Theorem pval_print v : roundtrips v.
Proof.
  induction v as [n|l W|l W] using jv_ind2; intros f rest Hf.
  - destruct f; [cbn in Hf; lia | reflexivity].
  - destruct l as [|x t].
    + destruct f; [cbn in Hf; lia | reflexivity].
    + inversion W as [|? ? Hx Wt]; subst.
      destruct f as [|f']; [cbn in Hf; lia|].
      change (print (JArr (x :: t)) ++ rest) with (TLBrack :: ((print x ++ elems_toks t) ++ [TRBrack]) ++ rest).
      assert (HL : List.length (print (JArr (x :: t))) = S (List.length (print x) + List.length (elems_toks t) + 1)).
      { change (print (JArr (x :: t))) with (TLBrack :: (print x ++ elems_toks t) ++ [TRBrack]).
        cbn [List.length]. rewrite !app_length. cbn. lia. }
      rewrite HL in Hf.
      rewrite <- !app_assoc. rewrite pval_lbrack by (intros r'; apply print_not_rbrack).
      rewrite (Hx f' _) by lia. cbn [app]. rewrite (pelems_print t Wt f' rest) by lia. reflexivity.
  - destruct l as [|[k x] t].
    + destruct f; [cbn in Hf; lia | reflexivity].
    + inversion W as [|? ? Hx Wt]; subst. cbn [snd] in Hx.
      destruct f as [|f']; [cbn in Hf; lia|].
      change (print (JObj ((k, x) :: t)) ++ rest)
        with (TLBrace :: TStr k :: TColon :: ((print x ++ mems_toks t) ++ [TRBrace]) ++ rest).
      assert (HL : List.length (print (JObj ((k, x) :: t))) = S (S (S (List.length (print x) + List.length (mems_toks t) + 1)))).
      { change (print (JObj ((k, x) :: t))) with (TLBrace :: TStr k :: TColon :: (print x ++ mems_toks t) ++ [TRBrace]).
        cbn [List.length]. rewrite !app_length. cbn. lia. }
      rewrite HL in Hf.
      rewrite <- !app_assoc. cbn [pval].
      rewrite (Hx f' _) by lia. cbn [app]. rewrite (pmems_print t Wt f' rest) by lia. reflexivity.
Qed.

(* json.load(json.dump(v)) = v at the token level *)
Theorem parse_print v : parse (print v) = Some v.
Proof.
  unfold parse. pose proof (pval_print v (S (List.length (print v))) [] (Nat.le_succ_diag_r _)) as H.
  rewrite app_nil_r in H. rewrite H. reflexivity.
Qed.

(* two contents with the same file are the same content *)
Corollary print_injective v v' : print v = print v' -> v = v'.
Proof.
  intros E. pose proof (parse_print v) as H. rewrite E, parse_print in H. now injection H.
Qed.

(* equal by the boolean comparators used in the tie = equal *)
Lemma tok_eqb_eq a b : tok_eqb a b = true -> a = b.
Proof.
  destruct a, b; cbn; try discriminate; try reflexivity; intros H.
  - apply String.eqb_eq in H. now subst.
  - apply Pos.eqb_eq in H. now subst.
Qed.
Lemma toks_eqb_eq a b : toks_eqb a b = true -> a = b.
Proof.
  revert b; induction a as [|x a IH]; destruct b as [|y b]; cbn; try discriminate; auto.
  intros H. apply andb_true_iff in H as [H1 H2]. apply tok_eqb_eq in H1. subst. f_equal. auto.
Qed.

(* what a zero of check_file certifies about one repository file: its tokens are exactly the model printer's for the
   value that was written, and reading them back (model reader) gives that value again *)
Theorem check_file_sound written loaded toks :
  check_file written loaded toks = 0%Z -> toks = print written /\ parse toks = Some written.
Proof.
  unfold check_file. destruct (toks_eqb (print written) toks) eqn:E; cbn [negb]; [|discriminate].
  intros _. apply toks_eqb_eq in E. subst. split; [reflexivity | apply parse_print].
Qed.
