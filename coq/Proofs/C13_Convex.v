(* C13 -- convex polygons: a point strictly inside a convex polygon (listed counter-clockwise, the point off the fan
   diagonals) has crossing parity 1.  The fan argument: by C13_Polygon.pip_fan the crossing test is the parity of the fan
   triangles from the first vertex; by C13_Triangle each fan triangle contributes exactly when the point is to the left of
   its first diagonal and to the right of its second; convexity (Grassmann-Pluecker relation) makes the sign of
   orient a v_i p change exactly once along the fan. *)
Require Import Cherab.Common.Qx.
Require Import Cherab.Model.C13_Wrappers.
Require Import Cherab.Proofs.C13_Routing Cherab.Proofs.C13_Polygon Cherab.Proofs.C13_Triangle.
From Coq Require Import Lqa.
Open Scope Q_scope.

Lemma orient_area a b c p : orient a b p + orient b c p + orient c a p == orient a b c.
Proof. destruct a, b, c, p. unfold orient. cbn [fst snd]. ring. Qed.

(* Grassmann-Pluecker relation for the four directions v1 - a, b - a, c - a, p - a *)
Lemma pluecker a v1 b c p :
  orient a v1 p * orient a b c - orient a b p * orient a v1 c + orient a c p * orient a v1 b == 0.
Proof. destruct a, v1, b, c, p. unfold orient. cbn [fst snd]. ring. Qed.

(* one fan triangle: it contains the point exactly when the point is left of a->b and right of a->c *)
Definition sgn_down (s s' : Q) : bool := Qltb 0 s && Qltb s' 0.

Lemma fan_triangle a b c p :
  0 < orient b c p -> 0 < orient a b c -> ~ orient a b p == 0 -> ~ orient a c p == 0 ->
  point_in_polygon p [a; b; c] = sgn_down (orient a b p) (orient a c p).
Proof.
  intros He Hccw Nb Nc. pose proof (orient_area a b c p) as A. pose proof (orient_flip a c p) as F.
  unfold sgn_down.
  destruct (Qltb 0 (orient a b p)) eqn:Sb; [apply Qltb_lt in Sb | apply Qltb_ge in Sb];
    destruct (Qltb (orient a c p) 0) eqn:Sc; [apply Qltb_lt in Sc | apply Qltb_ge in Sc | apply Qltb_lt in Sc | apply Qltb_ge in Sc];
    cbn [andb].
  - apply pip_triangle_inside; lra.
  - apply pip_triangle_outside; try lra; intros (G1 & G2 & G3); lra.
  - apply pip_triangle_outside; try lra; intros (G1 & G2 & G3); lra.
  - apply pip_triangle_outside; try lra; intros (G1 & G2 & G3); lra.
Qed.

(* along the fan: every boundary edge (b, c) has the point on its left, every fan triangle (a, b, c) is counter-clockwise *)
Fixpoint fan_ok (a p : pt) (l : list pt) : Prop :=
  match l with
  | b :: t => match t with c :: _ => 0 < orient b c p /\ 0 < orient a b c /\ fan_ok a p t | [] => True end
  | [] => True
  end.

Fixpoint downs (ss : list Q) : bool :=
  match ss with
  | s :: t => match t with s' :: _ => xorb (sgn_down s s') (downs t) | [] => false end
  | [] => false
  end.

Lemma fan_parity_downs a p l :
  fan_ok a p l -> Forall (fun v => ~ orient a v p == 0) l ->
  fan_parity p a l = downs (map (fun v => orient a v p) l).
Proof.
  induction l as [| b t IH]; [reflexivity |]. destruct t as [| c rest]; [reflexivity |].
  intros (He & Hc & Hok) HN. inversion HN as [| ? ? Nb HN']; subst. inversion HN' as [| ? ? Nc _]; subst.
  cbn [fan_parity map downs]. rewrite (fan_triangle a b c p He Hc Nb Nc). f_equal. apply IH; assumption.
Qed.

(* a list of non-zero signs that never goes from negative to positive and starts positive: the parity of the
   positive-to-negative steps says whether it ends negative *)
Fixpoint no_up (ss : list Q) : Prop :=
  match ss with
  | s :: t => match t with s' :: _ => ~ (s < 0 /\ 0 < s') /\ no_up t | [] => True end
  | [] => True
  end.

Lemma downs_negative_head s t : s < 0 -> no_up (s :: t) -> Forall (fun q => ~ q == 0) (s :: t) -> downs (s :: t) = false.
Proof.
  revert s. induction t as [| s' t IH]; intros s Hs Hn HN; [reflexivity |].
  destruct Hn as (Hn1 & Hn2). inversion HN as [| ? ? _ HN']; subst. inversion HN' as [| ? ? N' _]; subst.
  assert (s' < 0) by (destruct (Qlt_le_dec s' 0); [assumption |]; exfalso; apply Hn1; split; lra).
  change (downs (s :: s' :: t)) with (xorb (sgn_down s s') (downs (s' :: t))). unfold sgn_down. assert (Qltb 0 s = false) as -> by (apply Qltb_ge; lra). cbn [andb]. rewrite xorb_false_l.
  apply IH; assumption.
Qed.

Lemma downs_positive_head s t : 0 < s -> no_up (s :: t) -> Forall (fun q => ~ q == 0) (s :: t) ->
  downs (s :: t) = Qltb (last (s :: t) 0) 0.
Proof.
  revert s. induction t as [| s' t IH]; intros s Hs Hn HN.
  - cbn [downs last]. symmetry. apply Qltb_ge. lra.
  - destruct Hn as (Hn1 & Hn2). inversion HN as [| ? ? _ HN']; subst. inversion HN' as [| ? ? N' _]; subst.
    change (last (s :: s' :: t) 0) with (last (s' :: t) 0).
    change (downs (s :: s' :: t)) with (xorb (sgn_down s s') (downs (s' :: t))). unfold sgn_down. assert (Qltb 0 s = true) as -> by (apply Qltb_lt; lra). cbn [andb].
    destruct (Qlt_le_dec s' 0) as [Neg | Pos].
    + assert (Qltb s' 0 = true) as -> by (apply Qltb_lt; lra).
      rewrite (downs_negative_head s' t Neg Hn2 HN'). rewrite xorb_false_r.
      (* the rest stays negative: the last element is negative *)
      symmetry. apply Qltb_lt. clear - Neg Hn2 HN'. revert s' Neg Hn2 HN'.
      induction t as [| u t IHt]; intros s' Neg Hn2 HN'; [exact Neg |].
      destruct Hn2 as (H1 & H2). inversion HN' as [| ? ? _ HN'']; subst. inversion HN'' as [| ? ? Nu _]; subst.
      change (last (s' :: u :: t) 0) with (last (u :: t) 0). apply IHt; try assumption.
      destruct (Qlt_le_dec u 0); [assumption |]. exfalso. apply H1. split; lra.
    + assert (Qltb s' 0 = false) as -> by (apply Qltb_ge; lra). rewrite xorb_false_l.
      apply IH; try assumption. lra.
Qed.

(* convexity: seen from a, the vertices follow each other counter-clockwise (every triangle a, v_i, v_j with i < j is
   counter-clockwise); with the point on the left of the first edge a -> v1, the signs never go up *)
Lemma convex_no_up a v1 p l :
  0 < orient a v1 p ->
  Forall (fun b => 0 < orient a v1 b) l -> ForallOrdPairs (fun b c => 0 < orient a b c) l ->
  no_up (map (fun v => orient a v p) l).
Proof.
  intros H1 HF HP. induction l as [| b t IH]; [exact I |]. destruct t as [| c rest]; [exact I |].
  inversion HF as [| ? ? Fb HF']; subst. inversion HF' as [| ? ? Fc _]; subst.
  inversion HP as [| ? ? Pb HP']; subst. inversion Pb as [| ? ? Pbc _]; subst.
  cbn [map no_up]. split; [| apply IH; assumption].
  intros (Sb & Sc). pose proof (pluecker a v1 b c p) as K.
  assert (0 < orient a v1 p * orient a b c) by (apply mul_pp; assumption).
  assert (orient a b p * orient a v1 c < 0) by (apply mul_np; assumption).
  assert (0 < orient a c p * orient a v1 b) by (apply mul_pp; assumption).
  lra.
Qed.

(* THE CONVEX CASE: polygon a :: v1 :: rest listed counter-clockwise and convex at a (all triangles a, v_i, v_j, i < j,
   counter-clockwise), the point strictly on the left of every boundary edge and off the fan diagonals *)
Theorem pip_convex_inside a v1 rest p :
  let l := v1 :: rest in
  ForallOrdPairs (fun b c => 0 < orient a b c) l ->          (* convex, counter-clockwise *)
  0 < orient a v1 p -> fan_ok a p l -> 0 < orient (last l a) a p -> (* left of every boundary edge *)
  Forall (fun v => ~ orient a v p == 0) l ->                  (* off the diagonals from a *)
  point_in_polygon p (a :: l) = true.
Proof.
  intros l HP H1 Hok Hlast HN. rewrite pip_fan, (fan_parity_downs a p l Hok HN).
  assert (NU : no_up (map (fun v => orient a v p) l)).
  { unfold l. inversion HP as [| ? ? F1 HP']; subst.
    cbn [map no_up]. destruct rest as [| b t]; [exact I |]. split; [intros (S & _); lra |].
    apply (convex_no_up a v1 p (b :: t) H1 F1 HP'). }
  assert (NZ : Forall (fun q => ~ q == 0) (map (fun v => orient a v p) l)).
  { apply Forall_forall. intros q Hq. apply in_map_iff in Hq as (v & <- & Hv). rewrite Forall_forall in HN. apply HN, Hv. }
  unfold l in *. cbn [map] in *. rewrite (downs_positive_head _ _ H1 NU NZ).
  apply Qltb_lt. change (orient a v1 p :: map (fun v => orient a v p) rest) with (map (fun v => orient a v p) (v1 :: rest)).
  assert (E : last (map (fun v => orient a v p) (v1 :: rest)) 0 = orient a (last (v1 :: rest) a) p).
  { clear. generalize v1. induction rest as [| u t IHt]; intros w; [reflexivity |].
    change (last (map (fun v => orient a v p) (w :: u :: t)) 0) with (last (map (fun v => orient a v p) (u :: t)) 0).
    change (last (w :: u :: t) a) with (last (u :: t) a). apply IHt. }
  rewrite E. pose proof (orient_flip (last (v1 :: rest) a) a p) as F. lra.
Qed.

(* ---- the other direction: a point strictly separated from all the vertices by a line is outside --------------------- *)
(* orient u v . is affine: weighted by the barycentric coordinates of p in the triangle (a, b, c) *)
Lemma orient_barycentric u v a b c p :
  orient a b c * orient u v p == orient b c p * orient u v a + orient c a p * orient u v b + orient a b p * orient u v c.
Proof. destruct u, v, a, b, c, p. unfold orient. cbn [fst snd]. ring. Qed.

(* along the fan: every fan triangle counter-clockwise, the point off every boundary edge line *)
Fixpoint fan_general (a p : pt) (l : list pt) : Prop :=
  match l with
  | b :: t => match t with c :: _ => 0 < orient a b c /\ ~ orient b c p == 0 /\ fan_general a p t | [] => True end
  | [] => True
  end.

Lemma separated_triangle u v a b c p :
  orient u v p < 0 -> 0 <= orient u v a -> 0 <= orient u v b -> 0 <= orient u v c ->
  0 < orient a b c -> ~ orient a b p == 0 -> ~ orient b c p == 0 -> ~ orient a c p == 0 ->
  point_in_polygon p [a; b; c] = false.
Proof.
  intros Hp Ha Hb Hc HA N1 N2 N3. pose proof (orient_area a b c p) as A. pose proof (orient_flip a c p) as F.
  apply pip_triangle_outside; try lra.
  intros (G1 & G2 & G3). pose proof (orient_barycentric u v a b c p) as K.
  assert (orient a b c * orient u v p < 0).
  { setoid_replace (orient a b c * orient u v p) with (orient u v p * orient a b c) by ring. apply mul_np; assumption. }
  assert (0 <= orient b c p * orient u v a) by (apply Qmult_le_0_compat; lra).
  assert (0 <= orient c a p * orient u v b) by (apply Qmult_le_0_compat; lra).
  assert (0 <= orient a b p * orient u v c) by (apply Qmult_le_0_compat; lra).
  lra.
Qed.

Theorem pip_separated_outside u v a l p :
  orient u v p < 0 -> Forall (fun w => 0 <= orient u v w) (a :: l) ->
  fan_general a p l -> Forall (fun w => ~ orient a w p == 0) l ->
  point_in_polygon p (a :: l) = false.
Proof.
  intros Hp HV. inversion HV as [| ? ? Ha HL]; subst. rewrite pip_fan. clear HV.
  induction l as [| b t IH]; [reflexivity |]. destruct t as [| c rest]; [reflexivity |].
  intros (HA & Ne & Hg) HN.
  inversion HL as [| ? ? Hb HL']; subst. inversion HL' as [| ? ? Hc _]; subst.
  inversion HN as [| ? ? Nb HN']; subst. inversion HN' as [| ? ? Nc _]; subst.
  cbn [fan_parity]. rewrite (separated_triangle u v a b c p Hp Ha Hb Hc HA Nb Ne Nc). rewrite xorb_false_l.
  apply IH; assumption.
Qed.
