(* C16: range and bin count do not depend on the order of the accommodated spectra / filters. *)
Require Import Cherab.Common.Qx.
Require Import Cherab.Model.C16_Instruments Cherab.Proofs.C16_Range Cherab.Proofs.C16_Polychromator.
From Coq Require Import Permutation Morphisms Qround Lqa.
Open Scope Q_scope.
Lemma qmax_case a b : qmax a b = a \/ qmax a b = b.
Proof. unfold qmax. destruct (Qle_bool a b); auto. Qed.

Lemma qmax_list_in l : forall m, qmax_list l = Some m -> In m l.
Proof.
  induction l as [|a t IH]; intros m Hm; [discriminate|].
  cbn in Hm. destruct (qmax_list t) as [mt|] eqn:Et.
  - injection Hm as <-. destruct (qmax_case a mt) as [->| ->]; [left; reflexivity|right; apply IH; reflexivity].
  - injection Hm as <-. left; reflexivity.
Qed.

Lemma qmin_list_none l : qmin_list l = None <-> l = [].
Proof. destruct l as [|a t]; cbn; [tauto|]. destruct (qmin_list t); split; discriminate. Qed.
Lemma qmax_list_none l : qmax_list l = None <-> l = [].
Proof. destruct l as [|a t]; cbn; [tauto|]. destruct (qmax_list t); split; discriminate. Qed.

(* the minimum / maximum of a list does not depend on the order of the list (as a rational number) *)
Lemma qmin_list_perm l l' m m' : Permutation l l' -> qmin_list l = Some m -> qmin_list l' = Some m' -> m == m'.
Proof.
  intros P H H'. apply Qle_antisym.
  - apply (qmin_list_le _ _ H). apply (Permutation_in _ (Permutation_sym P)), (qmin_list_in _ _ H').
  - apply (qmin_list_le _ _ H'). apply (Permutation_in _ P), (qmin_list_in _ _ H).
Qed.
Lemma qmax_list_perm l l' m m' : Permutation l l' -> qmax_list l = Some m -> qmax_list l' = Some m' -> m == m'.
Proof.
  intros P H H'. apply Qle_antisym.
  - apply (qmax_list_ge _ _ H'). apply (Permutation_in _ P), (qmax_list_in _ _ H).
  - apply (qmax_list_ge _ _ H). apply (Permutation_in _ (Permutation_sym P)), (qmax_list_in _ _ H').
Qed.

Lemma perm_none_min l l' : Permutation l l' -> qmin_list l = None -> qmin_list l' = None.
Proof. intros P H. apply qmin_list_none in H. subst. apply Permutation_nil in P. subst. reflexivity. Qed.
Lemma perm_none_max l l' : Permutation l l' -> qmax_list l = None -> qmax_list l' = None.
Proof. intros P H. apply qmax_list_none in H. subst. apply Permutation_nil in P. subst. reflexivity. Qed.

Definition xq_eq (a b : option xq) : Prop :=
  match a, b with
  | Some (Fin x), Some (Fin y) => x == y
  | Some PInf, Some PInf | None, None => True
  | _, _ => False
  end.
Definition derived_eq (d d' : derived) : Prop :=
  xq_eq (d_min d) (d_min d') /\ xq_eq (d_max d) (d_max d') /\ d_bins d = d_bins d'.

Section Order.
Variable rnd : Q -> Q.
Hypothesis rnd_proper : Proper (Qeq ==> Qeq) rnd.

(* Spectrometer: range and bin count do not depend on the order in which the accommodated spectra are listed *)
Lemma sp_derive_perm mbpp w2p w2p' : Permutation w2p w2p' ->
  derived_eq (sp_derive rnd mbpp w2p) (sp_derive rnd mbpp w2p').
Proof.
  intros P. unfold sp_derive.
  pose proof (Permutation_map (fun a => hd 0 a) P) as P1.
  pose proof (Permutation_map (fun a => last a 0) P) as P2.
  pose proof (Permutation_flat_map (diffs rnd) P) as P3.
  destruct (qmin_list (map (fun a => hd 0 a) w2p)) as [mn|] eqn:E1.
  2:{ rewrite (perm_none_min _ _ P1 E1). repeat split. }
  destruct (qmin_list (map (fun a => hd 0 a) w2p')) as [mn'|] eqn:E1'.
  2:{ rewrite (perm_none_min _ _ (Permutation_sym P1) E1') in E1. discriminate. }
  destruct (qmax_list (map (fun a => last a 0) w2p)) as [mx|] eqn:E2.
  2:{ rewrite (perm_none_max _ _ P2 E2). repeat split. }
  destruct (qmax_list (map (fun a => last a 0) w2p')) as [mx'|] eqn:E2'.
  2:{ rewrite (perm_none_max _ _ (Permutation_sym P2) E2') in E2. discriminate. }
  destruct (qmin_list (flat_map (diffs rnd) w2p)) as [mw|] eqn:E3.
  2:{ rewrite (perm_none_min _ _ P3 E3). repeat split. }
  destruct (qmin_list (flat_map (diffs rnd) w2p')) as [mw'|] eqn:E3'.
  2:{ rewrite (perm_none_min _ _ (Permutation_sym P3) E3') in E3. discriminate. }
  pose proof (qmin_list_perm _ _ _ _ P1 E1 E1') as Hmn.
  pose proof (qmax_list_perm _ _ _ _ P2 E2 E2') as Hmx.
  pose proof (qmin_list_perm _ _ _ _ P3 E3 E3') as Hmw.
  repeat split; cbn; try assumption.
  f_equal. unfold nbins. apply Qceiling_comp. rewrite Hmn, Hmx, Hmw. reflexivity.
Qed.
End Order.

(* exact arithmetic is a morphism *)
Lemma exact_proper : Proper (Qeq ==> Qeq) exact.
Proof. intros x y H. exact H. Qed.

(* ---- Polychromator ---- *)
Lemma fold_xmin_pinf (g : pfilter -> Q) fs : forall acc,
  fold_left (fun m f => xmin m (g f)) fs acc = PInf -> fs = [] /\ acc = PInf.
Proof.
  induction fs as [|x t IH]; intros acc H; [split; [reflexivity|exact H]|].
  cbn in H. destruct (IH _ H) as [_ E]. destruct acc; discriminate E.
Qed.

Lemma fold_qmax_in (g : pfilter -> Q) fs : forall acc,
  fold_left (fun m f => qmax m (g f)) fs acc = acc \/
  exists f, In f fs /\ fold_left (fun m f => qmax m (g f)) fs acc = g f.
Proof.
  induction fs as [|x t IH]; intros acc; [left; reflexivity|].
  cbn. destruct (IH (qmax acc (g x))) as [E|(f & Hf & E)].
  - rewrite E. destruct (qmax_case acc (g x)) as [-> | ->]; [left; reflexivity|right; exists x; split; [left|]; reflexivity].
  - right. exists f. split; [right; exact Hf|exact E].
Qed.

Lemma fold_xmin_perm (g : pfilter -> Q) fs fs' : Permutation fs fs' ->
  xq_eq (Some (fold_left (fun m f => xmin m (g f)) fs PInf)) (Some (fold_left (fun m f => xmin m (g f)) fs' PInf)).
Proof.
  intros P.
  destruct (fold_left (fun m f => xmin m (g f)) fs PInf) as [q|] eqn:E;
  destruct (fold_left (fun m f => xmin m (g f)) fs' PInf) as [q'|] eqn:E'; cbn; try exact I.
  - destruct (fold_xmin_le g fs PInf q E) as (H1 & _ & [(f & Hf & Ef)|D]); [|discriminate].
    destruct (fold_xmin_le g fs' PInf q' E') as (H1' & _ & [(f' & Hf' & Ef')|D]); [|discriminate].
    apply Qle_antisym.
    + rewrite Ef'. apply H1. apply (Permutation_in _ (Permutation_sym P)), Hf'.
    + rewrite Ef. apply H1'. apply (Permutation_in _ P), Hf.
  - destruct (fold_xmin_pinf g fs' PInf E') as [-> _]. apply Permutation_sym, Permutation_nil in P. subst. discriminate.
  - destruct (fold_xmin_pinf g fs PInf E) as [-> _]. apply Permutation_nil in P. subst. discriminate.
Qed.

Lemma fold_qmax_perm (g : pfilter -> Q) fs fs' acc : Permutation fs fs' ->
  fold_left (fun m f => qmax m (g f)) fs acc == fold_left (fun m f => qmax m (g f)) fs' acc.
Proof.
  intros P.
  destruct (fold_qmax_ge g fs acc) as [A1 A2]. destruct (fold_qmax_ge g fs' acc) as [B1 B2].
  apply Qle_antisym.
  - destruct (fold_qmax_in g fs acc) as [E|(f & Hf & E)]; rewrite E; [exact B1|apply B2, (Permutation_in _ P), Hf].
  - destruct (fold_qmax_in g fs' acc) as [E|(f & Hf & E)]; rewrite E; [exact A1|apply A2, (Permutation_in _ (Permutation_sym P)), Hf].
Qed.

Section OrderPC.
Variable rnd : Q -> Q.
Hypothesis rnd_proper : Proper (Qeq ==> Qeq) rnd.

(* Polychromator: range and bin count do not depend on the order of the filters *)
Lemma pc_derive_perm mbpw fs fs' : Permutation fs fs' ->
  derived_eq (pc_derive rnd mbpw fs) (pc_derive rnd mbpw fs').
Proof.
  intros P. unfold pc_derive, derived_eq. cbn [d_min d_max d_bins].
  pose proof (fold_xmin_perm f_min fs fs' P) as Hmn.
  pose proof (fold_xmin_perm (fun f => rnd (f_window f / inject_Z mbpw)) fs fs' P) as Hst.
  pose proof (fold_qmax_perm f_max fs fs' 0 P) as Hmx.
  split; [exact Hmn|]. split; [exact Hmx|].
  destruct (fold_left (fun st f => xmin st (rnd (f_window f / inject_Z mbpw))) fs PInf) as [st|];
  destruct (fold_left (fun st f => xmin st (rnd (f_window f / inject_Z mbpw))) fs' PInf) as [st'|]; cbn in Hst; try contradiction;
  destruct (fold_left (fun m f => xmin m (f_min f)) fs PInf) as [mn|];
  destruct (fold_left (fun m f => xmin m (f_min f)) fs' PInf) as [mn'|]; cbn in Hmn; try contradiction; try reflexivity.
  f_equal. unfold nbins. apply Qceiling_comp. rewrite Hmn, Hmx, Hst. reflexivity.
Qed.
End OrderPC.
