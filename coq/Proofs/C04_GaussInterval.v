(* C04: certified numbers (CoqInterval) for the Gaussian of the beam envelope.  Compiled on every run (extra module of the
   check) but NOT part of Properties/C04.v: the independent checker coqchk needs more than 50 minutes for the Interval library. *)
From Coq Require Import Reals Lra.
From Coquelicot Require Import Coquelicot.
From Interval Require Import Tactic.
Open Scope R_scope.

(* default clamp radius 5 sigma: the clamped beam keeps all but 3.73e-6 of the particles *)
Lemma default_clamp_tail : Rabs (exp (- (5 * 5) / 2) - 3.7266531720786709e-6) <= 1e-18.
Proof. interval with (i_prec 90). Qed.

(* one-dimensional Gaussian mass inside +-8 sigma (certified quadrature) *)
Lemma gaussian_mass_8_sigma :
  Rabs (RInt (fun x => exp (- (x * x) / 2) / sqrt (2 * PI)) (-8) 8 - 1) <= 1e-12.
Proof. integral with (i_fuel 2000, i_prec 80, i_degree 12). Qed.
