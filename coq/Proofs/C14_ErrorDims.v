(* Error bounds for the caches after any history, every cell (first/last included), 1-D and 2-D,
   given Taylor's inequality for the wrapped function as a hypothesis. *)
Require Import Cherab.Common.Qx.
Require Import Cherab.Model.C14_Cache Cherab.Model.C14_Caching.
Require Import Cherab.Proofs.C14_Hermite Cherab.Proofs.C14_Find Cherab.Proofs.C14_Dim1 Cherab.Proofs.C14_Tensor
               Cherab.Proofs.C14_Error.
From Coq Require Import Qabs Lqa.
Open Scope Q_scope.

(* Taylor's inequality at t for the samples of a function of one variable at the four nodes of cell i *)
Definition taylor4 (x : Z -> Q) (i : Z) (phi : Q -> Q) (t g M : Q) : Prop :=
  forall k, (i - 1 <= k <= i + 2)%Z ->
  - ((M / 2) * ((x k - t) * (x k - t))) <= phi (x k) - (phi t + g * (x k - t)) <= (M / 2) * ((x k - t) * (x k - t)).
(* H bounds the three spacings of the cell's stencil *)
Definition spacing_le (x : Z -> Q) (i : Z) (H : Q) : Prop :=
  x i - x (i - 1)%Z <= H /\ x (i + 1)%Z - x i <= H /\ x (i + 2)%Z - x (i + 1)%Z <= H.

Lemma spec1_error_bound x top phi i t g M H :
  increasing x top -> (1 <= i <= top - 2)%Z -> x i <= t <= x (i + 1)%Z ->
  spacing_le x i H -> 0 <= M -> taylor4 x i phi t g M ->
  - (3 * M * (H * H)) <= spec1 x phi i t - phi t <= 3 * M * (H * H).
Proof.
  intros Hinc Hi Ht (S1 & S2 & S3) HM T. unfold spec1.
  apply (HL_error_bound _ _ _ _ _ _ _ _ t (phi t) g M H); try assumption.
  - apply (increasing_lt x top Hinc); lia.
  - apply (increasing_lt x top Hinc); lia.
  - apply (increasing_lt x top Hinc); lia.
  - apply T; lia.
  - apply T; lia.
  - apply T; lia.
  - apply T; lia.
Qed.

Lemma HL_linear_diff xm x0 x1 x2 dm d0 d1 d2 em e0 e1 e2 t :
  ~ x1 - x0 == 0 -> ~ x1 - xm == 0 -> ~ x2 - x0 == 0 ->
  HL xm x0 x1 x2 dm d0 d1 d2 t - HL xm x0 x1 x2 em e0 e1 e2 t
  == HL xm x0 x1 x2 (dm - em) (d0 - e0) (d1 - e1) (d2 - e2) t.
Proof. intros. rewrite !HL_raw. unfold HLraw. field. auto. Qed.

Section Bounds.
  Variables (x : Z -> Q) (top : Z).
  Hypothesis Hinc : increasing x top.
  Hypothesis Htop : (3 <= top)%Z.
  Variables (fb : option (Q * Q)) (nbe : bool) (f : Q -> Q).

  Theorem after1_error_bound hist p i v g M H :
    locate1 x top p = Some i -> eval_after1 fb nbe x top f hist p = Val v ->
    spacing_le x i H -> 0 <= M -> taylor4 x i f p g M ->
    - (3 * M * (H * H)) <= v - f p <= 3 * M * (H * H).
  Proof.
    intros L E S HM T.
    destruct (after1_spec x top Hinc Htop fb nbe f hist p i L) as (v' & E' & V).
    rewrite E in E'. injection E' as <-. rewrite V.
    destruct (locate1_sound x top p i ltac:(lia) L) as (Hi & Hlo & Hhi).
    apply (spec1_error_bound x top f i p g M H); try assumption. split; lra.
  Qed.
End Bounds.

(* one more axis: the cubic along x of values G_u that are within Ein of F(x_u), F satisfying Taylor's inequality *)
Lemma outer_error_bound x top i (G F : Q -> Q) t g M H Ein :
  increasing x top -> (1 <= i <= top - 2)%Z -> x i <= t <= x (i + 1)%Z ->
  spacing_le x i H -> 0 <= M -> taylor4 x i F t g M ->
  (forall u, (i - 1 <= u <= i + 2)%Z -> - Ein <= G (x u) - F (x u) <= Ein) ->
  - (3 * M * (H * H) + (3 # 2) * Ein) <= spec1 x G i t - F t <= 3 * M * (H * H) + (3 # 2) * Ein.
Proof.
  intros Hinc Hi Ht S HM T In.
  pose proof (spec1_error_bound x top F i t g M H Hinc Hi Ht S HM T) as Out.
  destruct (nodes_distinct x top Hinc i Hi) as (A0 & Am & A2 & _).
  assert (Ord1 : x (i - 1)%Z < x i) by (apply (increasing_lt x top Hinc); lia).
  assert (Ord2 : x i < x (i + 1)%Z) by (apply (increasing_lt x top Hinc); lia).
  assert (Ord3 : x (i + 1)%Z < x (i + 2)%Z) by (apply (increasing_lt x top Hinc); lia).
  unfold spec1 in *.
  pose proof (HL_linear_diff (x (i - 1)%Z) (x i) (x (i + 1)%Z) (x (i + 2)%Z)
                (G (x (i - 1)%Z)) (G (x i)) (G (x (i + 1)%Z)) (G (x (i + 2)%Z))
                (F (x (i - 1)%Z)) (F (x i)) (F (x (i + 1)%Z)) (F (x (i + 2)%Z)) t A0 Am A2) as LD.
  assert (Zr : forall d xx, - Ein <= d <= Ein -> - Ein <= d - (0 + 0 * xx) <= Ein).
  { intros d xx [D1 D2]. split; lra. }
  pose proof (HL_general_stability (x (i - 1)%Z) (x i) (x (i + 1)%Z) (x (i + 2)%Z) 0 0
                (G (x (i - 1)%Z) - F (x (i - 1)%Z)) (G (x i) - F (x i))
                (G (x (i + 1)%Z) - F (x (i + 1)%Z)) (G (x (i + 2)%Z) - F (x (i + 2)%Z)) t Ein
                Ord1 Ord2 Ord3 Ht (Zr _ _ (In (i - 1)%Z ltac:(lia))) (Zr _ _ (In i ltac:(lia)))
                (Zr _ _ (In (i + 1)%Z ltac:(lia))) (Zr _ _ (In (i + 2)%Z ltac:(lia)))) as St.
  rewrite <- LD in St. lra.
Qed.

Lemma spec2_error_bound x y topx topy (f : Q * Q -> Q) i j px py gx gy Mx My Hx' Hy' :
  increasing x topx -> increasing y topy -> (1 <= i <= topx - 2)%Z -> (1 <= j <= topy - 2)%Z ->
  x i <= px <= x (i + 1)%Z -> y j <= py <= y (j + 1)%Z ->
  spacing_le x i Hx' -> spacing_le y j Hy' -> 0 <= Mx -> 0 <= My ->
  (forall u, (i - 1 <= u <= i + 2)%Z -> taylor4 y j (fun b => f (x u, b)) py (gy u) My) ->
  taylor4 x i (fun a => f (a, py)) px gx Mx ->
  - (3 * Mx * (Hx' * Hx') + (9 # 2) * My * (Hy' * Hy')) <= spec2 x y f (i, j) (px, py) - f (px, py)
  <= 3 * Mx * (Hx' * Hx') + (9 # 2) * My * (Hy' * Hy').
Proof.
  intros Hx Hy Hi Hj Hpx Hpy Sx Sy HMx HMy TY TX. unfold spec2. cbn [fst snd].
  pose proof (outer_error_bound x topx i (fun a => spec1 y (fun b => f (a, b)) j py) (fun a => f (a, py)) px gx Mx Hx'
                (3 * My * (Hy' * Hy')) Hx Hi Hpx Sx HMx TX) as O.
  cbv beta in O.
  assert (In : forall u, (i - 1 <= u <= i + 2)%Z ->
               - (3 * My * (Hy' * Hy')) <= spec1 y (fun b => f (x u, b)) j py - f (x u, py) <= 3 * My * (Hy' * Hy')).
  { intros u Hu. apply (spec1_error_bound y topy (fun b => f (x u, b)) j py (gy u) My Hy'); try assumption.
    apply TY; exact Hu. }
  specialize (O In). lra.
Qed.

Lemma spec3_error_bound x y z topx topy topz (f : Q * Q * Q -> Q) i j k px py pz gx gy gz Mx My Mz Hx' Hy' Hz' :
  increasing x topx -> increasing y topy -> increasing z topz ->
  (1 <= i <= topx - 2)%Z -> (1 <= j <= topy - 2)%Z -> (1 <= k <= topz - 2)%Z ->
  x i <= px <= x (i + 1)%Z -> y j <= py <= y (j + 1)%Z -> z k <= pz <= z (k + 1)%Z ->
  spacing_le x i Hx' -> spacing_le y j Hy' -> spacing_le z k Hz' -> 0 <= Mx -> 0 <= My -> 0 <= Mz ->
  (forall u v, (i - 1 <= u <= i + 2)%Z -> (j - 1 <= v <= j + 2)%Z ->
               taylor4 z k (fun c => f (x u, y v, c)) pz (gz u v) Mz) ->
  (forall u, (i - 1 <= u <= i + 2)%Z -> taylor4 y j (fun b => f (x u, b, pz)) py (gy u) My) ->
  taylor4 x i (fun a => f (a, py, pz)) px gx Mx ->
  - (3 * Mx * (Hx' * Hx') + (9 # 2) * My * (Hy' * Hy') + (27 # 4) * Mz * (Hz' * Hz'))
  <= spec3 x y z f (i, j, k) (px, py, pz) - f (px, py, pz)
  <= 3 * Mx * (Hx' * Hx') + (9 # 2) * My * (Hy' * Hy') + (27 # 4) * Mz * (Hz' * Hz').
Proof.
  intros Hx Hy Hz Hi Hj Hk Hpx Hpy Hpz Sx Sy Sz HMx HMy HMz TZ TY TX. unfold spec3.
  pose proof (outer_error_bound x topx i
                (fun a => spec1 y (fun b => spec1 z (fun c => f (a, b, c)) k pz) j py) (fun a => f (a, py, pz)) px gx Mx Hx'
                (3 * My * (Hy' * Hy') + (9 # 2) * Mz * (Hz' * Hz')) Hx Hi Hpx Sx HMx TX) as O.
  cbv beta in O.
  assert (In : forall u, (i - 1 <= u <= i + 2)%Z ->
               - (3 * My * (Hy' * Hy') + (9 # 2) * Mz * (Hz' * Hz'))
               <= spec1 y (fun b => spec1 z (fun c => f (x u, b, c)) k pz) j py - f (x u, py, pz)
               <= 3 * My * (Hy' * Hy') + (9 # 2) * Mz * (Hz' * Hz')).
  { intros u Hu.
    exact (spec2_error_bound y z topy topz (fun bc => f (x u, fst bc, snd bc)) j k py pz (gy u) (gz u) My Mz Hy' Hz'
             Hy Hz Hj Hk Hpy Hpz Sy Sz HMy HMz (fun v Hv => TZ u v Hu Hv) (TY u Hu)). }
  specialize (O In). lra.
Qed.

Section Bounds2.
  Variables (x y : Z -> Q) (topx topy : Z).
  Hypothesis Hx : increasing x topx.
  Hypothesis Hy : increasing y topy.
  Hypothesis Tx : (3 <= topx)%Z.
  Hypothesis Ty : (3 <= topy)%Z.
  Variables (fb : option (Q * Q)) (nbe : bool) (f : Q * Q -> Q).

  (* Taylor along y on the four grid lines x = x_u through the cell, Taylor along x on the line y = py *)
  Theorem after2_error_bound hist px py i j v gx gy Mx My Hx' Hy' :
    locate2 x y topx topy (px, py) = Some (i, j) ->
    eval_after2 fb nbe x y topx topy f hist (px, py) = Val v ->
    spacing_le x i Hx' -> spacing_le y j Hy' -> 0 <= Mx -> 0 <= My ->
    (forall u, (i - 1 <= u <= i + 2)%Z -> taylor4 y j (fun b => f (x u, b)) py (gy u) My) ->
    taylor4 x i (fun a => f (a, py)) px gx Mx ->
    - (3 * Mx * (Hx' * Hx') + (9 # 2) * My * (Hy' * Hy')) <= v - f (px, py)
    <= 3 * Mx * (Hx' * Hx') + (9 # 2) * My * (Hy' * Hy').
  Proof.
    intros L E Sx Sy HMx HMy TY TX.
    destruct (after2_spec x y topx topy Hx Hy Tx Ty fb nbe f hist (px, py) (i, j) L) as (v' & E' & V).
    rewrite E in E'. injection E' as <-. rewrite V.
    destruct (locate2_sound x y topx topy (px, py) i j ltac:(lia) ltac:(lia) L) as (L1 & L2).
    cbn [fst snd] in L1, L2.
    destruct (locate1_sound x topx px i ltac:(lia) L1) as (Hi & Hxl & Hxh).
    destruct (locate1_sound y topy py j ltac:(lia) L2) as (Hj & Hyl & Hyh).
    apply (spec2_error_bound x y topx topy f i j px py gx gy Mx My Hx' Hy'); try assumption; split; lra.
  Qed.
End Bounds2.

Section Bounds3.
  Variables (x y z : Z -> Q) (topx topy topz : Z).
  Hypothesis Hx : increasing x topx.
  Hypothesis Hy : increasing y topy.
  Hypothesis Hz : increasing z topz.
  Hypothesis Tx : (3 <= topx)%Z.
  Hypothesis Ty : (3 <= topy)%Z.
  Hypothesis Tz : (3 <= topz)%Z.
  Variables (fb : option (Q * Q)) (nbe : bool) (f : Q * Q * Q -> Q).

  Theorem after3_error_bound hist px py pz i j k v gx gy gz Mx My Mz Hx' Hy' Hz' :
    locate3 x y z topx topy topz (px, py, pz) = Some (i, j, k) ->
    eval_after3 fb nbe x y z topx topy topz f hist (px, py, pz) = Val v ->
    spacing_le x i Hx' -> spacing_le y j Hy' -> spacing_le z k Hz' -> 0 <= Mx -> 0 <= My -> 0 <= Mz ->
    (forall u w, (i - 1 <= u <= i + 2)%Z -> (j - 1 <= w <= j + 2)%Z ->
                 taylor4 z k (fun c => f (x u, y w, c)) pz (gz u w) Mz) ->
    (forall u, (i - 1 <= u <= i + 2)%Z -> taylor4 y j (fun b => f (x u, b, pz)) py (gy u) My) ->
    taylor4 x i (fun a => f (a, py, pz)) px gx Mx ->
    - (3 * Mx * (Hx' * Hx') + (9 # 2) * My * (Hy' * Hy') + (27 # 4) * Mz * (Hz' * Hz')) <= v - f (px, py, pz)
    <= 3 * Mx * (Hx' * Hx') + (9 # 2) * My * (Hy' * Hy') + (27 # 4) * Mz * (Hz' * Hz').
  Proof.
    intros L E Sx Sy Sz HMx HMy HMz TZ TY TX.
    destruct (after3_spec x y z topx topy topz Hx Hy Hz Tx Ty Tz fb nbe f hist (px, py, pz) (i, j, k) L) as (v' & E' & V).
    rewrite E in E'. injection E' as <-. rewrite V.
    destruct (locate3_sound x y z topx topy topz (px, py, pz) i j k L) as (L1 & L2 & L3).
    cbn [fst snd] in L1, L2, L3.
    destruct (locate1_sound x topx px i ltac:(lia) L1) as (Hi & Hxl & Hxh).
    destruct (locate1_sound y topy py j ltac:(lia) L2) as (Hj & Hyl & Hyh).
    destruct (locate1_sound z topz pz k ltac:(lia) L3) as (Hk & Hzl & Hzh).
    apply (spec3_error_bound x y z topx topy topz f i j k px py pz gx gy gz Mx My Mz Hx' Hy' Hz'); try assumption; split; lra.
  Qed.
End Bounds3.
