(* The fast evaluator used by the correspondence computes the model's closed form. *)
Require Import Cherab.Common.Qx.
Require Import Cherab.Model.C09_Balance Cherab.Model.C09_Check.
Require Import Cherab.Proofs.C09_Balance.
Open Scope Q_scope.

Lemma ratios_fast_ok ion R n k cur :
  cur == ratio ion R k -> Forall2 Qeq (ratios_fast ion R n k cur) (map (ratio ion R) (seq k n)).
Proof.
  revert k cur. induction n as [|n IH]; intros k cur H; cbn [ratios_fast seq map]; constructor; [exact H|].
  apply IH. rewrite Qred_correct, H. reflexivity.
Qed.

Lemma Qsum_Forall2 l1 l2 : Forall2 Qeq l1 l2 -> Qsum l1 == Qsum l2.
Proof. induction 1 as [|a b l1 l2 Hab _ IH]; cbn [Qsum]; [reflexivity | rewrite Hab, IH; reflexivity]. Qed.

Lemma Qsum_map_seq f n : Qsum (map f (seq 0 n)) == sumn n f.
Proof.
  induction n as [|n IH]; [reflexivity|].
  rewrite seq_S, map_app, Qsum_app, IH. cbn. ring.
Qed.

Lemma Forall2_map_l {A B C} (P : C -> B -> Prop) (f : A -> C) l1 l2 :
  Forall2 (fun a b => P (f a) b) l1 l2 -> Forall2 P (map f l1) l2.
Proof. induction 1; cbn; constructor; auto. Qed.

Lemma Forall2_map_r {A B C} (P : A -> C -> Prop) (f : B -> C) l1 l2 :
  Forall2 (fun a b => P a (f b)) l1 l2 -> Forall2 P l1 (map f l2).
Proof. induction 1; cbn; constructor; auto. Qed.

Lemma Forall2_impl {A B} (P Q : A -> B -> Prop) l1 l2 :
  (forall a b, P a b -> Q a b) -> Forall2 P l1 l2 -> Forall2 Q l1 l2.
Proof. intros H; induction 1; constructor; auto. Qed.

Lemma cf_fast_ok Z ion R :
  Forall2 Qeq (cf_fast Z ion R) (map (cf Z ion R) (seq 0 (S Z))).
Proof.
  unfold cf_fast.
  pose proof (ratios_fast_ok ion R (S Z) 0 1 ltac:(reflexivity)) as H.
  assert (Qred (Qsum (ratios_fast ion R (S Z) 0 1)) == total Z ion R) as Ht.
  { rewrite Qred_correct, (Qsum_Forall2 _ _ H), Qsum_map_seq. reflexivity. }
  apply Forall2_map_l.
  assert (map (cf Z ion R) (seq 0 (S Z)) = map (fun r => r / total Z ion R) (map (ratio ion R) (seq 0 (S Z)))) as ->
      by (rewrite map_map; reflexivity).
  apply Forall2_map_r.
  eapply Forall2_impl; [|exact H].
  intros a b Hab. cbv beta. rewrite Qred_correct, Ht, Hab. reflexivity.
Qed.
