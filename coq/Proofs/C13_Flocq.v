(* C13 -- the binary64 range claim of the periodic wrappers derived from the IEEE-754 semantics of Coq's primitive floats,
   through Flocq (IEEE754/PrimFloat.v: add_equiv, next_down_equiv, ltb/leb/eqb_equiv; BinarySingleNaN: Bplus_correct,
   Bpred_correct; Core: monotonicity of rounding).  The axioms this brings in are the FloatAxioms of Coq's standard library
   (the specification of the primitive operations) and the axioms of the standard library's real numbers. *)
From Coq Require Import ZArith Reals Lra Lia Bool.
From Coq Require Import Floats.
From Flocq Require Import Core.Core IEEE754.BinarySingleNaN.
Require Import Flocq.IEEE754.PrimFloat.
Require Import Cherab.Model.C13_Float.
Open Scope R_scope.

Notation fx := (fexp prec emax).
Notation pfloat := Coq.Floats.PrimFloat.float.
Definition RV (x : pfloat) : R := B2R (Prim2B x).
Definition fin (x : pfloat) : bool := is_finite (Prim2B x).

Local Instance Hp_ : Prec_gt_0 prec := Hprec.
Local Instance Hm_ : Prec_lt_emax prec emax := Hmax.

Lemma RV_zero : RV zero = 0 /\ fin zero = true.
Proof. unfold RV, fin. rewrite zero_equiv, Prim2B_B2Prim. split; reflexivity. Qed.

Lemma ltb_R x y : fin x = true -> fin y = true -> (x <? y)%float = Rlt_bool (RV x) (RV y).
Proof. intros Hx Hy. rewrite ltb_equiv. apply Bltb_correct; assumption. Qed.
Lemma leb_R x y : fin x = true -> fin y = true -> (x <=? y)%float = Rle_bool (RV x) (RV y).
Proof. intros Hx Hy. rewrite leb_equiv. apply Bleb_correct; assumption. Qed.
Lemma eqb_R x y : fin x = true -> fin y = true -> (x =? y)%float = Req_bool (RV x) (RV y).
Proof. intros Hx Hy. rewrite eqb_equiv. apply Beqb_correct; assumption. Qed.

Lemma in_period_R r p : fin r = true -> fin p = true -> 0 <= RV r < RV p -> in_period_F r p = true.
Proof.
  intros Hr Hp [H0 H1]. unfold in_period_F. destruct RV_zero as [Z0 Zf].
  rewrite (leb_R zero r Zf Hr), (ltb_R r p Hr Hp), Z0.
  rewrite Rle_bool_true by assumption. rewrite Rlt_bool_true by assumption. reflexivity.
Qed.

(* IEEE addition of a negative remainder r in (-p, 0) and the period p: finite, equal to the rounding to nearest even of
   the exact sum, and inside [0, p] *)
Lemma add_in_range r p : fin r = true -> fin p = true -> - RV p < RV r < 0 ->
  fin (r + p)%float = true /\ RV (r + p)%float = round radix2 fx (round_mode mode_NE) (RV r + RV p)
  /\ 0 <= RV (r + p)%float <= RV p.
Proof.
  intros Hr Hp [H1 H2]. unfold fin, RV in *. rewrite add_equiv.
  set (R := Prim2B r) in *. set (P := Prim2B p) in *.
  assert (GP : generic_format radix2 fx (B2R P)) by apply generic_format_B2R.
  assert (Lo : 0 <= round radix2 fx (round_mode mode_NE) (B2R R + B2R P)).
  { apply round_ge_generic; [apply fexp_correct; exact Hp_ | apply valid_rnd_round_mode | apply generic_format_0 | lra]. }
  assert (Hi : round radix2 fx (round_mode mode_NE) (B2R R + B2R P) <= B2R P).
  { rewrite <- (round_generic radix2 fx (round_mode mode_NE) (B2R P)) at 2 by assumption.
    apply round_le; [apply fexp_correct; exact Hp_ | apply valid_rnd_round_mode | lra]. }
  pose proof (Bplus_correct prec emax Hprec Hmax mode_NE R P Hr Hp) as C.
  rewrite Rlt_bool_true in C.
  - destruct C as (C1 & C2 & _). rewrite C1. repeat split; assumption.
  - rewrite Rabs_pos_eq by assumption. apply Rle_lt_trans with (1 := Hi).
    apply Rle_lt_trans with (2 := abs_B2R_lt_emax prec emax P). apply Rle_abs.
Qed.

(* next_down of a positive finite double: finite, in [0, p) *)
Lemma next_down_in_range p : fin p = true -> 0 < RV p ->
  fin (next_down p) = true /\ 0 <= RV (next_down p) < RV p.
Proof.
  intros Hp H0. unfold fin, RV in *. rewrite next_down_equiv. set (P := Prim2B p) in *.
  assert (GP : generic_format radix2 fx (B2R P)) by apply generic_format_B2R.
  assert (Lo : 0 <= pred radix2 fx (B2R P)) by (apply pred_ge_0; [apply fexp_correct; exact Hp_ | assumption | assumption]).
  pose proof (Bpred_correct prec emax Hprec Hmax P Hp) as C.
  rewrite Rlt_bool_true in C.
  - destruct C as (C1 & C2 & _). rewrite C1. split; [assumption |]. split; [assumption |]. apply pred_lt_id. lra.
  - apply Rlt_le_trans with (2 := Lo). assert (0 < bpow radix2 emax) by apply bpow_gt_0. lra.
Qed.

(* what periodic.pxd does after the fmod call *)
Definition remainder_tail (r p : pfloat) : pfloat :=
  if (r <? zero)%float then
    let r' := (r + p)%float in if (r' =? p)%float then toward_zero_F p else r'
  else r.

Lemma remainder_F_tail x p : (p =? zero)%float = false -> remainder_F x p = remainder_tail (fmod_F x p) p.
Proof. intros H. unfold remainder_F, remainder_tail. rewrite H. reflexivity. Qed.

(* for every finite remainder r with |r| < p (what C fmod guarantees) and every finite period p > 0, the value handed to the
   wrapped function is a finite double in [0, p) *)
Theorem remainder_tail_in_period r p :
  fin r = true -> fin p = true -> 0 < RV p -> - RV p < RV r < RV p ->
  fin (remainder_tail r p) = true /\ 0 <= RV (remainder_tail r p) < RV p.
Proof.
  intros Hr Hp H0 [H1 H2]. unfold remainder_tail. destruct RV_zero as [Z0 Zf].
  rewrite (ltb_R r zero Hr Zf), Z0.
  destruct (Rlt_bool_spec (RV r) 0) as [Neg | Pos].
  - destruct (add_in_range r p Hr Hp (conj H1 Neg)) as (Fa & Va & La & Ua).
    rewrite (eqb_R _ p Fa Hp).
    destruct (Req_bool_spec (RV (r + p)%float) (RV p)) as [E | NE].
    + unfold toward_zero_F. rewrite (ltb_R zero p Zf Hp), Z0. rewrite Rlt_bool_true by assumption.
      apply next_down_in_range; assumption.
    + split; [assumption |]. split; [assumption | lra].
  - split; [assumption |]. split; assumption.
Qed.

Corollary remainder_tail_in_period_F r p :
  fin r = true -> fin p = true -> 0 < RV p -> - RV p < RV r < RV p -> in_period_F (remainder_tail r p) p = true.
Proof.
  intros Hr Hp H0 H. destruct (remainder_tail_in_period r p Hr Hp H0 H) as (F & B). apply in_period_R; assumption.
Qed.

(* ---- the model of C fmod (Model/C13_Float.v fmod_F) returns a finite double r with |r| < |p|, |r| <= |x| ---------------- *)
Lemma fmod_core_format (s : bool) mx ex mp ep :
  bounded prec emax mx ex = true -> bounded prec emax mp ep = true ->
  let '(r, e) := fmod_int mx ex mp ep in
  let v := F2R (Float radix2 (if s then - r else r)%Z e) in
  generic_format radix2 fx v
  /\ Rabs v < F2R (Float radix2 (Zpos mp) ep) /\ Rabs v <= F2R (Float radix2 (Zpos mx) ex).
Proof.
  intros Bx Bp. unfold fmod_int. set (e := Z.min ex ep).
  assert (Dx : (e <= ex)%Z) by (unfold e; lia). assert (Dp : (e <= ep)%Z) by (unfold e; lia).
  set (X := (Zpos mx * 2 ^ (ex - e))%Z). set (P := (Zpos mp * 2 ^ (ep - e))%Z).
  assert (HX : (0 <= X)%Z) by (unfold X; apply Z.mul_nonneg_nonneg; [lia | apply Z.pow_nonneg; lia]).
  assert (HP : (0 < P)%Z) by (unfold P; apply Z.mul_pos_pos; [lia | apply Z.pow_pos_nonneg; lia]).
  pose proof (Z.mod_pos_bound X P HP) as [M0 M1].
  assert (M2 : (X mod P <= X)%Z) by (apply Z.mod_le; assumption).
  set (r := (X mod P)%Z) in *.
  assert (EX : F2R (Float radix2 (Zpos mx) ex) = F2R (Float radix2 X e)) by (apply (F2R_change_exp radix2 e (Zpos mx) ex Dx)).
  assert (EP : F2R (Float radix2 (Zpos mp) ep) = F2R (Float radix2 P e)) by (apply (F2R_change_exp radix2 e (Zpos mp) ep Dp)).
  assert (AV : Rabs (F2R (Float radix2 (if s then - r else r)%Z e)) = F2R (Float radix2 r e)).
  { rewrite <- F2R_Zabs. f_equal. f_equal. destruct s; lia. }
  assert (LtP : Rabs (F2R (Float radix2 (if s then - r else r)%Z e)) < F2R (Float radix2 (Zpos mp) ep)).
  { rewrite AV, EP. apply F2R_lt. exact M1. }
  assert (LeX : Rabs (F2R (Float radix2 (if s then - r else r)%Z e)) <= F2R (Float radix2 (Zpos mx) ex)).
  { rewrite AV, EX. apply F2R_le. exact M2. }
  split; [| split; assumption].
  apply generic_format_F2R. intros NZ.
  assert (VNZ : F2R (Float radix2 (if s then - r else r)%Z e) <> 0) by (apply F2R_neq_0; exact NZ).
  unfold cexp.
  assert (Cx : ex = cexp radix2 fx (F2R (Float radix2 (Zpos mx) ex))).
  { apply andb_prop in Bx as [Cx _]. exact (canonical_canonical_mantissa prec emax false mx ex Cx). }
  assert (Cp : ep = cexp radix2 fx (F2R (Float radix2 (Zpos mp) ep))).
  { apply andb_prop in Bp as [Cp _]. exact (canonical_canonical_mantissa prec emax false mp ep Cp). }
  assert (Mono : forall a b, (a <= b)%Z -> (fx a <= fx b)%Z).
  { intros a b. apply (monotone_exp fx). }
  assert (Mx : (mag radix2 (F2R (Float radix2 (if s then - r else r)%Z e)) <= mag radix2 (F2R (Float radix2 (Zpos mx) ex)))%Z).
  { apply mag_le_abs; [exact VNZ |]. rewrite (Rabs_pos_eq (F2R (Float radix2 (Zpos mx) ex))); [exact LeX |].
    apply F2R_ge_0. simpl. lia. }
  assert (Mp : (mag radix2 (F2R (Float radix2 (if s then - r else r)%Z e)) <= mag radix2 (F2R (Float radix2 (Zpos mp) ep)))%Z).
  { apply mag_le_abs; [exact VNZ |]. rewrite (Rabs_pos_eq (F2R (Float radix2 (Zpos mp) ep))); [apply Rlt_le, LtP |].
    apply F2R_ge_0. simpl. lia. }
  apply Mono in Mx. apply Mono in Mp. unfold cexp in Cx, Cp. pose proof (eq_refl : e = Z.min ex ep) as Ee. lia.
Qed.

Lemma fmod_F_range x p : fin x = true -> fin p = true -> 0 < RV p ->
  fin (fmod_F x p) = true /\ - RV p < RV (fmod_F x p) < RV p.
Proof.
  unfold fin, RV. intros Fx Fp Pp. unfold fmod_F.
  rewrite <- (B2SF_Prim2B x), <- (B2SF_Prim2B p).
  destruct (Prim2B p) as [sp | sp | | sp mp ep Bp] eqn:EP; try discriminate Fp; cbn [B2R] in Pp; try lra.
  destruct (Prim2B x) as [sx | sx | | sx mx ex Bx] eqn:EX; try discriminate Fx; cbn [B2SF].
  - (* x is a zero: fmod returns x *)
    rewrite EX. cbn [is_finite B2R]. split; [reflexivity | lra].
  - (* both finite and non-zero *)
    pose proof (fmod_core_format sx mx ex mp ep Bx Bp) as C.
    destruct (fmod_int mx ex mp ep) as [r e].
    rewrite binary_normalize_equiv. fold (B2Prim (binary_normalize prec emax Hprec Hmax mode_NE (if sx then - r else r)%Z e sx)).
    rewrite Prim2B_B2Prim.
    destruct C as (G & LtP & _).
    (* the period is positive: its sign bit is clear *)
    assert (SP : sp = false).
    { destruct sp; [| reflexivity]. exfalso.
      assert (N0 : F2R (Float radix2 (cond_Zopp true (Zpos mp)) ep) < 0) by (apply F2R_lt_0; simpl; lia). lra. }
    subst sp. cbn [cond_Zopp] in Pp |- *.
    pose proof (binary_normalize_correct prec emax Hprec Hmax mode_NE (if sx then - r else r)%Z e sx) as N.
    cbv zeta in N. rewrite (round_generic radix2 fx (round_mode mode_NE) _ G) in N.
    rewrite Rlt_bool_true in N.
    + destruct N as (N1 & N2 & _). rewrite N1. split; [exact N2 |].
      apply Rabs_def2 in LtP. cbn [B2R cond_Zopp]. lra.
    + apply Rlt_trans with (1 := LtP).
      pose proof (abs_B2R_lt_emax prec emax (B754_finite false mp ep Bp)) as A. cbn [B2R cond_Zopp] in A.
      rewrite Rabs_pos_eq in A by lra. exact A.
Qed.

(* THE RANGE CLAIM ON BINARY64: for every finite double x and every finite period p > 0 the value the periodic wrappers
   hand to the wrapped function is a finite double in [0, p) *)
Theorem remainder_F_in_period x p :
  fin x = true -> fin p = true -> 0 < RV p ->
  fin (remainder_F x p) = true /\ 0 <= RV (remainder_F x p) < RV p /\ in_period_F (remainder_F x p) p = true.
Proof.
  intros Fx Fp Pp. destruct RV_zero as [Z0 Zf].
  assert (NZ : (p =? zero)%float = false).
  { rewrite (eqb_R p zero Fp Zf), Z0. apply Req_bool_false. lra. }
  rewrite (remainder_F_tail x p NZ).
  destruct (fmod_F_range x p Fx Fp Pp) as (Fr & Rr).
  destruct (remainder_tail_in_period _ p Fr Fp Pp Rr) as (F & B).
  split; [exact F |]. split; [exact B |]. apply in_period_R; assumption.
Qed.

(* in terms of the primitive tests only (no reals in the statement) *)
Corollary remainder_F_in_period_prim (x p : pfloat) :
  Coq.Floats.PrimFloat.is_finite x = true -> Coq.Floats.PrimFloat.is_finite p = true -> (zero <? p)%float = true ->
  in_period_F (remainder_F x p) p = true.
Proof.
  intros Fx Fp Pp. rewrite is_finite_equiv in Fx, Fp. destruct RV_zero as [Z0 Zf].
  rewrite (ltb_R zero p Zf Fp), Z0 in Pp.
  destruct (Rlt_bool_spec 0 (RV p)) as [H |]; [| discriminate].
  apply (remainder_F_in_period x p Fx Fp H).
Qed.

(* ---- clamping on binary64 (raysect clamp, Model/C13_Float.v clamp_F) ---------------------------------------------------- *)
Theorem clamp_F_range v lo hi :
  fin v = true -> fin lo = true -> fin hi = true -> RV lo <= RV hi ->
  fin (clamp_F v lo hi) = true
  /\ RV lo <= RV (clamp_F v lo hi) <= RV hi
  /\ (RV lo <= RV v <= RV hi -> clamp_F v lo hi = v)
  /\ (RV v < RV lo -> clamp_F v lo hi = lo) /\ (RV hi < RV v -> clamp_F v lo hi = hi).
Proof.
  intros Fv Fl Fh H. unfold clamp_F. rewrite (ltb_R v lo Fv Fl), (ltb_R hi v Fh Fv).
  destruct (Rlt_bool_spec (RV v) (RV lo)) as [A | A]; [| destruct (Rlt_bool_spec (RV hi) (RV v)) as [B | B]].
  - repeat split; try assumption; try lra; intros; try reflexivity; lra.
  - repeat split; try assumption; try lra; intros; try reflexivity; lra.
  - repeat split; try assumption; try lra; intros; try reflexivity; lra.
Qed.
(* a NaN argument passes through a clamp unchanged (both comparisons are false) *)
Lemma clamp_F_nan lo hi : clamp_F nan lo hi = nan.
Proof.
  unfold clamp_F. rewrite !ltb_equiv. rewrite nan_equiv, Prim2B_B2Prim.
  unfold Bltb. cbn [B2SF]. unfold SFltb, SFcompare. destruct (B2SF (Prim2B lo)), (B2SF (Prim2B hi)); reflexivity.
Qed.

(* order of the real values of two doubles, so that statements can be written without opening the scope of the reals *)
Definition vle (a b : pfloat) : Prop := RV a <= RV b.
Definition vlt (a b : pfloat) : Prop := RV a < RV b.
Theorem clamp_F_range_v v lo hi :
  fin v = true -> fin lo = true -> fin hi = true -> vle lo hi ->
  fin (clamp_F v lo hi) = true
  /\ (vle lo (clamp_F v lo hi) /\ vle (clamp_F v lo hi) hi)
  /\ (vle lo v /\ vle v hi -> clamp_F v lo hi = v)
  /\ (vlt v lo -> clamp_F v lo hi = lo) /\ (vlt hi v -> clamp_F v lo hi = hi).
Proof. exact (clamp_F_range v lo hi). Qed.
