(* Orthonormality, handedness and exact components over the reals. *)
From Coq Require Import Reals Lra.
Require Import Cherab.Model.C12_Real.
Open Scope R_scope.

Section Basis.
  Variable b : rvec.
  Hypothesis Hb : rx b <> 0 \/ rz b <> 0.          (* the guard of the code: not (b.x == 0 and b.z == 0) *)
  Let a := rx b * rx b + rz b * rz b.

  Lemma a_pos : 0 < a.
  Proof. unfold a. destruct Hb as [H|H]; nra. Qed.

  Lemma pol_arg_eq : rdot (rpol_raw b) (rpol_raw b) = a.
  Proof. unfold rdot, rpol_raw, a; cbn [rx ry rz]. ring. Qed.
  Lemma nor_arg_eq : rdot (rnor_raw b) (rnor_raw b) = a.
  Proof. unfold rdot, rnor_raw, a; cbn [rx ry rz]. ring. Qed.

  Let s := sqrt a.
  Lemma s_pos : 0 < s.
  Proof. apply sqrt_lt_R0, a_pos. Qed.
  Lemma s_sq : s * s = a.
  Proof. apply sqrt_sqrt. left. apply a_pos. Qed.
  Let k := 1 / s.
  Lemma ks : k * s = 1.
  Proof. unfold k. field. apply Rgt_not_eq, s_pos. Qed.
  Lemma k_pos : 0 < k.
  Proof. unfold k. apply Rdiv_lt_0_compat; [lra | apply s_pos]. Qed.
  Lemma akk : a * (k * k) = 1.
  Proof. rewrite <- s_sq. replace (s * s * (k * k)) with ((k * s) * (k * s)) by ring. rewrite ks. ring. Qed.

  Lemma rpol_eq : rpoloidal b = rscale_r (rpol_raw b) k.
  Proof. unfold rpoloidal, rnormalise. rewrite pol_arg_eq. reflexivity. Qed.
  Lemma rnor_eq : rnormal b = rscale_r (rnor_raw b) k.
  Proof. unfold rnormal, rnormalise. rewrite nor_arg_eq. reflexivity. Qed.

  (* the three vectors are orthonormal, right-handed in the order (poloidal, toroidal, normal):
     normal = poloidal x toroidal, the poloidal vector is a positive multiple of the in-plane field and the
     field has no component along the normal *)
  Lemma real_basis_orthonormal :
    rdot (rpoloidal b) (rpoloidal b) = 1 /\ rdot (rnormal b) (rnormal b) = 1 /\ rdot rtor rtor = 1 /\
    rdot (rpoloidal b) rtor = 0 /\ rdot (rnormal b) rtor = 0 /\ rdot (rpoloidal b) (rnormal b) = 0 /\
    rnormal b = rcross (rpoloidal b) rtor /\
    (exists c, 0 < c /\ rpoloidal b = rscale_r (rpol_raw b) c) /\
    rdot b (rnormal b) = 0.
  Proof.
    rewrite rpol_eq, rnor_eq. pose proof akk as A. unfold a in A.
    unfold rdot, rcross, rscale_r, rpol_raw, rnor_raw, rtor; cbn [rx ry rz].
    repeat split; try ring.
    - replace (rx b * k * (rx b * k) + 0 * k * (0 * k) + rz b * k * (rz b * k))
        with ((rx b * rx b + rz b * rz b) * (k * k)) by ring. exact A.
    - replace (- rz b * k * (- rz b * k) + 0 * k * (0 * k) + rx b * k * (rx b * k))
        with ((rx b * rx b + rz b * rz b) * (k * k)) by ring. exact A.
    - f_equal; ring.
    - exists k. split; [apply k_pos | reflexivity].
  Qed.

  (* the mapped velocity has exactly the prescribed components *)
  Lemma real_components vt vp vn :
    let v := rflux_to_cart b vt vp vn in
    rdot v rtor = vt /\ rdot v (rpoloidal b) = vp /\ rdot v (rnormal b) = vn /\
    v = RV (vt * rx rtor + vp * rx (rpoloidal b) + vn * rx (rnormal b))
           (vt * ry rtor + vp * ry (rpoloidal b) + vn * ry (rnormal b))
           (vt * rz rtor + vp * rz (rpoloidal b) + vn * rz (rnormal b)).
  Proof.
    intros v. unfold v, rflux_to_cart, rset_length. rewrite pol_arg_eq, nor_arg_eq, rpol_eq, rnor_eq.
    fold s. replace (vp / s) with (vp * k) by (unfold k, Rdiv; ring).
    replace (vn / s) with (vn * k) by (unfold k, Rdiv; ring).
    pose proof akk as A. unfold a in A.
    unfold rdot, rscale_r, rpol_raw, rnor_raw, rtor; cbn [rx ry rz].
    split; [ring|]. split; [|split].
    - replace ((rx b * (vp * k) + - rz b * (vn * k)) * (rx b * k) + vt * (0 * k) + (rz b * (vp * k) + rx b * (vn * k)) * (rz b * k))
        with (vp * ((rx b * rx b + rz b * rz b) * (k * k))) by ring. rewrite A. ring.
    - replace ((rx b * (vp * k) + - rz b * (vn * k)) * (- rz b * k) + vt * (0 * k) + (rz b * (vp * k) + rx b * (vn * k)) * (rx b * k))
        with (vn * ((rx b * rx b + rz b * rz b) * (k * k))) by ring. rewrite A. ring.
    - f_equal; ring.
  Qed.
End Basis.

(* rotation by the toroidal angle: preserves dot products, carries the radial / toroidal unit vectors of
   the plane y = 0 to those at (rho cos phi, rho sin phi), leaves z alone *)
Lemma real_rotation phi u v :
  rdot (rrotate phi u) (rrotate phi v) = rdot u v /\
  rrotate phi (RV 1 0 0) = RV (cos phi) (sin phi) 0 /\ rrotate phi (RV 0 1 0) = RV (- sin phi) (cos phi) 0 /\
  rrotate phi (RV 0 0 1) = RV 0 0 1.
Proof.
  pose proof (sin2_cos2 phi) as H. unfold Rsqr in H.
  unfold rdot, rrotate; cbn [rx ry rz]. repeat split; try (f_equal; ring).
  replace ((cos phi * rx u + - sin phi * ry u + 0 * rz u) * (cos phi * rx v + - sin phi * ry v + 0 * rz v) +
           (sin phi * rx u + cos phi * ry u + 0 * rz u) * (sin phi * rx v + cos phi * ry v + 0 * rz v) +
           (0 * rx u + 0 * ry u + 1 * rz u) * (0 * rx v + 0 * ry v + 1 * rz v))
    with ((sin phi * sin phi + cos phi * cos phi) * (rx u * rx v + ry u * ry v) + rz u * rz v) by ring.
  rewrite H. ring.
Qed.

(* 3-D: the rotated mapped velocity has the prescribed components in the rotated basis *)
Lemma real_components_3d b phi vt vp vn :
  rx b <> 0 \/ rz b <> 0 ->
  let v := rrotate phi (rflux_to_cart b vt vp vn) in
  rdot v (rrotate phi rtor) = vt /\ rdot v (rrotate phi (rpoloidal b)) = vp /\ rdot v (rrotate phi (rnormal b)) = vn.
Proof.
  intros Hb v. unfold v. destruct (real_components b Hb vt vp vn) as (A & B & C & _).
  rewrite !(proj1 (real_rotation phi _ _)). auto.
Qed.
