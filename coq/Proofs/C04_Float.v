(* C04: the rounding used by the bit-exact replay is round53 of C16 (same function), whose relative error
   is at most 2^-53 (Proofs/C16_Round.v); and the rounded cumulative trapezoid stays within an explicit
   relative distance of the exact one, for any rounding with relative error u on non-negative numbers. *)
Require Import Cherab.Common.Qx.
From Coq Require Import Lqa Qround Lia.
Require Import Cherab.Model.C04_Beam Cherab.Model.C04_Float.
Require Cherab.Model.C16_Instruments Cherab.Proofs.C16_Round.
Open Scope Q_scope.

Lemma fl_round53_is_C16 q : fl_round53 q = Cherab.Model.C16_Instruments.round53 q.
Proof. reflexivity. Qed.

Lemma fl_round53_rel x : 0 <= x ->
  (1 - pow2 (-53)) * x <= fl_round53 x /\ fl_round53 x <= (1 + pow2 (-53)) * x.
Proof. intros H. rewrite fl_round53_is_C16. exact (Cherab.Proofs.C16_Round.round53_rel x H). Qed.

Lemma mul_le_mono_q a a' b b' : 0 <= a -> a <= a' -> 0 <= b -> b <= b' -> a * b <= a' * b'.
Proof.
  intros Ha Haa Hb Hbb.
  assert (H1 : 0 <= (a' - a) * b) by (apply Qmult_le_0_compat; lra).
  assert (H2 : 0 <= a' * (b' - b)) by (apply Qmult_le_0_compat; lra).
  setoid_replace ((a' - a) * b) with (a' * b - a * b) in H1 by ring.
  setoid_replace (a' * (b' - b)) with (a' * b' - a' * b) in H2 by ring. lra.
Qed.
Lemma Qmult_le_l_q k a b : 0 <= k -> a <= b -> k * a <= k * b.
Proof. intros Hk H. rewrite !(Qmult_comm k). apply Qmult_le_compat_r; assumption. Qed.

(* ---- rounding error of the cumulative trapezoid: after k steps the rounded exponent is within
        (1 -+ u)^(k+4) of the exact one, for non-negative S on sorted nodes ---- *)
Fixpoint pw (b : Q) (m : nat) : Q := match m with O => 1 | S m' => b * pw b m' end.

Section Error.
  Variable rn : Q -> Q.
  Variable u : Q.
  Hypothesis Hu : 0 <= u /\ u < 1.
  Hypothesis Hrn : forall x, 0 <= x -> (1 - u) * x <= rn x /\ rn x <= (1 + u) * x.

  Definition within (m : nat) (x y : Q) : Prop := pw (1 - u) m * x <= y /\ y <= pw (1 + u) m * x.

  Lemma pw_lo_range m : 0 <= pw (1 - u) m /\ pw (1 - u) m <= 1.
  Proof.
    induction m as [|m [A B]]; cbn [pw]; [lra|]. split.
    - apply Qmult_le_0_compat; lra.
    - assert (H : (1 - u) * pw (1 - u) m <= 1 * 1) by (apply mul_le_mono_q; lra). lra.
  Qed.

  Lemma pw_hi_range m : 1 <= pw (1 + u) m.
  Proof.
    induction m as [|m IH]; cbn [pw]; [lra|].
    assert (H : 1 * 1 <= (1 + u) * pw (1 + u) m) by (apply mul_le_mono_q; lra). lra.
  Qed.

  Lemma pw_plus b a c : pw b (a + c) == pw b a * pw b c.
  Proof. induction a as [|a IH]; cbn [pw plus]; [ring | rewrite IH; ring]. Qed.

  Lemma within_nonneg m x y : 0 <= x -> within m x y -> 0 <= y.
  Proof.
    intros Hx [A _]. pose proof (pw_lo_range m) as [L _].
    assert (0 <= pw (1 - u) m * x) by (apply Qmult_le_0_compat; assumption). lra.
  Qed.

  Lemma within_exact x : within 0 x x.
  Proof. unfold within; cbn [pw]. lra. Qed.

  Lemma within_rn m x y : 0 <= x -> within m x y -> within (S m) x (rn y).
  Proof.
    intros Hx Hw. pose proof (within_nonneg m x y Hx Hw) as Hy. destruct Hw as [A B]. destruct (Hrn y Hy) as [C D].
    unfold within; cbn [pw]. split.
    - assert (H : (1 - u) * (pw (1 - u) m * x) <= (1 - u) * y) by (apply Qmult_le_l_q; lra).
      setoid_replace ((1 - u) * pw (1 - u) m * x) with ((1 - u) * (pw (1 - u) m * x)) by ring. lra.
    - assert (H : (1 + u) * y <= (1 + u) * (pw (1 + u) m * x)) by (apply Qmult_le_l_q; lra).
      setoid_replace ((1 + u) * pw (1 + u) m * x) with ((1 + u) * (pw (1 + u) m * x)) by ring. lra.
  Qed.

  Lemma within_mul a b x x' y y' : 0 <= x -> 0 <= x' -> within a x y -> within b x' y' -> within (a + b) (x * x') (y * y').
  Proof.
    intros Hx Hx' Hw Hw'. pose proof (within_nonneg a x y Hx Hw) as Hy. pose proof (within_nonneg b x' y' Hx' Hw') as Hy'.
    destruct Hw as [A B]. destruct Hw' as [A' B']. unfold within. rewrite !pw_plus.
    pose proof (pw_lo_range a) as [La _]. pose proof (pw_lo_range b) as [Lb _].
    split.
    - setoid_replace (pw (1 - u) a * pw (1 - u) b * (x * x')) with ((pw (1 - u) a * x) * (pw (1 - u) b * x')) by ring.
      apply mul_le_mono_q; try assumption; apply Qmult_le_0_compat; assumption.
    - setoid_replace (pw (1 + u) a * pw (1 + u) b * (x * x')) with ((pw (1 + u) a * x) * (pw (1 + u) b * x')) by ring.
      apply mul_le_mono_q; assumption.
  Qed.

  Lemma within_add m x x' y y' : within m x y -> within m x' y' -> within m (x + x') (y + y').
  Proof.
    intros [A B] [A' B']. unfold within. split.
    - setoid_replace (pw (1 - u) m * (x + x')) with (pw (1 - u) m * x + pw (1 - u) m * x') by ring. lra.
    - setoid_replace (pw (1 + u) m * (x + x')) with (pw (1 + u) m * x + pw (1 + u) m * x') by ring. lra.
  Qed.

  Lemma within_half m x y : within m x y -> within m (x / 2) (y / 2).
  Proof.
    intros [A B]. unfold within. split.
    - setoid_replace (pw (1 - u) m * (x / 2)) with ((pw (1 - u) m * x) / 2) by field. unfold Qdiv. apply Qmult_le_compat_r; [lra | apply Qlt_le_weak, Qinv_lt_0_compat; lra].
    - setoid_replace (pw (1 + u) m * (x / 2)) with ((pw (1 + u) m * x) / 2) by field. unfold Qdiv. apply Qmult_le_compat_r; [lra | apply Qlt_le_weak, Qinv_lt_0_compat; lra].
  Qed.

  Lemma within_weaken m k x y : 0 <= x -> within m x y -> within (k + m) x y.
  Proof.
    intros Hx [A B]. unfold within. rewrite !pw_plus.
    pose proof (pw_lo_range k) as [K0 K1]. pose proof (pw_hi_range k) as K2.
    pose proof (pw_lo_range m) as [M0 _]. pose proof (pw_hi_range m) as M2.
    assert (P0 : 0 <= pw (1 - u) m * x) by (apply Qmult_le_0_compat; assumption).
    assert (P1 : 0 <= pw (1 + u) m * x) by (apply Qmult_le_0_compat; lra).
    split.
    - setoid_replace (pw (1 - u) k * pw (1 - u) m * x) with (pw (1 - u) k * (pw (1 - u) m * x)) by ring.
      assert (H : pw (1 - u) k * (pw (1 - u) m * x) <= 1 * (pw (1 - u) m * x)) by (apply Qmult_le_compat_r; assumption). lra.
    - setoid_replace (pw (1 + u) k * pw (1 + u) m * x) with (pw (1 + u) k * (pw (1 + u) m * x)) by ring.
      assert (H : 1 * (pw (1 + u) m * x) <= pw (1 + u) k * (pw (1 + u) m * x)) by (apply Qmult_le_compat_r; assumption). lra.
  Qed.

  Lemma within_proper m x x' y : x == x' -> within m x y -> within m x' y.
  Proof. intros E [A B]. unfold within. rewrite <- E. split; assumption. Qed.

  (* one trapezoid: four roundings *)
  Lemma area_within z0 z1 s0 s1 : z0 <= z1 -> 0 <= s0 -> 0 <= s1 ->
    within 4 ((z1 - z0) * (s0 + s1) / 2) (rn (rn (rn (z1 - z0) * rn (s0 + s1)) / 2)).
  Proof.
    intros Hz H0 H1.
    assert (Hd : within 1 (z1 - z0) (rn (z1 - z0))) by (apply within_rn; [lra | apply within_exact]).
    assert (Hs : within 1 (s0 + s1) (rn (s0 + s1))) by (apply within_rn; [lra | apply within_exact]).
    assert (Hp : within 2 ((z1 - z0) * (s0 + s1)) (rn (z1 - z0) * rn (s0 + s1))) by (apply (within_mul 1 1); try lra; assumption).
    assert (Hpos : 0 <= (z1 - z0) * (s0 + s1)) by (apply Qmult_le_0_compat; lra).
    apply (within_rn 3); [unfold Qdiv; apply Qmult_le_0_compat; [exact Hpos | apply Qlt_le_weak, Qinv_lt_0_compat; lra]|].
    apply within_half. apply (within_rn 2); assumption.
  Qed.

  Lemma fl_cumtrapz_from_within l : forall acc accf z0 s0 m,
    0 <= acc -> within (4 + m) acc accf -> 0 <= s0 ->
    chain Qle z0 (map fst l) -> Forall (fun zs => 0 <= snd zs) l ->
    Forall2 (within (4 + m + length l)) (cumtrapz_from acc z0 s0 l) (fl_cumtrapz_from rn accf z0 s0 l).
  Proof.
    induction l as [|[z1 s1] l IH]; intros acc accf z0 s0 m Ha Hw H0 Hz Hs; cbn [cumtrapz_from fl_cumtrapz_from]; [constructor|].
    cbn [map fst chain] in Hz. destruct Hz as [Hz1 Hz]. inversion Hs as [|? ? Hs1 Hs']; subst. cbn [snd] in Hs1.
    pose proof (area_within z0 z1 s0 s1 Hz1 H0 Hs1) as Ha4.
    assert (Hapos : 0 <= (z1 - z0) * (s0 + s1) / 2) by (unfold Qdiv; apply Qmult_le_0_compat; [apply Qmult_le_0_compat; lra | apply Qlt_le_weak, Qinv_lt_0_compat; lra]).
    assert (Hsum : within (4 + m) (acc + (z1 - z0) * (s0 + s1) / 2) (accf + rn (rn (rn (z1 - z0) * rn (s0 + s1)) / 2))).
    { apply within_add; [exact Hw|]. replace (4 + m)%nat with (m + 4)%nat by lia. apply within_weaken; assumption. }
    assert (Hnew : within (4 + S m) (Qred (acc + (z1 - z0) * (s0 + s1) / 2)) (rn (accf + rn (rn (rn (z1 - z0) * rn (s0 + s1)) / 2)))).
    { apply (within_proper _ (acc + (z1 - z0) * (s0 + s1) / 2)); [symmetry; apply Qred_correct|].
      replace (4 + S m)%nat with (S (4 + m)) by lia. apply within_rn; [lra | exact Hsum]. }
    assert (Hnewpos : 0 <= Qred (acc + (z1 - z0) * (s0 + s1) / 2)) by (rewrite Qred_correct; lra).
    cbn [length]. constructor.
    - replace (4 + m + S (length l))%nat with (length l + (4 + S m))%nat by lia. apply within_weaken; assumption.
    - replace (4 + m + S (length l))%nat with (4 + S m + length l)%nat by lia. apply IH; assumption.
  Qed.

  Lemma fl_cumtrapz_within z0 s0 l :
    0 <= s0 -> chain Qle z0 (map fst l) -> Forall (fun zs => 0 <= snd zs) l ->
    Forall2 (within (4 + length l)) (cumtrapz ((z0, s0) :: l)) (fl_cumtrapz rn ((z0, s0) :: l)).
  Proof.
    intros H0 Hz Hs. cbn [cumtrapz fl_cumtrapz]. constructor.
    - unfold within. split; ring_simplify; lra.
    - apply (fl_cumtrapz_from_within l 0 0 z0 s0 0); try assumption; [lra|]. unfold within. split; ring_simplify; lra.
  Qed.
End Error.

Lemma u53_ok : 0 <= pow2 (-53) /\ pow2 (-53) < 1.
Proof. split; vm_compute; congruence. Qed.

(* the replayed (double precision) attenuation exponents are within (1 -+ 2^-53)^(n+3) of the exact trapezoid sums *)
Lemma main_float z0 s0 l :
  0 <= s0 -> chain Qle z0 (map fst l) -> Forall (fun zs => 0 <= snd zs) l ->
  Forall2 (fun T Tf => pw (1 - pow2 (-53)) (4 + length l) * T <= Tf /\ Tf <= pw (1 + pow2 (-53)) (4 + length l) * T)
          (cumtrapz ((z0, s0) :: l)) (fl_cumtrapz fl_round53 ((z0, s0) :: l)).
Proof. intros. apply (fl_cumtrapz_within fl_round53 (pow2 (-53)) u53_ok fl_round53_rel); assumption. Qed.
