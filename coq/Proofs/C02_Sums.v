(* C02, deepening: statements about the ACTUAL samples (sums over the spectrum after add_line), ordering of the
   visited range, whole-radiance corollaries with the analytic gap reduced to one number, order independence. *)
Require Import Cherab.Common.Qx.
Require Import Cherab.Model.C02_LineShape.
Require Import Cherab.Proofs.C02_Gauss Cherab.Proofs.C02_Norm Cherab.Proofs.C02_Weights.
From Coq Require Import Qround Qabs Lqa Permutation.
Open Scope Q_scope.

Lemma Qsum_pointwise (f : Z -> Q) : forall (l l' : list Q) (k : Z),
  length l = length l' ->
  (forall i, (i < length l)%nat -> nth i l' 0 == nth i l 0 + f (k + Z.of_nat i)%Z) ->
  Qsum l' == Qsum l + Qsum (map f (zrange k (length l))).
Proof.
  induction l as [|x t IH]; intros l' k Hlen H.
  - destruct l'; [cbn; ring | discriminate].
  - destruct l' as [|y t']; [discriminate|]. cbn [length zrange map Qsum].
    pose proof (H 0%nat ltac:(cbn; lia)) as H0. cbn [nth] in H0.
    replace (k + Z.of_nat 0)%Z with k in H0 by lia.
    rewrite (IH t' (k + 1)%Z).
    + rewrite H0. ring.
    + cbn in Hlen. lia.
    + intros i Hi. pose proof (H (S i) ltac:(cbn; lia)) as Hs. cbn [nth] in Hs.
      replace (k + Z.of_nat (S i))%Z with (k + 1 + Z.of_nat i)%Z in Hs by lia. exact Hs.
Qed.

Section Sums.
  Variable E : Q -> Q.
  Variable sqrt2 : Q.
  Variable I : Q -> Q -> Q -> Q -> Q.

  Lemma add_comps_length g cs : forall smp, length (add_comps E sqrt2 I g cs smp) = length smp.
  Proof.
    unfold add_comps. induction cs as [|c cs IH]; intros smp; cbn [fold_left]; [reflexivity|].
    rewrite IH. destruct c; cbn [add_comp]; [apply add_gaussian_length | apply add_lorentzian_length].
  Qed.

  (* THE SPECTRUM'S OWN INTEGRAL: sum of the samples times delta after add_line = the same before + the integral of
     what the components add -- about the list the code returns, not about the per-bin specification *)
  Theorem samples_integral g cs smp : length smp = Z.to_nat (gbins g) ->
    Qsum (add_comps E sqrt2 I g cs smp) * gdelta g == Qsum smp * gdelta g + integral (csbin E sqrt2 I g cs) g.
  Proof.
    intros Hlen.
    rewrite (Qsum_pointwise (csbin E sqrt2 I g cs) smp (add_comps E sqrt2 I g cs smp) 0%Z).
    - unfold integral. rewrite Hlen, Qsum_map_scale. ring.
    - now rewrite add_comps_length.
    - intros i _. replace (0 + Z.of_nat i)%Z with (Z.of_nat i) by lia. now apply add_comps_nth.
  Qed.

  (* one Gaussian line into a spectrum: the spectrum's integral grows by exactly R (Phi(edge_end) - Phi(edge_start)) *)
  Theorem gaussian_samples_integral R lam sig g smp : grid_ok g -> length smp = Z.to_nat (gbins g) ->
    g_active g lam sig = true ->
    Qsum (add_gaussian E sqrt2 R lam sig g smp) * gdelta g ==
    Qsum smp * gdelta g +
    R * (1 # 2) * (E (erfarg g lam (g_temp sqrt2 sig) (g_end g lam sig)) - E (erfarg g lam (g_temp sqrt2 sig) (g_start g lam sig))).
  Proof.
    intros Hg Hlen Ha.
    pose proof (samples_integral g [GaussC R lam sig] smp Hlen) as H.
    unfold add_comps in H. cbn [fold_left add_comp] in H. rewrite H.
    rewrite integral_comps. cbn [map Qsum].
    change (integral (cbin E sqrt2 I g (GaussC R lam sig)) g) with (integral (gbin E sqrt2 R lam sig g) g).
    rewrite gauss_integral by assumption. ring.
  Qed.

  (* pi + sigma = unpolarised for the samples themselves: whenever the component lists satisfy it bin by bin *)
  Theorem samples_pi_plus_sigma g cs0 cs1 cs2 smp i : length smp = Z.to_nat (gbins g) ->
    (forall j, csbin E sqrt2 I g cs0 j == csbin E sqrt2 I g cs1 j + csbin E sqrt2 I g cs2 j) ->
    nth i (add_comps E sqrt2 I g cs0 smp) 0 - nth i smp 0 ==
    (nth i (add_comps E sqrt2 I g cs1 smp) 0 - nth i smp 0) + (nth i (add_comps E sqrt2 I g cs2 smp) 0 - nth i smp 0).
  Proof.
    intros Hlen H. rewrite !add_comps_nth by assumption. rewrite (H (Z.of_nat i)). ring.
  Qed.

  (* ORDER AND MULTIPLICITY: the order in which a model hands its components over does not matter *)
  Theorem csbin_permutation g cs cs' i : Permutation cs cs' -> csbin E sqrt2 I g cs i == csbin E sqrt2 I g cs' i.
  Proof.
    unfold csbin. induction 1 as [|x l l' _ IH|x y l|l l' l'' _ IH1 _ IH2]; cbn [map Qsum].
    - reflexivity.
    - rewrite IH. reflexivity.
    - ring.
    - rewrite IH1. exact IH2.
  Qed.

  Theorem samples_permutation g cs cs' smp i : length smp = Z.to_nat (gbins g) -> Permutation cs cs' ->
    nth i (add_comps E sqrt2 I g cs smp) 0 == nth i (add_comps E sqrt2 I g cs' smp) 0.
  Proof. intros Hlen HP. rewrite !add_comps_nth by assumption. now rewrite (csbin_permutation g cs cs'). Qed.

  (* a component given as two halves *)
  Theorem csbin_split g R lam sig cs i :
    csbin E sqrt2 I g (GaussC R lam sig :: cs) i == csbin E sqrt2 I g (GaussC ((1 # 2) * R) lam sig :: GaussC ((1 # 2) * R) lam sig :: cs) i.
  Proof. unfold csbin. cbn [map Qsum cbin]. rewrite (gbin_scale E sqrt2 (1 # 2) R). ring. Qed.

  (* ---- ORDERING of the visited range (was an implicit side condition) ---- *)
  Theorem gauss_range_ordered g lam sig : grid_ok g -> g_active g lam sig = true ->
    (0 <= g_start g lam sig <= g_end g lam sig)%Z /\ (g_end g lam sig <= gbins g)%Z.
  Proof.
    intros Hg Ha. apply g_active_iff in Ha as (Hs & Hl & Hu).
    assert (Hlu : g_cl lam sig <= g_cu lam sig) by (unfold g_cl, g_cu, cutoff_sigma; nra).
    exact (range_order g _ _ Hg Hlu Hl Hu).
  Qed.

  Theorem lorentz_range_ordered g lam w : grid_ok g -> 0 < w -> l_cl lam w <= gmax g -> gmin g <= l_cu lam w ->
    (0 <= l_start g lam w <= l_end g lam w)%Z /\ (l_end g lam w <= gbins g)%Z.
  Proof.
    intros Hg Hw Hl Hu.
    assert (Hlu : l_cl lam w <= l_cu lam w) by (unfold l_cl, l_cu, lorentz_cutoff; nra).
    exact (range_order g _ _ Hg Hlu Hl Hu).
  Qed.

  (* the last visited edge is at or beyond the upper cut-off, the first at or before the lower one (window spanning) *)
  Lemma edge_end_ge g cu : grid_ok g -> cu <= gmax g ->
    cu <= edge g (Z.min (gbins g) (Qceiling ((cu - gmin g) / gdelta g))).
  Proof.
    intros Hg Hu. pose proof Hg as (Hd & Hb & Hc).
    destruct (Z.min_spec (gbins g) (Qceiling ((cu - gmin g) / gdelta g))) as [[_ ->]|[_ ->]].
    - rewrite (edge_bins g Hg). exact Hu.
    - unfold edge.
      assert (Hq : cu - gmin g <= gdelta g * inject_Z (Qceiling ((cu - gmin g) / gdelta g)))
        by (apply div_le_to_mul; [assumption | apply Qle_ceiling]).
      lra.
  Qed.

  Lemma edge_start_le g cl : grid_ok g -> gmin g <= cl ->
    edge g (Z.max 0 (Qfloor ((cl - gmin g) / gdelta g))) <= cl.
  Proof.
    intros Hg Hl. pose proof Hg as (Hd & Hb & Hc).
    destruct (Z.max_spec 0 (Qfloor ((cl - gmin g) / gdelta g))) as [[_ ->]|[_ ->]].
    - unfold edge.
      assert (Hq : gdelta g * inject_Z (Qfloor ((cl - gmin g) / gdelta g)) <= cl - gmin g)
        by (apply le_div_to_mul; [assumption | apply Qfloor_le]).
      lra.
    - rewrite edge_0. exact Hl.
  Qed.

  (* WHOLE RADIANCE, Gaussian: the analytic gap is now ONE NUMBER: eps >= 1 - E(10/sqrt2) for an odd E *)
  Theorem gauss_whole_radiance R lam sig g eps : grid_ok g -> monotone E -> (forall x, E (- x) == - E x) ->
    (forall x, -1 <= E x <= 1) -> 0 < sqrt2 -> 0 <= R -> 0 < sig ->
    1 - eps <= E (cutoff_sigma / sqrt2) ->
    gmin g <= g_cl lam sig -> g_cu lam sig <= gmax g ->
    R * (1 - eps) <= integral (gbin E sqrt2 R lam sig g) g <= R.
  Proof.
    intros Hg Hm Ho Hb H2 HR Hs He Hl Hu. split.
    - apply Qle_trans with (R * (1 # 2) * (E (cutoff_sigma / sqrt2) - E (- (cutoff_sigma / sqrt2)))).
      + rewrite Ho. nra.
      + now apply gauss_total_partial.
    - destruct (gauss_bounds E sqrt2 R lam sig g Hg Hm H2 HR) as [_ H]. apply H. exact Hb.
  Qed.

  (* WHOLE RADIANCE, Stark part: additive integrator normalised on +-50 FWHM: the integral is R plus the two pieces of
     the straddling bins that lie beyond the cut-off; at least R when the integrand is non-negative.
     Remaining gap: I lam w (lam - 50 w) (lam + 50 w) == 1 (the hypergeometric constant) and additivity of the code's rule *)
  Theorem stark_whole_radiance R lam w g : grid_ok g -> additive (I lam w) ->
    I lam w (l_cl lam w) (l_cu lam w) == 1 ->
    0 < w -> gmin g <= l_cl lam w -> l_cu lam w <= gmax g ->
    integral (lbin I R lam w g) g ==
      R * (1 + I lam w (edge g (l_start g lam w)) (l_cl lam w) + I lam w (l_cu lam w) (edge g (l_end g lam w))) /\
    ((forall a b, a <= b -> 0 <= I lam w a b) -> 0 <= R -> R <= integral (lbin I R lam w g) g).
  Proof.
    intros Hg HJ Hn Hw Hl Hu. pose proof Hg as (Hd & Hb & Hc).
    assert (Hlu : l_cl lam w <= l_cu lam w) by (unfold l_cl, l_cu, lorentz_cutoff; nra).
    assert (Hmm : gmin g <= gmax g) by lra.
    assert (Ei : integral (lbin I R lam w g) g ==
                 R * (1 + I lam w (edge g (l_start g lam w)) (l_cl lam w) + I lam w (l_cu lam w) (edge g (l_end g lam w)))).
    { rewrite lorentz_integral; [| assumption | assumption | assumption | lra | lra].
      rewrite (HJ (edge g (l_start g lam w)) (l_cl lam w) (edge g (l_end g lam w))).
      rewrite (HJ (l_cl lam w) (l_cu lam w) (edge g (l_end g lam w))). rewrite Hn. ring. }
    split; [exact Ei|]. intros Hpos HR. rewrite Ei.
    pose proof (Hpos _ _ (edge_start_le g (l_cl lam w) Hg Hl)) as P1. fold (l_start g lam w) in P1.
    pose proof (Hpos _ _ (edge_end_ge g (l_cu lam w) Hg Hu)) as P2. fold (l_end g lam w) in P2.
    nra.
  Qed.
End Sums.
