(* Q -> R bridge: the real mirror Model/C12_Real.v applied to the embedding of the MODEL's own rational
   field vector.  The rational parts of the model (b_field, pol_raw, nor_raw, dot, the rotation) commute with
   Q2R; the model's normalised vectors, computed with whatever value s its sqrt function returns, are the real
   unit vectors scaled by sqrt(a) / s. *)
From Coq Require Import QArith Reals Qreals Lra.
Require Import Cherab.Common.Qx.
Require Import Cherab.Model.C12_Equilibrium Cherab.Model.C12_Real.
Require Import Cherab.Proofs.C12_Equilibrium Cherab.Proofs.C12_Real.

Definition v2r (v : vec) : rvec := RV (Q2R (vx v)) (Q2R (vy v)) (Q2R (vz v)).

Lemma Q2R_0 : Q2R 0 = 0%R.
Proof. unfold Q2R; simpl; lra. Qed.
Lemma Q2R_1 : Q2R 1 = 1%R.
Proof. unfold Q2R; simpl; lra. Qed.

Lemma v2r_dot a c : Q2R (dot a c) = rdot (v2r a) (v2r c).
Proof. unfold dot, rdot, v2r; cbn [rx ry rz]. rewrite !Q2R_plus, !Q2R_mult. reflexivity. Qed.

Lemma v2r_pol_raw b : v2r (pol_raw b) = rpol_raw (v2r b).
Proof. unfold v2r, pol_raw, rpol_raw; cbn [vx vy vz rx ry rz]. rewrite Q2R_0. reflexivity. Qed.

Lemma v2r_nor_raw b : v2r (nor_raw b) = rnor_raw (v2r b).
Proof. unfold v2r, nor_raw, rnor_raw; cbn [vx vy vz rx ry rz]. rewrite Q2R_0, Q2R_opp. reflexivity. Qed.

Lemma v2r_scale a k : v2r (vscale_r a k) = rscale_r (v2r a) (Q2R k).
Proof. unfold v2r, vscale_r, rscale_r; cbn [vx vy vz rx ry rz]. rewrite !Q2R_mult. reflexivity. Qed.

Lemma v2r_rotate c s v phi : Q2R c = cos phi -> Q2R s = sin phi -> v2r (rotate_z_apply c s v) = rrotate phi (v2r v).
Proof.
  intros Hc Hs. unfold v2r, rotate_z_apply, rrotate; cbn [vx vy vz rx ry rz].
  rewrite !Q2R_plus, !Q2R_mult, Q2R_opp, Q2R_0, Q2R_1, Hc, Hs. reflexivity.
Qed.

(* the guard of the code on the rational vector is the guard of the real mirror *)
Lemma inplane_nonzero_real b : inplane_zero b = false -> (rx (v2r b) <> 0 \/ rz (v2r b) <> 0)%R.
Proof.
  unfold inplane_zero, v2r; cbn [rx rz]. intros H.
  destruct (Qeq_bool (vx b) 0) eqn:X.
  - destruct (Qeq_bool (vz b) 0) eqn:Z; [discriminate|]. right. intros C. apply Qeq_bool_neq in Z. apply Z.
    apply eqR_Qeq. rewrite C, Q2R_0. reflexivity.
  - left. intros C. apply Qeq_bool_neq in X. apply X. apply eqR_Qeq. rewrite C, Q2R_0. reflexivity.
Qed.

Lemma pol_arg_real b : Q2R (pol_arg b) = rdot (rpol_raw (v2r b)) (rpol_raw (v2r b)).
Proof. unfold pol_arg. rewrite v2r_dot, v2r_pol_raw. reflexivity. Qed.
Lemma nor_arg_real b : Q2R (nor_arg b) = rdot (rnor_raw (v2r b)) (rnor_raw (v2r b)).
Proof. unfold nor_arg. rewrite v2r_dot, v2r_nor_raw. reflexivity. Qed.

Lemma scale_twice a k m : rscale_r (rscale_r a k) m = rscale_r a (k * m).
Proof. unfold rscale_r; cbn [rx ry rz]. f_equal; ring. Qed.

Section Point.
  Variable E : env.
  Variables r z : Q.
  Let b := b_field E r z.
  Let rb := v2r b.
  Hypothesis Hb : inplane_zero b = false.
  Let sp := e_sqrt E (pol_arg b).
  Let sn := e_sqrt E (nor_arg b).

  Lemma real_arg_pos_pol : (0 < rdot (rpol_raw rb) (rpol_raw rb))%R.
  Proof.
    pose proof (inplane_nonzero_real b Hb) as H. fold rb in H.
    unfold rdot, rpol_raw; cbn [rx ry rz]. destruct H as [H|H]; nra.
  Qed.
  Lemma real_arg_pos_nor : (0 < rdot (rnor_raw rb) (rnor_raw rb))%R.
  Proof.
    pose proof (inplane_nonzero_real b Hb) as H. fold rb in H.
    unfold rdot, rnor_raw; cbn [rx ry rz]. destruct H as [H|H]; nra.
  Qed.

  (* the model's poloidal / normal vector = the real unit vector times sqrt(a) / s, s the value the model's
     sqrt function returned (any non-zero rational) *)
  Lemma model_basis_is_scaled_real_basis :
    ~ sp == 0 -> ~ sn == 0 ->
    exists p n, poloidal_vector E r z = Some p /\ surface_normal E r z = Some n /\
      v2r p = rscale_r (rpoloidal rb) (sqrt (Q2R (pol_arg b)) / Q2R sp) /\
      v2r n = rscale_r (rnormal rb) (sqrt (Q2R (nor_arg b)) / Q2R sn).
  Proof.
    intros Zp Zn. destruct (basis_defined E r z Hb) as [P N]. fold b sp sn in P, N.
    eexists. eexists. split; [exact P|]. split; [exact N|].
    assert (Rp : Q2R sp <> 0%R) by (intros C; apply Zp; apply eqR_Qeq; rewrite C, Q2R_0; reflexivity).
    assert (Rn : Q2R sn <> 0%R) by (intros C; apply Zn; apply eqR_Qeq; rewrite C, Q2R_0; reflexivity).
    split.
    - rewrite v2r_scale, v2r_pol_raw. fold rb. unfold rpoloidal, rnormalise. rewrite scale_twice.
      rewrite pol_arg_real. fold rb. set (a := rdot (rpol_raw rb) (rpol_raw rb)).
      assert (Sa : sqrt a <> 0%R) by (apply Rgt_not_eq, sqrt_lt_R0, real_arg_pos_pol).
      f_equal. unfold Qdiv. rewrite Q2R_mult, Q2R_inv by exact Zp. rewrite Q2R_1. field. split; assumption.
    - rewrite v2r_scale, v2r_nor_raw. fold rb. unfold rnormal, rnormalise. rewrite scale_twice.
      rewrite nor_arg_real. fold rb. set (a := rdot (rnor_raw rb) (rnor_raw rb)).
      assert (Sa : sqrt a <> 0%R) by (apply Rgt_not_eq, sqrt_lt_R0, real_arg_pos_nor).
      f_equal. unfold Qdiv. rewrite Q2R_mult, Q2R_inv by exact Zn. rewrite Q2R_1. field. split; assumption.
  Qed.

  (* the mapped velocity of the model = the real mapped velocity for the speeds vp sqrt(a)/sp, vn sqrt(a)/sn *)
  Lemma model_velocity_is_real_velocity vt vp vn :
    ~ sp == 0 -> ~ sn == 0 ->
    exists v, flux_to_cart E vt vp vn r z = Some v /\
      v2r v = rflux_to_cart rb (Q2R (vt (psi_n E r z)))
                (Q2R (vp (psi_n E r z)) * (sqrt (Q2R (pol_arg b)) / Q2R sp))
                (Q2R (vn (psi_n E r z)) * (sqrt (Q2R (nor_arg b)) / Q2R sn)).
  Proof.
    intros Zp Zn. eexists. split; [apply (flux_to_cart_defined E vt vp vn r z Hb)|].
    fold b sp sn.
    assert (Rp : Q2R sp <> 0%R) by (intros C; apply Zp; apply eqR_Qeq; rewrite C, Q2R_0; reflexivity).
    assert (Rn : Q2R sn <> 0%R) by (intros C; apply Zn; apply eqR_Qeq; rewrite C, Q2R_0; reflexivity).
    unfold rflux_to_cart, rset_length, rb.
    rewrite <- !(pol_arg_real b), <- !(nor_arg_real b).
    assert (Sp : sqrt (Q2R (pol_arg b)) <> 0%R).
    { rewrite pol_arg_real. fold rb. apply Rgt_not_eq, sqrt_lt_R0, real_arg_pos_pol. }
    assert (Sn : sqrt (Q2R (nor_arg b)) <> 0%R).
    { rewrite nor_arg_real. fold rb. apply Rgt_not_eq, sqrt_lt_R0, real_arg_pos_nor. }
    unfold v2r at 1. cbn [vx vy vz].
    unfold vscale_r, rscale_r, pol_raw, nor_raw, rpol_raw, rnor_raw, v2r; cbn [vx vy vz rx ry rz].
    rewrite !Q2R_plus, !Q2R_mult, Q2R_opp. unfold Qdiv. rewrite !Q2R_mult.
    rewrite !(Q2R_inv sp Zp), !(Q2R_inv sn Zn).
    f_equal; field; repeat split; assumption.
  Qed.
End Point.

(* hence: in the REAL orthonormal basis of the model's own rational field vector, the model's mapped velocity
   has the components vt, vp sqrt(a)/sp, vn sqrt(a)/sn -- exactly vt, vp, vn when the model's sqrt values are
   the real roots -- and the model's own basis vectors are the real unit vectors up to the same two factors *)
Lemma model_velocity_real_components E r z vt vp vn :
  let b := b_field E r z in let rb := v2r b in
  let sp := e_sqrt E (pol_arg b) in let sn := e_sqrt E (nor_arg b) in
  inplane_zero b = false -> ~ sp == 0 -> ~ sn == 0 ->
  exists v, flux_to_cart E vt vp vn r z = Some v /\
    rdot (v2r v) rtor = Q2R (vt (psi_n E r z)) /\
    rdot (v2r v) (rpoloidal rb) = (Q2R (vp (psi_n E r z)) * (sqrt (Q2R (pol_arg b)) / Q2R sp))%R /\
    rdot (v2r v) (rnormal rb) = (Q2R (vn (psi_n E r z)) * (sqrt (Q2R (nor_arg b)) / Q2R sn))%R /\
    (Q2R sp = sqrt (Q2R (pol_arg b)) -> Q2R sn = sqrt (Q2R (nor_arg b)) ->
     rdot (v2r v) (rpoloidal rb) = Q2R (vp (psi_n E r z)) /\ rdot (v2r v) (rnormal rb) = Q2R (vn (psi_n E r z))).
Proof.
  intros b rb sp sn Hb Zp Zn.
  destruct (model_velocity_is_real_velocity E r z Hb vt vp vn Zp Zn) as (v & Hv & Hr).
  exists v. split; [exact Hv|]. fold b rb sp sn in Hr. rewrite Hr.
  destruct (real_components rb (inplane_nonzero_real b Hb) (Q2R (vt (psi_n E r z)))
              (Q2R (vp (psi_n E r z)) * (sqrt (Q2R (pol_arg b)) / Q2R sp))
              (Q2R (vn (psi_n E r z)) * (sqrt (Q2R (nor_arg b)) / Q2R sn))) as (A & B & C & _).
  split; [exact A|]. split; [exact B|]. split; [exact C|].
  intros Ep En. rewrite B, C, <- Ep, <- En.
  assert (Rp : Q2R sp <> 0%R) by (intros X; apply Zp; apply eqR_Qeq; rewrite X, Q2R_0; reflexivity).
  assert (Rn : Q2R sn <> 0%R) by (intros X; apply Zn; apply eqR_Qeq; rewrite X, Q2R_0; reflexivity).
  split; field; assumption.
Qed.
