(* An accepted 2xN array profile passes through its knots, also after mapping. *)
Require Import Cherab.Common.Qx.
Require Import Cherab.Model.C07_Rates Cherab.Model.C07_Cubic Cherab.Proofs.C07_Cubic.
Require Import Cherab.Model.C12_Equilibrium Cherab.Model.C12_Profile Cherab.Model.C12_Cubic.
Require Import Cherab.Proofs.C12_Equilibrium Cherab.Proofs.C12_Policy.
From Coq Require Import Lqa.
Open Scope Q_scope.

Lemma increasing_increasingq xs : increasing xs = true -> increasingq (length xs) (fun i => nth i xs 0).
Proof.
  intros H i j [Hij Hj]. pose proof (increasing_spec xs H) as A.
  induction j as [|j IH]; [lia|].
  destruct (Nat.eq_dec i j) as [->|Hne].
  - apply A. exact Hj.
  - apply Qlt_trans with (nth j xs 0); [apply IH; lia | apply A; exact Hj].
Qed.

Lemma array_profile_through_knots a xs ys i :
  convert a = AcceptArray xs ys -> (i < length xs)%nat -> array_profile xs ys (nth i xs 0) == nth i ys 0.
Proof.
  intros Hc Hi. destruct (accepted_array_is_valid a xs ys Hc) as (rest & _ & Hn & Hinc).
  unfold array_profile, cubic1_list.
  apply (cubic1_knot (length xs) (fun i => nth i xs 0) (fun i => nth i ys 0) i Hn (increasing_increasingq xs Hinc) Hi).
Qed.

(* properness of the interpolator in its argument *)
Lemma count_le_proper m k x x' : x == x' -> count_le m k x = count_le m k x'.
Proof.
  intros H. induction m as [|m IH]; [reflexivity|]. cbn [count_le].
  rewrite (Qle_bool_proper (k (S m)) (k (S m)) x x' (Qeq_refl _) H), IH. reflexivity.
Qed.

Lemma cubic1_proper n k v x x' : x == x' -> cubic1 n k v x == cubic1 n k v x'.
Proof.
  intros H. unfold cubic1, find_index.
  rewrite (Qeq_bool_proper x x' (k (n - 1)%nat) (k (n - 1)%nat) H (Qeq_refl _)), (count_le_proper (n - 1) k x x' H).
  destruct (Qeq_bool x' (k (n - 1)%nat)); unfold cubic_cell; apply cubic_poly_proper; try reflexivity; rewrite H; reflexivity.
Qed.

(* mapped: at a point inside the LCFS whose psi_n is a knot the mapped function returns the knot's value,
   outside the outside value; array as given (first row knots) *)
Lemma map2d_array_at_knot E a xs ys outside r z i :
  convert a = AcceptArray xs ys -> (i < length xs)%nat -> psi_n E r z == nth i xs 0 ->
  (inside_b E r z = true -> map2d E (array_profile xs ys) outside r z == nth i ys 0) /\
  (inside_b E r z = false -> map2d E (array_profile xs ys) outside r z = outside).
Proof.
  intros Hc Hi Hp. split; intros Hin.
  - rewrite (proj1 (map2d_spec E _ outside r z) Hin). unfold array_profile, cubic1_list.
    rewrite (cubic1_proper _ _ _ _ _ Hp). apply (array_profile_through_knots a xs ys i Hc Hi).
  - apply (proj2 (map2d_spec E _ outside r z) Hin).
Qed.

(* raysect's 1-D cubic is affine in the data: scaling and shifting the values scales and shifts the
   interpolant (its weights depend on the knots only and sum to one); constants are reproduced *)
Lemma d_mid_affine k v a c i : d_mid k (fun j => a * v j + c) i == a * d_mid k v i.
Proof.
  unfold d_mid. cbv zeta.
  set (r := (k i - k (i - 1)%nat) / (k (S i) - k i)). unfold Qdiv. ring.
Qed.

Lemma derivative_affine n k v a c i b : derivative n k (fun j => a * v j + c) i b == a * derivative n k v i b.
Proof.
  unfold derivative. destruct (Nat.eqb i 0); [unfold d_edge; ring|].
  destruct (Nat.eqb i (n - 1)); [unfold d_edge; ring|]. cbv zeta.
  pose proof (d_mid_affine k v a c i) as D. cbv beta in D.
  destruct b; [|exact D]. rewrite D. unfold Qdiv; ring.
Qed.

Lemma cubic_cell_affine n k v a c i x : cubic_cell n k (fun j => a * v j + c) i x == a * cubic_cell n k v i x + c.
Proof.
  unfold cubic_cell.
  rewrite (cubic_poly_proper _ _ _ _ _ _ _ _ (derivative_affine n k v a c i false) (derivative_affine n k v a c (S i) true)
                             (Qeq_refl ((x - k i) / (k (S i) - k i)))).
  unfold cubic_poly. ring.
Qed.

Lemma cubic1_affine n k v a c x : cubic1 n k (fun j => a * v j + c) x == a * cubic1 n k v x + c.
Proof. unfold cubic1. destruct (Qeq_bool x (k (n - 1)%nat)); apply cubic_cell_affine. Qed.

Lemma cubic1_const n k c x : cubic1 n k (fun _ => c) x == c.
Proof.
  unfold cubic1, cubic_cell, derivative, d_edge, d_mid, cubic_poly.
  destruct (Qeq_bool x (k (n - 1)%nat));
    repeat match goal with |- context [if ?b then _ else _] => destruct b end; unfold Qdiv; ring.
Qed.
