(* C13 -- axisymmetric and cylindrical mapping: the wrapped function is evaluated at the cylindrical
   radius, and returned vectors are rotated about z by the toroidal angle of (x, y). *)
Require Import Cherab.Common.Qx.
Require Import Cherab.Model.C13_Wrappers.
From Coq Require Import Lqa.
Open Scope Q_scope.

Definition veq (u v : vec) : Prop :=
  let '(a, b, c) := u in let '(a', b', c') := v in a == a' /\ b == b' /\ c == c'.
Definition dot (u v : vec) : Q :=
  let '(a, b, c) := u in let '(a', b', c') := v in a * a' + b * b' + c * c'.

(* a rotation (c^2 + s^2 = 1) preserves scalar products, hence lengths and angles *)
Lemma rotz_dot c s u v : c * c + s * s == 1 -> dot (rotz c s u) (rotz c s v) == dot u v.
Proof.
  destruct u as [[a b] d], v as [[a' b'] d']. unfold rotz, dot. intros H.
  setoid_replace ((c * a - s * b) * (c * a' - s * b') + (s * a + c * b) * (s * a' + c * b') + d * d')
    with ((c * c + s * s) * (a * a' + b * b') + d * d') by ring.
  rewrite H. ring.
Qed.

Lemma sq_nonneg_inj r1 r2 : 0 <= r1 -> 0 <= r2 -> r1 * r1 == r2 * r2 -> r1 == r2.
Proof.
  intros H1 H2 E.
  destruct (Qeq_dec (r1 + r2) 0) as [Z | NZ].
  - lra.
  - assert (G : (r1 - r2) * (r1 + r2) == 0) by (setoid_replace ((r1 - r2) * (r1 + r2)) with (r1 * r1 - r2 * r2) by ring; lra).
    apply Qmult_integral in G. destruct G; [lra | contradiction].
Qed.

Section Cylindrical.
  Variable sqrtQ : Q -> Q.
  (* what is assumed of the square-root oracle *)
  Hypothesis sqrt_spec : forall s, 0 <= s -> 0 <= sqrtQ s /\ sqrtQ s * sqrtQ s == s.

  Lemma sumsq_nonneg x y : 0 <= x * x + y * y.
  Proof.
    assert (0 <= x * x) by (destruct (Qlt_le_dec x 0); [setoid_replace (x * x) with ((- x) * (- x)) by ring |]; apply Qmult_le_0_compat; lra).
    assert (0 <= y * y) by (destruct (Qlt_le_dec y 0); [setoid_replace (y * y) with ((- y) * (- y)) by ring |]; apply Qmult_le_0_compat; lra).
    lra.
  Qed.

  Lemma radius_spec x y : 0 <= radius sqrtQ x y /\ radius sqrtQ x y * radius sqrtQ x y == x * x + y * y.
  Proof. apply sqrt_spec, sumsq_nonneg. Qed.

  (* the mapped argument depends on (x, y) only through x^2 + y^2: the mapping is axisymmetric *)
  Lemma radius_axisymmetric x y x' y' : x' * x' + y' * y' == x * x + y * y -> radius sqrtQ x' y' == radius sqrtQ x y.
  Proof.
    intros E. destruct (radius_spec x y) as [P S], (radius_spec x' y') as [P' S'].
    apply sq_nonneg_inj; try assumption. lra.
  Qed.

  Lemma radius_pos x y : ~ (x == 0 /\ y == 0) -> 0 < radius sqrtQ x y.
  Proof.
    intros N. destruct (radius_spec x y) as [P S].
    destruct (Qeq_dec (radius sqrtQ x y) 0) as [Z | NZ]; [| lra].
    exfalso. rewrite Z in S.
    assert (Hx : 0 <= x * x) by (pose proof (sumsq_nonneg x 0); lra).
    assert (Hy : 0 <= y * y) by (pose proof (sumsq_nonneg y 0); lra).
    assert (X : x * x == 0) by lra. assert (Y : y * y == 0) by lra.
    apply Qmult_integral in X. apply Qmult_integral in Y. apply N. split; tauto.
  Qed.

  (* on the poloidal half plane (y = 0, x >= 0) the mapped radius is x itself *)
  Lemma radius_on_half_plane x : 0 <= x -> radius sqrtQ x 0 == x.
  Proof.
    intros H. destruct (radius_spec x 0) as [P S]. apply sq_nonneg_inj; try assumption. lra.
  Qed.

  Lemma axisym_spec {B} (f : Q -> Q -> B) x y z : axisym sqrtQ f x y z = f (radius sqrtQ x y) z.
  Proof. reflexivity. Qed.
  Lemma cylindrical_spec {B} atan2Q (f : Q -> Q -> Q -> B) x y z :
    cylindrical sqrtQ atan2Q f x y z = f (radius sqrtQ x y) (atan2Q y x) z.
  Proof. reflexivity. Qed.

  (* (c, s) = (x/r, y/r) is the rotation by the toroidal angle: it is a rotation, it carries the point
     (r, 0, z) of the poloidal plane to (x, y, z), and it is the only pair (c, s) that does *)
  Lemma toroidal_rotation x y z : ~ (x == 0 /\ y == 0) ->
    let r := radius sqrtQ x y in
    (x / r) * (x / r) + (y / r) * (y / r) == 1 /\ veq (rotz (x / r) (y / r) (r, 0, z)) (x, y, z).
  Proof.
    intros N r. pose proof (radius_pos x y N) as P. destruct (radius_spec x y) as [_ S]. fold r in P, S.
    split.
    - setoid_replace ((x / r) * (x / r) + (y / r) * (y / r)) with ((x * x + y * y) / (r * r)) by (field; lra).
      rewrite <- S. field. lra.
    - unfold rotz, veq. repeat split; try (field; lra); reflexivity.
  Qed.

  Lemma toroidal_rotation_unique x y z c s : ~ (x == 0 /\ y == 0) ->
    let r := radius sqrtQ x y in
    veq (rotz c s (r, 0, z)) (x, y, z) -> c == x / r /\ s == y / r.
  Proof.
    intros N r. pose proof (radius_pos x y N) as P. fold r in P.
    unfold rotz, veq. intros (E1 & E2 & _).
    split; [setoid_replace c with ((c * r - s * 0) / r) by (field; lra); rewrite E1
           | setoid_replace s with ((s * r + c * 0) / r) by (field; lra); rewrite E2]; reflexivity.
  Qed.

  (* vector wrappers: by definition the wrapped function's vector at (r, z) rotated by that rotation;
     so its length is preserved and the cylindrical unit vectors go to the local radial / toroidal directions *)
  Lemma vector_axisym_spec (f : Q -> Q -> vec) x y z :
    vector_axisym sqrtQ f x y z = rotz (x / radius sqrtQ x y) (y / radius sqrtQ x y) (f (radius sqrtQ x y) z).
  Proof. reflexivity. Qed.
  Lemma vector_cylindrical_spec atan2Q (f : Q -> Q -> Q -> vec) x y z :
    vector_cylindrical sqrtQ atan2Q f x y z =
    rotz (x / radius sqrtQ x y) (y / radius sqrtQ x y) (f (radius sqrtQ x y) (atan2Q y x) z).
  Proof. reflexivity. Qed.

  Lemma vector_axisym_length (f : Q -> Q -> vec) x y z : ~ (x == 0 /\ y == 0) ->
    dot (vector_axisym sqrtQ f x y z) (vector_axisym sqrtQ f x y z)
    == dot (f (radius sqrtQ x y) z) (f (radius sqrtQ x y) z).
  Proof. intros N. unfold vector_axisym. apply rotz_dot. apply (toroidal_rotation x y 0 N). Qed.

  Lemma vector_axisym_unit_vectors x y z : ~ (x == 0 /\ y == 0) ->
    let r := radius sqrtQ x y in
    veq (vector_axisym sqrtQ (fun _ _ => (1, 0, 0)) x y z) (x / r, y / r, 0)
    /\ veq (vector_axisym sqrtQ (fun _ _ => (0, 1, 0)) x y z) (- (y / r), x / r, 0)
    /\ veq (vector_axisym sqrtQ (fun _ _ => (0, 0, 1)) x y z) (0, 0, 1).
  Proof.
    intros N r. unfold vector_axisym, rotz, veq. fold r. repeat split; try ring; reflexivity.
  Qed.

  (* in the poloidal half plane itself nothing is rotated *)
  Lemma vector_axisym_on_half_plane (f : Q -> Q -> vec) x z : 0 < x ->
    veq (vector_axisym sqrtQ f x 0 z) (f (radius sqrtQ x 0) z).
  Proof.
    intros H. unfold vector_axisym. pose proof (radius_on_half_plane x (Qlt_le_weak _ _ H)) as R.
    destruct (f (radius sqrtQ x 0) z) as [[a b] c]. unfold rotz, veq.
    assert (C : x / radius sqrtQ x 0 == 1) by (rewrite R; field; lra).
    assert (S : 0 / radius sqrtQ x 0 == 0) by (rewrite R; field; lra).
    rewrite C, S. repeat split; ring.
  Qed.
End Cylindrical.

(* the quadrant classifier used for the atan2 oracle is total and exclusive by construction; the
   branch cut (negative x axis) is one class for both signed zeros of y *)
Lemma quadrant_branch_cut x : x < 0 -> quadrant x 0 = 4%Z.
Proof.
  intros H. unfold quadrant. change (0 ?= 0) with Eq.
  destruct (x ?= 0) eqn:E; try reflexivity.
  - apply Qeq_alt in E. lra.
  - apply Qgt_alt in E. lra.
Qed.

(* record of the finding fixed by efb2198: sqrt(x*x + y*y) on binary64 is infinite for the finite point
   (2^665, 0) (true radius 2^665) and zero for (2^-600, 0) (true radius 2^-600) *)
From Coq Require Import Uint63 PrimFloat.
Require Import Cherab.Model.C13_Float.
Lemma radius_F_old_refuted :
  F_same (radius_F_old (F_of_bits (FFin false 4503599627370496 613)) zero) infinity = true
  /\ F_same (radius_F_old (F_of_bits (FFin false 4503599627370496 (-652))) zero) zero = true.
Proof. vm_compute. split; reflexivity. Qed.

(* ---- the total mapping: every finite (x, y), the symmetry axis included ---------------------------------- *)
Section Total.
  Variable sqrtQ : Q -> Q.
  Hypothesis sqrt_spec : forall s, 0 <= s -> 0 <= sqrtQ s /\ sqrtQ s * sqrtQ s == s.

  Lemma radius_on_axis x y : x == 0 -> y == 0 -> radius sqrtQ x y == 0.
  Proof.
    intros Hx Hy. destruct (radius_spec sqrtQ sqrt_spec x y) as [P S].
    apply sq_nonneg_inj; [assumption | lra |]. rewrite S, Hx, Hy. ring.
  Qed.

  (* (cos, sin) is a rotation everywhere *)
  Lemma toroidal_cs_unit xneg x y :
    let cs := toroidal_cs xneg x y (radius sqrtQ x y) in fst cs * fst cs + snd cs * snd cs == 1.
  Proof.
    unfold toroidal_cs. destruct (Qeq_bool (radius sqrtQ x y) 0) eqn:E.
    - destruct xneg; cbn [fst snd]; ring.
    - cbn [fst snd]. apply Qeq_bool_neq in E.
      destruct (radius_spec sqrtQ sqrt_spec x y) as [P S].
      setoid_replace ((x / radius sqrtQ x y) * (x / radius sqrtQ x y) + (y / radius sqrtQ x y) * (y / radius sqrtQ x y))
        with ((x * x + y * y) / (radius sqrtQ x y * radius sqrtQ x y)) by (field; assumption).
      rewrite <- S. field. assumption.
  Qed.

  (* off the axis the total mapping is the one above; on the axis with x = +0 the wrapped function's vector at
     (0, z) is returned unrotated, with x = -0 it is turned by half a turn; the length is preserved everywhere *)
  Lemma vector_axisym_total_off_axis xneg f x y z : ~ (x == 0 /\ y == 0) ->
    vector_axisym_total sqrtQ xneg f x y z = vector_axisym sqrtQ f x y z.
  Proof.
    intros N. unfold vector_axisym_total, vector_axisym, toroidal_cs.
    pose proof (radius_pos sqrtQ sqrt_spec x y N) as P.
    destruct (Qeq_bool (radius sqrtQ x y) 0) eqn:E; [apply Qeq_bool_iff in E; lra | reflexivity].
  Qed.

  Lemma vector_axisym_total_on_axis f x y z : x == 0 -> y == 0 ->
    veq (vector_axisym_total sqrtQ false f x y z) (f (radius sqrtQ x y) z)
    /\ (let '(a, b, c) := f (radius sqrtQ x y) z in veq (vector_axisym_total sqrtQ true f x y z) (- a, - b, c)).
  Proof.
    intros Hx Hy. pose proof (radius_on_axis x y Hx Hy) as R. apply Qeq_bool_iff in R.
    unfold vector_axisym_total, toroidal_cs. rewrite R. cbn [fst snd].
    destruct (f (radius sqrtQ x y) z) as [[a b] c]. unfold rotz, veq. repeat split; ring.
  Qed.

  Lemma vector_axisym_total_length xneg f x y z :
    dot (vector_axisym_total sqrtQ xneg f x y z) (vector_axisym_total sqrtQ xneg f x y z)
    == dot (f (radius sqrtQ x y) z) (f (radius sqrtQ x y) z).
  Proof. unfold vector_axisym_total. apply rotz_dot. apply (toroidal_cs_unit xneg x y). Qed.
End Total.
