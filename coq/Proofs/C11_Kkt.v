(* Proofs about the least-squares model and the certificate checkers (Model/C11_Kkt.v):
   for every matrix shape and every competitor point. *)
Require Import Cherab.Common.Qx.
Require Import Cherab.Model.C11_Sart Cherab.Model.C11_Kkt.
Require Import Cherab.Proofs.C11_Sart.
From Coq Require Import Qabs Lqa.
Open Scope Q_scope.


Lemma dot_nil_r a : dot a [] = 0.
Proof. destruct a; reflexivity. Qed.

Lemma dot_proper : forall a a' b b', veq a a' -> veq b b' -> dot a b == dot a' b'.
Proof.
  intros a a' b b' Ha. revert b b'. induction Ha as [|u u' a a' Hu Ha IH]; intros b b' Hb; [reflexivity|].
  destruct Hb as [|v v' b b' Hv Hb]; [reflexivity|].
  rewrite !dot_step. rewrite Hu, Hv, (IH _ _ Hb). reflexivity.
Qed.

Lemma dot_app : forall a1 b1 a2 b2, length a1 = length b1 ->
  dot (a1 ++ a2) (b1 ++ b2) == dot a1 b1 + dot a2 b2.
Proof.
  induction a1 as [|u a1 IH]; intros b1 a2 b2 H; destruct b1 as [|v b1]; try discriminate.
  - cbn [app dot]. ring.
  - cbn [app]. rewrite !dot_step. rewrite IH by (cbn in H; lia). ring.
Qed.

Lemma dot_scale_l k : forall r x, dot (scale_row k r) x == k * dot r x.
Proof.
  induction r as [|u r IH]; intros x; [cbn; ring|]. destruct x as [|v x]; [cbn; ring|].
  cbn [scale_row map]. fold (scale_row k r). rewrite !dot_step, Qred_correct, IH. ring.
Qed.

Lemma dot_scale_r k : forall r x, dot r (scale_row k x) == k * dot r x.
Proof.
  induction r as [|u r IH]; intros x; [cbn; ring|]. destruct x as [|v x]; [cbn; ring|].
  cbn [scale_row map]. fold (scale_row k x). rewrite !dot_step, Qred_correct, IH. ring.
Qed.

Lemma dot_vadd_l : forall a b w, length a = length b -> dot (vadd a b) w == dot a w + dot b w.
Proof.
  induction a as [|u a IH]; intros b w H; destruct b as [|v b]; try discriminate; [cbn; ring|].
  destruct w as [|z w]; [cbn; ring|]. cbn [vadd]. rewrite !dot_step, Qred_correct, IH by (cbn in H; lia). ring.
Qed.

Lemma dot_vsub_r : forall c y x, length y = length x -> dot c (vsub y x) == dot c y - dot c x.
Proof.
  induction c as [|u c IH]; intros y x H; [cbn; ring|].
  destruct y as [|p y]; destruct x as [|q x]; try discriminate; [cbn; ring|].
  cbn [vsub]. rewrite !dot_step, Qred_correct, IH by (cbn in H; lia). ring.
Qed.

Lemma dot_zeros_l n : forall w, dot (zeros n) w == 0.
Proof.
  induction n as [|n IH]; intros w; [reflexivity|]. destruct w as [|z w]; [reflexivity|].
  cbn [zeros repeat]. fold (zeros n). rewrite dot_step, IH. ring.
Qed.

Lemma sq_nonneg u : 0 <= u * u.
Proof.
  destruct (Qlt_le_dec u 0) as [H|H].
  - setoid_replace (u * u) with ((- u) * (- u)) by ring. apply Qmult_le_0_compat; lra.
  - apply Qmult_le_0_compat; assumption.
Qed.

Lemma dot_self_nonneg : forall t, 0 <= dot t t.
Proof.
  induction t as [|u t IH]; [apply Qle_refl|]. rewrite dot_step.
  pose proof (sq_nonneg u). lra.
Qed.

Lemma vadd_length : forall a b, length a = length b -> length (vadd a b) = length a.
Proof.
  induction a as [|u a IH]; intros b H; destruct b as [|v b]; try discriminate; [reflexivity|].
  cbn [vadd length]. f_equal. apply IH. cbn in H. lia.
Qed.

Lemma scale_row_length k r : length (scale_row k r) = length r.
Proof. unfold scale_row. apply map_length. Qed.

Lemma zeros_length n : length (zeros n) = n.
Proof. apply repeat_length. Qed.

Lemma tmv_length n : forall C r, Forall (fun c => length c = n) C -> length (tmv C r n) = n.
Proof.
  induction C as [|c C IH]; intros r H; [apply zeros_length|].
  destruct r as [|ri r]; [apply zeros_length|]. cbn [tmv]. inversion H; subst.
  rewrite vadd_length; rewrite scale_row_length; [reflexivity|]. rewrite IH; auto.
Qed.

(* (C^T r) . w = r . (C w) *)
Lemma tmv_dot n w : forall C r, Forall (fun c => length c = n) C ->
  dot (tmv C r n) w == dot r (mv C w).
Proof.
  induction C as [|c C IH]; intros r H.
  - cbn [tmv mv map]. rewrite dot_nil_r. apply dot_zeros_l.
  - destruct r as [|ri r]; [cbn [tmv dot]; apply dot_zeros_l|].
    cbn [tmv mv map]. fold (mv C w). inversion H; subst.
    rewrite dot_vadd_l by (rewrite scale_row_length, tmv_length; auto).
    rewrite dot_scale_l, IH by assumption. rewrite dot_step. ring.
Qed.

Lemma resid_cons c C di d x : resid (c :: C) (di :: d) x = Qred (dot c x - di) :: resid C d x.
Proof. reflexivity. Qed.

Lemma obj_cons c C di d z : obj (c :: C) (di :: d) z == (dot c z - di) * (dot c z - di) + obj C d z.
Proof. unfold obj. rewrite resid_cons. rewrite dot_step. rewrite Qred_correct. reflexivity. Qed.

Lemma obj_expand x y : length y = length x -> forall C d, length d = length C ->
  obj C d y == obj C d x + 2 * dot (resid C d x) (mv C (vsub y x))
               + dot (mv C (vsub y x)) (mv C (vsub y x)).
Proof.
  intros Hxy. induction C as [|c C IH]; intros d Hd; destruct d as [|di d]; try discriminate.
  - cbn. ring.
  - rewrite !obj_cons, resid_cons. cbn [mv map]. fold (mv C (vsub y x)).
    rewrite !dot_step, Qred_correct. rewrite (IH d) by (cbn in Hd; lia).
    rewrite (dot_vsub_r c y x Hxy). ring.
Qed.

Lemma obj_lower_bound C d x y : length d = length C -> Forall (fun c => length c = length x) C ->
  length y = length x ->
  obj C d x + 2 * dot (grad C d x) (vsub y x) <= obj C d y.
Proof.
  intros Hd HC Hxy. rewrite (obj_expand x y Hxy C d Hd). unfold grad.
  rewrite tmv_dot by assumption.
  pose proof (dot_self_nonneg (mv C (vsub y x))). lra.
Qed.


Lemma forallb2_Forall2 {A B} (p : A -> B -> bool) : forall l1 l2,
  forallb2 p l1 l2 = true -> Forall2 (fun a b => p a b = true) l1 l2.
Proof.
  induction l1 as [|a l1 IH]; intros l2 H; destruct l2 as [|b l2]; try discriminate; constructor.
  - cbn in H. apply andb_true_iff in H. tauto.
  - apply IH. cbn in H. apply andb_true_iff in H. tauto.
Qed.

Lemma Forall2_imp {A B} (P Q : A -> B -> Prop) : (forall a b, P a b -> Q a b) ->
  forall l1 l2, Forall2 P l1 l2 -> Forall2 Q l1 l2.
Proof. intros H l1 l2 F. induction F; constructor; auto. Qed.

Lemma forallb_Forall {A} (p : A -> bool) l : forallb p l = true -> Forall (fun a => p a = true) l.
Proof. intro H. apply Forall_forall. apply forallb_forall. exact H. Qed.

Lemma dot_lower e1 : forall g y, length g = length y ->
  Forall (fun gi => - e1 <= gi) g -> Forall (Qle 0) y -> - e1 * Qsum y <= dot g y.
Proof.
  induction g as [|gi g IH]; intros y Hl Hg Hy; destruct y as [|yi y]; try discriminate.
  - cbn. lra.
  - rewrite dot_step. cbn [Qsum]. inversion Hg; subst. inversion Hy; subst.
    specialize (IH y ltac:(cbn in Hl; lia) H2 H4).
    assert (0 <= (gi + e1) * yi) by (apply Qmult_le_0_compat; lra). nra.
Qed.

Lemma dot_upper e2 : forall g x,
  Forall2 (fun gi xi => Qabs (gi * xi) <= e2) g x ->
  dot g x <= inject_Z (Z.of_nat (length x)) * e2.
Proof.
  intros g x H. induction H as [|gi xi g x H0 H IH].
  - cbn [length dot Z.of_nat]. change (inject_Z 0) with 0. lra.
  - rewrite dot_step. cbn [length]. rewrite Nat2Z.inj_succ. unfold Z.succ. rewrite inject_Z_plus.
    pose proof (Qle_Qabs (gi * xi)). change (inject_Z 1) with 1. lra.
Qed.

Lemma kkt_sufficient C d x e1 e2 : length d = length C -> Forall (fun c => length c = length x) C ->
  eps_kkt C d x e1 e2 = true ->
  Forall (Qle 0) x /\
  forall y, length y = length x -> Forall (Qle 0) y ->
  obj C d x - 2 * e1 * Qsum y - 2 * inject_Z (Z.of_nat (length x)) * e2 <= obj C d y.
Proof.
  intros Hd HC H. unfold eps_kkt in H. apply andb_true_iff in H. destruct H as [H H3].
  apply andb_true_iff in H. destruct H as [H1 H2].
  assert (Hx : Forall (Qle 0) x).
  { apply forallb_Forall in H1. eapply Forall_impl; [|exact H1]. intros a Ha. apply Qle_bool_iff. exact Ha. }
  split; [exact Hx|]. intros y Hy Hpos.
  pose proof (obj_lower_bound C d x y Hd HC Hy) as LB.
  rewrite (dot_vsub_r _ y x Hy) in LB.
  assert (Hg : Forall (fun gi => - e1 <= gi) (grad C d x)).
  { apply forallb_Forall in H2. eapply Forall_impl; [|exact H2]. intros a Ha. apply Qle_bool_iff. exact Ha. }
  assert (Hgx : Forall2 (fun gi xi => Qabs (gi * xi) <= e2) (grad C d x) x).
  { apply forallb2_Forall2 in H3. eapply Forall2_imp; [|exact H3]. intros a b Hab. apply Qle_bool_iff. exact Hab. }
  assert (Hlen : length (grad C d x) = length y).
  { unfold grad. rewrite tmv_length by assumption. lia. }
  pose proof (dot_lower e1 _ _ Hlen Hg Hpos). pose proof (dot_upper e2 _ _ Hgx). lra.
Qed.

Lemma dot_abs_lower e : forall g w, length g = length w ->
  Forall (fun gi => Qabs gi <= e) g -> - e * Qsum (map Qabs w) <= dot g w.
Proof.
  induction g as [|gi g IH]; intros w Hl Hg; destruct w as [|wi w]; try discriminate.
  - cbn. lra.
  - rewrite dot_step. cbn [map Qsum]. inversion Hg; subst.
    specialize (IH w ltac:(cbn in Hl; lia) H2).
    assert (- (e * Qabs wi) <= gi * wi).
    { pose proof (Qabs_Qmult gi wi) as M. pose proof (Qle_Qabs (- (gi * wi))) as N.
      rewrite Qabs_opp in N. rewrite M in N.
      assert (Qabs gi * Qabs wi <= e * Qabs wi).
      { apply Qmult_le_compat_r; [assumption | apply Qabs_nonneg]. }
      lra. }
    lra.
Qed.

Lemma normal_eq_sufficient C d x e : length d = length C -> Forall (fun c => length c = length x) C ->
  eps_normal_eq C d x e = true ->
  forall y, length y = length x ->
  obj C d x - 2 * e * Qsum (map Qabs (vsub y x)) <= obj C d y.
Proof.
  intros Hd HC H y Hy. unfold eps_normal_eq in H.
  assert (Hg : Forall (fun gi => Qabs gi <= e) (grad C d x)).
  { apply forallb_Forall in H. eapply Forall_impl; [|exact H]. intros a Ha. apply Qle_bool_iff. exact Ha. }
  pose proof (obj_lower_bound C d x y Hd HC Hy) as LB.
  assert (Hlen : length (grad C d x) = length (vsub y x)).
  { unfold grad. rewrite tmv_length by assumption. rewrite vsub_length; lia. }
  pose proof (dot_abs_lower e _ _ Hlen Hg). lra.
Qed.


Lemma mv_length W x : length (mv W x) = length W.
Proof. apply map_length. Qed.

Lemma penalty_block alpha x : forall L n, length L = n ->
  veq (vsub (mv (map (scale_row alpha) L) x) (zeros n)) (scale_row alpha (mv L x)).
Proof.
  induction L as [|r L IH]; intros n H; destruct n as [|n]; try discriminate; [constructor|].
  cbn [map mv vsub zeros repeat scale_row]. constructor.
  - rewrite !Qred_correct, dot_scale_l. ring.
  - apply (IH n). cbn in H. lia.
Qed.

Lemma stack_objective W b alpha L x : length b = length W -> length L = length x ->
  obj (stackC W alpha L) (stackd b (length x)) x == tikhonov_objective W b alpha L x.
Proof.
  intros Hb HL. unfold obj, resid, stackC, stackd, tikhonov_objective.
  replace (mv (W ++ map (scale_row alpha) L) x) with (mv W x ++ mv (map (scale_row alpha) L) x)
    by (unfold mv; rewrite map_app; reflexivity).
  rewrite vsub_app by (rewrite mv_length; lia).
  rewrite dot_app by reflexivity.
  pose proof (penalty_block alpha x L (length x) HL) as P.
  rewrite (dot_proper _ _ _ _ P P). rewrite dot_scale_l, dot_scale_r. ring.
Qed.

Lemma obj_scaled k z : forall C d,
  obj (map (scale_row k) C) (scale_row k d) z == k * k * obj C d z.
Proof.
  induction C as [|c C IH]; intros d.
  - unfold obj, resid. cbn. ring.
  - destruct d as [|di d].
    + unfold obj, resid. cbn [map mv scale_row vsub dot]. ring.
    + cbn [map scale_row]. fold (scale_row k d). rewrite !obj_cons, IH, dot_scale_l, Qred_correct. ring.
Qed.

Lemma nnls_wrapper_correct (solver : mat -> vec -> vec * Q) n W b alpha L x rn :
  (forall C d, let (x, r) := solver C d in
               length x = n /\ Forall (Qle 0) x /\ 0 <= r /\ r * r == obj C d x /\
               forall y, length y = n -> Forall (Qle 0) y -> obj C d x <= obj C d y) ->
  length b = length W -> length (tikhonov_or_identity n L) = n ->
  invert_regularised_nnls solver n W b alpha L = LsOk x rn ->
  ~ vmax (stackd b n) == 0 /\ Forall (Qle 0) x /\
  rn * rn == tikhonov_objective W b alpha (tikhonov_or_identity n L) x /\
  forall y, length y = n -> Forall (Qle 0) y ->
  tikhonov_objective W b alpha (tikhonov_or_identity n L) x <= tikhonov_objective W b alpha (tikhonov_or_identity n L) y.
Proof.
  intros Hs Hb HL H. unfold invert_regularised_nnls in H.
  set (Lm := tikhonov_or_identity n L) in *. set (v := vmax (stackd b n)) in *.
  destruct (Qeq_bool v 0) eqn:Ev; [discriminate|].
  assert (Hv : ~ v == 0) by (intro K; apply Qeq_bool_iff in K; congruence).
  specialize (Hs (map (scale_row (/ v)) (stackC W alpha Lm)) (scale_row (/ v) (stackd b n))).
  destruct (solver (map (scale_row (/ v)) (stackC W alpha Lm)) (scale_row (/ v) (stackd b n))) as [x' r'].
  inversion H; subst x' rn. clear H. destruct Hs as (Hlen & Hpos & Hr & Hrr & Hmin).
  rewrite obj_scaled in Hrr.
  assert (Hkk : 0 < / v * / v).
  { assert (~ / v == 0) by (intro K; apply Hv; rewrite <- (Qinv_involutive v), K; reflexivity).
    pose proof (sq_nonneg (/ v)). destruct (Qeq_dec (/ v * / v) 0) as [E|E]; [|lra].
    exfalso. destruct (Qmult_integral _ _ E); contradiction. }
  split; [exact Hv|]. split; [exact Hpos|]. split.
  - rewrite <- (stack_objective W b alpha Lm x) by (try rewrite Hlen; assumption). rewrite Hlen.
    setoid_replace (r' * v * (r' * v)) with ((r' * r') * (v * v)) by ring. rewrite Hrr. field. exact Hv.
  - intros y Hy Hypos. specialize (Hmin y Hy Hypos). rewrite !obj_scaled in Hmin.
    rewrite <- (stack_objective W b alpha Lm x) by (try rewrite Hlen; assumption).
    rewrite <- (stack_objective W b alpha Lm y) by (try rewrite Hy; assumption).
    rewrite Hlen, Hy. apply (Qmult_le_l _ _ _ Hkk). exact Hmin.
Qed.
