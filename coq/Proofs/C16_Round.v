(* C16: round53 (the rounding the correspondence instantiates the model with) has relative error at most
   2^-53: the hypothesis of the rounded-arithmetic bin-width bounds is discharged for it. *)
Require Import Cherab.Common.Qx.
Require Import Cherab.Model.C16_Instruments.
From Coq Require Import Qpower Qround Qabs Lqa.
Open Scope Q_scope.

Lemma pow2_pos z : 0 < pow2 z.
Proof. unfold pow2. apply Qpower_0_lt. reflexivity. Qed.

Lemma two_nz : ~ 2 == 0.
Proof. intros H. discriminate H. Qed.

Lemma pow2_plus a b : pow2 (a + b) == pow2 a * pow2 b.
Proof. unfold pow2. apply Qpower_plus, two_nz. Qed.

Lemma pow2_Z k : (0 <= k)%Z -> inject_Z (2 ^ k) == pow2 k.
Proof. intros H. unfold pow2. rewrite (Zpower_Qpower 2 k H). reflexivity. Qed.

(* round-half-even is within 1/2 *)
Lemma rhe_bounds q : q - (1#2) <= inject_Z (round_half_even q) /\ inject_Z (round_half_even q) <= q + (1#2).
Proof.
  unfold round_half_even.
  pose proof (Qfloor_le q) as H1. pose proof (Qlt_floor q) as H2.
  rewrite inject_Z_plus in H2. change (inject_Z 1) with 1 in H2.
  destruct (Qcompare (q - inject_Z (Qfloor q)) (1#2)) eqn:E.
  - apply Qeq_alt in E. destruct (Z.even (Qfloor q)); [|rewrite inject_Z_plus; change (inject_Z 1) with 1]; lra.
  - apply Qlt_alt in E. lra.
  - apply Qgt_alt in E. rewrite inject_Z_plus; change (inject_Z 1) with 1. lra.
Qed.

(* the scaled significand is at least 2^52 *)
Lemma sig_lower a : 0 < a ->
  let e0 := (Z.log2 (Qnum a) - Z.log2 (Zpos (Qden a)) - 52)%Z in
  pow2 51 * pow2 e0 < a.
Proof.
  intros Ha e0. destruct a as [n d]. cbn [Qnum Qden] in *.
  assert (0 < n)%Z as Hn by (unfold Qlt in Ha; cbn in Ha; lia).
  destruct (Z.log2_spec n Hn) as [Hn1 _].
  destruct (Z.log2_spec (Zpos d) (Pos2Z.is_pos d)) as [_ Hd2].
  pose proof (Z.log2_nonneg n) as Hln. pose proof (Z.log2_nonneg (Zpos d)) as Hld.
  set (ln := Z.log2 n) in *. set (ld := Z.log2 (Zpos d)) in *.
  rewrite <- pow2_plus.
  replace (51 + e0)%Z with (ln - Z.succ ld)%Z by (unfold e0; lia).
  unfold pow2. rewrite (Qpower_minus 2 ln (Z.succ ld) two_nz).
  fold (pow2 ln). fold (pow2 (Z.succ ld)).
  rewrite <- (pow2_Z ln Hln), <- (pow2_Z (Z.succ ld)) by lia.
  rewrite (Qmake_Qdiv n d).
  assert (0 < inject_Z (2 ^ Z.succ ld)) as HD by (rewrite pow2_Z by lia; apply pow2_pos).
  assert (0 < inject_Z (Zpos d)) as Hdq by reflexivity.
  assert (inject_Z (2 ^ ln) <= inject_Z n) as Hnq by (rewrite <- Zle_Qle; exact Hn1).
  assert (inject_Z (Zpos d) < inject_Z (2 ^ Z.succ ld)) as Hdq2 by (rewrite <- Zlt_Qlt; exact Hd2).
  assert (0 < inject_Z (2 ^ ln)) as HN by (rewrite pow2_Z by lia; apply pow2_pos).
  apply Qlt_shift_div_l; [exact Hdq|].
  apply Qlt_le_trans with (inject_Z (2 ^ ln)); [|exact Hnq].
  unfold Qdiv. rewrite <- Qmult_assoc.
  rewrite <- (Qmult_1_r (inject_Z (2 ^ ln))) at 2.
  rewrite !(Qmult_comm (inject_Z (2 ^ ln))).
  apply Qmult_lt_compat_r; [exact HN|].
  rewrite Qmult_comm. apply Qlt_shift_div_r; [exact HD|]. lra.
Qed.

Definition u53 : Q := pow2 (-53).

Lemma round53_pos_bounds a : 0 < a -> (1 - u53) * a <= round53_pos a /\ round53_pos a <= (1 + u53) * a.
Proof.
  intros Ha. unfold round53_pos.
  set (e0 := (Z.log2 (Qnum a) - Z.log2 (Zpos (Qden a)) - 52)%Z).
  set (e := if Qle_bool (pow2 52) (a / pow2 e0) then e0 else (e0 - 1)%Z).
  assert (pow2 52 <= a / pow2 e) as Hs.
  { unfold e. destruct (Qle_bool (pow2 52) (a / pow2 e0)) eqn:E; [apply Qle_bool_iff, E|].
    pose proof (sig_lower a Ha) as L. cbv zeta in L. fold e0 in L.
    assert (pow2 e0 == pow2 (e0 - 1) * 2) as E0.
    { replace e0 with ((e0 - 1) + 1)%Z at 1 by lia. rewrite pow2_plus. reflexivity. }
    assert (pow2 52 == pow2 51 * 2) as E52 by reflexivity.
    apply Qlt_le_weak. apply Qlt_shift_div_l; [apply pow2_pos|].
    rewrite E52. rewrite E0 in L. lra. }
  pose proof (pow2_pos e) as Hpe.
  set (s := a / pow2 e) in *.
  assert (a == s * pow2 e) as Ea by (unfold s; field; intros E; rewrite E in Hpe; exact (Qlt_irrefl _ Hpe)).
  destruct (rhe_bounds s) as [B1 B2].
  rewrite Qred_correct.
  set (m := inject_Z (round_half_even s)) in *.
  assert (u53 * pow2 52 == 1 # 2) as Eu by reflexivity.
  assert ((1 # 2) * pow2 e <= u53 * a) as Hu.
  { rewrite Ea. rewrite <- Eu. rewrite Qmult_assoc. apply Qmult_le_compat_r; [|lra].
    rewrite !(Qmult_comm u53). apply Qmult_le_compat_r; [exact Hs|]. unfold u53. apply Qlt_le_weak, pow2_pos. }
  assert (m * pow2 e <= (s + (1#2)) * pow2 e) as U1 by (apply Qmult_le_compat_r; lra).
  assert ((s - (1#2)) * pow2 e <= m * pow2 e) as U2 by (apply Qmult_le_compat_r; lra).
  split.
  - setoid_replace ((1 - u53) * a) with (a - u53 * a) by ring.
    setoid_replace ((s - (1#2)) * pow2 e) with (s * pow2 e - (1#2) * pow2 e) in U2 by ring. rewrite <- Ea in U2. lra.
  - setoid_replace ((1 + u53) * a) with (a + u53 * a) by ring.
    setoid_replace ((s + (1#2)) * pow2 e) with (s * pow2 e + (1#2) * pow2 e) in U1 by ring. rewrite <- Ea in U1. lra.
Qed.

(* every double operation modelled by round53 has relative error at most 2^-53 *)
Lemma round53_rel x : 0 <= x -> (1 - u53) * x <= round53 x /\ round53 x <= (1 + u53) * x.
Proof.
  intros Hx. unfold round53. destruct (Qcompare x 0) eqn:E.
  - apply Qeq_alt in E. rewrite E. split; lra.
  - apply Qlt_alt in E. lra.
  - apply Qgt_alt in E. apply round53_pos_bounds, E.
Qed.

Lemma u53_range : 0 <= u53 /\ u53 < 1.
Proof. split; [apply Qlt_le_weak, pow2_pos|reflexivity]. Qed.
