Require Import Cherab.Common.Qx.
From Coq Require Import Qabs Qminmax Lqa.
Require Import Cherab.Model.C20_Spacing.
Open Scope Q_scope.

Lemma diffs_cons2 a b t : diffs (a :: b :: t) = (b - a) :: diffs (b :: t).
Proof. reflexivity. Qed.
Lemma axis_cons x0 dx a l : axis_coords x0 dx (a :: l) = (x0 + inject_Z a * dx) :: axis_coords x0 dx l.
Proof. reflexivity. Qed.
Lemma min_cons d t : min_abs_nonzero (d :: t) =
  if Qeq_bool d 0 then min_abs_nonzero t
  else match min_abs_nonzero t with None => Some (Qabs d) | Some m => Some (if Qle_bool (Qabs d) m then Qabs d else m) end.
Proof. reflexivity. Qed.
Ltac step_case a b t x0 dx :=
  rewrite (axis_cons x0 dx a (b :: t)), (axis_cons x0 dx b t), diffs_cons2, <- (axis_cons x0 dx b t), min_cons.

Section Axis.
  Variables x0 dx : Q.
  Hypothesis Hdx : 0 < dx.

  Lemma abs_step a b : Qabs ((x0 + inject_Z b * dx) - (x0 + inject_Z a * dx)) == inject_Z (Z.abs (b - a)) * dx.
  Proof.
    assert (E : (x0 + inject_Z b * dx) - (x0 + inject_Z a * dx) == inject_Z (b - a) * dx).
    { unfold Zminus. rewrite inject_Z_plus, inject_Z_opp. ring. }
    rewrite E, Qabs_Qmult, (Qabs_pos dx) by lra.
    unfold inject_Z. rewrite <- (Zabs_Qabs (b - a) 1). reflexivity.
  Qed.

  Lemma step_zero a b : Qeq_bool ((x0 + inject_Z b * dx) - (x0 + inject_Z a * dx)) 0 = (b - a =? 0)%Z.
  Proof.
    destruct (Z.eqb_spec (b - a) 0) as [E|E].
    - apply Qeq_bool_iff. assert (b = a) by lia. subst. ring.
    - apply not_true_iff_false. intros H. apply Qeq_bool_iff in H. apply E.
      assert (E2 : (x0 + inject_Z b * dx) - (x0 + inject_Z a * dx) == inject_Z (b - a) * dx).
      { unfold Zminus. rewrite inject_Z_plus, inject_Z_opp. ring. }
      rewrite E2 in H. apply Qmult_integral in H. destruct H as [H|H]; [|lra].
      unfold inject_Z, Qeq in H. cbn in H. lia.
  Qed.

  (* every value the minimum can take is a positive integer multiple of dx *)
  Lemma min_is_multiple cols m :
    min_abs_nonzero (diffs (axis_coords x0 dx cols)) = Some m -> exists k : Z, (1 <= k)%Z /\ m == inject_Z k * dx.
  Proof.
    revert m. induction cols as [|a [|b t] IH]; intros m; try (cbn; discriminate).
    step_case a b t x0 dx.
    rewrite step_zero. destruct (Z.eqb_spec (b - a) 0) as [E|E]; [apply IH|].
    destruct (min_abs_nonzero (diffs (axis_coords x0 dx (b :: t)))) as [m'|] eqn:Hm; cbv beta iota.
    - destruct (IH m' eq_refl) as (k & Hk & Ek).
      match goal with |- context [Qle_bool ?u m'] => destruct (Qle_bool u m') eqn:Hle end; intros H; injection H as <-.
      + exists (Z.abs (b - a)). split; [lia | apply abs_step].
      + exists k. split; assumption.
    - intros H; injection H as <-. exists (Z.abs (b - a)). split; [lia | apply abs_step].
  Qed.

  Lemma min_le_unit cols :
    has_unit_step cols = true ->
    exists m, min_abs_nonzero (diffs (axis_coords x0 dx cols)) = Some m /\ m <= dx.
  Proof.
    induction cols as [|a [|b t] IH]; cbn [has_unit_step]; try discriminate.
    intros H. step_case a b t x0 dx.
    rewrite step_zero.
    apply orb_true_iff in H. destruct H as [H|H].
    - apply Z.eqb_eq in H. destruct (Z.eqb_spec (b - a) 0) as [E|E]; [lia|].
      assert (Ea : Qabs ((x0 + inject_Z b * dx) - (x0 + inject_Z a * dx)) == dx).
      { rewrite abs_step, H. unfold inject_Z. ring. }
      destruct (min_abs_nonzero (diffs (axis_coords x0 dx (b :: t)))) as [m'|]; cbv beta iota.
      + match goal with |- context [Qle_bool ?u m'] => destruct (Qle_bool u m') eqn:Hle end; eexists; split; try reflexivity.
        * rewrite Ea. lra.
        * apply not_true_iff_false in Hle. rewrite Qle_bool_iff in Hle. rewrite Ea in Hle. lra.
      + eexists; split; [reflexivity|]. rewrite Ea. lra.
    - destruct (IH H) as (m & Hm & Hle). rewrite Hm. cbv beta iota.
      destruct (Z.eqb_spec (b - a) 0) as [E|E]; [exists m; split; auto|].
      match goal with |- context [Qle_bool ?u m] => destruct (Qle_bool u m) eqn:Hq end; eexists; split; try reflexivity; auto.
      apply Qle_bool_iff in Hq. lra.
  Qed.

  (* the code infers exactly dx whenever two consecutive voxels are neighbours along the axis *)
  Theorem infer_spacing_correct cols :
    has_unit_step cols = true ->
    exists m, infer_spacing (axis_coords x0 dx cols) = Some m /\ m == dx.
  Proof.
    intros H. destruct (min_le_unit cols H) as (m & Hm & Hle). exists m. split; [exact Hm|].
    destruct (min_is_multiple cols m Hm) as (k & Hk & Ek).
    assert (Hk1 : inject_Z 1 <= inject_Z k) by (rewrite <- Zle_Qle; lia).
    unfold inject_Z at 1 in Hk1.
    assert (dx <= m) by (rewrite Ek; nra). lra.
  Qed.
End Axis.

(* outside the assumption: the column sequence 2,0,3,1 makes the code infer 2 dx *)
Example infer_spacing_refuted_without_unit_step :
  has_unit_step [2; 0; 3; 1]%Z = false /\
  match infer_spacing (axis_coords 0 1 [2; 0; 3; 1]%Z) with Some m => Qeq_bool m 2 | None => false end = true.
Proof. split; vm_compute; reflexivity. Qed.
