(* Proofs about the ADMT coefficient model. *)
Require Import Cherab.Common.Qx.
Require Import Cherab.Model.C20_Stencil Cherab.Model.C20_Admt.
Require Import Cherab.Proofs.C20_Stencil.
Open Scope Q_scope.

Ltac unfold_admt :=
  unfold c_x, c_y, c_xx, c_yy, c_xy, ddiff_term_cx, dnorm_term_cx, ddiff_term_cy, dnorm_term_cy,
         toroidal_term_cx, toroidal_term_cy, c_xx, c_xy, normalisation.

(* The code's coefficients are those of div (D grad f) in cylindrical geometry, for every jet. *)
Lemma admt_divergence_form (j : jet) :
  ~ normalisation j == 0 -> ~ rad j == 0 ->
  c_x j == eval j div_cx /\ c_y j == eval j div_cy
  /\ c_xx j == eval j eDxx /\ c_yy j == eval j eDyy /\ c_xy j == eval j eDxy.
Proof.
  intros HN HR. unfold normalisation in HN.
  unfold_admt. destruct j as [a b axx axy ayy dp dl dpx dpy dlx dly r]; cbn in *.
  repeat split; field; auto.
Qed.

Lemma div_form_first_order : first_order eDxx && first_order eDyy && first_order eDxy = true.
Proof. reflexivity. Qed.

(* anisotropy 1: the operator is d2/dx2 + d2/dy2 + (1/R) d/dx for EVERY value of the five
   derivative estimates (so also in boundary cells) *)
Lemma admt_isotropic_coefficients (j : jet) :
  ~ normalisation j == 0 -> ~ rad j == 0 ->
  dperp j == 1 -> dpar j == 1 ->
  dperp_x j == 0 -> dperp_y j == 0 -> dpar_x j == 0 -> dpar_y j == 0 ->
  c_xx j == 1 /\ c_yy j == 1 /\ c_xy j == 0 /\ c_x j == 1 / rad j /\ c_y j == 0.
Proof.
  intros HN HR H1 H2 H3 H4 H5 H6. unfold normalisation in HN.
  unfold_admt. destruct j as [a b axx axy ayy dp dl dpx dpy dlx dly r]; cbn in *.
  rewrite H1, H2, H3, H4, H5, H6.
  repeat split; field; auto.
Qed.

Section Grid.
  Variables nx ny ix iy : Z.
  Hypothesis Hnx : (2 <= nx)%Z.
  Hypothesis Hny : (2 <= ny)%Z.
  Hypothesis Hix : (0 <= ix < nx)%Z.
  Hypothesis Hiy : (0 <= iy < ny)%Z.
  Variables dx dy : Q.
  Hypothesis Hdx : ~ dx == 0.
  Hypothesis Hdy : ~ dy == 0.

  Lemma apply_admt_row j s f :
    apply (admt_row j nx ny ix iy dx dy s) f ix iy ==
    (c_x j * apply (op_row ODx nx ny ix iy dx dy) f ix iy
     + c_y j * apply (op_row ODy nx ny ix iy dx dy) f ix iy
     + c_xx j * apply (op_row ODxx nx ny ix iy dx dy) f ix iy
     + 2 * c_xy j * apply (op_row ODxy nx ny ix iy dx dy) f ix iy
     + c_yy j * apply (op_row ODyy nx ny ix iy dx dy) f ix iy) * s.
  Proof. unfold apply, admt_row. cbn [map offs Qsum fst snd]. ring. Qed.

  (* the regularisation operator annihilates constants, whatever the flux map *)
  Lemma admt_annihilates_constants j s c :
    apply (admt_row j nx ny ix iy dx dy s) (fun _ _ => c) ix iy == 0.
  Proof.
    rewrite apply_admt_row.
    rewrite !(const_annihilated nx ny ix iy Hnx Hny Hix Hiy dx dy Hdx Hdy). ring.
  Qed.

  (* the jet the code builds with anisotropy 1 has D_perp = D_par = 1 and vanishing D-derivatives *)
  Lemma isotropic_operator_is_laplacian psi r s f :
    ~ r == 0 -> ~ normalisation (jet_of psi 1 r nx ny ix iy dx dy) == 0 ->
    apply (admt_row (jet_of psi 1 r nx ny ix iy dx dy) nx ny ix iy dx dy s) f ix iy ==
    (apply (op_row ODxx nx ny ix iy dx dy) f ix iy
     + apply (op_row ODyy nx ny ix iy dx dy) f ix iy
     + (1 / r) * apply (op_row ODx nx ny ix iy dx dy) f ix iy) * s.
  Proof.
    intros Hr HN. rewrite apply_admt_row.
    set (j := jet_of psi 1 r nx ny ix iy dx dy) in *.
    assert (Hc : forall o c, apply (op_row o nx ny ix iy dx dy) (fun _ _ => c) ix iy == 0)
      by (intros; apply const_annihilated; assumption).
    destruct (admt_isotropic_coefficients j) as (E1 & E2 & E3 & E4 & E5); auto.
    - subst j; unfold jet_of; cbn [dperp]. field.
    - subst j; reflexivity.
    - subst j; unfold jet_of; cbn [dperp_x]. apply Hc.
    - subst j; unfold jet_of; cbn [dperp_y]. apply Hc.
    - subst j; unfold jet_of; cbn [dpar_x]. apply Hc.
    - subst j; unfold jet_of; cbn [dpar_y]. apply Hc.
    - rewrite E1, E2, E3, E4, E5. subst j; unfold jet_of; cbn [rad]. ring.
  Qed.
End Grid.

(* Record of finding F8: the formula as it stood before the fix (dpsidyy in place of dpsidxdy in
   the first factor of dnorm_term_cx) is NOT the divergence form, and does not reduce to the
   Laplacian for anisotropy 1. *)
Definition dnorm_term_cx_unfixed (j : jet) : Q :=
  -(2) / normalisation j *
  ((dperp j * (px j * px j) + dpar j * (py j * py j)) * (px j * pxx j + py j * pyy j)
   + (dperp j - dpar j) * (px j * py j) * (px j * pxy j + py j * pyy j)).
Definition c_x_unfixed (j : jet) : Q :=
  (2 * dperp j * pxx j * px j + 2 * dpar j * pxy j * py j
   + (dperp j - dpar j) * (pxy j * py j + pyy j * px j)
   + ddiff_term_cx j + dnorm_term_cx_unfixed j + toroidal_term_cx j) / normalisation j.
Definition witness_jet : jet :=
  {| px := 1; py := 1; pxx := 0; pxy := 0; pyy := 1; dperp := 1; dpar := 1;
     dperp_x := 0; dperp_y := 0; dpar_x := 0; dpar_y := 0; rad := 1 |}.
Lemma C20_refuted_unfixed :
  exists j, ~ normalisation j == 0 /\ ~ rad j == 0 /\ dperp j == 1 /\ dpar j == 1 /\
            ~ c_x_unfixed j == 1 / rad j.
Proof. exists witness_jet. repeat split; vm_compute; congruence. Qed.
