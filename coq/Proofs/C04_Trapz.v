(* C04: cumulative trapezoid (any node list) and linear interpolation (any node list). *)
Require Import Cherab.Common.Qx.
From Coq Require Import Lqa.
Require Import Cherab.Model.C04_Beam.
Open Scope Q_scope.

Definition Qger (a b : Q) : Prop := b <= a.

Lemma chain_map (R R' : Q -> Q -> Prop) (f : Q -> Q) :
  (forall a b, R a b -> R' (f a) (f b)) ->
  forall l x, chain R x l -> chain R' (f x) (map f l).
Proof.
  intros Hf l; induction l as [|y l IH]; intros x H; cbn [map chain] in *; [exact I|].
  destruct H as [H1 H2]. split; [apply Hf; exact H1 | apply IH; exact H2].
Qed.

Lemma half_area_nonneg z0 z1 s0 s1 : z0 <= z1 -> 0 <= s0 -> 0 <= s1 -> 0 <= (z1 - z0) * (s0 + s1) / 2.
Proof.
  intros Hz H0 H1. unfold Qdiv. apply Qmult_le_0_compat; [apply Qmult_le_0_compat; lra|].
  apply Qlt_le_weak, Qinv_lt_0_compat. lra.
Qed.

(* ---- monotone: S >= 0 on sorted nodes => the attenuation exponent never decreases ---- *)
Lemma cumtrapz_from_chain l : forall acc z0 s0,
  0 <= s0 -> chain Qle z0 (map fst l) -> Forall (fun zs => 0 <= snd zs) l ->
  chain Qle acc (cumtrapz_from acc z0 s0 l).
Proof.
  induction l as [|[z1 s1] l IH]; intros acc z0 s0 H0 Hz Hs; cbn [cumtrapz_from chain map fst] in *; [exact I|].
  destruct Hz as [Hz1 Hz]. inversion Hs as [|? ? Hs1 Hs']; subst. cbn [snd] in Hs1.
  split.
  - rewrite Qred_correct. pose proof (half_area_nonneg z0 z1 s0 s1 Hz1 H0 Hs1). lra.
  - apply IH; assumption.
Qed.

Lemma cumtrapz_monotone (l : list (Q * Q)) :
  chained Qle (map fst l) -> Forall (fun zs => 0 <= snd zs) l -> chained Qle (cumtrapz l).
Proof.
  destruct l as [|[z0 s0] l]; intros Hz Hs; cbn [cumtrapz chained map fst] in *; [exact I|].
  inversion Hs as [|? ? H0 Hs']; subst. apply cumtrapz_from_chain; assumption.
Qed.

(* the first exponent is 0 *)
Lemma cumtrapz_head l : match cumtrapz l with [] => l = [] | t0 :: _ => t0 = 0 end.
Proof. destruct l as [|[z0 s0] l]; reflexivity. Qed.

Lemma cumtrapz_from_length l : forall acc z0 s0, length (cumtrapz_from acc z0 s0 l) = length l.
Proof. induction l as [|[z1 s1] l IH]; intros; cbn [cumtrapz_from length]; [reflexivity | f_equal; apply IH]. Qed.
Lemma cumtrapz_length l : length (cumtrapz l) = length l.
Proof. destruct l as [|[z0 s0] l]; cbn [cumtrapz length]; [reflexivity | f_equal; apply cumtrapz_from_length]. Qed.

(* ---- exact for stopping coefficients that are linear along the axis: the exponent at node z is
        the integral  int_zref^z (a + b t) dt = a (z - zref) + b (z^2 - zref^2) / 2 ---- *)

Lemma cumtrapz_from_linear a b zref l : forall acc z0 s0,
  acc == lin_integral a b zref z0 -> s0 == a + b * z0 ->
  Forall (fun zs => snd zs == a + b * fst zs) l ->
  Forall2 (fun zs T => T == lin_integral a b zref (fst zs)) l (cumtrapz_from acc z0 s0 l).
Proof.
  induction l as [|[z1 s1] l IH]; intros acc z0 s0 Ha H0 Hl; cbn [cumtrapz_from]; [constructor|].
  inversion Hl as [|? ? H1 Hl']; subst. cbn [fst snd] in H1.
  assert (E : Qred (acc + (z1 - z0) * (s0 + s1) / 2) == lin_integral a b zref z1).
  { rewrite Qred_correct, Ha, H0, H1. unfold lin_integral. field. }
  constructor; [exact E|]. apply IH; assumption.
Qed.

Lemma cumtrapz_exact_linear a b (l : list (Q * Q)) z0 s0 :
  Forall (fun zs => snd zs == a + b * fst zs) ((z0, s0) :: l) ->
  Forall2 (fun zs T => T == lin_integral a b z0 (fst zs)) ((z0, s0) :: l) (cumtrapz ((z0, s0) :: l)).
Proof.
  intros H. inversion H as [|? ? H0 Hl]; subst. cbn [fst snd] in H0. cbn [cumtrapz].
  constructor; [unfold lin_integral; cbn [fst]; field|].
  apply cumtrapz_from_linear; [unfold lin_integral; field | exact H0 | exact Hl].
Qed.

(* ---- zero stopping: every exponent is 0 ---- *)
Lemma cumtrapz_from_zero l : forall acc z0 s0,
  acc == 0 -> s0 == 0 -> Forall (fun zs => snd zs == 0) l ->
  Forall (fun T => T == 0) (cumtrapz_from acc z0 s0 l).
Proof.
  induction l as [|[z1 s1] l IH]; intros acc z0 s0 Ha H0 Hl; cbn [cumtrapz_from]; [constructor|].
  inversion Hl as [|? ? H1 Hl']; subst. cbn [snd] in H1.
  assert (E : Qred (acc + (z1 - z0) * (s0 + s1) / 2) == 0).
  { rewrite Qred_correct, Ha, H0, H1. field. }
  constructor; [exact E | apply IH; assumption].
Qed.
Lemma cumtrapz_zero l : Forall (fun zs => snd zs == 0) l -> Forall (fun T => T == 0) (cumtrapz l).
Proof.
  destruct l as [|[z0 s0] l]; intros H; cbn [cumtrapz]; [constructor|].
  inversion H as [|? ? H0 Hl]; subst. constructor; [reflexivity|].
  apply cumtrapz_from_zero; [reflexivity | exact H0 | exact Hl].
Qed.

(* ---- linear interpolation of nodes with strictly increasing abscissae ---- *)
Fixpoint nodes_ok (P : Q -> Q -> Prop) (z0 y0 : Q) (rest : list (Q * Q)) : Prop :=
  match rest with
  | [] => True
  | (z1, y1) :: t => z0 < z1 /\ P y0 y1 /\ nodes_ok P z1 y1 t
  end.

Lemma lam_bounds z0 z1 z : z0 < z1 -> z0 <= z -> z <= z1 -> 0 <= (z - z0) / (z1 - z0) <= 1.
Proof.
  intros H01 H0 H1. assert (Hd : 0 < z1 - z0) by lra. split.
  - apply Qle_shift_div_l; [exact Hd | lra].
  - apply Qle_shift_div_r; [exact Hd | lra].
Qed.

Lemma seg_value y0 y1 lam : y0 + (y1 - y0) * lam == (1 - lam) * y0 + lam * y1.
Proof. ring. Qed.

Lemma seg_le_left y0 y1 lam : y1 <= y0 -> 0 <= lam -> y0 + (y1 - y0) * lam <= y0.
Proof.
  intros Hy Hl. assert (H : 0 <= (y0 - y1) * lam) by (apply Qmult_le_0_compat; lra).
  setoid_replace (y0 + (y1 - y0) * lam) with (y0 - (y0 - y1) * lam) by ring. lra.
Qed.
Lemma seg_ge_right y0 y1 lam : y1 <= y0 -> lam <= 1 -> y1 <= y0 + (y1 - y0) * lam.
Proof.
  intros Hy Hl. assert (H : 0 <= (y0 - y1) * (1 - lam)) by (apply Qmult_le_0_compat; lra).
  setoid_replace (y0 + (y1 - y0) * lam) with (y1 + (y0 - y1) * (1 - lam)) by ring. lra.
Qed.

(* non-increasing node values: the interpolant never exceeds the first node value *)
Lemma interp_from_le_first rest : forall z0 y0 z,
  nodes_ok Qger z0 y0 rest -> z0 <= z -> interp_from z0 y0 rest z <= y0.
Proof.
  induction rest as [|[z1 y1] rest IH]; intros z0 y0 z Hok Hz; cbn [interp_from]; [lra|].
  destruct Hok as (H01 & Hy & Hok).
  destruct (Qle_bool z z1) eqn:E.
  - apply Qle_bool_iff in E. apply seg_le_left; [exact Hy|]. apply (lam_bounds z0 z1 z); assumption.
  - assert (Hz1 : z1 <= z). { destruct (Qlt_le_dec z1 z) as [H|H]; [lra|]. apply Qle_bool_iff in H. congruence. }
    pose proof (IH z1 y1 z Hok Hz1). unfold Qger in Hy. lra.
Qed.

Lemma interp_from_monotone rest : forall z0 y0 z z',
  nodes_ok Qger z0 y0 rest -> z0 <= z -> z <= z' ->
  interp_from z0 y0 rest z' <= interp_from z0 y0 rest z.
Proof.
  induction rest as [|[z1 y1] rest IH]; intros z0 y0 z z' Hok Hz Hzz; cbn [interp_from]; [lra|].
  destruct Hok as (H01 & Hy & Hok). unfold Qger in Hy.
  destruct (Qle_bool z z1) eqn:E; destruct (Qle_bool z' z1) eqn:E'.
  - apply Qle_bool_iff in E, E'.
    (* same segment: slope (y1 - y0) <= 0 *)
    assert (Hd : 0 < z1 - z0) by lra.
    assert (Hl : (z - z0) / (z1 - z0) <= (z' - z0) / (z1 - z0)).
    { unfold Qdiv. apply Qmult_le_compat_r; [lra|]. apply Qlt_le_weak, Qinv_lt_0_compat; exact Hd. }
    assert (H : 0 <= (y0 - y1) * ((z' - z0) / (z1 - z0) - (z - z0) / (z1 - z0))) by (apply Qmult_le_0_compat; lra).
    setoid_replace (y0 + (y1 - y0) * ((z' - z0) / (z1 - z0)))
      with (y0 + (y1 - y0) * ((z - z0) / (z1 - z0)) - (y0 - y1) * ((z' - z0) / (z1 - z0) - (z - z0) / (z1 - z0))) by ring.
    lra.
  - apply Qle_bool_iff in E.
    assert (Hz1 : z1 <= z'). { destruct (Qlt_le_dec z1 z') as [H|H]; [lra|]. apply Qle_bool_iff in H. congruence. }
    pose proof (interp_from_le_first rest z1 y1 z' Hok Hz1) as H1.
    pose proof (seg_ge_right y0 y1 ((z - z0) / (z1 - z0)) Hy (proj2 (lam_bounds z0 z1 z H01 Hz E))) as H2. lra.
  - apply Qle_bool_iff in E'.
    assert (Hz1 : z1 <= z). { destruct (Qlt_le_dec z1 z) as [H|H]; [lra|]. apply Qle_bool_iff in H. congruence. }
    (* impossible: z <= z' <= z1 contradicts the failed test z <= z1 *)
    assert (Hc : z <= z1) by lra. apply Qle_bool_iff in Hc. congruence.
  - assert (Hz1 : z1 <= z). { destruct (Qlt_le_dec z1 z) as [H|H]; [lra|]. apply Qle_bool_iff in H. congruence. }
    apply IH; assumption.
Qed.

(* non-negative node values: the interpolant is non-negative *)
Lemma interp_from_nonneg rest : forall z0 y0 z,
  nodes_ok (fun _ _ => True) z0 y0 rest -> 0 <= y0 -> Forall (fun zy => 0 <= snd zy) rest -> z0 <= z ->
  0 <= interp_from z0 y0 rest z.
Proof.
  induction rest as [|[z1 y1] rest IH]; intros z0 y0 z Hok H0 Hall Hz; cbn [interp_from]; [exact H0|].
  destruct Hok as (H01 & _ & Hok). inversion Hall as [|? ? H1 Hall']; subst. cbn [snd] in H1.
  destruct (Qle_bool z z1) eqn:E.
  - apply Qle_bool_iff in E. destruct (lam_bounds z0 z1 z H01 Hz E) as [La Lb].
    rewrite seg_value.
    assert (0 <= (1 - (z - z0) / (z1 - z0)) * y0) by (apply Qmult_le_0_compat; lra).
    assert (0 <= (z - z0) / (z1 - z0) * y1) by (apply Qmult_le_0_compat; lra). lra.
  - assert (Hz1 : z1 <= z). { destruct (Qlt_le_dec z1 z) as [H|H]; [lra|]. apply Qle_bool_iff in H. congruence. }
    apply IH; assumption.
Qed.

(* constant node values: the interpolant is that constant *)
Lemma interp_from_const k rest : forall z0 y0 z,
  nodes_ok (fun _ _ => True) z0 y0 rest -> y0 == k -> Forall (fun zy => snd zy == k) rest ->
  interp_from z0 y0 rest z == k.
Proof.
  induction rest as [|[z1 y1] rest IH]; intros z0 y0 z Hok H0 Hall; cbn [interp_from]; [exact H0|].
  destruct Hok as (H01 & _ & Hok). inversion Hall as [|? ? H1 Hall']; subst. cbn [snd] in H1.
  destruct (Qle_bool z z1) eqn:E.
  - rewrite H0, H1. ring.
  - apply IH; assumption.
Qed.

Lemma nodes_ok_weaken (P P' : Q -> Q -> Prop) : (forall a b, P a b -> P' a b) ->
  forall rest z0 y0, nodes_ok P z0 y0 rest -> nodes_ok P' z0 y0 rest.
Proof.
  intros HP rest; induction rest as [|[z1 y1] rest IH]; intros z0 y0 H; cbn [nodes_ok] in *; [exact I|].
  destruct H as (A & B & C). repeat split; [exact A | apply HP; exact B | apply IH; exact C].
Qed.

(* lin_interp of a whole node list *)
Definition nodes_list_ok (P : Q -> Q -> Prop) (nodes : list (Q * Q)) : Prop :=
  match nodes with [] => True | (z0, y0) :: t => nodes_ok P z0 y0 t end.

Lemma lin_interp_monotone nodes z z' :
  nodes_list_ok Qger nodes -> z <= z' -> lin_interp nodes z' <= lin_interp nodes z.
Proof.
  destruct nodes as [|[z0 y0] rest]; intros Hok Hzz; cbn [lin_interp nodes_list_ok] in *; [lra|].
  destruct (Qle_bool z z0) eqn:E; destruct (Qle_bool z' z0) eqn:E'.
  - lra.
  - assert (Hz0 : z0 <= z'). { destruct (Qlt_le_dec z0 z') as [H|H]; [lra|]. apply Qle_bool_iff in H. congruence. }
    apply interp_from_le_first; assumption.
  - apply Qle_bool_iff in E'.
    assert (Hz0 : z0 <= z). { destruct (Qlt_le_dec z0 z) as [H|H]; [lra|]. apply Qle_bool_iff in H. congruence. }
    (* z0 <= z <= z' <= z0 *)
    assert (Hz : z <= z0) by lra. apply Qle_bool_iff in Hz. congruence.
  - assert (Hz0 : z0 <= z). { destruct (Qlt_le_dec z0 z) as [H|H]; [lra|]. apply Qle_bool_iff in H. congruence. }
    apply interp_from_monotone; assumption.
Qed.

Lemma lin_interp_nonneg nodes z :
  nodes_list_ok (fun _ _ => True) nodes -> Forall (fun zy => 0 <= snd zy) nodes -> 0 <= lin_interp nodes z.
Proof.
  destruct nodes as [|[z0 y0] rest]; intros Hok Hall; cbn [lin_interp nodes_list_ok] in *; [lra|].
  inversion Hall as [|? ? H0 Hall']; subst. cbn [snd] in H0.
  destruct (Qle_bool z z0) eqn:E; [exact H0|].
  assert (Hz0 : z0 <= z). { destruct (Qlt_le_dec z0 z) as [H|H]; [lra|]. apply Qle_bool_iff in H. congruence. }
  apply interp_from_nonneg; assumption.
Qed.

Lemma lin_interp_const k nodes z :
  nodes <> [] -> nodes_list_ok (fun _ _ => True) nodes -> Forall (fun zy => snd zy == k) nodes ->
  lin_interp nodes z == k.
Proof.
  destruct nodes as [|[z0 y0] rest]; intros Hne Hok Hall; [congruence|]. cbn [lin_interp nodes_list_ok] in *.
  inversion Hall as [|? ? H0 Hall']; subst. cbn [snd] in H0.
  destruct (Qle_bool z z0); [exact H0 | apply interp_from_const; assumption].
Qed.

(* pairing strictly increasing abscissae with chained ordinates *)
Lemma nodes_ok_combine (P : Q -> Q -> Prop) zs : forall ys z0 y0,
  chain Qlt z0 zs -> chain P y0 ys -> nodes_ok P z0 y0 (combine zs ys).
Proof.
  induction zs as [|z1 zs IH]; intros ys z0 y0 Hz Hy; cbn [combine nodes_ok]; [exact I|].
  destruct ys as [|y1 ys]; cbn [nodes_ok]; [exact I|].
  cbn [chain] in Hz, Hy. destruct Hz as [Hz1 Hz]. destruct Hy as [Hy1 Hy].
  repeat split; [exact Hz1 | exact Hy1 | apply IH; assumption].
Qed.

Lemma nodes_list_ok_combine (P : Q -> Q -> Prop) zs ys :
  chained Qlt zs -> chained P ys -> nodes_list_ok P (combine zs ys).
Proof.
  destruct zs as [|z0 zs]; [intros; exact I|]. destruct ys as [|y0 ys]; [intros; exact I|].
  cbn [chained combine nodes_list_ok]. apply nodes_ok_combine.
Qed.

Lemma chain_True x l : chain (fun _ _ => True) x l.
Proof. revert x; induction l as [|y l IH]; intros x; cbn [chain]; [exact I | split; [exact I | apply IH]]. Qed.
Lemma chained_True l : chained (fun _ _ => True) l.
Proof. destruct l; cbn [chained]; [exact I | apply chain_True]. Qed.

Lemma Forall_combine_snd (P : Q -> Prop) zs ys :
  Forall P ys -> Forall (fun zy : Q * Q => P (snd zy)) (combine zs ys).
Proof.
  revert ys; induction zs as [|z zs IH]; intros ys H; cbn [combine]; [constructor|].
  destruct ys as [|y ys]; [constructor|]. inversion H; subst. constructor; [assumption | apply IH; assumption].
Qed.
