(* C08 -- file-level round trips: a whole ADF21/ADF22 file and the data of an ADF15 block, as laid out by the
   writer models, are parsed back to exactly the numbers their tokens denote.  Text -> number enters as the
   hypotheses [parse_int tok = Some n] / [parse_float tok = Some v] on the printed tokens (Proofs/C08_Numbers.v
   discharges them for the token shapes the writers print). *)
Require Import Cherab.Common.Qx.
Require Import Cherab.Model.C08_Text Cherab.Model.C08_Adf.
Require Import Cherab.Proofs.C08_Records Cherab.Proofs.C08_Tables.
From Coq Require Import Ascii String Arith.
Open Scope nat_scope.

(* ---- header fields at fixed columns ------------------------------------------------------------------- *)
Lemma slice_mid (pre x post : str) :
  slice (List.length pre) (List.length pre + List.length x) (pre ++ x ++ post) = x.
Proof.
  unfold slice. pose proof (skipn_app_exact pre (x ++ post) 0) as H. rewrite Nat.add_0_r in H. rewrite H. cbn [skipn].
  replace (List.length pre + List.length x - List.length pre) with (List.length x) by lia.
  apply firstn_app_exact.
Qed.

Lemma int_c_mid c pre x post v :
  fst c = List.length pre -> snd c = List.length pre + List.length x -> parse_int x = Some v ->
  int_c c (pre ++ x ++ post) = Ok v.
Proof. intros H1 H2 Hp. unfold int_c, int_at. rewrite H1, H2, slice_mid, Hp. reflexivity. Qed.

Lemma float_c_mid c pre x post v :
  fst c = List.length pre -> snd c = List.length pre + List.length x -> parse_float x = Some v ->
  float_c c (pre ++ x ++ post) = Ok v.
Proof. intros H1 H2 Hp. unfold float_c, float_at. rewrite H1, H2, slice_mid, Hp. reflexivity. Qed.

(* ---- records of numbers ----------------------------------------------------------------------------------- *)
Definition floats_of (fields : list str) : option (list Q) := mapM parse_float (map repl fields).

Lemma read_floats_rt p fields vs rest :
  1 <= p -> Forall len9 fields -> floats_of fields = Some vs ->
  read_floats (List.length fields) p (write_values p fields ++ rest) = Ok (vs, rest).
Proof.
  intros Hp Hall Hv. unfold read_floats. rewrite write_values_roundtrip by assumption.
  unfold floats_of in Hv. rewrite Hv. reflexivity.
Qed.

Definition column_ok (neb : nat) (col : list str) : Prop := List.length col = neb /\ Forall len9 col.

Lemma read_columns_rt : forall sv neb svv rest,
  Forall (column_ok neb) sv -> mapM floats_of sv = Some svv ->
  read_columns (List.length sv) neb (flat_map (write_values adas2x_per_line) sv ++ rest) = Ok (svv, rest).
Proof.
  induction sv as [|col sv IH]; intros neb svv rest Hok Hv.
  - cbn in Hv. inversion Hv. reflexivity.
  - inversion Hok as [|c l Hc Hl]; subst. destruct Hc as [Hlen H9].
    cbn [mapM] in Hv. destruct (floats_of col) as [cv|] eqn:Ec; [|discriminate].
    destruct (mapM floats_of sv) as [rv|] eqn:Er; [|discriminate]. inversion Hv; subst svv.
    cbn [List.length read_columns flat_map]. rewrite <- app_assoc. rewrite <- Hlen.
    rewrite (read_floats_rt adas2x_per_line col cv) by (assumption || (unfold adas2x_per_line; lia)).
    cbn [bind fst snd]. rewrite Hlen. rewrite (IH neb rv rest Hl eq_refl). reflexivity.
Qed.

(* ---- a whole ADF21 / ADF22 file ------------------------------------------------------------------------------ *)
Section Adas2x.
  (* header texts: ZT (2 characters), the 9-character scalars, the 4-digit counts; free text after the last field
     of a header line, any separator lines d1 .. d6, any first column of the count lines *)
  Variables (zt svref neb4 ndt4 tref ntt4 eref dref t1 t3 t5 d1 d2 d3 d4 d5 d6 : str) (a0 a5 b0 : ascii).
  Variables (eb dt tt svt : list str) (sv : list (list str)) (rest : list str).

  Definition line1 : str := S_ "ZT=" ++ zt ++ (S_ "  SVREF=" ++ svref ++ t1).
  Definition line3 : str := [a0] ++ neb4 ++ ([a5] ++ ndt4 ++ (S_ " /TREF=" ++ tref ++ t3)).
  Definition line5 : str := [b0] ++ ntt4 ++ (S_ " /EREF=" ++ eref ++ (S_ " /NREF=" ++ dref ++ t5)).
  Definition write_adas2x : list str :=
    line1 :: d1 :: line3 :: d2 ::
    write_values adas2x_per_line eb ++ write_values adas2x_per_line dt ++
    d3 :: flat_map (write_values adas2x_per_line) sv ++
    d4 :: line5 :: d5 :: write_values adas2x_per_line tt ++ d6 :: write_values adas2x_per_line svt ++ rest.

  Variables (zt_v : Z) (svref_v tref_v eref_v dref_v : Q) (eb_v dt_v tt_v svt_v : list Q) (sv_v : list (list Q)).
  Hypothesis Hzt : List.length zt = 2.
  Hypothesis Hsvref : List.length svref = 9.
  Hypothesis Hneb4 : List.length neb4 = 4.
  Hypothesis Hndt4 : List.length ndt4 = 4.
  Hypothesis Htref : List.length tref = 9.
  Hypothesis Hntt4 : List.length ntt4 = 4.
  Hypothesis Heref : List.length eref = 9.
  Hypothesis Hdref : List.length dref = 9.
  Hypothesis Heb9 : Forall len9 eb.
  Hypothesis Hdt9 : Forall len9 dt.
  Hypothesis Htt9 : Forall len9 tt.
  Hypothesis Hsvt9 : Forall len9 svt.
  Hypothesis Hsv : Forall (column_ok (List.length eb)) sv.
  Hypothesis Hsvlen : List.length sv = List.length dt.
  Hypothesis Hsvtlen : List.length svt = List.length tt.
  (* text -> number *)
  Hypothesis Pzt : parse_int zt = Some zt_v.
  Hypothesis Pneb : parse_int neb4 = Some (Z.of_nat (List.length eb)).
  Hypothesis Pndt : parse_int ndt4 = Some (Z.of_nat (List.length dt)).
  Hypothesis Pntt : parse_int ntt4 = Some (Z.of_nat (List.length tt)).
  Hypothesis Psvref : parse_float svref = Some svref_v.
  Hypothesis Ptref : parse_float tref = Some tref_v.
  Hypothesis Peref : parse_float eref = Some eref_v.
  Hypothesis Pdref : parse_float dref = Some dref_v.
  Hypothesis Peb : floats_of eb = Some eb_v.
  Hypothesis Pdt : floats_of dt = Some dt_v.
  Hypothesis Ptt : floats_of tt = Some tt_v.
  Hypothesis Psvt : floats_of svt = Some svt_v.
  Hypothesis Psv : mapM floats_of sv = Some sv_v.

  Lemma mapM_length {A B} (f : A -> option B) : forall l r, mapM f l = Some r -> List.length r = List.length l.
  Proof.
    induction l as [|a l IH]; intros r H; cbn [mapM] in H; [inversion H; reflexivity|].
    destruct (f a); [|discriminate]. destruct (mapM f l) eqn:E; [|discriminate]. inversion H. cbn. f_equal. apply IH. reflexivity.
  Qed.

  Theorem adas2x_file_roundtrip : forall norm,
    parse_adas2x norm write_adas2x =
    Ok [ {| e_keys := [];
            e_shape := [zlen eb; zlen dt; zlen tt];
            e_vals := [ eb_v; scale per_cm3 dt_v; tt_v;
                        scale norm (columns_to_rows (List.length eb) sv_v); scale norm svt_v;
                        [eref_v; Qred (per_cm3 * dref_v)%Q; tref_v; Qred (norm * svref_v)%Q] ] |} ].
  Proof.
    intro norm. unfold parse_adas2x, write_adas2x. cbn [readline].
    unfold line1. rewrite (int_c_mid (c2x 0) (S_ "ZT=") zt _ zt_v) by (try rewrite Hzt; try reflexivity; assumption).
    cbn [bind].
    rewrite (app_assoc (S_ "ZT=") zt), (app_assoc (S_ "ZT=" ++ zt) (S_ "  SVREF=")).
    rewrite (float_c_mid (c2x 1) ((S_ "ZT=" ++ zt) ++ S_ "  SVREF=") svref t1 svref_v)
      by (rewrite ?app_length, ?Hzt, ?Hsvref; try reflexivity; assumption).
    cbn [bind]. unfold line3.
    rewrite (int_c_mid (c2x 2) [a0] neb4 _ _ ) by (try rewrite Hneb4; try reflexivity; eassumption).
    cbn [bind].
    rewrite (app_assoc [a0] neb4), (app_assoc ([a0] ++ neb4) [a5]).
    rewrite (int_c_mid (c2x 3) (([a0] ++ neb4) ++ [a5]) ndt4 _ _)
      by (rewrite ?app_length, ?Hneb4, ?Hndt4; try reflexivity; eassumption).
    cbn [bind].
    rewrite (app_assoc (([a0] ++ neb4) ++ [a5]) ndt4), (app_assoc ((([a0] ++ neb4) ++ [a5]) ++ ndt4) (S_ " /TREF=")).
    rewrite (float_c_mid (c2x 4) (((([a0] ++ neb4) ++ [a5]) ++ ndt4) ++ S_ " /TREF=") tref t3 tref_v)
      by (rewrite ?app_length, ?Hneb4, ?Hndt4, ?Htref; try reflexivity; assumption).
    cbn [bind]. unfold nat_of. rewrite !Nat2Z.id.
    rewrite (read_floats_rt adas2x_per_line eb eb_v) by (assumption || (unfold adas2x_per_line; lia)).
    cbn [bind fst snd].
    rewrite (read_floats_rt adas2x_per_line dt dt_v) by (assumption || (unfold adas2x_per_line; lia)).
    cbn [bind fst snd readline].
    rewrite <- Hsvlen. rewrite (read_columns_rt sv (List.length eb) sv_v) by assumption.
    cbn [bind fst snd readline]. unfold line5.
    rewrite (int_c_mid (c2x 5) [b0] ntt4 _ _) by (try rewrite Hntt4; try reflexivity; eassumption).
    cbn [bind].
    rewrite (app_assoc [b0] ntt4), (app_assoc ([b0] ++ ntt4) (S_ " /EREF=")).
    rewrite (float_c_mid (c2x 6) (([b0] ++ ntt4) ++ S_ " /EREF=") eref _ eref_v)
      by (rewrite ?app_length, ?Hntt4, ?Heref; try reflexivity; assumption).
    cbn [bind].
    rewrite (app_assoc (([b0] ++ ntt4) ++ S_ " /EREF=") eref), (app_assoc ((([b0] ++ ntt4) ++ S_ " /EREF=") ++ eref) (S_ " /NREF=")).
    rewrite (float_c_mid (c2x 7) (((([b0] ++ ntt4) ++ S_ " /EREF=") ++ eref) ++ S_ " /NREF=") dref t5 dref_v)
      by (rewrite ?app_length, ?Hntt4, ?Heref, ?Hdref; try reflexivity; assumption).
    cbn [bind]. rewrite !Nat2Z.id.
    rewrite (read_floats_rt adas2x_per_line tt tt_v) by (assumption || (unfold adas2x_per_line; lia)).
    cbn [bind fst snd readline].
    rewrite <- Hsvtlen.
    rewrite (read_floats_rt adas2x_per_line svt svt_v) by (assumption || (unfold adas2x_per_line; lia)).
    cbn [bind fst snd].
    unfold zlen.
    rewrite (mapM_length _ _ _ Peb), (mapM_length _ _ _ Pdt), (mapM_length _ _ _ Ptt), !map_length.
    reflexivity.
  Qed.
End Adas2x.

(* ---- ADF15: the three token streams of a block ------------------------------------------------------------------ *)
(* a record: padded tokens and the newline; its values *)
Definition tok_line (r : list (str * str)) : str := padded r ++ [nl].
Definition rec_ok (rv : list (str * str) * list Q) : Prop :=
  tokens_ok (fst rv) /\ fst rv <> [] /\ mapM parse_float (map snd (fst rv)) = Some (snd rv).

Lemma mapM_len {A B} (f : A -> option B) : forall l r, mapM f l = Some r -> List.length r = List.length l.
Proof.
  induction l as [|a l IH]; intros r H; cbn [mapM] in H; [inversion H; reflexivity|].
  destruct (f a); [|discriminate]. destruct (mapM f l) eqn:E; [|discriminate]. inversion H. cbn. f_equal. apply IH. reflexivity.
Qed.

Lemma take_vals_stream : forall recs rest n cnt acc,
  Forall rec_ok recs -> cnt + List.length (List.concat (map snd recs)) = n ->
  take_vals (map (fun rv => tok_line (fst rv)) recs ++ rest) n cnt acc = Ok (acc ++ List.concat (map snd recs), rest).
Proof.
  induction recs as [|[r vs] recs IH]; intros rest n cnt acc Hok Hn.
  - cbn [map List.concat List.length app] in *. rewrite Nat.add_0_r in Hn. subst.
    destruct rest; cbn [take_vals]; rewrite Nat.eqb_refl, app_nil_r; reflexivity.
  - inversion Hok as [|x l Hx Hl]; subst x l. destruct Hx as (Htok & Hne & Hv). cbn [fst snd] in *.
    assert (Hlen : List.length vs = List.length r) by (rewrite (mapM_len _ _ _ Hv); apply map_length).
    assert (Hpos : 0 < List.length vs) by (rewrite Hlen; destruct r; [congruence | cbn; lia]).
    cbn [map List.concat app fst snd] in *. rewrite app_length in Hn.
    cbn [take_vals].
    replace (Nat.eqb cnt n) with false by (symmetry; apply Nat.eqb_neq; lia).
    unfold tok_line at 1. rewrite (tokens_roundtrip r [nl] Htok eq_refl). rewrite Hv. cbn [of_opt bind].
    rewrite IH by (assumption || lia). rewrite <- app_assoc. reflexivity.
Qed.

(* a block whose header carries the requested ISEL and the counts (nn, nt), followed by the density, temperature and
   coefficient records: the tables are the file's numbers with the unit factors, whatever follows *)
Theorem adf15_block_roundtrip : forall rx bn h g dens temps rates rest more,
  re_match true (r15_block rx) h = Some g ->
  parse_int (get_cap 4 g) = Some bn ->
  parse_int (get_cap 1 g) = Some (Z.of_nat (List.length (List.concat (map snd dens)))) ->
  parse_int (get_cap 2 g) = Some (Z.of_nat (List.length (List.concat (map snd temps)))) ->
  Forall rec_ok dens -> Forall rec_ok temps -> Forall rec_ok rates ->
  List.length (List.concat (map snd rates)) =
    List.length (List.concat (map snd dens)) * List.length (List.concat (map snd temps)) ->
  extract_rate rx ((h :: map (fun rv => tok_line (fst rv)) dens ++ map (fun rv => tok_line (fst rv)) temps
                       ++ map (fun rv => tok_line (fst rv)) rates ++ rest) :: more) bn
  = Ok ([Z.of_nat (List.length (List.concat (map snd dens))); Z.of_nat (List.length (List.concat (map snd temps)))],
        [scale per_cm3 (List.concat (map snd dens)); List.concat (map snd temps); scale cm3 (List.concat (map snd rates))]).
Proof.
  intros rx bn h g dens temps rates rest more Hm Hisel Hnn Hnt Hd Ht Hr Hlen.
  cbn [extract_rate]. rewrite Hm. unfold grp_int. rewrite Hisel. cbn [of_opt bind]. rewrite Z.eqb_refl.
  rewrite Hnn, Hnt. cbn [of_opt bind]. unfold nat_of. rewrite !Nat2Z.id.
  rewrite (take_vals_stream dens) by (assumption || lia). cbn [bind fst snd app].
  rewrite (take_vals_stream temps) by (assumption || lia). cbn [bind fst snd app].
  rewrite <- Nat2Z.inj_mul, Nat2Z.id.
  rewrite (take_vals_stream rates rest) by (assumption || lia). cbn [bind fst snd app].
  reflexivity.
Qed.

(* ---- ADF12: a block and a whole file ------------------------------------------------------------------------------- *)
Definition ints_of (fields : list str) : option (list Z) := mapM parse_int (map repl fields).

Lemma read_ints_rt p fields vs rest :
  1 <= p -> Forall len9 fields -> ints_of fields = Some vs ->
  read_ints (List.length fields) p (write_values p fields ++ rest) = Ok (vs, rest).
Proof.
  intros Hp Hall Hv. unfold read_ints. rewrite write_values_roundtrip by assumption.
  unfold ints_of in Hv. rewrite Hv. reflexivity.
Qed.

Definition section_ok (sec : list str) (sp : nat * nat) : Prop := List.length sec = fst sp /\ Forall len9 sec.
Fixpoint truncated (secvs : list (list Q)) (spec : list (nat * nat)) (counts : list Z) : list (list Q) :=
  match secvs, spec with
  | v :: vs, sp :: sps => take (nth (snd sp) counts 0%Z) v :: truncated vs sps counts
  | _, _ => []
  end.

Lemma read_sections_rt : forall secs spec secvs counts rest,
  Forall2 section_ok secs spec -> mapM floats_of secs = Some secvs ->
  read_sections spec counts (flat_map (write_values adf12_per_line) secs ++ rest) = Ok (truncated secvs spec counts, rest).
Proof.
  induction secs as [|sec secs IH]; intros spec secvs counts rest H2 Hv.
  - inversion H2; subst. cbn in Hv. inversion Hv. reflexivity.
  - inversion H2 as [|a b l l' Hab Hl]; subst. destruct b as [n ci]. destruct Hab as [Hlen H9]. cbn [fst] in Hlen.
    cbn [mapM] in Hv. destruct (floats_of sec) as [cv|] eqn:Ec; [|discriminate].
    destruct (mapM floats_of secs) as [rv|] eqn:Er; [|discriminate]. inversion Hv; subst secvs.
    cbn [read_sections flat_map]. rewrite <- app_assoc. rewrite <- Hlen.
    rewrite (read_floats_rt adf12_per_line sec cv) by (assumption || (unfold adf12_per_line; lia)).
    cbn [bind fst snd]. rewrite (IH l' rv counts rest Hl eq_refl). reflexivity.
Qed.

Section Adf12Block.
  (* header line: 38 characters of free text, the upper level (2), one character, the lower level (2), free text *)
  Variables (pre up2 lo2 tailh : str) (c40 : ascii).
  Variables (qef : str) (parm cnts : list str) (s0 s1 s2 s3 s4 s5 s6 s7 s8 s9 : list str) (rest : list str).
  Definition adf12_header : str := pre ++ up2 ++ ([c40] ++ lo2 ++ tailh).
  Definition write_adf12_block : list str :=
    adf12_header :: write_values adf12_per_line [qef] ++ write_values adf12_per_line parm ++ write_values adf12_per_line cnts
    ++ flat_map (write_values adf12_per_line) [s0; s1; s2; s3; s4; s5; s6; s7; s8; s9] ++ rest.

  Variables (up lo : Z) (qef_v p0 p1 p2 p3 p4 : Q) (n0 n1 n2 n3 n4 : Z) (v0 v1 v2 v3 v4 v5 v6 v7 v8 v9 : list Q).
  Hypothesis Hpre : List.length pre = 38.
  Hypothesis Hup2 : List.length up2 = 2.
  Hypothesis Hlo2 : List.length lo2 = 2.
  Hypothesis Hqef9 : len9 qef.
  Hypothesis Hparm : List.length parm = 5 /\ Forall len9 parm.
  Hypothesis Hcnts : List.length cnts = 5 /\ Forall len9 cnts.
  Hypothesis Hsecs : Forall2 section_ok [s0; s1; s2; s3; s4; s5; s6; s7; s8; s9] adf12_sections.
  Hypothesis Pup : parse_int up2 = Some up.
  Hypothesis Plo : parse_int lo2 = Some lo.
  Hypothesis Pqef : floats_of [qef] = Some [qef_v].
  Hypothesis Pparm : floats_of parm = Some [p0; p1; p2; p3; p4].
  Hypothesis Pcnts : ints_of cnts = Some [n0; n1; n2; n3; n4].
  Hypothesis Psecs : mapM floats_of [s0; s1; s2; s3; s4; s5; s6; s7; s8; s9] = Some [v0; v1; v2; v3; v4; v5; v6; v7; v8; v9].

  Theorem adf12_block_roundtrip :
    adf12_block write_adf12_block =
    Ok ({| e_keys := [KZ up; KZ lo];
           e_shape := [zlen (take n0 v0); zlen (take n1 v2); zlen (take n2 v4); zlen (take n3 v6); zlen (take n4 v8)];
           e_vals := [ take n0 v0; take n1 v2; scale per_cm3 (take n2 v4); take n3 v6; take n4 v8;
                       scale cm3 (take n0 v1); scale cm3 (take n1 v3); scale cm3 (take n2 v5); scale cm3 (take n3 v7);
                       scale cm3 (take n4 v9);
                       [p0; p1; Qred (per_cm3 * p2)%Q; p3; p4; Qred (cm3 * qef_v)%Q] ] |}, rest).
  Proof.
    unfold adf12_block, write_adf12_block. cbn [readline]. unfold adf12_header.
    rewrite (int_c_mid (c12 1) pre up2 _ up) by (rewrite ?Hpre, ?Hup2; try reflexivity; assumption).
    cbn [bind].
    rewrite (app_assoc pre up2), (app_assoc (pre ++ up2) [c40]).
    rewrite (int_c_mid (c12 2) ((pre ++ up2) ++ [c40]) lo2 tailh lo)
      by (rewrite ?app_length, ?Hpre, ?Hup2, ?Hlo2; try reflexivity; assumption).
    cbn [bind]. destruct Hparm as [Hp5 Hp9]. destruct Hcnts as [Hc5 Hc9].
    change (nth 0 adf12_head_reads 0) with (List.length [qef]).
    rewrite (read_floats_rt adf12_per_line [qef] [qef_v]) by (try (unfold adf12_per_line; lia); try assumption; repeat constructor; assumption).
    cbn [bind fst snd]. change (nth 1 adf12_head_reads 0) with 5. rewrite <- Hp5.
    rewrite (read_floats_rt adf12_per_line parm [p0; p1; p2; p3; p4]) by (assumption || (unfold adf12_per_line; lia)).
    cbn [bind fst snd]. change (nth 2 adf12_head_reads 0) with 5. rewrite <- Hc5.
    rewrite (read_ints_rt adf12_per_line cnts [n0; n1; n2; n3; n4]) by (assumption || (unfold adf12_per_line; lia)).
    cbn [bind fst snd].
    rewrite (read_sections_rt _ _ _ _ rest Hsecs Psecs).
    cbn [bind fst snd truncated adf12_sections nth]. reflexivity.
  Qed.
End Adf12Block.

(* a piece of text that adf12_block reads as the entry e, whatever follows (adf12_block_roundtrip: the writer's blocks) *)
Definition is_adf12_block (be : (list str -> list str) * entry) : Prop :=
  forall rest, adf12_block (fst be rest) = Ok (snd be, rest).

Lemma adf12_blocks_rt : forall blocks rest acc, Forall is_adf12_block blocks ->
  adf12_blocks (List.length blocks) (fold_right (fun be r => fst be r) rest blocks) acc
  = Ok (fold_left (fun a be => tbl_set (snd be) a) blocks acc).
Proof.
  induction blocks as [|be blocks IH]; intros rest acc H; [reflexivity|].
  inversion H as [|x l Hx Hl]; subst. cbn [List.length adf12_blocks fold_right fold_left].
  rewrite (Hx _). cbn [bind fst snd]. apply IH. exact Hl.
Qed.

(* FILE LEVEL, ADF12: the I5 block count, then any number of blocks (also more than 99), then anything *)
Theorem adf12_file_roundtrip : forall c5 tail blocks rest,
  List.length c5 = 5 -> parse_int c5 = Some (Z.of_nat (List.length blocks)) -> Forall is_adf12_block blocks ->
  parse_adf12 ((c5 ++ tail) :: fold_right (fun be r => fst be r) rest blocks)
  = Ok (fold_left (fun a be => tbl_set (snd be) a) blocks []).
Proof.
  intros c5 tail blocks rest H5 Hp Hb. unfold parse_adf12. cbn [readline].
  change (c5 ++ tail) with ([] ++ c5 ++ tail).
  rewrite (int_c_mid (c12 0) [] c5 tail _) by (rewrite ?H5; try reflexivity; eassumption).
  cbn [bind]. unfold nat_of. rewrite Nat2Z.id. apply adf12_blocks_rt. exact Hb.
Qed.

(* ---- ADF11: the block loop and the whole file ------------------------------------------------------------------------
   The recognition of lines by the regular expressions enters as hypotheses on the lines (which expression matches which
   line); everything else -- the state machine of lines 81-123, the token streams, reshape + swapaxes, the keyed table, the
   header check -- is proved. *)
Section Adf11.
  Variable rx : rx11.
  Variables (n_t n_d : Z) (dens temps : list Q).
  Definition sep l := re_matches false (r11_sep rx) l.

  (* one charge-state block of the file: its header line, the charge the header carries, its data lines *)
  Record block11 := { b_hdr : str; b_z : Z; b_data : list str }.
  Definition block11_ok (b : block11) : Prop :=
    sep (b_hdr b) = true /\ re_matches false (r11_end_c rx) (b_hdr b) = false /\
    (exists zs, re_search false (r11_z1 rx) (b_hdr b) = Some zs /\ parse_int (sub_z1 zs) = Some (b_z b)) /\
    (exists d0 ds, b_data b = d0 :: ds /\ re_matches false (r11_c_line rx) d0 = false) /\
    Forall (fun d => sep d = false) (b_data b) /\
    zlen (fromstring (b_data b)) = (n_t * n_d)%Z.
  Definition block11_entry (b : block11) : entry :=
    {| e_keys := [KZ (b_z b)]; e_shape := [n_d; n_t];
       e_vals := [dens; temps; swap_flat (nat_of n_t) (nat_of n_d) (fromstring (b_data b))] |}.
  Definition block11_text (b : block11) : list str := b_hdr b :: b_data b.
  Definition blocks11_text (bs : list block11) : list str := flat_map block11_text bs.

  (* the terminator: a separator line that is the 'C---' line, or a dash line followed by a 'C' line *)
  Definition terminator_ok (t : str) (after : list str) : Prop :=
    sep t = true /\
    (re_matches false (r11_end_c rx) t = true \/
     (re_matches false (r11_end_dash rx) t = true /\ exists n more, after = n :: more /\ re_matches false (r11_c_line rx) n = true)).

  Lemma loop_data : forall ds rest acc z R, Forall (fun d => sep d = false) ds ->
    adf11_loop rx n_t n_d (Some dens) (Some temps) (ds ++ rest) {| s_start := Some acc; s_charge := z; s_rates := R |}
    = adf11_loop rx n_t n_d (Some dens) (Some temps) rest {| s_start := Some (rev ds ++ acc); s_charge := z; s_rates := R |}.
  Proof.
    induction ds as [|d ds IH]; intros rest acc z R H; [reflexivity|].
    inversion H as [|x l Hd Hl]; subst. cbn [app adf11_loop]. unfold sep in Hd. rewrite Hd. cbn [s_start s_charge s_rates].
    rewrite IH by exact Hl. cbn [rev]. rewrite <- app_assoc. reflexivity.
  Qed.

  Lemma store_pending : forall b R, zlen (fromstring (b_data b)) = (n_t * n_d)%Z ->
    store_block n_t n_d (Some dens) (Some temps) {| s_start := Some (rev (b_data b)); s_charge := b_z b; s_rates := R |} (rev (b_data b))
    = Ok (tbl_set (block11_entry b) R).
  Proof.
    intros b R H. unfold store_block. rewrite rev_involutive, H, Z.eqb_refl. reflexivity.
  Qed.

  Lemma loop_blocks : forall bs p R t after, Forall block11_ok bs -> terminator_ok t after ->
    zlen (fromstring (b_data p)) = (n_t * n_d)%Z ->
    adf11_loop rx n_t n_d (Some dens) (Some temps) (blocks11_text bs ++ t :: after)
               {| s_start := Some (rev (b_data p)); s_charge := b_z p; s_rates := R |}
    = Ok (fold_left (fun a b => tbl_set (block11_entry b) a) bs (tbl_set (block11_entry p) R)).
  Proof.
    induction bs as [|b bs IH]; intros p R t after Hbs Ht Hp.
    - destruct Ht as (Hsep & Hend). cbn [blocks11_text flat_map app adf11_loop]. unfold sep in Hsep. rewrite Hsep.
      cbn [s_start]. rewrite store_pending by exact Hp. cbn [bind].
      destruct Hend as [Hc | (Hd & n & more & -> & Hn)].
      + rewrite Hc. cbn [bind fst snd]. reflexivity.
      + destruct (re_matches false (r11_end_c rx) t); [reflexivity|]. rewrite Hd, Hn. reflexivity.
    - inversion Hbs as [|x l Hb Hl]; subst.
      destruct Hb as (Hsep & Hnc & (zs & Hz & Hpz) & (d0 & ds & Hdata & Hd0) & Hnos & Hlen).
      cbn [blocks11_text flat_map]. unfold block11_text at 1. cbn [app adf11_loop]. unfold sep in Hsep. rewrite Hsep.
      cbn [s_start]. rewrite store_pending by exact Hp. cbn [bind]. rewrite Hnc.
      assert (Hcont : (if re_matches false (r11_end_dash rx) (b_hdr b)
                       then match (b_data b ++ flat_map block11_text bs) ++ t :: after with
                            | [] => Err EIndex
                            | nxt :: _ => Ok (tbl_set (block11_entry p) R, re_matches false (r11_c_line rx) nxt)
                            end
                       else Ok (tbl_set (block11_entry p) R, false)) = Ok (tbl_set (block11_entry p) R, false)).
      { destruct (re_matches false (r11_end_dash rx) (b_hdr b)); [|reflexivity]. rewrite Hdata. cbn [app]. rewrite Hd0. reflexivity. }
      rewrite Hcont. cbn [bind fst snd]. rewrite Hz, Hpz. cbn [of_opt bind].
      rewrite <- app_assoc. rewrite loop_data by exact Hnos. rewrite app_nil_r.
      fold (blocks11_text bs). rewrite (IH b _ t after Hl Ht Hlen). reflexivity.
  Qed.

  (* the loop from its initial state: any number of blocks, in any order of charges, then the terminator *)
  Theorem adf11_blocks_roundtrip : forall bs t after, Forall block11_ok bs -> bs <> [] -> terminator_ok t after ->
    adf11_loop rx n_t n_d (Some dens) (Some temps) (blocks11_text bs ++ t :: after)
               {| s_start := None; s_charge := 0; s_rates := [] |}
    = Ok (fold_left (fun a b => tbl_set (block11_entry b) a) bs []).
  Proof.
    intros [|b bs] t after Hbs Hne Ht; [congruence|].
    inversion Hbs as [|x l Hb Hl]; subst.
    destruct Hb as (Hsep & Hnc & (zs & Hz & Hpz) & _ & Hnos & Hlen).
    cbn [blocks11_text flat_map]. unfold block11_text at 1. cbn [app adf11_loop]. unfold sep in Hsep. rewrite Hsep.
    cbn [s_start s_rates bind fst snd]. rewrite Hz, Hpz. cbn [of_opt bind].
    rewrite <- app_assoc. rewrite loop_data by exact Hnos. rewrite app_nil_r.
    fold (blocks11_text bs). rewrite (loop_blocks bs b [] t after Hl Ht Hlen). reflexivity.
  Qed.
End Adf11.

(* FILE LEVEL, ADF11 (resolved or unresolved): first line, the lines the resolved test skips, the grid, the blocks, the
   terminator, anything after it *)
Theorem adf11_file_roundtrip :
  forall rx z name ls l0 t0 t1 t2 t3 t4 t5 t6 more zmin zmax n_d n_t l3 grid bs t after dens temps,
  nth_error ls 0 = Some l0 ->
  split_2ws (strip l0) = t0 :: t1 :: t2 :: t3 :: t4 :: t5 :: t6 :: more ->
  parse_int t0 = Some z -> parse_int t1 = Some n_d -> parse_int t2 = Some n_t ->
  parse_int t3 = Some zmin -> parse_int t4 = Some zmax ->
  lower_str (strip_char "/"%char t5) = name ->
  nth_error ls 3 = Some l3 ->
  skipn (if re_matches false (r11_resolved rx) l3 then 2 else 4) ls = grid ++ blocks11_text bs ++ t :: after ->
  Forall (fun g => re_matches false (r11_first_sep rx) g = false) grid ->
  (exists b bs', bs = b :: bs' /\ re_matches false (r11_first_sep rx) (b_hdr b) = true) ->
  fromstring grid = dens ++ temps -> List.length dens = nat_of n_d ->
  Forall (block11_ok rx n_t n_d) bs -> terminator_ok rx t after ->
  parse_adf11 rx z name ls = Ok (fold_left (fun a b => tbl_set (block11_entry n_t n_d dens temps b) a) bs []).
Proof.
  intros rx z name ls l0 t0 t1 t2 t3 t4 t5 t6 more zmin zmax n_d n_t l3 grid bs t after dens temps
         H0 Hs P0 P1 P2 P3 P4 Hname H3 Hskip Hgrid (b & bs' & Hbs & Hfirst) Htok Hdl Hok Hterm.
  unfold parse_adf11, nth_res. rewrite H0, H3. cbn [of_opt bind]. rewrite Hs.
  cbn [nth_error of_opt bind]. rewrite P0, P1, P2, P3, P4. cbn [of_opt bind].
  rewrite Hname, Z.eqb_refl. replace (streqb name name) with true by (symmetry; apply streqb_eq; reflexivity).
  cbn [andb negb bind]. rewrite Hskip.
  assert (Hfind : find_first_sep rx [] (grid ++ blocks11_text bs ++ t :: after) = Some (grid, blocks11_text bs ++ t :: after)).
  { assert (G : forall g acc rest, Forall (fun g => re_matches false (r11_first_sep rx) g = false) g ->
                match rest with [] => False | h :: _ => re_matches false (r11_first_sep rx) h = true end ->
                find_first_sep rx acc (g ++ rest) = Some (rev acc ++ g, rest)).
    { induction g as [|x g IH]; intros acc rest Hg Hr.
      - destruct rest as [|h rest]; [destruct Hr|]. cbn [app find_first_sep]. rewrite Hr, app_nil_r. reflexivity.
      - inversion Hg; subst. cbn [app find_first_sep]. rewrite H2. rewrite IH by assumption. cbn [rev]. rewrite <- app_assoc. reflexivity. }
    rewrite G; [reflexivity | exact Hgrid |]. subst bs. cbn. exact Hfirst. }
  rewrite Hfind. rewrite Htok.
  rewrite <- Hdl. rewrite firstn_app_exact.
  pose proof (skipn_app_exact dens temps 0) as Hsk. rewrite Nat.add_0_r in Hsk. rewrite Hsk. cbn [skipn].
  apply adf11_blocks_roundtrip; [exact Hok | subst bs; discriminate | exact Hterm].
Qed.
