(* C08 -- file-level round trips: a whole ADF21/ADF22 file and the data of an ADF15 block, as laid out by the
   writer models, are parsed back to exactly the numbers their tokens denote.  Text -> number enters as the
   hypotheses [parse_int tok = Some n] / [parse_float tok = Some v] on the printed tokens (Proofs/C08_Numbers.v
   discharges them for the token shapes the writers print). *)
Require Import Cherab.Common.Qx.
Require Import Cherab.Model.C08_Text Cherab.Model.C08_Adf.
Require Import Cherab.Proofs.C08_Records Cherab.Proofs.C08_Tables.
From Coq Require Import Ascii String Arith.
Open Scope nat_scope.

(* ---- header fields at fixed columns ------------------------------------------------------------------- *)
Lemma slice_mid (pre x post : str) :
  slice (List.length pre) (List.length pre + List.length x) (pre ++ x ++ post) = x.
Proof.
  unfold slice. pose proof (skipn_app_exact pre (x ++ post) 0) as H. rewrite Nat.add_0_r in H. rewrite H. cbn [skipn].
  replace (List.length pre + List.length x - List.length pre) with (List.length x) by lia.
  apply firstn_app_exact.
Qed.

Lemma int_c_mid c pre x post v :
  fst c = List.length pre -> snd c = List.length pre + List.length x -> parse_int x = Some v ->
  int_c c (pre ++ x ++ post) = Ok v.
Proof. intros H1 H2 Hp. unfold int_c, int_at. rewrite H1, H2, slice_mid, Hp. reflexivity. Qed.

Lemma float_c_mid c pre x post v :
  fst c = List.length pre -> snd c = List.length pre + List.length x -> parse_float x = Some v ->
  float_c c (pre ++ x ++ post) = Ok v.
Proof. intros H1 H2 Hp. unfold float_c, float_at. rewrite H1, H2, slice_mid, Hp. reflexivity. Qed.

(* ---- records of numbers ----------------------------------------------------------------------------------- *)
Definition floats_of (fields : list str) : option (list Q) := mapM parse_float (map repl fields).

Lemma read_floats_rt p fields vs rest :
  1 <= p -> Forall len9 fields -> floats_of fields = Some vs ->
  read_floats (List.length fields) p (write_values p fields ++ rest) = Ok (vs, rest).
Proof.
  intros Hp Hall Hv. unfold read_floats. rewrite write_values_roundtrip by assumption.
  unfold floats_of in Hv. rewrite Hv. reflexivity.
Qed.

Definition column_ok (neb : nat) (col : list str) : Prop := List.length col = neb /\ Forall len9 col.

Lemma read_columns_rt : forall sv neb svv rest,
  Forall (column_ok neb) sv -> mapM floats_of sv = Some svv ->
  read_columns (List.length sv) neb (flat_map (write_values adas2x_per_line) sv ++ rest) = Ok (svv, rest).
Proof.
  induction sv as [|col sv IH]; intros neb svv rest Hok Hv.
  - cbn in Hv. inversion Hv. reflexivity.
  - inversion Hok as [|c l Hc Hl]; subst. destruct Hc as [Hlen H9].
    cbn [mapM] in Hv. destruct (floats_of col) as [cv|] eqn:Ec; [|discriminate].
    destruct (mapM floats_of sv) as [rv|] eqn:Er; [|discriminate]. inversion Hv; subst svv.
    cbn [List.length read_columns flat_map]. rewrite <- app_assoc. rewrite <- Hlen.
    rewrite (read_floats_rt adas2x_per_line col cv) by (assumption || (unfold adas2x_per_line; lia)).
    cbn [bind fst snd]. rewrite Hlen. rewrite (IH neb rv rest Hl eq_refl). reflexivity.
Qed.

(* ---- a whole ADF21 / ADF22 file ------------------------------------------------------------------------------ *)
Section Adas2x.
  (* header texts: ZT (2 characters), the 9-character scalars, the 4-digit counts; free text after the last field
     of a header line, any separator lines d1 .. d6, any first column of the count lines *)
  Variables (zt svref neb4 ndt4 tref ntt4 eref dref t1 t3 t5 d1 d2 d3 d4 d5 d6 : str) (a0 a5 b0 : ascii).
  Variables (eb dt tt svt : list str) (sv : list (list str)) (rest : list str).

  Definition line1 : str := S_ "ZT=" ++ zt ++ (S_ "  SVREF=" ++ svref ++ t1).
  Definition line3 : str := [a0] ++ neb4 ++ ([a5] ++ ndt4 ++ (S_ " /TREF=" ++ tref ++ t3)).
  Definition line5 : str := [b0] ++ ntt4 ++ (S_ " /EREF=" ++ eref ++ (S_ " /NREF=" ++ dref ++ t5)).
  Definition write_adas2x : list str :=
    line1 :: d1 :: line3 :: d2 ::
    write_values adas2x_per_line eb ++ write_values adas2x_per_line dt ++
    d3 :: flat_map (write_values adas2x_per_line) sv ++
    d4 :: line5 :: d5 :: write_values adas2x_per_line tt ++ d6 :: write_values adas2x_per_line svt ++ rest.

  Variables (zt_v : Z) (svref_v tref_v eref_v dref_v : Q) (eb_v dt_v tt_v svt_v : list Q) (sv_v : list (list Q)).
  Hypothesis Hzt : List.length zt = 2.
  Hypothesis Hsvref : List.length svref = 9.
  Hypothesis Hneb4 : List.length neb4 = 4.
  Hypothesis Hndt4 : List.length ndt4 = 4.
  Hypothesis Htref : List.length tref = 9.
  Hypothesis Hntt4 : List.length ntt4 = 4.
  Hypothesis Heref : List.length eref = 9.
  Hypothesis Hdref : List.length dref = 9.
  Hypothesis Heb9 : Forall len9 eb.
  Hypothesis Hdt9 : Forall len9 dt.
  Hypothesis Htt9 : Forall len9 tt.
  Hypothesis Hsvt9 : Forall len9 svt.
  Hypothesis Hsv : Forall (column_ok (List.length eb)) sv.
  Hypothesis Hsvlen : List.length sv = List.length dt.
  Hypothesis Hsvtlen : List.length svt = List.length tt.
  (* text -> number *)
  Hypothesis Pzt : parse_int zt = Some zt_v.
  Hypothesis Pneb : parse_int neb4 = Some (Z.of_nat (List.length eb)).
  Hypothesis Pndt : parse_int ndt4 = Some (Z.of_nat (List.length dt)).
  Hypothesis Pntt : parse_int ntt4 = Some (Z.of_nat (List.length tt)).
  Hypothesis Psvref : parse_float svref = Some svref_v.
  Hypothesis Ptref : parse_float tref = Some tref_v.
  Hypothesis Peref : parse_float eref = Some eref_v.
  Hypothesis Pdref : parse_float dref = Some dref_v.
  Hypothesis Peb : floats_of eb = Some eb_v.
  Hypothesis Pdt : floats_of dt = Some dt_v.
  Hypothesis Ptt : floats_of tt = Some tt_v.
  Hypothesis Psvt : floats_of svt = Some svt_v.
  Hypothesis Psv : mapM floats_of sv = Some sv_v.

  Lemma mapM_length {A B} (f : A -> option B) : forall l r, mapM f l = Some r -> List.length r = List.length l.
  Proof.
    induction l as [|a l IH]; intros r H; cbn [mapM] in H; [inversion H; reflexivity|].
    destruct (f a); [|discriminate]. destruct (mapM f l) eqn:E; [|discriminate]. inversion H. cbn. f_equal. apply IH. reflexivity.
  Qed.

  Theorem adas2x_file_roundtrip : forall norm,
    parse_adas2x norm write_adas2x =
    Ok [ {| e_keys := [];
            e_shape := [zlen eb; zlen dt; zlen tt];
            e_vals := [ eb_v; scale per_cm3 dt_v; tt_v;
                        scale norm (columns_to_rows (List.length eb) sv_v); scale norm svt_v;
                        [eref_v; Qred (per_cm3 * dref_v)%Q; tref_v; Qred (norm * svref_v)%Q] ] |} ].
  Proof.
    intro norm. unfold parse_adas2x, write_adas2x. cbn [readline].
    unfold line1. rewrite (int_c_mid (c2x 0) (S_ "ZT=") zt _ zt_v) by (try rewrite Hzt; try reflexivity; assumption).
    cbn [bind].
    rewrite (app_assoc (S_ "ZT=") zt), (app_assoc (S_ "ZT=" ++ zt) (S_ "  SVREF=")).
    rewrite (float_c_mid (c2x 1) ((S_ "ZT=" ++ zt) ++ S_ "  SVREF=") svref t1 svref_v)
      by (rewrite ?app_length, ?Hzt, ?Hsvref; try reflexivity; assumption).
    cbn [bind]. unfold line3.
    rewrite (int_c_mid (c2x 2) [a0] neb4 _ _ ) by (try rewrite Hneb4; try reflexivity; eassumption).
    cbn [bind].
    rewrite (app_assoc [a0] neb4), (app_assoc ([a0] ++ neb4) [a5]).
    rewrite (int_c_mid (c2x 3) (([a0] ++ neb4) ++ [a5]) ndt4 _ _)
      by (rewrite ?app_length, ?Hneb4, ?Hndt4; try reflexivity; eassumption).
    cbn [bind].
    rewrite (app_assoc (([a0] ++ neb4) ++ [a5]) ndt4), (app_assoc ((([a0] ++ neb4) ++ [a5]) ++ ndt4) (S_ " /TREF=")).
    rewrite (float_c_mid (c2x 4) (((([a0] ++ neb4) ++ [a5]) ++ ndt4) ++ S_ " /TREF=") tref t3 tref_v)
      by (rewrite ?app_length, ?Hneb4, ?Hndt4, ?Htref; try reflexivity; assumption).
    cbn [bind]. unfold nat_of. rewrite !Nat2Z.id.
    rewrite (read_floats_rt adas2x_per_line eb eb_v) by (assumption || (unfold adas2x_per_line; lia)).
    cbn [bind fst snd].
    rewrite (read_floats_rt adas2x_per_line dt dt_v) by (assumption || (unfold adas2x_per_line; lia)).
    cbn [bind fst snd readline].
    rewrite <- Hsvlen. rewrite (read_columns_rt sv (List.length eb) sv_v) by assumption.
    cbn [bind fst snd readline]. unfold line5.
    rewrite (int_c_mid (c2x 5) [b0] ntt4 _ _) by (try rewrite Hntt4; try reflexivity; eassumption).
    cbn [bind].
    rewrite (app_assoc [b0] ntt4), (app_assoc ([b0] ++ ntt4) (S_ " /EREF=")).
    rewrite (float_c_mid (c2x 6) (([b0] ++ ntt4) ++ S_ " /EREF=") eref _ eref_v)
      by (rewrite ?app_length, ?Hntt4, ?Heref; try reflexivity; assumption).
    cbn [bind].
    rewrite (app_assoc (([b0] ++ ntt4) ++ S_ " /EREF=") eref), (app_assoc ((([b0] ++ ntt4) ++ S_ " /EREF=") ++ eref) (S_ " /NREF=")).
    rewrite (float_c_mid (c2x 7) (((([b0] ++ ntt4) ++ S_ " /EREF=") ++ eref) ++ S_ " /NREF=") dref t5 dref_v)
      by (rewrite ?app_length, ?Hntt4, ?Heref, ?Hdref; try reflexivity; assumption).
    cbn [bind]. rewrite !Nat2Z.id.
    rewrite (read_floats_rt adas2x_per_line tt tt_v) by (assumption || (unfold adas2x_per_line; lia)).
    cbn [bind fst snd readline].
    rewrite <- Hsvtlen.
    rewrite (read_floats_rt adas2x_per_line svt svt_v) by (assumption || (unfold adas2x_per_line; lia)).
    cbn [bind fst snd].
    unfold zlen.
    rewrite (mapM_length _ _ _ Peb), (mapM_length _ _ _ Pdt), (mapM_length _ _ _ Ptt), !map_length.
    reflexivity.
  Qed.
End Adas2x.

(* ---- ADF15: the three token streams of a block ------------------------------------------------------------------ *)
(* a record: padded tokens and the newline; its values *)
Definition tok_line (r : list (str * str)) : str := padded r ++ [nl].
Definition rec_ok (rv : list (str * str) * list Q) : Prop :=
  tokens_ok (fst rv) /\ fst rv <> [] /\ mapM parse_float (map snd (fst rv)) = Some (snd rv).

Lemma mapM_len {A B} (f : A -> option B) : forall l r, mapM f l = Some r -> List.length r = List.length l.
Proof.
  induction l as [|a l IH]; intros r H; cbn [mapM] in H; [inversion H; reflexivity|].
  destruct (f a); [|discriminate]. destruct (mapM f l) eqn:E; [|discriminate]. inversion H. cbn. f_equal. apply IH. reflexivity.
Qed.

Lemma take_vals_stream : forall recs rest n cnt acc,
  Forall rec_ok recs -> cnt + List.length (List.concat (map snd recs)) = n ->
  take_vals (map (fun rv => tok_line (fst rv)) recs ++ rest) n cnt acc = Ok (acc ++ List.concat (map snd recs), rest).
Proof.
  induction recs as [|[r vs] recs IH]; intros rest n cnt acc Hok Hn.
  - cbn [map List.concat List.length app] in *. rewrite Nat.add_0_r in Hn. subst.
    destruct rest; cbn [take_vals]; rewrite Nat.eqb_refl, app_nil_r; reflexivity.
  - inversion Hok as [|x l Hx Hl]; subst x l. destruct Hx as (Htok & Hne & Hv). cbn [fst snd] in *.
    assert (Hlen : List.length vs = List.length r) by (rewrite (mapM_len _ _ _ Hv); apply map_length).
    assert (Hpos : 0 < List.length vs) by (rewrite Hlen; destruct r; [congruence | cbn; lia]).
    cbn [map List.concat app fst snd] in *. rewrite app_length in Hn.
    cbn [take_vals].
    replace (Nat.eqb cnt n) with false by (symmetry; apply Nat.eqb_neq; lia).
    unfold tok_line at 1. rewrite (tokens_roundtrip r [nl] Htok eq_refl). rewrite Hv. cbn [of_opt bind].
    rewrite IH by (assumption || lia). rewrite <- app_assoc. reflexivity.
Qed.

(* a block whose header carries the requested ISEL and the counts (nn, nt), followed by the density, temperature and
   coefficient records: the tables are the file's numbers with the unit factors, whatever follows *)
Theorem adf15_block_roundtrip : forall rx bn h g dens temps rates rest more,
  re_match true (r15_block rx) h = Some g ->
  parse_int (get_cap 4 g) = Some bn ->
  parse_int (get_cap 1 g) = Some (Z.of_nat (List.length (List.concat (map snd dens)))) ->
  parse_int (get_cap 2 g) = Some (Z.of_nat (List.length (List.concat (map snd temps)))) ->
  Forall rec_ok dens -> Forall rec_ok temps -> Forall rec_ok rates ->
  List.length (List.concat (map snd rates)) =
    List.length (List.concat (map snd dens)) * List.length (List.concat (map snd temps)) ->
  extract_rate rx ((h :: map (fun rv => tok_line (fst rv)) dens ++ map (fun rv => tok_line (fst rv)) temps
                       ++ map (fun rv => tok_line (fst rv)) rates ++ rest) :: more) bn
  = Ok ([Z.of_nat (List.length (List.concat (map snd dens))); Z.of_nat (List.length (List.concat (map snd temps)))],
        [scale per_cm3 (List.concat (map snd dens)); List.concat (map snd temps); scale cm3 (List.concat (map snd rates))]).
Proof.
  intros rx bn h g dens temps rates rest more Hm Hisel Hnn Hnt Hd Ht Hr Hlen.
  cbn [extract_rate]. rewrite Hm. unfold grp_int. rewrite Hisel. cbn [of_opt bind]. rewrite Z.eqb_refl.
  rewrite Hnn, Hnt. cbn [of_opt bind]. unfold nat_of. rewrite !Nat2Z.id.
  rewrite (take_vals_stream dens) by (assumption || lia). cbn [bind fst snd app].
  rewrite (take_vals_stream temps) by (assumption || lia). cbn [bind fst snd app].
  rewrite <- Nat2Z.inj_mul, Nat2Z.id.
  rewrite (take_vals_stream rates rest) by (assumption || lia). cbn [bind fst snd app].
  reflexivity.
Qed.
