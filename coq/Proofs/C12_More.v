(* Further clauses of C12 about the model: prescribed speeds of exactly zero, the unit-speed maps are the
   basis vectors, the blends are selections (lerp / slerp never reached), components under an approximate
   square root. *)
Require Import Cherab.Common.Qx.
Require Import Cherab.Model.C12_Equilibrium.
Require Import Cherab.Proofs.C12_Equilibrium.
From Coq Require Import Qabs Lqa.
Open Scope Q_scope.

Section Zero.
  Variable E : env.
  Variables vt vp vn : Q -> Q.
  Variables r z : Q.
  Let b := b_field E r z.
  Let p := psi_n E r z.
  Let sp := e_sqrt E (pol_arg b).
  Let sn := e_sqrt E (nor_arg b).

  (* where a prescribed speed is exactly zero its part of the vector vanishes, whatever sqrt returns *)
  Lemma zero_speed_parts v :
    inplane_zero b = false -> flux_to_cart E vt vp vn r z = Some v ->
    vy v = vt p /\
    (vp p == 0 -> veq v (V (vx (vscale_r (nor_raw b) (vn p / sn))) (vt p) (vz (vscale_r (nor_raw b) (vn p / sn))))) /\
    (vn p == 0 -> veq v (V (vx (vscale_r (pol_raw b) (vp p / sp))) (vt p) (vz (vscale_r (pol_raw b) (vp p / sp))))) /\
    (vp p == 0 -> vn p == 0 -> veq v (V 0 (vt p) 0)).
  Proof.
    intros H Hv. rewrite (flux_to_cart_defined E vt vp vn r z H) in Hv. apply Some_inj in Hv. subst v.
    fold b p sp sn. unfold veq, vscale_r, pol_raw, nor_raw; cbn [vx vy vz].
    split; [reflexivity|]. split; [|split].
    - intros Z. rewrite Z. unfold Qdiv. repeat split; ring.
    - intros Z. rewrite Z. unfold Qdiv. repeat split; ring.
    - intros Z1 Z2. rewrite Z1, Z2. unfold Qdiv. repeat split; ring.
  Qed.
End Zero.

(* unit speeds reproduce the basis vectors: map_vector2d(1,0,0) = toroidal, (0,1,0) = poloidal, (0,0,1) = normal *)
Lemma unit_toroidal E r z v :
  flux_to_cart E (fun _ => 1) (fun _ => 0) (fun _ => 0) r z = Some v -> veq v (toroidal_vector r z).
Proof.
  intros Hv. destruct (inplane_zero (b_field E r z)) eqn:H.
  - rewrite (flux_to_cart_zero_field E _ _ _ r z H) in Hv. apply Some_inj in Hv. subst v.
    unfold veq, toroidal_vector; cbn [vx vy vz]. repeat split; ring.
  - rewrite (flux_to_cart_defined E _ _ _ r z H) in Hv. apply Some_inj in Hv. subst v.
    unfold veq, toroidal_vector, vscale_r, pol_raw, nor_raw, Qdiv; cbn [vx vy vz]. repeat split; ring.
Qed.

Lemma unit_poloidal E r z v ph :
  flux_to_cart E (fun _ => 0) (fun _ => 1) (fun _ => 0) r z = Some v -> poloidal_vector E r z = Some ph -> veq v ph.
Proof.
  intros Hv Hp. destruct (inplane_zero (b_field E r z)) eqn:H.
  - rewrite (flux_to_cart_zero_field E _ _ _ r z H) in Hv. apply Some_inj in Hv. subst v.
    destruct (basis_zero_field E r z H) as [P _]. rewrite P in Hp. apply Some_inj in Hp. subst ph.
    unfold veq, vzero; cbn [vx vy vz]. repeat split; ring.
  - rewrite (flux_to_cart_defined E _ _ _ r z H) in Hv. apply Some_inj in Hv. subst v.
    destruct (basis_defined E r z H) as [P _]. rewrite P in Hp. apply Some_inj in Hp. subst ph.
    unfold veq, vscale_r, pol_raw, nor_raw, Qdiv; cbn [vx vy vz]. repeat split; ring.
Qed.

Lemma unit_normal E r z v nh :
  flux_to_cart E (fun _ => 0) (fun _ => 0) (fun _ => 1) r z = Some v -> surface_normal E r z = Some nh -> veq v nh.
Proof.
  intros Hv Hn. destruct (inplane_zero (b_field E r z)) eqn:H.
  - rewrite (flux_to_cart_zero_field E _ _ _ r z H) in Hv. apply Some_inj in Hv. subst v.
    destruct (basis_zero_field E r z H) as [_ N]. rewrite N in Hn. apply Some_inj in Hn. subst nh.
    unfold veq, vzero; cbn [vx vy vz]. repeat split; ring.
  - rewrite (flux_to_cart_defined E _ _ _ r z H) in Hv. apply Some_inj in Hv. subst v.
    destruct (basis_defined E r z H) as [_ N]. rewrite N in Hn. apply Some_inj in Hn. subst nh.
    unfold veq, vscale_r, pol_raw, nor_raw, Qdiv; cbn [vx vy vz]. repeat split; ring.
Qed.

(* the blends only ever select: the LCFS mask is 0 or 1, so the lerp of the scalar blend and the slerp of
   the vector blend are unreachable; the mapped vector does not depend on the slerp function at all *)
Definition with_slerp (E : env) (s : vec -> vec -> Q -> vec) : env :=
  {| e_psi_axis := e_psi_axis E; e_psi_lcfs := e_psi_lcfs E; e_psi := e_psi E; e_poly := e_poly E;
     e_dpsidr := e_dpsidr E; e_dpsidz := e_dpsidz E; e_fprof := e_fprof E; e_bvac_r := e_bvac_r E;
     e_bvac_m := e_bvac_m E; e_sqrt := e_sqrt E; e_cs := e_cs E; e_slerp := s |}.

Lemma slerp_never_reached E s vt vp vn outside :
  (forall r z, map_vector2d (with_slerp E s) vt vp vn outside r z = map_vector2d E vt vp vn outside r z) /\
  (forall x y z, map_vector3d (with_slerp E s) vt vp vn outside x y z = map_vector3d E vt vp vn outside x y z).
Proof.
  assert (A : forall r z, map_vector2d (with_slerp E s) vt vp vn outside r z = map_vector2d E vt vp vn outside r z).
  { intros r z. unfold map_vector2d.
    change (inside_lcfs (with_slerp E s) r z) with (inside_lcfs E r z).
    change (flux_to_cart (with_slerp E s) vt vp vn r z) with (flux_to_cart E vt vp vn r z).
    unfold inside_lcfs. destruct (inside_b E r z); reflexivity. }
  split; [exact A|]. intros x y z. unfold map_vector3d.
  change (e_sqrt (with_slerp E s)) with (e_sqrt E). change (e_cs (with_slerp E s)) with (e_cs E).
  rewrite A. reflexivity.
Qed.

Lemma scalar_blend_is_selection E profile outside r z :
  map2d E profile outside r z = (if inside_b E r z then profile (psi_n E r z) else outside).
Proof. unfold map2d, inside_lcfs. destruct (inside_b E r z); reflexivity. Qed.

(* components under a square root of relative accuracy e in the square: |v.p - vp| s^2 <= e a |vp| *)
Lemma components_approx E vt vp vn r z e v ph nh :
  let b := b_field E r z in let p := psi_n E r z in
  let sp := e_sqrt E (pol_arg b) in let sn := e_sqrt E (nor_arg b) in
  inplane_zero b = false -> ~ sp == 0 -> ~ sn == 0 ->
  Qabs (pol_arg b - sp * sp) <= e * pol_arg b -> Qabs (nor_arg b - sn * sn) <= e * nor_arg b ->
  flux_to_cart E vt vp vn r z = Some v -> poloidal_vector E r z = Some ph -> surface_normal E r z = Some nh ->
  Qabs (dot v ph - vp p) * (sp * sp) <= e * pol_arg b * Qabs (vp p) /\
  Qabs (dot v nh - vn p) * (sn * sn) <= e * nor_arg b * Qabs (vn p).
Proof.
  intros b p sp sn H Zp Zn Ap An Hv Hp Hn.
  destruct (vector_components_general E vt vp vn r z v ph nh H Zp Zn Hv Hp Hn) as (_ & B & C).
  fold b p sp in B. fold b p sn in C.
  assert (G : forall d w s a, d * (s * s) == w * a -> Qabs (a - s * s) <= e * a ->
                              Qabs (d - w) * (s * s) <= e * a * Qabs w).
  { intros d w s a Heq Hap.
    assert (P : 0 <= s * s) by (destruct (Qlt_le_dec s 0); nra).
    assert (X : (d - w) * (s * s) == w * (a - s * s)).
    { setoid_replace ((d - w) * (s * s)) with (d * (s * s) - w * (s * s)) by ring. rewrite Heq. ring. }
    assert (Y : Qabs (d - w) * (s * s) == Qabs (a - s * s) * Qabs w).
    { rewrite <- (Qabs_pos (s * s) P) at 1. rewrite <- Qabs_Qmult, X, Qabs_Qmult. ring. }
    rewrite Y. apply Qmult_le_compat_r; [exact Hap | apply Qabs_nonneg]. }
  split; [apply G; assumption | apply G; assumption].
Qed.
