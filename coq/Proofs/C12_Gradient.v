(* np.gradient(edge_order=2) / gradient of the axis is exact on quadratics (uniform axis, any n >= 3,
   every node including both ends). *)
Require Import Cherab.Common.Qx.
Require Import Cherab.Model.C12_Gradient.
From Coq Require Import Lqa.
Open Scope Q_scope.

Lemma nth_map_seq {A} (f : nat -> A) n i d : (i < n)%nat -> nth i (map f (seq 0 n)) d = f i.
Proof.
  intros H. rewrite (nth_indep _ d (f 0%nat)) by (rewrite map_length, seq_length; exact H).
  rewrite map_nth. rewrite seq_nth by exact H. reflexivity.
Qed.

Lemma injZ_add i k : inject_Z (Z.of_nat (i + k)) == inject_Z (Z.of_nat i) + inject_Z (Z.of_nat k).
Proof. rewrite Nat2Z.inj_add, inject_Z_plus. reflexivity. Qed.

Lemma injZ_sub i k : (k <= i)%nat -> inject_Z (Z.of_nat (i - k)) == inject_Z (Z.of_nat i) - inject_Z (Z.of_nat k).
Proof.
  intros H. rewrite Nat2Z.inj_sub by exact H. unfold Z.sub. rewrite inject_Z_plus, inject_Z_opp. reflexivity.
Qed.

Section Quadratic.
  Variables (x0 h a b c : Q) (n : nat).
  Hypothesis Hn : (3 <= n)%nat.
  Hypothesis Hh : ~ h == 0.
  Let g (i : nat) : Q := x0 + inject_Z (Z.of_nat i) * h.
  Let q (x : Q) : Q := a + b * x + c * x * x.
  Let ax := axis_uniform x0 h n.
  Let col := map q ax.

  Lemma len_ax : length ax = n.
  Proof. unfold ax, axis_uniform. rewrite map_length, seq_length. reflexivity. Qed.
  Lemma len_col : length col = n.
  Proof. unfold col. rewrite map_length. apply len_ax. Qed.

  Lemma nth_ax j : (j < n)%nat -> nthq ax j = g j.
  Proof. intros H. unfold nthq, ax, axis_uniform. apply (nth_map_seq _ n j 0 H). Qed.

  Lemma nth_col j : (j < n)%nat -> nthq col j = q (g j).
  Proof.
    intros H. unfold nthq, col, ax, axis_uniform. rewrite map_map.
    apply (nth_map_seq (fun i => q (x0 + inject_Z (Z.of_nat i) * h)) n j 0 H).
  Qed.

  Lemma grad_ax i : (i < n)%nat -> grad_at ax i == h.
  Proof.
    intros Hi. unfold grad_at. rewrite len_ax.
    destruct (Nat.eqb i 0) eqn:E0; [|destruct (Nat.eqb i (n - 1)) eqn:E1].
    - rewrite !nth_ax by lia. unfold g. cbn [Z.of_nat Pos.of_succ_nat Pos.succ inject_Z]. field.
    - apply Nat.eqb_eq in E1. apply Nat.eqb_neq in E0.
      rewrite !nth_ax by lia. unfold g.
      replace (n - 1)%nat with i by lia. replace (n - 2)%nat with (i - 1)%nat by lia.
      replace (n - 3)%nat with (i - 2)%nat by lia.
      rewrite (injZ_sub i 1), (injZ_sub i 2) by lia. cbn [Z.of_nat Pos.of_succ_nat Pos.succ inject_Z]. field.
    - apply Nat.eqb_neq in E1. apply Nat.eqb_neq in E0.
      rewrite !nth_ax by lia. unfold g.
      rewrite (injZ_sub i 1), (injZ_add i 1) by lia. cbn [Z.of_nat Pos.of_succ_nat Pos.succ inject_Z]. field.
  Qed.

  Lemma grad_col i : (i < n)%nat -> grad_at col i == (b + 2 * c * g i) * h.
  Proof.
    intros Hi. unfold grad_at. rewrite len_col.
    destruct (Nat.eqb i 0) eqn:E0; [|destruct (Nat.eqb i (n - 1)) eqn:E1].
    - apply Nat.eqb_eq in E0. subst i.
      rewrite !nth_col by lia. unfold q, g. cbn [Z.of_nat Pos.of_succ_nat Pos.succ inject_Z]. field.
    - apply Nat.eqb_eq in E1. apply Nat.eqb_neq in E0.
      rewrite !nth_col by lia. unfold q, g.
      replace (n - 1)%nat with i by lia. replace (n - 2)%nat with (i - 1)%nat by lia.
      replace (n - 3)%nat with (i - 2)%nat by lia.
      rewrite (injZ_sub i 1), (injZ_sub i 2) by lia. cbn [Z.of_nat Pos.of_succ_nat Pos.succ inject_Z]. field.
    - apply Nat.eqb_neq in E1. apply Nat.eqb_neq in E0.
      rewrite !nth_col by lia. unfold q, g.
      rewrite (injZ_sub i 1), (injZ_add i 1) by lia. cbn [Z.of_nat Pos.of_succ_nat Pos.succ inject_Z]. field.
  Qed.

  Lemma dgrid_exact i : (i < n)%nat -> nth i (dgrid ax col) 0 == b + 2 * c * g i.
  Proof.
    intros Hi. unfold dgrid. rewrite len_col.
    rewrite (nth_map_seq (fun i => grad_at col i * (1 / grad_at ax i)) n i 0 Hi).
    rewrite (grad_col i Hi), (grad_ax i Hi). field. exact Hh.
  Qed.
End Quadratic.

Lemma dgrid_exact_on_quadratics :
  forall (n : nat) (x0 h a b c : Q), (3 <= n)%nat -> ~ h == 0 ->
  forall i, (i < n)%nat ->
  nth i (dgrid (axis_uniform x0 h n) (map (fun x => a + b * x + c * x * x) (axis_uniform x0 h n))) 0
  == b + 2 * c * (x0 + inject_Z (Z.of_nat i) * h).
Proof. intros n x0 h a b c Hn Hh i Hi. apply (dgrid_exact x0 h a b c n Hn Hh i Hi). Qed.
