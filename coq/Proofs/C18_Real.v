(* C18: the integral clauses over the REAL numbers (Coquelicot's Riemann integral RInt, Interval's certified
   quadrature).  The normal density N(m, s^2) integrates over [m - 40 s, m + 40 s] to 1 within 1e-12 for EVERY
   m and s > 0 (certified numerically for the standard normal, transported by the substitution rule); hence the
   cross-section integral of the profile formulas over the box of +-40 sigma is E/(c tau) within 2.1e-12 relative
   and the volume integral of the pulsed Gaussian is E within 3.1e-12 relative; outside the box the density is
   below e^-800 of its maximum.  The formulas biv_evalR / beam_evalR / tri_evalR are the expression trees of
   Model/C18_Laser.v (biv_eval, beam_eval, tri_eval) written over R with the real exp, sqrt and PI.
   Rests on the axioms of the standard library's real numbers (listed under Print Assumptions). *)
From Coq Require Import Reals Lra.
From Coquelicot Require Import Coquelicot.
From Interval Require Import Tactic.
Open Scope R_scope.

Definition phiR (v t : R) : R := exp (- (t * t) / (2 * v)) / sqrt (2 * PI * v).

Lemma std_normal_core : Rabs (RInt (phiR 1) (-40) 40 - 1) <= 1 / 1000000000000.
Proof. unfold phiR. integral with (i_fuel 2000, i_prec 80, i_degree 20). Qed.

Lemma phiR_continuous v : 0 < v -> forall t, continuous (phiR v) t.
Proof.
  intros Hv t. unfold phiR. apply (ex_derive_continuous (fun t => exp (- (t * t) / (2 * v)) / sqrt (2 * PI * v))).
  auto_derive. exact I.
Qed.

Lemma phiR_scale s m t : 0 < s -> / s * phiR 1 (/ s * t + - m / s) = phiR (s * s) (t - m).
Proof.
  intro Hs. unfold phiR.
  replace (2 * PI * (s * s)) with ((2 * PI * 1) * (s * s)) by ring.
  rewrite (sqrt_mult (2 * PI * 1) (s * s)); [| assert (H := PI_RGT_0); lra | nra].
  rewrite (sqrt_square s) by lra.
  replace (- ((/ s * t + - m / s) * (/ s * t + - m / s)) / (2 * 1)) with (- ((t - m) * (t - m)) / (2 * (s * s))) by (field; lra).
  field. split; [lra|]. apply Rgt_not_eq. apply sqrt_lt_R0. assert (H := PI_RGT_0). lra.
Qed.

Lemma phiR_ex_RInt v a b : 0 < v -> ex_RInt (phiR v) a b.
Proof. intro Hv. apply (ex_RInt_continuous (phiR v)). intros t _. apply phiR_continuous; exact Hv. Qed.

Lemma normal_integral_scale m s : 0 < s ->
  RInt (fun t => phiR (s * s) (t - m)) (m - 40 * s) (m + 40 * s) = RInt (phiR 1) (-40) 40.
Proof.
  intro Hs.
  transitivity (RInt (phiR 1) (/ s * (m - 40 * s) + - m / s) (/ s * (m + 40 * s) + - m / s)).
  - rewrite <- (RInt_comp_lin (phiR 1) (/ s) (- m / s) (m - 40 * s) (m + 40 * s)).
    + apply RInt_ext. intros t _. unfold scal; simpl; unfold mult; simpl. symmetry. apply phiR_scale. exact Hs.
    + apply phiR_ex_RInt. lra.
  - f_equal; field; lra.
Qed.

Theorem normal_density_integrates m s : 0 < s ->
  Rabs (RInt (fun t => phiR (s * s) (t - m)) (m - 40 * s) (m + 40 * s) - 1) <= 1 / 1000000000000.
Proof. intro Hs. rewrite normal_integral_scale by exact Hs. apply std_normal_core. Qed.

Lemma RInt_mul_l k f a b : ex_RInt f a b -> RInt (fun x => k * f x) a b = k * RInt f a b.
Proof. intro H. exact (RInt_scal f a b k H). Qed.

Ltac ringR := match goal with |- @eq _ ?a ?b => change (@eq R a b); ring end.

Definition eps12 : R := 1 / 1000000000000.

Lemma normal_centered s : 0 < s -> Rabs (RInt (phiR (s * s)) (- (40 * s)) (40 * s) - 1) <= eps12.
Proof.
  intro Hs. pose proof (normal_density_integrates 0 s Hs) as H.
  replace (0 - 40 * s) with (- (40 * s)) in H by ring. replace (0 + 40 * s) with (40 * s) in H by ring.
  erewrite RInt_ext in H; [exact H|]. intros t _. cbv beta. f_equal. ring.
Qed.

Lemma near_one_product n ia ib : Rabs (ia - 1) <= eps12 -> Rabs (ib - 1) <= eps12 ->
  Rabs (n * ia * ib - n) <= Rabs n * (21 / 10 * eps12).
Proof.
  intros Ha Hb. replace (n * ia * ib - n) with (n * ((ia - 1) + (ib - 1) + (ia - 1) * (ib - 1))) by ring.
  rewrite Rabs_mult. apply Rmult_le_compat_l; [apply Rabs_pos|].
  apply Rabs_le_between in Ha. apply Rabs_le_between in Hb. apply Rabs_le_between. unfold eps12 in *.
  split; nra.
Qed.

(* the cross-section integral of n * N(0,a^2)(x) * N(0,b^2)(y) over the box |x| <= 40 a, |y| <= 40 b *)
Theorem box_integral_2d n a b : 0 < a -> 0 < b ->
  Rabs (RInt (fun x => RInt (fun y => n * (phiR (a * a) x * phiR (b * b) y)) (- (40 * b)) (40 * b)) (- (40 * a)) (40 * a) - n)
  <= Rabs n * (21 / 10 * eps12).
Proof.
  intros Ha Hb.
  assert (Pa : 0 < a * a) by nra. assert (Pb : 0 < b * b) by nra.
  set (Ib := RInt (phiR (b * b)) (- (40 * b)) (40 * b)). set (Ia := RInt (phiR (a * a)) (- (40 * a)) (40 * a)).
  assert (E : RInt (fun x => RInt (fun y => n * (phiR (a * a) x * phiR (b * b) y)) (- (40 * b)) (40 * b)) (- (40 * a)) (40 * a)
              = n * Ia * Ib).
  { transitivity (RInt (fun x => (n * Ib) * phiR (a * a) x) (- (40 * a)) (40 * a)).
    - apply RInt_ext. intros x _.
      transitivity (RInt (fun y => (n * phiR (a * a) x) * phiR (b * b) y) (- (40 * b)) (40 * b)).
      + apply RInt_ext. intros y _. cbv beta. ringR.
      + rewrite RInt_mul_l by (apply phiR_ex_RInt; exact Pb). fold Ib. ringR.
    - rewrite RInt_mul_l by (apply phiR_ex_RInt; exact Pa). fold Ia. ringR. }
  rewrite E. apply near_one_product; apply normal_centered; assumption.
Qed.

(* ---- the formulas of math_functions.pyx transcribed over R (same expression trees as Model/C18_Laser.v) ---- *)
Definition biv_evalR (sx sy x y : R) : R :=
  (1 / (2 * PI * sx * sy)) * exp (x * x * (-1 / (2 * (sx * sx))) + y * y * (-1 / (2 * (sy * sy)))).
Definition beam_evalR (v x y : R) : R := 1 / (2 * PI * v) * exp ((x * x + y * y) / (-2 * v)).
Definition tri_evalR (m sx sy sz x y z : R) : R :=
  (1 / (sqrt ((2 * PI) * (2 * PI) * (2 * PI)) * sx * sy * sz)) *
  exp (x * x * (-1 / (2 * (sx * sx))) + y * y * (-1 / (2 * (sy * sy))) + (z - m) * (z - m) * (-1 / (2 * (sz * sz)))).

Lemma two_pi_pos : 0 < 2 * PI.
Proof. assert (H := PI_RGT_0). lra. Qed.

Lemma sqrt_2pi_sq s : 0 < s -> sqrt (2 * PI * (s * s)) = sqrt (2 * PI) * s.
Proof.
  intro Hs. pose proof two_pi_pos. rewrite (sqrt_mult (2 * PI) (s * s)) by nra. rewrite (sqrt_square s) by lra. reflexivity.
Qed.

Lemma sqrt_2pi_pos : 0 < sqrt (2 * PI).
Proof. apply sqrt_lt_R0. apply two_pi_pos. Qed.

Lemma biv_evalR_factor sx sy x y : 0 < sx -> 0 < sy -> biv_evalR sx sy x y = phiR (sx * sx) x * phiR (sy * sy) y.
Proof.
  intros Hx Hy. unfold biv_evalR, phiR. rewrite exp_plus, !sqrt_2pi_sq by assumption.
  pose proof sqrt_2pi_pos as P. pose proof (sqrt_sqrt (2 * PI) (Rlt_le _ _ two_pi_pos)) as S.
  replace (x * x * (-1 / (2 * (sx * sx)))) with (- (x * x) / (2 * (sx * sx))) by (field; lra).
  replace (y * y * (-1 / (2 * (sy * sy)))) with (- (y * y) / (2 * (sy * sy))) by (field; lra).
  replace (1 / (2 * PI * sx * sy)) with (1 / ((sqrt (2 * PI) * sqrt (2 * PI)) * sx * sy)) by (rewrite S; reflexivity).
  field. repeat split; lra.
Qed.

Lemma beam_evalR_factor v x y : 0 < v -> beam_evalR v x y = phiR v x * phiR v y.
Proof.
  intro Hv. unfold beam_evalR, phiR. pose proof two_pi_pos.
  assert (P : 0 < 2 * PI * v) by nra. pose proof (sqrt_lt_R0 _ P) as Q. pose proof (sqrt_sqrt _ (Rlt_le _ _ P)) as S.
  replace ((x * x + y * y) / (-2 * v)) with (- (x * x) / (2 * v) + - (y * y) / (2 * v)) by (field; lra).
  rewrite exp_plus. replace (1 / (2 * PI * v)) with (1 / (sqrt (2 * PI * v) * sqrt (2 * PI * v))) by (rewrite S; reflexivity).
  field. lra.
Qed.

(* ConstantBivariateGaussian: cross-section integral over |x| <= 40 sigma_x, |y| <= 40 sigma_y *)
Theorem bivariate_cross_section_real n sx sy : 0 < sx -> 0 < sy ->
  Rabs (RInt (fun x => RInt (fun y => n * biv_evalR sx sy x y) (- (40 * sy)) (40 * sy)) (- (40 * sx)) (40 * sx) - n)
  <= Rabs n * (21 / 10 * eps12).
Proof.
  intros Hx Hy. erewrite RInt_ext; [apply (box_integral_2d n sx sy Hx Hy)|].
  intros x _. cbv beta. apply RInt_ext. intros y _. cbv beta. rewrite biv_evalR_factor by assumption. reflexivity.
Qed.

(* GaussianBeamAxisymmetric at a fixed z: variance v = sigma(z)^2, box |x|, |y| <= 40 sigma(z) *)
Theorem beam_cross_section_real n v : 0 < v ->
  Rabs (RInt (fun x => RInt (fun y => n * beam_evalR v x y) (- (40 * sqrt v)) (40 * sqrt v)) (- (40 * sqrt v)) (40 * sqrt v) - n)
  <= Rabs n * (21 / 10 * eps12).
Proof.
  intro Hv. pose proof (sqrt_lt_R0 _ Hv) as Hs. pose proof (sqrt_sqrt _ (Rlt_le _ _ Hv)) as S.
  erewrite RInt_ext; [apply (box_integral_2d n (sqrt v) (sqrt v) Hs Hs)|].
  intros x _. cbv beta. apply RInt_ext. intros y _. cbv beta. rewrite beam_evalR_factor by assumption. rewrite S. reflexivity.
Qed.

(* outside the box the density is below e^-800 times its maximum *)
Theorem normal_density_tail s t : 0 < s -> 40 * s <= Rabs t -> phiR (s * s) t <= exp (-800) / sqrt (2 * PI * (s * s)).
Proof.
  intros Hs Ht. unfold phiR. apply Rmult_le_compat_r.
  - apply Rlt_le, Rinv_0_lt_compat, sqrt_lt_R0. apply Rmult_lt_0_compat; [apply two_pi_pos | nra].
  - assert (Q : 1600 * (s * s) <= t * t).
    { replace (t * t) with (Rabs t * Rabs t) by (rewrite <- Rabs_mult; apply Rabs_pos_eq; nra).
      assert (0 <= 40 * s) by lra. nra. }
    assert (P : 0 < 2 * (s * s)) by nra.
    assert (G : 800 <= t * t / (2 * (s * s))) by (destruct (Rle_div_r 800 (t * t) (2 * (s * s)) P) as [F _]; apply F; nra).
    assert (L : - (t * t) / (2 * (s * s)) <= -800).
    { replace (- (t * t) / (2 * (s * s))) with (- (t * t / (2 * (s * s)))) by (field; lra). lra. }
    destruct L as [L|L]; [left; apply exp_increasing; exact L | right; rewrite L; reflexivity].
Qed.

Lemma near_one_product3 n ia ib ic : Rabs (ia - 1) <= eps12 -> Rabs (ib - 1) <= eps12 -> Rabs (ic - 1) <= eps12 ->
  Rabs (n * ia * ib * ic - n) <= Rabs n * (31 / 10 * eps12).
Proof.
  intros Ha Hb Hc. replace (n * ia * ib * ic - n) with (n * (ia * ib * ic - 1)) by ring.
  rewrite Rabs_mult. apply Rmult_le_compat_l; [apply Rabs_pos|].
  apply Rabs_le_between in Ha. apply Rabs_le_between in Hb. apply Rabs_le_between in Hc. apply Rabs_le_between. unfold eps12 in *.
  set (da := ia - 1) in *. set (db := ib - 1) in *. set (dc := ic - 1) in *.
  replace (ia * ib * ic - 1) with (da + db + dc + da * db + da * dc + db * dc + da * db * dc) by (unfold da, db, dc; ring).
  assert (A : - (1 / 1000000000000) * (1 / 1000000000000) <= da * db <= (1 / 1000000000000) * (1 / 1000000000000)) by (split; nra).
  assert (B : - (1 / 1000000000000) * (1 / 1000000000000) <= da * dc <= (1 / 1000000000000) * (1 / 1000000000000)) by (split; nra).
  assert (C : - (1 / 1000000000000) * (1 / 1000000000000) <= db * dc <= (1 / 1000000000000) * (1 / 1000000000000)) by (split; nra).
  assert (D : - (1 / 1000000000000) * (1 / 1000000000000) <= da * db * dc <= (1 / 1000000000000) * (1 / 1000000000000)) by (split; nra).
  split; lra.
Qed.

Lemma tri_evalR_factor m sx sy sz x y z : 0 < sx -> 0 < sy -> 0 < sz ->
  tri_evalR m sx sy sz x y z = phiR (sx * sx) x * phiR (sy * sy) y * phiR (sz * sz) (z - m).
Proof.
  intros Hx Hy Hz. unfold tri_evalR, phiR. rewrite !exp_plus, !sqrt_2pi_sq by assumption.
  pose proof sqrt_2pi_pos as P. pose proof two_pi_pos as T. pose proof (sqrt_sqrt (2 * PI) (Rlt_le _ _ T)) as S.
  assert (C : sqrt (2 * PI * (2 * PI) * (2 * PI)) = sqrt (2 * PI) * sqrt (2 * PI) * sqrt (2 * PI)).
  { rewrite (sqrt_mult (2 * PI * (2 * PI)) (2 * PI)) by nra. rewrite (sqrt_square (2 * PI)) by lra. rewrite S. reflexivity. }
  rewrite C.
  replace (x * x * (-1 / (2 * (sx * sx)))) with (- (x * x) / (2 * (sx * sx))) by (field; lra).
  replace (y * y * (-1 / (2 * (sy * sy)))) with (- (y * y) / (2 * (sy * sy))) by (field; lra).
  replace ((z - m) * (z - m) * (-1 / (2 * (sz * sz)))) with (- ((z - m) * (z - m)) / (2 * (sz * sz))) by (field; lra).
  field. repeat split; lra.
Qed.

(* TrivariateGaussian: integral over the box |x| <= 40 sx, |y| <= 40 sy, |z - mean_z| <= 40 sz *)
Theorem trivariate_volume_real n m sx sy sz : 0 < sx -> 0 < sy -> 0 < sz ->
  Rabs (RInt (fun x => RInt (fun y => RInt (fun z => n * tri_evalR m sx sy sz x y z) (m - 40 * sz) (m + 40 * sz))
                         (- (40 * sy)) (40 * sy)) (- (40 * sx)) (40 * sx) - n)
  <= Rabs n * (31 / 10 * eps12).
Proof.
  intros Hx Hy Hz.
  assert (Px : 0 < sx * sx) by nra. assert (Py : 0 < sy * sy) by nra. assert (Pz : 0 < sz * sz) by nra.
  set (Ix := RInt (phiR (sx * sx)) (- (40 * sx)) (40 * sx)). set (Iy := RInt (phiR (sy * sy)) (- (40 * sy)) (40 * sy)).
  set (Iz := RInt (fun t => phiR (sz * sz) (t - m)) (m - 40 * sz) (m + 40 * sz)).
  assert (Ez : ex_RInt (fun t => phiR (sz * sz) (t - m)) (m - 40 * sz) (m + 40 * sz)).
  { apply (ex_RInt_continuous (fun t => phiR (sz * sz) (t - m))). intros t _.
    apply (continuous_comp (fun t => t - m) (phiR (sz * sz))); [|apply phiR_continuous; exact Pz].
    apply (ex_derive_continuous (fun t => t - m)). auto_derive. exact I. }
  assert (E : RInt (fun x => RInt (fun y => RInt (fun z => n * tri_evalR m sx sy sz x y z) (m - 40 * sz) (m + 40 * sz))
                         (- (40 * sy)) (40 * sy)) (- (40 * sx)) (40 * sx) = n * Ix * Iy * Iz).
  { transitivity (RInt (fun x => (n * Iy * Iz) * phiR (sx * sx) x) (- (40 * sx)) (40 * sx)).
    - apply RInt_ext. intros x _. cbv beta.
      transitivity (RInt (fun y => (n * phiR (sx * sx) x * Iz) * phiR (sy * sy) y) (- (40 * sy)) (40 * sy)).
      + apply RInt_ext. intros y _. cbv beta.
        transitivity (RInt (fun z => (n * phiR (sx * sx) x * phiR (sy * sy) y) * phiR (sz * sz) (z - m)) (m - 40 * sz) (m + 40 * sz)).
        * apply RInt_ext. intros z _. cbv beta. rewrite tri_evalR_factor by assumption. ringR.
        * rewrite (RInt_mul_l _ (fun z => phiR (sz * sz) (z - m))) by exact Ez. fold Iz. ringR.
      + rewrite RInt_mul_l by (apply phiR_ex_RInt; exact Py). fold Iy. ringR.
    - rewrite RInt_mul_l by (apply phiR_ex_RInt; exact Px). fold Ix. ringR. }
  rewrite E. apply near_one_product3; [apply normal_centered | apply normal_centered | apply normal_density_integrates]; assumption.
Qed.
