(* Second deepening round: profile-level conservation for every interpolated / mapped entry point, bilinear
   interpolation, existence + positivity on the code's matrix, and how the n_e scaling enters the objective. *)
Require Import Cherab.Common.Qx.
Require Import Cherab.Model.C09_Balance Cherab.Model.C09_Interp.
Require Import Cherab.Proofs.C09_Balance Cherab.Proofs.C09_More.
From Coq Require Import Qabs Lqa.
Open Scope Q_scope.

(* ---------------------------------------------------------------- where locate lands *)
Lemma locate_index xs x : forall j k w, locate xs x j = Some (k, w) -> (j <= k)%nat /\ (S (k - j) < length xs)%nat.
Proof.
  induction xs as [|x0 t IH]; intros j k w H; cbn [locate] in H; [discriminate|].
  destruct t as [|x1 t']; [discriminate|].
  destruct (Qle_bool x0 x && Qle_bool x x1).
  - injection H as <- _. cbn [length]. split; lia.
  - destruct (IH (S j) k w H) as [H1 H2]. cbn [length] in *. split; lia.
Qed.

(* a profile of fractions over knots: tbl z = values of charge state z over the knots.  If every knot holds a
   balance solution (in [0,1], sums to one), so does the linear interpolant at every x it is defined for. *)
Definition knot_ok (n : nat) (tbl : nat -> list Q) (k : nat) : Prop :=
  (forall z, (z < n)%nat -> 0 <= nth k (tbl z) 0 /\ nth k (tbl z) 0 <= 1) /\ sumn n (fun z => nth k (tbl z) 0) == 1.

Lemma profile_lerp_conserves n xs (tbl : nat -> list Q) x :
  increasing xs -> (forall k, (k < length xs)%nat -> knot_ok n tbl k) ->
  forall i w, locate xs x 0 = Some (i, w) ->
  (forall z, lerp xs (tbl z) x = Some (blend (fun c => nth i (tbl c) 0) (fun c => nth (S i) (tbl c) 0) w z))
  /\ (forall z, (z < n)%nat -> 0 <= blend (fun c => nth i (tbl c) 0) (fun c => nth (S i) (tbl c) 0) w z
                            /\ blend (fun c => nth i (tbl c) 0) (fun c => nth (S i) (tbl c) 0) w z <= 1)
  /\ sumn n (blend (fun c => nth i (tbl c) 0) (fun c => nth (S i) (tbl c) 0) w) == 1.
Proof.
  intros Hinc Hk i w Hl.
  destruct (locate_weight xs x Hinc _ _ _ Hl) as [W0 W1].
  destruct (locate_index xs x _ _ _ Hl) as [_ Hi]. rewrite Nat.sub_0_r in Hi.
  destruct (Hk i ltac:(lia)) as [Ba Sa]. destruct (Hk (S i) Hi) as [Bb Sb].
  split; [intros z; unfold lerp; rewrite Hl; reflexivity|].
  apply blend_fractions; auto.
Qed.

(* the same through the equilibrium map: inside the LCFS the mapped fractions are the interpolant at psi_n (so in
   [0,1], summing to one); outside every charge state has the outside value *)
Lemma mapped_profile_conserves n xs (tbl : nat -> list Q) psin inside outside sqrt x y z :
  increasing xs -> (forall k, (k < length xs)%nat -> knot_ok n tbl k) ->
  let r := sqrt (x * x + y * y) in
  (inside r z = false -> forall c, map3d (lerp xs (tbl c)) psin inside outside sqrt x y z = Some outside)
  /\ (inside r z = true -> forall i w, locate xs (psin r z) 0 = Some (i, w) ->
      let g := blend (fun c => nth i (tbl c) 0) (fun c => nth (S i) (tbl c) 0) w in
      (forall c, map3d (lerp xs (tbl c)) psin inside outside sqrt x y z = Some (g c))
      /\ (forall c, (c < n)%nat -> 0 <= g c /\ g c <= 1) /\ sumn n g == 1).
Proof.
  intros Hinc Hk r. split.
  - intros Hout c. unfold map3d, axisym. fold r. rewrite Hout. reflexivity.
  - intros Hin i w Hl g.
    destruct (profile_lerp_conserves n xs tbl (psin r z) Hinc Hk i w Hl) as (E & B & S).
    repeat split; auto; try (apply B; assumption).
    intros c. unfold map3d, axisym. fold r. rewrite Hin. apply E.
Qed.

(* ---------------------------------------------------------------- bilinear *)
Lemma bilerp_through_knots xs ys tbl i j :
  increasing xs -> increasing ys -> (i < length xs)%nat -> (j < length ys)%nat ->
  (2 <= length xs)%nat -> (2 <= length ys)%nat ->
  oQeq (bilerp xs ys tbl (nth i xs 0) (nth j ys 0)) (Some (cell tbl i j)).
Proof.
  intros Hx Hy Hi Hj H2x H2y. unfold bilerp.
  destruct (locate_knot xs Hx i O Hi H2x) as (k & u & -> & Hk).
  destruct (locate_knot ys Hy j O Hj H2y) as (l & v & -> & Hl). cbn [Nat.add oQeq].
  destruct Hk as [[-> Hu]|[<- Hu]], Hl as [[-> Hv]|[<- Hv]]; rewrite Hu, Hv; ring.
Qed.

(* four balance solutions at the corners of a cell: the bilinear value is a blend of blends, so it conserves *)
Lemma bilinear_fractions n f00 f10 f01 f11 u v : 0 <= u -> u <= 1 -> 0 <= v -> v <= 1 ->
  (forall g, In g [f00; f10; f01; f11] -> (forall z, (z < n)%nat -> 0 <= g z /\ g z <= 1) /\ sumn n g == 1) ->
  let b := blend (blend f00 f10 u) (blend f01 f11 u) v in
  (forall z, (z < n)%nat -> 0 <= b z /\ b z <= 1) /\ sumn n b == 1.
Proof.
  intros U0 U1 V0 V1 H b.
  destruct (H f00 ltac:(cbn; auto)) as [B00 S00]. destruct (H f10 ltac:(cbn; auto)) as [B10 S10].
  destruct (H f01 ltac:(cbn; auto)) as [B01 S01]. destruct (H f11 ltac:(cbn; auto)) as [B11 S11].
  destruct (blend_fractions n f00 f10 u U0 U1 B00 B10 S00 S10) as [Blo Slo].
  destruct (blend_fractions n f01 f11 u U0 U1 B01 B11 S01 S11) as [Bhi Shi].
  apply blend_fractions; auto.
Qed.

Lemma bilerp_is_blend xs ys tbl x y : increasing xs -> increasing ys -> forall val, bilerp xs ys tbl x y = Some val ->
  exists i j u v, locate xs x 0 = Some (i, u) /\ locate ys y 0 = Some (j, v) /\ 0 <= u <= 1 /\ 0 <= v <= 1 /\
    val = blend (blend (fun _ => cell tbl i j) (fun _ => cell tbl (S i) j) u)
                (blend (fun _ => cell tbl i (S j)) (fun _ => cell tbl (S i) (S j)) u) v O.
Proof.
  intros Hx Hy val H. unfold bilerp in H.
  destruct (locate xs x 0) as [[i u]|] eqn:Ex; [|discriminate].
  destruct (locate ys y 0) as [[j v]|] eqn:Ey; [|discriminate].
  injection H as <-. exists i, j, u, v.
  pose proof (locate_weight xs x Hx _ _ _ Ex). pose proof (locate_weight ys y Hy _ _ _ Ey).
  repeat split; try tauto.
Qed.

(* ---------------------------------------------------------------- existence (constructive) and positivity *)
Lemma matrix_solution_exists_unique Z ion rec cx nd ne : rates_ok Z ion rec cx nd ne ->
  let sol := map (fun z => ne * fractional_point Z ion rec cx nd ne z) (seq 0 (S Z)) in
  length sol = S Z
  /\ Forall2 Qeq (matvec (balance_matrix Z ion rec cx nd ne) sol) (balance_rhs Z ne)
  /\ (forall z, (z <= Z)%nat -> 0 < nth z sol 0 /\ nth z sol 0 <= ne)
  /\ (forall xs, length xs = S Z -> Forall2 Qeq (matvec (balance_matrix Z ion rec cx nd ne) xs) (balance_rhs Z ne) ->
      forall z, (z <= Z)%nat -> nth z xs 0 == nth z sol 0).
Proof.
  intros H sol. destruct (rates_ok_pos _ _ _ _ _ _ H) as (HZ & Hne & Hi & Hr).
  assert (forall z, (z <= Z)%nat -> nth z sol 0 = ne * fractional_point Z ion rec cx nd ne z) as Hn.
  { intros z Hz. unfold sol.
    rewrite (nth_indep _ 0 ((fun z0 => ne * fractional_point Z ion rec cx nd ne z0) O)) by (rewrite map_length, seq_length; lia).
    rewrite (map_nth (fun z0 => ne * fractional_point Z ion rec cx nd ne z0)), seq_nth by lia. reflexivity. }
  repeat split.
  - unfold sol. rewrite map_length, seq_length. reflexivity.
  - apply thm_solves_matrix; exact H.
  - rewrite Hn by assumption. pose proof (cf_pos Z ion _ Hi Hr z H0). unfold fractional_point. nra.
  - rewrite Hn by assumption. pose proof (cf_le_1 Z ion _ Hi Hr z H0). pose proof (cf_pos Z ion _ Hi Hr z H0).
    unfold fractional_point. nra.
  - intros xs Hl HF z Hz. rewrite Hn by assumption. apply matrix_solution_unique; auto.
Qed.

(* ---------------------------------------------------------------- how the n_e scaling enters the objective *)
Definition bal_part (Z : nat) ion rec cx nd ne (x : nat -> Q) : Q :=
  sumn (S Z) (fun i => (ne * rowdot Z ion rec cx nd ne i x) * (ne * rowdot Z ion rec cx nd ne i x)).
Definition norm_part (Z : nat) (ne : Q) (x : nat -> Q) : Q := (sumn (S Z) x - ne) * (sumn (S Z) x - ne).

Lemma cost_split Z ion rec cx nd ne x : lsq_cost Z ion rec cx nd ne x == bal_part Z ion rec cx nd ne x + norm_part Z ne x.
Proof. reflexivity. Qed.

Lemma entry_scaled Z ion rec cx nd ne k m i j : ~ ne == 0 -> ~ m == 0 ->
  entry Z (fun c => k * ion c) (fun c => k * rec c) (option_map (fun f c => k * f c) cx) (m * nd) (m * ne) i j
  == k * entry Z ion rec cx nd ne i j.
Proof.
  intros Hne Hm. unfold entry, dcx.
  destruct cx as [f|]; cbn [option_map];
    destruct (i =? 0)%nat, (i =? Z)%nat, (j =? 0)%nat, (j =? 1)%nat, (j =? Z)%nat, (j =? Z - 1)%nat,
             (j =? i - 1)%nat, (j =? i)%nat, (j =? i + 1)%nat; try ring; field; auto.
Qed.

Lemma rowdot_scaled Z ion rec cx nd ne k m i x : ~ ne == 0 -> ~ m == 0 ->
  rowdot Z (fun c => k * ion c) (fun c => k * rec c) (option_map (fun f c => k * f c) cx) (m * nd) (m * ne) i (fun z => m * x z)
  == k * m * rowdot Z ion rec cx nd ne i x.
Proof.
  intros Hne Hm. unfold rowdot. rewrite <- sumn_scale_l. apply sumn_ext. intros j _.
  rewrite entry_scaled by assumption. ring.
Qed.

(* rates * k, all densities * m: the balance part of the objective is multiplied by k^2 m^4, the normalisation
   part only by m^2 *)
Lemma objective_scaling Z ion rec cx nd ne k m x : ~ ne == 0 -> ~ m == 0 ->
  bal_part Z (fun c => k * ion c) (fun c => k * rec c) (option_map (fun f c => k * f c) cx) (m * nd) (m * ne) (fun z => m * x z)
  == (k * k) * (m * m * m * m) * bal_part Z ion rec cx nd ne x
  /\ norm_part Z (m * ne) (fun z => m * x z) == (m * m) * norm_part Z ne x.
Proof.
  intros Hne Hm. split.
  - unfold bal_part. rewrite <- sumn_scale_l. apply sumn_ext. intros i _.
    rewrite rowdot_scaled by assumption. ring.
  - unfold norm_part. rewrite sumn_scale_l. ring.
Qed.

(* along the ray s * (n_e f) every balance row vanishes: the objective sees a wrong normalisation s only through
   the single term (s - 1)^2 n_e^2, whatever the rates *)
Lemma cost_along_ray Z ion rec cx nd ne s : rates_ok Z ion rec cx nd ne ->
  bal_part Z ion rec cx nd ne (fun z => s * (ne * fractional_point Z ion rec cx nd ne z)) == 0
  /\ lsq_cost Z ion rec cx nd ne (fun z => s * (ne * fractional_point Z ion rec cx nd ne z)) == (s - 1) * (s - 1) * (ne * ne).
Proof.
  intros H. destruct (rates_ok_pos _ _ _ _ _ _ H) as (HZ & Hne & Hi & Hr).
  assert (bal_part Z ion rec cx nd ne (fun z => s * (ne * fractional_point Z ion rec cx nd ne z)) == 0) as Hb.
  { unfold bal_part. apply sumn_zero. intros i Hi'.
    rewrite (rowdot_scale Z ion rec cx nd ne i (fun z => ne * fractional_point Z ion rec cx nd ne z) s).
    rewrite (rowdot_scale Z ion rec cx nd ne i (fractional_point Z ion rec cx nd ne) ne).
    unfold fractional_point. rewrite (cf_rows_zero Z ion rec cx nd ne HZ Hi Hr i) by lia. ring. }
  split; [exact Hb|].
  rewrite cost_split, Hb. unfold norm_part.
  rewrite sumn_scale_l, sumn_scale_l. unfold fractional_point. rewrite (cf_sum Z ion _ Hi Hr). ring.
Qed.
