(* C04: the Gaussian integrals behind the flux theorems, over R.
   (1) radial form, exact: int_0^c r exp(-r^2/2) dr = 1 - exp(-c^2/2)      (Coquelicot, fundamental theorem of calculus)
       -- in polar coordinates this is the integral of the unit Gaussian exp(-(u^2+v^2)/2)/(2 pi) over the disk of
       radius c (the angular integral contributes 2 pi / (2 pi) = 1): the clamp tail factor, and with
   (2) 0 < exp(-c^2/2) <= 2 / (2 + c^2)  the normalisation 1 as c -> infinity with an explicit rate;
   (3) certified numbers (CoqInterval) are in Proofs/C04_GaussInterval.v: kept out of the property file because coqchk over
       the Interval library takes more than 50 minutes.
   What remains a hypothesis of C04_flux_partial / C04_flux_clamped_partial is only the passage from the plane integral
   to polar coordinates (Fubini + Jacobian), which Coquelicot does not provide. *)
From Coq Require Import Reals Lra.
From Coquelicot Require Import Coquelicot.
Open Scope R_scope.

Lemma radial_gaussian_integral (c : R) :
  is_RInt (fun r => r * exp (- (r * r) / 2)) 0 c (1 - exp (- (c * c) / 2)).
Proof.
  replace (1 - exp (- (c * c) / 2)) with ((fun r => - exp (- (r * r) / 2)) c - (fun r => - exp (- (r * r) / 2)) 0)
    by (cbv beta; replace (- (0 * 0) / 2) with 0 by lra; rewrite exp_0; ring).
  apply (is_RInt_derive (fun r => - exp (- (r * r) / 2)) (fun r => r * exp (- (r * r) / 2))).
  - intros x _. auto_derive; [trivial|]. unfold Rdiv. set (e := exp (- (x * x) * / 2)). lra.
  - intros x _. apply (ex_derive_continuous (fun r => r * exp (- (r * r) / 2))). auto_derive. trivial.
Qed.

Lemma gaussian_tail_bound (c : R) : 0 < exp (- (c * c) / 2) <= 2 / (2 + c * c).
Proof.
  split; [apply exp_pos|].
  assert (Hc : 0 <= c * c) by (apply Rle_0_sqr).
  assert (H : 1 + (c * c) / 2 <= exp ((c * c) / 2)).
  { destruct (Req_dec (c * c) 0) as [E|E]; [rewrite E; replace (0 / 2) with 0 by lra; rewrite exp_0; lra|].
    left. apply exp_ineq1. lra. }
  replace (- (c * c) / 2) with (- ((c * c) / 2)) by lra. rewrite exp_Ropp.
  replace (2 / (2 + c * c)) with (/ (1 + c * c / 2)) by (field; lra).
  apply Rinv_le_contravar; lra.
Qed.

(* the disk integral tends to 1: for every c the missing mass is at most 2 / (2 + c^2) *)
Lemma radial_gaussian_normalisation (c : R) :
  1 - 2 / (2 + c * c) <= RInt (fun r => r * exp (- (r * r) / 2)) 0 c < 1.
Proof.
  rewrite (is_RInt_unique _ _ _ _ (radial_gaussian_integral c)).
  pose proof (gaussian_tail_bound c). lra.
Qed.

