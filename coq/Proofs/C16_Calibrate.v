(* C16: calibrate conserves the integral; the integral of the interpolant is additive. *)
Require Import Cherab.Common.Qx.
Require Import Cherab.Model.C16_Instruments.
Open Scope Q_scope.

(* ---- the integral of the linear interpolant is a difference of an antiderivative: additive ---- *)
Lemma seg_integral_additive x0 y0 x1 y1 a b c :
  seg_integral x0 y0 x1 y1 a b + seg_integral x0 y0 x1 y1 b c == seg_integral x0 y0 x1 y1 a c.
Proof.
  unfold seg_integral.
  generalize (clamp x0 x1 a) (clamp x0 x1 b) (clamp x0 x1 c) ((y1 - y0) / (x1 - x0)).
  intros u v w m. ring.
Qed.

Lemma segs_integral_additive xs : forall ys a b c,
  segs_integral xs ys a b + segs_integral xs ys b c == segs_integral xs ys a c.
Proof.
  induction xs as [|x0 xt IH]; intros ys a b c; [cbn; ring|].
  destruct xt as [|x1 xt']; [destruct ys; cbn; ring|].
  destruct ys as [|y0 [|y1 yt']]; try (cbn; ring).
  change (seg_integral x0 y0 x1 y1 a b + segs_integral (x1 :: xt') (y1 :: yt') a b
          + (seg_integral x0 y0 x1 y1 b c + segs_integral (x1 :: xt') (y1 :: yt') b c)
          == seg_integral x0 y0 x1 y1 a c + segs_integral (x1 :: xt') (y1 :: yt') a c).
  rewrite <- (IH (y1 :: yt') a b c), <- (seg_integral_additive x0 y0 x1 y1 a b c). ring.
Qed.

Lemma pl_integral_additive xs ys a b c :
  pl_integral xs ys a b + pl_integral xs ys b c == pl_integral xs ys a c.
Proof.
  unfold pl_integral, len_below, len_above.
  rewrite <- (segs_integral_additive xs ys a b c). ring.
Qed.

Lemma lt_diff_nz (a b : Q) : a < b -> ~ b - a == 0.
Proof.
  intros H E. assert (b == a) as E' by (rewrite <- (Qplus_0_l a), <- E; ring).
  rewrite E' in H. exact (Qlt_irrefl _ H).
Qed.

(* ---- calibrate ---- *)
Section Cal.
Variable integrate : Q -> Q -> Q.
Hypothesis additive : forall a b c, integrate a b + integrate b c == integrate a c.

Lemma increasing_cons a b t : increasing (a :: b :: t) = true -> a < b /\ increasing (b :: t) = true.
Proof.
  cbn. intros H. apply andb_prop in H as [H1 H2]. split; [|exact H2].
  apply negb_true_iff in H1. apply Qnot_le_lt. intros Hle. apply Qle_bool_iff in Hle. congruence.
Qed.

(* value_i * width_i is the spectrum's integral over pixel i, for every pixel of every layout *)
Lemma calibrate_pixel w : increasing w = true -> forall i, (S i < length w)%nat ->
  nth i (calibrate_arr integrate w) 0 * (nth (S i) w 0 - nth i w 0) == integrate (nth i w 0) (nth (S i) w 0).
Proof.
  induction w as [|a t IH]; intros Hinc i Hi; [cbn in Hi; lia|].
  destruct t as [|b t']; [cbn in Hi; lia|].
  destruct (increasing_cons _ _ _ Hinc) as [Hab Hinc'].
  destruct i as [|i].
  - cbn. field. apply lt_diff_nz, Hab.
  - change (nth i (calibrate_arr integrate (b :: t')) 0 * (nth (S i) (b :: t') 0 - nth i (b :: t') 0)
            == integrate (nth i (b :: t') 0) (nth (S i) (b :: t') 0)).
    apply IH; [exact Hinc'|]. cbn in Hi |- *. lia.
Qed.

(* summed over the pixels of one array: the integral over their union *)
Lemma calibrate_total w : increasing w = true -> (2 <= length w)%nat ->
  dot (calibrate_arr integrate w) (widths w) == integrate (hd 0 w) (last w 0).
Proof.
  induction w as [|a t IH]; intros Hinc Hl; [cbn in Hl; lia|].
  destruct t as [|b t']; [cbn in Hl; lia|].
  destruct (increasing_cons _ _ _ Hinc) as [Hab Hinc'].
  change (integrate a b / (b - a) * (b - a) + dot (calibrate_arr integrate (b :: t')) (widths (b :: t'))
          == integrate a (last (b :: t') 0)).
  assert (integrate a b / (b - a) * (b - a) == integrate a b) as ->.
  { field. apply lt_diff_nz, Hab. }
  destruct t' as [|c t''].
  - cbn. ring.
  - rewrite IH; [|exact Hinc'|cbn; lia].
    change (hd 0 (b :: c :: t'')) with b. apply additive.
Qed.

End Cal.

(* the three outcomes of the public call: TypeError for a non-Spectrum, ValueError for a spectrum whose range
   does not cover the instrument's, otherwise one calibrated array per accommodated spectrum *)
Lemma calibrate_call_spec integral mn mx w2p a :
  match a with
  | ANotSpectrum => calibrate_call integral mn mx w2p a = Err ErrType
  | ASpectrum smin smax xs ys =>
    (smin <= mn -> mx <= smax ->
       calibrate_call integral mn mx w2p a = Ok (map (calibrate_arr (integral xs ys)) w2p)) /\
    (mn < smin \/ smax < mx -> calibrate_call integral mn mx w2p a = Err ErrValue)
  end.
Proof.
  destruct a as [smin smax xs ys|]; [|reflexivity]. unfold calibrate_call, calibrate. split.
  - intros H1 H2. apply Qle_bool_iff in H1, H2. rewrite H1, H2. reflexivity.
  - intros [H|H].
    + destruct (Qle_bool smin mn) eqn:E; [apply Qle_bool_iff in E; exfalso; exact (Qlt_not_le _ _ H E)|reflexivity].
    + destruct (Qle_bool mx smax) eqn:E; [apply Qle_bool_iff in E; exfalso; exact (Qlt_not_le _ _ H E)|].
      destruct (Qle_bool smin mn); reflexivity.
Qed.
