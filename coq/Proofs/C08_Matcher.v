(* C08 -- facts about the regular-expression matcher of Model/C08_Text.v on arbitrary strings: greedy repetition of a
   one-character test equals a direct longest-first search, and the separator expression of parse_adf11 equals a direct
   recogniser. *)
Require Import Cherab.Common.Qx.
Require Import Cherab.Model.C08_Text.
From Coq Require Import Ascii String Arith.
Open Scope nat_scope.

Section Star.
  Variable R : Type.
  Variable ci : bool.
  Variable a : re.
  Variable tst : ascii -> bool.
  (* a consumes exactly one character that passes tst, and leaves the captures alone *)
  Hypothesis Hatom : forall pos s cp (k : kont R),
    m R ci a pos s cp k = match s with c :: t => if tst c then k (S pos) t cp else None | [] => None end.

  (* longest run first, then shorter ones, never fewer than mn repetitions in total *)
  Fixpoint star_spec (mn cnt pos : nat) (s : str) (cp : caps) (k : kont R) : option R :=
    match s with
    | c :: t => if tst c then
                  match star_spec mn (S cnt) (S pos) t cp k with
                  | Some x => Some x
                  | None => if Nat.leb mn cnt then k pos s cp else None
                  end
                else if Nat.leb mn cnt then k pos s cp else None
    | [] => if Nat.leb mn cnt then k pos [] cp else None
    end.

  Definition rep_a (mn : nat) (k : kont R) : nat -> nat -> nat -> str -> caps -> option R :=
    fix rep (fuel cnt pos0 : nat) (s0 : str) (cp0 : caps) {struct fuel} : option R :=
      match fuel with
      | 0 => None
      | S f =>
          match m R ci a pos0 s0 cp0 (fun p' s' c' => if Nat.eqb p' pos0 then None else rep f (S cnt) p' s' c') with
          | Some x => Some x
          | None => if Nat.leb mn cnt then k pos0 s0 cp0 else None
          end
      end.

  Lemma rep_a_spec : forall mn k s fuel cnt pos cp, List.length s < fuel ->
    rep_a mn k fuel cnt pos s cp = star_spec mn cnt pos s cp k.
  Proof.
    intros mn k. induction s as [|c t IH]; intros fuel cnt pos cp Hf.
    - destruct fuel; [cbn in Hf; lia|]. cbn [rep_a star_spec]. rewrite Hatom. reflexivity.
    - destruct fuel; [cbn in Hf; lia|]. cbn [rep_a star_spec]. rewrite Hatom.
      destruct (tst c); [|reflexivity].
      replace (Nat.eqb (S pos) pos) with false by (symmetry; apply Nat.eqb_neq; lia).
      fold (rep_a mn k). rewrite IH by (cbn in Hf; lia). reflexivity.
  Qed.

  Lemma rep_unbounded : forall mn s pos cp k,
    m R ci (RRep mn None (RSeq [a])) pos s cp k = star_spec mn 0 pos s cp k.
  Proof.
    intros mn s pos cp k. rewrite <- (rep_a_spec mn k s (S (List.length s)) 0 pos cp) by lia. reflexivity.
  Qed.
End Star.

Arguments star_spec {R} tst mn cnt pos s cp k.

Definition is_some {A} (o : option A) : bool := match o with Some _ => true | None => false end.
Fixpoint drop (tst : ascii -> bool) (s : str) : str :=
  match s with c :: t => if tst c then drop tst t else s | [] => [] end.
Fixpoint run (tst : ascii -> bool) (s : str) : nat :=
  match s with c :: t => if tst c then S (run tst t) else 0 | [] => 0 end.

(* a starred one-character test in front of a continuation that cannot start with such a character: greedy is the only
   split that can succeed, so the whole thing succeeds iff the continuation does after the run *)
Lemma star_disjoint {R} (tst : ascii -> bool) (K : kont R) (ok : str -> bool) :
  (forall p s c, is_some (K p s c) = ok s) -> (forall c t, tst c = true -> ok (c :: t) = false) ->
  forall s cnt pos cp, is_some (star_spec tst 0 cnt pos s cp K) = ok (drop tst s).
Proof.
  intros HK Hdis. induction s as [|c t IH]; intros cnt pos cp.
  - cbn [star_spec drop Nat.leb]. apply HK.
  - cbn [star_spec drop Nat.leb]. destruct (tst c) eqn:E.
    + specialize (IH (S cnt) (S pos) cp). destruct (star_spec tst 0 (S cnt) (S pos) t cp K).
      * cbn [is_some] in *. exact IH.
      * cbn [is_some] in IH. rewrite HK, <- IH. apply Hdis. exact E.
    + apply HK.
Qed.

(* at least mn repetitions, then success *)
Lemma star_final (tst : ascii -> bool) (mn : nat) : forall s cnt pos (cp : caps),
  is_some (star_spec tst mn cnt pos s cp (fun _ _ c => Some c)) = Nat.leb mn (cnt + run tst s).
Proof.
  induction s as [|c t IH]; intros cnt pos cp.
  - cbn [star_spec run]. rewrite Nat.add_0_r. destruct (Nat.leb mn cnt); reflexivity.
  - cbn [star_spec run]. destruct (tst c).
    + specialize (IH (S cnt) (S pos) cp). rewrite <- plus_n_Sm. cbn [plus] in IH.
      destruct (star_spec tst mn (S cnt) (S pos) t cp (fun _ _ c0 => Some c0)).
      * cbn [is_some] in *. exact IH.
      * cbn [is_some] in IH. destruct (Nat.leb mn cnt) eqn:E.
        -- apply Nat.leb_le in E. symmetry in IH. apply Nat.leb_gt in IH. lia.
        -- cbn [is_some]. exact IH.
    + rewrite Nat.add_0_r. destruct (Nat.leb mn cnt); reflexivity.
Qed.

(* ---- the block-header / separator expression of parse_adf11:  ^\s*C*-{2,}  ------------------------------------------- *)
Definition cC : ascii := ascii_of_nat 67.
Definition cDash : ascii := ascii_of_nat 45.
Definition sep_ref : re :=
  RSeq [RBol; RRep 0 None (RSeq [RSet false [CSpace]]); RRep 0 None (RSeq [RLit cC]); RRep 2 None (RSeq [RLit cDash])].
Definition t_ws (c : ascii) : bool := xorb false (existsb (item_match_ci false c) [CSpace]).
Definition t_C (c : ascii) : bool := lit_match false cC c.
Definition t_dash (c : ascii) : bool := lit_match false cDash c.
(* the direct recogniser: blanks, then C's, then at least two dashes *)
Definition sep_direct (l : str) : bool := Nat.leb 2 (run t_dash (drop t_C (drop t_ws l))).

Lemma classes_disjoint : forall c, (t_ws c = true -> t_C c = false /\ t_dash c = false) /\ (t_C c = true -> t_dash c = false).
Proof. intros c; destruct c as [[] [] [] [] [] [] [] []]; vm_compute; intuition congruence. Qed.

Lemma m_seq_cons R ci r l pos s cp (k : kont R) :
  m R ci (RSeq (r :: l)) pos s cp k = m R ci r pos s cp (fun p' s' c' => m R ci (RSeq l) p' s' c' k).
Proof. reflexivity. Qed.
Lemma m_seq_nil R ci pos s cp (k : kont R) : m R ci (RSeq []) pos s cp k = k pos s cp.
Proof. reflexivity. Qed.
Lemma m_bol0 R ci s cp (k : kont R) : m R ci RBol 0 s cp k = k 0 s cp.
Proof. reflexivity. Qed.

Theorem sep_matcher_is_direct : forall l, re_matches false sep_ref l = sep_direct l.
Proof.
  intro l. unfold re_matches, re_match, sep_ref.
  change (match ?x with Some _ => true | None => false end) with (is_some x).
  rewrite m_seq_cons, m_bol0, m_seq_cons.
  rewrite (rep_unbounded caps false (RSet false [CSpace]) t_ws) by (intros; reflexivity).
  rewrite (star_disjoint t_ws _ (fun s => Nat.leb 2 (run t_dash (drop t_C s)))); [reflexivity | |].
  - intros p s c. rewrite m_seq_cons. rewrite (rep_unbounded caps false (RLit cC) t_C) by (intros; reflexivity).
    rewrite (star_disjoint t_C _ (fun s => Nat.leb 2 (run t_dash s))); [reflexivity | |].
    + intros p' s' c'. rewrite m_seq_cons. rewrite (rep_unbounded caps false (RLit cDash) t_dash) by (intros; reflexivity).
      assert (E : (fun (p'0 : nat) (s'0 : str) (c'0 : caps) => m caps false (RSeq []) p'0 s'0 c'0 (fun _ _ c0 => Some c0))
                  = (fun _ _ c0 => Some c0)) by reflexivity.
      rewrite E. rewrite star_final. reflexivity.
    + intros c0 t H. cbn [run]. destruct (classes_disjoint c0) as [_ H2]. rewrite (H2 H). reflexivity.
  - intros c0 t H. destruct (classes_disjoint c0) as [H1 _]. destruct (H1 H) as [HC HD]. cbn [drop run]. rewrite HC. cbn [run]. rewrite HD. reflexivity.
Qed.

(* consequences used as hypotheses of the ADF11 theorems: a data line (blanks, then a character that is neither blank nor C,
   and not two dashes in a row) is not a separator; blanks, C's and two dashes are *)
Lemma drop_pad tst : forall pad s, Forall (fun c => tst c = true) pad -> drop tst (pad ++ s) = drop tst s.
Proof. induction pad as [|c pad IH]; intros s H; [reflexivity|]. inversion H; subst. cbn [app drop]. rewrite H2. apply IH. assumption. Qed.

Theorem sep_rejects_data : forall pad c1 c2 rest,
  Forall (fun c => t_ws c = true) pad -> t_ws c1 = false -> t_C c1 = false -> (t_dash c1 = false \/ t_dash c2 = false) ->
  re_matches false sep_ref (pad ++ c1 :: c2 :: rest) = false.
Proof.
  intros pad c1 c2 rest Hpad H1 H2 H3. rewrite sep_matcher_is_direct. unfold sep_direct.
  rewrite drop_pad by exact Hpad. cbn [drop]. rewrite H1. cbn [drop]. rewrite H2. cbn [run].
  destruct H3 as [H | H]; [rewrite H; reflexivity|]. destruct (t_dash c1); [rewrite H|]; reflexivity.
Qed.

Theorem sep_accepts_header : forall pad cs rest,
  Forall (fun c => t_ws c = true) pad -> Forall (fun c => t_C c = true) cs ->
  re_matches false sep_ref (pad ++ cs ++ cDash :: cDash :: rest) = true.
Proof.
  intros pad cs rest Hpad Hcs. rewrite sep_matcher_is_direct. unfold sep_direct.
  rewrite drop_pad by exact Hpad.
  assert (E : drop t_ws (cs ++ cDash :: cDash :: rest) = cs ++ cDash :: cDash :: rest).
  { destruct cs as [|c cs]; cbn [app drop]; [reflexivity|]. inversion Hcs; subst.
    replace (t_ws c) with false; [reflexivity|]. destruct (t_ws c) eqn:E; [|reflexivity].
    destruct (classes_disjoint c) as [Hc _]. destruct (Hc E) as [Hc1 _]. congruence. }
  rewrite E. rewrite drop_pad by exact Hcs. reflexivity.
Qed.
