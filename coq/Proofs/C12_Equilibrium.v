(* Lemmas about the model of EFITEquilibrium (Model/C12_Equilibrium.v). *)
Require Import Cherab.Common.Qx.
Require Import Cherab.Model.C12_Equilibrium.
From Coq Require Import Qabs Lqa.
Open Scope Q_scope.

Ltac qeq := lra.

(* ------------------------------------------------------------------ comparisons *)
Lemma Qlt_b_true a b : Qlt_b a b = true -> a < b.
Proof.
  unfold Qlt_b. intros H. apply negb_true_iff in H.
  apply Qnot_le_lt. intros C. apply Qle_bool_iff in C. congruence.
Qed.

Lemma Qlt_b_false a b : Qlt_b a b = false -> b <= a.
Proof. unfold Qlt_b. intros H. apply negb_false_iff in H. apply Qle_bool_iff. exact H. Qed.

Lemma Qlt_b_iff a b : Qlt_b a b = true <-> a < b.
Proof.
  split; [apply Qlt_b_true|]. intros H. destruct (Qlt_b a b) eqn:X; [reflexivity|].
  apply Qlt_b_false in X. exfalso. apply (Qlt_not_le _ _ H X).
Qed.

Lemma Qle_bool_false a b : Qle_bool a b = false -> b < a.
Proof. intros H. apply Qnot_le_lt. intros C. apply Qle_bool_iff in C. congruence. Qed.

Lemma Qlt_b_proper a a' b b' : a == a' -> b == b' -> Qlt_b a b = Qlt_b a' b'.
Proof.
  intros Ha Hb. destruct (Qlt_b a b) eqn:X, (Qlt_b a' b') eqn:Y; try reflexivity; exfalso.
  - apply Qlt_b_true in X. apply Qlt_b_false in Y. rewrite Ha, Hb in X. apply (Qlt_not_le _ _ X Y).
  - apply Qlt_b_true in Y. apply Qlt_b_false in X. rewrite <- Ha, <- Hb in Y. apply (Qlt_not_le _ _ Y X).
Qed.

Lemma Qle_bool_proper a a' b b' : a == a' -> b == b' -> Qle_bool a b = Qle_bool a' b'.
Proof.
  intros Ha Hb. destruct (Qle_bool a b) eqn:X, (Qle_bool a' b') eqn:Y; try reflexivity; exfalso.
  - apply Qle_bool_iff in X. apply Qle_bool_false in Y. rewrite Ha, Hb in X. apply (Qlt_not_le _ _ Y X).
  - apply Qle_bool_iff in Y. apply Qle_bool_false in X. rewrite <- Ha, <- Hb in Y. apply (Qlt_not_le _ _ X Y).
Qed.

Lemma Qeq_bool_proper a a' b b' : a == a' -> b == b' -> Qeq_bool a b = Qeq_bool a' b'.
Proof.
  intros Ha Hb. destruct (Qeq_bool a b) eqn:X, (Qeq_bool a' b') eqn:Y; try reflexivity; exfalso.
  - apply Qeq_bool_iff in X. apply Qeq_bool_neq in Y. apply Y. rewrite <- Ha, <- Hb. exact X.
  - apply Qeq_bool_iff in Y. apply Qeq_bool_neq in X. apply X. rewrite Ha, Hb. exact Y.
Qed.

(* ------------------------------------------------------------------ clamp, psi_n *)
Lemma clamp_lo_le v lo : lo <= clamp v lo None.
Proof.
  unfold clamp. destruct (Qlt_b v lo) eqn:H; [apply Qle_refl | apply Qlt_b_false in H; exact H].
Qed.

Lemma clamp_lo_spec v lo : (v < lo -> clamp v lo None = lo) /\ (lo <= v -> clamp v lo None = v).
Proof.
  unfold clamp. split; intros H.
  - apply Qlt_b_iff in H. rewrite H. reflexivity.
  - destruct (Qlt_b v lo) eqn:X; [|reflexivity]. apply Qlt_b_true in X. exfalso. apply (Qlt_not_le _ _ X H).
Qed.

Lemma clamp_proper v v' lo : v == v' -> clamp v lo None == clamp v' lo None.
Proof.
  intros H. unfold clamp. rewrite (Qlt_b_proper v v' lo lo H (Qeq_refl lo)).
  destruct (Qlt_b v' lo); [reflexivity | exact H].
Qed.

Lemma psin_nonneg E r z : 0 <= psi_n E r z.
Proof. unfold psi_n. apply clamp_lo_le. Qed.

Lemma psin_spec E r z :
  (psin_raw E r z < 0 -> psi_n E r z = 0) /\ (0 <= psin_raw E r z -> psi_n E r z = psin_raw E r z).
Proof. unfold psi_n. apply clamp_lo_spec. Qed.

Lemma psin_axis_lcfs E r z : ~ e_psi_lcfs E == e_psi_axis E ->
  (e_psi E r z == e_psi_axis E -> psi_n E r z == 0) /\ (e_psi E r z == e_psi_lcfs E -> psi_n E r z == 1).
Proof.
  intros Hd. assert (Hd' : ~ e_psi_lcfs E - e_psi_axis E == 0) by (intros C; apply Hd; qeq).
  split; intros H.
  - assert (R : psin_raw E r z == 0) by (unfold psin_raw; rewrite H; field; exact Hd').
    unfold psi_n. rewrite (clamp_proper _ _ 0 R). reflexivity.
  - assert (R : psin_raw E r z == 1) by (unfold psin_raw; rewrite H; field; exact Hd').
    unfold psi_n. rewrite (clamp_proper _ _ 0 R). reflexivity.
Qed.

(* psi_n grows with (psi - psi_axis) * sign(psi_lcfs - psi_axis): monotone outwards for either sign *)
Lemma psin_raw_monotone E r z r' z' :
  0 < (e_psi_lcfs E - e_psi_axis E) * (e_psi E r' z' - e_psi E r z) -> psin_raw E r z < psin_raw E r' z'.
Proof.
  intros H. unfold psin_raw.
  set (d := e_psi_lcfs E - e_psi_axis E) in *.
  assert (Hd : ~ d == 0) by (intros C; rewrite C in H; lra).
  assert (X : (e_psi E r' z' - e_psi_axis E) / d - (e_psi E r z - e_psi_axis E) / d
              == (d * (e_psi E r' z' - e_psi E r z)) * ((/ d) * (/ d))) by (field; exact Hd).
  assert (P : 0 < (/ d) * (/ d)).
  { destruct (Qlt_le_dec 0 d) as [Hp|Hn].
    - apply Qmult_lt_0_compat; apply Qinv_lt_0_compat; exact Hp.
    - assert (Hlt : d < 0) by (apply Qle_lteq in Hn; destruct Hn as [Hn|Hn]; [exact Hn | contradiction]).
      assert (Q0 : 0 < / (- d)) by (apply Qinv_lt_0_compat; lra).
      assert (Y : (/ d) * (/ d) == (/ (- d)) * (/ (- d))) by (field; exact Hd).
      rewrite Y. apply Qmult_lt_0_compat; exact Q0. }
  assert (Z : 0 < (d * (e_psi E r' z' - e_psi E r z)) * ((/ d) * (/ d))) by (apply Qmult_lt_0_compat; assumption).
  rewrite <- X in Z. lra.
Qed.

Lemma psin_flip_sign E r z : ~ e_psi_lcfs E == e_psi_axis E -> psi_n (flip_sign E) r z == psi_n E r z.
Proof.
  intros Hd. unfold psi_n. apply clamp_proper. unfold psin_raw, flip_sign; cbn [e_psi e_psi_axis e_psi_lcfs].
  field. split; intros C; apply Hd; qeq.
Qed.

Lemma inside_flip_sign E r z : ~ e_psi_lcfs E == e_psi_axis E -> inside_b (flip_sign E) r z = inside_b E r z.
Proof.
  intros Hd. unfold inside_b. rewrite (Qle_bool_proper _ _ 1 1 (psin_flip_sign E r z Hd) (Qeq_refl 1)).
  reflexivity.
Qed.

(* ------------------------------------------------------------------ LCFS mask, map2d, map3d *)
Lemma inside_b_iff E r z : inside_b E r z = true <-> (0 < e_poly E r z /\ psi_n E r z <= 1).
Proof.
  unfold inside_b. rewrite andb_true_iff, Qlt_b_iff, Qle_bool_iff. reflexivity.
Qed.

Lemma inside_lcfs_01 E r z : inside_lcfs E r z = 1 \/ inside_lcfs E r z = 0.
Proof. unfold inside_lcfs. destruct (inside_b E r z); [left | right]; reflexivity. Qed.

Lemma blend_1 f1 f2 : blend f1 f2 1 = f2.
Proof. reflexivity. Qed.
Lemma blend_0 f1 f2 : blend f1 f2 0 = f1.
Proof. reflexivity. Qed.

Lemma map2d_spec E profile outside r z :
  (inside_b E r z = true -> map2d E profile outside r z = profile (psi_n E r z)) /\
  (inside_b E r z = false -> map2d E profile outside r z = outside).
Proof.
  unfold map2d, inside_lcfs. split; intros H; rewrite H; reflexivity.
Qed.

Lemma map3d_is_map2d E profile outside x y z :
  map3d E profile outside x y z = map2d E profile outside (e_sqrt E (x * x + y * y)) z.
Proof. reflexivity. Qed.

Lemma map3d_axisymmetric E profile outside :
  exists F : Q -> Q -> Q, forall x y z, map3d E profile outside x y z = F (x * x + y * y) z.
Proof. exists (fun a z => map2d E profile outside (e_sqrt E a) z). intros. reflexivity. Qed.

Lemma Some_inj {A} (a b : A) : Some a = Some b -> a = b.
Proof. intros H. injection H as H. exact H. Qed.

(* ------------------------------------------------------------------ vectors *)
Lemma sumsq_zero a b : a * a + 0 * 0 + b * b == 0 -> a == 0 /\ b == 0.
Proof. intros H. split; nra. Qed.

Lemma inplane_nonzero_pol b : inplane_zero b = false -> ~ dot (pol_raw b) (pol_raw b) == 0.
Proof.
  unfold inplane_zero, dot, pol_raw; cbn [vx vy vz]. intros H C.
  apply sumsq_zero in C. destruct C as [C1 C2].
  apply Qeq_bool_iff in C1. apply Qeq_bool_iff in C2. rewrite C1, C2 in H. discriminate.
Qed.

Lemma inplane_nonzero_nor b : inplane_zero b = false -> ~ dot (nor_raw b) (nor_raw b) == 0.
Proof.
  unfold inplane_zero, dot, nor_raw; cbn [vx vy vz]. intros H C.
  assert (C' : vx b * vx b + 0 * 0 + vz b * vz b == 0).
  { transitivity (- vz b * - vz b + 0 * 0 + vx b * vx b); [ring | exact C]. }
  apply sumsq_zero in C'. destruct C' as [C1 C2].
  apply Qeq_bool_iff in C1. apply Qeq_bool_iff in C2. rewrite C1, C2 in H. discriminate.
Qed.

Lemma normalise_some E v : ~ dot v v == 0 -> normalise E v = Some (vscale_r v (1 / e_sqrt E (dot v v))).
Proof.
  intros H. unfold normalise. destruct (Qeq_bool (dot v v) 0) eqn:X; [|reflexivity].
  apply Qeq_bool_iff in X. contradiction.
Qed.

Lemma set_length_some E v len : ~ dot v v == 0 -> set_length E v len = Some (vscale_r v (len / e_sqrt E (dot v v))).
Proof.
  intros H. unfold set_length. destruct (Qeq_bool (dot v v) 0) eqn:X; [|reflexivity].
  apply Qeq_bool_iff in X. contradiction.
Qed.

(* the two arguments handed to sqrt by the poloidal and by the normal vector *)
Definition pol_arg (b : vec) : Q := dot (pol_raw b) (pol_raw b).
Definition nor_arg (b : vec) : Q := dot (nor_raw b) (nor_raw b).
Definition sqrt_exact_at (E : env) (a : Q) : Prop := e_sqrt E a * e_sqrt E a == a.
(* s is within relative e of the square root: (1-e) a <= s^2 <= (1+e) a, s > 0 *)
Definition sqrt_approx_at (E : env) (e a : Q) : Prop :=
  0 < e_sqrt E a /\ (1 - e) * a <= e_sqrt E a * e_sqrt E a /\ e_sqrt E a * e_sqrt E a <= (1 + e) * a.

Lemma args_equal b : pol_arg b == nor_arg b.
Proof. unfold pol_arg, nor_arg, dot, pol_raw, nor_raw; cbn [vx vy vz]. ring. Qed.

Lemma sqrt_exact_nonzero E a : ~ a == 0 -> sqrt_exact_at E a -> ~ e_sqrt E a == 0.
Proof. unfold sqrt_exact_at. intros Ha H C. apply Ha. rewrite <- H, C. ring. Qed.

Section Basis.
  Variable E : env.
  Variables r z : Q.
  Let b := b_field E r z.
  Let tor := toroidal_vector r z.

  (* the zero-field convention of the code *)
  Lemma basis_zero_field :
    inplane_zero b = true -> poloidal_vector E r z = Some vzero /\ surface_normal E r z = Some vzero.
  Proof. intros H. unfold poloidal_vector, surface_normal. fold b. rewrite H. split; reflexivity. Qed.

  Lemma basis_defined :
    inplane_zero b = false ->
    poloidal_vector E r z = Some (vscale_r (pol_raw b) (1 / e_sqrt E (pol_arg b))) /\
    surface_normal E r z = Some (vscale_r (nor_raw b) (1 / e_sqrt E (nor_arg b))).
  Proof.
    intros H. unfold poloidal_vector, surface_normal. fold b. rewrite H. split.
    - apply normalise_some, inplane_nonzero_pol, H.
    - apply normalise_some, inplane_nonzero_nor, H.
  Qed.

  Lemma basis_never_raises : exists p n, poloidal_vector E r z = Some p /\ surface_normal E r z = Some n.
  Proof.
    destruct (inplane_zero b) eqn:H.
    - exists vzero, vzero. apply basis_zero_field, H.
    - eexists. eexists. apply basis_defined, H.
  Qed.

  (* exact for any value returned by sqrt: the three vectors are pairwise orthogonal and the
     field has no component along the normal *)
  Lemma basis_orthogonal p n :
    poloidal_vector E r z = Some p -> surface_normal E r z = Some n ->
    dot p tor == 0 /\ dot n tor == 0 /\ dot p n == 0 /\ dot b n == 0.
  Proof.
    intros Hp Hn. destruct (inplane_zero b) eqn:H.
    - destruct (basis_zero_field H) as [P N]. rewrite P in Hp. rewrite N in Hn.
      injection Hp as <-. injection Hn as <-.
      unfold dot, vzero, tor, toroidal_vector; cbn [vx vy vz]. repeat split; ring.
    - destruct (basis_defined H) as [P N]. rewrite P in Hp. rewrite N in Hn.
      injection Hp as <-. injection Hn as <-.
      unfold dot, vscale_r, pol_raw, nor_raw, tor, toroidal_vector; cbn [vx vy vz]. repeat split; ring.
  Qed.

  (* normal = poloidal x toroidal, when the two calls of sqrt return the same value *)
  Lemma normal_is_pol_cross_tor p n :
    e_sqrt E (pol_arg b) == e_sqrt E (nor_arg b) ->
    poloidal_vector E r z = Some p -> surface_normal E r z = Some n -> veq n (cross p tor).
  Proof.
    intros Hs Hp Hn. destruct (inplane_zero b) eqn:H.
    - destruct (basis_zero_field H) as [P N]. rewrite P in Hp. rewrite N in Hn.
      injection Hp as <-. injection Hn as <-.
      unfold veq, cross, vzero, tor, toroidal_vector; cbn [vx vy vz]. repeat split; ring.
    - destruct (basis_defined H) as [P N]. rewrite P in Hp. rewrite N in Hn.
      injection Hp as <-. injection Hn as <-.
      unfold veq, cross, vscale_r, pol_raw, nor_raw, tor, toroidal_vector; cbn [vx vy vz].
      rewrite Hs. repeat split; ring.
  Qed.

  (* without any assumption on sqrt: the un-normalised normal is the cross product of the
     un-normalised poloidal vector with the toroidal vector *)
  Lemma normal_raw_is_cross : veq (nor_raw b) (cross (pol_raw b) tor).
  Proof. unfold veq, cross, pol_raw, nor_raw, tor, toroidal_vector; cbn [vx vy vz]. repeat split; ring. Qed.

  Lemma basis_unit :
    inplane_zero b = false -> sqrt_exact_at E (pol_arg b) -> sqrt_exact_at E (nor_arg b) ->
    exists p n, poloidal_vector E r z = Some p /\ surface_normal E r z = Some n /\
                dot p p == 1 /\ dot n n == 1 /\ dot tor tor == 1.
  Proof.
    intros H Sp Sn. destruct (basis_defined H) as [P N].
    eexists. eexists. split; [exact P|]. split; [exact N|].
    pose proof (sqrt_exact_nonzero E _ (inplane_nonzero_pol b H) Sp) as Zp.
    pose proof (sqrt_exact_nonzero E _ (inplane_nonzero_nor b H) Sn) as Zn.
    unfold sqrt_exact_at in Sp, Sn. fold (pol_arg b) in Zp. fold (nor_arg b) in Zn.
    split; [|split].
    - transitivity (pol_arg b / (e_sqrt E (pol_arg b) * e_sqrt E (pol_arg b))).
      + set (s := e_sqrt E (pol_arg b)) in *. unfold pol_arg, dot, vscale_r; cbn [vx vy vz]. field. exact Zp.
      + rewrite Sp. field. apply (inplane_nonzero_pol b H).
    - transitivity (nor_arg b / (e_sqrt E (nor_arg b) * e_sqrt E (nor_arg b))).
      + set (s := e_sqrt E (nor_arg b)) in *. unfold nor_arg, dot, vscale_r; cbn [vx vy vz]. field. exact Zn.
      + rewrite Sn. field. apply (inplane_nonzero_nor b H).
    - unfold dot, tor, toroidal_vector; cbn [vx vy vz]. ring.
  Qed.

  (* poloidal vector = positive multiple of the in-plane field *)
  Lemma poloidal_along_field :
    inplane_zero b = false -> 0 < e_sqrt E (pol_arg b) ->
    exists k, 0 < k /\ poloidal_vector E r z = Some (vscale_r (pol_raw b) k).
  Proof.
    intros H Hs. exists (1 / e_sqrt E (pol_arg b)). split.
    - unfold Qdiv. rewrite Qmult_1_l. apply Qinv_lt_0_compat. exact Hs.
    - apply (basis_defined H).
  Qed.

  (* with a sqrt of relative accuracy e (in the square) the length is 1 to that accuracy *)
  Lemma basis_unit_approx e :
    inplane_zero b = false -> sqrt_approx_at E e (pol_arg b) ->
    exists p, poloidal_vector E r z = Some p /\ (1 - e) * dot p p <= 1 /\ 1 <= (1 + e) * dot p p.
  Proof.
    intros H (Hs & Lo & Hi). destruct (basis_defined H) as [P _].
    eexists. split; [exact P|].
    set (s := e_sqrt E (pol_arg b)) in *. set (a := pol_arg b) in *.
    assert (Zs : ~ s == 0) by (intros C; rewrite C in Hs; lra).
    assert (D : dot (vscale_r (pol_raw b) (1 / s)) (vscale_r (pol_raw b) (1 / s)) == a / (s * s)).
    { unfold a, pol_arg. unfold dot, vscale_r; cbn [vx vy vz]. field. exact Zs. }
    rewrite D.
    assert (Ps : 0 < s * s) by (apply Qmult_lt_0_compat; exact Hs).
    assert (Pi : 0 < / (s * s)) by (apply Qinv_lt_0_compat; exact Ps).
    assert (Zss : ~ s * s == 0) by (intros C; rewrite C in Ps; lra).
    split.
    - apply (Qmult_le_r _ _ (s * s) Ps).
      setoid_replace ((1 - e) * (a / (s * s)) * (s * s)) with ((1 - e) * a) by (field; exact Zs).
      setoid_replace (1 * (s * s)) with (s * s) by ring. exact Lo.
    - apply (Qmult_le_r _ _ (s * s) Ps).
      setoid_replace ((1 + e) * (a / (s * s)) * (s * s)) with ((1 + e) * a) by (field; exact Zs).
      setoid_replace (1 * (s * s)) with (s * s) by ring. exact Hi.
  Qed.

  (* B = grad(psi) x grad(phi): the field lies in the flux surface and the un-normalised normal is
     -grad(psi)/r *)
  Lemma field_tangent_to_flux_surface :
    ~ r == 0 ->
    dot b (V (e_dpsidr E r z) 0 (e_dpsidz E r z)) == 0 /\
    veq (nor_raw b) (vscale (- (1 / r)) (V (e_dpsidr E r z) 0 (e_dpsidz E r z))).
  Proof.
    intros Hr. unfold b, b_field, dot, veq, nor_raw, vscale; cbn [vx vy vz].
    repeat split; field; exact Hr.
  Qed.
End Basis.

(* ------------------------------------------------------------------ mapped vectors *)
Section Vectors.
  Variable E : env.
  Variables vt vp vn : Q -> Q.
  Variables r z : Q.
  Let b := b_field E r z.
  Let p := psi_n E r z.

  Lemma flux_to_cart_zero_field :
    inplane_zero b = true -> flux_to_cart E vt vp vn r z = Some (V (0 + 0) (vt p) (0 + 0)).
  Proof. intros H. unfold flux_to_cart. fold b. rewrite H. reflexivity. Qed.

  Lemma flux_to_cart_defined :
    inplane_zero b = false ->
    flux_to_cart E vt vp vn r z =
    Some (V (vx (vscale_r (pol_raw b) (vp p / e_sqrt E (pol_arg b))) + vx (vscale_r (nor_raw b) (vn p / e_sqrt E (nor_arg b))))
            (vt p)
            (vz (vscale_r (pol_raw b) (vp p / e_sqrt E (pol_arg b))) + vz (vscale_r (nor_raw b) (vn p / e_sqrt E (nor_arg b))))).
  Proof.
    intros H. unfold flux_to_cart. fold b. fold p. rewrite H.
    rewrite (set_length_some E _ _ (inplane_nonzero_pol b H)).
    rewrite (set_length_some E _ _ (inplane_nonzero_nor b H)). reflexivity.
  Qed.

  (* for ANY non-zero values returned by sqrt: components scaled by a / s^2 *)
  Lemma vector_components_general v ph nh :
    inplane_zero b = false -> ~ e_sqrt E (pol_arg b) == 0 -> ~ e_sqrt E (nor_arg b) == 0 ->
    flux_to_cart E vt vp vn r z = Some v -> poloidal_vector E r z = Some ph -> surface_normal E r z = Some nh ->
    dot v (toroidal_vector r z) == vt p /\
    dot v ph * (e_sqrt E (pol_arg b) * e_sqrt E (pol_arg b)) == vp p * pol_arg b /\
    dot v nh * (e_sqrt E (nor_arg b) * e_sqrt E (nor_arg b)) == vn p * nor_arg b.
  Proof.
    intros H Zp Zn Hv Hp Hn.
    rewrite (flux_to_cart_defined H) in Hv. apply Some_inj in Hv. subst v.
    destruct (basis_defined E r z H) as [P N]. fold b in P, N.
    rewrite P in Hp. rewrite N in Hn. apply Some_inj in Hp. apply Some_inj in Hn. subst ph nh.
    set (sp := e_sqrt E (pol_arg b)) in *. set (sn := e_sqrt E (nor_arg b)) in *.
    unfold b in *. set (bb := b_field E r z) in *. clearbody bb. clear P N.
    unfold pol_arg, nor_arg, dot, vscale_r, pol_raw, nor_raw, toroidal_vector; cbn [vx vy vz].
    split; [|split].
    - field; repeat split; assumption.
    - field; repeat split; assumption.
    - field; repeat split; assumption.
  Qed.

  Lemma vector_components :
    inplane_zero b = false -> sqrt_exact_at E (pol_arg b) -> sqrt_exact_at E (nor_arg b) ->
    exists v ph nh,
      flux_to_cart E vt vp vn r z = Some v /\ poloidal_vector E r z = Some ph /\ surface_normal E r z = Some nh /\
      dot v (toroidal_vector r z) == vt p /\ dot v ph == vp p /\ dot v nh == vn p.
  Proof.
    intros H Sp Sn.
    pose proof (sqrt_exact_nonzero E _ (inplane_nonzero_pol b H) Sp) as Zp.
    pose proof (sqrt_exact_nonzero E _ (inplane_nonzero_nor b H) Sn) as Zn.
    fold (pol_arg b) in Zp. fold (nor_arg b) in Zn.
    destruct (basis_defined E r z H) as [P N]. fold b in P, N.
    eexists. eexists. eexists. split; [apply (flux_to_cart_defined H)|]. split; [exact P|]. split; [exact N|].
    destruct (vector_components_general _ _ _ H Zp Zn (flux_to_cart_defined H) P N) as (A & B & C).
    split; [exact A|]. unfold sqrt_exact_at in Sp, Sn. rewrite Sp in B. rewrite Sn in C.
    split.
    - apply (Qmult_inj_r _ _ (pol_arg b)); [apply (inplane_nonzero_pol b H) | exact B].
    - apply (Qmult_inj_r _ _ (nor_arg b)); [apply (inplane_nonzero_nor b H) | exact C].
  Qed.

  Lemma blendv_1 f1 f2 : blendv E f1 f2 1 = f2.
  Proof. reflexivity. Qed.
  Lemma blendv_0 f1 f2 : blendv E f1 f2 0 = Some f1.
  Proof. reflexivity. Qed.

  Lemma map_vector2d_spec outside :
    (inside_b E r z = true -> map_vector2d E vt vp vn outside r z = flux_to_cart E vt vp vn r z) /\
    (inside_b E r z = false -> map_vector2d E vt vp vn outside r z = Some outside).
  Proof. unfold map_vector2d, inside_lcfs. split; intros H; rewrite H; reflexivity. Qed.

  Lemma map_vector2d_never_raises outside : exists v, map_vector2d E vt vp vn outside r z = Some v.
  Proof.
    destruct (inside_b E r z) eqn:I.
    - rewrite (proj1 (map_vector2d_spec outside) I). destruct (inplane_zero b) eqn:H.
      + eexists. apply (flux_to_cart_zero_field H).
      + eexists. apply (flux_to_cart_defined H).
    - eexists. apply (proj2 (map_vector2d_spec outside) I).
  Qed.
End Vectors.

(* ------------------------------------------------------------------ rotation about z *)
Lemma rotate_preserves_dot c s u v : c * c + s * s == 1 -> dot (rotate_z_apply c s u) (rotate_z_apply c s v) == dot u v.
Proof.
  intros H.
  assert (X : dot (rotate_z_apply c s u) (rotate_z_apply c s v)
              == dot u v + (c * c + s * s - 1) * (vx u * vx v + vy u * vy v)).
  { unfold dot, rotate_z_apply; cbn [vx vy vz]. ring. }
  rewrite X, H. ring.
Qed.

(* the rotation is the one by the toroidal angle of (x, y): it carries the radial and toroidal unit
   vectors of the plane y = 0 to those at (x, y) *)
Lemma rotate_is_toroidal_angle c s x y rr :
  c * rr == x -> s * rr == y ->
  veq (vscale rr (rotate_z_apply c s (V 1 0 0))) (V x y 0) /\
  veq (vscale rr (rotate_z_apply c s (V 0 1 0))) (V (- y) x 0) /\
  veq (rotate_z_apply c s (V 0 0 1)) (V 0 0 1).
Proof.
  intros Hc Hs. unfold veq, vscale, rotate_z_apply; cbn [vx vy vz].
  repeat split; try ring; try (rewrite <- Hc; ring); try (rewrite <- Hs; ring).
Qed.

Lemma map_vector3d_is_rotated E vt vp vn outside x y z :
  map_vector3d E vt vp vn outside x y z =
  option_map (rotate_z_apply (fst (e_cs E x y)) (snd (e_cs E x y)))
             (map_vector2d E vt vp vn outside (e_sqrt E (x * x + y * y)) z).
Proof. unfold map_vector3d. destruct (map_vector2d E vt vp vn outside (e_sqrt E (x * x + y * y)) z); reflexivity. Qed.

(* 3-D: inside the LCFS the mapped vector has the prescribed components in the rotated basis *)
Lemma vector3d_components E vt vp vn outside x y z :
  let rr := e_sqrt E (x * x + y * y) in
  let c := fst (e_cs E x y) in let s := snd (e_cs E x y) in
  let b := b_field E rr z in
  c * c + s * s == 1 -> inside_b E rr z = true -> inplane_zero b = false ->
  sqrt_exact_at E (pol_arg b) -> sqrt_exact_at E (nor_arg b) ->
  exists v ph nh,
    map_vector3d E vt vp vn outside x y z = Some v /\
    poloidal_vector E rr z = Some ph /\ surface_normal E rr z = Some nh /\
    dot v (rotate_z_apply c s (toroidal_vector rr z)) == vt (psi_n E rr z) /\
    dot v (rotate_z_apply c s ph) == vp (psi_n E rr z) /\
    dot v (rotate_z_apply c s nh) == vn (psi_n E rr z).
Proof.
  intros rr c s b Hcs Hin H Sp Sn.
  destruct (vector_components E vt vp vn rr z H Sp Sn) as (v & ph & nh & Hv & Hp & Hn & A & B & C).
  exists (rotate_z_apply c s v), ph, nh.
  split.
  - rewrite map_vector3d_is_rotated. fold rr c s.
    rewrite (proj1 (map_vector2d_spec E vt vp vn rr z outside) Hin), Hv. reflexivity.
  - split; [exact Hp|]. split; [exact Hn|].
    rewrite !(rotate_preserves_dot c s _ _ Hcs). auto.
Qed.

(* outside the LCFS the 3-D vector is the rotated outside value *)
Lemma vector3d_outside E vt vp vn outside x y z :
  let rr := e_sqrt E (x * x + y * y) in
  inside_b E rr z = false ->
  map_vector3d E vt vp vn outside x y z = Some (rotate_z_apply (fst (e_cs E x y)) (snd (e_cs E x y)) outside).
Proof.
  intros rr Hin. rewrite map_vector3d_is_rotated. fold rr.
  rewrite (proj2 (map_vector2d_spec E vt vp vn rr z outside) Hin). reflexivity.
Qed.
