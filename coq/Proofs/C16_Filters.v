(* C16: PolychromatorFilter / TrapezoidalFilter -- the declared range and window (discharges the hypotheses of the
   polychromator bin-width bound for trapezoidal filters). *)
Require Import Cherab.Common.Qx.
Require Import Cherab.Model.C16_Instruments Cherab.Proofs.C16_Range.
From Coq Require Import String Lqa.
Open Scope Q_scope.

Lemma qle_bool_false_iff a b : Qle_bool a b = false <-> b < a.
Proof.
  split; [apply qle_bool_false|]. intros H. destruct (Qle_bool a b) eqn:E; [|reflexivity].
  apply Qle_bool_iff in E. lra.
Qed.

(* PolychromatorFilter: the declared range contains every wavelength it was built from; exact window *)
Lemma mk_filter_range rnd id name ws f : mk_filter rnd id name ws = Ok f ->
  (forall x, In x ws -> f_min f <= x /\ x <= f_max f) /\ f_window f = rnd (f_max f - f_min f) /\ In (f_min f) ws /\ In (f_max f) ws.
Proof.
  unfold mk_filter. destruct (qmin_list ws) as [mn|] eqn:E1; [|discriminate].
  destruct (qmax_list ws) as [mx|] eqn:E2; [|discriminate].
  intros E. injection E as <-. cbn. repeat split.
  - apply (qmin_list_le _ _ E1 x H).
  - apply (qmax_list_ge _ _ E2 x H).
  - apply (qmin_list_in _ _ E1).
  - clear E1. revert mx E2. induction ws as [|a t IH]; intros mx E2; [discriminate|].
    cbn in E2. destruct (qmax_list t) as [mt|] eqn:Et.
    + injection E2 as <-. unfold qmax. destruct (Qle_bool a mt); [right; apply IH; reflexivity|left; reflexivity].
    + injection E2 as <-. left; reflexivity.
Qed.

(* TrapezoidalFilter in exact arithmetic: range [c - w/2, c + w/2], window w *)
Lemma trapezoid_exact eps id name c w ft :
  0 <= eps -> eps <= 1 -> 0 < c -> 0 < w ->
  match ft with None => True | Some t => t == 0 \/ (0 < t /\ t <= w) end ->
  exists f, mk_trapezoid exact eps id name c w ft = Ok f /\
            f_min f == c - (1#2) * w /\ f_max f == c + (1#2) * w /\ f_window f == w.
Proof.
  intros He0 He1 Hc Hw Hft. unfold mk_trapezoid.
  rewrite (proj2 (qle_bool_false_iff c 0) Hc), (proj2 (qle_bool_false_iff w 0) Hw).
  set (t := match ft with None => w | Some f => if Qeq_bool f 0 then w else f end).
  assert (0 < t /\ t <= w) as [Ht0 Htw].
  { unfold t. destruct ft as [x|]; [|lra]. destruct (Qeq_bool x 0) eqn:E; [lra|].
    destruct Hft as [H|H]; [|exact H]. apply Qeq_bool_neq in E. contradiction. }
  rewrite (proj2 (qle_bool_false_iff t 0) Ht0).
  assert (Qle_bool t w = true) as -> by (apply Qle_bool_iff, Htw). cbn [negb].
  set (t' := if Qeq_bool t w then exact (t - exact (t * eps)) else t).
  assert (0 <= t' /\ t' <= w) as [Ht'0 Ht'w].
  { unfold t', exact. destruct (Qeq_bool t w); [|lra]. split; nra. }
  destruct (mk_filter exact id name [exact (c - (1#2) * w); exact (c - (1#2) * t'); exact (c + (1#2) * t'); exact (c + (1#2) * w)]) as [f|e] eqn:E.
  - exists f. split; [reflexivity|].
    destruct (mk_filter_range _ _ _ _ _ E) as (Hr & Hwin & Hin1 & Hin2).
    unfold exact in *.
    assert (f_min f == c - (1#2) * w) as Emin.
    { apply Qle_antisym; [apply (Hr (c - (1#2) * w)); left; reflexivity|].
      destruct Hin1 as [<-|[<-|[<-|[<-|[]]]]]; lra. }
    assert (f_max f == c + (1#2) * w) as Emax.
    { apply Qle_antisym; [|apply (Hr (c + (1#2) * w)); right; right; right; left; reflexivity].
      destruct Hin2 as [<-|[<-|[<-|[<-|[]]]]]; lra. }
    split; [exact Emin|]. split; [exact Emax|]. rewrite Hwin, Emin, Emax. ring.
  - exfalso. unfold mk_filter in E. cbn in E. discriminate E.
Qed.
