(* Proofs about the SART model (Model/C11_Sart.v): for every matrix shape, every iteration limit. *)
Require Import Cherab.Common.Qx.
Require Import Cherab.Model.C11_Sart.
From Coq Require Import Qabs.
Open Scope Q_scope.


Lemma Qltb_true a b : Qltb a b = true <-> a < b.
Proof.
  unfold Qltb. rewrite negb_true_iff. split; intro H.
  - apply Qnot_le_lt. intro K. apply Qle_bool_iff in K. congruence.
  - destruct (Qle_bool b a) eqn:E; auto. apply Qle_bool_iff in E. exfalso. apply (Qlt_not_le _ _ H E).
Qed.

Lemma Qltb_false a b : Qltb a b = false <-> b <= a.
Proof.
  unfold Qltb. rewrite negb_false_iff. apply Qle_bool_iff.
Qed.

Lemma clip_val v : clip v == (if Qltb v 0 then 0 else v).
Proof. unfold clip. destruct (Qltb v 0); [reflexivity | apply Qred_correct]. Qed.

Lemma clip_nonneg v : 0 <= clip v.
Proof.
  rewrite clip_val. destruct (Qltb v 0) eqn:E; [apply Qle_refl | apply Qltb_false in E; exact E].
Qed.

Lemma clip_id v : 0 <= v -> clip v == v.
Proof.
  intro H. rewrite clip_val. destruct (Qltb v 0) eqn:E; [|reflexivity].
  apply Qltb_true in E. exfalso. apply (Qlt_not_le _ _ E H).
Qed.

Lemma clip_proper v w : v == w -> clip v == clip w.
Proof.
  intro H. rewrite !clip_val.
  destruct (Qltb v 0) eqn:E1, (Qltb w 0) eqn:E2; try reflexivity; try exact H.
  - apply Qltb_true in E1. apply Qltb_false in E2. rewrite H in E1. exfalso. apply (Qlt_not_le _ _ E1 E2).
  - apply Qltb_true in E2. apply Qltb_false in E1. rewrite H in E1. exfalso. apply (Qlt_not_le _ _ E2 E1).
Qed.

Lemma cells_Forall (f : nat -> Q -> Q) (P : Q -> Prop) :
  (forall j x, P (f j x)) -> forall x j, Forall P (cells f j x).
Proof. intros H x. induction x as [|a x IH]; intro j; cbn [cells]; constructor; auto. Qed.

Lemma sart_step_nonneg relax W b x : Forall (Qle 0) (sart_step relax W b x).
Proof. unfold sart_step. apply cells_Forall. intros. unfold sart_cell. apply clip_nonneg. Qed.

Lemma csart_step_nonneg relax beta W L b x : Forall (Qle 0) (csart_step relax beta W L b x).
Proof. unfold csart_step. apply cells_Forall. intros. unfold csart_cell. apply clip_nonneg. Qed.


Section LoopFacts.
  Variable step : vec -> vec.
  Variable cv : vec -> Q.
  Variable tol : Q.

  (* the value of [prev] seen by the test after iteration k *)
  Definition prev_at (prev : option Q) (cs : list Q) (k : nat) : option Q :=
    match k with O => prev | S k' => Some (nth k' cs 0) end.

  Lemma loop_spec : forall fuel prev x xf cs,
    loop step cv tol fuel prev x = (xf, cs) ->
    xf = iterate step (length cs) x
    /\ (length cs <= fuel)%nat
    /\ (1 <= fuel -> 1 <= length cs)%nat
    /\ (forall k, (k < length cs)%nat -> nth k cs 0 = cv (iterate step (S k) x))
    /\ (forall k, (S k < length cs)%nat -> stop_now tol (prev_at prev cs k) (nth k cs 0) = false)
    /\ ((length cs < fuel)%nat ->
        stop_now tol (prev_at prev cs (length cs - 1)) (nth (length cs - 1) cs 0) = true).
  Proof.
    induction fuel as [|f IH]; intros prev x xf cs H; cbn [loop] in H.
    - inversion H; subst. cbn. repeat split; try lia; intros; lia.
    - destruct (stop_now tol prev (cv (step x))) eqn:E.
      + inversion H; subst. cbn [length]. split; [reflexivity|]. split; [lia|]. split; [lia|].
        split; [|split].
        * intros k Hk. assert (k = 0)%nat by lia. subst. reflexivity.
        * intros k Hk. lia.
        * intros _. cbn. exact E.
      + destruct (loop step cv tol f (Some (cv (step x))) (step x)) as [xf' cs'] eqn:EL.
        inversion H; subst. destruct (IH _ _ _ _ EL) as (A & B & B1 & C & D & F).
        cbn [length]. split; [|split; [lia|split; [lia|split; [|split]]]].
        * rewrite A. reflexivity.
        * intros k Hk. destruct k as [|k]; [reflexivity|].
          cbn [nth]. rewrite C by lia. reflexivity.
        * intros k Hk. destruct k as [|k]; [exact E|].
          specialize (D k ltac:(lia)). cbn [nth prev_at].
          destruct k; exact D.
        * intros Hlt. specialize (F ltac:(lia)).
          assert (1 <= length cs')%nat by (apply B1; lia).
          replace (S (length cs') - 1)%nat with (S (length cs' - 1)) by lia.
          cbn [prev_at nth].
          destruct (length cs' - 1)%nat eqn:EE; exact F.
  Qed.

  Lemma loop_none_two : forall fuel x xf cs,
    loop step cv tol fuel None x = (xf, cs) -> (2 <= fuel -> 2 <= length cs)%nat.
  Proof.
    intros fuel x xf cs H Hf. destruct fuel as [|f]; [lia|]. cbn [loop stop_now] in H.
    destruct (loop step cv tol f (Some (cv (step x))) (step x)) as [xf' cs'] eqn:EL.
    inversion H; subst. apply loop_spec in EL. cbn [length]. destruct EL as (_ & _ & B1 & _). lia.
  Qed.

  Lemma loop_invariant (P : vec -> Prop) :
    (forall x, P x -> P (step x)) ->
    forall fuel prev x, P x -> P (fst (loop step cv tol fuel prev x)).
  Proof.
    intros HP. induction fuel as [|f IH]; intros prev x Hx; cbn [loop]; [exact Hx|].
    destruct (stop_now tol prev (cv (step x))); [cbn; auto|].
    specialize (IH (Some (cv (step x))) (step x) (HP _ Hx)).
    destruct (loop step cv tol f (Some (cv (step x))) (step x)); exact IH.
  Qed.

  Lemma loop_established (P : vec -> Prop) :
    (forall x, P (step x)) ->
    forall fuel prev x, (1 <= fuel)%nat -> P (fst (loop step cv tol fuel prev x)).
  Proof.
    intros HP fuel prev x Hf. destruct fuel as [|f]; [lia|]. cbn [loop].
    destruct (stop_now tol prev (cv (step x))); [cbn; auto|].
    pose proof (loop_invariant P (fun x _ => HP x) f (Some (cv (step x))) (step x) (HP x)) as K.
    destruct (loop step cv tol f (Some (cv (step x))) (step x)); exact K.
  Qed.
End LoopFacts.


Definition allz (v : vec) : Prop := Forall (fun e => e == 0) v.
Definition veq (a b : vec) : Prop := Forall2 Qeq a b.

Lemma dot_step x a y b : dot (x :: a) (y :: b) == x * y + dot a b.
Proof. cbn [dot]. apply Qred_correct. Qed.

Lemma qsum_step x t : qsum (x :: t) == x + qsum t.
Proof. cbn [qsum]. apply Qred_correct. Qed.

Lemma qsum_Qsum l : qsum l == Qsum l.
Proof. induction l as [|x l IH]; [reflexivity|]. rewrite qsum_step. cbn [Qsum]. rewrite IH. reflexivity. Qed.

Lemma dot_proper_r r : forall x y, veq x y -> dot r x == dot r y.
Proof.
  induction r as [|a r IH]; intros x y H; [reflexivity|].
  destruct H as [|u v x y Huv H]; [reflexivity|].
  rewrite !dot_step. rewrite Huv. rewrite (IH _ _ H). reflexivity.
Qed.

Lemma veq_refl x : veq x x.
Proof. induction x; constructor; auto. reflexivity. Qed.

Lemma veq_length a b : veq a b -> length a = length b.
Proof. induction 1; cbn; auto. Qed.

(* residuals vanish when W x = b *)
Lemma vsub_zero : forall b y, veq y b -> allz (vsub b y).
Proof.
  intros b y H. induction H as [|u v y b Huv H IH]; cbn [vsub]; constructor; auto.
  rewrite Qred_correct. rewrite Huv. ring.
Qed.

Lemma mv_proper W x y : veq x y -> veq (mv W x) (mv W y).
Proof.
  intro H. unfold mv. induction W as [|r W IH]; cbn [map]; constructor; auto. apply dot_proper_r; exact H.
Qed.

Lemma veq_trans a b c : veq a b -> veq b c -> veq a c.
Proof.
  intro H. revert c. induction H; intros c Hc; inversion Hc; subst; constructor.
  - eapply Qeq_trans; eauto.
  - apply IHForall2; assumption.
Qed.

Lemma obs_diff_zero j : forall W lens diffs, allz diffs -> obs_diff j W lens diffs == 0.
Proof.
  induction W as [|r W IH]; intros lens diffs H; [reflexivity|].
  destruct lens as [|l lens]; [reflexivity|]. destruct diffs as [|e diffs]; [reflexivity|].
  cbn [obs_diff]. rewrite Qred_correct. inversion H; subst. rewrite (IH lens diffs) by assumption.
  destruct (Qeq_bool l 0); [ring|]. match goal with K : e == 0 |- _ => rewrite K end. ring.
Qed.

Lemma entry_allz v j : allz v -> entry v j == 0.
Proof.
  unfold entry. revert j. induction v as [|a v IH]; intros j H; destruct j; cbn [nth]; try reflexivity;
  inversion H; subst; auto.
Qed.

Lemma cells_fix (f : nat -> Q -> Q) : forall x xs j,
  veq x xs -> (forall j a s, a == s -> In s xs -> f j a == s) -> veq (cells f j x) xs.
Proof.
  intros x xs j H. revert j. induction H as [|a s x xs Has H IH]; intros j Hf; cbn [cells]; constructor.
  - apply Hf; [exact Has | left; reflexivity].
  - apply IH. intros j' a' s' E I. apply Hf; [exact E | right; exact I].
Qed.

Lemma sart_step_fixed relax W b xs x :
  veq (mv W xs) b -> Forall (Qle 0) xs -> veq x xs -> veq (sart_step relax W b x) xs.
Proof.
  intros HW Hpos Hx. unfold sart_step. apply cells_fix; [exact Hx|].
  intros j a s Has Hin. unfold sart_cell.
  assert (Z0 : obs_diff j W (row_sums W) (vsub b (mv W x)) == 0).
  { apply obs_diff_zero. apply vsub_zero. eapply veq_trans; [apply mv_proper; exact Hx | exact HW]. }
  assert (Hs : 0 <= s) by (rewrite Forall_forall in Hpos; apply Hpos; exact Hin).
  destruct (Qltb 0 (col_sum W j)).
  - rewrite <- (clip_id s Hs). apply clip_proper. rewrite Z0, Has. unfold Qdiv. ring.
  - rewrite <- (clip_id s Hs). apply clip_proper. exact Has.
Qed.

Lemma penalties_zero beta L x xs :
  veq x xs -> (allz (mv L xs) \/ beta == 0) -> allz (penalties beta L x).
Proof.
  intros Hx Hz. unfold penalties. pose proof (mv_proper L x xs Hx) as HP.
  unfold allz. rewrite Forall_map.
  destruct Hz as [Hz|Hb].
  - revert HP Hz. generalize (mv L x) (mv L xs). intros u v HP. induction HP; intro Hz; constructor.
    + inversion Hz; subst. rewrite Qred_correct. rewrite H. match goal with K : y == 0 |- _ => rewrite K end. ring.
    + apply IHHP. inversion Hz; auto.
  - apply Forall_forall. intros v _. rewrite Qred_correct, Hb. ring.
Qed.

Lemma csart_step_fixed relax beta W L b xs x :
  veq (mv W xs) b -> (allz (mv L xs) \/ beta == 0) -> Forall (Qle 0) xs -> veq x xs ->
  veq (csart_step relax beta W L b x) xs.
Proof.
  intros HW HL Hpos Hx. unfold csart_step. apply cells_fix; [exact Hx|].
  intros j a s Has Hin. unfold csart_cell.
  assert (Z0 : obs_diff j W (row_sums W) (vsub b (mv W x)) == 0).
  { apply obs_diff_zero. apply vsub_zero. eapply veq_trans; [apply mv_proper; exact Hx | exact HW]. }
  assert (P0 : entry (penalties beta L x) j == 0) by (apply entry_allz; eapply penalties_zero; eauto).
  assert (Hs : 0 <= s) by (rewrite Forall_forall in Hpos; apply Hpos; exact Hin).
  destruct (Qltb 0 (col_sum W j)).
  - rewrite <- (clip_id s Hs). apply clip_proper. rewrite Z0, P0, Has. unfold Qdiv. ring.
  - rewrite <- (clip_id s Hs). apply clip_proper. rewrite P0, Has. ring.
Qed.

(* ---- the whole run ---- *)
Section Run.
  Variable step : vec -> vec.
  Variables (W : mat) (b x0 : vec) (maxit : Z) (tol : Q).

  Lemma run_with_nonneg x cs :
    (forall x, Forall (Qle 0) (step x)) ->
    run_with step W b x0 maxit tol = Ok x cs ->
    ((1 <= maxit)%Z \/ Forall (Qle 0) x0) -> Forall (Qle 0) x.
  Proof.
    intros Hs H Hor. unfold run_with in H. destruct (Z.to_nat maxit) as [|f] eqn:EF.
    - inversion H; subst. destruct Hor as [Hm|Hx]; [lia | exact Hx].
    - destruct (Qeq_bool (dot b b) 0); [discriminate|].
      pose proof (loop_established step (conv W b) tol (Forall (Qle 0)) Hs (S f) None x0 ltac:(lia)) as K.
      destruct (loop step (conv W b) tol (S f) None x0) as [xf cs'] eqn:EL. inversion H; subst. exact K.
  Qed.

  Lemma run_with_invariant (P : vec -> Prop) x cs :
    (forall x, P x -> P (step x)) -> P x0 ->
    run_with step W b x0 maxit tol = Ok x cs -> P x.
  Proof.
    intros Hs H0 H. unfold run_with in H. destruct (Z.to_nat maxit) as [|f] eqn:EF.
    - inversion H; subst. exact H0.
    - destruct (Qeq_bool (dot b b) 0); [discriminate|].
      pose proof (loop_invariant step (conv W b) tol P Hs (S f) None x0 H0) as K.
      destruct (loop step (conv W b) tol (S f) None x0) as [xf cs'] eqn:EL. inversion H; subst. exact K.
  Qed.

  (* the returned solution is the iterate of the update rule whose index is the length of the
     convergence list; the list holds the convergence value of every iterate; the run stops at the
     first k >= 1 with |c_k - c_(k-1)| < tol and otherwise after max_iterations sweeps *)
  Lemma run_with_spec x cs :
    run_with step W b x0 maxit tol = Ok x cs ->
    let fuel := Z.to_nat maxit in
    x = iterate step (length cs) x0
    /\ (length cs <= fuel)%nat /\ (Nat.min 2 fuel <= length cs)%nat
    /\ (forall k, (k < length cs)%nat -> nth k cs 0 = conv W b (iterate step (S k) x0))
    /\ (forall k, (S k < length cs)%nat -> stop_now tol (prev_at None cs k) (nth k cs 0) = false)
    /\ ((length cs < fuel)%nat ->
        stop_now tol (prev_at None cs (length cs - 1)) (nth (length cs - 1) cs 0) = true).
  Proof.
    intros H fuel. unfold run_with in H. fold fuel in H. destruct fuel as [|f] eqn:EF.
    - inversion H; subst. cbn. repeat split; try lia; intros; lia.
    - destruct (Qeq_bool (dot b b) 0); [discriminate|].
      destruct (loop step (conv W b) tol (S f) None x0) as [xf cs'] eqn:EL. inversion H; subst.
      pose proof (loop_none_two _ _ _ _ _ _ _ EL) as T.
      destruct (loop_spec _ _ _ _ _ _ _ _ EL) as (A & B & B1 & C & D & F).
      split; [exact A|]. split; [exact B|]. split; [|split; [exact C|split; [exact D|exact F]]].
      destruct f as [|f']; cbn [Nat.min]; lia.
  Qed.

  Lemma run_with_error :
    run_with step W b x0 maxit tol = ErrZeroDivision <-> ((1 <= maxit)%Z /\ dot b b == 0).
  Proof.
    unfold run_with. destruct (Z.to_nat maxit) as [|f] eqn:EF.
    - split; [discriminate | intros [Hm _]; lia].
    - destruct (Qeq_bool (dot b b) 0) eqn:E.
      + split; [intros _; split; [lia | apply Qeq_bool_iff; exact E] | reflexivity].
      + destruct (loop step (conv W b) tol (S f) None x0). split; [discriminate|].
        intros [_ K]. apply Qeq_bool_iff in K. congruence.
  Qed.
End Run.

(* ---- fixed point of the whole run, documented formula, zero rows and columns ---- *)

Lemma sart_fixed_point e1 n W b xs maxit relax tol x cs :
  Forall2 Qeq (mv W xs) b -> Forall (Qle 0) xs ->
  invert_sart e1 n W b (GuessVec xs) maxit relax tol = Ok x cs -> Forall2 Qeq x xs.
Proof.
  intros HW Hpos H. unfold invert_sart in H. cbn [initial_solution] in H.
  eapply (run_with_invariant _ _ _ _ _ _ (fun x => veq x xs)); [| |exact H].
  - intros y Hy. apply sart_step_fixed; assumption.
  - apply veq_refl.
Qed.

Lemma csart_fixed_point e1 n W L b xs maxit relax beta tol x cs :
  Forall2 Qeq (mv W xs) b -> Forall (Qle 0) xs ->
  (Forall (fun v => v == 0) (mv L xs) \/ beta == 0) ->
  invert_constrained_sart e1 n W L b (GuessVec xs) maxit relax beta tol = Ok x cs -> Forall2 Qeq x xs.
Proof.
  intros HW Hpos HL H. unfold invert_constrained_sart in H. cbn [initial_solution] in H.
  eapply (run_with_invariant _ _ _ _ _ _ (fun x => veq x xs)); [| |exact H].
  - intros y Hy. apply csart_step_fixed; assumption.
  - apply veq_refl.
Qed.

(* ---- documented formula ---- *)
Lemma cells_nth (f : nat -> Q -> Q) : forall x j i, (i < length x)%nat ->
  entry (cells f j x) i = f (j + i)%nat (entry x i).
Proof.
  unfold entry. induction x as [|a x IH]; intros j i Hi; cbn [length] in Hi; [lia|].
  destruct i as [|i]; cbn [cells nth].
  - rewrite Nat.add_0_r. reflexivity.
  - rewrite IH by lia. f_equal. lia.
Qed.

Lemma col_sum_Qsum W j : col_sum W j == Qsum (map (fun r => entry r j) W).
Proof. unfold col_sum. apply qsum_Qsum. Qed.

Lemma obs_diff_doc j x : forall W b, length b = length W -> Forall (fun r => ~ Qsum r == 0) W ->
  obs_diff j W (row_sums W) (vsub b (mv W x)) == doc_sum W b x j.
Proof.
  unfold doc_sum. induction W as [|r W IH]; intros b Hl Hnz; [reflexivity|].
  destruct b as [|bi b]; [discriminate|]. cbn [row_sums map mv vsub obs_diff combine Qsum fst snd].
  fold (row_sums W). fold (mv W x). rewrite Qred_correct. inversion Hnz; subst.
  rewrite (IH b) by (auto; cbn in Hl; lia).
  destruct (Qeq_bool (qsum r) 0) eqn:E.
  - apply Qeq_bool_iff in E. rewrite qsum_Qsum in E. contradiction.
  - rewrite Qred_correct. rewrite qsum_Qsum. unfold Qdiv. ring.
Qed.

Lemma Qltb_proper a b c d : a == c -> b == d -> Qltb a b = Qltb c d.
Proof.
  intros H1 H2. destruct (Qltb a b) eqn:E1, (Qltb c d) eqn:E2; try reflexivity.
  - apply Qltb_true in E1. apply Qltb_false in E2. rewrite H1, H2 in E1. exfalso. apply (Qlt_not_le _ _ E1 E2).
  - apply Qltb_true in E2. apply Qltb_false in E1. rewrite H1, H2 in E1. exfalso. apply (Qlt_not_le _ _ E2 E1).
Qed.

Lemma sart_step_documented relax W b x l : length b = length W -> (l < length x)%nat ->
  Forall (fun r => ~ Qsum r == 0) W -> 0 < Qsum (map (fun r => entry r l) W) ->
  entry (sart_step relax W b x) l == clip (doc_update relax W b x l).
Proof.
  intros Hl Hi Hnz Hd. unfold sart_step. rewrite cells_nth by exact Hi. cbn [Nat.add]. unfold sart_cell.
  assert (E : Qltb 0 (col_sum W l) = true).
  { apply Qltb_true. rewrite col_sum_Qsum. exact Hd. }
  rewrite E. apply clip_proper. unfold doc_update. rewrite obs_diff_doc by assumption.
  rewrite col_sum_Qsum. reflexivity.
Qed.

Lemma dot_nil_r a : dot a [] = 0.
Proof. destruct a; reflexivity. Qed.

Lemma penalties_entry beta L x : forall l, (l < length L)%nat ->
  entry (penalties beta L x) l == doc_penalty beta L x l.
Proof.
  unfold penalties, doc_penalty, entry, mv. induction L as [|r L IH]; intros l Hl; cbn [length] in Hl; [lia|].
  destruct l as [|l]; cbn [map nth].
  - rewrite Qred_correct. ring.
  - apply IH. lia.
Qed.

Lemma csart_step_documented relax beta W L b x l : length b = length W -> (l < length x)%nat -> (l < length L)%nat ->
  Forall (fun r => ~ Qsum r == 0) W -> 0 < Qsum (map (fun r => entry r l) W) ->
  entry (csart_step relax beta W L b x) l == clip (doc_update relax W b x l - doc_penalty beta L x l).
Proof.
  intros Hl Hi HL Hnz Hd. unfold csart_step. rewrite cells_nth by exact Hi. cbn [Nat.add]. unfold csart_cell.
  assert (E : Qltb 0 (col_sum W l) = true).
  { apply Qltb_true. rewrite col_sum_Qsum. exact Hd. }
  rewrite E. apply clip_proper. unfold doc_update. rewrite obs_diff_doc by assumption.
  rewrite col_sum_Qsum. rewrite penalties_entry by exact HL. reflexivity.
Qed.

Lemma sart_zero_column relax x W b l : (l < length x)%nat -> Qsum (map (fun r => entry r l) W) == 0 ->
  entry (sart_step relax W b x) l == clip (entry x l).
Proof.
  intros Hi Hz. unfold sart_step. rewrite cells_nth by exact Hi. cbn [Nat.add]. unfold sart_cell.
  assert (E : Qltb 0 (col_sum W l) = false).
  { apply Qltb_false. rewrite col_sum_Qsum, Hz. apply Qle_refl. }
  rewrite E. reflexivity.
Qed.


Lemma cells_ext (f f' : nat -> Q -> Q) : (forall j a, f j a == f' j a) ->
  forall x j, veq (cells f j x) (cells f' j x).
Proof. intros H x. induction x as [|a x IH]; intro j; cbn [cells]; constructor; [apply H | apply IH]. Qed.

Lemma vsub_app : forall a1 c1 a2 c2, length a1 = length c1 ->
  vsub (a1 ++ a2) (c1 ++ c2) = vsub a1 c1 ++ vsub a2 c2.
Proof.
  induction a1 as [|u a1 IH]; intros c1 a2 c2 H; destruct c1 as [|v c1]; try discriminate; [reflexivity|].
  cbn [app vsub]. f_equal. apply IH. cbn in H. lia.
Qed.

Lemma vsub_length : forall a c, length a = length c -> length (vsub a c) = length a.
Proof.
  induction a as [|u a IH]; intros c H; destruct c as [|v c]; try discriminate; [reflexivity|].
  cbn [vsub length]. f_equal. apply IH. cbn in H. lia.
Qed.

Lemma obs_diff_app j : forall W1 l1 d1 W' l' d', length l1 = length W1 -> length d1 = length W1 ->
  obs_diff j (W1 ++ W') (l1 ++ l') (d1 ++ d') == obs_diff j W1 l1 d1 + obs_diff j W' l' d'.
Proof.
  induction W1 as [|r W1 IH]; intros l1 d1 W' l' d' H1 H2.
  - destruct l1; [|discriminate]. destruct d1; [|discriminate]. cbn [app obs_diff]. ring.
  - destruct l1 as [|l l1]; [discriminate|]. destruct d1 as [|e d1]; [discriminate|].
    cbn [app obs_diff]. rewrite !Qred_correct. rewrite IH by (cbn in H1, H2; lia). ring.
Qed.

Lemma sart_zero_row relax W1 W2 r b1 b2 bi x : length b1 = length W1 -> Forall (fun w => w == 0) r ->
  Forall2 Qeq (sart_step relax (W1 ++ r :: W2) (b1 ++ bi :: b2) x) (sart_step relax (W1 ++ W2) (b1 ++ b2) x).
Proof.
  intros Hl Hr. unfold sart_step. apply cells_ext. intros j a. unfold sart_cell.
  assert (Hc : col_sum (W1 ++ r :: W2) j == col_sum (W1 ++ W2) j).
  { rewrite !col_sum_Qsum, !map_app, !Qsum_app. cbn [map Qsum]. pose proof (entry_allz r j Hr) as HZ. setoid_rewrite HZ. ring. }
  assert (Ho : obs_diff j (W1 ++ r :: W2) (row_sums (W1 ++ r :: W2)) (vsub (b1 ++ bi :: b2) (mv (W1 ++ r :: W2) x))
               == obs_diff j (W1 ++ W2) (row_sums (W1 ++ W2)) (vsub (b1 ++ b2) (mv (W1 ++ W2) x))).
  { unfold row_sums, mv. rewrite !map_app.
    rewrite !vsub_app by (rewrite map_length; exact Hl).
    rewrite !obs_diff_app by (rewrite ?vsub_length, ?map_length; rewrite ?map_length; auto).
    cbn [map vsub obs_diff]. rewrite Qred_correct. pose proof (entry_allz r j Hr) as HZ.
    destruct (Qeq_bool (qsum r) 0); [ring | setoid_rewrite HZ; ring]. }
  rewrite (Qltb_proper 0 (col_sum (W1 ++ r :: W2) j) 0 (col_sum (W1 ++ W2) j)) by (try reflexivity; exact Hc).
  apply clip_proper. destruct (Qltb 0 (col_sum (W1 ++ W2) j)); [|reflexivity].
  rewrite Ho, Hc. reflexivity.
Qed.
