(* BolometerCamera's slit list (Model/C15_Groups.v: slits_step) and its invariants along every history. *)
Require Import Cherab.Common.Qx.
From Coq Require Import String.
Require Import Cherab.Model.C15_Groups Cherab.Model.C15_Table Cherab.Proofs.C15_Setters Cherab.Proofs.C15_Members.
Open Scope list_scope.
Open Scope Z_scope.

Definition extends (sl sl' : list Z) : Prop := exists ext, sl' = sl ++ ext.

Lemma extends_refl sl : extends sl sl.
Proof. exists []. now rewrite app_nil_r. Qed.

Lemma extends_trans a b c : extends a b -> extends b c -> extends a c.
Proof. intros [x ->] [y ->]. exists (x ++ y). now rewrite app_assoc. Qed.

Lemma extends_incl sl sl' x : extends sl sl' -> In x sl -> In x sl'.
Proof. intros [ext ->] I. apply in_or_app. now left. Qed.

Lemma add_slit_spec s sl : NoDup sl ->
  NoDup (add_slit s sl) /\ In s (add_slit s sl) /\ extends sl (add_slit s sl).
Proof.
  intro N. unfold add_slit. destruct (existsb (Z.eqb s) sl) eqn:E.
  - split; [exact N|]. split; [|apply extends_refl].
    apply existsb_exists in E as (x & I & Q). apply Z.eqb_eq in Q. now subst.
  - split; [apply NoDup_snoc; [exact N | now apply existsb_eqb_false]|].
    split; [apply in_or_app; right; now left | now exists [s]].
Qed.

Lemma slits_loop_spec c e : forall ids sl, NoDup sl ->
  NoDup (slits_loop c e ids sl) /\ extends sl (slits_loop c e ids sl)
  /\ (all_accepted c e ids = true -> forall id, In id ids -> In (slit_of e id) (slits_loop c e ids sl)).
Proof.
  induction ids as [|id t IH]; intros sl N; cbn [slits_loop].
  - split; [exact N|]. split; [apply extends_refl | intros _ id []].
  - destruct (type_of e id) as [ty|] eqn:T.
    + destruct (accepts c ty) eqn:A.
      * destruct (add_slit_spec (slit_of e id) sl N) as (N1 & I1 & X1).
        destruct (IH _ N1) as (N2 & X2 & C2).
        split; [exact N2|]. split; [eapply extends_trans; eauto|].
        intros AA id' [<-|I].
        -- eapply extends_incl; eauto.
        -- apply C2; [|exact I]. cbn [all_accepted forallb] in AA. now apply andb_true_iff in AA as [_ AA].
      * split; [exact N|]. split; [apply extends_refl|].
        intro AA. cbn [all_accepted forallb] in AA. rewrite T, A in AA. discriminate.
    + split; [exact N|]. split; [apply extends_refl|].
      intro AA. cbn [all_accepted forallb] in AA. rewrite T in AA. discriminate.
Qed.

(* the invariant: no slit twice, and the slit of every member is in the list *)
Definition slits_ok (e : env) (g : group) (sl : list Z) : Prop :=
  NoDup sl /\ forall m, In m g -> In (slit_of e (mid m)) sl.

Lemma same_ids_slits e g g' sl : map mid g' = map mid g -> slits_ok e g sl -> slits_ok e g' sl.
Proof.
  intros E [N H]. split; [exact N|]. intros m' I.
  assert (I' : In (mid m') (map mid g)) by (rewrite <- E; now apply in_map).
  apply in_map_iff in I' as (m & Q & Im). rewrite <- Q. now apply H.
Qed.

Lemma slits_step_ok c e g sl o : c_flavour c = FBolometer -> slits_ok e g sl ->
  slits_ok e (fst (step c e g o)) (slits_step c e sl o) /\ extends sl (slits_step c e sl o).
Proof.
  intros F [N H]. unfold slits_step. rewrite F.
  destruct (changes_membership o) eqn:Ch.
  - destruct o as [id|k ids|a v|a|k| | |id' a v| |a v k' e'| |cl nk w obs]; try discriminate; cbn [step].
    + destruct (type_of e id) as [ty|] eqn:T; [|cbn [fst]; split; [split; assumption | apply extends_refl]].
      destruct (fresh e id) as [m|] eqn:Fr; [|cbn [fst]; split; [split; assumption | apply extends_refl]].
      destruct (accepts c ty) eqn:A; cbn [fst]; [|cbn [fst]; split; [split; assumption | apply extends_refl]].
      destruct (add_slit_spec (slit_of e id) sl N) as (N1 & I1 & X1).
      split; [|exact X1]. split; [exact N1|]. intros m' I. apply in_app_or in I as [I|[<-|[]]].
      * eapply extends_incl; eauto.
      * unfold fresh in Fr. destruct (zlookup id (e_pool e)) as [[ty' st]|]; [|discriminate]. injection Fr as <-. exact I1.
    + rewrite F. destruct k as [[| |]|].
      * destruct (slits_loop_spec c e ids sl N) as (N1 & X1 & C1).
        split; [|exact X1]. split; [exact N1|].
        cbn [negb]. destruct (all_accepted c e ids) eqn:AA; cbn [negb].
        -- destruct (members_for e g ids) as [g'|] eqn:M; cbn [fst].
           ++ intros m' I. assert (I' : In (mid m') ids) by (rewrite <- (members_for_ids _ _ _ _ M); now apply in_map).
              now apply C1.
           ++ intros m' I. eapply extends_incl; eauto.
        -- cbn [fst]. intros m' I. eapply extends_incl; eauto.
      * split; [|apply extends_refl]. split; [exact N|]. exact H.
      * split; [|apply extends_refl]. split; [exact N|]. exact H.
      * split; [|apply extends_refl]. split; [exact N|]. exact H.
  - assert (S : (match o with
                 | OAdd id => match type_of e id, fresh e id with
                              | Some ty, Some _ => if accepts c ty then add_slit (slit_of e id) sl else sl
                              | _, _ => sl end
                 | OSetMembers (Some KList) ids => slits_loop c e ids sl
                 | _ => sl end) = sl) by (destruct o; try discriminate; reflexivity).
    rewrite S. split; [|apply extends_refl].
    eapply same_ids_slits; [apply membership_stable; exact Ch | split; assumption].
Qed.

Fixpoint slits_exec (c : gcls) (e : env) (sl : list Z) (ops : list op) : list Z :=
  match ops with [] => sl | o :: t => slits_exec c e (slits_step c e sl o) t end.

(* along EVERY history of a BolometerCamera: the slit list never holds a slit twice, holds the slit of
   every current member, and only grows at its end (so slits stay in order of first appearance) *)
Lemma slits_history c e : c_flavour c = FBolometer -> forall ops g sl, slits_ok e g sl ->
  slits_ok e (exec c e g ops) (slits_exec c e sl ops) /\ extends sl (slits_exec c e sl ops).
Proof.
  intro F. induction ops as [|o ops IH]; intros g sl Ok.
  - split; [exact Ok | apply extends_refl].
  - rewrite exec_cons. cbn [slits_exec].
    destruct (slits_step_ok c e g sl o F Ok) as [Ok1 X1].
    destruct (IH _ _ Ok1) as [Ok2 X2]. split; [exact Ok2 | eapply extends_trans; eauto].
Qed.

Lemma slits_history_from_empty c e ops : c_flavour c = FBolometer ->
  slits_ok e (exec c e [] ops) (slits_exec c e [] ops).
Proof. intro F. apply slits_history; [exact F|]. split; [constructor | intros m []]. Qed.

(* the 0-d groups have no slit list *)
Lemma slits_none_0d c e sl o : c_flavour c = FObserver0D -> slits_step c e sl o = sl.
Proof. intro F. unfold slits_step. now rewrite F. Qed.
