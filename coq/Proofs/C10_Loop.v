(* The flush-on-change accumulation loop of the ray-transfer integrators equals per-sample addition,
   and what per-sample addition computes (counts of samples per source). *)
Require Import Cherab.Common.Qx.
Require Import Cherab.Model.C10_RayTransfer.
Open Scope Q_scope.

Definition speq (s s' : spectrum) : Prop := forall j, s j == s' j.

Lemma sp_add_ext s s' i v v' : speq s s' -> v == v' -> speq (sp_add s i v) (sp_add s' i v').
Proof. intros H Hv j. unfold sp_add. destruct (j =? i)%Z; [rewrite (H j), Hv; reflexivity | apply H]. Qed.

Lemma simple_step_ext vm dt s s' c : speq s s' -> speq (simple_step vm dt s c) (simple_step vm dt s' c).
Proof. intros H. unfold simple_step. destruct (vm c >? -1)%Z; [apply sp_add_ext; [assumption|reflexivity] | assumption]. Qed.

Lemma simple_ext vm dt cells : forall s s', speq s s' ->
  speq (accumulate_simple vm dt cells s) (accumulate_simple vm dt cells s').
Proof.
  induction cells as [|c l IH]; intros s s' H; [exact H|].
  unfold accumulate_simple in *. cbn [fold_left]. apply IH. apply simple_step_ext, H.
Qed.

Lemma cell_eqb_eq a b : cell_eqb a b = true <-> a = b.
Proof.
  destruct a as [[a1 a2] a3], b as [[b1 b2] b3]. unfold cell_eqb.
  rewrite !andb_true_iff, !Z.eqb_eq. split; [intros [[-> ->] ->]; reflexivity | intros [= -> -> ->]; auto].
Qed.

(* the loop invariant: the current source is the source of the current cell (or nothing was looked up yet) *)
Definition linv (vm : cell -> Z) (st : lstate) : Prop :=
  (l_cur st = cinit /\ l_src st = (-1)%Z) \/ l_src st = vm (l_cur st).

Lemma step_inv vm dt st c : c <> cinit -> linv vm st -> linv vm (loop_step vm dt st c).
Proof.
  intros Hc Hi. unfold loop_step.
  destruct (cell_eqb c (l_cur st)) eqn:E.
  - apply cell_eqb_eq in E. subst c.
    destruct Hi as [[H _]|H]; [contradiction|].
    destruct (l_src st >? -1)%Z; right; cbn; exact H.
  - destruct (vm c =? l_src st)%Z eqn:E2.
    + apply Z.eqb_eq in E2. cbn [l_src l_cur l_res l_spec].
      destruct (l_src st >? -1)%Z; right; cbn; symmetry; exact E2.
    + cbn [l_src l_cur l_res l_spec]. destruct (vm c >? -1)%Z; right; cbn; reflexivity.
Qed.

Lemma step_flush vm dt st c : c <> cinit -> linv vm st ->
  speq (flush (loop_step vm dt st c)) (simple_step vm dt (flush st) c).
Proof.
  intros Hc Hi.
  assert (Hsame : l_src st = vm c ->
                  speq (flush (if (l_src st >? -1)%Z
                               then {| l_cur := c; l_src := l_src st; l_res := l_res st + dt; l_spec := l_spec st |}
                               else {| l_cur := c; l_src := l_src st; l_res := l_res st; l_spec := l_spec st |}))
                       (simple_step vm dt (flush st) c)).
  { intros Hs j. unfold simple_step, flush. rewrite <- Hs.
    destruct (l_src st >? -1)%Z eqn:G; cbn [l_src l_cur l_res l_spec]; rewrite ?G; [|reflexivity].
    unfold sp_add. destruct (j =? l_src st)%Z; [ring|reflexivity]. }
  unfold loop_step.
  destruct (cell_eqb c (l_cur st)) eqn:E.
  - apply cell_eqb_eq in E. subst c.
    destruct Hi as [[H _]|H]; [contradiction|].
    specialize (Hsame H). destruct st as [cu sr re sp]; cbn [l_src l_cur l_res l_spec] in *.
    destruct (sr >? -1)%Z; exact Hsame.
  - destruct (vm c =? l_src st)%Z eqn:E2.
    + apply Z.eqb_eq in E2. symmetry in E2. specialize (Hsame E2).
      cbn [l_src l_cur l_res l_spec]. destruct (l_src st >? -1)%Z; exact Hsame.
    + cbn [l_src l_cur l_res l_spec]. intros j. unfold simple_step.
      destruct (vm c >? -1)%Z eqn:G; unfold flush at 1; cbn [l_src l_cur l_res l_spec]; rewrite G.
      * unfold sp_add. destruct (j =? vm c)%Z; [ring|reflexivity].
      * reflexivity.
Qed.

Lemma loop_general vm dt cells : forall st, (forall c, In c cells -> c <> cinit) -> linv vm st ->
  speq (flush (fold_left (loop_step vm dt) cells st)) (accumulate_simple vm dt cells (flush st)).
Proof.
  induction cells as [|c l IH]; intros st Hc Hi.
  - intros j; reflexivity.
  - cbn [fold_left]. intros j.
    eapply Qeq_trans.
    + apply (IH (loop_step vm dt st c)).
      * intros c' H. apply Hc. right; exact H.
      * apply step_inv; [apply Hc; left; reflexivity | exact Hi].
    + unfold accumulate_simple. cbn [fold_left].
      apply (simple_ext vm dt l). apply step_flush; [apply Hc; left; reflexivity | exact Hi].
Qed.

(* runs_eq_simple *)
Lemma runs_eq_simple vm dt cells s0 : (forall c, In c cells -> c <> cinit) ->
  forall j, accumulate_runs vm dt cells s0 j == accumulate_simple vm dt cells s0 j.
Proof.
  intros Hc j. unfold accumulate_runs.
  eapply Qeq_trans.
  - apply (loop_general vm dt cells (loop_init s0) Hc). left. split; reflexivity.
  - apply simple_ext. intros k. reflexivity.
Qed.

(* ---- what per-sample addition computes ---- *)
Lemma simple_count vm dt cells : forall s0 j, (-1 < j)%Z ->
  accumulate_simple vm dt cells s0 j == s0 j + dt * inject_Z (countp (fun c => (vm c =? j)%Z) cells).
Proof.
  induction cells as [|c l IH]; intros s0 j Hj.
  - cbn. ring.
  - unfold accumulate_simple in *. cbn [fold_left countp]. rewrite IH by exact Hj.
    unfold simple_step. destruct (vm c >? -1)%Z eqn:G.
    + unfold sp_add. rewrite (Z.eqb_sym j (vm c)). destruct (vm c =? j)%Z.
      * rewrite inject_Z_plus. change (inject_Z 1) with 1. ring.
      * rewrite Z.add_0_l. reflexivity.
    + destruct (vm c =? j)%Z eqn:E; [|rewrite Z.add_0_l; reflexivity].
      apply Z.eqb_eq in E. rewrite Z.gtb_ltb in G. apply Z.ltb_ge in G. lia.
Qed.

(* entries of sources below -1 ... never happen; an index that no sampled cell maps to is untouched *)
Lemma simple_untouched vm dt cells s0 j : (forall c, In c cells -> vm c <> j) ->
  accumulate_simple vm dt cells s0 j == s0 j.
Proof.
  revert s0. induction cells as [|c l IH]; intros s0 H; [reflexivity|].
  unfold accumulate_simple in *. cbn [fold_left]. rewrite IH by (intros c' Hc'; apply H; right; exact Hc').
  unfold simple_step. destruct (vm c >? -1)%Z; [|reflexivity].
  unfold sp_add. destruct (j =? vm c)%Z eqn:E; [|reflexivity].
  apply Z.eqb_eq in E. exfalso. apply (H c); [left; reflexivity | symmetry; exact E].
Qed.

(* samples in cells without a source change nothing: the result is that of the active samples alone *)
Lemma simple_filter_active vm dt cells : forall s0,
  speq (accumulate_simple vm dt cells s0)
       (accumulate_simple vm dt (filter (fun c => (vm c >? -1)%Z) cells) s0).
Proof.
  induction cells as [|c l IH]; intros s0 j; [reflexivity|].
  unfold accumulate_simple in *. cbn [fold_left filter]. unfold simple_step at 2.
  destruct (vm c >? -1)%Z eqn:G.
  - cbn [fold_left]. unfold simple_step at 3. rewrite G. apply IH.
  - apply IH.
Qed.

(* sum of the entries 0 .. B-1 *)
Fixpoint sum_bins (s : spectrum) (B : nat) : Q :=
  match B with O => 0 | S b => sum_bins s b + s (Z.of_nat b) end.

Lemma sum_bins_add s i v : forall B, (0 <= i < Z.of_nat B)%Z -> sum_bins (sp_add s i v) B == sum_bins s B + v.
Proof.
  induction B as [|b IH]; intros H; [lia|].
  cbn [sum_bins]. unfold sp_add at 2.
  destruct (Z.of_nat b =? i)%Z eqn:E.
  - apply Z.eqb_eq in E.
    assert (Hs : sum_bins (sp_add s i v) b == sum_bins s b).
    { clear IH H. subst i. induction b as [|b' IHb] using nat_ind; [reflexivity|].
      assert (G : forall m, (m <= S b')%nat -> sum_bins (sp_add s (Z.of_nat (S b')) v) m == sum_bins s m).
      { induction m as [|m IHm]; intros Hm; [reflexivity|]. cbn [sum_bins]. rewrite IHm by lia.
        unfold sp_add. destruct (Z.of_nat m =? Z.of_nat (S b'))%Z eqn:E'; [apply Z.eqb_eq in E'; lia | reflexivity]. }
      apply G. lia. }
    rewrite Hs. ring.
  - apply Z.eqb_neq in E. rewrite IH by lia. ring.
Qed.

Lemma simple_total vm dt cells B : (forall c, In c cells -> (vm c < Z.of_nat B)%Z) -> forall s0,
  sum_bins (accumulate_simple vm dt cells s0) B ==
  sum_bins s0 B + dt * inject_Z (countp (fun c => (vm c >? -1)%Z) cells).
Proof.
  induction cells as [|c l IH]; intros H s0.
  - cbn. ring.
  - unfold accumulate_simple in *. cbn [fold_left countp].
    rewrite IH by (intros c' Hc'; apply H; right; exact Hc').
    unfold simple_step. destruct (vm c >? -1)%Z eqn:G.
    + rewrite sum_bins_add.
      * rewrite inject_Z_plus. change (inject_Z 1) with 1. ring.
      * rewrite Z.gtb_ltb in G. apply Z.ltb_lt in G. specialize (H c (or_introl eq_refl)). lia.
    + rewrite Z.add_0_l. reflexivity.
Qed.

(* all sampled cells active: the entries add up to n * dt = length *)
Lemma countp_all {A} (p : A -> bool) l : (forall x, In x l -> p x = true) -> countp p l = Z.of_nat (length l).
Proof.
  induction l as [|x l IH]; intros H; [reflexivity|].
  cbn [countp length]. rewrite (H x (or_introl eq_refl)), IH by (intros y Hy; apply H; right; exact Hy). lia.
Qed.

Lemma all_active_total vm L cells B s0 : cells <> [] ->
  (forall c, In c cells -> (-1 < vm c < Z.of_nat B)%Z) ->
  sum_bins (accumulate_simple vm (dt_of L (Z.of_nat (length cells))) cells s0) B == sum_bins s0 B + L.
Proof.
  intros Hne H. rewrite simple_total by (intros c Hc; apply H; exact Hc).
  rewrite countp_all.
  - unfold dt_of. assert (Hn : ~ inject_Z (Z.of_nat (length cells)) == 0).
    { destruct cells; [contradiction|]. cbn [length]. intros E.
      assert (0 < inject_Z (Z.of_nat (S (length cells)))) by (change 0 with (inject_Z 0); rewrite <- Zlt_Qlt; lia).
      rewrite E in H0. exact (Qlt_irrefl 0 H0). }
    field. exact Hn.
  - intros c Hc. specialize (H c Hc). apply Z.gtb_lt. lia.
Qed.
