(* Weighted means over lists of any length: the algebra behind "q lies between the smallest and the
   largest coefficient", "the population coefficient is a charge-density weighted mean" and
   "min charge <= Z_eff <= max charge". *)
Require Import Cherab.Common.Qx.
Require Import Cherab.Model.C05_BeamModels.
From Coq Require Import Lqa.
Open Scope Q_scope.

(* l = [(w_i, x_i)] *)
Definition wsum (l : list (Q * Q)) : Q := Qsum (map (fun p => fst p * snd p) l).
Definition wtot (l : list (Q * Q)) : Q := Qsum (map fst l).

Lemma wtot_nonneg l : (forall p, In p l -> 0 <= fst p) -> 0 <= wtot l.
Proof.
  unfold wtot. induction l as [|p l IH]; intros H; simpl.
  - lra.
  - assert (0 <= fst p) by (apply H; left; reflexivity).
    assert (0 <= Qsum (map fst l)) by (apply IH; intros; apply H; right; assumption). lra.
Qed.

(* bounds are needed only for the entries that carry weight *)
Lemma wsum_between l lo hi :
  (forall p, In p l -> 0 <= fst p /\ (0 < fst p -> lo <= snd p <= hi)) ->
  lo * wtot l <= wsum l <= hi * wtot l.
Proof.
  unfold wsum, wtot. induction l as [|p l IH]; intros H; simpl.
  - lra.
  - destruct (H p (or_introl eq_refl)) as [Hw Hb].
    destruct IH as [IH1 IH2]; [intros; apply H; right; assumption|].
    set (S := Qsum (map (fun p => fst p * snd p) l)) in *. set (T := Qsum (map fst l)) in *.
    destruct p as [w x]; simpl in *.
    destruct (Qlt_le_dec 0 w) as [Hpos|Hle].
    + destruct (Hb Hpos) as [Hlo Hhi]. split; nra.
    + assert (E : w == 0) by lra. rewrite E. split; lra.
Qed.

Lemma div_between a t lo hi : 0 < t -> lo * t <= a <= hi * t -> lo <= a / t <= hi.
Proof.
  intros Ht [H1 H2]. split.
  - apply Qle_shift_div_l; assumption.
  - apply Qle_shift_div_r; assumption.
Qed.

(* any number of terms, non-negative weights, positive total weight *)
Lemma wmean_bounds l lo hi :
  (forall p, In p l -> 0 <= fst p /\ (0 < fst p -> lo <= snd p <= hi)) -> 0 < wtot l ->
  lo <= wsum l / wtot l <= hi.
Proof. intros H Ht. apply div_between; [assumption | apply wsum_between; assumption]. Qed.

(* ---- smallest / largest element ---------------------------------------------------------- *)
Lemma lmin_le_head x l : lmin x l <= x.
Proof.
  induction l as [|a l IH]; simpl; [lra|].
  destruct (Qle_bool a (lmin x l)) eqn:E; [apply Qle_bool_iff in E; lra | assumption].
Qed.
Lemma lmin_le_in x l a : In a l -> lmin x l <= a.
Proof.
  induction l as [|b l IH]; simpl; [tauto|]. intros [->|Hin].
  - destruct (Qle_bool a (lmin x l)) eqn:E; [lra|].
    destruct (Qlt_le_dec (lmin x l) a) as [Hlt|Hle]; [lra|].
    apply Qle_bool_iff in Hle. congruence.
  - specialize (IH Hin). destruct (Qle_bool b (lmin x l)) eqn:E; [apply Qle_bool_iff in E; lra | assumption].
Qed.
Lemma lmax_ge_head x l : x <= lmax x l.
Proof.
  induction l as [|a l IH]; simpl; [lra|].
  destruct (Qle_bool (lmax x l) a) eqn:E; [apply Qle_bool_iff in E; lra | assumption].
Qed.
Lemma lmax_ge_in x l a : In a l -> a <= lmax x l.
Proof.
  induction l as [|b l IH]; simpl; [tauto|]. intros [->|Hin].
  - destruct (Qle_bool (lmax x l) a) eqn:E; [lra|].
    destruct (Qlt_le_dec a (lmax x l)) as [Hlt|Hle]; [lra|].
    apply Qle_bool_iff in Hle. congruence.
  - specialize (IH Hin). destruct (Qle_bool (lmax x l) b) eqn:E; [apply Qle_bool_iff in E; lra | assumption].
Qed.

(* ---- the composite CX coefficient ---------------------------------------------------------- *)
Lemma weighted_mean_as_wmean q1 kq :
  weighted_mean q1 kq == wsum ((1, q1) :: kq) / wtot ((1, q1) :: kq).
Proof.
  unfold weighted_mean, wsum, wtot. simpl.
  assert (E : 1 * q1 + Qsum (map (fun p => fst p * snd p) kq) == q1 + Qsum (map (fun p => fst p * snd p) kq)) by ring.
  rewrite E. reflexivity.
Qed.

Lemma weighted_mean_between q1 kq lo hi :
  (forall p, In p kq -> 0 <= fst p) ->
  lo <= q1 <= hi -> (forall p, In p kq -> lo <= snd p <= hi) ->
  lo <= weighted_mean q1 kq <= hi.
Proof.
  intros Hk Hq1 Hq. rewrite weighted_mean_as_wmean. apply wmean_bounds.
  - intros p [<-|Hin]; simpl; [split; [lra | intros _; assumption] | split; [apply Hk | intros _; apply Hq]; assumption].
  - unfold wtot. simpl. pose proof (wtot_nonneg kq Hk) as H. unfold wtot in H. lra.
Qed.

(* for every number of excited states with non-negative relative populations the composite
   coefficient lies between the smallest and the largest individual coefficient *)
Lemma weighted_mean_min_max q1 kq :
  (forall p, In p kq -> 0 <= fst p) ->
  lmin q1 (map snd kq) <= weighted_mean q1 kq <= lmax q1 (map snd kq).
Proof.
  intros Hk. apply weighted_mean_between; [assumption | split; [apply lmin_le_head | apply lmax_ge_head] |].
  intros p Hin. split; [apply lmin_le_in | apply lmax_ge_in]; apply in_map; assumption.
Qed.
