(* C13 -- the meaning of every entry of the routing table is the model function of Model/C13_Wrappers.v, for every
   carrier, every argument, every attribute value. *)
Require Import Cherab.Common.Qx.
Require Import Cherab.Model.C13_Wrappers Cherab.Model.C13_Table.
From Coq Require Import String.
Open Scope string_scope.

Section Meaning.
  Context {A : Type}.
  Variable ltb : A -> A -> bool.
  Variable rem : A -> A -> A.
  Variable hypot atan2 : A -> A -> A.
  Variable deg : A -> A.
  Variable arg : Z -> A.
  Variable attr : string -> A.
  Variable axis : Z.
  Variable shape : Z -> Z.

  Definition entry (name : string) : rbody :=
    match lookup name source_table with Some b => b | None => RCall "" [] PNone end.
  Definition routed_of (name : string) : list A :=
    routed (clampG ltb) rem hypot atan2 deg arg attr axis shape (entry name).

  Let x := arg 0.  Let y := arg 1.  Let z := arg 2.
  Definition r1 (a : A) : list A := [a].
  Definition r2 (a b : A) : list A := [a; b].
  Definition r3 (a b c : A) : list A := [a; b; c].

  Lemma table_routing :
    routed_of "Swizzle2D" = swizzle2 r2 x y
    /\ routed_of "Swizzle3D" = swizzle3 (shape 0%Z) (shape 1%Z) (shape 2%Z) r3 x y z
    /\ routed_of "Slice2D" = slice2 axis (attr "value") r2 x
    /\ routed_of "Slice3D" = slice3 axis (attr "value") r3 x y
    /\ routed_of "ClampInput1D" = clamp_in1 ltb (attr "_xmin") (attr "_xmax") r1 x
    /\ routed_of "ClampInput2D" = clamp_in2 ltb (attr "_xmin") (attr "_xmax") (attr "_ymin") (attr "_ymax") r2 x y
    /\ routed_of "ClampInput3D" = clamp_in3 ltb (attr "_xmin") (attr "_xmax") (attr "_ymin") (attr "_ymax")
                                              (attr "_zmin") (attr "_zmax") r3 x y z
    /\ routed_of "IsoMapper2D" = iso2 (fun l : list A => l) r2 x y
    /\ routed_of "IsoMapper3D" = iso3 (fun l : list A => l) r3 x y z
    /\ routed_of "ClampOutput1D" = r1 x /\ routed_of "ClampOutput2D" = r2 x y /\ routed_of "ClampOutput3D" = r3 x y z
    /\ routed_of "PolygonMask2D" = r2 x y
    /\ routed_of "PeriodicTransform1D" = r1 (rem x (attr "period"))
    /\ routed_of "PeriodicTransform2D" = r2 (rem x (attr "period_x")) (rem y (attr "period_y"))
    /\ routed_of "PeriodicTransform3D" = r3 (rem x (attr "period_x")) (rem y (attr "period_y")) (rem z (attr "period_z"))
    /\ routed_of "VectorPeriodicTransform1D" = routed_of "PeriodicTransform1D"
    /\ routed_of "VectorPeriodicTransform2D" = routed_of "PeriodicTransform2D"
    /\ routed_of "VectorPeriodicTransform3D" = routed_of "PeriodicTransform3D"
    /\ routed_of "AxisymmetricMapper" = r2 (hypot x y) z
    /\ routed_of "VectorAxisymmetricMapper" = r2 (hypot x y) z
    /\ routed_of "CylindricalTransform" = r3 (hypot x y) (atan2 y x) z
    /\ routed_of "VectorCylindricalTransform" = r3 (hypot x y) (atan2 y x) z.
  Proof. repeat split; reflexivity. Qed.

  (* what happens to the wrapped function's value *)
  Lemma table_post :
    post_of axis (entry "IsoMapper2D") = PIso "function1d" /\ post_of axis (entry "IsoMapper3D") = PIso "function1d"
    /\ post_of axis (entry "ClampOutput1D") = PClampOut (RAttr "_min") (RAttr "_max")
    /\ post_of axis (entry "ClampOutput2D") = PClampOut (RAttr "_min") (RAttr "_max")
    /\ post_of axis (entry "ClampOutput3D") = PClampOut (RAttr "_min") (RAttr "_max")
    /\ post_of axis (entry "VectorAxisymmetricMapper") = PRotZ (RDeg (RAtan2 (RArg 1) (RArg 0)))
    /\ post_of axis (entry "VectorCylindricalTransform") = PRotZ (RDeg (RAtan2 (RArg 1) (RArg 0)))
    /\ Forall (fun n => post_of axis (entry n) = PNone)
         ["Swizzle2D"; "Swizzle3D"; "AxisymmetricMapper"; "CylindricalTransform"; "ClampInput1D"; "ClampInput2D"; "ClampInput3D";
          "Slice2D"; "Slice3D"; "PolygonMask2D"; "PeriodicTransform1D"; "PeriodicTransform2D"; "PeriodicTransform3D";
          "VectorPeriodicTransform1D"; "VectorPeriodicTransform2D"; "VectorPeriodicTransform3D"].
  Proof.
    repeat split; try reflexivity.
    repeat constructor; cbn; try reflexivity; destruct (axis =? 0)%Z; try reflexivity; destruct (axis =? 1)%Z; reflexivity.
  Qed.
End Meaning.

(* instantiated with the exact-arithmetic model: the table entries are the periodic / axisymmetric / cylindrical wrappers
   of Model/C13_Wrappers.v *)
Lemma table_exact_models (sqrtQ : Q -> Q) (atan2Q : Q -> Q -> Q) deg arg attr axis shape :
  let hyp := fun u v : Q => sqrtQ (u * u + v * v) in
  let ro := routed_of Qltb remainder_alg_Q hyp atan2Q deg arg attr axis shape in
  ro "PeriodicTransform1D" = periodic1 (attr "period") r1 (arg 0%Z)
  /\ ro "PeriodicTransform2D" = periodic2 (attr "period_x") (attr "period_y") r2 (arg 0%Z) (arg 1%Z)
  /\ ro "PeriodicTransform3D" = periodic3 (attr "period_x") (attr "period_y") (attr "period_z") r3 (arg 0%Z) (arg 1%Z) (arg 2%Z)
  /\ ro "AxisymmetricMapper" = axisym sqrtQ r2 (arg 0%Z) (arg 1%Z) (arg 2%Z)
  /\ ro "CylindricalTransform" = cylindrical sqrtQ atan2Q r3 (arg 0%Z) (arg 1%Z) (arg 2%Z).
Proof. repeat split; reflexivity. Qed.

(* ---- the loop nests of the samplers refine the specification ---------------------------------------------------------- *)
Lemma in_enum bounds t : In t (enum bounds) <-> Forall2 lt t bounds.
Proof.
  revert t. induction bounds as [| n r IH]; intros t; cbn [enum].
  - split; [intros [<- | []]; constructor | intros H; inversion H; left; reflexivity].
  - rewrite in_flat_map. split.
    + intros (i & Hi & Ht). apply in_map_iff in Ht as (t' & <- & Ht'). apply in_seq in Hi.
      constructor; [lia | apply IH, Ht'].
    + intros H. inversion H as [| i n' t' r' Hi Ht']; subst. exists i. split; [apply in_seq; lia |].
      apply in_map_iff. exists t'. split; [reflexivity | apply IH, Ht'].
Qed.

(* range and grid samplers (three nested loops): the entry stored under [i; j; k] is f at (x_i, y_j, z_k), every index
   triple inside the shape is written, nothing else is *)
Lemma run_desc_3d {A B} (vector : bool) (d : sdesc) (f : list A -> B) xs ys zs dflt key val :
  sd_bounds d = [0; 1; 2]%nat -> sd_store d = [0; 1; 2]%nat -> sd_args d = [(0, 0); (1, 1); (2, 2)]%nat ->
  (In (key, val) (run_desc d f [xs; ys; zs] dflt) <->
   exists i j k, (i < List.length xs)%nat /\ (j < List.length ys)%nat /\ (k < List.length zs)%nat
                 /\ key = [i; j; k] /\ val = f [nth i xs dflt; nth j ys dflt; nth k zs dflt]).
Proof.
  intros Hb Hs Ha. unfold run_desc. rewrite Hb, Hs, Ha. cbn [map nth fst snd]. rewrite in_map_iff. split.
  - intros (t & E & Ht). apply in_enum in Ht.
    inversion Ht as [| i ? t1 ? Hi H1]; subst. inversion H1 as [| j ? t2 ? Hj H2]; subst.
    inversion H2 as [| k ? t3 ? Hk H3]; subst. inversion H3; subst.
    cbn [nth] in E. injection E as <- <-. exists i, j, k. repeat split; assumption.
  - intros (i & j & k & Hi & Hj & Hk & -> & ->). exists [i; j; k]. split; [reflexivity |].
    apply in_enum. repeat constructor; assumption.
Qed.

(* point samplers (one loop): the entry stored under [i] is f at the i-th point *)
Lemma run_desc_points3 {A B} (d : sdesc) (f : list A -> B) xs ys zs dflt key val :
  sd_bounds d = [0]%nat -> sd_store d = [0]%nat -> sd_args d = [(0, 0); (1, 0); (2, 0)]%nat ->
  (In (key, val) (run_desc d f [xs; ys; zs] dflt) <->
   exists i, (i < List.length xs)%nat /\ key = [i] /\ val = f [nth i xs dflt; nth i ys dflt; nth i zs dflt]).
Proof.
  intros Hb Hs Ha. unfold run_desc. rewrite Hb, Hs, Ha. cbn [map nth fst snd]. rewrite in_map_iff. split.
  - intros (t & E & Ht). apply in_enum in Ht. inversion Ht as [| i ? t1 ? Hi H1]; subst. inversion H1; subst.
    cbn [nth] in E. injection E as <- <-. exists i. repeat split; assumption.
  - intros (i & Hi & -> & ->). exists [i]. split; [reflexivity |]. apply in_enum. repeat constructor; assumption.
Qed.

(* the descriptors of the table have exactly these loop shapes *)
Lemma sampler_table_shapes :
  Forall (fun n => match lookup_s n sampler_table with
                   | Some d => sd_bounds d = [0; 1; 2]%nat /\ sd_store d = [0; 1; 2]%nat /\ sd_args d = [(0, 0); (1, 1); (2, 2)]%nat
                   | None => False end)
         ["sample3d"; "sample3d_grid"; "samplevector3d"; "samplevector3d_grid"]
  /\ Forall (fun n => match lookup_s n sampler_table with
                      | Some d => sd_bounds d = [0]%nat /\ sd_store d = [0]%nat /\ sd_args d = [(0, 0); (1, 0); (2, 0)]%nat
                      | None => False end)
            ["sample3d_points"; "samplevector3d_points"]
  /\ Forall (fun nd => match lookup_s (fst nd) sampler_table with
                       | Some d => sd_comps d = snd nd /\ (snd nd = [] \/ snd nd = [(0, 0); (1, 1); (2, 2)]%nat)
                       | None => False end)
            (map (fun n => (n, @nil (nat * nat))) ["sample1d"; "sample2d"; "sample3d"; "sample1d_points"; "sample2d_points";
                                                   "sample3d_points"; "sample2d_grid"; "sample3d_grid"]
             ++ map (fun n => (n, [(0, 0); (1, 1); (2, 2)]%nat)) ["samplevector2d"; "samplevector3d"; "samplevector2d_points";
                                                                  "samplevector3d_points"; "samplevector2d_grid"; "samplevector3d_grid"]).
Proof.
  split; [| split]; cbn [map app]; repeat (constructor; [cbn; intuition reflexivity |]); constructor.
Qed.

(* the loop nest and the nested-map model of Model/C13_Wrappers.v agree: what the loop nest stores under [i; j; k] is the
   entry [i][j][k] of sample3d *)
Require Import Cherab.Proofs.C13_Samplers.
Lemma run_desc_is_sample3d {A B} (d : sdesc) (g : A -> A -> A -> B) xs ys zs dflt key val :
  sd_bounds d = [0; 1; 2]%nat -> sd_store d = [0; 1; 2]%nat -> sd_args d = [(0, 0); (1, 1); (2, 2)]%nat ->
  In (key, val) (run_desc d (fun l => g (nth 0 l dflt) (nth 1 l dflt) (nth 2 l dflt)) [xs; ys; zs] dflt) ->
  exists i j k plane row, key = [i; j; k] /\ nth_error (sample3d g xs ys zs) i = Some plane
                          /\ nth_error plane j = Some row /\ nth_error row k = Some val.
Proof.
  intros Hb Hs Ha H. apply (run_desc_3d false d _ xs ys zs dflt key val Hb Hs Ha) in H.
  destruct H as (i & j & k & Hi & Hj & Hk & -> & ->). cbn [nth].
  destruct (sample3d_index g xs ys zs i j k (nth i xs dflt) (nth j ys dflt) (nth k zs dflt)) as (plane & row & P1 & P2 & P3);
    try (apply nth_error_nth'; assumption).
  exists i, j, k, plane, row. repeat split; assumption.
Qed.

(* ---- the program of periodic.pxd means the models ------------------------------------------------------------------------ *)
Require Import Cherab.Model.C13_Float.
From Coq Require Import Uint63 PrimFloat.
(* on binary64: the program is remainder_F, for every pair of doubles *)
Lemma source_remainder_is_remainder_F (x1 x2 : float) :
  run_remainder zero fmod_F PrimFloat.add toward_zero_F PrimFloat.eqb PrimFloat.ltb source_remainder x1 x2 = Some (remainder_F x1 x2).
Proof.
  unfold run_remainder, source_remainder, remainder_F. cbn [frun fcd fev fset fblock String.eqb Ascii.eqb Bool.eqb].
  destruct (x2 =? zero)%float; [reflexivity |].
  destruct (fmod_F x1 x2 <? zero)%float; [| reflexivity].
  destruct (fmod_F x1 x2 + x2 =? x2)%float; reflexivity.
Qed.
(* in exact arithmetic with the sum rounded by rnd and nextafter(p, 0) = pred_p: the program is remainder_rounded, the
   function the range theorems are about *)
Lemma source_remainder_is_remainder_rounded (rnd : Q -> Q) (pred_p x p : Q) :
  run_remainder 0%Q fmod_Q (fun a b => rnd (a + b)%Q) (fun _ => pred_p) Qeq_bool Qltb source_remainder x p
  = Some (remainder_rounded rnd pred_p x p).
Proof.
  unfold run_remainder, source_remainder, remainder_rounded. cbn [frun fcd fev fset fblock String.eqb Ascii.eqb Bool.eqb].
  destruct (Qeq_bool p 0); [reflexivity |].
  destruct (Qltb (fmod_Q x p) 0); [| reflexivity].
  destruct (Qeq_bool (rnd (fmod_Q x p + p)%Q) p); reflexivity.
Qed.

(* ---- the constructor checks of the table mean the validation policies of the model ---------------------------------------- *)
Section Ctor.
  Variable num : string -> option Q.
  Variable is_tuple : bool.
  Variable shape : list Z.
  Variable axis : axis_sel.
  Let ev (name : string) := ctor_eval num is_tuple shape axis (lookup_c name ctor_table).

  Lemma clamp_validate_cases lo hi : clamp_validate lo hi = None \/ clamp_validate lo hi = Some ErrValue.
  Proof. unfold clamp_validate. destruct lo, hi; auto. destruct (Qle_bool q0 q); auto. Qed.

  Lemma ctor_period1 p : num "period" = Some p ->
    ev "PeriodicTransform1D" = period1_validate p /\ ev "VectorPeriodicTransform1D" = period1_validate p.
  Proof.
    intros H. unfold ev, period1_validate. cbn [lookup_c ctor_table String.eqb Ascii.eqb Bool.eqb ctor_eval fires].
    rewrite H. cbn [String.eqb Ascii.eqb Bool.eqb]. destruct (Qle_bool p 0); split; reflexivity.
  Qed.

  Lemma ctor_period3 px py pz : num "period_x" = Some px -> num "period_y" = Some py -> num "period_z" = Some pz ->
    ev "PeriodicTransform3D" = periodn_validate [px; py; pz] /\ ev "VectorPeriodicTransform3D" = periodn_validate [px; py; pz]
    /\ ev "PeriodicTransform2D" = periodn_validate [px; py] /\ ev "VectorPeriodicTransform2D" = periodn_validate [px; py].
  Proof.
    intros Hx Hy Hz. unfold ev, periodn_validate. cbn [lookup_c ctor_table String.eqb Ascii.eqb Bool.eqb ctor_eval fires forallb].
    rewrite Hx, Hy, Hz. cbn [String.eqb Ascii.eqb Bool.eqb].
    destruct (Qle_bool 0 px), (Qle_bool 0 py), (Qle_bool 0 pz); repeat split; reflexivity.
  Qed.

  Definition first_err (a b : option err) : option err := match a with Some e => Some e | None => b end.
  Lemma ctor_clamp :
    ev "ClampOutput1D" = clamp_validate (num "min") (num "max") /\ ev "ClampOutput2D" = clamp_validate (num "min") (num "max")
    /\ ev "ClampOutput3D" = clamp_validate (num "min") (num "max")
    /\ ev "ClampInput1D" = clamp_validate (num "xmin") (num "xmax")
    /\ ev "ClampInput2D" = first_err (clamp_validate (num "xmin") (num "xmax")) (clamp_validate (num "ymin") (num "ymax"))
    /\ ev "ClampInput3D" = first_err (clamp_validate (num "xmin") (num "xmax"))
                                     (first_err (clamp_validate (num "ymin") (num "ymax")) (clamp_validate (num "zmin") (num "zmax"))).
  Proof.
    unfold ev, first_err. cbn [lookup_c ctor_table String.eqb Ascii.eqb Bool.eqb ctor_eval fires err_of].
    destruct (clamp_validate_cases (num "min") (num "max")) as [C1 | C1];
    destruct (clamp_validate_cases (num "xmin") (num "xmax")) as [C2 | C2];
    destruct (clamp_validate_cases (num "ymin") (num "ymax")) as [C3 | C3];
    destruct (clamp_validate_cases (num "zmin") (num "zmax")) as [C4 | C4];
    rewrite ?C1, ?C2, ?C3, ?C4; repeat split; reflexivity.
  Qed.

  Lemma allowed_012 i : existsb (Z.eqb i) [0; 1; 2]%Z = ((0 <=? i)%Z && (i <=? 2)%Z)%bool.
  Proof.
    cbn [existsb]. destruct (Z.eqb_spec i 0), (Z.eqb_spec i 1), (Z.eqb_spec i 2), (Z.leb_spec 0 i), (Z.leb_spec i 2);
      cbn [orb andb]; try reflexivity; lia.
  Qed.
  Lemma ctor_swizzle3 : ev "Swizzle3D" = swizzle3_validate is_tuple shape.
  Proof.
    unfold ev, swizzle3_validate. cbn [lookup_c ctor_table String.eqb Ascii.eqb Bool.eqb ctor_eval fires err_of].
    assert (E : forallb (fun i => existsb (Z.eqb i) [0; 1; 2]%Z) shape = forallb (fun i => ((0 <=? i)%Z && (i <=? 2)%Z)%bool) shape).
    { induction shape as [| a l IH]; [reflexivity |]. cbn [forallb]. rewrite IH, allowed_012. reflexivity. }
    rewrite E. clear E. destruct (forallb _ shape); cbn [negb]; [| reflexivity].
    destruct (is_tuple && (Z.of_nat (List.length shape) =? 3)%Z)%bool; reflexivity.
  Qed.
End Ctor.

Lemma ctor_slice num is_tuple shape (a : axis_sel) :
  ctor_eval num is_tuple shape a (lookup_c "Slice2D" ctor_table) = match slice_validate 2 a with inl e => Some e | inr _ => None end
  /\ ctor_eval num is_tuple shape a (lookup_c "Slice3D" ctor_table) = match slice_validate 3 a with inl e => Some e | inr _ => None end.
Proof.
  cbn [lookup_c ctor_table String.eqb Ascii.eqb Bool.eqb ctor_eval fires err_of].
  destruct a as [s | z].
  - unfold slice_validate, axis_of_name, lower. cbn [key_lookup Z.ltb Z.compare Pos.compare Pos.compare_cont andb].
    destruct (String.eqb s "x") eqn:E1; [apply String.eqb_eq in E1; subst; split; reflexivity |].
    destruct (String.eqb s "X") eqn:E2; [apply String.eqb_eq in E2; subst; split; reflexivity |].
    destruct (String.eqb s "y") eqn:E3; [apply String.eqb_eq in E3; subst; split; reflexivity |].
    destruct (String.eqb s "Y") eqn:E4; [apply String.eqb_eq in E4; subst; split; reflexivity |].
    destruct (String.eqb s "z") eqn:E5; [apply String.eqb_eq in E5; subst; split; reflexivity |].
    destruct (String.eqb s "Z") eqn:E6; [apply String.eqb_eq in E6; subst; split; reflexivity |].
    cbn [orb]. rewrite ?E1, ?E3, ?E5. split; reflexivity.
  - unfold slice_validate. cbn [existsb].
    destruct (Z.eqb_spec z 0), (Z.eqb_spec z 1), (Z.eqb_spec z 2), (Z.leb_spec 0 z), (Z.ltb_spec z 2), (Z.ltb_spec z 3);
      cbn [orb andb negb]; try (split; reflexivity); lia.
Qed.

(* ---- the range checks of the sampler descriptors mean range_validate ------------------------------------------------------ *)
Definition rv (r : range_arg) : option err := let '(len, a, b, n) := r in range_validate len a b n.
Lemma rv_cases r : rv r = None \/ rv r = Some ErrValue.
Proof.
  destruct r as [[[len a] b] n]. unfold rv, range_validate.
  destruct (negb (len =? 3)%Z); auto. destruct (Qltb b a); auto. destruct (n <? 1)%Z; auto.
Qed.
Lemma sampler_checks_1d r : checks_eval [r] (sd_checks (range_desc 1 false)) = rv r.
Proof.
  destruct r as [[[len a] b] n]. unfold rv, range_validate. cbn.
  destruct (negb (len =? 3)%Z); [reflexivity |]. destruct (Qltb b a); [reflexivity |]. destruct (n <? 1)%Z; reflexivity.
Qed.
(* two and three ranges: the call is accepted exactly when every range is *)
Lemma sampler_checks_3d r0 r1 r2 vector :
  (checks_eval [r0; r1; r2] (sd_checks (range_desc 3 vector)) = None <-> (rv r0 = None /\ rv r1 = None /\ rv r2 = None))
  /\ (checks_eval [r0; r1] (sd_checks (range_desc 2 vector)) = None <-> (rv r0 = None /\ rv r1 = None)).
Proof.
  destruct r0 as [[[l0 a0] b0] n0], r1 as [[[l1 a1] b1] n1], r2 as [[[l2 a2] b2] n2]. unfold rv, range_validate. cbn. unfold check_fires. cbn.
  change (Pos.to_nat 1) with 1%nat. change (Pos.to_nat 2) with 2%nat. cbn.
  destruct (negb (l0 =? 3)%Z), (negb (l1 =? 3)%Z), (negb (l2 =? 3)%Z), (Qltb b0 a0), (Qltb b1 a1), (Qltb b2 a2),
    (n0 <? 1)%Z, (n1 <? 1)%Z, (n2 <? 1)%Z; cbn; split; split; intros H; try discriminate; try reflexivity;
    try (destruct H as (? & ? & ?); discriminate); try (destruct H as (? & ?); discriminate); repeat split; reflexivity.
Qed.
