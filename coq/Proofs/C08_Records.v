(* C08 -- fixed-width records (ADF12 / ADF21 / ADF22): reading back what a FORTRAN-style writer wrote,
   for every number of fields and every record width. *)
Require Import Cherab.Common.Qx.
Require Import Cherab.Model.C08_Text Cherab.Model.C08_Adf.
From Coq Require Import Ascii String Arith.
Open Scope nat_scope.

Definition len9 (f : str) : Prop := List.length f = 9.
Definition body (fs : list str) : str := flat_map (fun f => sp :: f) fs.
Definition repl (f : str) : str := replace_char "D"%char "E"%char f.

Lemma write_record_body fs : write_record fs = body fs ++ [nl].
Proof. reflexivity. Qed.

Lemma body_app a b : body (a ++ b) = body a ++ body b.
Proof. unfold body. apply flat_map_app. Qed.

Lemma body_length pre : Forall len9 pre -> List.length (body pre) = List.length pre * 10.
Proof.
  induction 1 as [|f pre Hf _ IH]; [reflexivity|].
  unfold body in *. cbn [flat_map List.length]. rewrite app_length. cbn [List.length]. rewrite IH, Hf. lia.
Qed.

Lemma skipn_app_exact {A} (a b : list A) n : skipn (List.length a + n) (a ++ b) = skipn n b.
Proof. induction a as [|x a IH]; [reflexivity | exact IH]. Qed.
Lemma firstn_app_exact {A} (a b : list A) : firstn (List.length a) (a ++ b) = a.
Proof. induction a as [|x a IH]; [destruct b; reflexivity | cbn [List.length app firstn]; f_equal; exact IH]. Qed.

(* the k-th 10-column field of a record is the k-th text (after D -> E) *)
Lemma field_record pre f post tail :
  Forall len9 pre -> len9 f ->
  field (List.length pre) (body (pre ++ f :: post) ++ tail) = repl f.
Proof.
  intros Hpre Hf. unfold field, slice, repl. apply f_equal.
  rewrite body_app, <- app_assoc.
  replace (1 + List.length pre * 10) with (List.length (body pre) + 1) by (rewrite body_length by assumption; lia).
  rewrite skipn_app_exact.
  replace ((List.length pre + 1) * 10 - (List.length (body pre) + 1)) with (List.length f)
    by (rewrite body_length by assumption; rewrite Hf; lia).
  change (body (f :: post)) with ((sp :: f) ++ body post).
  change (skipn 1 (((sp :: f) ++ body post) ++ tail)) with ((f ++ body post) ++ tail).
  rewrite <- app_assoc. apply firstn_app_exact.
Qed.

Definition knext (p k : nat) : nat := if Nat.eqb k p then 0 else k.

(* the rest of a record, once at least one field of it has been read *)
Lemma loop_in_record : forall fs pre n' p tail ls,
  Forall len9 (pre ++ fs) -> pre <> [] -> List.length pre < p -> List.length (pre ++ fs) <= p ->
  readvalues_loop (List.length fs + n') (List.length pre) p (body (pre ++ fs) ++ tail) ls =
  (let '(r, st) := readvalues_loop n' (knext p (List.length (pre ++ fs))) p (body (pre ++ fs) ++ tail) ls in
   (map repl fs ++ r, st)).
Proof.
  induction fs as [|f fs IH]; intros pre n' p tail ls Hall Hne Hlt Hle.
  - rewrite app_nil_r. unfold knext. replace (Nat.eqb (List.length pre) p) with false
      by (symmetry; apply Nat.eqb_neq; lia).
    cbn [List.length plus map app]. destruct (readvalues_loop n' _ _ _ _) as [r st]. reflexivity.
  - cbn [List.length plus]. cbn [readvalues_loop].
    replace (Nat.eqb (List.length pre) 0) with false
      by (symmetry; apply Nat.eqb_neq; destruct pre; [congruence | cbn; lia]).
    assert (Hpre : Forall len9 pre) by (apply Forall_app in Hall; tauto).
    assert (Hf : len9 f) by (apply Forall_app in Hall; destruct Hall as [_ H]; inversion H; assumption).
    rewrite field_record by assumption.
    rewrite app_length in Hle. cbn [List.length] in Hle.
    destruct (Nat.eqb (S (List.length pre)) p) eqn:Efull.
    + apply Nat.eqb_eq in Efull. assert (fs = []) by (destruct fs; [reflexivity | cbn in Hle; lia]). subst fs.
      cbn [List.length plus map app]. unfold knext.
      replace (Nat.eqb (List.length (pre ++ [f])) p) with true
        by (symmetry; apply Nat.eqb_eq; rewrite app_length; cbn; lia).
      destruct (readvalues_loop n' _ _ _ _) as [r st]. reflexivity.
    + apply Nat.eqb_neq in Efull.
      replace (pre ++ f :: fs) with ((pre ++ [f]) ++ fs) by (rewrite <- app_assoc; reflexivity).
      replace (S (List.length pre)) with (List.length (pre ++ [f])) by (rewrite app_length; cbn; lia).
      rewrite IH.
      * destruct (readvalues_loop n' _ _ _ _) as [r st]. reflexivity.
      * rewrite <- app_assoc. exact Hall.
      * destruct pre; discriminate.
      * rewrite app_length. cbn. lia.
      * rewrite !app_length in *. cbn [List.length] in *. lia.
Qed.

(* one whole record, starting with the readline() that k = 0 triggers *)
Lemma loop_record : forall f fs n' p cur ls,
  Forall len9 (f :: fs) -> List.length (f :: fs) <= p ->
  readvalues_loop (List.length (f :: fs) + n') 0 p cur (write_record (f :: fs) :: ls) =
  (let '(r, st) := readvalues_loop n' (knext p (List.length (f :: fs))) p (write_record (f :: fs)) ls in
   (map repl (f :: fs) ++ r, st)).
Proof.
  intros f fs n' p cur ls Hall Hle.
  cbn [List.length plus]. cbn [readvalues_loop]. change (Nat.eqb 0 0) with true. cbn [readline].
  rewrite write_record_body.
  assert (Hf : len9 f) by (inversion Hall; assumption).
  pose proof (field_record [] f fs [nl] (Forall_nil _) Hf) as H0. cbn [List.length app] in H0. rewrite H0.
  cbn [List.length] in Hle.
  destruct (Nat.eqb 1 p) eqn:E1.
  - apply Nat.eqb_eq in E1. subst p. assert (fs = []) by (destruct fs; [reflexivity | cbn in Hle; lia]). subst fs.
    cbn [List.length knext Nat.eqb map app]. change (0 + n') with n'.
    destruct (readvalues_loop n' _ _ _ _) as [r st]. reflexivity.
  - apply Nat.eqb_neq in E1.
    pose proof (loop_in_record fs [f] n' p [nl] ls) as H. cbn [List.length app] in H.
    rewrite H.
    + cbn [map app]. destruct (readvalues_loop n' _ _ _ _) as [r st]. reflexivity.
    + exact Hall.
    + discriminate.
    + lia.
    + lia.
Qed.

(* a list of records as a FORTRAN writer produces them: every record but the last is full *)
Fixpoint records_ok (p : nat) (recs : list (list str)) : Prop :=
  match recs with
  | [] => True
  | r :: rest => Forall len9 r /\ 1 <= List.length r <= p /\
                 match rest with [] => True | _ => List.length r = p /\ records_ok p rest end
  end.

Lemma loop_records : forall recs p cur rest,
  records_ok p recs ->
  exists c, readvalues_loop (List.length (List.concat recs)) 0 p cur (map write_record recs ++ rest)
            = (map repl (List.concat recs), (c, rest)).
Proof.
  induction recs as [|r recs IH]; intros p cur rest Hok.
  - exists cur. reflexivity.
  - destruct Hok as (Hall & Hlen & Hrest).
    destruct r as [|f fs]; [cbn in Hlen; lia|].
    change (List.concat ((f :: fs) :: recs)) with ((f :: fs) ++ List.concat recs).
    change (map write_record ((f :: fs) :: recs) ++ rest) with (write_record (f :: fs) :: (map write_record recs ++ rest)).
    rewrite app_length.
    rewrite loop_record by (assumption || lia).
    destruct recs as [|r2 recs'].
    + cbn [List.concat List.length map app]. cbn [readvalues_loop].
      eexists. rewrite !app_nil_r. reflexivity.
    + destruct Hrest as (Hfull & Hok').
      unfold knext. rewrite Hfull, Nat.eqb_refl.
      destruct (IH p (write_record (f :: fs)) rest Hok') as (c & Hc).
      rewrite Hc. exists c. rewrite map_app. reflexivity.
Qed.

Theorem readvalues_roundtrip : forall recs p rest,
  records_ok p recs ->
  readvalues (List.length (List.concat recs)) p (map write_record recs ++ rest)
  = (map repl (List.concat recs), rest).
Proof.
  intros recs p rest Hok. unfold readvalues.
  destruct (loop_records recs p [] rest Hok) as (c & Hc). rewrite Hc. reflexivity.
Qed.

(* the writer model used by the correspondence produces such records *)
Lemma chunks_aux_ok : forall fuel p l, 1 <= p -> List.length l <= fuel -> Forall len9 l ->
  records_ok p (chunks_aux fuel p l) /\ List.concat (chunks_aux fuel p l) = l.
Proof.
  induction fuel as [|fuel IH]; intros p l Hp Hlen Hall.
  - destruct l; [split; reflexivity | cbn in Hlen; lia].
  - destruct l as [|a l]; [split; reflexivity|].
    cbn [chunks_aux].
    set (l0 := a :: l) in *.
    assert (Hskip : List.length (skipn p l0) <= fuel).
    { rewrite skipn_length. unfold l0 in *. cbn [List.length] in *. lia. }
    destruct (IH p (skipn p l0) Hp Hskip) as (Hok & Hcat).
    { apply Forall_forall. intros x Hx. rewrite Forall_forall in Hall. apply Hall.
      rewrite <- (firstn_skipn p l0). apply in_or_app. right. exact Hx. }
    split.
    + cbn [records_ok]. split; [|split].
      * apply Forall_forall. intros x Hx. rewrite Forall_forall in Hall. apply Hall.
        rewrite <- (firstn_skipn p l0). apply in_or_app. left. exact Hx.
      * rewrite firstn_length. unfold l0. cbn [List.length]. lia.
      * destruct (chunks_aux fuel p (skipn p l0)) as [|r2 more] eqn:E; [exact I|].
        split; [|exact Hok].
        rewrite firstn_length. apply Nat.min_l.
        destruct (le_lt_dec p (List.length l0)) as [Hle|Hlt]; [exact Hle|].
        exfalso. rewrite skipn_all2 in E by lia.
        destruct fuel; cbn in E; discriminate.
    + cbn [List.concat]. rewrite Hcat. apply firstn_skipn.
Qed.

Theorem write_values_roundtrip : forall p fields rest,
  1 <= p -> Forall len9 fields ->
  readvalues (List.length fields) p (write_values p fields ++ rest) = (map repl fields, rest).
Proof.
  intros p fields rest Hp Hall. unfold write_values, chunks.
  destruct (chunks_aux_ok (List.length fields) p fields Hp (le_n _) Hall) as (Hok & Hcat).
  pose proof (readvalues_roundtrip _ p rest Hok) as H. rewrite Hcat in H. exact H.
Qed.
