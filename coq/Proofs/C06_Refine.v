(* C06: the file-system model refines the abstract store, for every history. *)
From Coq Require Import ZArith List Bool String Ascii Lia.
Require Import Cherab.Model.C06_Repo Cherab.Model.C06_Spec Cherab.Proofs.C06_Keys.
Import ListNotations.
Open Scope Z_scope.
Open Scope list_scope.

(* ---- association lists ---- *)
Lemma flookup_fset s' s v c :
  flookup s' (fset s v c) = if subkey_eqb s' s then Some v else flookup s' c.
Proof.
  induction c as [|[s0 v0] c IH]; cbn.
  - destruct (subkey_eqb s' s); reflexivity.
  - destruct (subkey_eqb_spec s s0) as [->|N]; cbn.
    + destruct (subkey_eqb s' s0); reflexivity.
    + destruct (subkey_eqb_spec s' s0) as [->|N'].
      * destruct (subkey_eqb_spec s0 s); [congruence | reflexivity].
      * exact IH.
Qed.

Lemma read_write p' p c d :
  read p' (write p c d) = if path_eqb p' p then Some c else read p' d.
Proof.
  induction d as [|[p0 c0] d IH]; cbn.
  - destruct (path_eqb p' p); reflexivity.
  - destruct (path_eqb_spec p p0) as [->|N]; cbn.
    + destruct (path_eqb p' p0); reflexivity.
    + destruct (path_eqb_spec p' p0) as [->|N'].
      * destruct (path_eqb_spec p0 p); [congruence | reflexivity].
      * exact IH.
Qed.

Lemma files_write p c d q : In q (files (write p c d)) -> q = p \/ In q (files d).
Proof.
  unfold files. induction d as [|[p0 c0] d IH]; cbn.
  - intros [<-|[]]; auto.
  - destruct (path_eqb_spec p p0) as [->|N]; cbn.
    + intros [<-|H]; auto.
    + intros [<-|H]; auto. destruct (IH H); auto.
Qed.

(* ---- abstract maps ---- *)
Lemma awrites_ext ws (m m' : amap) k : m k = m' k -> awrites ws m k = awrites ws m' k.
Proof.
  revert m m'; induction ws as [|x ws IH]; cbn; intros m m' H; [exact H|].
  apply IH. unfold aset. destruct (key_eq_dec k (fst x)); [reflexivity | exact H].
Qed.

Lemma awrites_app ws ws' m : awrites (ws ++ ws') m = awrites ws' (awrites ws m).
Proof. unfold awrites. apply fold_left_app. Qed.

Lemma awrites_notin ws m k : ~ In k (map fst ws) -> awrites ws m k = m k.
Proof.
  revert m; induction ws as [|x ws IH]; cbn; intros m H; [reflexivity|].
  rewrite IH by tauto. unfold aset. destruct (key_eq_dec k (fst x)); [subst; tauto | reflexivity].
Qed.

(* the value under k is the old one or one of the written ones *)
Lemma awrites_cases ws m k : awrites ws m k = m k \/ exists v, In (k, v) ws /\ awrites ws m k = Some v.
Proof.
  revert m; induction ws as [|x ws IH]; cbn; intros m; [auto|].
  destruct (IH (aset x m)) as [H|[v [I H]]].
  - unfold aset in H at 2. destruct (key_eq_dec k (fst x)) as [E|N].
    + right. exists (snd x). split; [left; destruct x; cbn in *; congruence | exact H].
    + left. exact H.
  - right. exists v. auto.
Qed.

(* ---- well-formed groups: every leaf lives in the group's file ---- *)
Definition item_wf (gp : path) (it : item) : Prop := kpath (it_key it) = gp /\ key_ok (it_key it) = true.
Definition group_wf (m : mode) (g : group) : Prop :=
  Forall (item_wf (g_path g)) (g_items g) /\
  (m = MC -> Forall (fun it => ksub (it_key it) = SNone) (g_items g)).

Lemma app_inv_head_path (r x y : path) : (r ++ x)%list = (r ++ y)%list -> x = y.
Proof. apply app_inv_head. Qed.

(* files that hold a single rate are never addressed with a sub-key *)
Lemma kpath_snone k k' : kpath k = kpath k' -> ksub k = SNone -> ksub k' = SNone.
Proof.
  destruct k as [f s q|d dq r rq|c s q t|d dq r rq t|s q t|d r rq t m|b t q|b m t q|b t q tr];
  destruct k' as [f' s' q'|d' dq' r' rq'|c' s' q' t'|d' dq' r' rq' t'|s' q' t'|d' r' rq' t' m'|b' t' q'|b' m' t' q'|b' t' q' tr'];
  cbn [kpath ksub loc fst snd]; intros H S; try discriminate S; try reflexivity;
  try (destruct f'); try (destruct c');
  cbv [path_adf11 adf11_dir path_tcx path_pec pec_dir path_pectcx path_wvl path_bcx path_bstop path_bpop path_bem
       path_tcx_s path_pec_s path_pec_d path_pectcx_s path_wvl_s path_bcx_s path_bstop_s path_bpop_s path_bem_s app] in H;
  discriminate H.
Qed.

Lemma loc_eq k k' : kpath k = kpath k' -> ksub k = ksub k' -> loc k = loc k'.
Proof. unfold kpath, ksub. destruct (loc k), (loc k'); cbn; congruence. Qed.

Section OneRoot.
Variable root : path.    (* the repository that is being read *)
Variable k' : key.       (* the key that is being read *)
Hypothesis Hk' : key_ok k' = true.

(* the read of k' after a file has been rewritten *)
Lemma get_write r gp c d :
  get root k' (write (r ++ gp) c d) =
  if path_eqb (root ++ kpath k') (r ++ gp) then flookup (ksub k') c else get root k' d.
Proof.
  unfold get, get_loc. fold (kpath k') (ksub k'). rewrite read_write.
  destruct (path_eqb (root ++ kpath k') (r ++ gp)); reflexivity.
Qed.

Lemma get_read_or_empty gp d :
  path_eqb (root ++ kpath k') (root ++ gp) = true ->
  get root k' d = flookup (ksub k') (read_or_empty (root ++ gp) d).
Proof.
  intros E. destruct (path_eqb_spec (root ++ kpath k') (root ++ gp)) as [E'|]; [|discriminate].
  unfold get, get_loc, read_or_empty. fold (kpath k') (ksub k'). rewrite E'.
  destruct (read (root ++ gp) d); reflexivity.
Qed.

Definition fset_item (c : file) (it : item) : file := fset (ksub (it_key it)) (it_val it) c.

(* setting leaves in a file content, seen through the key k' *)
Lemma fold_fset_view gp (P : bool) (X : option val) items :
  (P = true -> kpath k' = gp) -> (P = false -> kpath k' <> gp) ->
  Forall (item_wf gp) items ->
  forall c (m : amap),
  m k' = (if P then flookup (ksub k') c else X) ->
  (if P then flookup (ksub k') (fold_left fset_item items c) else X) = awrites (map item_kv items) m k'.
Proof.
  intros HP HnP W. induction W as [|it items [Wp Wk] W IH]; intros c m Hm; cbn; [now rewrite Hm|].
  apply IH. unfold aset, item_kv, fset_item; cbn [fst snd].
  destruct (key_eq_dec k' (it_key it)) as [E|N].
  - destruct P.
    + rewrite flookup_fset, E, subkey_eqb_refl. reflexivity.
    + exfalso. apply (HnP eq_refl). now rewrite E.
  - rewrite Hm. destruct P; [|reflexivity].
    rewrite flookup_fset. destruct (subkey_eqb_spec (ksub k') (ksub (it_key it))) as [E|]; [|reflexivity].
    exfalso. apply N. apply loc_injective; auto. apply loc_eq; [|exact E]. rewrite Wp. auto.
Qed.

(* writing a file after setting leaves in its current content = the same abstract writes *)
Lemma view_write_items gp items d :
  Forall (item_wf gp) items ->
  get root k' (write (root ++ gp) (fold_left fset_item items (read_or_empty (root ++ gp) d)) d)
  = awrites (map item_kv items) (view root d) k'.
Proof.
  intros W. rewrite get_write.
  apply (fold_fset_view gp (path_eqb (root ++ kpath k') (root ++ gp)) (get root k' d)); auto.
  - intros E. destruct (path_eqb_spec (root ++ kpath k') (root ++ gp)) as [E'|]; [|discriminate].
    now apply app_inv_head in E'.
  - intros E E'. rewrite E', path_eqb_refl in E. discriminate.
  - unfold view. destruct (path_eqb (root ++ kpath k') (root ++ gp)) eqn:E; [|reflexivity].
    now apply get_read_or_empty.
Qed.

(* a step addressed to a separated root is invisible *)
Lemma get_write_sep r gp c d : separated root r -> get root k' (write (r ++ gp) c d) = get root k' d.
Proof.
  intros S. rewrite get_write.
  destruct (path_eqb_spec (root ++ kpath k') (r ++ gp)) as [E|]; [|reflexivity].
  exfalso. exact (S _ _ E).
Qed.

(* ---------------- discipline A ---------------- *)
Lemma set_one_content gp it d content :
  item_wf gp it -> read_or_empty (root ++ gp) d = content ->
  get root k' (write (root ++ gp) (fset_item content it) d) = aset (item_kv it) (view root d) k'.
Proof.
  intros W <-. exact (view_write_items gp [it] d (Forall_cons _ W (Forall_nil _))).
Qed.

Lemma read_or_empty_write p c d : read_or_empty p (write p c d) = c.
Proof. unfold read_or_empty. now rewrite read_write, path_eqb_refl. Qed.

Lemma exec_A_items_refines gp items :
  Forall (item_wf gp) items ->
  forall content d, read_or_empty (root ++ gp) d = content ->
  get root k' (fst (exec_A_items (root ++ gp) items content d))
    = awrites (fst (commit_items_A items)) (view root d) k'
  /\ snd (exec_A_items (root ++ gp) items content d) = snd (commit_items_A items).
Proof.
  intros W. induction W as [|it items Wi W IH]; intros content d Hc; cbn; [auto|].
  destruct (it_ok it); cbn; [|auto].
  destruct (commit_items_A items) as [l o] eqn:EC; cbn.
  specialize (IH (fset (ksub (it_key it)) (it_val it) content)
                 (write (root ++ gp) (fset (ksub (it_key it)) (it_val it) content) d)
                 (read_or_empty_write _ _ _)).
  cbn in IH. destruct IH as [IH1 IH2]. split; [|exact IH2].
  rewrite IH1. apply awrites_ext. unfold view at 1.
  exact (set_one_content gp it d content Wi Hc).
Qed.

Lemma exec_A_items_sep r gp items content d :
  separated root r ->
  get root k' (fst (exec_A_items (r ++ gp) items content d)) = get root k' d.
Proof.
  intros S. revert content d. induction items as [|it items IH]; intros content d; cbn; [reflexivity|].
  destruct (it_ok it); cbn; [|reflexivity]. rewrite IH. now apply get_write_sep.
Qed.

Lemma exec_A_refines gs :
  Forall (group_wf MA) gs ->
  forall d,
  get root k' (fst (exec_A root gs d)) = awrites (fst (commit_A gs)) (view root d) k'
  /\ snd (exec_A root gs d) = snd (commit_A gs).
Proof.
  intros W. induction W as [|g gs [Wg _] W IH]; intros d; cbn; [auto|].
  destruct (g_ok g); cbn; [|auto].
  destruct (exec_A_items_refines (g_path g) (g_items g) Wg _ d eq_refl) as [H1 H2].
  destruct (exec_A_items (root ++ g_path g) (g_items g) (read_or_empty (root ++ g_path g) d) d) as [d1 o1].
  destruct (commit_items_A (g_items g)) as [l1 o1'] eqn:EC. cbn in H1, H2. subst o1'.
  destruct o1; cbn; [|auto].
  destruct (IH d1) as [IH1 IH2]. destruct (commit_A gs) as [l2 o2]; cbn in *.
  split; [|exact IH2]. rewrite IH1, awrites_app. apply awrites_ext. exact H1.
Qed.

Lemma exec_A_sep r gs d : separated root r -> get root k' (fst (exec_A r gs d)) = get root k' d.
Proof.
  intros S. revert d. induction gs as [|g gs IH]; intros d; cbn; [reflexivity|].
  destruct (g_ok g); cbn; [|reflexivity].
  pose proof (exec_A_items_sep r (g_path g) (g_items g) (read_or_empty (r ++ g_path g) d) d S) as H.
  destruct (exec_A_items (r ++ g_path g) (g_items g) (read_or_empty (r ++ g_path g) d) d) as [d1 o1].
  cbn in H. destruct o1; cbn; [|exact H]. now rewrite IH.
Qed.

(* ---------------- discipline B ---------------- *)
Lemma set_items_spec items c :
  set_items items c = if forallb it_ok items then Some (fold_left fset_item items c) else None.
Proof.
  revert c; induction items as [|it items IH]; intros c; cbn; [reflexivity|].
  destruct (it_ok it); cbn; [apply IH | reflexivity].
Qed.

Lemma exec_B_refines gs :
  Forall (group_wf MB) gs ->
  forall d,
  get root k' (fst (exec_B root gs d)) = awrites (fst (commit_B gs)) (view root d) k'
  /\ snd (exec_B root gs d) = snd (commit_B gs).
Proof.
  intros W. induction W as [|g gs [Wg _] W IH]; intros d; cbn; [auto|].
  rewrite set_items_spec.
  destruct (g_ok g); cbn; [|auto].
  destruct (forallb it_ok (g_items g)); cbn; [|auto].
  destruct (IH (write (root ++ g_path g)
                      (fold_left fset_item (g_items g) (read_or_empty (root ++ g_path g) d)) d)) as [IH1 IH2].
  destruct (commit_B gs) as [l2 o2]; cbn in *. split; [|exact IH2].
  rewrite IH1, awrites_app. apply awrites_ext. unfold view at 1, group_writes.
  now apply view_write_items.
Qed.

Lemma exec_B_sep r gs d : separated root r -> get root k' (fst (exec_B r gs d)) = get root k' d.
Proof.
  intros S. revert d. induction gs as [|g gs IH]; intros d; cbn; [reflexivity|].
  destruct (g_ok g); cbn; [|reflexivity].
  destruct (set_items (g_items g) (read_or_empty (r ++ g_path g) d)); [|reflexivity].
  rewrite IH. now apply get_write_sep.
Qed.

(* ---------------- discipline C ---------------- *)
Lemma view_overwrite gp it d :
  item_wf gp it -> ksub (it_key it) = SNone ->
  get root k' (write (root ++ gp) [(SNone, it_val it)] d) = aset (item_kv it) (view root d) k'.
Proof.
  intros [Wp Wk] WS. rewrite get_write. unfold aset, item_kv, view; cbn [fst snd].
  destruct (path_eqb_spec (root ++ kpath k') (root ++ gp)) as [E|NE].
  - apply app_inv_head in E.
    assert (S' : ksub k' = SNone) by (apply (kpath_snone (it_key it) k'); congruence).
    assert (K : k' = it_key it).
    { apply loc_injective; auto. apply loc_eq; congruence. }
    destruct (key_eq_dec k' (it_key it)); [|contradiction].
    rewrite S'. reflexivity.
  - destruct (key_eq_dec k' (it_key it)) as [E|]; [|reflexivity].
    exfalso. apply NE. now rewrite E, Wp.
Qed.

Lemma exec_C_refines gs :
  Forall (group_wf MC) gs ->
  forall d,
  get root k' (fst (exec_C root gs d)) = awrites (fst (commit_C gs)) (view root d) k'
  /\ snd (exec_C root gs d) = snd (commit_C gs).
Proof.
  intros W. induction W as [|g gs [Wg WS] W IH]; intros d; cbn; [auto|].
  destruct (g_ok g); cbn; [|auto].
  destruct (g_items g) as [|it [|it2 rest]]; cbn; auto.
  destruct (it_ok it); cbn; [|auto].
  destruct (it_ser it); cbn; [|auto].
  destruct (IH (write (root ++ g_path g) [(SNone, it_val it)] d)) as [IH1 IH2].
  destruct (commit_C gs) as [l2 o2]; cbn in *. split; [|exact IH2].
  rewrite IH1. apply awrites_ext. unfold view at 1.
  apply view_overwrite.
  - now inversion Wg.
  - specialize (WS eq_refl). now inversion WS.
Qed.

Lemma exec_C_sep r gs d : separated root r -> get root k' (fst (exec_C r gs d)) = get root k' d.
Proof.
  intros S. revert d. induction gs as [|g gs IH]; intros d; cbn; [reflexivity|].
  destruct (g_ok g); cbn; [|reflexivity].
  destruct (g_items g) as [|it [|it2 rest]]; cbn; try reflexivity.
  destruct (it_ok it); cbn; [|reflexivity].
  destruct (it_ser it); cbn; [|reflexivity].
  rewrite IH. now apply get_write_sep.
Qed.

(* ---------------- any discipline, any step list ---------------- *)
Lemma exec_refines m gs :
  Forall (group_wf m) gs ->
  forall d,
  get root k' (fst (exec m root gs d)) = awrites (fst (commit m gs)) (view root d) k'
  /\ snd (exec m root gs d) = snd (commit m gs).
Proof. destruct m; [apply exec_A_refines | apply exec_B_refines | apply exec_C_refines]. Qed.

Lemma exec_sep m r gs d : separated root r -> get root k' (fst (exec m r gs d)) = get root k' d.
Proof. destruct m; [apply exec_A_sep | apply exec_B_sep | apply exec_C_sep]. Qed.

Lemma exec_outcome m r gs :
  Forall (group_wf m) gs -> forall d, snd (exec m r gs d) = snd (commit m gs).
Proof.
  intros W; destruct m; cbn [exec commit].
  - induction W as [|g gs [Wg _] W IH]; intros d; cbn; [auto|].
    destruct (g_ok g); cbn; [|auto].
    assert (H : forall content d0,
               snd (exec_A_items (r ++ g_path g) (g_items g) content d0) = snd (commit_items_A (g_items g))).
    { clear. induction (g_items g) as [|it items IH]; intros content d0; cbn; [auto|].
      destruct (it_ok it); cbn; [|auto]. rewrite IH. destruct (commit_items_A items); reflexivity. }
    specialize (H (read_or_empty (r ++ g_path g) d) d).
    destruct (exec_A_items (r ++ g_path g) (g_items g) (read_or_empty (r ++ g_path g) d) d) as [d1 o1].
    destruct (commit_items_A (g_items g)) as [l1 o1']. cbn in H. subst o1'.
    destruct o1; cbn; [|auto]. rewrite IH. destruct (commit_A gs); reflexivity.
  - induction W as [|g gs _ W IH]; intros d; cbn; [auto|].
    rewrite set_items_spec. destruct (g_ok g); cbn; [|auto].
    destruct (forallb it_ok (g_items g)); cbn; [|auto].
    rewrite IH. destruct (commit_B gs); reflexivity.
  - induction W as [|g gs _ W IH]; intros d; cbn; [auto|].
    destruct (g_ok g); cbn; [|auto].
    destruct (g_items g) as [|it [|it2 rest]]; cbn; auto.
    destruct (it_ok it); cbn; [|auto]. destruct (it_ser it); cbn; [|auto]. rewrite IH. destruct (commit_C gs); reflexivity.
Qed.

Definition step_wf (s : mode * path * list group) : Prop :=
  Forall (group_wf (fst (fst s))) (snd s) /\ (snd (fst s) = root \/ separated root (snd (fst s))).

Lemma at_root_tag_same l : at_root root (tag root l) = l.
Proof.
  unfold at_root, tag. induction l as [|x l IH]; cbn; [reflexivity|].
  rewrite path_eqb_refl. cbn. now rewrite IH.
Qed.

Lemma separated_neq r : separated root r -> path_eqb r root = false.
Proof.
  intros S. destruct (path_eqb_spec r root) as [->|]; [|reflexivity].
  exfalso. exact (S [] [] eq_refl).
Qed.

Lemma at_root_tag_sep r l : separated root r -> at_root root (tag r l) = [].
Proof.
  intros S. unfold at_root, tag. induction l as [|x l IH]; cbn; [reflexivity|].
  rewrite (separated_neq r S). exact IH.
Qed.

Lemma at_root_app l l' : at_root root (l ++ l') = at_root root l ++ at_root root l'.
Proof. unfold at_root. now rewrite filter_app, map_app. Qed.

Lemma run_steps_refines ss :
  Forall step_wf ss ->
  forall d,
  get root k' (fst (run_steps ss d)) = awrites (at_root root (fst (commit_steps ss))) (view root d) k'
  /\ snd (run_steps ss d) = snd (commit_steps ss).
Proof.
  intros W. induction W as [|[[m r] gs] ss [Wg Wr] W IH]; intros d; cbn; [auto|].
  cbn in Wg, Wr.
  pose proof (exec_outcome m r gs Wg d) as HO.
  assert (HV : get root k' (fst (exec m r gs d))
               = awrites (at_root root (tag r (fst (commit m gs)))) (view root d) k').
  { destruct Wr as [->|S].
    - rewrite at_root_tag_same. now apply exec_refines.
    - rewrite (at_root_tag_sep r _ S). cbn. now apply exec_sep. }
  destruct (exec m r gs d) as [d1 o1]. destruct (commit m gs) as [l1 o1']. cbn [fst snd] in HO, HV. subst o1'.
  destruct o1; cbn [fst snd].
  - destruct (IH d1) as [IH1 IH2]. destruct (commit_steps ss) as [l2 o2]; cbn [fst snd] in *.
    split; [|exact IH2]. rewrite at_root_app, awrites_app, IH1. apply awrites_ext. exact HV.
  - split; [exact HV | reflexivity].
Qed.

Definition call_wf (c : call) : Prop := Forall step_wf (steps c).

Lemma run_refines cs :
  Forall call_wf cs ->
  forall d, get root k' (run cs d) = awrites (at_root root (commit_history cs)) (view root d) k'.
Proof.
  intros W. induction W as [|c cs Wc W IH]; intros d; cbn [run]; [reflexivity|].
  rewrite IH. change (commit_history (c :: cs)) with (commit_call c ++ commit_history cs).
  rewrite at_root_app, awrites_app.
  apply awrites_ext. unfold view at 1, run_call, commit_call.
  exact (proj1 (run_steps_refines (steps c) Wc d)).
Qed.

End OneRoot.
