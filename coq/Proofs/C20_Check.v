(* The fast evaluator used by the correspondence computes the model's ADMT row. *)
Require Import Cherab.Common.Qx.
Require Import Cherab.Model.C20_Stencil Cherab.Model.C20_Admt Cherab.Model.C20_Check.
Open Scope Q_scope.

Lemma coeffs_red (j : jet) :
  c_x (jet_red j) == c_x j /\ c_y (jet_red j) == c_y j /\ c_xx (jet_red j) == c_xx j
  /\ c_xy (jet_red j) == c_xy j /\ c_yy (jet_red j) == c_yy j.
Proof.
  destruct j as [a b axx axy ayy dp dl dpx dpy dlx dly r].
  unfold c_x, c_y, c_xx, c_yy, c_xy, ddiff_term_cx, dnorm_term_cx, ddiff_term_cy, dnorm_term_cy,
         toroidal_term_cx, toroidal_term_cy, c_xx, c_xy, normalisation, jet_red; cbn.
  rewrite !Qred_correct. repeat split; reflexivity.
Qed.

Lemma admt_coeffs_fast_ok j nx ny ix iy dx dy s :
  Forall2 Qeq (admt_coeffs_fast j nx ny ix iy dx dy s) (coeffs (admt_row j nx ny ix iy dx dy s)).
Proof.
  destruct (coeffs_red j) as (E1 & E2 & E3 & E4 & E5).
  unfold admt_coeffs_fast, coeffs, admt_row.
  induction offs as [|ab l IH]; cbn [map]; constructor; auto.
  rewrite !Qred_correct, E1, E2, E3, E4, E5. reflexivity.
Qed.
