(* C18: laser spectra.  History independence of the cached arrays and accessors; bin centres;
   per-bin power = CDF difference (Gaussian) / = 1/bins (constant); sums. *)
Require Import Cherab.Common.Qx.
Require Import Cherab.Model.C18_Laser Cherab.Model.C18_Spectrum.
From Coq Require Import Qround Qabs Lqa.
Open Scope Q_scope.

Section Spectrum.
Variable erf : Q -> Q.
Variable expo : Q -> Q.
Variable sqrt2 : Q.
Variable sqrt2pi : Q.

Notation update_cache := (update_cache erf).
Notation sstep := (sstep erf sqrt2 sqrt2pi).
Notation srun := (srun erf sqrt2 sqrt2pi).
Notation sconstruct := (sconstruct erf sqrt2 sqrt2pi).
Notation bins_loop := (bins_loop erf).
Notation bin_psd := (bin_psd erf).

(* ------------------------------------------------------------------------------------------ *)
(* the cache is a function of the parameters only                                               *)
(* ------------------------------------------------------------------------------------------ *)
Definition sparams (s : sstate) :=
  (sk s, s_min s, s_max s, s_bins s, s_mean s, s_std s, s_recip s, s_norm s, s_ncdf s).

Lemma bin_psd_params s s' d lo hi : sparams s = sparams s' -> bin_psd s d lo hi = bin_psd s' d lo hi.
Proof.
  destruct s, s'. unfold sparams. cbn. intro H. inversion H; subst. reflexivity.
Qed.

Lemma bins_loop_params s s' d n lo : sparams s = sparams s' -> bins_loop s d n lo = bins_loop s' d n lo.
Proof.
  intro H. revert lo; induction n as [|n IH]; intro lo; cbn [C18_Spectrum.bins_loop]; [reflexivity|].
  rewrite (bin_psd_params s s') by assumption. now rewrite IH.
Qed.

Lemma update_cache_params s s' : sparams s = sparams s' -> update_cache s = update_cache s'.
Proof.
  intro H. unfold C18_Spectrum.update_cache. rewrite (bins_loop_params s s') by assumption.
  destruct s, s'. unfold sparams in H. cbn in H. inversion H; subst. reflexivity.
Qed.

(* ------------------------------------------------------------------------------------------ *)
(* fresh objects                                                                                *)
(* ------------------------------------------------------------------------------------------ *)
Definition svalid (k : skind) (a : sargs) : bool :=
  negb (range_invalid (g_min a) (g_max a)) && (0 <? g_bins a)%Z &&
  match k with SConst => true | SGauss => negb (Qle_bool (g_mean a) 0) && negb (Qle_bool (g_std a) 0) end.

Definition sraw (k : skind) (a : sargs) : sstate :=
  match k with
  | SConst => mkS SConst (g_min a) (g_max a) (g_bins a) 0 0 0 0 0 0 [] [] []
  | SGauss => mkS SGauss (g_min a) (g_max a) (g_bins a) (g_mean a) (g_std a)
                  (1 / g_std a) (1 / (g_std a * sqrt2pi)) (1 / (g_std a * sqrt2)) 0 [] [] []
  end.
Definition scanon (k : skind) (a : sargs) : sstate := update_cache (sraw k a).

(* ConstantSpectrum objects never get a mean / stddev *)
Definition snorm (k : skind) (a : sargs) : sargs :=
  match k with SConst => mkSA (g_min a) (g_max a) (g_bins a) 0 0 | SGauss => a end.

Lemma svalid_parts k a : svalid k a = true ->
  range_invalid (g_min a) (g_max a) = false /\ (0 < g_bins a)%Z /\
  (k = SGauss -> Qle_bool (g_mean a) 0 = false /\ Qle_bool (g_std a) 0 = false).
Proof.
  unfold svalid. intro H. apply andb_true_iff in H as [H H3]. apply andb_true_iff in H as [H1 H2].
  apply negb_true_iff in H1. apply Z.ltb_lt in H2.
  split; [exact H1|]. split; [exact H2|]. intros ->. apply andb_true_iff in H3 as [A B]. apply negb_true_iff in A, B. split; assumption.
Qed.

Lemma svalid_intro k a : range_invalid (g_min a) (g_max a) = false -> (0 < g_bins a)%Z ->
  (k = SGauss -> Qle_bool (g_mean a) 0 = false /\ Qle_bool (g_std a) 0 = false) -> svalid k a = true.
Proof.
  intros H1 H2 H3. unfold svalid. apply Z.ltb_lt in H2. rewrite H1, H2. destruct k; [reflexivity|].
  destruct (H3 eq_refl) as [A B]. now rewrite A, B.
Qed.

Lemma Qle_bool_inject_Z n : Qle_bool (inject_Z n) 0 = (n <=? 0)%Z.
Proof. unfold Qle_bool, inject_Z. cbn [Qnum Qden]. rewrite Z.mul_1_r. reflexivity. Qed.

Ltac sunf :=
  cbv [C18_Spectrum.sconstruct C18_Spectrum.sstep sset missing gauss_only check_of rebin_of spolicy check_fails rebin_by
       fst snd andb s_blank rebin_if_initialised set_std set_mean set_min set_max
       set_bins base_init sk s_min s_max s_bins s_mean s_std s_recip s_norm s_ncdf s_delta s_wl s_psd s_pow
       Z.ltb Z.compare].

Lemma sconstruct_valid k a : svalid k a = true -> sconstruct k a = Some (scanon k a).
Proof.
  intro Hv. destruct (svalid_parts k a Hv) as (Hr & Hb & Hg).
  assert (Hb' : Qle_bool (inject_Z (g_bins a)) 0 = false) by (rewrite Qle_bool_inject_Z; apply Z.leb_gt; exact Hb).
  destruct k.
  - sunf. rewrite Hr. sunf. rewrite Hb'. reflexivity.
  - destruct (Hg eq_refl) as [Hm Hs].
    sunf. rewrite Hs. sunf. rewrite Hm. sunf. rewrite Hr. sunf. rewrite Hb'. reflexivity.
Qed.

Lemma sconstruct_some_valid k a s : sconstruct k a = Some s -> svalid k a = true.
Proof.
  destruct k.
  - sunf. destruct (range_invalid (g_min a) (g_max a)) eqn:R; [discriminate|].
    sunf. destruct (Qle_bool (inject_Z (g_bins a)) 0) eqn:E; [discriminate|]. intros _.
    rewrite Qle_bool_inject_Z in E. apply Z.leb_gt in E. apply Z.ltb_lt in E. unfold svalid. now rewrite R, E.
  - sunf. destruct (Qle_bool (g_std a) 0) eqn:T1; [discriminate|].
    sunf. destruct (Qle_bool (g_mean a) 0) eqn:T2; [discriminate|].
    sunf. destruct (range_invalid (g_min a) (g_max a)) eqn:R; [discriminate|].
    sunf. destruct (Qle_bool (inject_Z (g_bins a)) 0) eqn:E; [discriminate|]. intros _.
    rewrite Qle_bool_inject_Z in E. apply Z.leb_gt in E. apply Z.ltb_lt in E. unfold svalid. now rewrite R, E, T1, T2.
Qed.

Definition sgood (k : skind) (s : sstate) : Prop := exists a, svalid k a = true /\ s = scanon k a.

Lemma scanon_params k a : sparams (scanon k a) = sparams (sraw k a).
Proof. destruct k; reflexivity. Qed.

Lemma scanon_sk k a : sk (scanon k a) = k.
Proof. destruct k; reflexivity. Qed.

Lemma sargs_scanon k a : sargs_of (scanon k a) = snorm k a.
Proof. destruct k, a; reflexivity. Qed.

Lemma svalid_snorm k a : svalid k (snorm k a) = svalid k a.
Proof. destruct k, a; reflexivity. Qed.

Lemma scanon_snorm k a : scanon k (snorm k a) = scanon k a.
Proof. destruct k, a; reflexivity. Qed.

Lemma sgood_is_fresh k s : sgood k s -> sconstruct k (sargs_of s) = Some s.
Proof.
  intros (a & Hv & ->). rewrite sargs_scanon.
  rewrite sconstruct_valid by (rewrite svalid_snorm; exact Hv). now rewrite scanon_snorm.
Qed.

Lemma sconstruct_good k a s : sconstruct k a = Some s -> sgood k s.
Proof.
  intro H. pose proof (sconstruct_some_valid _ _ _ H) as Hv.
  rewrite (sconstruct_valid _ _ Hv) in H. inversion H. exists a. auto.
Qed.

(* every setter call, accepted or rejected, with any value, keeps the object fresh *)
Lemma sstep_good k s o : sgood k s -> sgood k (fst (sstep s o)).
Proof.
  intros (a & Hv & ->). destruct (svalid_parts k a Hv) as (Hr & Hb & Hg).
  assert (Hbins : s_bins (scanon k a) = g_bins a) by (destruct k; reflexivity).
  assert (Hmin : s_min (scanon k a) = g_min a) by (destruct k; reflexivity).
  assert (Hmax : s_max (scanon k a) = g_max a) by (destruct k; reflexivity).
  destruct o as [v | v | n | v | v | g]; unfold C18_Spectrum.sstep, sset, missing, gauss_only, check_of, rebin_of, spolicy;
    cbn [fst snd andb check_fails rebin_by].
  6:{ destruct g, (sk (scanon k a)); cbn [fst]; exists a; auto. }
  - rewrite Hmax. destruct (range_invalid v (g_max a)) eqn:E; cbn [fst]; [exists a; auto|].
    exists (mkSA v (g_max a) (g_bins a) (g_mean a) (g_std a)). split.
    + apply svalid_intro; assumption.
    + apply update_cache_params. destruct k; reflexivity.
  - rewrite Hmin. destruct (range_invalid (g_min a) v) eqn:E; cbn [fst]; [exists a; auto|].
    exists (mkSA (g_min a) v (g_bins a) (g_mean a) (g_std a)). split.
    + apply svalid_intro; assumption.
    + apply update_cache_params. destruct k; reflexivity.
  - rewrite Qle_bool_inject_Z. destruct (n <=? 0)%Z eqn:E; cbn [fst]; [exists a; auto|].
    exists (mkSA (g_min a) (g_max a) n (g_mean a) (g_std a)). split.
    + apply svalid_intro; try assumption. cbn [g_bins]. apply Z.leb_gt in E. exact E.
    + apply update_cache_params. destruct k; reflexivity.
  - rewrite scanon_sk. destruct k; cbn [fst]; [exists a; auto|].
    destruct (Qle_bool v 0) eqn:E; cbn [fst]; [exists a; auto|].
    destruct (Hg eq_refl) as [Tm Ts].
    exists (mkSA (g_min a) (g_max a) (g_bins a) v (g_std a)). split.
    + apply svalid_intro; try assumption. intros _. split; assumption.
    + unfold rebin_if_initialised. cbn [set_mean s_bins]. rewrite Hbins.
      apply Z.ltb_lt in Hb. rewrite Hb. apply update_cache_params. reflexivity.
  - rewrite scanon_sk. destruct k; cbn [fst]; [exists a; auto|].
    destruct (Qle_bool v 0) eqn:E; cbn [fst]; [exists a; auto|].
    destruct (Hg eq_refl) as [Tm Ts].
    exists (mkSA (g_min a) (g_max a) (g_bins a) (g_mean a) v). split.
    + apply svalid_intro; try assumption. intros _. split; assumption.
    + unfold rebin_if_initialised. cbn [set_std s_bins]. rewrite Hbins.
      apply Z.ltb_lt in Hb. rewrite Hb. apply update_cache_params. reflexivity.
Qed.

Lemma srun_cons s o t : fst (srun s (o :: t)) = fst (srun (fst (sstep s o)) t).
Proof.
  cbn [C18_Spectrum.srun]. destruct (sstep s o) as [s1 r]. cbn [fst]. destruct (srun s1 t). reflexivity.
Qed.

Lemma srun_good k s ops : sgood k s -> sgood k (fst (srun s ops)).
Proof.
  revert s; induction ops as [|o t IH]; intros s Hg; [exact Hg|].
  rewrite srun_cons. apply IH. apply sstep_good. exact Hg.
Qed.

Theorem spectrum_history_independent k a s0 ops :
  sconstruct k a = Some s0 ->
  let s := fst (srun s0 ops) in sconstruct k (sargs_of s) = Some s.
Proof.
  intros H s. apply sgood_is_fresh. apply srun_good. eapply sconstruct_good; eassumption.
Qed.

Theorem constructor_reports k a s : sconstruct k a = Some s ->
  get_min_wavelenth s = g_min a /\ get_max_wavelenth s = g_max a /\ get_spectral_bins s = g_bins a /\
  s_min s = g_min a /\ s_max s = g_max a /\ s_bins s = g_bins a /\
  get_delta_wavelength s = s_delta s /\
  (k = SGauss -> s_mean s = g_mean a /\ s_std s = g_std a).
Proof.
  intro H. pose proof (sconstruct_some_valid _ _ _ H) as Hv.
  rewrite (sconstruct_valid _ _ Hv) in H. inversion H. subst s.
  destruct k; repeat split; try reflexivity; discriminate.
Qed.

(* ------------------------------------------------------------------------------------------ *)
(* values of the cache (exact arithmetic)                                                       *)
(* ------------------------------------------------------------------------------------------ *)
Hypothesis erf_ext : forall a b, a == b -> erf a == erf b.

Definition qn (n : nat) : Q := inject_Z (Z.of_nat n).

Lemma qn_S n : qn (S n) == qn n + 1.
Proof. unfold qn. rewrite Nat2Z.inj_succ. unfold Z.succ. rewrite inject_Z_plus. reflexivity. Qed.

Lemma Qle_bool_ext a a' b b' : a == a' -> b == b' -> Qle_bool a b = Qle_bool a' b'.
Proof.
  intros Ea Eb. destruct (Qle_bool a b) eqn:E1, (Qle_bool a' b') eqn:E2; auto.
  - apply Qle_bool_iff in E1. rewrite Ea, Eb in E1. apply Qle_bool_iff in E1. congruence.
  - apply Qle_bool_iff in E2. rewrite <- Ea, <- Eb in E2. apply Qle_bool_iff in E2. congruence.
Qed.

Lemma s_eval_const_ext s x x' : sk s = SConst -> x == x' -> s_eval expo s x = s_eval expo s x'.
Proof.
  intros Hk E. unfold s_eval. rewrite Hk.
  rewrite (Qle_bool_ext (s_min s) (s_min s) x x') by (auto; reflexivity).
  rewrite (Qle_bool_ext x x' (s_max s) (s_max s)) by (auto; reflexivity). reflexivity.
Qed.

Lemma qmax_ext a a' b b' : a == a' -> b == b' -> qmax a b == qmax a' b'.
Proof. intros Ea Eb. unfold qmax. rewrite (Qle_bool_ext a a' b b' Ea Eb). destruct (Qle_bool a' b'); assumption. Qed.

Lemma qmin_ext a a' b b' : a == a' -> b == b' -> qmin a b == qmin a' b'.
Proof. intros Ea Eb. unfold qmin. rewrite (Qle_bool_ext a a' b b' Ea Eb). destruct (Qle_bool a' b'); assumption. Qed.

Lemma bin_psd_ext s d lo lo' hi hi' : lo == lo' -> hi == hi' -> bin_psd s d lo hi == bin_psd s d lo' hi'.
Proof.
  intros El Eh. unfold C18_Spectrum.bin_psd. destruct (sk s) eqn:Hk.
  - pose proof (qmax_ext lo lo' (s_min s) (s_min s) El (Qeq_refl _)) as Hl.
    pose proof (qmin_ext hi hi' (s_max s) (s_max s) Eh (Qeq_refl _)) as Hu.
    cbv zeta. rewrite (Qle_bool_ext _ _ _ _ Hu Hl).
    destruct (Qle_bool (qmin hi' (s_max s)) (qmax lo' (s_min s))); [reflexivity|].
    rewrite Hu, Hl, El, Eh. reflexivity.
  - rewrite (erf_ext ((hi - s_mean s) * s_ncdf s) ((hi' - s_mean s) * s_ncdf s)) by (rewrite Eh; reflexivity).
    rewrite (erf_ext ((lo - s_mean s) * s_ncdf s) ((lo' - s_mean s) * s_ncdf s)) by (rewrite El; reflexivity).
    reflexivity.
Qed.

(* the j-th entry produced by the accumulating loop is the bin between the exact edges *)
Lemma bins_loop_nth s d n : forall lo j, (j < n)%nat ->
  nth j (bins_loop s d n lo) 0 == bin_psd s d (lo + qn j * d) (lo + qn (S j) * d).
Proof.
  induction n as [|n IH]; intros lo j Hj; [lia|]. cbn [C18_Spectrum.bins_loop].
  destruct j as [|j]; cbn [nth].
  - apply bin_psd_ext.
    + unfold qn. cbn. ring.
    + rewrite Qred_correct. unfold qn. cbn. ring.
  - rewrite IH by lia. apply bin_psd_ext; rewrite Qred_correct, ?qn_S; ring.
Qed.

Lemma bins_loop_length s d n lo : length (bins_loop s d n lo) = n.
Proof. revert lo; induction n as [|n IH]; intro lo; cbn [C18_Spectrum.bins_loop length]; [reflexivity|]. now rewrite IH. Qed.

Section Fresh.
Variable k : skind.
Variable a : sargs.
Hypothesis Hv : svalid k a = true.
Let s := scanon k a.
Let n := Z.to_nat (g_bins a).

Lemma fresh_facts :
  0 < g_min a /\ g_min a < g_max a /\ (0 < n)%nat /\ qn n == inject_Z (g_bins a) /\ 0 < qn n.
Proof.
  destruct (svalid_parts k a Hv) as (Hr & Hb & _). unfold range_invalid in Hr.
  rewrite !orb_false_iff in Hr. destruct Hr as [[H1 H2] H3].
  assert (E : Z.of_nat n = g_bins a) by (unfold n; rewrite Z2Nat.id; lia).
  repeat split.
  - apply Qnot_le_lt. intro H. apply Qle_bool_iff in H. congruence.
  - apply Qnot_le_lt. intro H. apply Qle_bool_iff in H. congruence.
  - unfold n. lia.
  - unfold qn. rewrite E. reflexivity.
  - unfold qn. rewrite E. change 0 with (inject_Z 0). rewrite <- Zlt_Qlt. exact Hb.
Qed.

Lemma fresh_delta : s_delta s == (g_max a - g_min a) / qn n /\ 0 < s_delta s.
Proof.
  destruct fresh_facts as (H1 & H2 & H3 & H4 & H5).
  assert (E : s_delta s == (g_max a - g_min a) / qn n).
  { unfold s, scanon, C18_Spectrum.update_cache. cbn [s_delta]. rewrite Qred_correct.
    destruct k; cbn [sraw s_max s_min s_bins]; rewrite H4; reflexivity. }
  split; [exact E|]. rewrite E. apply Qlt_shift_div_l; lra.
Qed.

Lemma fresh_span : g_min a + qn n * s_delta s == g_max a.
Proof.
  destruct fresh_facts as (H1 & H2 & H3 & H4 & H5). destruct fresh_delta as [E _]. rewrite E. field. lra.
Qed.

(* wavelengths are the bin centres *)
Theorem fresh_centres j : (j < n)%nat ->
  length (s_wl s) = n /\
  nth j (s_wl s) 0 == g_min a + (qn j + (1 # 2)) * s_delta s.
Proof.
  intro Hj.
  assert (W : s_wl s = map (centre (g_min a) (s_delta s)) (seq 0 n)) by (destruct k; reflexivity).
  rewrite W. split; [now rewrite map_length, seq_length|].
  rewrite (nth_indep _ 0 (centre (g_min a) (s_delta s) 0%nat)) by (now rewrite map_length, seq_length).
  rewrite map_nth, seq_nth by assumption. unfold centre, qn. cbn [Nat.add]. ring.
Qed.

Lemma fresh_psd_nth j : (j < n)%nat ->
  length (s_psd s) = n /\
  nth j (s_psd s) 0 == bin_psd s (s_delta s) (g_min a + qn j * s_delta s) (g_min a + qn (S j) * s_delta s).
Proof.
  intro Hj. destruct fresh_facts as (H1 & H2 & H3 & H4 & H5).
  set (d := s_delta s).
  set (lo0 := nth 0 (s_wl s) 0 - d * (1 # 2)).
  assert (P : s_psd s = bins_loop (sraw k a) d n lo0) by (destruct k; reflexivity).
  assert (L0 : lo0 == g_min a).
  { unfold lo0. destruct (fresh_centres 0%nat H3) as [_ E]. rewrite E. unfold qn, d. cbn. ring. }
  rewrite P. split; [apply bins_loop_length|].
  rewrite bins_loop_nth by assumption.
  rewrite (bin_psd_params (sraw k a) s) by (unfold s; now rewrite scanon_params).
  apply bin_psd_ext; rewrite L0; reflexivity.
Qed.

Lemma fresh_pow_nth j : (j < n)%nat ->
  length (s_pow s) = n /\ nth j (s_pow s) 0 == nth j (s_psd s) 0 * s_delta s.
Proof.
  intro Hj. set (f := fun p : Q => p * s_delta s).
  assert (P : s_pow s = map f (s_psd s)) by (destruct k; reflexivity).
  destruct (fresh_psd_nth j Hj) as [L _]. rewrite P. split; [now rewrite map_length|].
  rewrite (nth_indep _ 0 (f 0)) by (now rewrite map_length, L).
  rewrite (map_nth f). reflexivity.
Qed.

End Fresh.

(* normal cumulative distribution function written with erf, as the code does *)
Definition ncdf (mean nc x : Q) : Q := (1 # 2) * (1 + erf ((x - mean) * nc)).

(* GaussianSpectrum: per-bin power = CDF(upper edge) - CDF(lower edge) *)
Theorem gaussian_bin_power a j : svalid SGauss a = true -> (j < Z.to_nat (g_bins a))%nat ->
  let s := scanon SGauss a in
  nth j (s_pow s) 0 ==
    ncdf (g_mean a) (s_ncdf s) (g_min a + qn (S j) * s_delta s) - ncdf (g_mean a) (s_ncdf s) (g_min a + qn j * s_delta s).
Proof.
  intros Hv Hj s. destruct (fresh_pow_nth SGauss a Hv j Hj) as [_ E]. destruct (fresh_psd_nth SGauss a Hv j Hj) as [_ E2].
  destruct (fresh_delta SGauss a Hv) as [_ Hd]. fold s in E, E2, Hd.
  rewrite E, E2. unfold C18_Spectrum.bin_psd, ncdf. change (sk s) with SGauss. cbv iota. change (s_mean s) with (g_mean a).
  field. lra.
Qed.

Lemma Qsum_map_mul (l : list Q) d : Qsum (map (fun p => p * d) l) == Qsum l * d.
Proof. induction l as [|x l IH]; cbn [map Qsum]; [ring | rewrite IH; ring]. Qed.

Lemma gauss_loop_telescopes s d m : sk s = SGauss -> ~ d == 0 -> forall lo,
  Qsum (bins_loop s d m lo) * d ==
  (1 # 2) * (erf ((lo + qn m * d - s_mean s) * s_ncdf s) - erf ((lo - s_mean s) * s_ncdf s)).
Proof.
  intros Hk Hd. induction m as [|m IH]; intro lo; cbn [C18_Spectrum.bins_loop Qsum].
  - rewrite (erf_ext ((lo + qn 0 * d - s_mean s) * s_ncdf s) ((lo - s_mean s) * s_ncdf s)) by (unfold qn; cbn; ring). ring.
  - rewrite Qmult_plus_distr_l, IH. unfold C18_Spectrum.bin_psd. rewrite Hk.
    rewrite (erf_ext ((Qred (lo + d) + qn m * d - s_mean s) * s_ncdf s) ((lo + qn (S m) * d - s_mean s) * s_ncdf s))
      by (rewrite Qred_correct, qn_S; ring).
    rewrite (erf_ext ((Qred (lo + d) - s_mean s) * s_ncdf s) ((lo + d - s_mean s) * s_ncdf s)) by (rewrite Qred_correct; ring).
    field. exact Hd.
Qed.

(* the powers telescope: sum = CDF(max) - CDF(min), for every bin count and every erf *)
Theorem gaussian_power_telescopes a : svalid SGauss a = true ->
  let s := scanon SGauss a in
  Qsum (s_pow s) == ncdf (g_mean a) (s_ncdf s) (g_max a) - ncdf (g_mean a) (s_ncdf s) (g_min a).
Proof.
  intros Hv s. destruct (fresh_facts SGauss a Hv) as (H1 & H2 & H3 & H4 & H5).
  destruct (fresh_delta SGauss a Hv) as [_ Hd]. pose proof (fresh_span SGauss a Hv) as Hs. fold s in Hd, Hs.
  set (n := Z.to_nat (g_bins a)) in *. set (d := s_delta s) in *.
  set (lo0 := nth 0 (s_wl s) 0 - d * (1 # 2)).
  assert (L0 : lo0 == g_min a).
  { unfold lo0. destruct (fresh_centres SGauss a Hv 0%nat H3) as [_ E]. fold s in E. rewrite E. unfold qn, d. cbn. ring. }
  assert (P : s_pow s = map (fun p => p * d) (bins_loop (sraw SGauss a) d n lo0)) by reflexivity.
  rewrite P, Qsum_map_mul, gauss_loop_telescopes; [|reflexivity|lra].
  unfold ncdf. change (s_mean (sraw SGauss a)) with (g_mean a). change (s_ncdf (sraw SGauss a)) with (s_ncdf s).
  rewrite (erf_ext ((lo0 + qn n * d - g_mean a) * s_ncdf s) ((g_max a - g_mean a) * s_ncdf s)) by (rewrite L0, Hs; reflexivity).
  rewrite (erf_ext ((lo0 - g_mean a) * s_ncdf s) ((g_min a - g_mean a) * s_ncdf s)) by (rewrite L0; reflexivity).
  ring.
Qed.

(* ConstantSpectrum (exact arithmetic): every bin carries (upper - lower) / (max - min) = 1 / bins *)
Theorem constant_bin_power a j : svalid SConst a = true -> (j < Z.to_nat (g_bins a))%nat ->
  let s := scanon SConst a in
  nth j (s_pow s) 0 == s_delta s * (1 / (g_max a - g_min a)) /\
  nth j (s_pow s) 0 == 1 / inject_Z (g_bins a).
Proof.
  intros Hv Hj s. destruct (fresh_facts SConst a Hv) as (H1 & H2 & H3 & H4 & H5).
  destruct (fresh_pow_nth SConst a Hv j Hj) as [_ E]. destruct (fresh_psd_nth SConst a Hv j Hj) as [_ E2].
  destruct (fresh_delta SConst a Hv) as [Ed Hd]. pose proof (fresh_span SConst a Hv) as Hs. fold s in E, E2, Ed, Hd, Hs.
  set (n := Z.to_nat (g_bins a)) in *. set (d := s_delta s) in *.
  assert (In_range : forall i, (i <= n)%nat -> g_min a <= g_min a + qn i * d /\ g_min a + qn i * d <= g_max a).
  { intros i Hi.
    assert (Q0 : 0 <= qn i) by (unfold qn; change 0 with (inject_Z 0); rewrite <- Zle_Qle; lia).
    assert (Q1 : qn i <= qn n) by (unfold qn; rewrite <- Zle_Qle; lia).
    split.
    - assert (0 <= qn i * d) by (apply Qmult_le_0_compat; lra). lra.
    - rewrite <- Hs. assert (qn i * d <= qn n * d) by (apply Qmult_le_compat_r; lra). lra. }
  assert (V : nth j (s_pow s) 0 == d * (1 / (g_max a - g_min a))).
  { rewrite E, E2. unfold C18_Spectrum.bin_psd. change (sk s) with SConst. cbv iota zeta.
    change (s_min s) with (g_min a). change (s_max s) with (g_max a).
    destruct (In_range j ltac:(lia)) as [A1 _]. destruct (In_range (S j) ltac:(lia)) as [_ B2].
    set (lo := g_min a + qn j * d) in *. set (hi := g_min a + qn (S j) * d) in *.
    assert (W : hi - lo == d) by (unfold hi, lo; rewrite qn_S; ring).
    assert (L : qmax lo (g_min a) == lo).
    { unfold qmax. destruct (Qle_bool lo (g_min a)) eqn:T; [|reflexivity]. apply Qle_bool_iff in T. lra. }
    assert (U : qmin hi (g_max a) == hi).
    { unfold qmin. destruct (Qle_bool hi (g_max a)) eqn:T; [reflexivity|].
      apply Qle_bool_iff in B2. congruence. }
    rewrite (Qle_bool_ext _ hi _ lo U L).
    destruct (Qle_bool hi lo) eqn:T; [apply Qle_bool_iff in T; lra|].
    rewrite U, L, W. field. split; lra. }
  split; [exact V|]. rewrite V, Ed, H4. field. split; [|lra]. rewrite <- H4. lra.
Qed.

Lemma Qsum_const (l : list Q) cst : (forall j, (j < length l)%nat -> nth j l 0 == cst) -> Qsum l == qn (length l) * cst.
Proof.
  induction l as [|x l IH]; intro H; cbn [Qsum length].
  - unfold qn. cbn. ring.
  - rewrite qn_S, IH.
    + rewrite (H 0%nat) by (cbn; lia). cbn [nth]. ring.
    + intros j Hj. apply (H (S j)). cbn. lia.
Qed.

Theorem constant_power_sums_to_one a : svalid SConst a = true ->
  Qsum (s_pow (scanon SConst a)) == 1.
Proof.
  intro Hv. destruct (fresh_facts SConst a Hv) as (H1 & H2 & H3 & H4 & H5).
  set (n := Z.to_nat (g_bins a)) in *.
  destruct (fresh_pow_nth SConst a Hv 0%nat H3) as [L _].
  rewrite (Qsum_const _ (1 / inject_Z (g_bins a))).
  - rewrite L. fold n. rewrite H4. field. rewrite <- H4. lra.
  - intros j Hj. rewrite L in Hj. apply (constant_bin_power a j Hv Hj).
Qed.

(* the same statements for the object returned by the constructor (hence, by
   spectrum_history_independent, for the object after any setter history with sargs_of as arguments) *)
Lemma sconstruct_inv k a s : sconstruct k a = Some s -> svalid k a = true /\ s = scanon k a.
Proof.
  intro H. pose proof (sconstruct_some_valid _ _ _ H) as Hv. split; [exact Hv|].
  rewrite (sconstruct_valid _ _ Hv) in H. now inversion H.
Qed.

Theorem wavelength_centres k a s j : sconstruct k a = Some s -> (j < Z.to_nat (g_bins a))%nat ->
  length (s_wl s) = Z.to_nat (g_bins a) /\
  s_delta s == (g_max a - g_min a) / inject_Z (g_bins a) /\
  nth j (s_wl s) 0 == g_min a + (qn j + (1 # 2)) * s_delta s.
Proof.
  intros H Hj. destruct (sconstruct_inv _ _ _ H) as [Hv ->].
  destruct (fresh_centres k a Hv j Hj) as [L E]. destruct (fresh_delta k a Hv) as [D _].
  destruct (fresh_facts k a Hv) as (_ & _ & _ & Q4 & _). rewrite Q4 in D. auto.
Qed.

Theorem gaussian_bin_power_c a s j : sconstruct SGauss a = Some s -> (j < Z.to_nat (g_bins a))%nat ->
  nth j (s_pow s) 0 ==
    ncdf (g_mean a) (s_ncdf s) (g_min a + qn (S j) * s_delta s) - ncdf (g_mean a) (s_ncdf s) (g_min a + qn j * s_delta s).
Proof. intros H Hj. destruct (sconstruct_inv _ _ _ H) as [Hv ->]. apply gaussian_bin_power; assumption. Qed.

Theorem gaussian_power_telescopes_c a s : sconstruct SGauss a = Some s ->
  Qsum (s_pow s) == ncdf (g_mean a) (s_ncdf s) (g_max a) - ncdf (g_mean a) (s_ncdf s) (g_min a) /\
  (erf ((g_max a - g_mean a) * s_ncdf s) == 1 -> erf ((g_min a - g_mean a) * s_ncdf s) == -1 -> Qsum (s_pow s) == 1).
Proof.
  intros H. destruct (sconstruct_inv _ _ _ H) as [Hv ->]. pose proof (gaussian_power_telescopes a Hv) as T. cbv zeta in T.
  split; [exact T|]. intros E1 E2. rewrite T. unfold ncdf. rewrite E1, E2. ring.
Qed.

Theorem constant_bin_power_c a s j : sconstruct SConst a = Some s -> (j < Z.to_nat (g_bins a))%nat ->
  nth j (s_pow s) 0 == s_delta s * (1 / (g_max a - g_min a)) /\
  nth j (s_pow s) 0 == 1 / inject_Z (g_bins a).
Proof. intros H Hj. destruct (sconstruct_inv _ _ _ H) as [Hv ->]. apply constant_bin_power; assumption. Qed.

Theorem constant_power_sums_to_one_c a s : sconstruct SConst a = Some s -> Qsum (s_pow s) == 1.
Proof. intros H. destruct (sconstruct_inv _ _ _ H) as [Hv ->]. apply constant_power_sums_to_one; assumption. Qed.

(* ConstantSpectrum: the bin power is the bin width times the (constant) density, i.e. the integral of
   the unit-power spectral density over the bin; outside [min, max] the density is 0 *)
Theorem constant_bin_power_is_integral a s j x : sconstruct SConst a = Some s -> (j < Z.to_nat (g_bins a))%nat ->
  (g_min a <= x -> x <= g_max a ->
     nth j (s_pow s) 0 == ((g_min a + qn (S j) * s_delta s) - (g_min a + qn j * s_delta s)) * s_eval expo s x) /\
  (x < g_min a \/ g_max a < x -> s_eval expo s x == 0).
Proof.
  intros H Hj. destruct (sconstruct_inv _ _ _ H) as [Hv ->].
  destruct (constant_bin_power a j Hv Hj) as [V _]. cbv zeta in V.
  destruct (fresh_facts SConst a Hv) as (H1 & H2 & _).
  split.
  - intros A B. rewrite V. unfold s_eval. change (sk (scanon SConst a)) with SConst. cbv iota.
    change (s_min (scanon SConst a)) with (g_min a). change (s_max (scanon SConst a)) with (g_max a).
    apply Qle_bool_iff in A. apply Qle_bool_iff in B. rewrite A, B. cbn [andb]. rewrite qn_S. ring.
  - intros O. unfold s_eval. change (sk (scanon SConst a)) with SConst. cbv iota.
    change (s_min (scanon SConst a)) with (g_min a). change (s_max (scanon SConst a)) with (g_max a).
    destruct (Qle_bool (g_min a) x) eqn:A, (Qle_bool x (g_max a)) eqn:B; cbn [andb]; try reflexivity.
    apply Qle_bool_iff in A. apply Qle_bool_iff in B. lra.
Qed.

(* invariants of every constructed (hence, by history independence, every reachable) spectrum *)
Theorem spectrum_invariants k a s : sconstruct k a = Some s ->
  0 < s_min s /\ s_min s < s_max s /\ (0 < s_bins s)%Z /\ 0 < s_delta s /\
  length (s_wl s) = Z.to_nat (s_bins s) /\ length (s_psd s) = Z.to_nat (s_bins s) /\
  length (s_pow s) = Z.to_nat (s_bins s) /\ sk s = k.
Proof.
  intros H. destruct (sconstruct_inv _ _ _ H) as [Hv ->].
  destruct (fresh_facts k a Hv) as (H1 & H2 & H3 & H4 & H5). destruct (fresh_delta k a Hv) as [_ Hd].
  destruct (svalid_parts k a Hv) as (_ & Hb & _).
  destruct (fresh_centres k a Hv 0%nat H3) as [L1 _]. destruct (fresh_psd_nth k a Hv 0%nat H3) as [L2 _].
  destruct (fresh_pow_nth k a Hv 0%nat H3) as [L3 _].
  assert (B : s_bins (scanon k a) = g_bins a) by (destruct k; reflexivity).
  assert (M : s_min (scanon k a) = g_min a) by (destruct k; reflexivity).
  assert (X : s_max (scanon k a) = g_max a) by (destruct k; reflexivity).
  rewrite B, M, X. repeat split; auto. apply scanon_sk.
Qed.

End Spectrum.
