(* Python slices with an explicit step (Model/C15_Groups.v: slice_indices, slice_step): the indices
   are in range, form the arithmetic progression range(start, stop, step), nothing is missed, and
   the selected elements are exactly the members at those indices, in that order. *)
Require Import Cherab.Common.Qx.
From Coq Require Import String.
Require Import Cherab.Model.C15_Groups Cherab.Model.C15_Table Cherab.Proofs.C15_Setters Cherab.Proofs.C15_Members.
Open Scope list_scope.
Open Scope Z_scope.

Lemma clamp_to_bounds lowb highb n x d : lowb <= highb -> lowb <= d <= highb ->
  lowb <= clamp_to lowb highb n x d <= highb.
Proof. intros H D. unfold clamp_to. destruct x; [|exact D]. destruct (z <? 0); lia. Qed.

Lemma start_stop_bounds n lo hi step : 0 <= n ->
  let (a, b) := slice_start_stop n lo hi step in
  if 0 <? step then 0 <= a <= n /\ 0 <= b <= n else -1 <= a <= n - 1 /\ -1 <= b <= n - 1.
Proof.
  intro N. unfold slice_start_stop. destruct (0 <? step); split; apply clamp_to_bounds; lia.
Qed.

(* every index of the progression lies strictly between start (inclusive) and stop (exclusive) *)
Lemma progression_bounds a b step k : step <> 0 -> 0 <= k < slice_len a b step ->
  if 0 <? step then a <= a + k * step < b else b < a + k * step <= a.
Proof.
  intros S K. unfold slice_len in K. destruct (0 <? step) eqn:P.
  - apply Z.ltb_lt in P. destruct (a <? b) eqn:L; [|lia]. apply Z.ltb_lt in L.
    pose proof (Z.mul_div_le (b - a - 1) step P). nia.
  - apply Z.ltb_ge in P. assert (P' : 0 < - step) by lia.
    destruct (b <? a) eqn:L; [|lia]. apply Z.ltb_lt in L.
    pose proof (Z.mul_div_le (a - b - 1) (- step) P'). nia.
Qed.

Lemma slice_indices_in_range n lo hi step : 0 <= n -> step <> 0 ->
  Forall (fun i => 0 <= i < n) (slice_indices n lo hi step).
Proof.
  intros N S. unfold slice_indices. pose proof (start_stop_bounds n lo hi step N) as B.
  destruct (slice_start_stop n lo hi step) as [a b].
  apply Forall_forall. intros i I. apply in_map_iff in I as (k & <- & I). apply in_seq in I.
  assert (K : 0 <= Z.of_nat k < slice_len a b step) by lia.
  pose proof (progression_bounds a b step (Z.of_nat k) S K) as R.
  destruct (0 <? step); lia.
Qed.

(* nothing is missed: every index of range(start, stop, step) is produced *)
Lemma slice_indices_complete n lo hi step i : step <> 0 ->
  let (a, b) := slice_start_stop n lo hi step in
  (if 0 <? step then a <= i < b /\ (i - a) mod step = 0 else b < i <= a /\ (a - i) mod (- step) = 0) ->
  In i (slice_indices n lo hi step).
Proof.
  intro S. unfold slice_indices. destruct (slice_start_stop n lo hi step) as [a b].
  intro H. apply in_map_iff. unfold slice_len. destruct (0 <? step) eqn:P.
  - apply Z.ltb_lt in P. destruct H as [R M].
    exists (Z.to_nat ((i - a) / step)).
    assert (D : i - a = step * ((i - a) / step)) by (apply Z_div_exact_full_2; lia).
    assert (Q0 : 0 <= (i - a) / step) by (apply Z.div_pos; lia).
    split; [rewrite Z2Nat.id by lia; lia|].
    apply in_seq. replace (a <? b) with true by (symmetry; apply Z.ltb_lt; lia).
    assert ((i - a) / step <= (b - a - 1) / step) by (apply Z.div_le_mono; lia). lia.
  - apply Z.ltb_ge in P. assert (P' : 0 < - step) by lia. destruct H as [R M].
    exists (Z.to_nat ((a - i) / (- step))).
    assert (D : a - i = (- step) * ((a - i) / (- step))) by (apply Z_div_exact_full_2; lia).
    assert (Q0 : 0 <= (a - i) / (- step)) by (apply Z.div_pos; lia).
    split; [rewrite Z2Nat.id by lia; lia|].
    apply in_seq. replace (b <? a) with true by (symmetry; apply Z.ltb_lt; lia).
    assert ((a - i) / (- step) <= (a - b - 1) / (- step)) by (apply Z.div_le_mono; lia). lia.
Qed.

Lemma pick_in_range {A} (l : list A) i : 0 <= i < Z.of_nat (List.length l) ->
  exists x, nth_error l (Z.to_nat i) = Some x /\ pick l i = [x].
Proof.
  intro H. unfold pick. replace (i <? 0) with false by (symmetry; apply Z.ltb_ge; lia).
  destruct (nth_error l (Z.to_nat i)) eqn:E; [eauto|]. apply nth_error_None in E. lia.
Qed.

(* the elements selected are exactly the ones at the indices, one each, in that order *)
Lemma flat_map_pick {A} (l : list A) idx : Forall (fun i => 0 <= i < Z.of_nat (List.length l)) idx ->
  map Some (flat_map (pick l) idx) = map (fun i => nth_error l (Z.to_nat i)) idx.
Proof.
  induction 1 as [|i idx H F IH]; cbn [flat_map map]; [reflexivity|].
  destruct (pick_in_range l i H) as (x & E & P). rewrite P, E. cbn. now rewrite IH.
Qed.

Lemma slice_step_spec {A} (l : list A) lo hi step : step <> 0 ->
  let idx := slice_indices (Z.of_nat (List.length l)) lo hi step in
  Forall (fun i => 0 <= i < Z.of_nat (List.length l)) idx
  /\ map Some (slice_step l lo hi step) = map (fun i => nth_error l (Z.to_nat i)) idx
  /\ List.length (slice_step l lo hi step) = List.length idx.
Proof.
  intros S idx.
  assert (R : Forall (fun i => 0 <= i < Z.of_nat (List.length l)) idx) by (apply slice_indices_in_range; lia).
  assert (E : map Some (slice_step l lo hi step) = map (fun i => nth_error l (Z.to_nat i)) idx) by (apply flat_map_pick, R).
  split; [exact R|]. split; [exact E|].
  apply (f_equal (@List.length _)) in E. now rewrite !map_length in E.
Qed.

Lemma slice_indices_length n lo hi step :
  let (a, b) := slice_start_stop n lo hi step in
  Z.of_nat (List.length (slice_indices n lo hi step)) = Z.max 0 (slice_len a b step).
Proof.
  unfold slice_indices. destruct (slice_start_stop n lo hi step) as [a b].
  rewrite map_length, seq_length. lia.
Qed.

(* both flavours answer an explicit step the same way *)
Lemma getitem_step c lo hi step g :
  getitem c (KSliceStep lo hi step) g = getitem_slice_step lo hi step g.
Proof. unfold getitem. destruct (c_flavour c); reflexivity. Qed.

Lemma slice_step_lookup c g lo hi step :
  (step = 0 -> getitem c (KSliceStep lo hi step) g = RErr EValue)
  /\ (step <> 0 -> getitem c (KSliceStep lo hi step) g = RMems (map mid (slice_step g lo hi step))).
Proof.
  rewrite getitem_step. unfold getitem_slice_step. split; intro H.
  - subst. reflexivity.
  - now replace (step =? 0) with false by (symmetry; apply Z.eqb_neq; exact H).
Qed.

(* ---- step 1 written explicitly is the plain slice --------------------------------------------- *)
Lemma skipn_nth_cons {A} : forall (l : list A) s x, nth_error l s = Some x -> skipn s l = x :: skipn (S s) l.
Proof.
  induction l as [|y l IH]; intros [|s] x H; cbn in *; try discriminate.
  - now injection H as ->.
  - now apply IH.
Qed.

Lemma pick_run {A} (l : list A) : forall m s,
  flat_map (pick l) (map (fun k => Z.of_nat s + Z.of_nat k * 1) (seq 0 m)) = firstn m (skipn s l).
Proof.
  induction m as [|m IH]; intro s; [reflexivity|].
  cbn [seq map flat_map]. rewrite <- seq_shift, map_map.
  replace (map (fun x => Z.of_nat s + Z.of_nat (S x) * 1) (seq 0 m))
    with (map (fun k => Z.of_nat (S s) + Z.of_nat k * 1) (seq 0 m)) by (apply map_ext; intro; lia).
  rewrite IH. unfold pick.
  replace (Z.of_nat s + Z.of_nat 0 * 1 <? 0) with false by (symmetry; apply Z.ltb_ge; lia).
  replace (Z.to_nat (Z.of_nat s + Z.of_nat 0 * 1)) with s by lia.
  destruct (nth_error l s) as [x|] eqn:E.
  - rewrite (skipn_nth_cons l s x E). reflexivity.
  - apply nth_error_None in E. rewrite (skipn_all2 l) by lia. rewrite (skipn_all2 l) by lia.
    now rewrite firstn_nil.
Qed.

Lemma slice_step_one {A} (l : list A) lo hi : slice_step l lo hi 1 = slice_of l lo hi.
Proof.
  unfold slice_step, slice_indices, slice_start_stop, slice_of, slice_len. cbn [Z.ltb Z.compare].
  set (n := Z.of_nat (List.length l)).
  change (clamp_to 0 n n lo 0) with (clamp n lo 0). change (clamp_to 0 n n hi n) with (clamp n hi n).
  set (a := clamp n lo 0). set (b := clamp n hi n).
  assert (A0 : 0 <= a) by (subst a; unfold clamp; destruct lo; [destruct (z <? 0)|]; lia).
  replace (Z.to_nat (if a <? b then (b - a - 1) / 1 + 1 else 0)) with (Z.to_nat (b - a)).
  2:{ destruct (a <? b) eqn:L; [rewrite Z.div_1_r; lia | apply Z.ltb_ge in L; lia]. }
  rewrite <- (pick_run l (Z.to_nat (b - a)) (Z.to_nat a)).
  f_equal. apply map_ext. intro k. rewrite Z2Nat.id by lia. reflexivity.
Qed.

Lemma slice_lookup_full c g :
  (forall lo hi, getitem c (KSlice lo hi) g = RMems (map mid (slice_of g lo hi))
                 /\ exists pre post, g = pre ++ slice_of g lo hi ++ post)
  /\ (forall lo hi, 0 <= lo -> lo <= hi -> hi <= Z.of_nat (List.length g) ->
        Z.of_nat (List.length (slice_of g (Some lo) (Some hi))) = hi - lo
        /\ forall j, lo <= j < hi ->
             nth_error (slice_of g (Some lo) (Some hi)) (Z.to_nat (j - lo)) = nth_error g (Z.to_nat j))
  /\ (forall lo hi, getitem c (KSliceStep lo hi 0) g = RErr EValue)
  /\ (forall lo hi step, step <> 0 ->
        let n := Z.of_nat (List.length g) in
        let idx := slice_indices n lo hi step in
        getitem c (KSliceStep lo hi step) g = RMems (map mid (slice_step g lo hi step))
        /\ Forall (fun i => 0 <= i < n) idx
        /\ map Some (slice_step g lo hi step) = map (fun i => nth_error g (Z.to_nat i)) idx
        /\ (forall i, (let (a, b) := slice_start_stop n lo hi step in
                       if 0 <? step then a <= i < b /\ (i - a) mod step = 0
                       else b < i <= a /\ (a - i) mod (- step) = 0) -> In i idx))
  /\ (forall lo hi, slice_step g lo hi 1 = slice_of g lo hi).
Proof.
  split; [intros; now apply slice_lookup|].
  split; [intros; split; [now apply slice_length | intros; now apply slice_nth]|].
  split; [intros; now apply (slice_step_lookup c g lo hi 0)|].
  split; [|intros; apply slice_step_one].
  intros lo hi step S n idx.
  destruct (slice_step_spec g lo hi step S) as (R & E & _).
  split; [now apply (slice_step_lookup c g lo hi step)|]. split; [exact R|]. split; [exact E|].
  intros i H. pose proof (slice_indices_complete n lo hi step i S) as C. subst idx.
  destruct (slice_start_stop n lo hi step) as [a b]. apply C, H.
Qed.
