(* Area, centroid, volume of an AxisymmetricVoxel: independence of starting vertex and
   orientation, translation, triangles, rectangles, fan decomposition, grid total. *)
Require Import Cherab.Common.Qx.
Require Import Cherab.Model.C17_Voxels Cherab.Proofs.C17_Polygon.
From Coq Require Import Qabs Lqa.
Open Scope Q_scope.

(* equality of optional points up to == on the coordinates *)
Definition oeq (a b : option pt) : Prop :=
  match a, b with
  | None, None => True
  | Some p, Some q => px p == px q /\ py p == py q
  | _, _ => False
  end.

Lemma oeq_some x y x' y' : x == x' -> y == y' -> oeq (Some (x, y)) (Some (x', y')).
Proof. intros; split; assumption. Qed.

Lemma oeq_refl a : oeq a a.
Proof. destruct a; cbn; auto. split; reflexivity. Qed.
Lemma oeq_sym a b : oeq a b -> oeq b a.
Proof. destruct a, b; cbn; auto. intros [H1 H2]; split; symmetry; assumption. Qed.
Lemma oeq_trans a b c : oeq a b -> oeq b c -> oeq a c.
Proof.
  destruct a, b, c; cbn; auto; try tauto.
  intros [H1 H2] [H3 H4]; split; etransitivity; eassumption.
Qed.

Lemma half_eq0 x : x / 2 == 0 <-> x == 0.
Proof. unfold Qdiv. change (/ 2) with (1 # 2). split; intro; lra. Qed.
Lemma half_eq0_l x : x / 2 == 0 -> x == 0.
Proof. apply half_eq0. Qed.
Lemma half_eq0_r x : x == 0 -> x / 2 == 0.
Proof. apply half_eq0. Qed.

(* ---- signed sums ------------------------------------------------------------------------------ *)
Lemma shoelace2_rotate l1 l2 : shoelace2 (l2 ++ l1) == shoelace2 (l1 ++ l2).
Proof. apply cyc_rotate. Qed.
Lemma shoelace2_rev l : shoelace2 (rev l) == - shoelace2 l.
Proof. apply cyc_rev, cross_anti. Qed.

Lemma area_rotate l1 l2 : area (l2 ++ l1) == area (l1 ++ l2).
Proof. unfold area. rewrite shoelace2_rotate. reflexivity. Qed.
Lemma area_rev l : area (rev l) == area l.
Proof. unfold area. rewrite shoelace2_rev, Qabs_opp. reflexivity. Qed.

Lemma winding2d_shoelace l : winding2d l = Qlt_b 0 (- shoelace2 l).
Proof. unfold winding2d, Qlt_b. rewrite gw_is_minus_cross. reflexivity. Qed.

Lemma normalise_cases l : normalise l = l \/ normalise l = rev l.
Proof. unfold normalise. destruct (winding2d l); auto. Qed.

(* after the constructor the stored list is clockwise or has zero area: shoelace2 <= 0 *)
Lemma normalise_clockwise l : shoelace2 (normalise l) <= 0.
Proof.
  unfold normalise. destruct (winding2d l) eqn:W; rewrite winding2d_shoelace in W; unfold Qlt_b in W.
  - apply Bool.negb_true_iff in W. destruct (Qle_bool (- shoelace2 l) 0) eqn:E; [discriminate|].
    destruct (Qlt_le_dec 0 (- shoelace2 l)) as [H|H]; [lra|]. apply Qle_bool_iff in H. congruence.
  - apply Bool.negb_false_iff, Qle_bool_iff in W. rewrite shoelace2_rev. lra.
Qed.

Lemma voxel_area_is_area l : voxel_area l == area l.
Proof. unfold voxel_area. destruct (normalise_cases l) as [E|E]; rewrite E; [reflexivity | apply area_rev]. Qed.

(* ---- centroid --------------------------------------------------------------------------------- *)
Lemma centroid_scaled l l' s :
  ~ s == 0 -> shoelace2 l' == s * shoelace2 l -> cyc_sum gx l' == s * cyc_sum gx l ->
  cyc_sum gy l' == s * cyc_sum gy l -> oeq (centroid l') (centroid l).
Proof.
  intros Hs HS Hx Hy. unfold centroid.
  destruct (Qeq_bool (shoelace2 l' / 2) 0) eqn:E1; destruct (Qeq_bool (shoelace2 l / 2) 0) eqn:E2; cbn [oeq].
  - exact I.
  - apply Qeq_bool_iff in E1. apply Qeq_bool_neq in E2. apply E2.
    apply half_eq0_l in E1. pose proof E1 as H0. rewrite HS in H0. rewrite half_eq0.
    apply Qmult_integral in H0. destruct H0 as [H0|H0]; [contradiction | exact H0].
  - apply Qeq_bool_iff in E2. apply Qeq_bool_neq in E1. apply E1.
    apply half_eq0_l in E2. apply half_eq0_r. rewrite HS, E2. ring.
  - apply Qeq_bool_neq in E2.
    assert (~ shoelace2 l == 0) by (intro H0; apply E2, half_eq0_r, H0).
    unfold px, py; cbn [fst snd]. rewrite HS, Hx, Hy. split; field; auto.
Qed.

Lemma centroid_rotate l1 l2 : oeq (centroid (l2 ++ l1)) (centroid (l1 ++ l2)).
Proof.
  apply (centroid_scaled _ _ 1); [lra | | | ].
  - rewrite shoelace2_rotate. ring.
  - rewrite (cyc_rotate gx). ring.
  - rewrite (cyc_rotate gy). ring.
Qed.

Lemma centroid_rev l : oeq (centroid (rev l)) (centroid l).
Proof.
  apply (centroid_scaled _ _ (-1)); [lra | | | ].
  - rewrite shoelace2_rev. ring.
  - rewrite (cyc_rev gx gx_anti). ring.
  - rewrite (cyc_rev gy gy_anti). ring.
Qed.

Lemma voxel_centroid_is_centroid l : oeq (voxel_centroid l) (centroid l).
Proof. unfold voxel_centroid. destruct (normalise_cases l) as [E|E]; rewrite E; [apply oeq_refl | apply centroid_rev]. Qed.

(* ---- volume ----------------------------------------------------------------------------------- *)
Lemma volume_ext l l' : oeq (centroid l') (centroid l) -> area l' == area l ->
  volume_over_2pi l' == volume_over_2pi l.
Proof.
  unfold volume_over_2pi. intros Hc Ha.
  destruct (centroid l') as [c'|], (centroid l) as [c|]; cbn [oeq] in Hc; try contradiction; [|reflexivity].
  destruct Hc as [Hx _]. rewrite Hx, Ha. reflexivity.
Qed.

Lemma voxel_volume_is_volume l : voxel_volume_over_2pi l == volume_over_2pi l.
Proof. apply volume_ext; [apply voxel_centroid_is_centroid | apply voxel_area_is_area]. Qed.

(* ---- the statements about what a voxel reports ------------------------------------------------------ *)
Lemma voxel_area_rotation_invariant l1 l2 : voxel_area (l2 ++ l1) == voxel_area (l1 ++ l2).
Proof. rewrite !voxel_area_is_area. apply area_rotate. Qed.

Lemma voxel_area_reversal_invariant l : voxel_area (rev l) == voxel_area l.
Proof. rewrite !voxel_area_is_area. apply area_rev. Qed.

Lemma voxel_centroid_rotation_invariant l1 l2 : oeq (voxel_centroid (l2 ++ l1)) (voxel_centroid (l1 ++ l2)).
Proof.
  eapply oeq_trans; [apply voxel_centroid_is_centroid|].
  eapply oeq_trans; [apply centroid_rotate|]. apply oeq_sym, voxel_centroid_is_centroid.
Qed.

Lemma voxel_centroid_reversal_invariant l : oeq (voxel_centroid (rev l)) (voxel_centroid l).
Proof.
  eapply oeq_trans; [apply voxel_centroid_is_centroid|].
  eapply oeq_trans; [apply centroid_rev|]. apply oeq_sym, voxel_centroid_is_centroid.
Qed.

Lemma voxel_volume_rotation_invariant l1 l2 :
  voxel_volume_over_2pi (l2 ++ l1) == voxel_volume_over_2pi (l1 ++ l2).
Proof. rewrite !voxel_volume_is_volume. apply volume_ext; [apply centroid_rotate | apply area_rotate]. Qed.

Lemma voxel_volume_reversal_invariant l : voxel_volume_over_2pi (rev l) == voxel_volume_over_2pi l.
Proof. rewrite !voxel_volume_is_volume. apply volume_ext; [apply centroid_rev | apply area_rev]. Qed.

(* volume = 2 pi * centroid radius * area, by the code's own definition, with the 0 of the
   ZeroDivisionError branch exactly when the area is 0 *)
Lemma pappus pi l :
  match voxel_centroid l with
  | Some c => volume pi (normalise l) == 2 * pi * px c * voxel_area l
  | None => volume pi (normalise l) == 0 /\ voxel_area l == 0
  end.
Proof.
  unfold volume, volume_over_2pi, voxel_centroid, voxel_area.
  destruct (centroid (normalise l)) as [c|] eqn:E; [ring|]. split; [ring|].
  unfold centroid in E. destruct (Qeq_bool (shoelace2 (normalise l) / 2) 0) eqn:E1; [|discriminate].
  apply Qeq_bool_iff, half_eq0_l in E1. unfold area. rewrite E1. reflexivity.
Qed.

(* ---- translation (any radius, any height) --------------------------------------------------------- *)
Lemma area_shift t l : area (map (shift t) l) == area l.
Proof. unfold area. rewrite shoelace2_shift. reflexivity. Qed.

Lemma centroid_shift t l : oeq (centroid (map (shift t) l)) (option_map (shift t) (centroid l)).
Proof.
  unfold centroid.
  destruct (Qeq_bool (shoelace2 (map (shift t) l) / 2) 0) eqn:E1; destruct (Qeq_bool (shoelace2 l / 2) 0) eqn:E2;
    cbn [oeq option_map].
  - exact I.
  - apply Qeq_bool_iff in E1. apply Qeq_bool_neq in E2. apply E2. rewrite <- (shoelace2_shift t l). exact E1.
  - apply Qeq_bool_iff in E2. apply Qeq_bool_neq in E1. apply E1. rewrite shoelace2_shift. exact E2.
  - apply Qeq_bool_neq in E2.
    assert (~ shoelace2 l == 0) by (intro H0; apply E2, half_eq0_r, H0).
    pose proof (gx_shift t l) as Gx. pose proof (gy_shift t l) as Gy. pose proof (shoelace2_shift t l) as Gs.
    unfold px at 1 2, py at 1 2. cbn [fst snd]. rewrite Gx, Gy, Gs.
    unfold shift, px, py. cbn [fst snd]. split; field; auto.
Qed.

Lemma normalise_shift t l : normalise (map (shift t) l) = map (shift t) (normalise l).
Proof.
  unfold normalise. rewrite !winding2d_shoelace.
  assert (E : Qlt_b 0 (- shoelace2 (map (shift t) l)) = Qlt_b 0 (- shoelace2 l))
    by (unfold Qlt_b; rewrite shoelace2_shift; reflexivity).
  rewrite E. destruct (Qlt_b 0 (- shoelace2 l)); [reflexivity | apply eq_sym, map_rev].
Qed.

Lemma voxel_area_shift t l : voxel_area (map (shift t) l) == voxel_area l.
Proof. unfold voxel_area. rewrite normalise_shift. apply area_shift. Qed.

Lemma voxel_centroid_shift t l : oeq (voxel_centroid (map (shift t) l)) (option_map (shift t) (voxel_centroid l)).
Proof. unfold voxel_centroid. rewrite normalise_shift. apply centroid_shift. Qed.

(* ---- triangles and rectangles ------------------------------------------------------------------------ *)
Lemma triangle_shoelace a b c : shoelace2 [a; b; c] == tri2 a b c.
Proof. unfold shoelace2, cyc_sum, open_sum, last, cross, tri2. ring. Qed.

Lemma triangle_area_exact a b c : area [a; b; c] == tri_area a b c.
Proof. unfold area, tri_area. rewrite triangle_shoelace. field. Qed.

Lemma triangle_centroid_exact a b c : ~ tri2 a b c == 0 ->
  oeq (centroid [a; b; c]) (Some ((px a + px b + px c) / 3, (py a + py b + py c) / 3)).
Proof.
  intros Hne. unfold centroid.
  destruct (Qeq_bool (shoelace2 [a; b; c] / 2) 0) eqn:E.
  - apply Qeq_bool_iff, half_eq0_l in E. rewrite triangle_shoelace in E. contradiction.
  - assert (Ex : cyc_sum gx [a; b; c] == (px a + px b + px c) * tri2 a b c)
      by (unfold cyc_sum, open_sum, last, gx, cross, tri2; ring).
    assert (Ey : cyc_sum gy [a; b; c] == (py a + py b + py c) * tri2 a b c)
      by (unfold cyc_sum, open_sum, last, gy, cross, tri2; ring).
    apply oeq_some; [rewrite Ex | rewrite Ey]; rewrite triangle_shoelace; field; auto.
Qed.

Definition rectangle (r0 r1 z0 z1 : Q) : list pt := [(r0, z0); (r1, z0); (r1, z1); (r0, z1)].

Lemma rectangle_shoelace r0 r1 z0 z1 : shoelace2 (rectangle r0 r1 z0 z1) == 2 * ((r1 - r0) * (z1 - z0)).
Proof. unfold rectangle, shoelace2, cyc_sum, open_sum, last, cross, px, py. cbn [fst snd]. ring. Qed.

Lemma rectangle_area_exact r0 r1 z0 z1 : area (rectangle r0 r1 z0 z1) == Qabs ((r1 - r0) * (z1 - z0)).
Proof.
  unfold area. rewrite rectangle_shoelace, Qabs_Qmult. change (Qabs 2) with 2. field.
Qed.

Lemma rectangle_centroid_exact r0 r1 z0 z1 : ~ r0 == r1 -> ~ z0 == z1 ->
  oeq (centroid (rectangle r0 r1 z0 z1)) (Some ((r0 + r1) / 2, (z0 + z1) / 2)).
Proof.
  intros Hr Hz. unfold centroid.
  assert (Hne : ~ (r1 - r0) * (z1 - z0) == 0).
  { intro H0. apply Qmult_integral in H0. destruct H0; [apply Hr | apply Hz]; lra. }
  destruct (Qeq_bool (shoelace2 (rectangle r0 r1 z0 z1) / 2) 0) eqn:E.
  - apply Qeq_bool_iff, half_eq0_l in E. rewrite rectangle_shoelace in E. exfalso. apply Hne. lra.
  - assert (Ex : cyc_sum gx (rectangle r0 r1 z0 z1) == (r0 + r1) * (3 * ((r1 - r0) * (z1 - z0))))
      by (unfold rectangle, cyc_sum, open_sum, last, gx, cross, px, py; cbn [fst snd]; ring).
    assert (Ey : cyc_sum gy (rectangle r0 r1 z0 z1) == (z0 + z1) * (3 * ((r1 - r0) * (z1 - z0))))
      by (unfold rectangle, cyc_sum, open_sum, last, gy, cross, px, py; cbn [fst snd]; ring).
    apply oeq_some; [rewrite Ex | rewrite Ey]; rewrite rectangle_shoelace; field; repeat split; intro H0;
      first [apply Hr; lra | apply Hz; lra | apply Hne; lra].
Qed.

(* the volume of a rectangular ring is pi (r1^2 - r0^2) h, i.e. (r1^2 - r0^2) h / 2 without 2 pi *)
Lemma rectangle_volume_exact r0 r1 z0 z1 : r0 < r1 -> z0 < z1 ->
  volume_over_2pi (rectangle r0 r1 z0 z1) == (r1 * r1 - r0 * r0) * (z1 - z0) / 2.
Proof.
  intros Hr Hz. unfold volume_over_2pi.
  pose proof (rectangle_centroid_exact r0 r1 z0 z1) as Hc.
  destruct (centroid (rectangle r0 r1 z0 z1)) as [c|].
  - cbn [oeq] in Hc. destruct Hc as [Hx _]; [lra | lra |]. cbn [px fst] in Hx.
    rewrite Hx, rectangle_area_exact, Qabs_pos; [field|]. nra.
  - exfalso. apply Hc; lra.
Qed.

(* ---- fan decomposition from the first vertex, any number of vertices --------------------------------- *)
Lemma shoelace_is_fan_sum p l : l <> [] -> shoelace2 (p :: l) == open_sum (tri2 p) l.
Proof.
  intros Hl. unfold shoelace2. rewrite (cyc_fan cross cross_anti p l Hl).
  apply open_sum_ext. intros a b. apply T3_cross.
Qed.

Lemma centroid_numerators_fan p l : l <> [] ->
  cyc_sum gx (p :: l) == open_sum (fun a b => (px p + px a + px b) * tri2 p a b) l /\
  cyc_sum gy (p :: l) == open_sum (fun a b => (py p + py a + py b) * tri2 p a b) l.
Proof.
  intros Hl. split.
  - rewrite (cyc_fan gx gx_anti p l Hl). apply open_sum_ext. intros a b. apply T3_gx.
  - rewrite (cyc_fan gy gy_anti p l Hl). apply open_sum_ext. intros a b. apply T3_gy.
Qed.

(* centroid = signed-area weighted mean of the fan triangles' centroids *)
Lemma centroid_is_weighted_fan_mean p l : l <> [] -> ~ shoelace2 (p :: l) == 0 ->
  oeq (centroid (p :: l))
      (Some (open_sum (fun a b => tri2 p a b * ((px p + px a + px b) / 3)) l / open_sum (tri2 p) l,
             open_sum (fun a b => tri2 p a b * ((py p + py a + py b) / 3)) l / open_sum (tri2 p) l)).
Proof.
  intros Hl Hne. destruct (centroid_numerators_fan p l Hl) as [Hx Hy].
  pose proof (shoelace_is_fan_sum p l Hl) as HS.
  unfold centroid. destruct (Qeq_bool (shoelace2 (p :: l) / 2) 0) eqn:E.
  - apply Qeq_bool_iff, half_eq0_l in E. contradiction.
  - apply oeq_some.
    + rewrite (open_sum_ext (fun a b => tri2 p a b * ((px p + px a + px b) / 3))
                            (fun a b => (1 # 3) * ((px p + px a + px b) * tri2 p a b))) by (intros; field).
      rewrite open_sum_scale, <- Hx, <- HS. field; auto.
    + rewrite (open_sum_ext (fun a b => tri2 p a b * ((py p + py a + py b) / 3))
                            (fun a b => (1 # 3) * ((py p + py a + py b) * tri2 p a b))) by (intros; field).
      rewrite open_sum_scale, <- Hy, <- HS. field; auto.
Qed.

(* ---- grid total ----------------------------------------------------------------------------------------- *)
Lemma fold_total pi vs acc :
  fold_left (fun a v => a + volume pi (normalise v)) vs acc == acc + Qsum (map (fun v => volume pi (normalise v)) vs).
Proof.
  revert acc; induction vs as [|v vs IH]; intros acc; cbn [fold_left map Qsum]; [ring|].
  rewrite IH. ring.
Qed.

Lemma total_volume_is_sum pi vs : total_volume pi vs == Qsum (map (fun v => volume pi (normalise v)) vs).
Proof. unfold total_volume. rewrite fold_total. ring. Qed.

Lemma total_volume_app pi vs1 vs2 : total_volume pi (vs1 ++ vs2) == total_volume pi vs1 + total_volume pi vs2.
Proof. rewrite !total_volume_is_sum, map_app, Qsum_app. reflexivity. Qed.

Lemma total_volume_cons pi v vs : total_volume pi (v :: vs) == volume pi (normalise v) + total_volume pi vs.
Proof. rewrite !total_volume_is_sum. reflexivity. Qed.

(* ---- scaling (any magnitude of the coordinates) ---------------------------------------------------------- *)
Definition scl (k : Q) (p : pt) : pt := (k * px p, k * py p).

Lemma shoelace2_scale k l : shoelace2 (map (scl k) l) == k * k * shoelace2 l.
Proof.
  unfold shoelace2. rewrite cyc_sum_map.
  rewrite (cyc_sum_ext _ (fun p q => (k * k) * cross p q)) by (intros; unfold cross, scl, px, py; cbn [fst snd]; ring).
  apply cyc_sum_scale.
Qed.

Lemma gx_scale k l : cyc_sum gx (map (scl k) l) == k * k * k * cyc_sum gx l.
Proof.
  rewrite cyc_sum_map.
  rewrite (cyc_sum_ext _ (fun p q => (k * k * k) * gx p q)) by (intros; unfold gx, cross, scl, px, py; cbn [fst snd]; ring).
  apply cyc_sum_scale.
Qed.

Lemma gy_scale k l : cyc_sum gy (map (scl k) l) == k * k * k * cyc_sum gy l.
Proof.
  rewrite cyc_sum_map.
  rewrite (cyc_sum_ext _ (fun p q => (k * k * k) * gy p q)) by (intros; unfold gy, cross, scl, px, py; cbn [fst snd]; ring).
  apply cyc_sum_scale.
Qed.

Lemma area_scale k l : area (map (scl k) l) == k * k * area l.
Proof.
  unfold area. rewrite shoelace2_scale, Qabs_Qmult, (Qabs_pos (k * k)) by nra. field.
Qed.

Lemma centroid_scale k l : ~ k == 0 -> oeq (centroid (map (scl k) l)) (option_map (scl k) (centroid l)).
Proof.
  intros Hk. unfold centroid.
  assert (Hkk : ~ k * k == 0) by (intro H0; apply Qmult_integral in H0; tauto).
  destruct (Qeq_bool (shoelace2 (map (scl k) l) / 2) 0) eqn:E1; destruct (Qeq_bool (shoelace2 l / 2) 0) eqn:E2;
    cbn [oeq option_map].
  - exact I.
  - apply Qeq_bool_iff, half_eq0_l in E1. apply Qeq_bool_neq in E2. apply E2, half_eq0_r.
    rewrite shoelace2_scale in E1. apply Qmult_integral in E1. tauto.
  - apply Qeq_bool_iff, half_eq0_l in E2. apply Qeq_bool_neq in E1. apply E1, half_eq0_r.
    rewrite shoelace2_scale, E2. ring.
  - apply Qeq_bool_neq in E2.
    assert (~ shoelace2 l == 0) by (intro H0; apply E2, half_eq0_r, H0).
    pose proof (gx_scale k l) as Gx. pose proof (gy_scale k l) as Gy. pose proof (shoelace2_scale k l) as Gs.
    unfold px at 1 2, py at 1 2. cbn [fst snd]. rewrite Gx, Gy, Gs.
    unfold scl, px, py. cbn [fst snd]. split; field; auto.
Qed.

(* ---- the search's reference formulas are the model's formulas ------------------------------------------- *)
Lemma trapezoid_is_shoelace l : Qabs (cyc_sum gw l) / 2 == area l.
Proof. unfold area. rewrite gw_is_minus_cross, Qabs_opp. reflexivity. Qed.

(* ---- the rectangle test of the constructor accepts shapes that are not rectangles --------------------------- *)
Definition trapezoid_witness : list pt := [(2, 2); (4, 2); (5, 0); (1, 0)].
Lemma rectangle_helper_accepts_trapezoid :
  has_rectangular_cross_section trapezoid_witness = true /\ normalise trapezoid_witness = trapezoid_witness /\
  area trapezoid_witness == 6 /\ bbox_area trapezoid_witness == 8.
Proof. repeat split; vm_compute; reflexivity. Qed.

Lemma rectangle_helper_true_rectangles r0 r1 z0 z1 : has_rectangular_cross_section (rectangle r0 r1 z0 z1) = true.
Proof.
  unfold has_rectangular_cross_section, rectangle.
  assert (E : dist2 (r0, z0) (r1, z1) == dist2 (r1, z0) (r0, z1)) by (unfold dist2, px, py; cbn [fst snd]; ring).
  apply Qeq_bool_iff in E. rewrite E. cbn [negb].
  assert (E2 : py (r1, z0) - py (r0, z0) == 0) by (unfold py; cbn [snd]; ring).
  apply Qeq_bool_iff in E2. rewrite E2. cbn [negb]. rewrite Bool.andb_false_r. reflexivity.
Qed.
