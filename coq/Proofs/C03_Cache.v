(* Lemmas about the cache state machines (Model/C03_Cache.v), for every history of operations. *)
Require Import Cherab.Common.Qx Cherab.Model.C03_Cache.

Lemma populate_step_spec populated notified ok :
  fst (populate_step populated notified ok) = (notified || negb populated)%bool /\
  snd (populate_step populated notified ok) = (if (notified || negb populated)%bool then ok else true).
Proof. destruct populated, notified, ok; split; reflexivity. Qed.

(* the flags of a whole history: the cache is populated at an evaluation exactly when it is the first one, a
   notification arrived since the previous evaluation, or the previous populate failed *)
Fixpoint fresh_flags (prev_failed_or_first : bool) (steps : list (bool * bool)) : list bool :=
  match steps with
  | [] => []
  | (notified, ok) :: t => let fresh := (notified || prev_failed_or_first)%bool in
                           fresh :: fresh_flags (if fresh then negb ok else false) t
  end.

Lemma run_steps_flags steps : forall populated,
  run_steps populated (map (fun s => (fst s, (fun fr : bool => fr), snd s)) steps) = fresh_flags (negb populated) steps.
Proof.
  induction steps as [|[notified ok] t IH]; intro populated; [reflexivity|].
  cbn [map run_steps fresh_flags fst snd].
  destruct populated, notified, ok; cbn [populate_step negb orb]; rewrite IH; reflexivity.
Qed.

(* Bremsstrahlung: after any history the cache is populated, and the provider is consulted only when no user factor is set *)
Lemma brems_cache_step_spec st op :
  fst (snd (brems_cache_step st op)) = true /\
  (fst (brems_cache_step st op) = true -> snd (snd (brems_cache_step st op)) = false) /\
  (op = 2%Z -> fst (brems_cache_step st op) = false /\ snd (snd (brems_cache_step st op)) = true) /\
  (op = 3%Z -> fst (brems_cache_step st op) = true).
Proof.
  destruct st as [pop user]. unfold brems_cache_step.
  destruct (Z.eqb op 1) eqn:E1; [apply Z.eqb_eq in E1; subst; destruct user; repeat split; intros; try discriminate; reflexivity|].
  destruct (Z.eqb op 2) eqn:E2; [apply Z.eqb_eq in E2; subst; repeat split; intros; try discriminate; reflexivity|].
  destruct (Z.eqb op 3) eqn:E3; [apply Z.eqb_eq in E3; subst; repeat split; intros; try discriminate; reflexivity|].
  apply Z.eqb_neq in E2, E3.
  destruct pop, user; repeat split; intros; try discriminate; try reflexivity; congruence.
Qed.
