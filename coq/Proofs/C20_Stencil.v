(* Proofs about the stencil model: for every grid size >= 2x2 and every cell. *)
Require Import Cherab.Common.Qx.
Require Import Cherab.Model.C20_Stencil.
Open Scope Z_scope.

(* decide every neighbour-presence test, splitting on the four boundary conditions *)
Ltac split_has :=
  unfold at_left, at_right, at_top, at_bottom, top_left, top_right, bottom_left, bottom_right,
         at_left, at_right, at_top, at_bottom, has;
  repeat match goal with
         | |- context [?a <=? ?b] => destruct (Z.leb_spec a b); try lia
         | |- context [?a <? ?b] => destruct (Z.ltb_spec a b); try lia
         end.

Ltac red_stencil :=
  cbv beta iota delta [apply coeffs Qsum map offs fst snd upd when st0 scale op_row
       raw_Dx raw_Dy raw_Dxx raw_Dyy raw_Dxy andb orb negb Z.eqb Pos.eqb].

Section Grid.
  Variables nx ny ix iy : Z.
  Hypothesis Hnx : 2 <= nx.
  Hypothesis Hny : 2 <= ny.
  Hypothesis Hix : 0 <= ix < nx.
  Hypothesis Hiy : 0 <= iy < ny.
  Variables dx dy : Q.
  Hypothesis Hdx : ~ (dx == 0)%Q.
  Hypothesis Hdy : ~ (dy == 0)%Q.

  Lemma const_annihilated (o : opname) (c : Q) :
    (apply (op_row o nx ny ix iy dx dy) (fun _ _ => c) ix iy == 0)%Q.
  Proof.
    destruct o; unfold op_row, raw_Dx, raw_Dy, raw_Dxx, raw_Dyy, raw_Dxy; split_has; red_stencil; field; auto.
  Qed.

  Variables x0 y0 : Q.

  Ltac norm_coords :=
    unfold xc, yc; rewrite ?inject_Z_plus;
    change (inject_Z (-1)) with (-1 # 1)%Q; change (inject_Z 1) with (1 # 1)%Q;
    change (inject_Z 0) with (0 # 1)%Q.

  Ltac solve_stencil :=
    unfold op_row, raw_Dx, raw_Dy, raw_Dxx, raw_Dyy, raw_Dxy; split_has; red_stencil; norm_coords;
    field; auto.

  Definition lin (a b c : Q) : Z -> Z -> Q :=
    fun i j => (a + b * xc x0 dx i + c * yc y0 dy j)%Q.
  Definition bilin (a b c d : Q) : Z -> Z -> Q :=
    fun i j => (a + b * xc x0 dx i + c * yc y0 dy j + d * (xc x0 dx i * yc y0 dy j))%Q.
  Definition quad (a b c d e g : Q) : Z -> Z -> Q :=
    fun i j => (a + b * xc x0 dx i + c * yc y0 dy j + d * (xc x0 dx i * xc x0 dx i)
                + e * (xc x0 dx i * yc y0 dy j) + g * (yc y0 dy j * yc y0 dy j))%Q.

  Lemma Dx_exact_linear a b c : (apply (op_row ODx nx ny ix iy dx dy) (lin a b c) ix iy == b)%Q.
  Proof. unfold lin. solve_stencil. Qed.
  Lemma Dy_exact_linear a b c : (apply (op_row ODy nx ny ix iy dx dy) (lin a b c) ix iy == c)%Q.
  Proof. unfold lin. solve_stencil. Qed.
  Lemma Dxy_exact_bilinear a b c d : (apply (op_row ODxy nx ny ix iy dx dy) (bilin a b c d) ix iy == d)%Q.
  Proof. unfold bilin. solve_stencil. Qed.
  (* first derivatives are also exact on bilinear fields?  No: Dx (x*y) = y only with centred y;
     it is, since Dx uses the same row.  Stated for completeness of the jet used by ADMT. *)
  Lemma Dx_exact_bilinear a b c d :
    (apply (op_row ODx nx ny ix iy dx dy) (bilin a b c d) ix iy == b + d * yc y0 dy iy)%Q.
  Proof. unfold bilin. solve_stencil. Qed.
  Lemma Dy_exact_bilinear a b c d :
    (apply (op_row ODy nx ny ix iy dx dy) (bilin a b c d) ix iy == c + d * xc x0 dx ix)%Q.
  Proof. unfold bilin. solve_stencil. Qed.
  Lemma Dxx_exact_quadratic a b c d e g : 0 < ix < nx - 1 ->
    (apply (op_row ODxx nx ny ix iy dx dy) (quad a b c d e g) ix iy == 2 * d)%Q.
  Proof. intros Hint. unfold quad. solve_stencil. Qed.
  Lemma Dyy_exact_quadratic a b c d e g : 0 < iy < ny - 1 ->
    (apply (op_row ODyy nx ny ix iy dx dy) (quad a b c d e g) ix iy == 2 * g)%Q.
  Proof. intros Hint. unfold quad. solve_stencil. Qed.
  (* NB: at a boundary the code's second-derivative rows are the one-sided difference
     (f(x+dx) - f(x))/dx^2, which is NOT zero on linear fields; the property claims exactness of
     Dxx, Dyy only in interior cells, which is what is proved above. *)

  (* what the boundary second-derivative rows ARE: the one-sided first difference divided by the spacing once more, so on a
     linear field they return slope/spacing (not 0) -- the exact content of the NB above, for every grid and boundary cell *)
  Lemma Dxx_boundary_on_linear a b c : ix = 0 \/ ix = nx - 1 ->
    (apply (op_row ODxx nx ny ix iy dx dy) (lin a b c) ix iy == b / dx)%Q.
  Proof. intros [Hb|Hb]; unfold lin; solve_stencil. Qed.
  Lemma Dyy_boundary_on_linear a b c : iy = 0 \/ iy = ny - 1 ->
    (apply (op_row ODyy nx ny ix iy dx dy) (lin a b c) ix iy == c / dy)%Q.
  Proof. intros [Hb|Hb]; unfold lin; solve_stencil. Qed.
  (* interior rows are the centred differences, hence second-order: first derivatives and the mixed derivative are exact on
     every quadratic (not only on linear / bilinear fields) away from the boundary they differentiate across *)
  Lemma Dx_exact_quadratic_interior a b c d e g : 0 < ix < nx - 1 ->
    (apply (op_row ODx nx ny ix iy dx dy) (quad a b c d e g) ix iy == b + 2 * d * xc x0 dx ix + e * yc y0 dy iy)%Q.
  Proof. intros Hint. unfold quad. solve_stencil. Qed.
  Lemma Dy_exact_quadratic_interior a b c d e g : 0 < iy < ny - 1 ->
    (apply (op_row ODy nx ny ix iy dx dy) (quad a b c d e g) ix iy == c + e * xc x0 dx ix + 2 * g * yc y0 dy iy)%Q.
  Proof. intros Hint. unfold quad. solve_stencil. Qed.
  Lemma Dxy_exact_quadratic_interior a b c d e g : 0 < ix < nx - 1 -> 0 < iy < ny - 1 ->
    (apply (op_row ODxy nx ny ix iy dx dy) (quad a b c d e g) ix iy == e)%Q.
  Proof. intros Hint Hint'. unfold quad. solve_stencil. Qed.

  (* the row never refers to a cell outside the grid *)
  Lemma support_in_grid (o : opname) a b :
    ~ (op_row o nx ny ix iy dx dy a b == 0)%Q -> has nx ny ix iy a b = true.
  Proof.
    intros Hne. destruct (has nx ny ix iy a b) eqn:Hh; [reflexivity|exfalso; apply Hne; clear Hne].
    revert Hh.
    destruct o; unfold op_row, raw_Dx, raw_Dy, raw_Dxx, raw_Dyy, raw_Dxy, scale;
      split_has; cbv beta iota delta [upd when st0 andb orb negb];
      repeat match goal with
             | |- context [?u =? ?v] => destruct (Z.eqb_spec u v); subst; cbv beta iota delta [andb]; try lia
             end; intros; try discriminate; try (unfold Qdiv; ring).
  Qed.
End Grid.
