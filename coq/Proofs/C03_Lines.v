(* Lemmas about the line-emission models of Model/C03_Passive.v (excitation, recombination, thermal CX). *)
Require Import Cherab.Common.Qx Cherab.Model.C03_Passive.
From Coq Require Import Lqa.
Open Scope Q_scope.

Lemma nonpos_true x : x <= 0 -> Qle_bool x 0 = true.
Proof. intro H; apply Qle_bool_iff; exact H. Qed.

Lemma pos_false x : 0 < x -> Qle_bool x 0 = false.
Proof.
  intro H. destruct (Qle_bool x 0) eqn:E; [|reflexivity].
  apply Qle_bool_iff in E. exfalso; lra.
Qed.

Lemma Qle_bool_false x : Qle_bool x 0 = false -> 0 < x.
Proof.
  intro E. destruct (Qlt_le_dec 0 x) as [H|H]; [assumption|].
  apply Qle_bool_iff in H. congruence.
Qed.

Lemma k4pi_pos : 0 < k4pi.
Proof. reflexivity. Qed.

Lemma fold_sum {A} (g : A -> Q) (ds : list A) (a : Q) :
  fold_left (fun acc d => acc + g d) ds a == a + Qsum (map g ds).
Proof.
  revert a; induction ds as [|d t IH]; intro a; cbn [fold_left map Qsum]; [ring|].
  rewrite IH. ring.
Qed.

Lemma Qsum_nonneg (l : list Q) : (forall x, In x l -> 0 <= x) -> 0 <= Qsum l.
Proof.
  induction l as [|x t IH]; intro H; cbn [Qsum]; [lra|].
  assert (0 <= x) by (apply H; left; reflexivity).
  assert (0 <= Qsum t) by (apply IH; intros y Hy; apply H; right; exact Hy). lra.
Qed.

(* ---- line_radiance ------------------------------------------------------------------- *)
Lemma line_radiance_emit rate ne te s : 0 < ne -> 0 < te -> 0 < s_dens s ->
  line_radiance rate ne te s = Emit (k4pi * rate ne te * ne * s_dens s).
Proof.
  intros H1 H2 H3; unfold line_radiance.
  rewrite (pos_false ne H1), (pos_false te H2), (pos_false (s_dens s) H3). reflexivity.
Qed.

Lemma line_radiance_skip rate ne te s : ne <= 0 \/ te <= 0 \/ s_dens s <= 0 ->
  line_radiance rate ne te s = Skip.
Proof.
  intros H; unfold line_radiance.
  destruct (Qle_bool ne 0) eqn:E1; [reflexivity|].
  destruct (Qle_bool te 0) eqn:E2; [reflexivity|].
  destruct (Qle_bool (s_dens s) 0) eqn:E3; [reflexivity|].
  apply Qle_bool_false in E1, E2, E3. destruct H as [H|[H|H]]; lra.
Qed.

Lemma line_radiance_nonneg rate ne te s : 0 <= rate ne te -> 0 <= emitted (line_radiance rate ne te s).
Proof.
  intros Hr; unfold line_radiance.
  destruct (Qle_bool ne 0) eqn:E1; [cbn; lra|].
  destruct (Qle_bool te 0) eqn:E2; [cbn; lra|].
  destruct (Qle_bool (s_dens s) 0) eqn:E3; [cbn; lra|].
  apply Qle_bool_false in E1, E2, E3. cbn [emitted].
  pose proof k4pi_pos.
  repeat apply Qmult_le_0_compat; lra.
Qed.

(* ---- excitation / recombination ------------------------------------------------------- *)
Lemma excitation_formula P l ne te comp s :
  comp_get comp (l_elem l) (l_charge l) = Some s -> 0 < ne -> 0 < te -> 0 < s_dens s ->
  excitation_radiance P l ne te comp = Emit (k4pi * excit_pec P (l_elem l) (l_charge l) (l_trans l) ne te * ne * s_dens s).
Proof. intros G H1 H2 H3; unfold excitation_radiance; rewrite G. apply line_radiance_emit; assumption. Qed.

Lemma recombination_formula P l ne te comp s :
  comp_get comp (l_elem l) (l_charge l + 1) = Some s -> 0 < ne -> 0 < te -> 0 < s_dens s ->
  recombination_radiance P l ne te comp = Emit (k4pi * recom_pec P (l_elem l) (l_charge l) (l_trans l) ne te * ne * s_dens s).
Proof. intros G H1 H2 H3; unfold recombination_radiance; rewrite G. apply line_radiance_emit; assumption. Qed.

Lemma excitation_zero P l ne te comp s :
  comp_get comp (l_elem l) (l_charge l) = Some s -> ne <= 0 \/ te <= 0 \/ s_dens s <= 0 ->
  excitation_radiance P l ne te comp = Skip.
Proof. intros G H; unfold excitation_radiance; rewrite G. apply line_radiance_skip; assumption. Qed.

Lemma recombination_zero P l ne te comp s :
  comp_get comp (l_elem l) (l_charge l + 1) = Some s -> ne <= 0 \/ te <= 0 \/ s_dens s <= 0 ->
  recombination_radiance P l ne te comp = Skip.
Proof. intros G H; unfold recombination_radiance; rewrite G. apply line_radiance_skip; assumption. Qed.

Lemma excitation_nonneg P l ne te comp :
  (forall e c t a b, 0 <= excit_pec P e c t a b) -> 0 <= emitted (excitation_radiance P l ne te comp).
Proof.
  intros Hr; unfold excitation_radiance. destruct (comp_get _ _ _); [|cbn; lra].
  apply line_radiance_nonneg, Hr.
Qed.

Lemma recombination_nonneg P l ne te comp :
  (forall e c t a b, 0 <= recom_pec P e c t a b) -> 0 <= emitted (recombination_radiance P l ne te comp).
Proof.
  intros Hr; unfold recombination_radiance. destruct (comp_get _ _ _); [|cbn; lra].
  apply line_radiance_nonneg, Hr.
Qed.

(* ---- updating one density ---------------------------------------------------------------- *)
Lemma key_upd e c n e' c' s : key_eqb e' c' (upd_species e c n s) = key_eqb e' c' s.
Proof. unfold upd_species. destruct (key_eqb e c s); reflexivity. Qed.

Lemma comp_get_upd e c n comp e' c' :
  comp_get (upd_dens e c n comp) e' c' = option_map (upd_species e c n) (comp_get comp e' c').
Proof.
  unfold comp_get, upd_dens. induction comp as [|s t IH]; [reflexivity|].
  cbn [map find]. rewrite key_upd. destruct (key_eqb e' c' s); [reflexivity|exact IH].
Qed.

Lemma comp_get_key comp e c s : comp_get comp e c = Some s -> key_eqb e c s = true.
Proof. unfold comp_get; intro H. apply find_some in H. tauto. Qed.

Lemma comp_get_in comp e c s : comp_get comp e c = Some s -> In s comp.
Proof. unfold comp_get; intro H. apply find_some in H. tauto. Qed.

Lemma excitation_linear P l ne te comp s n :
  comp_get comp (l_elem l) (l_charge l) = Some s -> 0 < ne -> 0 < te -> 0 < n ->
  emitted (excitation_radiance P l ne te (upd_dens (l_elem l) (l_charge l) n comp))
  == n * (k4pi * excit_pec P (l_elem l) (l_charge l) (l_trans l) ne te * ne).
Proof.
  intros G H1 H2 H3. unfold excitation_radiance. rewrite comp_get_upd, G. cbn [option_map].
  unfold upd_species. rewrite (comp_get_key _ _ _ _ G).
  rewrite line_radiance_emit by assumption. cbn [emitted set_dens s_dens]. ring.
Qed.

Lemma recombination_linear P l ne te comp s n :
  comp_get comp (l_elem l) (l_charge l + 1) = Some s -> 0 < ne -> 0 < te -> 0 < n ->
  emitted (recombination_radiance P l ne te (upd_dens (l_elem l) (l_charge l + 1) n comp))
  == n * (k4pi * recom_pec P (l_elem l) (l_charge l) (l_trans l) ne te * ne).
Proof.
  intros G H1 H2 H3. unfold recombination_radiance. rewrite comp_get_upd, G. cbn [option_map].
  unfold upd_species. rewrite (comp_get_key _ _ _ _ G).
  rewrite line_radiance_emit by assumption. cbn [emitted set_dens s_dens]. ring.
Qed.

(* ---- thermal charge exchange ------------------------------------------------------------- *)
Lemma donor_filter_spec rcv comp d :
  In d (donors rcv comp) <->
  In d comp /\ key_eqb (s_elem rcv) (s_charge rcv) d = false /\ (s_charge d < s_znum d)%Z.
Proof.
  unfold donors, is_donor. rewrite filter_In, andb_true_iff, negb_true_iff, Z.ltb_lt. tauto.
Qed.

Lemma tcx_weighted_sum P l ne te ds :
  tcx_weighted P l ne te ds == Qsum (map (tcx_term P l ne te) ds).
Proof.
  unfold tcx_weighted.
  assert (G : forall a, fold_left (fun acc d => if Qle_bool (s_dens d) 0 then acc else acc + tcx_raw_term P l ne te d) ds a
                  == a + Qsum (map (tcx_term P l ne te) ds)).
  { induction ds as [|d t IH]; intro a; cbn [fold_left map Qsum]; [ring|].
    rewrite IH. unfold tcx_term at 2. destruct (Qle_bool (s_dens d) 0); ring. }
  rewrite G. ring.
Qed.

(* a donor of non-positive density contributes nothing; otherwise n_d * PEC_d(ne, te, T_d) *)
Lemma tcx_term_zero P l ne te d : s_dens d <= 0 -> tcx_term P l ne te d == 0.
Proof. intro H; unfold tcx_term; rewrite (nonpos_true _ H); reflexivity. Qed.

Lemma tcx_term_pos P l ne te d : 0 < s_dens d -> tcx_term P l ne te d == s_dens d * tcx_coef P l ne te d.
Proof. intro H; unfold tcx_term; rewrite (pos_false _ H); reflexivity. Qed.

Lemma tcx_term_nonneg P l ne te d :
  (forall de dc re rc t a b c, 0 <= tcx_pec P de dc re rc t a b c) -> 0 <= tcx_term P l ne te d.
Proof.
  intro Hr; unfold tcx_term. destruct (Qle_bool (s_dens d) 0) eqn:E; [lra|].
  apply Qle_bool_false in E. unfold tcx_raw_term. apply Qmult_le_0_compat; [lra|apply Hr].
Qed.

Lemma thermalcx_formula P l ne te comp rcv :
  comp_get comp (l_elem l) (l_charge l + 1) = Some rcv -> 0 < ne -> 0 < te -> 0 < s_dens rcv ->
  exists r, thermalcx_radiance P l ne te comp = Emit r /\
            r == k4pi * s_dens rcv * Qsum (map (tcx_term P l ne te) (donors rcv comp)).
Proof.
  intros G H1 H2 H3. unfold thermalcx_radiance. rewrite G.
  rewrite (pos_false ne H1), (pos_false te H2), (pos_false (s_dens rcv) H3).
  eexists; split; [reflexivity|]. rewrite tcx_weighted_sum. ring.
Qed.

Lemma thermalcx_zero P l ne te comp rcv :
  comp_get comp (l_elem l) (l_charge l + 1) = Some rcv -> ne <= 0 \/ te <= 0 \/ s_dens rcv <= 0 ->
  thermalcx_radiance P l ne te comp = Skip.
Proof.
  intros G H. unfold thermalcx_radiance. rewrite G.
  destruct (Qle_bool ne 0) eqn:E1; [reflexivity|].
  destruct (Qle_bool te 0) eqn:E2; [reflexivity|].
  destruct (Qle_bool (s_dens rcv) 0) eqn:E3; [reflexivity|].
  apply Qle_bool_false in E1, E2, E3. destruct H as [H|[H|H]]; lra.
Qed.

(* non-negative coefficients give non-negative emission, whatever the signs of the densities and temperatures *)
Lemma thermalcx_nonneg P l ne te comp :
  (forall de dc re rc t a b c, 0 <= tcx_pec P de dc re rc t a b c) ->
  0 <= emitted (thermalcx_radiance P l ne te comp).
Proof.
  intros Hr. unfold thermalcx_radiance. destruct (comp_get _ _ _) as [rcv|]; [|cbn; lra].
  destruct (Qle_bool ne 0) eqn:E1; [cbn; lra|].
  destruct (Qle_bool te 0) eqn:E2; [cbn; lra|].
  destruct (Qle_bool (s_dens rcv) 0) eqn:E3; [cbn; lra|].
  apply Qle_bool_false in E3. cbn [emitted]. rewrite tcx_weighted_sum.
  pose proof k4pi_pos.
  assert (0 <= Qsum (map (tcx_term P l ne te) (donors rcv comp))).
  { apply Qsum_nonneg. intros x Hx. apply in_map_iff in Hx. destruct Hx as [d [<- Hin]].
    apply tcx_term_nonneg, Hr. }
  repeat apply Qmult_le_0_compat; lra.
Qed.

(* record of a past finding (fixed in /repo by d7d08ca): the donor loop WITHOUT the density guard gives negative
   emission for a negative donor density although every coefficient is non-negative *)
Definition tcx_weighted_unfixed (P : provider) (l : line) (ne te : Q) (ds : list species) : Q :=
  fold_left (fun acc d => acc + tcx_raw_term P l ne te d) ds 0.
Definition refute_P : provider :=
  mkProvider (fun _ _ _ _ _ => 1) (fun _ _ _ _ _ => 1) (fun _ _ _ _ _ _ _ _ => 1)
             (fun _ _ => None) (fun _ _ => None) (fun _ _ => None).
Definition refute_rcv : species := mkSpecies 4 6 6 1 1.
Definition refute_comp : composition := [refute_rcv; mkSpecies 1 0 1 (-1) 1].
Lemma thermalcx_unfixed_negative_donor_refuted :
  (forall de dc re rc t a b c, 0 <= tcx_pec refute_P de dc re rc t a b c) /\
  k4pi * tcx_weighted_unfixed refute_P (mkLine 4 5 0) 1 1 (donors refute_rcv refute_comp) * s_dens refute_rcv < 0 /\
  emitted (thermalcx_radiance refute_P (mkLine 4 5 0) 1 1 refute_comp) == 0.
Proof. split; [intros; cbn; lra | split; vm_compute; reflexivity]. Qed.

(* filter commutes with a map that does not change the predicate *)
Lemma filter_map_inv {A} (p : A -> bool) (f : A -> A) (l : list A) :
  (forall x, p (f x) = p x) -> filter p (map f l) = map f (filter p l).
Proof.
  intro H. induction l as [|x t IH]; [reflexivity|]. cbn [map filter]. rewrite H.
  destruct (p x); [cbn [map]; rewrite IH; reflexivity|exact IH].
Qed.

Lemma is_donor_upd rcv e c n s : is_donor rcv (upd_species e c n s) = is_donor rcv s.
Proof. unfold is_donor. rewrite key_upd. unfold upd_species. destruct (key_eqb e c s); reflexivity. Qed.

Lemma donors_upd rcv e c n comp :
  donors rcv (upd_dens e c n comp) = map (upd_species e c n) (donors rcv comp).
Proof. unfold donors, upd_dens. apply filter_map_inv. intro; apply is_donor_upd. Qed.

(* sum over an updated list: the species with the key contribute n * coefficient *)
Lemma tcx_sum_upd P l ne te e c n ds : 0 < n ->
  Qsum (map (tcx_term P l ne te) (map (upd_species e c n) ds)) ==
  Qsum (map (tcx_term P l ne te) (filter (fun d => negb (key_eqb e c d)) ds))
  + n * Qsum (map (tcx_coef P l ne te) (filter (key_eqb e c) ds)).
Proof.
  intro Hn. induction ds as [|d t IH]; [cbn; ring|].
  cbn [map filter Qsum]. rewrite IH. unfold upd_species at 1.
  destruct (key_eqb e c d); cbn [negb map Qsum]; [|ring].
  rewrite tcx_term_pos by (cbn [set_dens s_dens]; exact Hn).
  unfold tcx_coef; cbn [set_dens s_dens s_elem s_charge s_temp]; ring.
Qed.

Lemma upd_species_other e c n s : key_eqb e c s = false -> upd_species e c n s = s.
Proof. intro K; unfold upd_species; rewrite K; reflexivity. Qed.

Lemma upd_species_same e c n s : key_eqb e c s = true -> upd_species e c n s = set_dens s n.
Proof. intro K; unfold upd_species; rewrite K; reflexivity. Qed.

(* affine in every donor density on the positive side of the donor guard *)
Lemma thermalcx_affine_in_donor P l ne te comp rcv de dc n :
  comp_get comp (l_elem l) (l_charge l + 1) = Some rcv -> key_eqb de dc rcv = false ->
  0 < ne -> 0 < te -> 0 < s_dens rcv -> 0 < n ->
  emitted (thermalcx_radiance P l ne te (upd_dens de dc n comp)) ==
    k4pi * s_dens rcv * Qsum (map (tcx_term P l ne te) (filter (fun d => negb (key_eqb de dc d)) (donors rcv comp)))
  + n * (k4pi * s_dens rcv * Qsum (map (tcx_coef P l ne te) (filter (key_eqb de dc) (donors rcv comp)))).
Proof.
  intros G K H1 H2 H3 Hn. unfold thermalcx_radiance. rewrite comp_get_upd, G. cbn [option_map].
  rewrite (upd_species_other _ _ _ _ K).
  rewrite (pos_false ne H1), (pos_false te H2), (pos_false (s_dens rcv) H3). cbn [emitted].
  rewrite tcx_weighted_sum, donors_upd, tcx_sum_upd by exact Hn. ring.
Qed.

Lemma map_upd_id e c n (ds : list species) :
  (forall d, In d ds -> key_eqb e c d = false) -> map (upd_species e c n) ds = ds.
Proof.
  intro H. induction ds as [|d t IH]; [reflexivity|]. cbn [map].
  unfold upd_species at 1. rewrite (H d (or_introl eq_refl)). rewrite IH; [reflexivity|].
  intros x Hx; apply H; right; exact Hx.
Qed.

(* linear in the receiver density on the positive side of the guard *)
Lemma thermalcx_linear_in_receiver P l ne te comp rcv n :
  comp_get comp (l_elem l) (l_charge l + 1) = Some rcv -> 0 < ne -> 0 < te -> 0 < n ->
  emitted (thermalcx_radiance P l ne te (upd_dens (l_elem l) (l_charge l + 1) n comp)) ==
  n * (k4pi * Qsum (map (tcx_term P l ne te) (donors rcv comp))).
Proof.
  intros G H1 H2 H3. unfold thermalcx_radiance. rewrite comp_get_upd, G. cbn [option_map].
  pose proof (comp_get_key _ _ _ _ G) as K.
  rewrite (upd_species_same _ _ _ _ K). cbn [set_dens s_dens].
  rewrite (pos_false ne H1), (pos_false te H2), (pos_false n H3). cbn [emitted].
  rewrite tcx_weighted_sum, donors_upd.
  change (donors (set_dens rcv n) comp) with (donors rcv comp).
  rewrite map_upd_id; [ring|].
  intros d Hd. apply donor_filter_spec in Hd. destruct Hd as [_ [Hk _]].
  unfold key_eqb in K. apply andb_true_iff in K. destruct K as [K1 K2].
  apply Z.eqb_eq in K1, K2. rewrite <- K1, <- K2. exact Hk.
Qed.
