(* C16: Spectrometer -- settings after any history equal those of a fresh instrument. *)
Require Import Cherab.Common.Qx.
Require Import Cherab.Model.C16_Instruments Cherab.Proofs.C16_Base.
From Coq Require Import String.

Section SP.
Variable rnd : Q -> Q.

Definition sp_inv (s : sp_state) : Prop :=
  coh (sp_view rnd s) (sp_base s) /\ sp_wl s = map (centres rnd) (sp_w2p s)
  /\ b_classes (sp_base s) <> Missing /\ forallb valid_arr (sp_w2p s) = true /\ (0 < sp_mbpp s)%Z.

(* the parameters of an instrument: (min_bins_per_pixel, wavelength_to_pixel, name) *)
Definition sp_pars : Type := Z * list (list Q) * string.
Definition sp_params_of (s : sp_state) : sp_pars := (sp_mbpp s, sp_w2p s, b_name (sp_base s)).
Definition sp_record (p : sp_pars) : sp_params :=
  {| spp_mbpp := inject_Z (fst (fst p)); spp_w2p := snd (fst p); spp_name := snd p |}.

(* what a call means on the level of parameters: a valid assignment replaces that parameter, a
   rejected one and every getter leave the parameters alone *)
Definition sp_pstep (o : sp_op) (p : sp_pars) : sp_pars :=
  match o with
  | SpSetW2p v => if forallb valid_arr v then (fst (fst p), v, snd p) else p
  | SpSetMbpp v => if (trunc v <=? 0)%Z then p else (trunc v, snd (fst p), snd p)
  | SpSetName v => (fst (fst p), snd (fst p), v)
  | _ => p
  end.

Definition sp_is_obs (o : sp_op) : bool :=
  match o with SpGet _ | SpGetW2p | SpGetWl => true | _ => false end.

Ltac inv_split := unfold sp_inv; split; [|split; [|split; [|split]]]; cbn; try assumption; try reflexivity.

Lemma sp_view_ext s1 s2 : sp_params_of s1 = sp_params_of s2 -> sp_view rnd s1 = sp_view rnd s2.
Proof. unfold sp_params_of, sp_view. intros E. injection E as E1 E2 E3. rewrite E1, E2, E3. reflexivity. Qed.

Lemma sp_step_params o s : sp_params_of (fst (sp_step rnd o s)) = sp_pstep o (sp_params_of s).
Proof.
  destruct o; cbn.
  - unfold sp_set_w2p. destruct (forallb valid_arr v); reflexivity.
  - unfold sp_set_mbpp. destruct (trunc v <=? 0)%Z; reflexivity.
  - reflexivity.
  - pose proof (gstep_shape (sp_view rnd s) g (sp_base s)) as (En & _).
    destruct (gstep (sp_view rnd s) g (sp_base s)) as [b r]. cbn in *. unfold sp_params_of. cbn. rewrite En. reflexivity.
  - reflexivity.
  - reflexivity.
Qed.

Lemma sp_step_inv o s : sp_inv s -> sp_inv (fst (sp_step rnd o s)).
Proof.
  intros I. pose proof I as (Hc & Hw & Hm & Hv & Hp). destruct o; cbn.
  - unfold sp_set_w2p. destruct (forallb valid_arr v) eqn:E; cbn; [|exact I].
    inv_split; try assumption. eapply coh_clear_of; [| |exact Hc]; reflexivity.
  - unfold sp_set_mbpp. destruct (trunc v <=? 0)%Z eqn:E; cbn; [exact I|].
    inv_split; try assumption; [|apply Z.leb_gt in E; exact E].
    eapply coh_clear_of; [| |exact Hc]; reflexivity.
  - inv_split; try assumption. eapply coh_set_name; [| |exact Hc]; reflexivity.
  - pose proof (gstep_coh (sp_view rnd s) g (sp_base s) Hc) as C.
    pose proof (gstep_shape (sp_view rnd s) g (sp_base s)) as (En & Hs).
    destruct (gstep (sp_view rnd s) g (sp_base s)) as [b r]. cbn in *.
    inv_split; try assumption; [|tauto].
    replace (sp_view rnd (sp_with_base s b)) with (sp_view rnd s); [exact C|].
    apply sp_view_ext. unfold sp_params_of; cbn. rewrite En. reflexivity.
  - exact I.
  - exact I.
Qed.

Lemma sp_construct_inv p s :
  sp_construct rnd p = Ok s -> sp_inv s /\ sp_params_of s = (trunc (spp_mbpp p), spp_w2p p, spp_name p).
Proof.
  unfold sp_construct, sp_set_mbpp, sp_set_w2p. cbn.
  destruct (trunc (spp_mbpp p) <=? 0)%Z eqn:E1; [discriminate|]. cbn.
  destruct (forallb valid_arr (spp_w2p p)) eqn:E2; [|discriminate]. cbn.
  intros E. injection E as <-. split; [|reflexivity]. apply Z.leb_gt in E1.
  inv_split; [|discriminate]. apply coh_clear; cbn; intros; discriminate.
Qed.

Lemma sp_reconstruct s :
  sp_inv s -> exists sf, sp_construct rnd (sp_record (sp_params_of s)) = Ok sf /\ sp_inv sf /\ sp_params_of sf = sp_params_of s.
Proof.
  intros (Hc & Hw & Hm & Hv & Hp).
  unfold sp_construct, sp_set_mbpp, sp_set_w2p, sp_record, sp_params_of. cbn.
  rewrite trunc_inject. destruct (sp_mbpp s <=? 0)%Z eqn:E1; [apply Z.leb_le in E1; lia|]. cbn.
  rewrite Hv. cbn. eexists. split; [reflexivity|]. split; [|reflexivity].
  inv_split; [|discriminate]. apply coh_clear; cbn; intros; discriminate.
Qed.

(* two coherent instruments with the same parameters answer every sequence of reads alike *)
Lemma sp_obs_equiv obs : forall s1 s2,
  sp_inv s1 -> sp_inv s2 -> sp_params_of s1 = sp_params_of s2 -> total (sp_view rnd s1) ->
  forallb sp_is_obs obs = true ->
  snd (run (sp_step rnd) obs s1) = snd (run (sp_step rnd) obs s2).
Proof.
  induction obs as [|o t IH]; intros s1 s2 I1 I2 EP T Ho; [reflexivity|].
  cbn in Ho. apply andb_prop in Ho as [Ho Ht].
  rewrite !run_cons_snd.
  assert (snd (sp_step rnd o s1) = snd (sp_step rnd o s2)) as ->.
  { destruct o; try discriminate; cbn.
    - pose proof (sp_view_ext _ _ EP) as EV.
      pose proof (gstep_answer (sp_view rnd s1) g (sp_base s1) T (proj1 I1)) as A1.
      rewrite EV in T. pose proof (gstep_answer (sp_view rnd s2) g (sp_base s2) T (proj1 I2)) as A2.
      destruct (gstep (sp_view rnd s1) g (sp_base s1)), (gstep (sp_view rnd s2) g (sp_base s2)). cbn in *.
      rewrite A1, A2, EV. f_equal.
      destruct I1 as (_ & _ & M1 & _), I2 as (_ & _ & M2 & _). unfold is_missing.
      destruct (b_classes (sp_base s1)), (b_classes (sp_base s2)); congruence.
    - injection EP as _ E _. rewrite E. reflexivity.
    - destruct I1 as (_ & W1 & _), I2 as (_ & W2 & _). injection EP as _ E _. rewrite W1, W2, E. reflexivity. }
  f_equal. apply IH; try assumption.
  - apply sp_step_inv, I1.
  - apply sp_step_inv, I2.
  - rewrite !sp_step_params, EP. reflexivity.
  - replace (sp_view rnd (fst (sp_step rnd o s1))) with (sp_view rnd s1); [exact T|].
    apply sp_view_ext. rewrite sp_step_params. destruct o; try discriminate; reflexivity.
Qed.

Theorem sp_history p0 s0 ops :
  sp_construct rnd p0 = Ok s0 ->
  let s := fst (run (sp_step rnd) ops s0) in
  sp_params_of s = fold_left (fun p o => sp_pstep o p) ops (sp_params_of s0) /\
  exists sf, sp_construct rnd (sp_record (sp_params_of s)) = Ok sf /\
    (total (sp_view rnd s) -> forall obs, forallb sp_is_obs obs = true ->
       snd (run (sp_step rnd) obs s) = snd (run (sp_step rnd) obs sf)).
Proof.
  intros Hc s. split.
  - apply (run_fold (sp_step rnd) sp_params_of sp_pstep). intros; apply sp_step_params.
  - assert (sp_inv s) as I.
    { apply (run_inv (sp_step rnd) sp_inv); [intros; apply sp_step_inv; assumption|].
      apply (sp_construct_inv _ _ Hc). }
    destruct (sp_reconstruct s I) as (sf & E & If & Ep).
    exists sf. split; [exact E|]. intros T obs Ho. apply sp_obs_equiv; auto.
Qed.

(* reachable states are coherent and hold valid pixel arrays *)
Lemma sp_reachable_inv p0 s0 ops :
  sp_construct rnd p0 = Ok s0 -> sp_inv (fst (run (sp_step rnd) ops s0)).
Proof.
  intros Hc. apply (run_inv (sp_step rnd) sp_inv); [intros; apply sp_step_inv; assumption|].
  apply (sp_construct_inv _ _ Hc).
Qed.

End SP.
