(* C04: streamlines of the direction field keep x / sigma_x(z) constant -- differential form over the
   reals (Coquelicot).  The direction formula is transcribed from Model/C04_Beam.v direction_raw:
   e_x = x z^2 t^2 / (s^2 + z^2 t^2), e_z = z; the same identity over the model in Q is
   Proofs/C04_Direction.v streamline_algebraic. *)
From Coq Require Import Reals Lra.
From Coquelicot Require Import Coquelicot.
Open Scope R_scope.

Definition ex_R (s t x z : R) : R := x * (z * z * t * t) / (s * s + z * z * t * t).
Definition sigma_R (s t z : R) : R := sqrt (s * s + z * z * t * t).

Lemma sigma_arg_pos s t z : 0 < s -> 0 < s * s + z * z * t * t.
Proof.
  intros Hs. assert (0 < s * s) by (apply Rmult_lt_0_compat; assumption).
  assert (0 <= (z * t) * (z * t)) by (apply Rle_0_sqr).
  replace (z * z * t * t) with ((z * t) * (z * t)) by ring. lra.
Qed.

(* any curve x(z) that follows the direction field, dx/dz = e_x / e_z, has d/dz (x / sigma_x) = 0 *)
Lemma streamline_derivative_zero (s t : R) (x : R -> R) (z : R) :
  0 < s -> 0 < z ->
  is_derive x z (ex_R s t (x z) z / z) ->
  is_derive (fun u => x u / sigma_R s t u) z 0.
Proof.
  intros Hs Hz Hx. pose proof (sigma_arg_pos s t z Hs) as Hp.
  unfold sigma_R, ex_R in *.
  evar (d : R).
  assert (H : is_derive (fun u => x u / sqrt (s * s + u * u * t * t)) z d).
  { unfold d. auto_derive.
    - repeat split; [exists (x z * (z * z * t * t) / (s * s + z * z * t * t) / z); exact Hx | exact Hp | ].
      apply Rgt_not_eq, sqrt_lt_R0; exact Hp.
    - rewrite (is_derive_unique (fun x0 : R => x x0) z _ Hx). reflexivity. }
  assert (E : d = 0).
  { unfold d. set (q := s * s + z * z * t * t) in *.
    assert (Hq : sqrt q * sqrt q = q) by (apply sqrt_sqrt; lra).
    assert (Hsq : sqrt q <> 0) by (apply Rgt_not_eq, sqrt_lt_R0; exact Hp).
    set (r := sqrt q) in *. clearbody r. clearbody q. subst q.
    field. repeat split; lra. }
  rewrite <- E. exact H.
Qed.

(* integrated form: along a curve that follows the field on [a, b] (a > 0), x / sigma_x is constant *)
Lemma streamline_constant (s t : R) (x : R -> R) (a b : R) :
  0 < s -> 0 < a ->
  (forall z, a <= z <= b -> is_derive x z (ex_R s t (x z) z / z)) ->
  forall z, a <= z <= b -> x z / sigma_R s t z = x a / sigma_R s t a.
Proof.
  intros Hs Ha Hx z [Haz Hzb].
  destruct (Req_dec a z) as [->|Hne]; [reflexivity|].
  assert (Hlt : a < z) by lra.
  set (f := fun u => x u / sigma_R s t u).
  assert (Hd : forall u, a <= u <= z -> is_derive f u 0).
  { intros u [H1 H2]. apply streamline_derivative_zero; [exact Hs | lra | apply Hx; lra]. }
  destruct (MVT_gen f a z (fun _ => 0)) as (c & _ & Hc).
  - intros u Hu. rewrite Rmin_left in Hu by lra. rewrite Rmax_right in Hu by lra. apply Hd; lra.
  - intros u Hu. rewrite Rmin_left in Hu by lra. rewrite Rmax_right in Hu by lra.
    apply derivable_continuous_pt. apply ex_derive_Reals_0. exists 0. apply Hd; lra.
  - unfold f in Hc. lra.
Qed.
