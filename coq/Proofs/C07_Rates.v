(* C07 -- lemmas about the rate model (all table sizes, all tables, every oracle obeying oracle_laws). *)
Require Import Cherab.Common.Qx Cherab.Model.C07_Rates.
From Coq Require Import Lqa.
Open Scope Q_scope.

Lemma nonpos_false x : 0 < x -> nonpos x = false.
Proof.
  intro H. unfold nonpos. destruct (Qle_bool x 0) eqn:E; auto.
  apply Qle_bool_iff in E. exfalso; lra.
Qed.

Lemma nonpos_true x : x <= 0 -> nonpos x = true.
Proof. intro H. unfold nonpos. apply Qle_bool_iff. exact H. Qed.

Lemma nonpos_false_inv x : nonpos x = false -> 0 < x.
Proof.
  unfold nonpos. intro E. destruct (Qlt_le_dec 0 x) as [H|H]; auto.
  apply Qle_bool_iff in H. congruence.
Qed.

Lemma sorted_first xs i : sorted xs -> (i < length xs)%nat -> firstq xs <= nth i xs 0.
Proof.
  intros S Hi. unfold firstq. destruct i as [|i]; [lra|].
  apply Qlt_le_weak, S. lia.
Qed.

Lemma sorted_last xs i : sorted xs -> (i < length xs)%nat -> nth i xs 0 <= lastq xs.
Proof.
  intros S Hi. unfold lastq.
  destruct (Nat.eq_dec i (length xs - 1)) as [->|Hne]; [lra|].
  apply Qlt_le_weak, S. lia.
Qed.

Lemma inrange_node xs i : sorted xs -> (i < length xs)%nat -> inrange xs (nth i xs 0) = true.
Proof.
  intros S Hi. unfold inrange. apply andb_true_iff; split; apply Qle_bool_iff.
  - apply sorted_first; auto.
  - apply sorted_last; auto.
Qed.

Lemma free_node xs i : sorted xs -> (i < length xs)%nat -> free_or_inrange xs (nth i xs 0) = true.
Proof. intros. unfold free_or_inrange. rewrite inrange_node by auto. apply orb_true_r. Qed.

Lemma single_index xs i : single xs = true -> (i < length xs)%nat -> i = 0%nat.
Proof. unfold single. intros E Hi. apply Nat.eqb_eq in E. lia. Qed.

Lemma sorted_distinctq xs : sorted xs -> distinctq (length xs) (fun i => nth i xs 0).
Proof.
  intros S i j Hi Hj Hne E.
  destruct (Nat.lt_ge_cases i j) as [H|H].
  - assert (nth i xs 0 < nth j xs 0) by (apply S; lia). lra.
  - assert (nth j xs 0 < nth i xs 0) by (apply S; lia). lra.
Qed.

Lemma sorted_increasingq xs : sorted xs -> increasingq (length xs) (fun i => nth i xs 0).
Proof. intros S i j H. apply S. exact H. Qed.

Lemma not_single_two xs : axis xs -> single xs = false -> (2 <= length xs)%nat.
Proof.
  intros (P & _ & _) E. unfold single in E. apply Nat.eqb_neq in E. lia.
Qed.

Section Laws.
  Variable L : Type.
  Variable lg : Q -> L.
  Variable ex : L -> Q.
  Variable ladd : L -> L -> L.
  Variable interp1 : nat -> (nat -> L) -> (nat -> L) -> L -> L.
  Variable interp2 : nat -> nat -> (nat -> L) -> (nat -> L) -> (nat -> nat -> L) -> L -> L -> L.
  Variable interp3 : nat -> nat -> nat -> (nat -> L) -> (nat -> L) -> (nat -> L) -> (nat -> nat -> nat -> L)
                     -> L -> L -> L -> L.
  Variable interpq : nat -> (nat -> Q) -> (nat -> Q) -> Q -> Q.
  Hypothesis laws : oracle_laws L lg ex ladd interp1 interp2 interp3 interpq.

  Let ex_lg := ol_ex_lg _ _ _ _ _ _ _ _ laws.
  Let ex_add := ol_ex_add _ _ _ _ _ _ _ _ laws.
  Let ex_nonneg := ol_ex_nonneg _ _ _ _ _ _ _ _ laws.
  Let knot1 := ol_knot1 _ _ _ _ _ _ _ _ laws.
  Let knot2 := ol_knot2 _ _ _ _ _ _ _ _ laws.
  Let knot3 := ol_knot3 _ _ _ _ _ _ _ _ laws.
  Let knotq := ol_knotq _ _ _ _ _ _ _ _ laws.

  Lemma axis_distinct xs : axis xs -> distinct ex (length xs) (kn L lg xs).
  Proof.
    intros (_ & S & P) i j Hi Hj Hne. unfold kn.
    rewrite !ex_lg by (apply P; auto).
    apply (sorted_distinctq xs S i j); auto.
  Qed.

  Lemma axis_log_axis xs : axis xs -> single xs = false -> log_axis lg (length xs) (kn L lg xs).
  Proof.
    intros A E. exists xs. repeat split; try apply A; auto using not_single_two.
  Qed.

  (* ------------------------------------------------------------------ 2-D rates *)
  Lemma eval2_node cv ext xs ys tbl i j :
    axis xs -> axis ys -> (i < length xs)%nat -> (j < length ys)%nat -> 0 < cv (at2 tbl i j) ->
    same (eval2 L lg ex interp2 cv ext xs ys tbl (nth i xs 0) (nth j ys 0)) (Val (cv (at2 tbl i j))).
  Proof.
    intros Ax Ay Hi Hj Hpos. pose proof Ax as (_ & Sx & Px). pose proof Ay as (_ & Sy & Py).
    unfold eval2.
    rewrite (nonpos_false (nth i xs 0)) by (apply Px; auto).
    rewrite (nonpos_false (nth j ys 0)) by (apply Py; auto).
    rewrite !inrange_node by auto.
    cbn [orb andb negb]. rewrite andb_false_r. cbn [same].
    etransitivity.
    - exact (knot2 (length xs) (length ys) (kn L lg xs) (kn L lg ys) _ i j
                   (axis_distinct xs Ax) (axis_distinct ys Ay) Hi Hj).
    - cbv beta. apply ex_lg. exact Hpos.
  Qed.

  Lemma eval2_nonneg cv ext xs ys tbl x y q :
    eval2 L lg ex interp2 cv ext xs ys tbl x y = Val q -> 0 <= q.
  Proof.
    unfold eval2. destruct (nonpos x || nonpos y); [intro H; inversion H; lra|].
    destruct (negb ext && negb (inrange xs x && inrange ys y)); [discriminate|].
    intro H; inversion H. apply ex_nonneg.
  Qed.

  Lemma eval2_guard cv ext xs ys tbl x y :
    x <= 0 \/ y <= 0 -> eval2 L lg ex interp2 cv ext xs ys tbl x y = Val 0.
  Proof.
    intros [H|H]; unfold eval2.
    - rewrite (nonpos_true x H). reflexivity.
    - rewrite (nonpos_true y H). rewrite orb_true_r. reflexivity.
  Qed.

  Lemma eval2_range cv xs ys tbl x y :
    0 < x -> 0 < y ->
    (inrange xs x && inrange ys y = false -> eval2 L lg ex interp2 cv false xs ys tbl x y = Raise)
    /\ (exists q, eval2 L lg ex interp2 cv true xs ys tbl x y = Val q).
  Proof.
    intros Hx Hy. unfold eval2. rewrite (nonpos_false x Hx), (nonpos_false y Hy). cbn [orb negb andb]. split.
    - intros ->. reflexivity.
    - eexists. reflexivity.
  Qed.

  (* ------------------------------------------------------------------ 3-D rate (thermal CX PEC) *)
  Lemma eval3_node cv ext xs ys zs tbl i j k :
    axis xs -> axis ys -> axis zs -> (i < length xs)%nat -> (j < length ys)%nat -> (k < length zs)%nat ->
    0 < cv (at3 tbl i j k) ->
    same (eval3 L lg ex interp3 cv ext xs ys zs tbl (nth i xs 0) (nth j ys 0) (nth k zs 0)) (Val (cv (at3 tbl i j k))).
  Proof.
    intros Ax Ay Az Hi Hj Hk Hpos.
    pose proof Ax as (_ & Sx & Px). pose proof Ay as (_ & Sy & Py). pose proof Az as (_ & Sz & Pz).
    unfold eval3.
    rewrite (nonpos_false (nth i xs 0)) by (apply Px; auto).
    rewrite (nonpos_false (nth j ys 0)) by (apply Py; auto).
    rewrite (nonpos_false (nth k zs 0)) by (apply Pz; auto).
    rewrite !inrange_node by auto.
    cbn [orb andb negb]. rewrite andb_false_r. cbn [same].
    etransitivity.
    - exact (knot3 (length xs) (length ys) (length zs) (kn L lg xs) (kn L lg ys) (kn L lg zs) _ i j k
                   (axis_distinct xs Ax) (axis_distinct ys Ay) (axis_distinct zs Az) Hi Hj Hk).
    - cbv beta. apply ex_lg. exact Hpos.
  Qed.

  Lemma eval3_nonneg cv ext xs ys zs tbl x y z q :
    eval3 L lg ex interp3 cv ext xs ys zs tbl x y z = Val q -> 0 <= q.
  Proof.
    unfold eval3. destruct (nonpos x || nonpos y || nonpos z); [intro H; inversion H; lra|].
    destruct (negb ext && negb (inrange xs x && inrange ys y && inrange zs z)); [discriminate|].
    intro H; inversion H. apply ex_nonneg.
  Qed.

  Lemma eval3_guard cv ext xs ys zs tbl x y z :
    x <= 0 \/ y <= 0 \/ z <= 0 -> eval3 L lg ex interp3 cv ext xs ys zs tbl x y z = Val 0.
  Proof.
    intros [H|[H|H]]; unfold eval3.
    - rewrite (nonpos_true x H). reflexivity.
    - rewrite (nonpos_true y H). rewrite orb_true_r. reflexivity.
    - rewrite (nonpos_true z H). rewrite orb_true_r. reflexivity.
  Qed.

  Lemma eval3_range cv xs ys zs tbl x y z :
    0 < x -> 0 < y -> 0 < z ->
    (inrange xs x && inrange ys y && inrange zs z = false -> eval3 L lg ex interp3 cv false xs ys zs tbl x y z = Raise)
    /\ (exists q, eval3 L lg ex interp3 cv true xs ys zs tbl x y z = Val q).
  Proof.
    intros Hx Hy Hz. unfold eval3. rewrite (nonpos_false x Hx), (nonpos_false y Hy), (nonpos_false z Hz).
    cbn [orb negb andb]. split.
    - intros ->. reflexivity.
    - eexists. reflexivity.
  Qed.

  (* ------------------------------------------------------------------ beam rates *)
  Lemma beam_npl_node cv es ns sen i j :
    axis es -> axis ns -> (i < length es)%nat -> (j < length ns)%nat -> 0 < cv (at2 sen i j) ->
    ex (beam_npl L lg interp1 interp2 cv es ns sen (nth i es 0) (nth j ns 0)) == cv (at2 sen i j).
  Proof.
    intros Ae An Hi Hj Hpos. unfold beam_npl.
    destruct (single es) eqn:Se; destruct (single ns) eqn:Sn; cbn [andb].
    - rewrite (single_index es i Se Hi), (single_index ns j Sn Hj) in *. apply ex_lg; auto.
    - rewrite (single_index es i Se Hi) in *.
      etransitivity.
      + exact (knot1 (length ns) (kn L lg ns) _ j (axis_log_axis ns An Sn) Hj).
      + cbv beta. apply ex_lg; auto.
    - rewrite (single_index ns j Sn Hj) in *.
      etransitivity.
      + exact (knot1 (length es) (kn L lg es) _ i (axis_log_axis es Ae Se) Hi).
      + cbv beta. apply ex_lg; auto.
    - etransitivity.
      + exact (knot2 (length es) (length ns) (kn L lg es) (kn L lg ns) _ i j
                     (axis_distinct es Ae) (axis_distinct ns An) Hi Hj).
      + cbv beta. apply ex_lg; auto.
  Qed.

  Lemma beam_tp_node ts st sref k :
    axis ts -> (k < length ts)%nat -> 0 < nth k st 0 / sref ->
    ex (beam_tp L lg interp1 ts st sref (nth k ts 0)) == nth k st 0 / sref.
  Proof.
    intros At Hk Hpos. unfold beam_tp. destruct (single ts) eqn:St.
    - rewrite (single_index ts k St Hk) in *. apply ex_lg; auto.
    - etransitivity.
      + exact (knot1 (length ts) (kn L lg ts) _ k (axis_log_axis ts At St) Hk).
      + cbv beta. apply ex_lg; auto.
  Qed.

  Lemma evalbeam_node cv ext es ns ts sen st sref i j k :
    axis es -> axis ns -> axis ts -> (i < length es)%nat -> (j < length ns)%nat -> (k < length ts)%nat ->
    0 < cv (at2 sen i j) -> 0 < nth k st 0 / sref ->
    same (evalbeam L lg ex ladd interp1 interp2 cv ext es ns ts sen st sref (nth i es 0) (nth j ns 0) (nth k ts 0))
         (Val (cv (at2 sen i j) * (nth k st 0 / sref))).
  Proof.
    intros Ae An At Hi Hj Hk P1 P2.
    pose proof Ae as (_ & Se & Pe). pose proof An as (_ & Sn & Pn). pose proof At as (_ & St & Pt).
    unfold evalbeam.
    rewrite (nonpos_false (nth i es 0)) by (apply Pe; auto).
    rewrite (nonpos_false (nth j ns 0)) by (apply Pn; auto).
    rewrite (nonpos_false (nth k ts 0)) by (apply Pt; auto).
    rewrite !free_node by auto.
    cbn [orb andb negb]. rewrite andb_false_r. cbn [same].
    rewrite ex_add, beam_npl_node, beam_tp_node by auto. reflexivity.
  Qed.

  Lemma evalbeam_nonneg cv ext es ns ts sen st sref e n t q :
    evalbeam L lg ex ladd interp1 interp2 cv ext es ns ts sen st sref e n t = Val q -> 0 <= q.
  Proof.
    unfold evalbeam. destruct (nonpos e || nonpos n || nonpos t); [intro H; inversion H; lra|].
    destruct (negb ext && _); [discriminate|].
    intro H; inversion H. apply ex_nonneg.
  Qed.

  Lemma evalbeam_guard cv ext es ns ts sen st sref e n t :
    e <= 0 \/ n <= 0 \/ t <= 0 ->
    evalbeam L lg ex ladd interp1 interp2 cv ext es ns ts sen st sref e n t = Val 0.
  Proof.
    intros [H|[H|H]]; unfold evalbeam.
    - rewrite (nonpos_true e H). reflexivity.
    - rewrite (nonpos_true n H). rewrite orb_true_r. reflexivity.
    - rewrite (nonpos_true t H). rewrite orb_true_r. reflexivity.
  Qed.

  Lemma evalbeam_range cv es ns ts sen st sref e n t :
    0 < e -> 0 < n -> 0 < t ->
    (free_or_inrange es e && free_or_inrange ns n && free_or_inrange ts t = false ->
     evalbeam L lg ex ladd interp1 interp2 cv false es ns ts sen st sref e n t = Raise)
    /\ (exists q, evalbeam L lg ex ladd interp1 interp2 cv true es ns ts sen st sref e n t = Val q).
  Proof.
    intros He Hn Ht. unfold evalbeam. rewrite (nonpos_false e He), (nonpos_false n Hn), (nonpos_false t Ht).
    cbn [orb negb andb]. split.
    - intros ->. reflexivity.
    - eexists. reflexivity.
  Qed.

  (* ------------------------------------------------------------------ beam CX *)
  Lemma lin1_node ks vs qref i :
    axis ks -> (i < length ks)%nat -> lin1 interpq ks vs qref (nth i ks 0) == nth i vs 0 / qref.
  Proof.
    intros A Hi. pose proof A as (_ & S & _). unfold lin1. destruct (single ks) eqn:Sk.
    - rewrite (single_index ks i Sk Hi). reflexivity.
    - exact (knotq (length ks) (fun i => nth i ks 0) (fun i => nth i vs 0 / qref) i (not_single_two ks A Sk)
                   (sorted_increasingq ks S) Hi).
  Qed.

  Lemma cx_step_node ext ks vs qref i r kont :
    axis ks -> (i < length ks)%nat -> 0 < r -> 0 < nth i vs 0 / qref ->
    cx_step interpq ext ks vs qref (nth i ks 0) r kont = kont (r * lin1 interpq ks vs qref (nth i ks 0))
    /\ 0 < r * lin1 interpq ks vs qref (nth i ks 0).
  Proof.
    intros A Hi Hr Hv. pose proof A as (_ & S & _).
    assert (P : 0 < r * lin1 interpq ks vs qref (nth i ks 0)).
    { rewrite lin1_node by auto. apply Qmult_lt_0_compat; auto. }
    split; auto. unfold cx_step.
    rewrite free_node by auto. cbn [negb]. rewrite andb_false_r.
    cbv zeta. rewrite (nonpos_false _ P). reflexivity.
  Qed.

  Lemma cx_eb_node cv ebs qeb i :
    axis ebs -> (i < length ebs)%nat -> 0 < cv (nth i qeb 0) ->
    cx_eb L lg ex interp1 cv ebs qeb (nth i ebs 0) == cv (nth i qeb 0).
  Proof.
    intros A Hi P. unfold cx_eb. destruct (single ebs) eqn:Sb.
    - rewrite (single_index ebs i Sb Hi) in *. apply ex_lg; auto.
    - etransitivity.
      + exact (knot1 (length ebs) (kn L lg ebs) _ i (axis_log_axis ebs A Sb) Hi).
      + cbv beta. apply ex_lg; auto.
  Qed.

  Lemma evalcx_node cv ext ebs tis nis zs bs qeb qti qni qz qb qref i j k l m :
    axis ebs -> axis tis -> axis nis -> axis zs -> axis bs ->
    (i < length ebs)%nat -> (j < length tis)%nat -> (k < length nis)%nat -> (l < length zs)%nat -> (m < length bs)%nat ->
    0 < cv (nth i qeb 0) -> 0 < nth j qti 0 / qref -> 0 < nth k qni 0 / qref -> 0 < nth l qz 0 / qref ->
    0 < nth m qb 0 / qref ->
    same (evalcx L lg ex interp1 interpq cv ext ebs tis nis zs bs qeb qti qni qz qb qref
                 (nth i ebs 0) (nth j tis 0) (nth k nis 0) (nth l zs 0) (nth m bs 0))
         (Val (cv (nth i qeb 0) * (nth j qti 0 / qref) * (nth k qni 0 / qref) * (nth l qz 0 / qref) * (nth m qb 0 / qref))).
  Proof.
    intros Ae At An Az Ab Hi Hj Hk Hl Hm P1 P2 P3 P4 P5.
    pose proof Ae as (_ & Se & Pe). pose proof At as (_ & St & Pt). pose proof An as (_ & Sn & Pn).
    unfold evalcx.
    rewrite (nonpos_false (nth i ebs 0)) by (apply Pe; auto).
    rewrite (nonpos_false (nth j tis 0)) by (apply Pt; auto).
    rewrite (nonpos_false (nth k nis 0)) by (apply Pn; auto).
    rewrite free_node by auto. cbn [orb negb]. rewrite andb_false_r.
    assert (R1 : 0 < cx_eb L lg ex interp1 cv ebs qeb (nth i ebs 0)) by (rewrite cx_eb_node; auto).
    destruct (cx_step_node ext tis qti qref j _ (fun r2 =>
      cx_step interpq ext nis qni qref (nth k nis 0) r2 (fun r3 =>
      cx_step interpq ext zs qz qref (nth l zs 0) r3 (fun r4 =>
      cx_step interpq ext bs qb qref (nth m bs 0) r4 (fun r5 => Val r5)))) At Hj R1 P2) as [E2 R2].
    rewrite E2. clear E2.
    destruct (cx_step_node ext nis qni qref k _ (fun r3 =>
      cx_step interpq ext zs qz qref (nth l zs 0) r3 (fun r4 =>
      cx_step interpq ext bs qb qref (nth m bs 0) r4 (fun r5 => Val r5))) An Hk R2 P3) as [E3 R3].
    rewrite E3. clear E3.
    destruct (cx_step_node ext zs qz qref l _ (fun r4 =>
      cx_step interpq ext bs qb qref (nth m bs 0) r4 (fun r5 => Val r5)) Az Hl R3 P4) as [E4 R4].
    rewrite E4. clear E4.
    destruct (cx_step_node ext bs qb qref m _ (fun r5 => Val r5) Ab Hm R4 P5) as [E5 R5].
    rewrite E5. clear E5.
    cbn [same].
    rewrite !lin1_node, cx_eb_node by auto. reflexivity.
  Qed.

  Lemma cx_step_nonneg ext ks vs qref x r kont q :
    (forall r' q', 0 < r' -> kont r' = Val q' -> 0 <= q') ->
    cx_step interpq ext ks vs qref x r kont = Val q -> 0 <= q.
  Proof.
    intros Hk. unfold cx_step.
    destruct (negb ext && negb (free_or_inrange ks x)); [discriminate|].
    cbv zeta. destruct (nonpos (r * lin1 interpq ks vs qref x)) eqn:E.
    - intro H; inversion H; lra.
    - apply Hk. apply nonpos_false_inv; auto.
  Qed.

  Lemma cx_chain_nonneg ext tis nis zs bs qti qni qz qb qref t n z b r q :
    cx_step interpq ext tis qti qref t r (fun r2 =>
      cx_step interpq ext nis qni qref n r2 (fun r3 =>
      cx_step interpq ext zs qz qref z r3 (fun r4 =>
      cx_step interpq ext bs qb qref b r4 (fun r5 => Val r5)))) = Val q -> 0 <= q.
  Proof.
    apply cx_step_nonneg. intros r2 q2 _.
    apply cx_step_nonneg. intros r3 q3 _.
    apply cx_step_nonneg. intros r4 q4 _.
    apply cx_step_nonneg. intros r5 q5 H5 E. inversion E; subst. lra.
  Qed.

  (* for ALL tables (also ones whose linear-space cubic interpolant undershoots below zero) and all arguments *)
  Lemma evalcx_nonneg cv ext ebs tis nis zs bs qeb qti qni qz qb qref e t n z b q :
    evalcx L lg ex interp1 interpq cv ext ebs tis nis zs bs qeb qti qni qz qb qref e t n z b = Val q -> 0 <= q.
  Proof.
    unfold evalcx. destruct (nonpos e || nonpos t || nonpos n); [intro H; inversion H; lra|].
    destruct (negb ext && negb (free_or_inrange ebs e)); [discriminate|].
    apply cx_chain_nonneg.
  Qed.

  Lemma evalcx_code_nonneg cv ext ebs tis nis zs bs qeb qti qni qz qb qref e t n z b q :
    evalcx_code L lg ex interp1 interpq cv ext ebs tis nis zs bs qeb qti qni qz qb qref e t n z b = Val q -> 0 <= q.
  Proof.
    unfold evalcx_code. destruct (nonpos e); [intro H; inversion H; lra|].
    destruct (negb ext && negb (free_or_inrange ebs e)); [discriminate|].
    apply cx_chain_nonneg.
  Qed.

  Lemma evalcx_guard cv ext ebs tis nis zs bs qeb qti qni qz qb qref e t n z b :
    e <= 0 \/ t <= 0 \/ n <= 0 ->
    evalcx L lg ex interp1 interpq cv ext ebs tis nis zs bs qeb qti qni qz qb qref e t n z b = Val 0.
  Proof.
    intros [H|[H|H]]; unfold evalcx.
    - rewrite (nonpos_true e H). reflexivity.
    - rewrite (nonpos_true t H). rewrite orb_true_r. reflexivity.
    - rewrite (nonpos_true n H). rewrite orb_true_r. reflexivity.
  Qed.

  Lemma cx_step_total ks vs qref x r kont :
    (forall r', exists q, kont r' = Val q) -> exists q, cx_step interpq true ks vs qref x r kont = Val q.
  Proof.
    intros Hk. unfold cx_step. cbn [negb andb]. cbv zeta.
    destruct (nonpos (r * lin1 interpq ks vs qref x)); [eexists; reflexivity | apply Hk].
  Qed.

  Lemma evalcx_extrapolating_total cv ebs tis nis zs bs qeb qti qni qz qb qref e t n z b :
    exists q, evalcx L lg ex interp1 interpq cv true ebs tis nis zs bs qeb qti qni qz qb qref e t n z b = Val q.
  Proof.
    unfold evalcx. destruct (nonpos e || nonpos t || nonpos n); [eexists; reflexivity|].
    cbn [negb andb].
    apply cx_step_total; intros r2. apply cx_step_total; intros r3.
    apply cx_step_total; intros r4. apply cx_step_total; intros r5. eexists; reflexivity.
  Qed.

  (* without extrapolation the first argument found outside its axis raises (energy first, as in the source) *)
  Lemma evalcx_raise_energy cv ebs tis nis zs bs qeb qti qni qz qb qref e t n z b :
    0 < e -> 0 < t -> 0 < n -> free_or_inrange ebs e = false ->
    evalcx L lg ex interp1 interpq cv false ebs tis nis zs bs qeb qti qni qz qb qref e t n z b = Raise.
  Proof.
    intros He Ht Hn F. unfold evalcx. rewrite (nonpos_false e He), (nonpos_false t Ht), (nonpos_false n Hn).
    rewrite F. reflexivity.
  Qed.

  Lemma evalcx_raise_temperature cv ebs tis nis zs bs qeb qti qni qz qb qref e t n z b :
    0 < e -> 0 < t -> 0 < n -> free_or_inrange ebs e = true -> free_or_inrange tis t = false ->
    evalcx L lg ex interp1 interpq cv false ebs tis nis zs bs qeb qti qni qz qb qref e t n z b = Raise.
  Proof.
    intros He Ht Hn F1 F2. unfold evalcx. rewrite (nonpos_false e He), (nonpos_false t Ht), (nonpos_false n Hn).
    rewrite F1. cbn [orb negb andb]. unfold cx_step at 1. rewrite F2. reflexivity.
  Qed.
End Laws.

(* unit conversions *)
Lemma photon_linear cf wl a b : ~ wl == 0 -> photon_to_j cf wl (a * b) == photon_to_j cf wl a * b.
Proof. intro H. unfold photon_to_j. field. exact H. Qed.

Lemma photon_pos cf wl v : 0 < cf -> 0 < wl -> 0 < v -> 0 < photon_to_j cf wl v.
Proof.
  intros Hc Hw Hv. unfold photon_to_j.
  apply Qmult_lt_0_compat; auto. apply Qlt_shift_div_l; auto. lra.
Qed.

Lemma conv_pos p cf wl v : 0 < cf -> 0 < wl -> 0 < v -> 0 < conv p cf wl v.
Proof. intros. unfold conv. destruct p; auto using photon_pos. Qed.

(* ---- boolean well-formedness (what the correspondence checks on every generated table) implies
   the hypotheses of the node theorems ---- *)
Lemma sortedb_sorted xs : sortedb xs = true -> sorted xs.
Proof.
  induction xs as [|a [|b t] IH]; intros H i j Hij; cbn [length] in Hij; try lia.
  cbn [sortedb] in H. apply andb_true_iff in H. destruct H as [Hab Ht].
  assert (Lab : a < b).
  { destruct (Qle_bool b a) eqn:E; [discriminate|].
    destruct (Qlt_le_dec a b) as [?|Hle]; auto. apply Qle_bool_iff in Hle. congruence. }
  specialize (IH Ht).
  destruct j as [|j]; [lia|]. destruct i as [|i].
  - change (a < nth j (b :: t) 0).
    assert (firstq (b :: t) <= nth j (b :: t) 0) by (apply sorted_first; auto; cbn [length] in *; lia).
    change (firstq (b :: t)) with b in H. lra.
  - change (nth i (b :: t) 0 < nth j (b :: t) 0). apply IH. cbn [length] in *. lia.
Qed.

Lemma allposb_allpos xs : allposb xs = true -> allpos xs.
Proof.
  unfold allposb. intros H i Hi. rewrite forallb_forall in H.
  specialize (H (nth i xs 0) (nth_In xs 0 Hi)).
  destruct (Qle_bool (nth i xs 0) 0) eqn:E; [discriminate|].
  destruct (Qlt_le_dec 0 (nth i xs 0)) as [?|Hle]; auto. apply Qle_bool_iff in Hle. congruence.
Qed.

Lemma axisb_axis xs : axisb xs = true -> axis xs.
Proof.
  unfold axisb. intro H. apply andb_true_iff in H. destruct H as [H P].
  apply andb_true_iff in H. destruct H as [N S].
  split; [|split; [apply sortedb_sorted | apply allposb_allpos]; auto].
  destruct xs; [discriminate | cbn [length]; lia].
Qed.

Lemma same_val o a b : same o (Val a) -> a == b -> same o (Val b).
Proof. destruct o; cbn [same]; auto. intros H E. rewrite H. exact E. Qed.

Lemma div_pos a b : 0 < a -> 0 < b -> 0 < a / b.
Proof. intros. apply Qlt_shift_div_l; auto. lra. Qed.

Lemma conv_scale p cf wl a b c : ~ wl == 0 -> ~ c == 0 -> conv p cf wl a * (b / c) == conv p cf wl (a * b / c).
Proof. intros Hw Hc. unfold conv, photon_to_j. destruct p; field; auto. Qed.

Section PropertyForm.
  Variable L : Type.
  Variable lg : Q -> L.
  Variable ex : L -> Q.
  Variable ladd : L -> L -> L.
  Variable interp1 : nat -> (nat -> L) -> (nat -> L) -> L -> L.
  Variable interp2 : nat -> nat -> (nat -> L) -> (nat -> L) -> (nat -> nat -> L) -> L -> L -> L.
  Variable interp3 : nat -> nat -> nat -> (nat -> L) -> (nat -> L) -> (nat -> L) -> (nat -> nat -> nat -> L)
                     -> L -> L -> L -> L.
  Variable interpq : nat -> (nat -> Q) -> (nat -> Q) -> Q -> Q.
  Hypothesis laws : oracle_laws L lg ex ladd interp1 interp2 interp3 interpq.

  (* beam coefficients: sen * st / sref after the unit conversion *)
  Lemma evalbeam_node_form p cf wl ext es ns ts sen st sref i j k :
    0 < cf -> 0 < wl -> 0 < sref ->
    axis es -> axis ns -> axis ts -> (i < length es)%nat -> (j < length ns)%nat -> (k < length ts)%nat ->
    0 < at2 sen i j -> 0 < nth k st 0 ->
    same (evalbeam L lg ex ladd interp1 interp2 (conv p cf wl) ext es ns ts sen st sref
                   (nth i es 0) (nth j ns 0) (nth k ts 0))
         (Val (conv p cf wl (at2 sen i j * nth k st 0 / sref))).
  Proof.
    intros Hc Hw Hs Ae An At Hi Hj Hk P1 P2.
    eapply same_val.
    - apply (evalbeam_node L lg ex ladd interp1 interp2 interp3 interpq laws); auto using conv_pos, div_pos.
    - apply conv_scale; lra.
  Qed.

  (* at the reference temperature (st = sref) the product collapses to the energy/density table *)
  Lemma evalbeam_at_reference p cf wl ext es ns ts sen st sref i j k :
    0 < cf -> 0 < wl -> 0 < sref ->
    axis es -> axis ns -> axis ts -> (i < length es)%nat -> (j < length ns)%nat -> (k < length ts)%nat ->
    0 < at2 sen i j -> nth k st 0 == sref ->
    same (evalbeam L lg ex ladd interp1 interp2 (conv p cf wl) ext es ns ts sen st sref
                   (nth i es 0) (nth j ns 0) (nth k ts 0))
         (Val (conv p cf wl (at2 sen i j))).
  Proof.
    intros Hc Hw Hs Ae An At Hi Hj Hk P1 E.
    eapply same_val.
    - apply (evalbeam_node L lg ex ladd interp1 interp2 interp3 interpq laws); auto using conv_pos.
      rewrite E. apply div_pos; auto.
    - rewrite E. field. lra.
  Qed.

  (* beam CX: hc/lambda * q_eb q_ti q_ni q_z q_b / q_ref^4 *)
  Lemma evalcx_node_form cf wl ext ebs tis nis zs bs qeb qti qni qz qb qref i j k l m :
    0 < cf -> 0 < wl -> 0 < qref ->
    axis ebs -> axis tis -> axis nis -> axis zs -> axis bs ->
    (i < length ebs)%nat -> (j < length tis)%nat -> (k < length nis)%nat -> (l < length zs)%nat -> (m < length bs)%nat ->
    0 < nth i qeb 0 -> 0 < nth j qti 0 -> 0 < nth k qni 0 -> 0 < nth l qz 0 -> 0 < nth m qb 0 ->
    same (evalcx L lg ex interp1 interpq (conv true cf wl) ext ebs tis nis zs bs qeb qti qni qz qb qref
                 (nth i ebs 0) (nth j tis 0) (nth k nis 0) (nth l zs 0) (nth m bs 0))
         (Val (photon_to_j cf wl (nth i qeb 0 * nth j qti 0 * nth k qni 0 * nth l qz 0 * nth m qb 0
                                  / (qref * qref * qref * qref)))).
  Proof.
    intros Hc Hw Hq Ae At An Az Ab Hi Hj Hk Hl Hm P1 P2 P3 P4 P5.
    eapply same_val.
    - apply (evalcx_node L lg ex ladd interp1 interp2 interp3 interpq laws); auto using conv_pos, div_pos.
    - unfold conv, photon_to_j. field. split; lra.
  Qed.
End PropertyForm.
