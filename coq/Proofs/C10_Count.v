(* Counting midpoint samples t_k = (k + 1/2) dt, k = 0 .. n-1, inside intervals. *)
Require Import Cherab.Common.Qx.
Require Import Cherab.Model.C10_RayTransfer.
From Coq Require Import Qround Qabs Lqa.
Open Scope Q_scope.

(* number of k in 0 .. n-1 with p k *)
Fixpoint countk (p : Z -> bool) (n : nat) : Z :=
  match n with O => 0%Z | S m => (countk p m + (if p (Z.of_nat m) then 1 else 0))%Z end.

Lemma countk_nonneg p n : (0 <= countk p n)%Z.
Proof. induction n; cbn [countk]; [lia | destruct (p (Z.of_nat n)); lia]. Qed.

Lemma countk_mono p q n :
  (forall k, (0 <= k < Z.of_nat n)%Z -> p k = true -> q k = true) -> (countk p n <= countk q n)%Z.
Proof.
  induction n as [|n IH]; intros H; cbn [countk]; [lia|].
  assert (countk p n <= countk q n)%Z by (apply IH; intros k Hk; apply H; lia).
  destruct (p (Z.of_nat n)) eqn:E; [rewrite (H (Z.of_nat n)) by (auto; lia); lia | destruct (q (Z.of_nat n)); lia].
Qed.

Lemma countk_ext p q n :
  (forall k, (0 <= k < Z.of_nat n)%Z -> p k = q k) -> countk p n = countk q n.
Proof.
  induction n as [|n IH]; intros H; cbn [countk]; [reflexivity|].
  rewrite IH by (intros k Hk; apply H; lia). rewrite (H (Z.of_nat n)) by lia. reflexivity.
Qed.

Lemma countk_none p n : (forall k, (0 <= k < Z.of_nat n)%Z -> p k = false) -> countk p n = 0%Z.
Proof.
  induction n as [|n IH]; intros H; cbn [countk]; [reflexivity|].
  rewrite IH by (intros k Hk; apply H; lia). rewrite (H (Z.of_nat n)) by lia. reflexivity.
Qed.

Lemma countk_range lo hi n :
  countk (fun k => (lo <=? k)%Z && (k <? hi)%Z) n = Z.max 0 (Z.min hi (Z.of_nat n) - Z.max lo 0).
Proof.
  induction n as [|n IH]; cbn [countk]; [lia|]. rewrite IH.
  destruct (Z.leb_spec lo (Z.of_nat n)), (Z.ltb_spec (Z.of_nat n) hi); cbn [andb]; lia.
Qed.

Lemma countk_or_le p q n : (countk (fun k => p k || q k) n <= countk p n + countk q n)%Z.
Proof.
  induction n as [|n IH]; cbn [countk]; [lia|].
  destruct (p (Z.of_nat n)), (q (Z.of_nat n)); cbn [orb]; lia.
Qed.

Lemma countk_or_disjoint p q n :
  (forall k, (0 <= k < Z.of_nat n)%Z -> p k = true -> q k = false) ->
  countk (fun k => p k || q k) n = (countk p n + countk q n)%Z.
Proof.
  induction n as [|n IH]; intros H; cbn [countk]; [lia|].
  rewrite IH by (intros k Hk; apply H; lia).
  destruct (p (Z.of_nat n)) eqn:E; [rewrite (H (Z.of_nat n)) by (auto; lia)|destruct (q (Z.of_nat n))]; cbn [orb]; lia.
Qed.

(* countp over a mapped range is countk *)
Lemma countp_app {A} (p : A -> bool) l1 l2 : countp p (l1 ++ l2) = (countp p l1 + countp p l2)%Z.
Proof. induction l1 as [|x l IH]; cbn [countp app]; [lia | rewrite IH; lia]. Qed.

Lemma countp_zrange {A} (p : A -> bool) (f : Z -> A) n :
  countp p (map f (zrange n)) = countk (fun k => p (f k)) n.
Proof.
  induction n as [|n IH]; [reflexivity|].
  unfold zrange in *. rewrite seq_S, !map_app, countp_app, IH. cbn [countk map countp plus]. lia.
Qed.

(* ------------------------------------------------------------------------------------------ *)
Section Midpoints.
  Variable dt : Q.
  Hypothesis Hdt : 0 < dt.
  Variable n : nat.

  Lemma dt_nz : ~ dt == 0.
  Proof. intro H. rewrite H in Hdt. exact (Qlt_irrefl 0 Hdt). Qed.

  (* k-th midpoint against a bound a = u * dt *)
  Lemma mid_gt k a : a / dt - (1 # 2) < inject_Z k -> a < t_of dt k.
  Proof.
    intros H. unfold t_of. assert (E : a == (a / dt) * dt) by (field; exact dt_nz).
    set (u := a / dt) in *. clearbody u. rewrite E. apply Qmult_lt_compat_r; [exact Hdt | lra].
  Qed.
  Lemma mid_lt k b : inject_Z k < b / dt - (1 # 2) -> t_of dt k < b.
  Proof.
    intros H. unfold t_of. assert (E : b == (b / dt) * dt) by (field; exact dt_nz).
    set (u := b / dt) in *. clearbody u. rewrite E. apply Qmult_lt_compat_r; [exact Hdt | lra].
  Qed.
  Lemma mid_ge_inv k a : a <= t_of dt k -> a / dt - (1 # 2) <= inject_Z k.
  Proof.
    intros H. unfold t_of in H. assert (E : a == (a / dt) * dt) by (field; exact dt_nz).
    set (u := a / dt) in *. clearbody u. rewrite E in H. apply (proj1 (Qmult_le_r _ _ dt Hdt)) in H. lra.
  Qed.
  Lemma mid_le_inv k b : t_of dt k <= b -> inject_Z k <= b / dt - (1 # 2).
  Proof.
    intros H. unfold t_of in H. assert (E : b == (b / dt) * dt) by (field; exact dt_nz).
    set (u := b / dt) in *. clearbody u. rewrite E in H. apply (proj1 (Qmult_le_r _ _ dt Hdt)) in H. lra.
  Qed.

  Lemma inj_lt a b : (a < b)%Z -> inject_Z a < inject_Z b.
  Proof. intros H. rewrite <- Zlt_Qlt. exact H. Qed.
  Lemma inj_le a b : (a <= b)%Z -> inject_Z a <= inject_Z b.
  Proof. intros H. rewrite <- Zle_Qle. exact H. Qed.

  Let len := inject_Z (Z.of_nat n) * dt.

  (* every sample strictly inside (a, b) is counted  ==>  dt * count >= (b - a) - dt *)
  Lemma sandwich_lower (S : Z -> bool) a b : 0 <= a -> a <= b -> b <= len ->
    (forall k, (0 <= k < Z.of_nat n)%Z -> a < t_of dt k -> t_of dt k < b -> S k = true) ->
    (b - a) - dt <= dt * inject_Z (countk S n).
  Proof.
    intros Ha Hab Hb HS.
    set (al := a / dt - (1 # 2)). set (be := b / dt - (1 # 2)).
    set (lo := (Qfloor al + 1)%Z). set (hi := Qceiling be).
    assert (Hc : (countk (fun k => (lo <=? k)%Z && (k <? hi)%Z) n <= countk S n)%Z).
    { apply countk_mono. intros k Hk Hr. apply andb_true_iff in Hr. destruct Hr as [H1 H2].
      apply Z.leb_le in H1. apply Z.ltb_lt in H2. apply HS; [exact Hk | |].
      - apply mid_gt. fold al. eapply Qlt_le_trans; [apply Qlt_floor | apply inj_le; exact H1].
      - apply mid_lt. fold be. eapply Qle_lt_trans; [apply inj_le | apply (Qceiling_lt be)]. fold hi. lia. }
    rewrite countk_range in Hc.
    assert (Eal : al * dt == a - (1 # 2) * dt) by (unfold al; field; exact dt_nz).
    assert (Ebe : be * dt == b - (1 # 2) * dt) by (unfold be; field; exact dt_nz).
    set (mn := Z.min hi (Z.of_nat n)) in *. set (mx := Z.max lo 0) in *.
    assert (Hq : inject_Z mn - inject_Z mx <= inject_Z (countk S n)).
    { unfold Qminus. rewrite <- inject_Z_opp, <- inject_Z_plus. apply inj_le. lia. }
    assert (Hhi : be <= inject_Z hi) by apply Qle_ceiling.
    assert (Hn : be * dt <= inject_Z (Z.of_nat n) * dt) by (fold len; lra).
    assert (Hn' : be <= inject_Z (Z.of_nat n)) by (apply (proj1 (Qmult_le_r _ _ dt Hdt)); exact Hn).
    assert (Hmn : be <= inject_Z mn) by (unfold mn; destruct (Z.min_spec hi (Z.of_nat n)) as [[_ ->]|[_ ->]]; assumption).
    assert (Hlo : inject_Z lo <= al + 1).
    { unfold lo. rewrite inject_Z_plus. pose proof (Qfloor_le al). change (inject_Z 1) with 1. lra. }
    assert (H0 : 0 <= (al + 1) * dt) by lra.
    assert (H0' : 0 <= al + 1) by (apply (proj1 (Qmult_le_r _ _ dt Hdt)); lra).
    assert (Hmx : inject_Z mx <= al + 1).
    { unfold mx; destruct (Z.max_spec lo 0) as [[_ ->]|[_ ->]]; [exact H0' | exact Hlo]. }
    assert (Hfin : dt * (be - (al + 1)) <= dt * inject_Z (countk S n)) by (apply (proj2 (Qmult_le_l _ _ dt Hdt)); lra).
    lra.
  Qed.

  (* every counted sample lies in [a, b]  ==>  dt * count <= (b - a) + dt *)
  Lemma sandwich_upper (S : Z -> bool) a b : a <= b ->
    (forall k, (0 <= k < Z.of_nat n)%Z -> S k = true -> a <= t_of dt k /\ t_of dt k <= b) ->
    dt * inject_Z (countk S n) <= (b - a) + dt.
  Proof.
    intros Hab HS.
    set (al := a / dt - (1 # 2)). set (be := b / dt - (1 # 2)).
    set (lo := Qceiling al). set (hi := (Qfloor be + 1)%Z).
    assert (Hc : (countk S n <= countk (fun k => (lo <=? k)%Z && (k <? hi)%Z) n)%Z).
    { apply countk_mono. intros k Hk Hr. destruct (HS k Hk Hr) as [H1 H2].
      apply mid_ge_inv in H1. apply mid_le_inv in H2. fold al in H1. fold be in H2.
      apply andb_true_iff. split; [apply Z.leb_le | apply Z.ltb_lt].
      - unfold lo. rewrite <- (Qceiling_Z k). apply Qceiling_resp_le. exact H1.
      - unfold hi. assert (k <= Qfloor be)%Z; [|lia]. rewrite <- (Qfloor_Z k). apply Qfloor_resp_le. exact H2. }
    rewrite countk_range in Hc.
    assert (Eal : al * dt == a - (1 # 2) * dt) by (unfold al; field; exact dt_nz).
    assert (Ebe : be * dt == b - (1 # 2) * dt) by (unfold be; field; exact dt_nz).
    assert (Hq : inject_Z (countk S n) <= inject_Z (Z.max 0 (hi - lo))) by (apply inj_le; lia).
    assert (Hhi : inject_Z hi <= be + 1).
    { unfold hi. rewrite inject_Z_plus. pose proof (Qfloor_le be). change (inject_Z 1) with 1. lra. }
    assert (Hlo : al <= inject_Z lo) by apply Qle_ceiling.
    assert (Hd : 0 <= (be - al) * dt) by lra.
    assert (Hd' : 0 <= be - al) by (apply (proj1 (Qmult_le_r _ _ dt Hdt)); lra).
    assert (Hm : inject_Z (Z.max 0 (hi - lo)) <= be - al + 1).
    { destruct (Z.max_spec 0 (hi - lo)) as [[_ ->]|[_ ->]].
      - unfold Zminus. rewrite inject_Z_plus, inject_Z_opp. lra.
      - change (inject_Z 0) with 0. lra. }
    assert (Hfin : dt * inject_Z (countk S n) <= dt * (be - al + 1)) by (apply (proj2 (Qmult_le_l _ _ dt Hdt)); lra).
    lra.
  Qed.

  (* midpoint_count: one interval *)
  Lemma midpoint_count (S : Z -> bool) a b : 0 <= a -> a <= b -> b <= len ->
    (forall k, (0 <= k < Z.of_nat n)%Z -> a < t_of dt k -> t_of dt k < b -> S k = true) ->
    (forall k, (0 <= k < Z.of_nat n)%Z -> S k = true -> a <= t_of dt k /\ t_of dt k <= b) ->
    Qabs (dt * inject_Z (countk S n) - (b - a)) <= dt.
  Proof.
    intros Ha Hab Hb H1 H2. apply Qabs_Qle_condition. split.
    - pose proof (sandwich_lower S a b Ha Hab Hb H1). lra.
    - pose proof (sandwich_upper S a b Hab H2). lra.
  Qed.
End Midpoints.
