(* __init__ of the caching classes: the node array of an accepted axis is strictly increasing and
   has at least four nodes, so the hypotheses of the other theorems hold for every accepted
   caching area and resolution. *)
Require Import Cherab.Common.Qx.
Require Import Cherab.Model.C14_Caching Cherab.Proofs.C14_Find.
From Coq Require Import Lqa Qround.
Open Scope Q_scope.

Lemma EPSILON_pos : 0 < EPSILON.
Proof. reflexivity. Qed.

Lemma npts_ge2 lo hi delta : (2 <= npts lo hi delta)%Z.
Proof. unfold npts. lia. Qed.

Theorem axis_increasing lo hi delta : axis_ok lo hi delta = true ->
  increasing (axis lo hi delta) (axis_top lo hi delta) /\ (3 <= axis_top lo hi delta)%Z.
Proof.
  unfold axis_ok. rewrite andb_true_iff, !Qltb_true. intros [Hlh Hd].
  pose proof EPSILON_pos as He. pose proof (npts_ge2 lo hi delta) as Hn.
  split; [|unfold axis_top; lia].
  unfold increasing, axis_top, axis. set (n := npts lo hi delta) in *.
  assert (Hn1 : 0 < inject_Z (n - 1)).
  { replace 0 with (inject_Z 0) by reflexivity. rewrite <- Zlt_Qlt. lia. }
  set (step := (hi + EPSILON - (lo - EPSILON)) / inject_Z (n - 1)).
  assert (Hstep : 0 < step).
  { unfold step. apply Qlt_shift_div_l; [exact Hn1|lra]. }
  intros k Hk.
  destruct (Z.leb_spec k 0) as [K0|K0].
  - (* guard node -> first sampling node *)
    replace k with 0%Z by lia. cbn [Z.add Z.leb Z.compare Z.ltb].
    destruct (Z.ltb_spec n 1); [lia|].
    cbn [Z.sub Z.add Z.opp Z.pos_sub]. setoid_replace (inject_Z 0) with 0 by reflexivity. lra.
  - destruct (Z.leb_spec (k + 1) 0); [lia|].
    destruct (Z.ltb_spec n k); [lia|].
    destruct (Z.ltb_spec n (k + 1)) as [K1|K1].
    + (* last sampling node -> guard node *)
      assert (k = n) by lia. subst k.
      setoid_replace (lo - EPSILON + inject_Z (n - 1) * step) with (hi + EPSILON); [lra|].
      unfold step. field. lra.
    + (* two consecutive linspace nodes *)
      replace (k + 1 - 1)%Z with (k - 1 + 1)%Z by lia. rewrite inject_Z_plus.
      setoid_replace (inject_Z 1) with 1 by reflexivity. nra.
Qed.
