(* C08 -- token streams (ADF11 / ADF15), axis order of the reshaped tables, keyed tables, block
   look-up by ISEL, and the ADF11 element check. *)
Require Import Cherab.Common.Qx.
Require Import Cherab.Model.C08_Text Cherab.Model.C08_Adf.
From Coq Require Import Ascii String Arith.
Open Scope nat_scope.

(* ---- blank-separated tokens: any padding, any line structure ------------------------------------ *)
Definition all_ws (s : str) : Prop := forallb is_ws s = true.
Definition no_ws (s : str) : Prop := forallb (fun c => negb (is_ws c)) s = true.

Lemma ws_run0 : forall pad s, all_ws pad -> split_ws_aux [] (pad ++ s) = split_ws_aux [] s.
Proof.
  induction pad as [|c pad IH]; intros s H; [reflexivity|].
  unfold all_ws in H. cbn [forallb] in H. apply andb_prop in H. destruct H as [Hc Hp].
  cbn [app split_ws_aux]. rewrite Hc. apply IH. exact Hp.
Qed.

Lemma ws_run : forall pad cur s, all_ws pad -> pad <> [] -> cur <> [] ->
  split_ws_aux cur (pad ++ s) = rev cur :: split_ws_aux [] s.
Proof.
  intros [|c pad] cur s H Hne Hcur; [congruence|].
  unfold all_ws in H. cbn [forallb] in H. apply andb_prop in H. destruct H as [Hc Hp].
  cbn [app split_ws_aux]. rewrite Hc. destruct cur; [congruence|].
  f_equal. apply ws_run0. exact Hp.
Qed.

Lemma tok_run : forall tok cur s, no_ws tok -> split_ws_aux cur (tok ++ s) = split_ws_aux (rev tok ++ cur) s.
Proof.
  induction tok as [|c tok IH]; intros cur s H; [reflexivity|].
  unfold no_ws in H. cbn [forallb] in H. apply andb_prop in H. destruct H as [Hc Hp].
  apply negb_true_iff in Hc.
  cbn [app split_ws_aux]. rewrite Hc. rewrite IH by exact Hp.
  cbn [rev]. rewrite <- app_assoc. reflexivity.
Qed.

Definition padded (l : list (str * str)) : str := flat_map (fun pt => fst pt ++ snd pt) l.
Definition tokens_ok (l : list (str * str)) : Prop :=
  Forall (fun pt => all_ws (fst pt) /\ fst pt <> [] /\ no_ws (snd pt) /\ snd pt <> []) l.

Lemma split_tokens_cur : forall l tok trailing, tokens_ok l -> all_ws trailing -> tok <> [] ->
  split_ws_aux (rev tok) (padded l ++ trailing) = tok :: map snd l.
Proof.
  induction l as [|[pad t] l IH]; intros tok trailing Hok Htr Htok.
  - cbn [padded flat_map app map].
    assert (Hr : rev tok <> []) by (intro E; apply Htok; rewrite <- (rev_involutive tok), E; reflexivity).
    destruct trailing as [|c tr].
    + cbn [split_ws_aux]. destruct (rev tok) eqn:E; [congruence|]. rewrite <- E, rev_involutive. reflexivity.
    + rewrite <- (app_nil_r (c :: tr)). rewrite ws_run; [| exact Htr | discriminate | exact Hr].
      rewrite rev_involutive. reflexivity.
  - inversion Hok as [|x l' Hx Hl]; subst. cbn [fst snd] in Hx. destruct Hx as (Hpad & Hpne & Ht & Htne).
    assert (Hr : rev tok <> []) by (intro E; apply Htok; rewrite <- (rev_involutive tok), E; reflexivity).
    change (padded ((pad, t) :: l)) with ((pad ++ t) ++ padded l). rewrite <- !app_assoc.
    rewrite ws_run by assumption. rewrite rev_involutive. f_equal.
    rewrite tok_run by exact Ht. rewrite app_nil_r.
    cbn [map snd]. apply IH; assumption.
Qed.

Theorem tokens_roundtrip : forall l trailing, tokens_ok l -> all_ws trailing ->
  split_ws (padded l ++ trailing) = map snd l.
Proof.
  intros [|[pad t] l] trailing Hok Htr; unfold split_ws.
  - cbn [padded flat_map app map]. rewrite <- (app_nil_r trailing). rewrite ws_run0 by exact Htr. reflexivity.
  - inversion Hok as [|x l' Hx Hl]; subst. cbn [fst snd] in Hx. destruct Hx as (Hpad & Hpne & Ht & Htne).
    change (padded ((pad, t) :: l)) with ((pad ++ t) ++ padded l). rewrite <- !app_assoc.
    rewrite ws_run0 by exact Hpad. rewrite tok_run by exact Ht. rewrite app_nil_r.
    cbn [map snd]. apply split_tokens_cur; assumption.
Qed.

(* ---- row-major tables built from a list of rows of equal length ---------------------------------- *)
Lemma nth_flat_rows {A} (L : nat -> list A) (m : nat) (d : A) :
  (forall i, List.length (L i) = m) ->
  forall n a i j, i < n -> j < m ->
  nth (i * m + j) (flat_map L (seq a n)) d = nth j (L (a + i)) d.
Proof.
  intros Hlen. induction n as [|n IH]; intros a i j Hi Hj; [lia|].
  cbn [seq flat_map]. destruct i as [|i].
  - cbn [mult plus]. rewrite app_nth1 by (rewrite Hlen; exact Hj). rewrite Nat.add_0_r. reflexivity.
  - replace (S i * m + j) with (m + (i * m + j)) by lia.
    rewrite app_nth2 by (rewrite Hlen; lia). rewrite Hlen.
    replace (m + (i * m + j) - m) with (i * m + j) by lia.
    rewrite IH by lia. f_equal. f_equal. lia.
Qed.

(* ADF11: rates[i_d][i_t] (row-major (n_d, n_t)) is token i_t * n_d + i_d of the block *)
Theorem adf11_axis_order : forall n_t n_d toks i_d i_t, i_d < n_d -> i_t < n_t ->
  nth (i_d * n_t + i_t) (swap_flat n_t n_d toks) 0%Q = nth (i_t * n_d + i_d) toks 0%Q.
Proof.
  intros n_t n_d toks i_d i_t Hd Ht. unfold swap_flat.
  rewrite (nth_flat_rows (fun i_d => map (fun i_t => nth (i_t * n_d + i_d) toks 0%Q) (seq 0 n_t)) n_t)
    by (try (intros; rewrite map_length, seq_length; reflexivity); assumption).
  cbn [plus].
  rewrite (nth_indep _ 0%Q (nth (0 * n_d + i_d) toks 0%Q)) by (rewrite map_length, seq_length; exact Ht).
  rewrite (map_nth (fun i_t => nth (i_t * n_d + i_d) toks 0%Q) (seq 0 n_t) 0 i_t).
  rewrite seq_nth by exact Ht. reflexivity.
Qed.

(* ADF21/22: sen[i_eb][i_dt] (row-major (neb, ndt)) is element i_eb of the i_dt-th record group *)
Theorem adf2x_axis_order : forall neb cols i j, i < neb -> j < List.length cols ->
  nth (i * List.length cols + j) (columns_to_rows neb cols) 0%Q = nth i (nth j cols []) 0%Q.
Proof.
  intros neb cols i j Hi Hj. unfold columns_to_rows.
  rewrite (nth_flat_rows (fun i => map (fun col => nth i col 0%Q) cols) (List.length cols))
    by (try (intros; apply map_length); assumption).
  cbn [plus].
  rewrite (nth_indep _ 0%Q ((fun col => nth i col 0%Q) [])) by (rewrite map_length; exact Hj).
  apply (map_nth (fun col => nth i col 0%Q)).
Qed.

(* ---- keyed tables ---------------------------------------------------------------------------------- *)
Lemma streqb_eq : forall a b, streqb a b = true <-> a = b.
Proof.
  induction a as [|x a IH]; destruct b as [|y b]; cbn [streqb]; split; intro H; try reflexivity; try discriminate.
  - apply andb_prop in H. destruct H as [H1 H2]. apply Ascii.eqb_eq in H1. apply IH in H2. congruence.
  - inversion H; subst. unfold aeqb. rewrite Ascii.eqb_refl. cbn. apply IH. reflexivity.
Qed.

Lemma key_eqb_eq a b : key_eqb a b = true <-> a = b.
Proof.
  destruct a, b; cbn [key_eqb]; split; intro H; try discriminate; try congruence.
  - apply Z.eqb_eq in H. congruence.
  - inversion H. apply Z.eqb_refl.
  - apply streqb_eq in H. congruence.
  - inversion H. apply streqb_eq. reflexivity.
Qed.

Lemma keys_eqb_eq : forall a b, keys_eqb a b = true <-> a = b.
Proof.
  induction a as [|x a IH]; destruct b as [|y b]; cbn [keys_eqb]; split; intro H; try reflexivity; try discriminate.
  - apply andb_prop in H. destruct H as [H1 H2]. apply key_eqb_eq in H1. apply IH in H2. congruence.
  - inversion H; subst. apply andb_true_intro. split; [apply key_eqb_eq | apply IH]; reflexivity.
Qed.

Fixpoint tbl_get (k : list key) (t : table) : option entry :=
  match t with [] => None | x :: t' => if keys_eqb (e_keys x) k then Some x else tbl_get k t' end.

Theorem tbl_last_write_wins : forall e t,
  tbl_get (e_keys e) (tbl_set e t) = Some e /\
  (forall k, k <> e_keys e -> tbl_get k (tbl_set e t) = tbl_get k t).
Proof.
  intros e t. split.
  - induction t as [|x t IH]; cbn [tbl_set tbl_get].
    + replace (keys_eqb (e_keys e) (e_keys e)) with true by (symmetry; apply keys_eqb_eq; reflexivity). reflexivity.
    + destruct (keys_eqb (e_keys x) (e_keys e)) eqn:E; cbn [tbl_get].
      * replace (keys_eqb (e_keys e) (e_keys e)) with true by (symmetry; apply keys_eqb_eq; reflexivity). reflexivity.
      * rewrite E. exact IH.
  - intros k Hk. induction t as [|x t IH]; cbn [tbl_set tbl_get].
    + destruct (keys_eqb (e_keys e) k) eqn:E; [apply keys_eqb_eq in E; congruence | reflexivity].
    + destruct (keys_eqb (e_keys x) (e_keys e)) eqn:E; cbn [tbl_get].
      * apply keys_eqb_eq in E.
        destruct (keys_eqb (e_keys e) k) eqn:E1; [apply keys_eqb_eq in E1; congruence|].
        destruct (keys_eqb (e_keys x) k) eqn:E2; [apply keys_eqb_eq in E2; congruence | reflexivity].
      * destruct (keys_eqb (e_keys x) k); [reflexivity | exact IH].
Qed.

(* ---- ADF15: a block is found by its ISEL, wherever it stands; an absent ISEL is an error --------------- *)
Definition other_isel (rx : rx15) (bn : Z) (b : list str) : Prop :=
  match b with
  | [] => False
  | h :: _ => match re_match true (r15_block rx) h with
              | None => True
              | Some g => exists isel, parse_int (get_cap 4 g) = Some isel /\ isel <> bn
              end
  end.

Lemma extract_skips : forall rx bn pre post, Forall (other_isel rx bn) pre ->
  extract_rate rx (pre ++ post) bn = extract_rate rx post bn.
Proof.
  intros rx bn pre post H. induction H as [|b pre Hb _ IH]; [reflexivity|].
  destruct b as [|h body]; [destruct Hb|]. cbn [app extract_rate]. cbn [other_isel] in Hb.
  destruct (re_match true (r15_block rx) h) as [g|]; [|exact IH].
  destruct Hb as (isel & Hp & Hne). unfold grp_int. rewrite Hp. cbn [of_opt bind].
  replace (Z.eqb isel bn) with false by (symmetry; apply Z.eqb_neq; exact Hne). exact IH.
Qed.

Theorem block_lookup_absent : forall rx bn blocks, Forall (other_isel rx bn) blocks ->
  extract_rate rx blocks bn = Err ERuntime.
Proof.
  intros rx bn blocks H. rewrite <- (app_nil_r blocks). rewrite extract_skips by exact H. reflexivity.
Qed.

(* ---- ADF11: a first line whose element does not match is rejected ------------------------------------- *)
Theorem adf11_header_mismatch : forall rx z name ls l0 t0 t1 t2 t3 t4 t5 t6 more zn nd nt zmin zmax,
  nth_error ls 0 = Some l0 ->
  split_2ws (strip l0) = t0 :: t1 :: t2 :: t3 :: t4 :: t5 :: t6 :: more ->
  parse_int t0 = Some zn -> parse_int t1 = Some nd -> parse_int t2 = Some nt ->
  parse_int t3 = Some zmin -> parse_int t4 = Some zmax ->
  (zn <> z \/ lower_str (strip_char "/"%char t5) <> name) ->
  parse_adf11 rx z name ls = Err EValue.
Proof.
  intros rx z name ls l0 t0 t1 t2 t3 t4 t5 t6 more zn nd nt zmin zmax H0 Hs P0 P1 P2 P3 P4 Hne.
  unfold parse_adf11, nth_res. rewrite H0. cbn [of_opt bind]. rewrite Hs.
  cbn [nth_error of_opt bind]. rewrite P0, P1, P2, P3, P4. cbn [of_opt bind].
  assert (E : (Z.eqb z zn && streqb name (lower_str (strip_char "/"%char t5)))%bool = false).
  { destruct Hne as [Hz | Hn].
    - replace (Z.eqb z zn) with false by (symmetry; apply Z.eqb_neq; congruence). reflexivity.
    - destruct (streqb name (lower_str (strip_char "/"%char t5))) eqn:E1.
      + apply streqb_eq in E1. congruence.
      + apply andb_false_r. }
  rewrite E. reflexivity.
Qed.

(* the block with the requested ISEL decides the result alone: neither its position nor the other blocks matter *)
Theorem block_lookup_found : forall rx bn pre h body post g,
  Forall (other_isel rx bn) pre ->
  re_match true (r15_block rx) h = Some g -> parse_int (get_cap 4 g) = Some bn ->
  extract_rate rx (pre ++ (h :: body) :: post) bn = extract_rate rx [h :: body] bn.
Proof.
  intros rx bn pre h body post g Hpre Hm Hp. rewrite extract_skips by exact Hpre.
  cbn [extract_rate]. rewrite Hm. unfold grp_int at 1 4. rewrite Hp. cbn [of_opt bind].
  rewrite Z.eqb_refl. reflexivity.
Qed.

(* ---- install.py as tables: what the well-formedness predicates (checked by the kernel on the tables regenerated from the
   source, coq/Gen/C08/Layout.v) mean ------------------------------------------------------------------------------- *)
Theorem dispatch_sound : forall t, dispatch_ok t = true ->
  (forall k f, In (k, f) t -> f = S_ "install_" ++ k) /\
  (forall k, In k adf_kinds -> List.length (filter (fun kf => streqb k (fst kf)) t) = 1%nat).
Proof.
  intros t H. unfold dispatch_ok in H. apply andb_prop in H. destruct H as [H H3]. apply andb_prop in H. destruct H as [H1 H2].
  split.
  - intros k f Hin. rewrite forallb_forall in H1. specialize (H1 (k, f) Hin). cbn [fst snd] in H1.
    apply streqb_eq in H1. exact H1.
  - intros k Hk. rewrite forallb_forall in H2. specialize (H2 k Hk). apply Nat.eqb_eq in H2. exact H2.
Qed.

Theorem wiring_sound : forall t, wiring_ok t = true ->
  forall fn ft upd, In (fn, (ft, upd)) t -> fn = S_ "install_adf11" ++ ft /\ In (ft, upd) adf11_updates.
Proof.
  intros t H fn ft upd Hin. unfold wiring_ok in H. apply andb_prop in H. destruct H as [H _]. apply andb_prop in H. destruct H as [H1 _].
  rewrite forallb_forall in H1. specialize (H1 _ Hin). cbn beta iota in H1.
  apply andb_prop in H1. destruct H1 as [Ha Hb]. apply streqb_eq in Ha. split; [exact Ha|].
  apply existsb_exists in Hb. destruct Hb as ([a b] & Hin2 & Hab). cbn [fst snd] in Hab.
  apply andb_prop in Hab. destruct Hab as [E1 E2]. apply streqb_eq in E1. apply streqb_eq in E2. subst. exact Hin2.
Qed.

(* thermal-CX 3-D table: entry [i][k] of the flattened (cell, donor temperature) array is the 2-D value of cell i, for both
   donor temperatures *)
Theorem thermalcx_axis : forall rate i k, (i < List.length rate)%nat -> (k < List.length thermalcx_td)%nat ->
  nth (i * List.length thermalcx_td + k) (flat_map (fun r => map (fun _ => r) thermalcx_td) rate) 0%Q = nth i rate 0%Q.
Proof.
  induction rate as [|r rate IH]; intros i k Hi Hk; [cbn in Hi; lia|].
  cbn [flat_map]. destruct i as [|i].
  - cbn [mult plus nth]. rewrite app_nth1 by (rewrite map_length; exact Hk).
    rewrite (nth_indep _ 0%Q ((fun _ => r) 0%Q)) by (rewrite map_length; exact Hk). exact (map_nth (fun _ : Q => r) thermalcx_td 0%Q k).
  - replace (S i * List.length thermalcx_td + k)%nat with (List.length thermalcx_td + (i * List.length thermalcx_td + k))%nat by lia.
    rewrite app_nth2 by (rewrite map_length; lia). rewrite map_length.
    replace (List.length thermalcx_td + (i * List.length thermalcx_td + k) - List.length thermalcx_td)%nat
      with (i * List.length thermalcx_td + k)%nat by lia.
    cbn [nth]. apply IH; [cbn in Hi; lia | exact Hk].
Qed.
