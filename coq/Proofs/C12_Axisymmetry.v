(* The 3-D mapped function is unchanged by rotating the point about the z axis, for every
   environment whose functions respect equality of rationals (every function computed from the
   numerical value of its arguments does); and the witness environment of the non-vacuity example. *)
Require Import Cherab.Common.Qx.
Require Import Cherab.Model.C12_Equilibrium.
Require Import Cherab.Proofs.C12_Equilibrium.
From Coq Require Import Lqa.
Open Scope Q_scope.

Definition fun_proper (f : Q -> Q) : Prop := forall a a', a == a' -> f a == f a'.
Definition fun2_proper (f : Q -> Q -> Q) : Prop := forall a a' b b', a == a' -> b == b' -> f a b == f a' b'.
Definition env_proper (E : env) : Prop :=
  fun2_proper (e_psi E) /\ fun2_proper (e_poly E) /\ fun_proper (e_sqrt E).

Lemma psin_proper E r r' z : env_proper E -> r == r' -> psi_n E r z == psi_n E r' z.
Proof.
  intros (Hpsi & _ & _) Hr. unfold psi_n. apply clamp_proper. unfold psin_raw.
  rewrite (Hpsi r r' z z Hr (Qeq_refl z)). reflexivity.
Qed.

Lemma inside_proper E r r' z : env_proper E -> r == r' -> inside_b E r z = inside_b E r' z.
Proof.
  intros HE Hr. unfold inside_b.
  rewrite (Qle_bool_proper _ _ 1 1 (psin_proper E r r' z HE Hr) (Qeq_refl 1)).
  destruct HE as (_ & Hpoly & _).
  rewrite (Qlt_b_proper 0 0 _ _ (Qeq_refl 0) (Hpoly r r' z z Hr (Qeq_refl z))). reflexivity.
Qed.

Lemma map2d_proper E profile outside r r' z :
  env_proper E -> fun_proper profile -> r == r' -> map2d E profile outside r z == map2d E profile outside r' z.
Proof.
  intros HE Hp Hr. unfold map2d, inside_lcfs. rewrite (inside_proper E r r' z HE Hr).
  destruct (inside_b E r' z).
  - rewrite !blend_1. apply Hp. apply psin_proper; assumption.
  - rewrite !blend_0. reflexivity.
Qed.

Lemma map3d_rotation_invariant E profile outside :
  env_proper E -> fun_proper profile -> forall c s x y z, c * c + s * s == 1 ->
  map3d E profile outside (c * x - s * y) (s * x + c * y) z == map3d E profile outside x y z.
Proof.
  intros HE Hp c s x y z H. unfold map3d. apply map2d_proper; try assumption.
  destruct HE as (_ & _ & Hs). apply Hs.
  assert (X : (c * x - s * y) * (c * x - s * y) + (s * x + c * y) * (s * x + c * y)
              == x * x + y * y + (c * c + s * s - 1) * (x * x + y * y)) by ring.
  rewrite X, H. ring.
Qed.

(* ---- witness for the non-vacuity example: psi = r, axis 0, LCFS 10, field (3, 1/5, 4) at (5, 0) *)
Definition witness_env : env :=
  {| e_psi_axis := 0; e_psi_lcfs := 10;
     e_psi := fun r z => r; e_poly := fun _ _ => 1;
     e_dpsidr := fun _ _ => 20; e_dpsidz := fun _ _ => - (15);
     e_fprof := fun _ => 1; e_bvac_r := 1; e_bvac_m := 1;
     e_sqrt := fun a => if Qeq_bool a 25 then 5 else 0;
     e_cs := fun _ _ => (3 # 5, 4 # 5);
     e_slerp := fun u _ _ => u |}.

Lemma witness_ok :
  let E := witness_env in
  ~ e_psi_lcfs E == e_psi_axis E /\ inside_b E 5 0 = true /\ inplane_zero (b_field E 5 0) = false /\
  sqrt_exact_at E (pol_arg (b_field E 5 0)) /\ sqrt_exact_at E (nor_arg (b_field E 5 0)) /\
  e_sqrt E (3 * 3 + 4 * 4) == 5 /\
  fst (e_cs E 3 4) * fst (e_cs E 3 4) + snd (e_cs E 3 4) * snd (e_cs E 3 4) == 1 /\
  fst (e_cs E 3 4) * 5 == 3 /\ snd (e_cs E 3 4) * 5 == 4 /\ env_proper E.
Proof.
  cbv zeta. split; [intros H; vm_compute in H; discriminate|].
  split; [vm_compute; reflexivity|]. split; [vm_compute; reflexivity|].
  split; [vm_compute; reflexivity|]. split; [vm_compute; reflexivity|].
  split; [vm_compute; reflexivity|]. split; [vm_compute; reflexivity|].
  split; [vm_compute; reflexivity|]. split; [vm_compute; reflexivity|].
  unfold env_proper, fun2_proper, fun_proper, witness_env; cbn [e_psi e_poly e_sqrt].
  split; [intros; assumption|]. split; [intros; reflexivity|].
  intros a a' H. rewrite (Qeq_bool_proper a a' 25 25 H (Qeq_refl 25)). reflexivity.
Qed.
