(* Lemmas about the bremsstrahlung model (Model/C03_Brems.v), for arbitrary oracles sqrt, exp,
   Gaunt factor and integrator. *)
Require Import Cherab.Common.Qx Cherab.Model.C03_Passive Cherab.Model.C03_Brems Cherab.Proofs.C03_Lines.
From Coq Require Import Lqa.
Open Scope Q_scope.

Section BremsProofs.
  Variable C : consts.
  Variables sqrtf expf : Q -> Q.
  Variable gaunt : Q -> Q -> Q -> Q.

  Notation gterm := (gff_term gaunt).
  Notation nigff := (ni_gff_z2 gaunt).
  Notation bfun := (brems_function C sqrtf expf gaunt).
  Notation bcoef := (brems_coef C sqrtf expf gaunt).
  Notation bconst := (brems_const C sqrtf).

  Definition contributes (zn : Q * Q) : bool := negb (Qle_bool (snd zn) 0).

  (* the loop is the sum over the entries with positive density *)
  Lemma ni_gff_z2_sum te wvl zs :
    nigff te wvl zs == Qsum (map (gterm te wvl) (filter contributes zs)).
  Proof.
    unfold ni_gff_z2.
    assert (G : forall a, fold_left (fun acc zn => if Qle_bool (snd zn) 0 then acc else Qred (acc + gterm te wvl zn)) zs a
                    == a + Qsum (map (gterm te wvl) (filter contributes zs))).
    { induction zs as [|zn t IH]; intro a; cbn [fold_left filter map Qsum]; [ring|].
      rewrite IH. unfold contributes at 2. destruct (Qle_bool (snd zn) 0); cbn [negb map Qsum]; rewrite ?Qred_correct; ring. }
    rewrite G. ring.
  Qed.

  (* species that take part: charge > 0 and density > 0 *)
  Definition takes_part (s : species) : bool := Z.ltb 0 (s_charge s) && negb (Qle_bool (s_dens s) 0).
  Definition ion_term (te wvl : Q) (s : species) : Q :=
    s_dens s * gaunt (inject_Z (s_charge s)) te wvl * inject_Z (s_charge s) * inject_Z (s_charge s).

  Lemma ni_gff_z2_species te wvl comp :
    nigff te wvl (charged_pairs comp) == Qsum (map (ion_term te wvl) (filter takes_part comp)).
  Proof.
    rewrite ni_gff_z2_sum. unfold charged_pairs, charged.
    induction comp as [|s t IH]; [reflexivity|].
    cbn [filter]. unfold takes_part at 1. destruct (Z.ltb 0 (s_charge s)); cbn [andb map filter]; [|exact IH].
    unfold contributes at 1. cbn [snd]. destruct (Qle_bool (s_dens s) 0); cbn [negb map Qsum]; [exact IH|].
    rewrite IH. unfold gff_term, ion_term. cbn [fst snd]. rewrite Qred_correct. ring.
  Qed.

  (* the documented (Hutchinson) expression, for any composition *)
  Lemma brems_formula ne te comp wvl :
    bfun ne te (charged_pairs comp) wvl ==
    bconst / (sqrtf te * wvl * wvl) * ne
    * Qsum (map (ion_term te wvl) (filter takes_part comp))
    * expf (- exp_factor C / (te * wvl)).
  Proof. unfold brems_function. rewrite ni_gff_z2_species. ring. Qed.

  (* neutrals and species of non-positive density do not contribute *)
  Lemma filter_app_drop {A} (p : A -> bool) l1 x l2 : p x = false -> filter p (l1 ++ x :: l2) = filter p (l1 ++ l2).
  Proof. intro H. rewrite !filter_app. cbn [filter]. rewrite H. reflexivity. Qed.

  Lemma brems_species_filter ne te l1 s l2 wvl :
    (s_charge s <= 0)%Z \/ s_dens s <= 0 ->
    bfun ne te (charged_pairs (l1 ++ s :: l2)) wvl == bfun ne te (charged_pairs (l1 ++ l2)) wvl.
  Proof.
    intro H. rewrite !brems_formula. rewrite filter_app_drop; [reflexivity|].
    unfold takes_part. destruct H as [H|H].
    - assert (Z.ltb 0 (s_charge s) = false) as -> by (apply Z.ltb_ge; exact H). reflexivity.
    - rewrite (nonpos_true _ H). apply andb_false_r.
  Qed.

  (* affine in the density of every ion, on the positive side of the guard *)
  Lemma brems_linear_in_density ne te l1 s l2 wvl n :
    (0 < s_charge s)%Z -> 0 < n ->
    bfun ne te (charged_pairs (l1 ++ set_dens s n :: l2)) wvl ==
    bfun ne te (charged_pairs (l1 ++ l2)) wvl + n * bcoef ne te wvl (inject_Z (s_charge s)).
  Proof.
    intros Hc Hn. rewrite !brems_formula. rewrite !filter_app. cbn [filter].
    unfold takes_part at 2. cbn [set_dens s_charge s_dens].
    assert (Z.ltb 0 (s_charge s) = true) as -> by (apply Z.ltb_lt; exact Hc).
    rewrite (pos_false n Hn). cbn [andb negb]. rewrite !map_app, !Qsum_app. cbn [map Qsum].
    unfold ion_term at 2. cbn [set_dens s_charge s_dens]. unfold brems_coef. ring.
  Qed.

  Lemma Qinv_nonneg x : 0 <= x -> 0 <= / x.
  Proof.
    intro H. destruct (Qeq_dec x 0) as [E|E].
    - rewrite E. cbn. lra.
    - apply Qlt_le_weak, Qinv_lt_0_compat. destruct (Qlt_le_dec 0 x); [assumption|]. exfalso; apply E; lra.
  Qed.

  (* never negative for a non-negative Gaunt factor *)
  Lemma brems_nonneg ne te comp wvl :
    0 <= bconst -> 0 <= sqrtf te -> (forall x, 0 <= expf x) -> (forall z t w, 0 <= gaunt z t w) -> 0 <= ne ->
    0 <= bfun ne te (charged_pairs comp) wvl.
  Proof.
    intros Hk Hs He Hg Hn. rewrite brems_formula.
    assert (0 <= Qsum (map (ion_term te wvl) (filter takes_part comp))).
    { apply Qsum_nonneg. intros x Hx. apply in_map_iff in Hx. destruct Hx as [s [<- Hin]].
      apply filter_In in Hin. destruct Hin as [_ Hp]. unfold takes_part in Hp. apply andb_true_iff in Hp.
      destruct Hp as [Hc Hd]. apply Z.ltb_lt in Hc. apply negb_true_iff, Qle_bool_false in Hd.
      unfold ion_term. assert (0 <= inject_Z (s_charge s)) by (change 0 with (inject_Z 0); rewrite <- Zle_Qle; lia).
      repeat apply Qmult_le_0_compat; try lra. apply Hg. }
    assert (0 <= / (sqrtf te * wvl * wvl)).
    { apply Qinv_nonneg. rewrite <- Qmult_assoc. apply Qmult_le_0_compat; [assumption|].
      destruct (Qlt_le_dec wvl 0); nra. }
    unfold Qdiv.
    apply Qmult_le_0_compat; [|apply He].
    apply Qmult_le_0_compat; [|assumption].
    apply Qmult_le_0_compat; [|assumption].
    apply Qmult_le_0_compat; assumption.
  Qed.

  (* ---- bins --------------------------------------------------------------------------------- *)
  Variable integ : (Q -> Q) -> Q -> Q -> Q.
  Notation bins_from := (brems_bins_from integ).

  (* Emission is skipped when the electron density or temperature is non-positive *)
  Lemma brems_skip ne te comp minw delta nbins :
    ne <= 0 \/ te <= 0 -> brems_emission C sqrtf expf gaunt integ ne te comp minw delta nbins = None.
  Proof.
    intro H. unfold brems_emission.
    destruct (Qle_bool ne 0) eqn:E1; [reflexivity|].
    destruct (Qle_bool te 0) eqn:E2; [reflexivity|].
    apply Qle_bool_false in E1, E2. destruct H; lra.
  Qed.

  (* with an exact integrator (integ f a b = F b - F a) the binned spectrum integrates to the integral of
     the function over the whole window: the bins are bin averages of contiguous intervals *)
  Lemma brems_bins_total f (F : Q -> Q) minw delta n :
    (forall a b, integ f a b == F b - F a) -> (forall a b, a == b -> F a == F b) -> ~ delta == 0 ->
    integrate_bins (bins_from f minw delta minw 0 n) delta == F (minw + delta * inject_Z (Z.of_nat n)) - F minw.
  Proof.
    intros HI HF Hd. unfold integrate_bins.
    assert (G : forall m lower i, lower == minw + delta * inject_Z i ->
              Qsum (bins_from f minw delta lower i m) * delta == F (minw + delta * inject_Z (i + Z.of_nat m)) - F lower).
    { induction m as [|m IH]; intros lower i Hl.
      - cbn [brems_bins_from Qsum]. rewrite Z.add_0_r. rewrite (HF _ _ Hl). ring.
      - cbn [brems_bins_from Qsum]. rewrite Qmult_plus_distr_l.
        rewrite (IH (minw + delta * inject_Z (i + 1)) (i + 1)%Z) by reflexivity.
        rewrite HI. replace (i + 1 + Z.of_nat m)%Z with (i + Z.of_nat (S m))%Z by lia.
        field. exact Hd. }
    rewrite (G n minw 0%Z); [reflexivity|]. cbn. ring.
  Qed.

  (* bin k is the integral over [min + k delta, min + (k+1) delta] divided by delta *)
  Lemma brems_bin_nth f minw delta n : forall lower i k, (k < n)%nat ->
    nth k (bins_from f minw delta lower i n) 0 =
    integ f (match k with O => lower | S _ => minw + delta * inject_Z (i + Z.of_nat k) end)
            (minw + delta * inject_Z (i + Z.of_nat k + 1)) / delta.
  Proof.
    induction n as [|n IH]; intros lower i k Hk; [lia|].
    cbn [brems_bins_from]. destruct k as [|k].
    - cbn [nth Z.of_nat]. rewrite Z.add_0_r. reflexivity.
    - cbn [nth]. rewrite IH by lia.
      replace (i + 1 + Z.of_nat k)%Z with (i + Z.of_nat (S k))%Z by lia.
      destruct k; [|reflexivity]. replace (i + Z.of_nat 1)%Z with (i + 1)%Z by lia. reflexivity.
  Qed.

  (* non-negative function and a positivity-preserving integrator give non-negative bins *)
  Lemma brems_bins_nonneg f minw delta : 0 < delta ->
    (forall x, 0 <= f x) -> (forall a b, a <= b -> 0 <= integ f a b) ->
    forall n lower i, lower <= minw + delta * inject_Z (i + 1) -> forall b, In b (bins_from f minw delta lower i n) -> 0 <= b.
  Proof.
    intros Hd Hf HI. induction n as [|n IH]; intros lower i Hl b Hb; [destruct Hb|].
    cbn [brems_bins_from] in Hb. destruct Hb as [<-|Hb].
    - unfold Qdiv. apply Qmult_le_0_compat; [apply HI; exact Hl|]. apply Qinv_nonneg; lra.
    - apply (IH (minw + delta * inject_Z (i + 1)) (i + 1)%Z); [|exact Hb].
      apply Qplus_le_r. apply Qmult_le_l; [exact Hd|]. rewrite <- Zle_Qle. lia.
  Qed.
End BremsProofs.
