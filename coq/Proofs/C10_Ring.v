(* The two-step bound for any cell of any grid of the executable model, for rational brackets of the (at most two)
   intervals in which the line meets the cell; and the pipelines over whole histories. *)
Require Import Cherab.Common.Qx.
Require Import Cherab.Model.C10_RayTransfer Cherab.Model.C10_Pipeline.
Require Import Cherab.Proofs.C10_Count Cherab.Proofs.C10_Chord Cherab.Proofs.C10_Pipeline.
From Coq Require Import Qabs Lqa.
Open Scope Q_scope.

Lemma cell_two_steps_brackets (cellfn : vec -> cell) start stop len stp ms (c : cell) (ivs : list (Q * Q)) :
  0 < len -> (1 <= ms)%Z ->
  let n := nsamples ms len stp in
  let dt := dt_of len n in
  let S := fun k => cell_eqb c (cellfn (point_lam start (vsub stop start) n k)) in
  chain 0 ivs -> (forall ab, In ab ivs -> snd ab <= len) -> (length ivs <= 2)%nat ->
  (forall k, (0 <= k < n)%Z -> existsb (in_open (t_of dt k)) ivs = true -> S k = true) ->
  (forall k, (0 <= k < n)%Z -> S k = true -> existsb (in_closed (t_of dt k)) ivs = true) ->
  Qabs (dt * inject_Z (countp (cell_eqb c) (integrate_cells cellfn start stop len stp ms)) - total_len ivs) <= 2 * dt.
Proof.
  intros Hl Hm n dt S Hc Hb Hlen H1 H2.
  assert (Hn : (1 <= n)%Z) by (unfold n, nsamples; lia).
  assert (Hnq : 0 < inject_Z n) by (change 0 with (inject_Z 0); rewrite <- Zlt_Qlt; lia).
  assert (Hdt : 0 < dt) by (unfold dt, dt_of; apply Qlt_shift_div_l; [exact Hnq | lra]).
  assert (Hnn : Z.of_nat (Z.to_nat n) = n) by lia.
  assert (El : inject_Z (Z.of_nat (Z.to_nat n)) * dt == len).
  { rewrite Hnn. unfold dt, dt_of. field. lra. }
  unfold integrate_cells, sample_points_lam. fold n. rewrite map_map, countp_zrange. fold S.
  pose proof (k_intervals dt Hdt (Z.to_nat n) S ivs Hc) as K.
  assert (K' : Qabs (dt * inject_Z (countk S (Z.to_nat n)) - total_len ivs) <= inject_Z (Z.of_nat (length ivs)) * dt).
  { apply K.
    - intros ab Hab. rewrite El. apply Hb. exact Hab.
    - intros k Hk. apply H1. lia.
    - intros k Hk. apply H2. lia. }
  eapply Qle_trans; [exact K'|].
  assert (inject_Z (Z.of_nat (length ivs)) <= 2).
  { change 2 with (inject_Z 2). rewrite <- Zle_Qle. lia. }
  apply Qmult_le_compat_r; lra.
Qed.

(* ---- pipelines over whole histories: the k-th matrix of ANY history, from ANY initial state, is the mean of the k-th
   observation's own samples ---- *)
Lemma p0_history_means : forall (h : list (pkind * list (list sample))) (st : p0) (i : nat) k tasks j,
  nth_error h i = Some (k, tasks) ->
  exists m, nth_error (p0_history st h) i = Some m /\
            m j == sample_sum k (concat tasks) j / inject_Z (Z.of_nat (length (concat tasks))).
Proof.
  induction h as [|[k0 t0] h IH]; intros st i k tasks j Hi; [destruct i; discriminate|].
  destruct i as [|i]; cbn [nth_error p0_history] in *.
  - injection Hi as -> ->. eexists. split; [reflexivity|].
    rewrite p0_observe_mean. cbn [p0_set_kind p0_kind]. reflexivity.
  - apply IH. exact Hi.
Qed.
