(* The tensor-product cubic of the 2-D / 3-D model satisfies every row of the constraint system that
   Caching2D / Caching3D build (Model/C14_System.v), and it is the polynomial the model evaluates. *)
Require Import Cherab.Common.Qx.
Require Import Cherab.Model.C14_Caching Cherab.Model.C14_System Cherab.Proofs.C14_Hermite Cherab.Proofs.C14_Dim1.
From Coq Require Import Lqa.
Open Scope Q_scope.

Lemma comps_compv der t : comps der t = map (compv der t) idx4.
Proof. destruct der; reflexivity. Qed.

Lemma dotv_ext w a b : (forall i, a i == b i) -> dotv w a == dotv w b.
Proof. intros H. unfold dotv. rewrite !H. reflexivity. Qed.

Lemma fdv_ext der knot nd g h : (forall i, g i == h i) -> fdv der knot nd g == fdv der knot nd h.
Proof. intros H. destruct nd as [[[tm t0] t1] t2]. unfold fdv. destruct der, knot; rewrite !H; reflexivity. Qed.

(* sums commute *)
Lemma dotv_swap w1 w2 (C : Z -> Z -> Q) :
  dotv w1 (fun i => dotv w2 (fun j => C i j)) == dotv w2 (fun j => dotv w1 (fun i => C i j)).
Proof. unfold dotv. ring. Qed.

Lemma dotv_fdv w der knot nd (B : Z -> Z -> Q) :
  dotv w (fun j => fdv der knot nd (fun u => B u j)) == fdv der knot nd (fun u => dotv w (fun j => B u j)).
Proof. destruct nd as [[[tm t0] t1] t2]. unfold dotv, fdv. destruct der, knot; unfold Qdiv; ring. Qed.

(* one axis: each of the four rows [1 t t^2 t^3] / [0 1 2t 3t^2] at the two knots, applied to the closed-form
   coefficients, gives the datum / the central difference quotient *)
Lemma row_1d der knot nd g : let '(tm, t0, t1, t2) := nd in ~ t1 - t0 == 0 ->
  dotv (compv der (knot_of nd knot)) (cfv nd g) == fdv der knot nd g.
Proof.
  destruct nd as [[[tm t0] t1] t2]. intros H.
  cbv beta iota zeta delta [dotv compv cfv solve4 fdv knot_of]. rewrite !Qred_correct.
  generalize ((g 2%Z - g 0%Z) / (t1 - tm)). generalize ((g 3%Z - g 1%Z) / (t2 - t0)). intros s1 s0.
  destruct der, knot; field; auto.
Qed.

(* one axis: the coefficients are those of the cubic HL *)
Lemma value_1d nd g t : let '(tm, t0, t1, t2) := nd in ~ t1 - t0 == 0 ->
  dotv (compv false t) (cfv nd g) == HLraw tm t0 t1 t2 (g 0%Z) (g 1%Z) (g 2%Z) (g 3%Z) t.
Proof.
  destruct nd as [[[tm t0] t1] t2]. intros H.
  cbv beta iota zeta delta [dotv compv cfv solve4 HLraw]. rewrite !Qred_correct.
  generalize ((g 2%Z - g 0%Z) / (t1 - tm)). generalize ((g 3%Z - g 1%Z) / (t2 - t0)). intros s1 s0.
  field. auto.
Qed.

Lemma dotv_HLraw w tm t0 t1 t2 (B : Z -> Z -> Q) t : ~ t1 - t0 == 0 ->
  dotv w (fun j => HLraw tm t0 t1 t2 (B 0%Z j) (B 1%Z j) (B 2%Z j) (B 3%Z j) t)
  == HLraw tm t0 t1 t2 (dotv w (B 0%Z)) (dotv w (B 1%Z)) (dotv w (B 2%Z)) (dotv w (B 3%Z)) t.
Proof. intros H. unfold dotv, HLraw. unfold Qdiv. ring. Qed.

Definition nd_ok (nd : Q * Q * Q * Q) : Prop := let '(tm, t0, t1, t2) := nd in ~ t1 - t0 == 0.

Lemma row_1d' der knot nd g : nd_ok nd -> dotv (compv der (knot_of nd knot)) (cfv nd g) == fdv der knot nd g.
Proof. intros H. pose proof (row_1d der knot nd g) as R. destruct nd as [[[tm t0] t1] t2]. apply R. exact H. Qed.

(* ---- 2-D: all 16 rows ---- *)
Theorem rows_2d dx dy kx ky xn yn D : nd_ok xn -> nd_ok yn ->
  dotv (compv dx (knot_of xn kx)) (fun i => dotv (compv dy (knot_of yn ky)) (fun j => coef2 xn yn D i j))
  == cv2 dx dy kx ky xn yn D.
Proof.
  intros Hx Hy. unfold coef2, cv2.
  rewrite dotv_swap.
  rewrite (dotv_ext _ _ (fun j => fdv dx kx xn (fun u => cfv yn (fun v => D u v) j)))
    by (intro j; apply (row_1d' dx kx xn (fun u => cfv yn (fun v => D u v) j) Hx)).
  rewrite dotv_fdv. apply fdv_ext. intro u. apply (row_1d' dy ky yn (fun v => D u v) Hy).
Qed.

(* ---- 3-D: all 64 rows ---- *)
Theorem rows_3d dx dy dz kx ky kz xn yn zn D : nd_ok xn -> nd_ok yn -> nd_ok zn ->
  dotv (compv dx (knot_of xn kx)) (fun i => dotv (compv dy (knot_of yn ky)) (fun j =>
    dotv (compv dz (knot_of zn kz)) (fun k => coef3 xn yn zn D i j k)))
  == cv3 dx dy dz kx ky kz xn yn zn D.
Proof.
  intros Hx Hy Hz. unfold coef3, cv3.
  set (wx := compv dx (knot_of xn kx)). set (wy := compv dy (knot_of yn ky)). set (wz := compv dz (knot_of zn kz)).
  (* bring the x sum inside *)
  rewrite dotv_swap.
  rewrite (dotv_ext wy _ (fun j => dotv wz (fun k => dotv wx (fun i =>
            cfv xn (fun u => cfv yn (fun v => cfv zn (fun w => D u v w) k) j) i))))
    by (intro j; apply dotv_swap).
  rewrite (dotv_ext wy _ (fun j => dotv wz (fun k => fdv dx kx xn (fun u => cfv yn (fun v => cfv zn (fun w => D u v w) k) j)))).
  2:{ intro j. apply dotv_ext. intro k.
      apply (row_1d' dx kx xn (fun u => cfv yn (fun v => cfv zn (fun w => D u v w) k) j) Hx). }
  rewrite (dotv_ext wy _ (fun j => fdv dx kx xn (fun u => dotv wz (fun k => cfv yn (fun v => cfv zn (fun w => D u v w) k) j))))
    by (intro j; apply dotv_fdv).
  rewrite dotv_fdv. apply fdv_ext. intro u.
  (* now y *)
  rewrite dotv_swap.
  rewrite (dotv_ext wz _ (fun k => fdv dy ky yn (fun v => cfv zn (fun w => D u v w) k)))
    by (intro k; apply (row_1d' dy ky yn (fun v => cfv zn (fun w => D u v w) k) Hy)).
  rewrite dotv_fdv. apply fdv_ext. intro v.
  apply (row_1d' dz kz zn (fun w => D u v w) Hz).
Qed.

(* ---- the flattened form the code uses: dot of the 16 / 64 entry row with coeffs ---- *)
Lemma dotl_row2 dx dy tx ty (C : Z -> Z -> Q) :
  dotl (row2 dx dy tx ty) (flat2 C) == dotv (compv dx tx) (fun i => dotv (compv dy ty) (fun j => C i j)).
Proof.
  unfold row2, flat2. rewrite !comps_compv. unfold idx4, dotv. cbn [flat_map map app dotl]. ring.
Qed.

Lemma dotl_row3 dx dy dz tx ty tz (C : Z -> Z -> Z -> Q) :
  dotl (row3 dx dy dz tx ty tz) (flat3 C)
  == dotv (compv dx tx) (fun i => dotv (compv dy ty) (fun j => dotv (compv dz tz) (fun k => C i j k))).
Proof.
  unfold row3, flat3. rewrite !comps_compv. unfold idx4, dotv. cbn [flat_map map app dotl]. ring.
Qed.

Theorem system_2d dx dy kx ky xn yn D : nd_ok xn -> nd_ok yn ->
  dotl (row2 dx dy (knot_of xn kx) (knot_of yn ky)) (flat2 (coef2 xn yn D)) == cv2 dx dy kx ky xn yn D.
Proof. intros. rewrite dotl_row2. apply rows_2d; assumption. Qed.

Theorem system_3d dx dy dz kx ky kz xn yn zn D : nd_ok xn -> nd_ok yn -> nd_ok zn ->
  dotl (row3 dx dy dz (knot_of xn kx) (knot_of yn ky) (knot_of zn kz)) (flat3 (coef3 xn yn zn D))
  == cv3 dx dy dz kx ky kz xn yn zn D.
Proof. intros. rewrite dotl_row3. apply rows_3d; assumption. Qed.

(* the right-hand sides in the form the code writes them (cross derivatives) *)
Lemma cv2_cross (kx ky : bool) (tmx t0x t1x t2x tmy t0y t1y t2y : Q) (D : Z -> Z -> Q) :
  let xn := (tmx, t0x, t1x, t2x) in let yn := (tmy, t0y, t1y, t2y) in
  let u := if kx then 2%Z else 1%Z in let v := if ky then 2%Z else 1%Z in
  let delta_x := (if kx then t2x else t1x) - (if kx then t0x else tmx) in
  let delta_y := (if ky then t2y else t1y) - (if ky then t0y else tmy) in
  ~ delta_x == 0 -> ~ delta_y == 0 ->
  cv2 true true kx ky xn yn D
  == (D (u + 1)%Z (v + 1)%Z - D (u + 1)%Z (v - 1)%Z - D (u - 1)%Z (v + 1)%Z + D (u - 1)%Z (v - 1)%Z) / (delta_x * delta_y).
Proof. destruct kx, ky; cbv zeta; intros; unfold cv2, fdv; cbn [Z.add Z.sub Z.opp Z.pos_sub Pos.add Pos.succ Pos.pred_double]; field; auto. Qed.

(* ---- the polynomial with these coefficients is the tensor product of the one-axis cubics ---- *)
Lemma value_1d' nd g t : nd_ok nd ->
  dotv (compv false t) (cfv nd g)
  == let '(tm, t0, t1, t2) := nd in HLraw tm t0 t1 t2 (g 0%Z) (g 1%Z) (g 2%Z) (g 3%Z) t.
Proof. intros H. pose proof (value_1d nd g t) as R. destruct nd as [[[tm t0] t1] t2]. apply R. exact H. Qed.

Definition HLv (nd : Q * Q * Q * Q) (g : Z -> Q) (t : Q) : Q :=
  let '(tm, t0, t1, t2) := nd in HLraw tm t0 t1 t2 (g 0%Z) (g 1%Z) (g 2%Z) (g 3%Z) t.

Lemma HLv_ext nd g h t : (forall i, g i == h i) -> HLv nd g t == HLv nd h t.
Proof. intros H. destruct nd as [[[tm t0] t1] t2]. unfold HLv. apply HLraw_ext; try reflexivity; apply H. Qed.

Lemma dotv_HLv w nd (B : Z -> Z -> Q) t :
  dotv w (fun j => HLv nd (fun u => B u j) t) == HLv nd (fun u => dotv w (fun j => B u j)) t.
Proof. destruct nd as [[[tm t0] t1] t2]. unfold HLv, dotv, HLraw. unfold Qdiv. ring. Qed.

Theorem value_2d xn yn D tx ty : nd_ok xn -> nd_ok yn ->
  dotl (row2 false false tx ty) (flat2 (coef2 xn yn D)) == HLv xn (fun u => HLv yn (fun v => D u v) ty) tx.
Proof.
  intros Hx Hy. rewrite dotl_row2. unfold coef2. rewrite dotv_swap.
  rewrite (dotv_ext _ _ (fun j => HLv xn (fun u => cfv yn (fun v => D u v) j) tx))
    by (intro j; apply (value_1d' xn (fun u => cfv yn (fun v => D u v) j) tx Hx)).
  rewrite dotv_HLv. apply HLv_ext. intro u. apply (value_1d' yn (fun v => D u v) ty Hy).
Qed.

Theorem value_3d xn yn zn D tx ty tz : nd_ok xn -> nd_ok yn -> nd_ok zn ->
  dotl (row3 false false false tx ty tz) (flat3 (coef3 xn yn zn D))
  == HLv xn (fun u => HLv yn (fun v => HLv zn (fun w => D u v w) tz) ty) tx.
Proof.
  intros Hx Hy Hz. rewrite dotl_row3. unfold coef3.
  set (wx := compv false tx). set (wy := compv false ty). set (wz := compv false tz).
  rewrite dotv_swap.
  rewrite (dotv_ext wy _ (fun j => dotv wz (fun k => dotv wx (fun i =>
            cfv xn (fun u => cfv yn (fun v => cfv zn (fun w => D u v w) k) j) i))))
    by (intro j; apply dotv_swap).
  rewrite (dotv_ext wy _ (fun j => dotv wz (fun k => HLv xn (fun u => cfv yn (fun v => cfv zn (fun w => D u v w) k) j) tx))).
  2:{ intro j. apply dotv_ext. intro k.
      apply (value_1d' xn (fun u => cfv yn (fun v => cfv zn (fun w => D u v w) k) j) tx Hx). }
  rewrite (dotv_ext wy _ (fun j => HLv xn (fun u => dotv wz (fun k => cfv yn (fun v => cfv zn (fun w => D u v w) k) j)) tx))
    by (intro j; apply dotv_HLv).
  rewrite dotv_HLv. apply HLv_ext. intro u.
  rewrite dotv_swap.
  rewrite (dotv_ext wz _ (fun k => HLv yn (fun v => cfv zn (fun w => D u v w) k) ty))
    by (intro k; apply (value_1d' yn (fun v => cfv zn (fun w => D u v w) k) ty Hy)).
  rewrite dotv_HLv. apply HLv_ext. intro v.
  apply (value_1d' zn (fun w => D u v w) tz Hz).
Qed.

(* what the model's stored blocks evaluate (evalc2 / evalc3 before "data_delta * . + data_min") is that tensor
   product, for the block's 16 / 64 data in needed2 / needed3 order *)
Lemma HLl_HLv nd a b c d t : HLl nd [a; b; c; d] t == HLv nd (fun i => nth (Z.to_nat i) [a; b; c; d] 0) t.
Proof. destruct nd as [[[tm t0] t1] t2]. unfold HLl, HLv. cbn [nth Z.to_nat Pos.to_nat Pos.iter_op Init.Nat.add]. apply HL_raw. Qed.

Theorem block_value_2d xn yn vals tx ty : length vals = 16%nat -> nd_ok xn -> nd_ok yn ->
  HLl xn (reduce yn ty vals) tx == dotl (row2 false false tx ty) (flat2 (coef2 xn yn (block2 vals))).
Proof.
  intros L Hx Hy. rewrite value_2d by assumption.
  do 16 (destruct vals as [|? vals]; [discriminate L|]). destruct vals; [|discriminate L].
  destruct xn as [[[xm x0] x1] x2], yn as [[[ym y0] y1] y2].
  unfold reduce, HLv, block2. cbn [chunks4 map HLl].
  rewrite HL_raw. apply HLraw_ext; try reflexivity; (rewrite HL_raw; apply HLraw_ext; reflexivity).
Qed.

Theorem block_value_3d xn yn zn vals tx ty tz : length vals = 64%nat -> nd_ok xn -> nd_ok yn -> nd_ok zn ->
  HLl xn (reduce yn ty (reduce zn tz vals)) tx
  == dotl (row3 false false false tx ty tz) (flat3 (coef3 xn yn zn (block3 vals))).
Proof.
  intros L Hx Hy Hz. rewrite value_3d by assumption.
  do 64 (destruct vals as [|? vals]; [discriminate L|]). destruct vals; [|discriminate L].
  destruct xn as [[[xm x0] x1] x2], yn as [[[ym y0] y1] y2], zn as [[[zm z0] z1] z2].
  unfold reduce, HLv, block3. cbn [chunks4 map HLl].
  rewrite HL_raw. apply HLraw_ext; try reflexivity;
    (rewrite HL_raw; apply HLraw_ext; try reflexivity; (rewrite HL_raw; apply HLraw_ext; reflexivity)).
Qed.

(* ---- regularity: the systems have at most one solution (the 16x16 / 64x64 matrices are Kronecker powers of
   the regular 4x4 one), so numpy.linalg.solve's exact answer is the tensor-product cubic ---- *)
Lemma inj_1d nd (a a' : Z -> Q) : nd_ok nd ->
  (forall der knot, dotv (compv der (knot_of nd knot)) a == dotv (compv der (knot_of nd knot)) a') ->
  a 0%Z == a' 0%Z /\ a 1%Z == a' 1%Z /\ a 2%Z == a' 2%Z /\ a 3%Z == a' 3%Z.
Proof.
  destruct nd as [[[tm t0] t1] t2]. intros H E.
  pose proof (E false false) as V0. pose proof (E true false) as D0.
  pose proof (E false true) as V1. pose proof (E true true) as D1.
  cbv beta iota zeta delta [dotv compv knot_of] in V0, D0, V1, D1.
  set (h := t1 - t0) in *.
  (* a3 h^3 = (p'(t0) + p'(t1)) h - 2 (p(t1) - p(t0)) *)
  assert (E3 : (a 3%Z - a' 3%Z) * (h * h * h) == 0).
  { setoid_replace ((a 3%Z - a' 3%Z) * (h * h * h)) with
      (((0 * a 0%Z + 1 * a 1%Z + 2 * t0 * a 2%Z + 3 * (t0 * t0) * a 3%Z) - (0 * a' 0%Z + 1 * a' 1%Z + 2 * t0 * a' 2%Z + 3 * (t0 * t0) * a' 3%Z)
        + ((0 * a 0%Z + 1 * a 1%Z + 2 * t1 * a 2%Z + 3 * (t1 * t1) * a 3%Z) - (0 * a' 0%Z + 1 * a' 1%Z + 2 * t1 * a' 2%Z + 3 * (t1 * t1) * a' 3%Z))) * h
       - 2 * (((1 * a 0%Z + t1 * a 1%Z + t1 * t1 * a 2%Z + t1 * t1 * t1 * a 3%Z) - (1 * a' 0%Z + t1 * a' 1%Z + t1 * t1 * a' 2%Z + t1 * t1 * t1 * a' 3%Z))
              - ((1 * a 0%Z + t0 * a 1%Z + t0 * t0 * a 2%Z + t0 * t0 * t0 * a 3%Z) - (1 * a' 0%Z + t0 * a' 1%Z + t0 * t0 * a' 2%Z + t0 * t0 * t0 * a' 3%Z))))
      by (unfold h; ring).
    rewrite V0, D0, V1, D1. ring. }
  assert (Hh3 : ~ h * h * h == 0).
  { intro F. apply Qmult_integral in F. destruct F as [F|F]; [|contradiction].
    apply Qmult_integral in F. destruct F; contradiction. }
  assert (A3 : a 3%Z == a' 3%Z).
  { apply Qmult_integral in E3. destruct E3 as [E3|E3]; [lra|contradiction]. }
  (* a2 h^2 = p(t1) - p(t0) - p'(t0) h - a3 (3 t0 h^2 + h^3) *)
  assert (E2 : (a 2%Z - a' 2%Z) * (h * h) == 0).
  { setoid_replace ((a 2%Z - a' 2%Z) * (h * h)) with
      (((1 * a 0%Z + t1 * a 1%Z + t1 * t1 * a 2%Z + t1 * t1 * t1 * a 3%Z) - (1 * a' 0%Z + t1 * a' 1%Z + t1 * t1 * a' 2%Z + t1 * t1 * t1 * a' 3%Z))
       - ((1 * a 0%Z + t0 * a 1%Z + t0 * t0 * a 2%Z + t0 * t0 * t0 * a 3%Z) - (1 * a' 0%Z + t0 * a' 1%Z + t0 * t0 * a' 2%Z + t0 * t0 * t0 * a' 3%Z))
       - ((0 * a 0%Z + 1 * a 1%Z + 2 * t0 * a 2%Z + 3 * (t0 * t0) * a 3%Z) - (0 * a' 0%Z + 1 * a' 1%Z + 2 * t0 * a' 2%Z + 3 * (t0 * t0) * a' 3%Z)) * h
       - (a 3%Z - a' 3%Z) * (3 * t0 * (h * h) + h * h * h))
      by (unfold h; ring).
    rewrite V0, D0, V1, A3. ring. }
  assert (A2 : a 2%Z == a' 2%Z).
  { apply Qmult_integral in E2. destruct E2 as [E2|E2]; [lra|].
    apply Qmult_integral in E2. destruct E2; contradiction. }
  assert (A1 : a 1%Z == a' 1%Z).
  { rewrite A2, A3 in D0. lra. }
  assert (A0 : a 0%Z == a' 0%Z).
  { rewrite A1, A2, A3 in V0. lra. }
  auto.
Qed.

Definition eq4 (a a' : Z -> Q) : Prop := a 0%Z == a' 0%Z /\ a 1%Z == a' 1%Z /\ a 2%Z == a' 2%Z /\ a 3%Z == a' 3%Z.
Lemma eq4_dotv w a a' : eq4 a a' -> dotv w a == dotv w a'.
Proof. intros (E0 & E1 & E2 & E3). unfold dotv. rewrite E0, E1, E2, E3. reflexivity. Qed.
Definition in4 (i : Z) : Prop := i = 0%Z \/ i = 1%Z \/ i = 2%Z \/ i = 3%Z.
Lemma eq4_in a a' i : eq4 a a' -> in4 i -> a i == a' i.
Proof. intros (E0 & E1 & E2 & E3) [->|[->|[->| ->]]]; assumption. Qed.

Theorem unique_2d xn yn (C C' : Z -> Z -> Q) : nd_ok xn -> nd_ok yn ->
  (forall dx dy kx ky,
     dotv (compv dx (knot_of xn kx)) (fun i => dotv (compv dy (knot_of yn ky)) (fun j => C i j))
     == dotv (compv dx (knot_of xn kx)) (fun i => dotv (compv dy (knot_of yn ky)) (fun j => C' i j))) ->
  forall i j, in4 i -> in4 j -> C i j == C' i j.
Proof.
  intros Hx Hy E i j Hi Hj.
  assert (B : forall dy ky, eq4 (fun i => dotv (compv dy (knot_of yn ky)) (fun j => C i j))
                                (fun i => dotv (compv dy (knot_of yn ky)) (fun j => C' i j))).
  { intros dy ky. apply (inj_1d xn _ _ Hx). intros dx kx. apply E. }
  assert (R : eq4 (fun j => C i j) (fun j => C' i j)).
  { apply (inj_1d yn _ _ Hy). intros dy ky. exact (eq4_in _ _ i (B dy ky) Hi). }
  exact (eq4_in _ _ j R Hj).
Qed.

Theorem unique_3d xn yn zn (C C' : Z -> Z -> Z -> Q) : nd_ok xn -> nd_ok yn -> nd_ok zn ->
  (forall dx dy dz kx ky kz,
     dotv (compv dx (knot_of xn kx)) (fun i => dotv (compv dy (knot_of yn ky)) (fun j =>
       dotv (compv dz (knot_of zn kz)) (fun k => C i j k)))
     == dotv (compv dx (knot_of xn kx)) (fun i => dotv (compv dy (knot_of yn ky)) (fun j =>
       dotv (compv dz (knot_of zn kz)) (fun k => C' i j k)))) ->
  forall i j k, in4 i -> in4 j -> in4 k -> C i j k == C' i j k.
Proof.
  intros Hx Hy Hz E i j k Hi Hj Hk.
  assert (B : forall dy dz ky kz,
              eq4 (fun i => dotv (compv dy (knot_of yn ky)) (fun j => dotv (compv dz (knot_of zn kz)) (fun k => C i j k)))
                  (fun i => dotv (compv dy (knot_of yn ky)) (fun j => dotv (compv dz (knot_of zn kz)) (fun k => C' i j k)))).
  { intros dy dz ky kz. apply (inj_1d xn _ _ Hx). intros dx kx. apply E. }
  assert (B2 : forall dz kz, eq4 (fun j => dotv (compv dz (knot_of zn kz)) (fun k => C i j k))
                                 (fun j => dotv (compv dz (knot_of zn kz)) (fun k => C' i j k))).
  { intros dz kz. apply (inj_1d yn _ _ Hy). intros dy ky. exact (eq4_in _ _ i (B dy dz ky kz) Hi). }
  assert (R : eq4 (fun k => C i j k) (fun k => C' i j k)).
  { apply (inj_1d zn _ _ Hz). intros dz kz. exact (eq4_in _ _ j (B2 dz kz) Hj). }
  exact (eq4_in _ _ k R Hk).
Qed.

(* ---- the de-normalisation loops (Model/C14_System.v: denorm2 / denorm3) followed by the return expression evaluate
   data_delta * P(normalised point) + data_min, P the polynomial with the normalised coefficients ---- *)
Lemma denorm_eval_2d ddelta dmin xdi ydi xmin ymin c px py :
  eval2 (denorm2 ddelta dmin xdi ydi xmin ymin c) px py
  == ddelta * dotv (compv false ((px - xmin) * xdi)) (fun a => dotv (compv false ((py - ymin) * ydi)) (fun b => c a b)) + dmin.
Proof.
  cbv beta iota zeta delta [eval2 line4 denorm2 polyder2 dotv dera compv factq powq Z.eqb andb]. field.
Qed.
Lemma denorm_eval_3d ddelta dmin xdi ydi zdi xmin ymin zmin c px py pz :
  eval3 (denorm3 ddelta dmin xdi ydi zdi xmin ymin zmin c) px py pz
  == ddelta * dotv (compv false ((px - xmin) * xdi)) (fun a => dotv (compv false ((py - ymin) * ydi)) (fun b =>
       dotv (compv false ((pz - zmin) * zdi)) (fun e => c a b e))) + dmin.
Proof.
  cbv beta iota zeta delta [eval3 plane16 line4 denorm3 polyder3 dotv dera compv factq powq Z.eqb andb]. field.
Qed.

(* ---- the code's stored, de-normalised coefficients evaluated by the code's return expression ARE the model's
   evalc2 / evalc3 ---- *)
Lemma dotv_compv_ext t t' g : t == t' -> dotv (compv false t) g == dotv (compv false t') g.
Proof. intros E. unfold dotv, compv. rewrite E. reflexivity. Qed.

Lemma nodes4_ok x top i : increasing x top -> (1 <= i <= top - 2)%Z -> nd_ok (nodes4 (fun u => nrm x top (x u)) i).
Proof.
  intros Hinc Hi. destruct (C14_Dim1.nodes_distinct x top Hinc i Hi) as (N0 & _ & _ & Nt).
  unfold nodes4, nd_ok. rewrite !C14_Dim1.nrm_eq. apply C14_Dim1.scaled_diff_nz; [exact N0|].
  apply C14_Dim1.inv_nz; exact Nt.
Qed.

Theorem code_evaluation_2d x y topx topy fb i j vals px py :
  increasing x topx -> increasing y topy -> (1 <= i <= topx - 2)%Z -> (1 <= j <= topy - 2)%Z -> length vals = 16%nat ->
  evalc2 x y topx topy fb ((i, j), vals) (px, py)
  == eval2 (denorm2 (data_delta fb) (data_min fb) (x_delta_inv x topx) (x_delta_inv y topy) (x 0%Z) (y 0%Z)
              (coef2 (nodes4 (fun u => nrm x topx (x u)) i) (nodes4 (fun v => nrm y topy (y v)) j) (block2 vals))) px py.
Proof.
  intros Hx Hy Hi Hj L. unfold evalc2. cbn [fst snd].
  rewrite (block_value_2d _ _ vals _ _ L (nodes4_ok x topx i Hx Hi) (nodes4_ok y topy j Hy Hj)).
  rewrite dotl_row2. rewrite denorm_eval_2d.
  apply Qplus_comp; [|reflexivity]. apply Qmult_comp; [reflexivity|].
  rewrite (dotv_compv_ext _ _ _ (C14_Dim1.nrm_eq x topx px)). apply dotv_ext. intro a.
  apply (dotv_compv_ext _ _ _ (C14_Dim1.nrm_eq y topy py)).
Qed.

Theorem code_evaluation_3d x y z topx topy topz fb i j k vals px py pz :
  increasing x topx -> increasing y topy -> increasing z topz ->
  (1 <= i <= topx - 2)%Z -> (1 <= j <= topy - 2)%Z -> (1 <= k <= topz - 2)%Z -> length vals = 64%nat ->
  evalc3 x y z topx topy topz fb ((i, j, k), vals) (px, py, pz)
  == eval3 (denorm3 (data_delta fb) (data_min fb) (x_delta_inv x topx) (x_delta_inv y topy) (x_delta_inv z topz)
              (x 0%Z) (y 0%Z) (z 0%Z)
              (coef3 (nodes4 (fun u => nrm x topx (x u)) i) (nodes4 (fun v => nrm y topy (y v)) j)
                     (nodes4 (fun w => nrm z topz (z w)) k) (block3 vals))) px py pz.
Proof.
  intros Hx Hy Hz Hi Hj Hk L. unfold evalc3.
  rewrite (block_value_3d _ _ _ vals _ _ _ L (nodes4_ok x topx i Hx Hi) (nodes4_ok y topy j Hy Hj) (nodes4_ok z topz k Hz Hk)).
  rewrite dotl_row3. rewrite denorm_eval_3d.
  apply Qplus_comp; [|reflexivity]. apply Qmult_comp; [reflexivity|].
  rewrite (dotv_compv_ext _ _ _ (C14_Dim1.nrm_eq x topx px)). apply dotv_ext. intro a.
  rewrite (dotv_compv_ext _ _ _ (C14_Dim1.nrm_eq y topy py)). apply dotv_ext. intro b.
  apply (dotv_compv_ext _ _ _ (C14_Dim1.nrm_eq z topz pz)).
Qed.
