(* Bremsstrahlung with the modelled Gauss-Legendre integrator: facts about the bins of the spectrum itself. *)
Require Import Cherab.Common.Qx Cherab.Model.C03_Passive Cherab.Model.C03_Brems Cherab.Model.C03_Quadrature.
Require Import Cherab.Proofs.C03_Lines Cherab.Proofs.C03_Brems Cherab.Proofs.C03_Quadrature.
From Coq Require Import Lqa.
Open Scope Q_scope.

(* every bin is non-negative for a non-negative Gaunt factor, densities and temperatures of any sign *)
Lemma brems_gq_bins_nonneg C sqrtf expf gaunt roots weights mn mx rtol ne te comp minw delta nbins bins :
  0 <= brems_const C sqrtf -> 0 <= sqrtf te -> (forall x, 0 <= expf x) -> (forall z t w, 0 <= gaunt z t w) ->
  (forall w, In w weights -> 0 <= w) -> 0 < delta ->
  brems_emission C sqrtf expf gaunt (gq_evaluate roots weights mn mx rtol) ne te comp minw delta nbins = Some bins ->
  forall b, In b bins -> 0 <= b.
Proof.
  intros Hk Hs He Hg Hw Hd. unfold brems_emission.
  destruct (Qle_bool ne 0) eqn:E1; [discriminate|]. destruct (Qle_bool te 0) eqn:E2; [discriminate|].
  intros H; injection H as <-. apply Qle_bool_false in E1.
  intros b Hb. eapply (brems_bins_nonneg (gq_evaluate roots weights mn mx rtol)); [exact Hd| | | |exact Hb].
  - intro x. apply brems_nonneg; try assumption. lra.
  - intros a b0 Hab. apply gq_evaluate_nonneg; [exact Hw| |exact Hab].
    intro x. apply brems_nonneg; try assumption. lra.
  - change (inject_Z (0 + 1)) with 1. rewrite Qmult_1_r. lra.
Qed.

Lemma bins_all_zero integ f minw delta : (forall a b, integ f a b == 0) ->
  forall n lower i b, In b (brems_bins_from integ f minw delta lower i n) -> b == 0.
Proof.
  intros HI. induction n as [|n IH]; intros lower i b Hb; [destruct Hb|].
  cbn [brems_bins_from] in Hb. destruct Hb as [<-|Hb]; [rewrite HI; unfold Qdiv; ring|].
  eapply IH; exact Hb.
Qed.

(* a plasma without any ion of positive density (vacuum, neutrals only, all densities <= 0) emits nothing *)
Lemma brems_gq_zero C sqrtf expf gaunt roots weights mn mx rtol ne te comp minw delta nbins bins :
  filter takes_part comp = [] ->
  brems_emission C sqrtf expf gaunt (gq_evaluate roots weights mn mx rtol) ne te comp minw delta nbins = Some bins ->
  forall b, In b bins -> b == 0.
Proof.
  intros Hnone. unfold brems_emission.
  destruct (Qle_bool ne 0); [discriminate|]. destruct (Qle_bool te 0); [discriminate|].
  intros H; injection H as <-. intros b Hb.
  eapply (bins_all_zero (gq_evaluate roots weights mn mx rtol)); [|exact Hb].
  intros a b0. apply gq_evaluate_zero. intro x. rewrite brems_formula, Hnone. cbn [map Qsum]. ring.
Qed.
