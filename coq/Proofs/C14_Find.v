(* find_index / locate1 (Model/C14_Caching.v): which cell a point belongs to. *)
Require Import Cherab.Common.Qx.
Require Import Cherab.Model.C14_Caching.
From Coq Require Import Lqa.
Open Scope Q_scope.

Lemma Qltb_true a b : Qltb a b = true <-> a < b.
Proof.
  unfold Qltb. rewrite negb_true_iff. split.
  - intros H. apply Qnot_le_lt. intro L. apply Qle_bool_iff in L. congruence.
  - intros H. destruct (Qle_bool b a) eqn:E; [|reflexivity]. apply Qle_bool_iff in E. lra.
Qed.
Lemma Qltb_false a b : Qltb a b = false <-> b <= a.
Proof.
  unfold Qltb. rewrite negb_false_iff. apply Qle_bool_iff.
Qed.

Section FindProofs.
  Variable x : Z -> Q.
  Variable top : Z.

  Lemma bisect_spec fuel : forall v bot tp,
    (bot < tp)%Z -> (tp - bot <= Z.of_nat fuel)%Z -> x bot <= v -> v < x tp ->
    let r := bisect x fuel v bot tp in (bot <= r < tp)%Z /\ x r <= v /\ v < x (r + 1)%Z.
  Proof.
    induction fuel as [|k IH]; intros v bot tp Hlt Hfuel Hlo Hhi; cbn [bisect].
    - cbn in Hfuel. lia.
    - destruct (Z.eqb_spec (tp - bot) 1) as [E|E].
      + replace (bot + 1)%Z with tp by lia. repeat split; try lia; assumption.
      + assert (Hm : (bot < (tp + bot) / 2 < tp)%Z).
        { pose proof (Z.div_mod (tp + bot) 2 ltac:(lia)) as DM.
          pose proof (Z.mod_pos_bound (tp + bot) 2 ltac:(lia)) as MB. lia. }
        destruct (Qle_bool (x ((tp + bot) / 2)%Z) v) eqn:C.
        * apply Qle_bool_iff in C.
          destruct (IH v ((tp + bot) / 2)%Z tp) as (R1 & R2 & R3); try assumption; try lia.
          repeat split; try lia; assumption.
        * assert (C' : v < x ((tp + bot) / 2)%Z).
          { apply Qnot_le_lt. intro L. apply Qle_bool_iff in L. congruence. }
          destruct (IH v bot ((tp + bot) / 2)%Z) as (R1 & R2 & R3); try assumption; try lia.
          repeat split; try lia; assumption.
  Qed.

  (* a located cell is a permitted one and contains the point *)
  Lemma locate1_sound v i : (0 < top)%Z -> locate1 x top v = Some i ->
    (1 <= i <= top - 2)%Z /\ x i <= v /\ v < x (i + 1)%Z.
  Proof.
    intros Htop. unfold locate1, permitted.
    destruct ((1 <=? find_index x top v)%Z && (find_index x top v <=? top - 2)%Z) eqn:P; [|discriminate].
    intros [= <-]. apply andb_true_iff in P. destruct P as [P1 P2].
    apply Z.leb_le in P1. apply Z.leb_le in P2. split; [lia|].
    revert P1 P2. unfold find_index, find_index_pad.
    destruct (Qeq_bool v (x 0%Z)); [lia|].
    destruct (Qeq_bool v (x top)) eqn:E2; [lia|].
    destruct (Qltb v (x 0%Z - 0)) eqn:E3; [lia|].
    destruct (Qltb (x top + 0) v) eqn:E4; [lia|].
    destruct (Qltb v (x 0%Z)) eqn:E5; [lia|].
    destruct (Qltb (x top) v) eqn:E6; [lia|].
    intros _ _.
    apply Qltb_false in E5. apply Qltb_false in E6.
    assert (N : ~ v == x top) by (intro F; apply Qeq_bool_iff in F; congruence).
    assert (v < x top) by (apply Qle_lt_or_eq in E6; destruct E6; [assumption|contradiction]).
    destruct (bisect_spec (Z.to_nat top) v 0%Z top) as (_ & R2 & R3); try assumption; try lia.
    split; assumption.
  Qed.

  Hypothesis Hinc : increasing x top.

  Lemma increasing_steps n : forall a, (0 <= a)%Z -> (a + 1 + Z.of_nat n <= top)%Z -> x a < x (a + 1 + Z.of_nat n)%Z.
  Proof.
    induction n as [|n IH]; intros a Ha Hb.
    - replace (a + 1 + Z.of_nat 0)%Z with (a + 1)%Z by lia. apply Hinc. lia.
    - apply Qlt_trans with (x (a + 1 + Z.of_nat n)%Z); [apply IH; lia|].
      replace (a + 1 + Z.of_nat (S n))%Z with (a + 1 + Z.of_nat n + 1)%Z by lia. apply Hinc. lia.
  Qed.

  Lemma increasing_lt a b : (0 <= a)%Z -> (a < b)%Z -> (b <= top)%Z -> x a < x b.
  Proof.
    intros Ha Hab Hb. replace b with (a + 1 + Z.of_nat (Z.to_nat (b - a - 1)))%Z by lia.
    apply increasing_steps; lia.
  Qed.

  Lemma increasing_le a b : (0 <= a)%Z -> (a <= b)%Z -> (b <= top)%Z -> x a <= x b.
  Proof.
    intros Ha Hab Hb. destruct (Z.eq_dec a b) as [->|N]; [apply Qle_refl|].
    apply Qlt_le_weak. apply increasing_lt; lia.
  Qed.

  (* a point of a permitted cell is located in that cell *)
  Lemma locate1_complete v i : (1 <= i <= top - 2)%Z -> x i <= v -> v < x (i + 1)%Z -> locate1 x top v = Some i.
  Proof.
    intros Hi Hlo Hhi.
    assert (H0 : x 0%Z < v) by (apply Qlt_le_trans with (x i); [apply increasing_lt; lia|assumption]).
    assert (Ht : v < x top) by (apply Qlt_le_trans with (x (i + 1)%Z); [assumption|apply increasing_le; lia]).
    assert (F : find_index x top v = i).
    { unfold find_index, find_index_pad.
      destruct (Qeq_bool v (x 0%Z)) eqn:E1; [apply Qeq_bool_iff in E1; lra|].
      destruct (Qeq_bool v (x top)) eqn:E2; [apply Qeq_bool_iff in E2; lra|].
      destruct (Qltb v (x 0%Z - 0)) eqn:E3; [apply Qltb_true in E3; lra|].
      destruct (Qltb (x top + 0) v) eqn:E4; [apply Qltb_true in E4; lra|].
      destruct (Qltb v (x 0%Z)) eqn:E5; [apply Qltb_true in E5; lra|].
      destruct (Qltb (x top) v) eqn:E6; [apply Qltb_true in E6; lra|].
      destruct (bisect_spec (Z.to_nat top) v 0%Z top) as (R1 & R2 & R3); try lia; try lra.
      set (r := bisect x (Z.to_nat top) v 0%Z top) in *.
      destruct (Z.lt_trichotomy r i) as [L|[L|L]]; [|exact L|].
      - assert (x (r + 1)%Z <= x i) by (apply increasing_le; lia). lra.
      - assert (x (i + 1)%Z <= x r) by (apply increasing_le; lia). lra. }
    unfold locate1, permitted. rewrite F.
    replace ((1 <=? i)%Z && (i <=? top - 2)%Z) with true; [reflexivity|].
    symmetry. apply andb_true_iff. split; apply Z.leb_le; lia.
  Qed.

  (* outside the permitted cells: below the first sampling node or from the last one on *)
  Lemma locate1_outside v : (0 < top)%Z -> v < x 1%Z \/ x (top - 1)%Z <= v -> locate1 x top v = None.
  Proof.
    intros Htop H. destruct (locate1 x top v) as [i|] eqn:E; [|reflexivity].
    destruct (locate1_sound v i Htop E) as (Hi & Hlo & Hhi).
    assert (x 1%Z <= x i) by (apply increasing_le; lia).
    assert (x (i + 1)%Z <= x (top - 1)%Z) by (apply increasing_le; lia).
    destruct H; lra.
  Qed.
End FindProofs.

Lemma locate1_inside x top v : increasing x top -> (3 <= top)%Z -> x 1%Z <= v -> v < x (top - 1)%Z ->
  exists i, locate1 x top v = Some i.
Proof.
  intros Hinc Htop Hlo Hhi.
  assert (H0 : x 0%Z < v) by (apply Qlt_le_trans with (x 1%Z); [apply (increasing_lt x top Hinc); lia|assumption]).
  assert (Ht : v < x top) by (apply Qlt_trans with (x (top - 1)%Z); [assumption|apply (increasing_lt x top Hinc); lia]).
  destruct (bisect_spec x (Z.to_nat top) v 0%Z top) as (R1 & R2 & R3); try lia; try lra.
  set (r := bisect x (Z.to_nat top) v 0%Z top) in *.
  assert (Hr : (1 <= r <= top - 2)%Z).
  { split.
    - destruct (Z_lt_le_dec r 1) as [L|L]; [|exact L].
      assert (x (r + 1)%Z <= x 1%Z) by (apply (increasing_le x top Hinc); lia). lra.
    - destruct (Z_lt_le_dec (top - 2) r) as [L|L]; [|exact L].
      assert (x (top - 1)%Z <= x r) by (apply (increasing_le x top Hinc); lia). lra. }
  exists r. apply (locate1_complete x top Hinc); assumption.
Qed.
