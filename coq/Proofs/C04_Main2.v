(* C04, deepening round: lemmas of C04_More / C04_Policy in the form stated in Properties/C04.v. *)
Require Import Cherab.Common.Qx.
From Coq Require Import Lqa Qround Permutation.
Require Import Cherab.Model.C04_Beam Cherab.Model.C04_Policy.
Require Import Cherab.Proofs.C04_Trapz Cherab.Proofs.C04_Density Cherab.Proofs.C04_More Cherab.Proofs.C04_Policy Cherab.Proofs.C04_Main.
Open Scope Q_scope.

(* at every axis node the line density is exactly the node value P/(E m e)/v * exp(-T_i/v) *)
Lemma main_at_nodes sqrtf expf c n z y :
  0 < b_len c -> (2 <= n)%Z -> In (z, y) (line_nodes_n sqrtf expf c n) ->
  lin_interp (line_nodes_n sqrtf expf c n) z == y.
Proof.
  intros Hl Hn Hin. apply (lin_interp_at_knot (fun _ _ => True)); [|exact Hin].
  unfold line_nodes_n. apply nodes_list_ok_combine; [apply beam_z_increasing; assumption | apply chained_True].
Qed.

Lemma main_nodes_layout c :
  (4 <= nbeam c)%Z /\ node_z c (nbeam c) 0 == 0 /\ node_z c (nbeam c) (nbeam c - 1) == b_len c /\
  (0 < b_len c -> chained Qlt (beam_z c)) /\
  (0 < b_len c -> 0 < a_step c -> b_len c / inject_Z (nbeam c - 1) <= a_step c).
Proof.
  pose proof (nbeam_ge_4 c) as H4.
  repeat split; [exact H4 | apply node_first | apply node_last; lia | | apply node_spacing_le_step].
  intros Hl. apply beam_z_increasing; [exact Hl | lia].
Qed.

Lemma main_peak sqrtf expf c nd x y z :
  sqrt_like sqrtf -> exp_like expf -> cfg_valid c -> 0 <= lin_interp nd z ->
  0 <= beam_density_with sqrtf expf nd c x y z /\
  beam_density_with sqrtf expf nd c x y z <= beam_density_with sqrtf expf nd c 0 0 z.
Proof.
  intros (S1 & S2) (E1 & E2 & E3 & E4) (V1 & V2 & V3 & V4 & V5 & V6 & V7 & V8) HL. split.
  - apply (density_nonneg sqrtf expf S1 E1 c V1 V3 nd x y z HL).
  - apply (density_peaks_on_axis sqrtf expf S1 E1 E2 E3 c V1 V3 nd x y z HL).
Qed.

(* integral_like without the normalisation of the full Gaussian *)
Definition integral_laws (I2 : (Q -> Q -> Q) -> Q) : Prop :=
  (forall f g, (forall x y, f x y == g x y) -> I2 f == I2 g) /\
  (forall k f, I2 (fun x y => k * f x y) == k * I2 f) /\
  (forall g sx sy, 0 < sx -> 0 < sy -> I2 (fun x y => g (x / sx) (y / sy) / (sx * sy)) == I2 g).

Lemma main_flux_clamped sqrtf expf c I2 z :
  sqrt_like sqrtf -> exp_like expf -> cfg_valid c -> integral_laws I2 ->
  0 <= z -> z <= b_len c -> a_clamp c = true ->
  I2 (fun x y => beam_density sqrtf expf c x y z) == line_density sqrtf expf c z * I2 (gauss2_clamped expf c)
  /\ (I2 (gauss2_clamped expf c) == 1 - expf (- (1 # 2) * (a_clamp_sigma c * a_clamp_sigma c)) ->
      I2 (fun x y => beam_density sqrtf expf c x y z) ==
      line_density sqrtf expf c z * (1 - expf (- (1 # 2) * (a_clamp_sigma c * a_clamp_sigma c)))).
Proof.
  intros (S1 & S2) (E1 & E2 & E3 & E4) (V1 & V2 & V3 & V4 & V5 & V6 & V7 & V8) (I_1 & I_2 & I_3) H0 H1 Hc.
  assert (F : I2 (fun x y => beam_density sqrtf expf c x y z) == line_density sqrtf expf c z * I2 (gauss2_clamped expf c)).
  { unfold beam_density, line_density. apply (flux_clamped sqrtf expf S1 E3 c V1 V3 I2 I_1 I_2 I_3 _ z H0 H1 Hc). }
  split; [exact F|]. intros T. rewrite F, T. reflexivity.
Qed.

Lemma main_settings ops :
  settings_valid initial /\
  (forall st, settings_valid st -> settings_valid (fst (run_sets st ops))) /\
  (forall st f v, accepts f v = false -> set_field st f v = (st, false)) /\
  (forall st f v, accepts f v = true ->
     stored (fst (set_field st f v)) f = (match f with FClampSigma => v * v | _ => v end) /\
     forall g, field_eqb g f = false -> stored (fst (set_field st f v)) g = stored st g).
Proof.
  split; [apply initial_valid|]. split; [intros; apply run_sets_valid; assumption|].
  split; [intros; apply rejected_changes_nothing; assumption|].
  intros st f v E. apply accepted_write_wins, E.
Qed.

Lemma main_facts sqrtf expf nd c x y z sx sy r2 :
  nbeam c = Z.max (fst (cf_nbeam model_facts) + Qceiling (b_len c / a_step c)) (snd (cf_nbeam model_facts)) /\
  beam_density_with sqrtf expf nd c x y z =
    (if cmp_holds (fst (cf_density_zero model_facts)) z 0 || cmp_holds (snd (cf_density_zero model_facts)) z (b_len c)
     then 0 else attenuator_density_with sqrtf expf nd c x y z) /\
  direction sqrtf c x y z =
    (if cmp_holds (cf_direction_axis model_facts) z 0 then mkvec 0 0 1 else normalise sqrtf (direction_raw c x y z)) /\
  clamped sqrtf c x y z = a_clamp c && cmp_holds (cf_clamp model_facts) (norm_radius_sqr sqrtf c x y z) (clamp_sigma_sqr c) /\
  gaussian_of expf c sx sy r2 = expf (fst (cf_gauss model_facts) * r2) / (snd (cf_gauss model_facts) * k_pi c * sx * sy) /\
  (forall f v, accepts f v = negb (cmp_holds (reject_op f) v 0)) /\
  (0 <= z -> z <= b_len c ->
   attenuator_density_direct sqrtf expf nd c x y z = Some (beam_density_with sqrtf expf nd c x y z)).
Proof. repeat split. apply direct_agrees. Qed.
