(* C16: the reduced-fraction evaluator used by the calibrate correspondence equals the model. *)
Require Import Cherab.Common.Qx.
Require Import Cherab.Model.C16_Instruments Cherab.Model.C16_Check.
From Coq Require Import Lqa.
Open Scope Q_scope.

Lemma qle_bool_false' a b : Qle_bool a b = false -> b < a.
Proof. intros H. apply Qnot_le_lt. intros L. apply Qle_bool_iff in L. congruence. Qed.

(* a segment entirely to one side of [a,b] contributes nothing *)
Lemma seg_outside_zero x0 y0 x1 y1 a b : seg_outside x0 x1 a b = true -> seg_integral x0 y0 x1 y1 a b == 0.
Proof.
  unfold seg_outside. intros H. apply andb_prop in H as [H01 H]. apply Qle_bool_iff in H01.
  unfold seg_integral. generalize ((y1 - y0) / (x1 - x0)). intros m.
  apply orb_prop in H as [H|H]; apply andb_prop in H as [Ha Hb].
  - unfold clamp. rewrite Ha, Hb. ring.
  - apply Qle_bool_iff in Ha, Hb.
    assert (forall t, x1 <= t -> clamp x0 x1 t == x1) as Hc.
    { intros t Ht. unfold clamp. destruct (Qle_bool t x0) eqn:E.
      - apply Qle_bool_iff in E. lra.
      - assert (Qle_bool x1 t = true) as -> by (apply Qle_bool_iff, Ht). reflexivity. }
    rewrite (Hc a Ha), (Hc b Hb). ring.
Qed.

Lemma segs_integral_red_ok xs : forall ys a b, segs_integral_red xs ys a b == segs_integral xs ys a b.
Proof.
  induction xs as [|x0 xt IH]; intros ys a b; [reflexivity|].
  destruct xt as [|x1 xt']; [destruct ys; reflexivity|].
  destruct ys as [|y0 [|y1 yt']]; try reflexivity.
  change (segs_integral (x0 :: x1 :: xt') (y0 :: y1 :: yt') a b)
    with (seg_integral x0 y0 x1 y1 a b + segs_integral (x1 :: xt') (y1 :: yt') a b).
  change (segs_integral_red (x0 :: x1 :: xt') (y0 :: y1 :: yt') a b)
    with (if seg_outside x0 x1 a b then segs_integral_red (x1 :: xt') (y1 :: yt') a b
          else Qred (Qred (seg_integral x0 y0 x1 y1 a b) + segs_integral_red (x1 :: xt') (y1 :: yt') a b)).
  destruct (seg_outside x0 x1 a b) eqn:E.
  - rewrite (seg_outside_zero _ y0 _ y1 _ _ E), IH. ring.
  - rewrite Qred_correct, Qred_correct, IH. reflexivity.
Qed.

Lemma pl_integral_red_ok xs ys a b : pl_integral_red xs ys a b == pl_integral xs ys a b.
Proof. unfold pl_integral_red, pl_integral. rewrite Qred_correct, segs_integral_red_ok. reflexivity. Qed.
