(* C16: the reduced-fraction evaluator used by the calibrate correspondence equals the model. *)
Require Import Cherab.Common.Qx.
Require Import Cherab.Model.C16_Instruments Cherab.Model.C16_Check.
Open Scope Q_scope.

Lemma segs_integral_red_ok xs : forall ys a b, segs_integral_red xs ys a b == segs_integral xs ys a b.
Proof.
  induction xs as [|x0 xt IH]; intros ys a b; [reflexivity|].
  destruct xt as [|x1 xt']; [destruct ys; reflexivity|].
  destruct ys as [|y0 [|y1 yt']]; try reflexivity.
  change (Qred (Qred (seg_integral x0 y0 x1 y1 a b) + segs_integral_red (x1 :: xt') (y1 :: yt') a b)
          == seg_integral x0 y0 x1 y1 a b + segs_integral (x1 :: xt') (y1 :: yt') a b).
  rewrite Qred_correct, Qred_correct, IH. reflexivity.
Qed.

Lemma pl_integral_red_ok xs ys a b : pl_integral_red xs ys a b == pl_integral xs ys a b.
Proof. unfold pl_integral_red, pl_integral. rewrite Qred_correct, segs_integral_red_ok. reflexivity. Qed.
