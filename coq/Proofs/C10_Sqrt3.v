(* The model's sign test for numbers a + b sqrt 3 (sign_q3) is the sign of that real number, and therefore the model's
   own half-plane tests against the sector borders at multiples of 30 / 45 degrees are convex conditions on the parameter
   of a straight line.  Uses the real numbers of the standard library (classical Dedekind reals). *)
Require Import Cherab.Common.Qx.
Require Import Cherab.Model.C10_RayTransfer Cherab.Proofs.C10_Chord Cherab.Proofs.C10_Cyl.
From Coq Require Import Reals Qreals Psatz.
Open Scope R_scope.

Definition s3 : R := sqrt 3.
Lemma s3_pos : 0 < s3.
Proof. unfold s3. apply sqrt_lt_R0. lra. Qed.
Lemma s3_sq : s3 * s3 = 3.
Proof. unfold s3. apply sqrt_sqrt. lra. Qed.

Definition val3 (v : q3) : R := Q2R (fst v) + Q2R (snd v) * s3.

Lemma Q2R_0 : Q2R 0 = 0.
Proof. unfold Q2R. simpl. lra. Qed.
Lemma Q2R_3 : Q2R 3 = 3.
Proof. unfold Q2R. simpl. lra. Qed.

Lemma sgn_cases (a : Q) :
  (0 < Q2R a /\ sgn a = 1%Z) \/ (Q2R a = 0 /\ sgn a = 0%Z) \/ (Q2R a < 0 /\ sgn a = (-1)%Z).
Proof.
  unfold sgn. destruct (Qltb 0 a) eqn:E1.
  - left. apply Qltb_lt in E1. apply Qlt_Rlt in E1. rewrite Q2R_0 in E1. auto.
  - apply Qltb_ge in E1. destruct (Qltb a 0) eqn:E2.
    + right; right. apply Qltb_lt in E2. apply Qlt_Rlt in E2. rewrite Q2R_0 in E2. auto.
    + right; left. apply Qltb_ge in E2. apply Qle_Rle in E1. apply Qle_Rle in E2. rewrite Q2R_0 in *. split; [lra | reflexivity].
Qed.

(* sign_q3 is the sign of a + b sqrt 3 *)
Lemma sign_q3_spec (v : q3) :
  (sign_q3 v = 1%Z <-> 0 < val3 v) /\ (sign_q3 v = (-1)%Z <-> val3 v < 0) /\ (sign_q3 v = 0%Z <-> val3 v = 0).
Proof.
  destruct v as [a b]. unfold val3, sign_q3. cbn [fst snd].
  pose proof s3_pos as Hs. pose proof s3_sq as Hq.
  assert (Hd : Q2R (a * a - 3 * b * b) = Q2R a * Q2R a - 3 * (Q2R b * Q2R b)).
  { unfold Qminus. rewrite Q2R_plus, Q2R_opp, !Q2R_mult, Q2R_3. ring. }
  assert (Hf : (Q2R a + Q2R b * s3) * (Q2R a - Q2R b * s3) = Q2R a * Q2R a - 3 * (Q2R b * Q2R b)).
  { replace 3 with (s3 * s3) by exact Hq. ring. }
  set (ra := Q2R a) in *. set (rb := Q2R b) in *.
  destruct (sgn_cases a) as [[Ha ->]|[[Ha ->]|[Ha ->]]];
    destruct (sgn_cases b) as [[Hb ->]|[[Hb ->]|[Hb ->]]];
    fold ra in Ha; fold rb in Hb;
    destruct (sgn_cases (a * a - 3 * b * b)) as [[Hc ->]|[[Hc ->]|[Hc ->]]];
    rewrite Hd in Hc; cbn;
    repeat split; intros H;
    first [ discriminate | reflexivity | nra
          | assert (Hm : 0 < ra - rb * s3) by nra; nra
          | assert (Hm : ra - rb * s3 < 0) by nra; nra
          | exfalso; assert (Hm : 0 < ra - rb * s3) by nra; nra
          | exfalso; assert (Hm : ra - rb * s3 < 0) by nra; nra
          | assert (Hm : 0 < ra - rb * s3) by nra; rewrite Hc in Hf; destruct (Rmult_integral _ _ Hf); lra
          | assert (Hm : ra - rb * s3 < 0) by nra; rewrite Hc in Hf; destruct (Rmult_integral _ _ Hf); lra ].
Qed.

(* the value of the model's cross product test along a line is an affine function of the parameter *)
Lemma val3_cross_affine (u : q3 * q3) (x0 dx y0 dy t : Q) :
  val3 (cross3 u (x0 + dx * t)%Q (y0 + dy * t)%Q) =
  val3 (cross3 u x0 y0) + val3 (cross3 u dx dy) * Q2R t.
Proof.
  destruct u as [[a b] [c d]]. unfold val3, cross3. cbn [fst snd].
  unfold Qminus. rewrite !Q2R_plus, !Q2R_opp, !Q2R_mult, !Q2R_plus, !Q2R_mult. ring.
Qed.

Lemma affine_pos_convex (al be a t b : R) : a <= t -> t <= b -> 0 < al + be * a -> 0 < al + be * b -> 0 < al + be * t.
Proof. intros H1 H2 Ha Hb. destruct (Rle_or_lt 0 be); nra. Qed.
Lemma affine_nonneg_convex (al be a t b : R) : a <= t -> t <= b -> 0 <= al + be * a -> 0 <= al + be * b -> 0 <= al + be * t.
Proof. intros H1 H2 Ha Hb. destruct (Rle_or_lt 0 be); nra. Qed.
Lemma affine_neg_convex (al be a t b : R) : a <= t -> t <= b -> al + be * a < 0 -> al + be * b < 0 -> al + be * t < 0.
Proof. intros H1 H2 Ha Hb. destruct (Rle_or_lt 0 be); nra. Qed.

Lemma sign_q3_nonneg (v : q3) : sign_q3 v <> (-1)%Z <-> 0 <= val3 v.
Proof.
  destruct (sign_q3_spec v) as (_ & Hn & _). split.
  - intros H. destruct (Rle_or_lt 0 (val3 v)) as [G|G]; [exact G|]. exfalso. apply H. apply Hn. exact G.
  - intros H E. apply Hn in E. lra.
Qed.

(* the model's half-plane tests against a sector border u, along the line (x0 + dx t, y0 + dy t) *)
Lemma halfplane_left_convex u x0 dx y0 dy :      (* strictly counter-clockwise of the border *)
  convex (fun t => sign_q3 (cross3 u (x0 + dx * t)%Q (y0 + dy * t)%Q) = 1%Z).
Proof.
  intros a b t Hat Htb Ha Hb. apply Qle_Rle in Hat. apply Qle_Rle in Htb.
  apply (proj1 (sign_q3_spec _)) in Ha. apply (proj1 (sign_q3_spec _)) in Hb. apply (proj1 (sign_q3_spec _)).
  rewrite val3_cross_affine in *. eapply affine_pos_convex; eassumption.
Qed.
Lemma halfplane_left_closed_convex u x0 dx y0 dy :   (* on or counter-clockwise of the border *)
  convex (fun t => sign_q3 (cross3 u (x0 + dx * t)%Q (y0 + dy * t)%Q) <> (-1)%Z).
Proof.
  intros a b t Hat Htb Ha Hb. apply Qle_Rle in Hat. apply Qle_Rle in Htb.
  apply sign_q3_nonneg in Ha. apply sign_q3_nonneg in Hb. apply sign_q3_nonneg.
  rewrite val3_cross_affine in *. eapply affine_nonneg_convex; eassumption.
Qed.
Lemma halfplane_right_convex u x0 dx y0 dy :     (* strictly clockwise of the border *)
  convex (fun t => sign_q3 (cross3 u (x0 + dx * t)%Q (y0 + dy * t)%Q) = (-1)%Z).
Proof.
  intros a b t Hat Htb Ha Hb. apply Qle_Rle in Hat. apply Qle_Rle in Htb.
  destruct (sign_q3_spec (cross3 u (x0 + dx * a)%Q (y0 + dy * a)%Q)) as (_ & Na & _).
  destruct (sign_q3_spec (cross3 u (x0 + dx * b)%Q (y0 + dy * b)%Q)) as (_ & Nb & _).
  destruct (sign_q3_spec (cross3 u (x0 + dx * t)%Q (y0 + dy * t)%Q)) as (_ & Nt & _).
  apply Na in Ha. apply Nb in Hb. apply Nt.
  rewrite val3_cross_affine in *. eapply affine_neg_convex; eassumption.
Qed.

(* a sector of less than a half turn between two borders of the model's table (udir), decided by the model's own
   sign tests: on or counter-clockwise of the first border, strictly clockwise of the second *)
Definition in_wedge (u1 u2 : q3 * q3) (x0 dx y0 dy t : Q) : Prop :=
  sign_q3 (cross3 u1 (x0 + dx * t)%Q (y0 + dy * t)%Q) <> (-1)%Z /\
  sign_q3 (cross3 u2 (x0 + dx * t)%Q (y0 + dy * t)%Q) = (-1)%Z.

Lemma wedge_convex u1 u2 x0 dx y0 dy : convex (in_wedge u1 u2 x0 dx y0 dy).
Proof. apply convex_and; [apply halfplane_left_closed_convex | apply halfplane_right_convex]. Qed.

(* a cell of a cylindrical grid with nphi > 1: ring x slab x wedge between two borders at multiples of 30 / 45 degrees,
   all tests being the model's own: a straight line meets it in at most two intervals *)
Lemma cyl_sector_cell_two_runs (u1 u2 : q3 * q3) (x0 dx y0 dy z0 dz rlo rhi zlo zhi : Q) :
  let S := in_cyl_region x0 dx y0 dy z0 dz rlo rhi zlo zhi (in_wedge u1 u2 x0 dx y0 dy) in
  forall t1 t2 t3 t4 t5 : Q, (t1 < t2)%Q -> (t2 < t3)%Q -> (t3 < t4)%Q -> (t4 < t5)%Q ->
  S t1 -> ~ S t2 -> S t3 -> ~ S t4 -> S t5 -> False.
Proof. apply cyl_region_two_runs. apply wedge_convex. Qed.
