(* The loops of the model (fold_left with the code's accumulators) compute the closed sums of the
   specification, for lists of every length. *)
Require Import Cherab.Common.Qx.
Require Import Cherab.Model.C05_BeamModels.
Require Import Cherab.Proofs.C05_Mean.
From Coq Require Import Lqa.
Open Scope Q_scope.

Lemma nz_correct q : nz q == q.
Proof. apply Qred_correct. Qed.

Lemma some_inj (a b : Q) : Some a = Some b -> a = b.
Proof. congruence. Qed.
Lemma addline_inj a b : AddLine a = AddLine b -> a = b.
Proof. congruence. Qed.

Lemma Qsum_map_ext {A} (f g : A -> Q) l :
  (forall x, In x l -> f x == g x) -> Qsum (map f l) == Qsum (map g l).
Proof.
  induction l as [|x l IH]; intros H; simpl; [reflexivity|].
  rewrite (H x (or_introl eq_refl)), IH; [reflexivity | intros; apply H; right; assumption].
Qed.

Lemma fold_left_sum {A} (f : A -> Q) l a :
  fold_left (fun a s => nz (a + f s)) l a == a + Qsum (map f l).
Proof.
  revert a. induction l as [|x l IH]; intros a; cbn [fold_left map Qsum]; [ring | rewrite IH, nz_correct; ring].
Qed.

(* ---- Plasma.ion_density, density_sum ------------------------------------------------------------ *)
Lemma ion_density_spec sps : ion_density sps == spec_ion_density sps.
Proof. unfold ion_density, spec_ion_density. rewrite fold_left_sum. ring. Qed.

Lemma density_sum_spec sps : density_sum sps == spec_density_sum sps.
Proof.
  unfold density_sum, spec_density_sum.
  rewrite (fold_left_sum (fun s => zq s * zq s * dens s)). ring.
Qed.

(* ---- Plasma.z_effective --------------------------------------------------------------------------- *)
Lemma zeff_fold l acc :
  fst (fold_left zeff_step l acc) == fst acc + Qsum (map (fun s => dens s * zq s) (ionised l)) /\
  snd (fold_left zeff_step l acc) == snd acc + Qsum (map (fun s => dens s * zq s * zq s) (ionised l)).
Proof.
  revert acc. induction l as [|s l IH]; intros acc; cbn [fold_left ionised filter].
  - cbn [map Qsum]. split; ring.
  - destruct (IH (zeff_step acc s)) as [H1 H2]. rewrite H1, H2. unfold zeff_step. fold (ionised l).
    destruct (0 <? charge s)%Z; cbn [fst snd map Qsum]; rewrite ?nz_correct; split; ring.
Qed.

Lemma zeff_sums_spec sps :
  fst (zeff_sums sps) == Qsum (map (fun s => dens s * zq s) (ionised sps)) /\
  snd (zeff_sums sps) == Qsum (map (fun s => dens s * zq s * zq s) (ionised sps)).
Proof. unfold zeff_sums. destruct (zeff_fold sps (0, 0)) as [H1 H2]. rewrite H1, H2. simpl. split; ring. Qed.

Lemma z_effective_spec sps z : z_effective sps = Some z -> z == spec_zeff sps.
Proof.
  unfold z_effective, spec_zeff. destruct (Qeq_bool (snd (zeff_sums sps)) 0); [discriminate|].
  intros H. apply some_inj in H. subst z. destruct (zeff_sums_spec sps) as [H1 H2]. rewrite nz_correct, H1, H2. reflexivity.
Qed.

Lemma z_effective_none sps :
  z_effective sps = None <-> Qsum (map (fun s => dens s * zq s * zq s) (ionised sps)) == 0.
Proof.
  unfold z_effective. destruct (zeff_sums_spec sps) as [_ H2].
  destruct (Qeq_bool (snd (zeff_sums sps)) 0) eqn:E.
  - apply Qeq_bool_iff in E. rewrite <- H2. split; [intros _; assumption | reflexivity].
  - apply Qeq_bool_neq in E. rewrite <- H2. split; [discriminate | intros; contradiction].
Qed.

Lemma zq_pos s : (0 <? charge s)%Z = true -> 0 < zq s.
Proof.
  intros H. apply Z.ltb_lt in H. unfold zq. change 0 with (inject_Z 0). rewrite <- Zlt_Qlt. assumption.
Qed.

Lemma in_ionised s sps : In s (ionised sps) <-> In s sps /\ (0 < charge s)%Z.
Proof. unfold ionised. rewrite filter_In, Z.ltb_lt. reflexivity. Qed.

(* Z_eff is a mean of the charges weighted by the (non-negative) charge densities *)
Lemma z_effective_between sps z lo hi :
  (forall s, In s sps -> (0 < charge s)%Z -> 0 <= dens s /\ lo <= zq s <= hi) ->
  z_effective sps = Some z -> lo <= z <= hi.
Proof.
  intros Hs Hz. pose proof (z_effective_spec sps z Hz) as Hspec.
  assert (Hnz : ~ Qsum (map (fun s => dens s * zq s * zq s) (ionised sps)) == 0).
  { intros H0. apply z_effective_none in H0. congruence. }
  set (l := map (fun s => (dens s * zq s, zq s)) (ionised sps)).
  assert (Hl : forall p, In p l -> 0 <= fst p /\ (0 < fst p -> lo <= snd p <= hi)).
  { intros p Hp. unfold l in Hp. apply in_map_iff in Hp. destruct Hp as [s [<- Hin]].
    apply in_ionised in Hin. destruct Hin as [Hin Hc]. destruct (Hs s Hin Hc) as [Hd Hb].
    assert (0 < zq s) by (apply zq_pos, Z.ltb_lt; assumption). simpl. split; [nra | intros _; assumption]. }
  assert (Ews : wsum l == Qsum (map (fun s => dens s * zq s * zq s) (ionised sps))).
  { unfold wsum, l. rewrite map_map. apply Qsum_map_ext. intros; simpl; ring. }
  assert (Ewt : wtot l == Qsum (map (fun s => dens s * zq s) (ionised sps))).
  { unfold wtot, l. rewrite map_map. apply Qsum_map_ext. intros; simpl; ring. }
  assert (Hpos : 0 < wtot l).
  { pose proof (wtot_nonneg l (fun p Hp => proj1 (Hl p Hp))) as H0.
    destruct (Qlt_le_dec 0 (wtot l)) as [|Hle]; [assumption|]. exfalso.
    destruct (wsum_between l lo hi Hl) as [B1 B2]. apply Hnz. rewrite <- Ews.
    assert (E0 : wtot l == 0) by lra. rewrite E0 in B1, B2. lra. }
  rewrite Hspec. unfold spec_zeff. rewrite <- Ews, <- Ewt. apply wmean_bounds; assumption.
Qed.

Section WithSqrt.
  Variable sqrt : Q -> Q.
  Variable K : consts.

  (* ---- _beam_population ------------------------------------------------------------------------- *)
  Lemma pop_fold bv dsum pd acc :
    fst (fold_left (pop_step sqrt K bv dsum) pd acc) ==
      fst acc + Qsum (map (fun sc => dens (fst sc) * zq (fst sc) * apply3 (snd sc) (args3 sqrt K bv dsum (fst sc))) pd) /\
    snd (fold_left (pop_step sqrt K bv dsum) pd acc) ==
      snd acc + Qsum (map (fun sc => dens (fst sc) * zq (fst sc)) pd).
  Proof.
    revert acc. induction pd as [|sc pd IH]; intros acc; cbn [fold_left map Qsum].
    - split; ring.
    - destruct (IH (pop_step sqrt K bv dsum acc sc)) as [H1 H2]. rewrite H1, H2.
      unfold pop_step. cbn [fst snd]. rewrite !nz_correct. split; ring.
  Qed.

  Lemma coeff_value_model bv (pd : list (species * rate3)) (sc : species * rate3) :
    proper3 (snd sc) ->
    apply3 (snd sc) (args3 sqrt K bv (density_sum (map fst pd)) (fst sc)) == coeff_value sqrt K bv (map fst pd) sc.
  Proof.
    intros Hp. unfold apply3, args3, coeff_value. apply Hp; try reflexivity.
    rewrite nz_correct, density_sum_spec. reflexivity.
  Qed.

  Lemma beam_population_spec bv pd :
    (forall sc, In sc pd -> proper3 (snd sc)) ->
    beam_population sqrt K bv pd == spec_population sqrt K bv pd.
  Proof.
    intros Hp. unfold beam_population, spec_population.
    destruct (pop_fold bv (density_sum (map fst pd)) pd (0, 0)) as [H1 H2]. rewrite nz_correct, H1, H2. cbn [fst snd].
    rewrite !Qplus_0_l.
    rewrite (Qsum_map_ext _ (fun sf => dens (fst sf) * zq (fst sf) * coeff_value sqrt K bv (map fst pd) sf)).
    - reflexivity.
    - intros sc Hin. cbv beta. rewrite coeff_value_model; [reflexivity | apply Hp; assumption].
  Qed.

  (* ---- _composite_cx_rate ------------------------------------------------------------------------- *)
  Lemma comp_fold bv a5 exs acc :
    fst (fold_left (comp_step sqrt K bv a5) exs acc) ==
      fst acc + Qsum (map (fun ex => beam_population sqrt K bv (snd ex) * apply5 (fst ex) a5) exs) /\
    snd (fold_left (comp_step sqrt K bv a5) exs acc) ==
      snd acc + Qsum (map (fun ex => beam_population sqrt K bv (snd ex)) exs).
  Proof.
    revert acc. induction exs as [|ex exs IH]; intros acc; cbn [fold_left map Qsum].
    - split; ring.
    - destruct (IH (comp_step sqrt K bv a5 acc ex)) as [H1 H2]. rewrite H1, H2.
      unfold comp_step. cbn [fst snd]. rewrite !nz_correct. split; ring.
  Qed.

  (* ---- _populate_cache ----------------------------------------------------------------------------- *)
  Lemma cache_fold sps rates g ex :
    fold_left (cache_step sps) rates (g, ex) =
    (fold_left (fun g r => if (fst (fst r) =? 1)%Z then Some (snd (fst r)) else g) rates g,
     ex ++ map (fun e => (fst e, combine sps (snd e))) (excited_of rates)).
  Proof.
    revert g ex. induction rates as [|[[m f] cs] rates IH]; intros g ex; simpl.
    - rewrite app_nil_r. reflexivity.
    - unfold excited_of. simpl. destruct (m =? 1)%Z; simpl.
      + rewrite IH. reflexivity.
      + rewrite IH. unfold excited_of. rewrite <- app_assoc. reflexivity.
  Qed.

  Lemma populate_cache_spec sps rates :
    populate_cache sps rates =
    (ground_of rates, map (fun e => (fst e, combine sps (snd e))) (excited_of rates)).
  Proof. unfold populate_cache. rewrite cache_fold. reflexivity. Qed.

  (* ---- _beam_emission_rate -------------------------------------------------------------------------- *)
  Lemma bes_fold bv dsum rl a :
    fold_left (bes_step sqrt K bv dsum) rl a ==
    a + Qsum (map (fun sc => dens (fst sc) * zq (fst sc) * apply3 (snd sc) (args3 sqrt K bv dsum (fst sc))) rl).
  Proof.
    revert a. induction rl as [|sc rl IH]; intros a; cbn [fold_left map Qsum]; [ring|].
    rewrite IH. unfold bes_step. rewrite nz_correct. ring.
  Qed.

  Lemma beam_emission_rate_spec bv rl :
    (forall sc, In sc rl -> proper3 (snd sc)) ->
    beam_emission_rate sqrt K bv rl ==
    Qsum (map (fun sf => zq (fst sf) * dens (fst sf) * coeff_value sqrt K bv (map fst rl) sf) rl).
  Proof.
    intros Hp. unfold beam_emission_rate. rewrite bes_fold. rewrite Qplus_0_l.
    apply Qsum_map_ext. intros sc Hin. cbv beta. rewrite coeff_value_model; [ring | apply Hp; assumption].
  Qed.
End WithSqrt.
