(* Lemmas about the Gauss-Legendre integrator model (Model/C03_Quadrature.v), for arbitrary caches of roots/weights. *)
Require Import Cherab.Common.Qx Cherab.Model.C03_Quadrature Cherab.Proofs.C03_Lines.
From Coq Require Import Qabs Lqa.
Open Scope Q_scope.

Lemma In_firstn_in {A} (x : A) : forall n l, In x (firstn n l) -> In x l.
Proof.
  induction n as [|n IH]; intros l H; [destruct H|]. destruct l as [|y t]; [destruct H|].
  cbn [firstn] in H. destruct H as [H|H]; [left; exact H|right; apply IH; exact H].
Qed.

Lemma In_skipn_in {A} (x : A) : forall n l, In x (skipn n l) -> In x l.
Proof.
  induction n as [|n IH]; intros l H; [exact H|]. destruct l as [|y t]; [destruct H|].
  cbn [skipn] in H. right; apply IH; exact H.
Qed.

Section GQProofs.
  Variables roots weights : list Q.
  Notation rule := (rule roots weights).
  Notation gq_loop := (gq_loop roots weights).

  Definition nodes (ibegin order : nat) : list (Q * Q) := combine (slice roots ibegin order) (slice weights ibegin order).

  (* the inner loop is the weighted sum over the slice *)
  Lemma rule_sum ibegin order f c d :
    rule ibegin order f c d == d * Qsum (map (fun rw => snd rw * f (c + d * fst rw)) (nodes ibegin order)).
  Proof.
    unfold C03_Quadrature.rule. fold (nodes ibegin order).
    assert (G : forall l a, fold_left (fun acc rw => Qred (acc + snd rw * f (c + d * fst rw))) l a
                            == a + Qsum (map (fun rw : Q * Q => snd rw * f (c + d * fst rw)) l)).
    { induction l as [|x t IH]; intro a; cbn [fold_left map Qsum]; [ring|]. rewrite IH, Qred_correct. ring. }
    rewrite G. ring.
  Qed.

  (* the adaptive loop returns one of the rules it tried: the one of order (order + j) at its place in the caches *)
  Lemma gq_loop_spec fuel : forall order ibegin old f c d rtol, (0 < fuel)%nat ->
    exists j, (j < fuel)%nat /\ gq_loop fuel order ibegin old f c d rtol = rule (ib_at order ibegin j) (order + j) f c d.
  Proof.
    induction fuel as [|m IH]; intros order ibegin old f c d rtol Hf; [lia|].
    cbn [C03_Quadrature.gq_loop].
    destruct (match old with None => false | Some o => Qltb (Qabs (rule ibegin order f c d - o)) (rtol * Qabs (rule ibegin order f c d)) end).
    - exists 0%nat. split; [lia|]. cbn [ib_at]. rewrite Nat.add_0_r. reflexivity.
    - destruct m as [|m'].
      + exists 0%nat. split; [lia|]. cbn [C03_Quadrature.gq_loop ib_at]. rewrite Nat.add_0_r. reflexivity.
      + destruct (IH (S order) (ibegin + order)%nat (Some (rule ibegin order f c d)) f c d rtol) as [j [Hj E]]; [lia|].
        exists (S j). split; [lia|]. rewrite E. cbn [ib_at]. rewrite Nat.add_succ_r. reflexivity.
  Qed.

  (* fixed-order rule: linear in the function *)
  Lemma rule_linear ibegin order f g al be c d :
    rule ibegin order (fun x => al * f x + be * g x) c d == al * rule ibegin order f c d + be * rule ibegin order g c d.
  Proof.
    rewrite !rule_sum. generalize (nodes ibegin order) as l. intro l.
    assert (G : Qsum (map (fun rw : Q * Q => snd rw * (al * f (c + d * fst rw) + be * g (c + d * fst rw))) l)
                == al * Qsum (map (fun rw : Q * Q => snd rw * f (c + d * fst rw)) l)
                   + be * Qsum (map (fun rw : Q * Q => snd rw * g (c + d * fst rw)) l)).
    { induction l as [|x t IH]; cbn [map Qsum]; [ring|]. rewrite IH. ring. }
    rewrite G. ring.
  Qed.

  (* non-negative weights and a non-negative function give a non-negative rule on an interval a <= b *)
  Lemma rule_nonneg ibegin order f c d :
    (forall w, In w weights -> 0 <= w) -> (forall x, 0 <= f x) -> 0 <= d -> 0 <= rule ibegin order f c d.
  Proof.
    intros Hw Hf Hd. rewrite rule_sum. apply Qmult_le_0_compat; [exact Hd|].
    apply Qsum_nonneg. intros x Hx. apply in_map_iff in Hx. destruct Hx as [[r w] [<- Hin]]. cbn [fst snd].
    apply Qmult_le_0_compat; [|apply Hf]. apply Hw.
    unfold nodes in Hin. apply in_combine_r in Hin. unfold slice in Hin.
    apply In_skipn_in with (n := ibegin). apply In_firstn_in with (n := order). exact Hin.
  Qed.

  (* hence the adaptive integrator is positivity preserving *)
  Lemma gq_evaluate_nonneg mn mx rtol f a b :
    (forall w, In w weights -> 0 <= w) -> (forall x, 0 <= f x) -> a <= b ->
    0 <= gq_evaluate roots weights mn mx rtol f a b.
  Proof.
    intros Hw Hf Hab. unfold gq_evaluate.
    destruct (S mx - mn)%nat as [|m] eqn:E; [cbn; lra|].
    destruct (gq_loop_spec (S m) mn 0%nat None f ((1 # 2) * (a + b)) ((1 # 2) * (b - a)) rtol) as [j [_ ->]]; [lia|].
    apply rule_nonneg; [exact Hw|exact Hf|lra].
  Qed.

  (* a function that vanishes everywhere integrates to zero, whatever the order at which the loop stops *)
  Lemma gq_evaluate_zero mn mx rtol f a b :
    (forall x, f x == 0) -> gq_evaluate roots weights mn mx rtol f a b == 0.
  Proof.
    intros Hf. unfold gq_evaluate.
    destruct (S mx - mn)%nat as [|m] eqn:E; [cbn; reflexivity|].
    destruct (gq_loop_spec (S m) mn 0%nat None f ((1 # 2) * (a + b)) ((1 # 2) * (b - a)) rtol) as [j [_ ->]]; [lia|].
    rewrite rule_sum. generalize (nodes (ib_at mn 0 j) (mn + j)) as l. intro l.
    assert (G : Qsum (map (fun rw : Q * Q => snd rw * f ((1 # 2) * (a + b) + (1 # 2) * (b - a) * fst rw)) l) == 0).
    { induction l as [|x t IH]; cbn [map Qsum]; [reflexivity|]. rewrite IH, Hf. ring. }
    rewrite G. ring.
  Qed.

  (* exact for constants when the weights of every rule sum to 2 (true for Gauss-Legendre rules; re-checked for the
     generated caches by the Gen tie lemma to 2^-50) *)
  Lemma gq_evaluate_constant mn mx rtol k a b :
    (mn <= mx)%nat ->
    (forall j, (j < S mx - mn)%nat -> Qsum (map snd (nodes (ib_at mn 0 j) (mn + j))) == 2) ->
    gq_evaluate roots weights mn mx rtol (fun _ => k) a b == k * (b - a).
  Proof.
    intros Hmn Hs. unfold gq_evaluate.
    destruct (S mx - mn)%nat as [|m] eqn:E; [lia|].
    destruct (gq_loop_spec (S m) mn 0%nat None (fun _ => k) ((1 # 2) * (a + b)) ((1 # 2) * (b - a)) rtol) as [j [Hj ->]]; [lia|].
    rewrite rule_sum. specialize (Hs j Hj). revert Hs. generalize (nodes (ib_at mn 0 j) (mn + j)) as l. intros l Hs.
    assert (G : Qsum (map (fun rw : Q * Q => snd rw * k) l) == k * Qsum (map snd l)).
    { clear Hs. induction l as [|x t IH]; cbn [map Qsum]; [ring|]. rewrite IH. ring. }
    rewrite G, Hs. ring.
  Qed.
End GQProofs.
