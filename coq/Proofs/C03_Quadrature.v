(* Lemmas about the Gauss-Legendre integrator model (Model/C03_Quadrature.v), for arbitrary caches of roots/weights. *)
Require Import Cherab.Common.Qx Cherab.Model.C03_Quadrature Cherab.Proofs.C03_Lines.
From Coq Require Import Qabs Lqa.
Open Scope Q_scope.

Lemma In_firstn_in {A} (x : A) : forall n l, In x (firstn n l) -> In x l.
Proof.
  induction n as [|n IH]; intros l H; [destruct H|]. destruct l as [|y t]; [destruct H|].
  cbn [firstn] in H. destruct H as [H|H]; [left; exact H|right; apply IH; exact H].
Qed.

Lemma In_skipn_in {A} (x : A) : forall n l, In x (skipn n l) -> In x l.
Proof.
  induction n as [|n IH]; intros l H; [exact H|]. destruct l as [|y t]; [destruct H|].
  cbn [skipn] in H. right; apply IH; exact H.
Qed.

Section GQProofs.
  Variables roots weights : list Q.
  Notation rule := (rule roots weights).
  Notation gq_loop := (gq_loop roots weights).

  Definition nodes (ibegin order : nat) : list (Q * Q) := combine (slice roots ibegin order) (slice weights ibegin order).

  (* the inner loop is the weighted sum over the slice *)
  Lemma rule_sum ibegin order f c d :
    rule ibegin order f c d == d * Qsum (map (fun rw => snd rw * f (c + d * fst rw)) (nodes ibegin order)).
  Proof.
    unfold C03_Quadrature.rule. fold (nodes ibegin order).
    assert (G : forall l a, fold_left (fun acc rw => Qred (acc + snd rw * f (c + d * fst rw))) l a
                            == a + Qsum (map (fun rw : Q * Q => snd rw * f (c + d * fst rw)) l)).
    { induction l as [|x t IH]; intro a; cbn [fold_left map Qsum]; [ring|]. rewrite IH, Qred_correct. ring. }
    rewrite G. ring.
  Qed.

  (* the adaptive loop returns one of the rules it tried: the one of order (order + j) at its place in the caches *)
  Lemma gq_loop_spec fuel : forall order ibegin old f c d rtol, (0 < fuel)%nat ->
    exists j, (j < fuel)%nat /\ gq_loop fuel order ibegin old f c d rtol = rule (ib_at order ibegin j) (order + j) f c d.
  Proof.
    induction fuel as [|m IH]; intros order ibegin old f c d rtol Hf; [lia|].
    cbn [C03_Quadrature.gq_loop].
    destruct (match old with None => false | Some o => Qltb (Qabs (rule ibegin order f c d - o)) (rtol * Qabs (rule ibegin order f c d)) end).
    - exists 0%nat. split; [lia|]. cbn [ib_at]. rewrite Nat.add_0_r. reflexivity.
    - destruct m as [|m'].
      + exists 0%nat. split; [lia|]. cbn [C03_Quadrature.gq_loop ib_at]. rewrite Nat.add_0_r. reflexivity.
      + destruct (IH (S order) (ibegin + order)%nat (Some (rule ibegin order f c d)) f c d rtol) as [j [Hj E]]; [lia|].
        exists (S j). split; [lia|]. rewrite E. cbn [ib_at]. rewrite Nat.add_succ_r. reflexivity.
  Qed.

  (* fixed-order rule: linear in the function *)
  Lemma rule_linear ibegin order f g al be c d :
    rule ibegin order (fun x => al * f x + be * g x) c d == al * rule ibegin order f c d + be * rule ibegin order g c d.
  Proof.
    rewrite !rule_sum. generalize (nodes ibegin order) as l. intro l.
    assert (G : Qsum (map (fun rw : Q * Q => snd rw * (al * f (c + d * fst rw) + be * g (c + d * fst rw))) l)
                == al * Qsum (map (fun rw : Q * Q => snd rw * f (c + d * fst rw)) l)
                   + be * Qsum (map (fun rw : Q * Q => snd rw * g (c + d * fst rw)) l)).
    { induction l as [|x t IH]; cbn [map Qsum]; [ring|]. rewrite IH. ring. }
    rewrite G. ring.
  Qed.

  (* non-negative weights and a non-negative function give a non-negative rule on an interval a <= b *)
  Lemma rule_nonneg ibegin order f c d :
    (forall w, In w weights -> 0 <= w) -> (forall x, 0 <= f x) -> 0 <= d -> 0 <= rule ibegin order f c d.
  Proof.
    intros Hw Hf Hd. rewrite rule_sum. apply Qmult_le_0_compat; [exact Hd|].
    apply Qsum_nonneg. intros x Hx. apply in_map_iff in Hx. destruct Hx as [[r w] [<- Hin]]. cbn [fst snd].
    apply Qmult_le_0_compat; [|apply Hf]. apply Hw.
    unfold nodes in Hin. apply in_combine_r in Hin. unfold slice in Hin.
    apply In_skipn_in with (n := ibegin). apply In_firstn_in with (n := order). exact Hin.
  Qed.

  (* hence the adaptive integrator is positivity preserving *)
  Lemma gq_evaluate_nonneg mn mx rtol f a b :
    (forall w, In w weights -> 0 <= w) -> (forall x, 0 <= f x) -> a <= b ->
    0 <= gq_evaluate roots weights mn mx rtol f a b.
  Proof.
    intros Hw Hf Hab. unfold gq_evaluate.
    destruct (S mx - mn)%nat as [|m] eqn:E; [cbn; lra|].
    destruct (gq_loop_spec (S m) mn 0%nat None f ((1 # 2) * (a + b)) ((1 # 2) * (b - a)) rtol) as [j [_ ->]]; [lia|].
    apply rule_nonneg; [exact Hw|exact Hf|lra].
  Qed.

  (* a function that vanishes everywhere integrates to zero, whatever the order at which the loop stops *)
  Lemma gq_evaluate_zero mn mx rtol f a b :
    (forall x, f x == 0) -> gq_evaluate roots weights mn mx rtol f a b == 0.
  Proof.
    intros Hf. unfold gq_evaluate.
    destruct (S mx - mn)%nat as [|m] eqn:E; [cbn; reflexivity|].
    destruct (gq_loop_spec (S m) mn 0%nat None f ((1 # 2) * (a + b)) ((1 # 2) * (b - a)) rtol) as [j [_ ->]]; [lia|].
    rewrite rule_sum. generalize (nodes (ib_at mn 0 j) (mn + j)) as l. intro l.
    assert (G : Qsum (map (fun rw : Q * Q => snd rw * f ((1 # 2) * (a + b) + (1 # 2) * (b - a) * fst rw)) l) == 0).
    { induction l as [|x t IH]; cbn [map Qsum]; [reflexivity|]. rewrite IH, Hf. ring. }
    rewrite G. ring.
  Qed.

  (* exact for constants when the weights of every rule sum to 2 (true for Gauss-Legendre rules; re-checked for the
     generated caches by the Gen tie lemma to 2^-50) *)
  Lemma gq_evaluate_constant mn mx rtol k a b :
    (mn <= mx)%nat ->
    (forall j, (j < S mx - mn)%nat -> Qsum (map snd (nodes (ib_at mn 0 j) (mn + j))) == 2) ->
    gq_evaluate roots weights mn mx rtol (fun _ => k) a b == k * (b - a).
  Proof.
    intros Hmn Hs. unfold gq_evaluate.
    destruct (S mx - mn)%nat as [|m] eqn:E; [lia|].
    destruct (gq_loop_spec (S m) mn 0%nat None (fun _ => k) ((1 # 2) * (a + b)) ((1 # 2) * (b - a)) rtol) as [j [Hj ->]]; [lia|].
    rewrite rule_sum. specialize (Hs j Hj). revert Hs. generalize (nodes (ib_at mn 0 j) (mn + j)) as l. intros l Hs.
    assert (G : Qsum (map (fun rw : Q * Q => snd rw * k) l) == k * Qsum (map snd l)).
    { clear Hs. induction l as [|x t IH]; cbn [map Qsum]; [ring|]. rewrite IH. ring. }
    rewrite G, Hs. ring.
  Qed.
End GQProofs.

(* ---- exactness of the low-order rules (for the model's rule, with the algebraic nodes as hypotheses) ---------------- *)
Definition poly3 (a0 a1 a2 a3 x : Q) : Q := a0 + a1 * x + a2 * x ^ 2 + a3 * x ^ 3.
Definition prim3 (a0 a1 a2 a3 x : Q) : Q := a0 * x + a1 * x ^ 2 / 2 + a2 * x ^ 3 / 3 + a3 * x ^ 4 / 4.
Definition poly5 (a0 a1 a2 a3 a4 a5 x : Q) : Q := a0 + a1 * x + a2 * x ^ 2 + a3 * x ^ 3 + a4 * x ^ 4 + a5 * x ^ 5.
Definition prim5 (a0 a1 a2 a3 a4 a5 x : Q) : Q :=
  a0 * x + a1 * x ^ 2 / 2 + a2 * x ^ 3 / 3 + a3 * x ^ 4 / 4 + a4 * x ^ 5 / 5 + a5 * x ^ 6 / 6.

(* 2-point rule with nodes -s, +s and weights 1, 1: the defect on a cubic is an explicit multiple of (s^2 - 1/3),
   for ANY s (in particular for the double nodes of the code, whose s^2 - 1/3 is of the order 2^-54) *)
Lemma rule2_defect roots weights ib s a0 a1 a2 a3 a b :
  slice roots ib 2 = [- s; s] -> slice weights ib 2 = [1; 1] ->
  rule roots weights ib 2 (poly3 a0 a1 a2 a3) ((1 # 2) * (a + b)) ((1 # 2) * (b - a)) ==
  prim3 a0 a1 a2 a3 b - prim3 a0 a1 a2 a3 a
  + (b - a) * ((1 # 2) * (b - a)) ^ 2 * (a2 + 3 * a3 * ((1 # 2) * (a + b))) * (s * s - (1 # 3)).
Proof.
  intros Hr Hw. rewrite rule_sum. unfold nodes. rewrite Hr, Hw. cbn [combine map Qsum fst snd].
  unfold poly3, prim3. field.
Qed.

Lemma rule2_exact roots weights ib s a0 a1 a2 a3 a b :
  slice roots ib 2 = [- s; s] -> slice weights ib 2 = [1; 1] -> s * s == 1 # 3 ->
  rule roots weights ib 2 (poly3 a0 a1 a2 a3) ((1 # 2) * (a + b)) ((1 # 2) * (b - a)) ==
  prim3 a0 a1 a2 a3 b - prim3 a0 a1 a2 a3 a.
Proof. intros Hr Hw Hs. rewrite (rule2_defect roots weights ib s) by assumption. rewrite Hs. ring. Qed.

(* 3-point rule, nodes -s, 0, +s with s^2 = 3/5 and weights 5/9, 8/9, 5/9: exact for every polynomial of degree <= 5 *)
Lemma rule3_exact roots weights ib s a0 a1 a2 a3 a4 a5 a b :
  slice roots ib 3 = [- s; 0; s] -> slice weights ib 3 = [5 # 9; 8 # 9; 5 # 9] -> s * s == 3 # 5 ->
  rule roots weights ib 3 (poly5 a0 a1 a2 a3 a4 a5) ((1 # 2) * (a + b)) ((1 # 2) * (b - a)) ==
  prim5 a0 a1 a2 a3 a4 a5 b - prim5 a0 a1 a2 a3 a4 a5 a.
Proof.
  intros Hr Hw Hs. rewrite rule_sum. unfold nodes. rewrite Hr, Hw. cbn [combine map Qsum fst snd].
  set (c := (1 # 2) * (a + b)). set (d := (1 # 2) * (b - a)).
  (* the sum is a polynomial in c, d and t = s*s only: odd powers of s cancel *)
  assert (E : (5 # 9) * poly5 a0 a1 a2 a3 a4 a5 (c + d * - s) + ((8 # 9) * poly5 a0 a1 a2 a3 a4 a5 (c + d * 0)
              + ((5 # 9) * poly5 a0 a1 a2 a3 a4 a5 (c + d * s) + 0))
              == 2 * (a0 + a1 * c + a2 * c ^ 2 + a3 * c ^ 3 + a4 * c ^ 4 + a5 * c ^ 5)
                 + (10 # 9) * d ^ 2 * (s * s) * (a2 + 3 * a3 * c + 6 * a4 * c ^ 2 + 10 * a5 * c ^ 3)
                 + (10 # 9) * d ^ 4 * ((s * s) * (s * s)) * (a4 + 5 * a5 * c)).
  { unfold poly5. ring. }
  rewrite E, Hs. unfold prim5, c, d. field.
Qed.

Lemma rule_ext roots weights ib order f g c d :
  (forall x, f x == g x) -> rule roots weights ib order f c d == rule roots weights ib order g c d.
Proof.
  intro H. rewrite !rule_sum. generalize (nodes roots weights ib order) as l. intro l.
  assert (G : Qsum (map (fun rw : Q * Q => snd rw * f (c + d * fst rw)) l)
              == Qsum (map (fun rw : Q * Q => snd rw * g (c + d * fst rw)) l)).
  { induction l as [|x t IH]; cbn [map Qsum]; [reflexivity|]. rewrite IH, H. reflexivity. }
  rewrite G. reflexivity.
Qed.

Lemma rule_monotone roots weights ib order f g c d :
  (forall w, In w weights -> 0 <= w) -> (forall x, f x <= g x) -> 0 <= d ->
  rule roots weights ib order f c d <= rule roots weights ib order g c d.
Proof.
  intros Hw H Hd.
  assert (E : rule roots weights ib order g c d ==
              rule roots weights ib order f c d + rule roots weights ib order (fun x => 1 * g x + (-(1)) * f x) c d).
  { rewrite rule_linear. ring. }
  rewrite E.
  assert (0 <= rule roots weights ib order (fun x => 1 * g x + (-(1)) * f x) c d).
  { apply rule_nonneg; [exact Hw| |exact Hd]. intro x. specialize (H x). lra. }
  lra.
Qed.

(* the adaptive integrator restricted to the orders 2 and 3 is exact on every cubic, whatever the tolerance *)
Lemma gq23_exact_cubic s2 s3 rtol a0 a1 a2 a3 a b :
  s2 * s2 == 1 # 3 -> s3 * s3 == 3 # 5 ->
  gq_evaluate [- s2; s2; - s3; 0; s3] [1; 1; 5 # 9; 8 # 9; 5 # 9] 2 3 rtol (poly3 a0 a1 a2 a3) a b ==
  prim3 a0 a1 a2 a3 b - prim3 a0 a1 a2 a3 a.
Proof.
  intros H2 H3. unfold gq_evaluate.
  destruct (gq_loop_spec [- s2; s2; - s3; 0; s3] [1; 1; 5 # 9; 8 # 9; 5 # 9] (S 3 - 2) 2 0%nat None (poly3 a0 a1 a2 a3)
                         ((1 # 2) * (a + b)) ((1 # 2) * (b - a)) rtol) as [j [Hj ->]]; [cbn; lia|].
  assert (j = 0 \/ j = 1)%nat as [-> | ->] by (cbn in Hj; lia).
  - cbn [ib_at Nat.add]. apply (rule2_exact _ _ 0%nat s2); [reflexivity|reflexivity|exact H2].
  - cbn [ib_at Nat.add].
    rewrite (rule_ext _ _ 2%nat 3%nat (poly3 a0 a1 a2 a3) (poly5 a0 a1 a2 a3 0 0)) by (intro x; unfold poly3, poly5; ring).
    rewrite (rule3_exact _ _ 2%nat s3) by (try reflexivity; exact H3). unfold prim5, prim3. field.
Qed.

(* enclosure: a function lying between two cubics is integrated by the 2-point rule to a value between their integrals *)
Lemma rule2_envelope roots weights ib s f l0 l1 l2 l3 h0 h1 h2 h3 a b :
  slice roots ib 2 = [- s; s] -> slice weights ib 2 = [1; 1] -> s * s == 1 # 3 ->
  (forall w, In w weights -> 0 <= w) -> a <= b ->
  (forall x, poly3 l0 l1 l2 l3 x <= f x) -> (forall x, f x <= poly3 h0 h1 h2 h3 x) ->
  prim3 l0 l1 l2 l3 b - prim3 l0 l1 l2 l3 a <= rule roots weights ib 2 f ((1 # 2) * (a + b)) ((1 # 2) * (b - a)) /\
  rule roots weights ib 2 f ((1 # 2) * (a + b)) ((1 # 2) * (b - a)) <= prim3 h0 h1 h2 h3 b - prim3 h0 h1 h2 h3 a.
Proof.
  intros Hr Hw Hs Hpos Hab Hlo Hhi. assert (Hd : 0 <= (1 # 2) * (b - a)) by lra. split.
  - rewrite <- (rule2_exact roots weights ib s l0 l1 l2 l3 a b Hr Hw Hs). apply rule_monotone; assumption.
  - rewrite <- (rule2_exact roots weights ib s h0 h1 h2 h3 a b Hr Hw Hs). apply rule_monotone; assumption.
Qed.
