(* C18: record of a finding that has been fixed in /repo (879f8f0); the float model in Model/C18_Float.v
   describes the code BEFORE that fix (trapezoid of edge samples).  In IEEE doubles the bin
   edges of ConstantSpectrum(1000.1, 1000.3, 1) are computed as (min + delta/2) - delta/2 and that
   plus delta; the upper edge rounds to a value above max, evaluate() returns 0 there and the single
   bin receives half its power.
   In exact arithmetic (rnd = identity) the same computation gives power 1. *)
Require Import Cherab.Common.Qx.
Require Import Cherab.Model.C18_Float.
Open Scope Q_scope.

(* the doubles nearest to 1000.1 and 1000.3 *)
Definition d1000_1 : Q := 8796972631510221 # 8796093022208.
Definition d1000_3 : Q := 4399365925057331 # 4398046511104.

Lemma constant_spectrum_refuted_in_doubles :
  0 < d1000_1 /\ d1000_1 < d1000_3 /\
  (* the upper edge of the single bin, first edge + delta, lies above max_wavelength *)
  d1000_3 < round53 (fl_first_edge round53 d1000_1 d1000_3 1 + round53 (round53 (d1000_3 - d1000_1) / 1)) /\
  Qsum (fl_const_power round53 d1000_1 d1000_3 1) == 1 # 2 /\
  Qsum (fl_const_power (fun q => q) d1000_1 d1000_3 1) == 1.
Proof. vm_compute. repeat split; reflexivity. Qed.

(* ------------------------------------------------------------------------------------------------------ *)
(* The computation in doubles of the CURRENT code (fl_delta, fl_centre, fl_segment, fl_const_psd: what the
   correspondence compares EXACTLY with the implementation for rnd = round53) is, for rnd = identity, the
   exact model of Model/C18_Spectrum.v / C18_Laser.v about which the property theorems are proved. *)
Require Import Cherab.Model.C18_Laser Cherab.Model.C18_Spectrum Cherab.Proofs.C18_Spectrum.

Definition idq (q : Q) : Q := q.

Lemma fl_segment_exact_is_model L n i : (0 <= i)%Z ->
  fl_segment idq L n i = seg_at (L / inject_Z n) (Z.to_nat i).
Proof. intro H. unfold fl_segment, seg_at, idq. rewrite Z2Nat.id by exact H. reflexivity. Qed.

Lemma fl_centre_exact_is_model mn d i : fl_centre idq mn d i = centre mn d i.
Proof. reflexivity. Qed.

Section FlConst.
Variable erf : Q -> Q.
Variable sqrt2 sqrt2pi : Q.
Hypothesis erf_ext : forall a b, a == b -> erf a == erf b.

Lemma fl_loop_is_model s d d' n : sk s = SConst -> d == d' -> forall lo lo', lo == lo' ->
  Forall2 Qeq (fl_overlap_loop idq (s_min s) (s_max s) d n lo) (bins_loop erf s d' n lo').
Proof.
  intros Hk Ed. induction n as [|n IH]; intros lo lo' El; cbn [fl_overlap_loop bins_loop]; constructor.
  - transitivity (bin_psd erf s d' lo (lo + d)).
    + unfold fl_overlap_psd, bin_psd, idq, fl_qmax, fl_qmin, qmax, qmin. rewrite Hk. reflexivity.
    + apply (bin_psd_ext erf erf_ext); [exact El | rewrite Qred_correct, El, Ed; reflexivity].
  - apply IH. unfold idq. rewrite Qred_correct, El, Ed. reflexivity.
Qed.

Theorem fl_const_psd_exact_is_model a : svalid SConst a = true ->
  Forall2 Qeq (fl_const_psd idq (g_min a) (g_max a) (g_bins a)) (s_psd (scanon erf sqrt2 sqrt2pi SConst a)) /\
  fl_delta idq (g_min a) (g_max a) (g_bins a) == s_delta (scanon erf sqrt2 sqrt2pi SConst a).
Proof.
  intro Hv. destruct (fresh_facts SConst a Hv) as (_ & _ & Hn & _).
  assert (D : fl_delta idq (g_min a) (g_max a) (g_bins a) == s_delta (scanon erf sqrt2 sqrt2pi SConst a)).
  { unfold fl_delta, idq, scanon, update_cache. cbn [s_delta sraw s_max s_min s_bins]. rewrite Qred_correct. reflexivity. }
  split; [|exact D].
  unfold fl_const_psd. set (d := fl_delta idq (g_min a) (g_max a) (g_bins a)) in *.
  set (s := sraw sqrt2 sqrt2pi SConst a).
  change (s_psd (scanon erf sqrt2 sqrt2pi SConst a)) with
    (bins_loop erf s (s_delta (scanon erf sqrt2 sqrt2pi SConst a)) (Z.to_nat (g_bins a))
       (nth 0 (s_wl (scanon erf sqrt2 sqrt2pi SConst a)) 0 - s_delta (scanon erf sqrt2 sqrt2pi SConst a) * (1 # 2))).
  apply (fl_loop_is_model s); [reflexivity | exact D |].
  destruct (fresh_centres erf sqrt2 sqrt2pi SConst a Hv 0%nat Hn) as [_ C]. rewrite C.
  unfold idq, fl_centre, idq, qn. cbn [Z.of_nat inject_Z]. rewrite D. ring.
Qed.
End FlConst.
