(* C18: record of a finding that has been fixed in /repo (879f8f0); the float model in Model/C18_Float.v
   describes the code BEFORE that fix (trapezoid of edge samples).  In IEEE doubles the bin
   edges of ConstantSpectrum(1000.1, 1000.3, 1) are computed as (min + delta/2) - delta/2 and that
   plus delta; the upper edge rounds to a value above max, evaluate() returns 0 there and the single
   bin receives half its power.
   In exact arithmetic (rnd = identity) the same computation gives power 1. *)
Require Import Cherab.Common.Qx.
Require Import Cherab.Model.C18_Float.
Open Scope Q_scope.

(* the doubles nearest to 1000.1 and 1000.3 *)
Definition d1000_1 : Q := 8796972631510221 # 8796093022208.
Definition d1000_3 : Q := 4399365925057331 # 4398046511104.

Lemma constant_spectrum_refuted_in_doubles :
  0 < d1000_1 /\ d1000_1 < d1000_3 /\
  (* the upper edge of the single bin, first edge + delta, lies above max_wavelength *)
  d1000_3 < round53 (fl_first_edge round53 d1000_1 d1000_3 1 + round53 (round53 (d1000_3 - d1000_1) / 1)) /\
  Qsum (fl_const_power round53 d1000_1 d1000_3 1) == 1 # 2 /\
  Qsum (fl_const_power (fun q => q) d1000_1 d1000_3 1) == 1.
Proof. vm_compute. repeat split; reflexivity. Qed.
