(* C16: CzernyTurnerSpectrometer.resolution as a formula -- positivity, monotonicity, meaning of the certificate. *)
Require Import Cherab.Common.Qx.
Require Import Cherab.Model.C16_Instruments Cherab.Proofs.C16_Range.
From Coq Require Import Lqa.
Open Scope Q_scope.

Section Res.
Variable sqrt : Q -> Q.
Hypothesis sqrt_spec : forall y, 0 <= y -> 0 <= sqrt y /\ sqrt y * sqrt y == y.

Lemma sq_le_inv a b : 0 <= a -> 0 <= b -> a * a <= b * b -> a <= b.
Proof. intros Ha Hb H. destruct (Qlt_le_dec b a) as [L|L]; [|exact L]. exfalso. nra. Qed.

Lemma sqrt_mono x y : 0 <= x -> x <= y -> sqrt x <= sqrt y.
Proof.
  intros Hx Hxy. destruct (sqrt_spec x Hx) as [Sx Ex]. destruct (sqrt_spec y (Qle_trans _ _ _ Hx Hxy)) as [Sy Ey].
  apply sq_le_inv; try assumption. rewrite Ex, Ey. exact Hxy.
Qed.

Lemma sqrt_unique y S : 0 <= y -> 0 <= S -> S * S == y -> S == sqrt y.
Proof.
  intros Hy HS E. destruct (sqrt_spec y Hy) as [H0 H1].
  apply Qle_antisym; apply sq_le_inv; try assumption; rewrite E, H1; apply Qle_refl.
Qed.

Variables cosa tana : Q.
Hypothesis Hc : 0 < cosa.
Hypothesis Ht : 0 <= tana.
Hypothesis Htrig : cosa * cosa * (1 + tana * tana) == 1.

Variable k : ct_key.
Hypothesis Hm : (0 < k_order k)%Z.
Hypothesis Hg : 0 < k_grating k.
Hypothesis Hf : 0 < k_focal k.
Hypothesis Hs : 0 < k_spacing k.

Lemma res_den_pos : 0 < res_den k.
Proof.
  unfold res_den. assert (0 < inject_Z (k_order k)) by (unfold Qlt, inject_Z; cbn; lia).
  apply Qmult_lt_0_compat; [apply Qmult_lt_0_compat|]; assumption.
Qed.

(* the resolution is positive exactly as long as p = m g w / 2 stays below cos^2(angle) *)
Lemma resolution_pos w : 0 <= res_p k w -> res_p k w < cosa * cosa -> 0 < resolution_of sqrt cosa tana k w.
Proof.
  intros Hp0 Hp. unfold resolution_of. set (p := res_p k w) in *.
  assert (cosa * cosa <= 1) as Hc1 by nra.
  assert (0 <= cosa * cosa - p * p) as Hd by nra.
  destruct (sqrt_spec _ Hd) as [S0 SE]. set (S := sqrt (cosa * cosa - p * p)) in *.
  assert (p * tana < S) as Hgt.
  { destruct (Qlt_le_dec (p * tana) S) as [L|L]; [exact L|]. exfalso.
    assert (S * S <= (p * tana) * (p * tana)) as H1 by nra.
    assert (cosa * cosa <= p * p * (1 + tana * tana)) as H2 by (rewrite SE in H1; nra).
    assert (cosa * cosa * (cosa * cosa) <= p * p) as H3.
    { setoid_replace (p * p) with (p * p * (cosa * cosa * (1 + tana * tana))) by (rewrite Htrig; ring).
      setoid_replace (p * p * (cosa * cosa * (1 + tana * tana))) with (cosa * cosa * (p * p * (1 + tana * tana))) by ring.
      apply Qmult_le_l; [nra|]. exact H2. }
    assert (cosa * cosa <= p) by (apply sq_le_inv; nra). lra. }
  pose proof res_den_pos as Hden.
  unfold Qdiv. apply Qmult_lt_0_compat; [apply Qmult_lt_0_compat; [exact Hs|lra]|apply Qinv_lt_0_compat, Hden].
Qed.

(* the pixels get narrower with wavelength: the narrowest pixel of a spectrum is its last one *)
Lemma resolution_decreasing w1 w2 : 0 <= w1 -> w1 <= w2 -> res_p k w2 <= cosa * cosa ->
  resolution_of sqrt cosa tana k w2 <= resolution_of sqrt cosa tana k w1.
Proof.
  intros H1 H12 Hp2. unfold resolution_of.
  assert (0 < inject_Z (k_order k)) as Hmq by (unfold Qlt, inject_Z; cbn; lia).
  assert (0 <= res_p k w1 /\ res_p k w1 <= res_p k w2) as [Hp1 Hpp].
  { unfold res_p. split; [repeat apply Qmult_le_0_compat; lra|].
    rewrite !(Qmult_comm _ w1), !(Qmult_comm _ w2). apply Qmult_le_compat_r; [exact H12|].
    repeat apply Qmult_le_0_compat; lra. }
  set (p1 := res_p k w1) in *. set (p2 := res_p k w2) in *.
  assert (cosa * cosa <= 1) as Hc1 by nra.
  assert (0 <= cosa * cosa - p2 * p2) as Hd2 by nra.
  assert (cosa * cosa - p2 * p2 <= cosa * cosa - p1 * p1) as Hdd by nra.
  pose proof (sqrt_mono _ _ Hd2 Hdd) as Hsq.
  pose proof res_den_pos as Hden.
  unfold Qdiv. apply Qmult_le_compat_r; [|apply Qlt_le_weak, Qinv_lt_0_compat, Hden].
  apply mul_le_l; [lra|].
  assert (p1 * tana <= p2 * tana) by (apply Qmult_le_compat_r; assumption). lra.
Qed.

(* the certificate the correspondence checks for every (wavelength, resolution) pair the implementation produced:
   S := r den / dxdp + p tan;  S >= 0 and S^2 = cos^2 - p^2  force  r = the formula's value *)
Lemma resolution_certificate_exact w r :
  let p := res_p k w in let S := r * res_den k / k_spacing k + p * tana in
  0 <= cosa * cosa - p * p -> 0 <= S -> S * S == cosa * cosa - p * p -> r == resolution_of sqrt cosa tana k w.
Proof.
  intros p S Hd HS E. pose proof (sqrt_unique _ S Hd HS E) as EU.
  unfold resolution_of. fold p. rewrite <- EU. unfold S. pose proof res_den_pos as Hden.
  field. split; intros Z; first [rewrite Z in Hden; exact (Qlt_irrefl _ Hden) | rewrite Z in Hs; exact (Qlt_irrefl _ Hs)].
Qed.

End Res.
