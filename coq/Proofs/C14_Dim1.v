(* Caching1D: what the cached polynomial is (Model/C14_Caching.v : build1, evalc1, pure1). *)
Require Import Cherab.Common.Qx.
Require Import Cherab.Model.C14_Cache Cherab.Model.C14_Caching.
Require Import Cherab.Proofs.C14_Cache Cherab.Proofs.C14_History Cherab.Proofs.C14_Hermite Cherab.Proofs.C14_Find.
From Coq Require Import Lqa.
Open Scope Q_scope.

Lemma data_delta_nz fb : ~ data_delta fb == 0.
Proof.
  destruct fb as [[lo hi]|]; cbn [data_delta]; [|lra].
  destruct (Qeq_bool (hi - lo) 0) eqn:E; [lra|].
  intro F. apply Qeq_bool_iff in F. congruence.
Qed.

Lemma scaled_diff_nz a b o c : ~ a - b == 0 -> ~ c == 0 -> ~ (a - o) * c - (b - o) * c == 0.
Proof.
  intros H Hc E. apply H. setoid_replace (a - b) with (((a - o) * c - (b - o) * c) / c) by (field; auto).
  rewrite E. field. auto.
Qed.

Lemma xv_eq x top u : xv x top u == (x u - x 0%Z) * (1 / (x top - x 0%Z)).
Proof. unfold xv, x_delta_inv. rewrite Qred_correct. reflexivity. Qed.

Lemma nrm_eq x top p : nrm x top p == (p - x 0%Z) * (1 / (x top - x 0%Z)).
Proof. unfold nrm, x_delta_inv. rewrite Qred_correct. reflexivity. Qed.

Lemma inv_nz a : ~ a == 0 -> ~ 1 / a == 0.
Proof. intros H E. apply H. setoid_replace a with (1 / (1 / a)) by (field; auto). rewrite E. reflexivity. Qed.

(* normalised nodes + normalised data + denormalisation == the cubic on raw nodes and raw data *)
Lemma normalised_cubic xm x0 x1 x2 o c m s dm d0 d1 d2 t :
  ~ x1 - x0 == 0 -> ~ x1 - xm == 0 -> ~ x2 - x0 == 0 -> ~ c == 0 -> ~ s == 0 ->
  s * HLraw ((xm - o) * c) ((x0 - o) * c) ((x1 - o) * c) ((x2 - o) * c)
            ((dm - m) * (1 / s)) ((d0 - m) * (1 / s)) ((d1 - m) * (1 / s)) ((d2 - m) * (1 / s)) ((t - o) * c) + m
  == HL xm x0 x1 x2 dm d0 d1 d2 t.
Proof.
  intros H0 Hm H2 Hc Hs. rewrite <- HL_raw.
  rewrite HL_coord_affine by assumption. rewrite HL_data_affine by assumption. field. exact Hs.
Qed.

Section Dim1.
  Variables (x : Z -> Q) (top : Z).
  Hypothesis Hinc : increasing x top.

  Lemma nodes_distinct i : (1 <= i <= top - 2)%Z ->
    ~ x (i + 1)%Z - x i == 0 /\ ~ x (i + 1)%Z - x (i - 1)%Z == 0 /\ ~ x (i + 2)%Z - x i == 0 /\ ~ x top - x 0%Z == 0.
  Proof.
    intros Hi.
    assert (x i < x (i + 1)%Z) by (apply (increasing_lt x top Hinc); lia).
    assert (x (i - 1)%Z < x (i + 1)%Z) by (apply (increasing_lt x top Hinc); lia).
    assert (x i < x (i + 2)%Z) by (apply (increasing_lt x top Hinc); lia).
    assert (x 0%Z < x top) by (apply (increasing_lt x top Hinc); lia).
    repeat split; intro E; lra.
  Qed.

  Variables (fb : option (Q * Q)) (nbe : bool) (f : Q -> Q).

  Lemma build1_value i p : (1 <= i <= top - 2)%Z ->
    evalc1 (build1 x top fb i (map (truth x f (normd fb)) (needed1 i))) p == spec1 x f i p.
  Proof.
    intros Hi. destruct (nodes_distinct i Hi) as (N0 & Nm & N2 & Nt).
    assert (Hc : ~ 1 / (x top - x 0%Z) == 0) by (apply inv_nz; exact Nt).
    unfold build1, needed1, span, truth. cbn [map].
    rewrite coeffs1_eval; try exact Nt.
    2,3,4: rewrite !xv_eq; apply scaled_diff_nz; assumption.
    unfold spec1, normd.
    rewrite <- (normalised_cubic (x (i - 1)%Z) (x i) (x (i + 1)%Z) (x (i + 2)%Z) (x 0%Z) (1 / (x top - x 0%Z))
                                 (data_min fb) (data_delta fb)); try assumption; [|apply data_delta_nz].
    apply Qplus_comp; [|reflexivity]. apply Qmult_comp; [reflexivity|].
    apply HLraw_ext; try apply xv_eq; reflexivity.
  Qed.

  (* the history-free value is the cubic through the wrapped function at the raw nodes of the cell *)
  Theorem pure1_spec p i : (0 < top)%Z -> locate1 x top p = Some i ->
    exists v, pure1 fb nbe x top f p = Val v /\ v == spec1 x f i p.
  Proof.
    intros Htop L. unfold pure1, pure_eval. rewrite L. eexists. split; [reflexivity|].
    apply build1_value. apply (locate1_sound x top p i Htop L).
  Qed.

  Theorem pure1_outside p : locate1 x top p = None ->
    pure1 fb nbe x top f p = if nbe then Direct (f p) else Err.
  Proof. intros L. unfold pure1, pure_eval. rewrite L. reflexivity. Qed.
End Dim1.

(* ---- consequences, stated for the cache after an arbitrary history ---- *)
Section Dim1Props.
  Variables (x : Z -> Q) (top : Z).
  Hypothesis Hinc : increasing x top.
  Hypothesis Htop : (3 <= top)%Z.
  Variables (fb : option (Q * Q)) (nbe : bool) (f : Q -> Q).

  Theorem after1_spec hist p i : locate1 x top p = Some i ->
    exists v, eval_after1 fb nbe x top f hist p = Val v /\ v == spec1 x f i p.
  Proof. intros L. rewrite history_independent_1d. apply pure1_spec; [exact Hinc|lia|exact L]. Qed.

  Theorem after1_node hist i : (1 <= i <= top - 2)%Z ->
    exists v, eval_after1 fb nbe x top f hist (x i) = Val v /\ v == f (x i).
  Proof.
    intros Hi.
    assert (L : locate1 x top (x i) = Some i).
    { apply (locate1_complete x top Hinc); [exact Hi|apply Qle_refl|apply (increasing_lt x top Hinc); lia]. }
    destruct (after1_spec hist (x i) i L) as (v & E & V). exists v. split; [exact E|].
    rewrite V. unfold spec1. destruct (nodes_distinct x top Hinc i Hi) as (N0 & Nm & N2 & _).
    apply HL_node0; assumption.
  Qed.

  Theorem after1_linear A B hist p v : (forall t, f t == A + B * t) ->
    eval_after1 fb nbe x top f hist p = Val v -> v == f p.
  Proof.
    intros Hf E. rewrite history_independent_1d in E.
    destruct (locate1 x top p) as [i|] eqn:L.
    - destruct (pure1_spec x top Hinc fb nbe f p i ltac:(lia) L) as (v' & E' & V).
      rewrite E in E'. injection E' as <-. rewrite V. unfold spec1.
      destruct (locate1_sound x top p i ltac:(lia) L) as (Hi & _).
      destruct (nodes_distinct x top Hinc i Hi) as (N0 & Nm & N2 & _).
      rewrite (HL_ext _ _ _ _ _ _ _ _ _ _ _ _ _ _ _ _ _ _ (Qeq_refl _) (Qeq_refl _) (Qeq_refl _) (Qeq_refl _)
                      (Hf _) (Hf _) (Hf _) (Hf _) (Qeq_refl p)).
      rewrite HL_affine by assumption. symmetry. apply Hf.
    - rewrite (pure1_outside x top fb nbe f p L) in E. destruct nbe; discriminate.
  Qed.

  Theorem after1_bounds_irrelevant fb' hist hist' p :
    result_equiv (eval_after1 fb nbe x top f hist p) (eval_after1 fb' nbe x top f hist' p).
  Proof.
    rewrite !history_independent_1d.
    destruct (locate1 x top p) as [i|] eqn:L.
    - destruct (pure1_spec x top Hinc fb nbe f p i ltac:(lia) L) as (v & -> & V).
      destruct (pure1_spec x top Hinc fb' nbe f p i ltac:(lia) L) as (v' & -> & V').
      cbn. rewrite V, V'. reflexivity.
    - rewrite !pure1_outside by exact L. destruct nbe; cbn; [reflexivity|exact I].
  Qed.

  Theorem after1_outside hist p : p < x 1%Z \/ x (top - 1)%Z <= p ->
    eval_after1 fb nbe x top f hist p = if nbe then Direct (f p) else Err.
  Proof.
    intros H. rewrite history_independent_1d. apply pure1_outside.
    apply (locate1_outside x top Hinc); [lia|exact H].
  Qed.

  Theorem after1_inside hist p : x 1%Z <= p -> p < x (top - 1)%Z ->
    exists v, eval_after1 fb nbe x top f hist p = Val v.
  Proof.
    intros H1 H2. destruct (locate1_inside x top p Hinc Htop H1 H2) as (i & L).
    destruct (after1_spec hist p i L) as (v & E & _). exists v. exact E.
  Qed.

  (* equally spaced cell: quadratics exact; distance to any affine function bounded by 5/4 of the
     largest deviation of the four samples from it *)
  Definition uniform_cell (i : Z) (h : Q) : Prop :=
    0 < h /\ x (i - 1)%Z == x i - h /\ x (i + 1)%Z == x i + h /\ x (i + 2)%Z == x i + 2 * h.

  Theorem after1_quadratic A B C hist p i h v : (forall t, f t == A + B * t + C * t * t) ->
    uniform_cell i h -> locate1 x top p = Some i ->
    eval_after1 fb nbe x top f hist p = Val v -> v == f p.
  Proof.
    intros Hf (Hh & Um & U1 & U2) L E.
    destruct (after1_spec hist p i L) as (v' & E' & V). rewrite E in E'. injection E' as <-.
    rewrite V. unfold spec1.
    assert (Dm : f (x (i - 1)%Z) == A + B * (x i - h) + C * (x i - h) * (x i - h)) by (rewrite Hf, Um; reflexivity).
    assert (D1 : f (x (i + 1)%Z) == A + B * (x i + h) + C * (x i + h) * (x i + h)) by (rewrite Hf, U1; reflexivity).
    assert (D2 : f (x (i + 2)%Z) == A + B * (x i + 2 * h) + C * (x i + 2 * h) * (x i + 2 * h)) by (rewrite Hf, U2; reflexivity).
    rewrite (HL_ext _ _ _ _ _ _ _ _ _ _ _ _ _ _ _ _ _ _ Um (Qeq_refl _) U1 U2 Dm (Hf _) D1 D2 (Qeq_refl p)).
    rewrite (HL_quadratic_uniform (x i) h A B C p) by lra. symmetry. apply Hf.
  Qed.

  Theorem after1_stability a b E hist p i h v :
    uniform_cell i h -> locate1 x top p = Some i ->
    (forall k, (i - 1 <= k <= i + 2)%Z -> - E <= f (x k) - (a + b * x k) <= E) ->
    eval_after1 fb nbe x top f hist p = Val v ->
    - ((5 # 4) * E) <= v - (a + b * p) <= (5 # 4) * E.
  Proof.
    intros (Hh & Um & U1 & U2) L HE Ev.
    destruct (after1_spec hist p i L) as (v' & E' & V). rewrite Ev in E'. injection E' as <-.
    destruct (locate1_sound x top p i ltac:(lia) L) as (Hi & Hlo & Hhi).
    rewrite V. unfold spec1.
    rewrite (HL_ext _ _ _ _ _ _ _ _ _ _ _ _ _ _ _ _ _ _ Um (Qeq_refl _) U1 U2
                    (Qeq_refl _) (Qeq_refl _) (Qeq_refl _) (Qeq_refl _) (Qeq_refl p)).
    pose proof (HE (i - 1)%Z ltac:(lia)) as Em. pose proof (HE i ltac:(lia)) as E0.
    pose proof (HE (i + 1)%Z ltac:(lia)) as E1. pose proof (HE (i + 2)%Z ltac:(lia)) as E2.
    assert (Bm : b * x (i - 1)%Z == b * (x i - h)) by (rewrite Um; reflexivity).
    assert (B1 : b * x (i + 1)%Z == b * (x i + h)) by (rewrite U1; reflexivity).
    assert (B2 : b * x (i + 2)%Z == b * (x i + 2 * h)) by (rewrite U2; reflexivity).
    apply HL_uniform_stability; try assumption; try lra.

  Qed.
  Theorem after1_error_partial hist p i h v :
    uniform_cell i h -> locate1 x top p = Some i -> eval_after1 fb nbe x top f hist p = Val v ->
    (forall A B C, (forall t, f t == A + B * t + C * t * t) -> v == f p) /\
    (forall a b E, (forall k, (i - 1 <= k <= i + 2)%Z -> - E <= f (x k) - (a + b * x k) <= E) ->
                   - ((5 # 4) * E) <= v - (a + b * p) <= (5 # 4) * E).
  Proof.
    intros U L E. split.
    - intros A B C Hf. exact (after1_quadratic A B C hist p i h v Hf U L E).
    - intros a b E0 HE. exact (after1_stability a b E0 hist p i h v U L HE E).
  Qed.
End Dim1Props.
