(* C08 -- record of a finding on the unfixed code: the faithful model of parse_adf11, with the regular
   expressions of the source as of this writing (copied from coq/Gen/C08/Regex.v), mis-reads an unresolved
   ADF11 file that has three densities and a negative first log10(Te): it returns the last temperature as the
   density grid and an empty temperature grid.  The witness is the replay of the known finding
   c08:adf11-unresolved-small-density-grid-misread. *)
Require Import Cherab.Common.Qx Cherab.Model.C08_Text Cherab.Model.C08_Adf.
From Coq Require Import Ascii String.

Definition rx11_unfixed : rx11 := {|
  r11_resolved := (RSeq [RRep 0%nat None (RSeq [RSet false [CSpace]]); RRep 1%nat None (RSeq [RSet false [CRange (ascii_of_nat 48) (ascii_of_nat 57)]])]);
  r11_first_sep := (RSeq [RBol; RRep 0%nat None (RSeq [RSet false [CSpace]]); RRep 0%nat (Some 0%nat) (RSeq [RLit (ascii_of_nat 67)]); RRep 2%nat None (RSeq [RLit (ascii_of_nat 45)])]);
  r11_sep := (RSeq [RBol; RRep 0%nat None (RSeq [RSet false [CSpace]]); RRep 0%nat None (RSeq [RLit (ascii_of_nat 67)]); RRep 2%nat None (RSeq [RLit (ascii_of_nat 45)])]);
  r11_end_c := (RSeq [RBol; RRep 0%nat None (RSeq [RSet false [CSpace]]); RRep 1%nat (Some 1%nat) (RSeq [RLit (ascii_of_nat 67)]); RRep 2%nat None (RSeq [RLit (ascii_of_nat 45)])]);
  r11_end_dash := (RSeq [RBol; RRep 0%nat None (RSeq [RSet false [CSpace]]); RRep 0%nat (Some 1%nat) (RSeq [RLit (ascii_of_nat 67)]); RRep 2%nat None (RSeq [RLit (ascii_of_nat 45)])]);
  r11_c_line := (RSeq [RBol; RRep 0%nat None (RSeq [RSet false [CSpace]]); RLit (ascii_of_nat 67); RLit (ascii_of_nat 10)]);
  r11_z1 := (RSeq [RLit (ascii_of_nat 90); RLit (ascii_of_nat 49); RRep 0%nat None (RSeq [RSet false [CSpace]]); RRep 0%nat None (RSeq [RLit (ascii_of_nat 61)]); RRep 0%nat None (RSeq [RSet false [CSpace]]); RRep 1%nat None (RSeq [RSet false [CRange (ascii_of_nat 48) (ascii_of_nat 57)]]); RRep 0%nat None (RSeq [RSet false [CSpace]])])
|}.

Definition witness : str := S_ "    6    3    9    1    1     /CARBON             /GCR PROJECT
--------------------------------------------------------------------------------
   7.22723   7.31737   8.42126
  -0.54630  -0.25368  -0.16294   0.31738   1.15386   1.55616   2.02009   3.62816
   3.89181
--------------------/ IGRD= 1  / IPRT= 1  /--------/ Z1= 1   / DATE= 22/04/90
  -5.41886 -17.55908 -15.58829
 -13.94871 -38.36182 -35.44187
 -28.64290  -5.69145 -36.73237
 -10.47681 -25.54924 -13.04826
 -23.28698  -6.72368 -24.45815
 -33.77997 -29.49731 -17.18087
  -6.22028 -12.93280  -5.36762
  -9.78624 -24.84817 -17.15216
 -30.06932 -18.22837  -7.57567
--------------------------------------------------------------------------------
C
C  synthetic iso-nuclear master file written by the C08 check
C-------------------------------------------------------------------------------
".

Example adf11_small_grid_refuted_unfixed :
  match parse_adf11 rx11_unfixed 6 (S_ "carbon") (lines witness) with
  | Ok [e] => nth 0 (e_vals e) [] = [389181 # 100000] /\ nth 1 (e_vals e) [] = [] /\ e_shape e = [3%Z; 9%Z]
  | _ => False
  end.
Proof. vm_compute. repeat split; reflexivity. Qed.
