(* C07 -- raysect's 1-D cubic interpolant returns the stored value at every knot: for every number
   of knots >= 2, every strictly increasing knot vector, every value vector -- whatever the
   derivative estimates are. *)
Require Import Cherab.Common.Qx Cherab.Model.C07_Rates Cherab.Model.C07_Cubic.
From Coq Require Import Lqa Qabs.
Open Scope Q_scope.

Lemma cubic_poly_0 f0 f1 d0 d1 nx : nx == 0 -> cubic_poly f0 f1 d0 d1 nx == f0.
Proof. intro E. unfold cubic_poly. cbv zeta. rewrite E. ring. Qed.

Lemma cubic_poly_1 f0 f1 d0 d1 nx : nx == 1 -> cubic_poly f0 f1 d0 d1 nx == f1.
Proof. intro E. unfold cubic_poly. cbv zeta. rewrite E. ring. Qed.

Lemma count_le_knot n k i : increasingq n k -> (i < n)%nat -> forall m, (m < n)%nat ->
  count_le m k (k i) = Nat.min i m.
Proof.
  intros Inc Hi. induction m as [|m IH]; intro Hm; [rewrite Nat.min_0_r; reflexivity|].
  cbn [count_le]. rewrite IH by lia.
  destruct (Qle_bool (k (S m)) (k i)) eqn:E.
  - apply Qle_bool_iff in E.
    assert (S m <= i)%nat.
    { destruct (Nat.le_gt_cases (S m) i) as [?|Hgt]; auto.
      assert (k i < k (S m)) by (apply Inc; lia). lra. }
    lia.
  - assert (i < S m)%nat.
    { destruct (Nat.lt_ge_cases i (S m)) as [?|Hge]; auto.
      exfalso. assert (Hle : k (S m) <= k i).
      { destruct (Nat.eq_dec (S m) i) as [->|Hne]; [lra|]. apply Qlt_le_weak, Inc. lia. }
      apply Qle_bool_iff in Hle. congruence. }
    lia.
Qed.

Lemma find_index_knot n k i : increasingq n k -> (i < n)%nat -> find_index n k (k i) = Nat.min i (n - 1).
Proof. intros Inc Hi. unfold find_index. apply (count_le_knot n k i Inc Hi). lia. Qed.

Theorem cubic1_knot n k v i : (2 <= n)%nat -> increasingq n k -> (i < n)%nat -> cubic1 n k v (k i) == v i.
Proof.
  intros Hn Inc Hi. unfold cubic1.
  destruct (Qeq_bool (k i) (k (n - 1)%nat)) eqn:E.
  - apply Qeq_bool_iff in E.
    assert (i = n - 1)%nat.
    { destruct (Nat.eq_dec i (n - 1)) as [?|Hne]; auto.
      assert (k i < k (n - 1)%nat) by (apply Inc; lia). lra. }
    subst i. unfold cubic_cell.
    replace (S (n - 2)) with (n - 1)%nat by lia.
    apply cubic_poly_1.
    assert (k (n - 2)%nat < k (n - 1)%nat) by (apply Inc; lia).
    field. lra.
  - assert (Hlt : (i < n - 1)%nat).
    { destruct (Nat.eq_dec i (n - 1)) as [->|Hne]; [|lia].
      exfalso. assert (T : Qeq_bool (k (n - 1)%nat) (k (n - 1)%nat) = true) by (apply Qeq_bool_iff; reflexivity).
      congruence. }
    rewrite find_index_knot by auto. rewrite Nat.min_l by lia.
    unfold cubic_cell. apply cubic_poly_0.
    assert (k i < k (S i)) by (apply Inc; lia).
    field. lra.
Qed.

(* the reduced evaluator computes the same rational *)
Lemma d_mid_r_eq k v i : d_mid_r k v i == d_mid k v i.
Proof. unfold d_mid_r, d_mid. cbv zeta. rewrite !Qred_correct. reflexivity. Qed.

Lemma derivative_r_eq n k v i b : derivative_r n k v i b == derivative n k v i b.
Proof.
  unfold derivative_r, derivative. destruct (Nat.eqb i 0); [reflexivity|].
  destruct (Nat.eqb i (n - 1)); [reflexivity|]. cbv zeta.
  destruct b; rewrite ?Qred_correct, d_mid_r_eq; reflexivity.
Qed.

Lemma cubic_poly_proper f0 f1 d0 d0' d1 d1' nx nx' : d0 == d0' -> d1 == d1' -> nx == nx' ->
  cubic_poly f0 f1 d0 d1 nx == cubic_poly f0 f1 d0' d1' nx'.
Proof. intros E0 E1 En. unfold cubic_poly. cbv zeta. rewrite E0, E1, En. reflexivity. Qed.

Lemma cubic_cell_r_eq n k v i x : cubic_cell_r n k v i x == cubic_cell n k v i x.
Proof.
  unfold cubic_cell_r, cubic_cell. rewrite Qred_correct.
  apply cubic_poly_proper; auto using derivative_r_eq, Qred_correct.
Qed.

Theorem cubic1_r_eq n k v x : cubic1_r n k v x == cubic1 n k v x.
Proof. unfold cubic1_r, cubic1. destruct (Qeq_bool x (k (n - 1)%nat)); apply cubic_cell_r_eq. Qed.

(* ---- the 1-D oracle laws are theorems for this interpolator --------------------------------------
   Log domain L := Q (the doubles that hold log10 values are rationals).  What remains assumed is only
   about log10, 10** and the addition of two log values (ladd stays abstract: over Q no exact
   homomorphism from + to * inverts a function onto the positive rationals, so with ladd := + the laws
   could only hold up to rounding; they are satisfiable as stated, see log_laws_witness): *)
Record log_laws (lg : Q -> Q) (ex : Q -> Q) (ladd : Q -> Q -> Q) : Prop := {
  ll_ex_lg : forall v, 0 < v -> ex (lg v) == v;
  ll_ex_add : forall a b, ex (ladd a b) == ex a * ex b;
  ll_ex_nonneg : forall a, 0 <= ex a;
  ll_ex_proper : forall a b, a == b -> ex a == ex b;
  ll_lg_mono : forall a b, 0 < a -> a < b -> lg a < lg b
}.

Lemma log_axis_increasing lg ex ladd n k : log_laws lg ex ladd -> log_axis lg n k -> (2 <= n)%nat /\ increasingq n k.
Proof.
  intros LL (xs & (_ & S & P) & H2 & -> & E). split; auto.
  intros i j Hij. rewrite !E. apply (ll_lg_mono lg ex ladd LL).
  - apply P. lia.
  - apply S. lia.
Qed.

(* with raysect's cubic in both 1-D slots, oracle_laws follows from the log/exp laws and the 2-D / 3-D
   knot laws alone *)
Lemma oracle_laws_cubic1 lg ex ladd interp2 interp3 :
  log_laws lg ex ladd ->
  (forall nx ny kx ky v i j, distinct ex nx kx -> distinct ex ny ky -> (i < nx)%nat -> (j < ny)%nat ->
     ex (interp2 nx ny kx ky v (kx i) (ky j)) == ex (v i j)) ->
  (forall nx ny nz kx ky kz v i j k, distinct ex nx kx -> distinct ex ny ky -> distinct ex nz kz ->
     (i < nx)%nat -> (j < ny)%nat -> (k < nz)%nat ->
     ex (interp3 nx ny nz kx ky kz v (kx i) (ky j) (kz k)) == ex (v i j k)) ->
  oracle_laws Q lg ex ladd cubic1 interp2 interp3 cubic1.
Proof.
  intros LL K2 K3. constructor; try apply LL; auto.
  - intros n k v i LA Hi. destruct (log_axis_increasing lg ex ladd n k LL LA) as [H2 Inc].
    apply (ll_ex_proper lg ex ladd LL). apply cubic1_knot; auto.
  - intros n k v i H2 Inc Hi. apply cubic1_knot; auto.
Qed.

(* ---- consequences for the rate classes that only use 1-D interpolators ------------------------- *)
Require Import Cherab.Model.C07_Check Cherab.Proofs.C07_Check Cherab.Proofs.C07_Rates.

(* some 2-D / 3-D interpolant through the knots (value stored at the knot whose 10** equals that of the
   argument); only needed to instantiate the general lemmas where no 2-D interpolation takes place *)
Definition ghit (ex : Q -> Q) (k : nat -> Q) (x : Q) : nat -> bool := fun i => Qeq_bool (ex (k i)) (ex x).
Definition glook2 (ex : Q -> Q) (nx ny : nat) (kx ky : nat -> Q) (v : nat -> nat -> Q) (x y : Q) : Q :=
  v (find_idx nx (ghit ex kx x)) (find_idx ny (ghit ex ky y)).
Definition glook3 (ex : Q -> Q) (nx ny nz : nat) (kx ky kz : nat -> Q) (v : nat -> nat -> nat -> Q) (x y z : Q) : Q :=
  v (find_idx nx (ghit ex kx x)) (find_idx ny (ghit ex ky y)) (find_idx nz (ghit ex kz z)).

Lemma ghit_knot ex n (k : nat -> Q) i : distinct ex n k -> (i < n)%nat -> find_idx n (ghit ex k (k i)) = i.
Proof.
  intros D Hi. apply find_idx_spec; auto.
  - unfold ghit. apply Qeq_bool_iff. reflexivity.
  - intros j Hj Hne. unfold ghit. destruct (Qeq_bool (ex (k j)) (ex (k i))) eqn:E; auto.
    apply Qeq_bool_iff in E. exfalso. exact (D j i Hj Hi Hne E).
Qed.

Lemma cubic_laws lg ex ladd : log_laws lg ex ladd -> oracle_laws Q lg ex ladd cubic1 (glook2 ex) (glook3 ex) cubic1.
Proof.
  intro LL. apply oracle_laws_cubic1; auto.
  - intros. unfold glook2. rewrite !ghit_knot by auto. reflexivity.
  - intros. unfold glook3. rewrite !ghit_knot by auto. reflexivity.
Qed.

(* BeamCXPEC uses 1-D interpolators only: with raysect's cubic the grid-point statement needs nothing
   but the log10 / 10** laws *)
Lemma evalcx_node_cubic lg ex ladd : log_laws lg ex ladd ->
  forall cf wl ext ebs tis nis zs bs qeb qti qni qz qb qref i j k l m,
  0 < cf -> 0 < wl -> 0 < qref ->
  axis ebs -> axis tis -> axis nis -> axis zs -> axis bs ->
  (i < length ebs)%nat -> (j < length tis)%nat -> (k < length nis)%nat -> (l < length zs)%nat -> (m < length bs)%nat ->
  0 < nth i qeb 0 -> 0 < nth j qti 0 -> 0 < nth k qni 0 -> 0 < nth l qz 0 -> 0 < nth m qb 0 ->
  same (evalcx Q lg ex cubic1 cubic1 (conv true cf wl) ext ebs tis nis zs bs qeb qti qni qz qb qref
               (nth i ebs 0) (nth j tis 0) (nth k nis 0) (nth l zs 0) (nth m bs 0))
       (Val (photon_to_j cf wl (nth i qeb 0 * nth j qti 0 * nth k qni 0 * nth l qz 0 * nth m qb 0
                                / (qref * qref * qref * qref)))).
Proof.
  intros LL. intros.
  apply (evalcx_node_form Q lg ex ladd cubic1 (glook2 ex) (glook3 ex) cubic1 (cubic_laws lg ex ladd LL)); auto.
Qed.

(* beam rates whose energy or density axis has a single point interpolate in 1-D only *)
Lemma beam_npl_single lg i1 i2 i2' cv es ns sen e n :
  single es || single ns = true ->
  beam_npl Q lg i1 i2 cv es ns sen e n = beam_npl Q lg i1 i2' cv es ns sen e n.
Proof. unfold beam_npl. destruct (single es), (single ns); cbn [andb orb]; intro H; try reflexivity; discriminate. Qed.

Lemma evalbeam_node_cubic_single lg ex ladd : log_laws lg ex ladd ->
  forall interp2 p cf wl ext es ns ts sen st sref i j k, 0 < cf -> 0 < wl -> 0 < sref ->
  single es || single ns = true ->
  axis es -> axis ns -> axis ts -> (i < length es)%nat -> (j < length ns)%nat -> (k < length ts)%nat ->
  0 < at2 sen i j -> 0 < nth k st 0 ->
  same (evalbeam Q lg ex ladd cubic1 interp2 (conv p cf wl) ext es ns ts sen st sref
                 (nth i es 0) (nth j ns 0) (nth k ts 0))
       (Val (conv p cf wl (at2 sen i j * nth k st 0 / sref))).
Proof.
  intros LL interp2 p cf wl ext es ns ts sen st sref i j k Hc Hw Hs Sg Ae An At Hi Hj Hk P1 P2.
  unfold evalbeam. rewrite (beam_npl_single lg cubic1 interp2 (glook2 ex)) by exact Sg.
  apply (evalbeam_node_form Q lg ex ladd cubic1 (glook2 ex) (glook3 ex) cubic1 (cubic_laws lg ex ladd LL)); auto.
Qed.

(* the log / exp laws are satisfiable (multiplicative representation of the log domain) *)
Lemma log_laws_witness : log_laws (fun v => v) Qabs Qmult.
Proof.
  constructor.
  - intros v Hv. apply Qabs_pos. lra.
  - intros a b. apply Qabs_Qmult.
  - apply Qabs_nonneg.
  - intros a b E. rewrite E. reflexivity.
  - intros a b _ H. exact H.
Qed.
