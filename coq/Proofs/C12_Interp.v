(* Normalising the grid commutes with any interpolant that is a weighted sum of node values whose weights
   sum to one: the code's psi_normalised is the model's psi_n. *)
Require Import Cherab.Common.Qx.
Require Import Cherab.Model.C12_Equilibrium Cherab.Model.C12_Interp.
Require Import Cherab.Proofs.C12_Equilibrium.
From Coq Require Import Lqa.
Open Scope Q_scope.

Lemma wsum_norm axis lcfs : ~ lcfs - axis == 0 ->
  forall w g, length w = length g ->
  wsum w (norm_grid axis lcfs g) == (wsum w g - axis * Qsum w) / (lcfs - axis).
Proof.
  intros Hd. induction w as [|a w IH]; intros g Hl.
  - destruct g; cbn [wsum norm_grid map Qsum]; field; exact Hd.
  - destruct g as [|x g]; [discriminate|]. injection Hl as Hl.
    cbn [wsum norm_grid map Qsum]. fold (norm_grid axis lcfs g). rewrite (IH g Hl). field. exact Hd.
Qed.

Lemma psin_code_is_psin axis lcfs w g :
  ~ lcfs == axis -> length w = length g -> Qsum w == 1 ->
  psin_code axis lcfs w g == clamp ((wsum w g - axis) / (lcfs - axis)) 0 None.
Proof.
  intros Hd Hl Hs. assert (Hd' : ~ lcfs - axis == 0) by (intros C; apply Hd; lra).
  unfold psin_code. apply clamp_proper. rewrite (wsum_norm axis lcfs Hd' w g Hl), Hs. field. exact Hd'.
Qed.

(* stated against the equilibrium model: for every environment whose interpolated psi at (r, z) is the
   weighted sum of the node values *)
Lemma psin_code_is_model E r z w g :
  ~ e_psi_lcfs E == e_psi_axis E -> length w = length g -> Qsum w == 1 -> e_psi E r z == wsum w g ->
  psin_code (e_psi_axis E) (e_psi_lcfs E) w g == psi_n E r z.
Proof.
  intros Hd Hl Hs Hp. rewrite (psin_code_is_psin _ _ w g Hd Hl Hs).
  unfold psi_n. apply clamp_proper. unfold psin_raw. rewrite Hp. reflexivity.
Qed.

(* hence the code's value is never negative either, and the interpolant reproduces constants *)
Lemma psin_code_nonneg axis lcfs w g : 0 <= psin_code axis lcfs w g.
Proof. unfold psin_code. apply clamp_lo_le. Qed.

Lemma wsum_const w c n : length w = n -> wsum w (repeat c n) == c * Qsum w.
Proof.
  revert n. induction w as [|a w IH]; intros n Hl; subst n; cbn [length repeat wsum Qsum]; [ring|].
  rewrite (IH (length w) eq_refl). ring.
Qed.

(* the fast evaluators of the correspondence compute the model's values *)
Lemma wsum_proper_r w : forall g g', Forall2 Qeq g g' -> wsum w g == wsum w g'.
Proof.
  induction w as [|a w IH]; intros g g' H; [reflexivity|].
  destruct H as [|x x' g g' Hx Hg]; [reflexivity|]. cbn [wsum]. rewrite Hx, (IH g g' Hg). reflexivity.
Qed.

Lemma wsum_red_ok w : forall g, wsum_red w g == wsum w g.
Proof.
  induction w as [|a w IH]; intros g; [reflexivity|]. destruct g as [|x g]; [reflexivity|].
  cbn [wsum_red wsum]. rewrite Qred_correct, IH. reflexivity.
Qed.

Lemma Qsum_red_ok l : Qsum_red l == Qsum l.
Proof. induction l as [|x l IH]; [reflexivity|]. cbn [Qsum_red Qsum]. rewrite Qred_correct, IH. reflexivity. Qed.

Lemma map_Qred_ok l : Forall2 Qeq (map Qred l) l.
Proof. induction l as [|x l IH]; cbn [map]; constructor; [apply Qred_correct | exact IH]. Qed.

Lemma psin_code_red_ok axis lcfs w g : psin_code_red axis lcfs w g == psin_code axis lcfs w g.
Proof.
  unfold psin_code_red, psin_code. apply clamp_proper.
  rewrite wsum_red_ok. apply wsum_proper_r, map_Qred_ok.
Qed.
