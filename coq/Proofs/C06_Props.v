(* C06: every public call is well formed for the refinement; the property-level corollaries. *)
From Coq Require Import ZArith List Bool String Ascii Lia.
Require Import Cherab.Model.C06_Repo Cherab.Model.C06_Spec Cherab.Proofs.C06_Keys Cherab.Proofs.C06_Refine.
Import ListNotations.
Open Scope Z_scope.
Open Scope list_scope.

(* ------------------------------------------------------------------------------------------ *)
(* the walks put every leaf into the file its key designates                                    *)
(* ------------------------------------------------------------------------------------------ *)
Definition item_path_ok (m : mode) (gp : path) (it : item) : bool :=
  path_eqb (kpath (it_key it)) gp &&
  match m with MC => subkey_eqb (ksub (it_key it)) SNone | _ => true end.
Definition group_paths_ok (m : mode) (g : group) : bool := forallb (item_path_ok m (g_path g)) (g_items g).

Ltac in_groups Hg :=
  repeat (apply in_flat_map in Hg; destruct Hg as [[? ?] [_ Hg]]);
  apply in_map_iff in Hg; destruct Hg as [[? ?] [<- _]].
Ltac in_items Hit :=
  repeat (apply in_flat_map in Hit; destruct Hit as [[? ?] [_ Hit]]);
  first [ apply in_map_iff in Hit; destruct Hit as [[? ?] [<- _]] | destruct Hit as [<-|[]] ].
Ltac walk_ok :=
  apply forallb_forall; intros g Hg; in_groups Hg;
  unfold group_paths_ok, mk_group; cbn [g_items g_path]; apply forallb_forall; intros it Hit; in_items Hit;
  unfold item_path_ok; cbn [it_key kpath ksub loc fst snd]; rewrite path_eqb_refl; reflexivity.

Lemma adf11_paths f r : forallb (group_paths_ok MA) (groups_adf11 f r) = true.
Proof. unfold groups_adf11. walk_ok. Qed.
Lemma tcx_paths r : forallb (group_paths_ok MA) (groups_tcx r) = true.
Proof. unfold groups_tcx. walk_ok. Qed.
Lemma pec_paths r : forallb (group_paths_ok MB) (groups_pec r) = true.
Proof. unfold groups_pec. walk_ok. Qed.
Lemma pectcx_paths r : forallb (group_paths_ok MB) (groups_pectcx r) = true.
Proof. unfold groups_pectcx. walk_ok. Qed.
Lemma wvl_paths r : forallb (group_paths_ok MB) (groups_wvl r) = true.
Proof. unfold groups_wvl. walk_ok. Qed.
Lemma bcx_paths r : forallb (group_paths_ok MB) (groups_bcx r) = true.
Proof. unfold groups_bcx. walk_ok. Qed.
Lemma bstop_paths r : forallb (group_paths_ok MC) (groups_bstop r) = true.
Proof. unfold groups_bstop. walk_ok. Qed.
Lemma bpop_paths r : forallb (group_paths_ok MC) (groups_bpop r) = true.
Proof. unfold groups_bpop. walk_ok. Qed.
Lemma bem_paths r : forallb (group_paths_ok MB) (groups_bem r) = true.
Proof. unfold groups_bem. walk_ok. Qed.

Definition step_paths_ok (s : mode * path * list group) : bool := forallb (group_paths_ok (fst (fst s))) (snd s).

Lemma steps_paths_ok c : forallb step_paths_ok (steps c) = true.
Proof.
  destruct c; cbn [steps]; try destruct tcx; cbn [forallb app step_paths_ok fst snd];
  rewrite ?adf11_paths, ?tcx_paths, ?pec_paths, ?pectcx_paths, ?wvl_paths, ?bcx_paths, ?bstop_paths,
          ?bpop_paths, ?bem_paths; reflexivity.
Qed.

Lemma steps_root c s : In s (steps c) -> snd (fst s) = call_root c.
Proof.
  destruct c; cbn [steps call_root]; try destruct tcx; cbn [app In];
  intros H; repeat (destruct H as [<-|H]; [reflexivity|]); destruct H.
Qed.

(* every leaf of every group of every step is listed in writes_call *)
Lemma leaf_in_writes c s g it :
  In s (steps c) -> In g (snd s) -> In it (g_items g) -> In (snd (fst s), item_kv it) (writes_call c).
Proof.
  intros Hs Hg Hit. unfold writes_call. apply in_flat_map. exists s. split; [exact Hs|].
  unfold tag. apply in_map. unfold groups_writes. apply in_flat_map. exists g. split; [exact Hg|].
  unfold group_writes. now apply in_map.
Qed.

Definition root_ok (root : path) (c : call) : Prop := call_root c = root \/ separated root (call_root c).

Lemma call_wf_of root c : call_ok c = true -> root_ok root c -> call_wf root c.
Proof.
  intros OK R. unfold call_wf. apply Forall_forall. intros s Hs. split.
  - apply Forall_forall. intros g Hg.
    pose proof (steps_paths_ok c) as P. rewrite forallb_forall in P. specialize (P s Hs).
    unfold step_paths_ok in P. rewrite forallb_forall in P. specialize (P g Hg).
    unfold group_paths_ok in P. rewrite forallb_forall in P.
    split.
    + apply Forall_forall. intros it Hit. specialize (P it Hit). unfold item_path_ok in P.
      apply andb_true_iff in P as [P _]. split.
      * destruct (path_eqb_spec (kpath (it_key it)) (g_path g)); [assumption|discriminate].
      * unfold call_ok in OK. rewrite forallb_forall in OK.
        exact (OK _ (leaf_in_writes c s g it Hs Hg Hit)).
    + intros EM. apply Forall_forall. intros it Hit. specialize (P it Hit). unfold item_path_ok in P.
      apply andb_true_iff in P as [_ P]. rewrite EM in P.
      destruct (subkey_eqb_spec (ksub (it_key it)) SNone); [assumption|discriminate].
  - rewrite (steps_root c s Hs). exact R.
Qed.

(* ------------------------------------------------------------------------------------------ *)
(* refinement of whole histories                                                                *)
(* ------------------------------------------------------------------------------------------ *)
Definition history_ok (root : path) (cs : list call) : Prop :=
  Forall (fun c => call_ok c = true /\ root_ok root c) cs.

Lemma history_wf root cs : history_ok root cs -> Forall (call_wf root) cs.
Proof. intros H. eapply Forall_impl; [|exact H]. intros c [A B]. now apply call_wf_of. Qed.

Theorem refines_from root cs d k :
  key_ok k = true -> history_ok root cs ->
  get root k (run cs d) = awrites (at_root root (commit_history cs)) (view root d) k.
Proof. intros Hk H. apply run_refines; [exact Hk | now apply history_wf]. Qed.

Theorem refines root cs k :
  key_ok k = true -> history_ok root cs -> get root k (run cs []) = spec root cs k.
Proof. intros Hk H. rewrite (refines_from root cs [] k Hk H). apply awrites_ext. reflexivity. Qed.

(* ------------------------------------------------------------------------------------------ *)
(* committed leaves are leaves of the call; all of them when the call does not raise            *)
(* ------------------------------------------------------------------------------------------ *)
Lemma commit_items_A_sub items x : In x (fst (commit_items_A items)) -> In x (map item_kv items).
Proof.
  induction items as [|it items IH]; cbn; [auto|].
  destruct (it_ok it); cbn; [|tauto]. destruct (commit_items_A items) as [l o]; cbn in *.
  intros [<-|H]; auto.
Qed.
Lemma commit_items_A_done items : snd (commit_items_A items) = Done -> fst (commit_items_A items) = map item_kv items.
Proof.
  induction items as [|it items IH]; cbn; [auto|].
  destruct (it_ok it); cbn; [|discriminate]. destruct (commit_items_A items) as [l o]; cbn in *.
  intros H. now rewrite IH.
Qed.

Lemma commit_sub m gs x : In x (fst (commit m gs)) -> In x (groups_writes gs).
Proof.
  unfold groups_writes. destruct m; cbn [commit]; induction gs as [|g gs IH]; cbn; auto.
  - destruct (g_ok g); cbn; [|tauto].
    pose proof (commit_items_A_sub (g_items g) x) as HA.
    destruct (commit_items_A (g_items g)) as [l o]; cbn in HA. destruct o; cbn.
    + destruct (commit_A gs) as [l' o']; cbn in *. rewrite !in_app_iff. intros [H|H]; auto.
    + rewrite in_app_iff. auto.
  - destruct (g_ok g); cbn; [|tauto]. destruct (forallb it_ok (g_items g)); cbn; [|tauto].
    destruct (commit_B gs) as [l' o']; cbn in *. rewrite !in_app_iff. intros [H|H]; auto.
  - unfold group_writes. destruct (g_ok g); cbn; [|tauto].
    destruct (g_items g) as [|it [|it2 rest]]; cbn; try tauto.
    destruct (it_ok it); cbn; [|tauto]. destruct (it_ser it); cbn; [|tauto].
    destruct (commit_C gs) as [l' o']; cbn in *. intros [<-|H]; auto.
Qed.

Lemma commit_done m gs : snd (commit m gs) = Done -> fst (commit m gs) = groups_writes gs.
Proof.
  unfold groups_writes. destruct m; cbn [commit]; induction gs as [|g gs IH]; cbn; auto.
  - destruct (g_ok g); cbn; [|discriminate].
    pose proof (commit_items_A_done (g_items g)) as HA.
    destruct (commit_items_A (g_items g)) as [l o]; cbn in HA. destruct o; cbn; [|discriminate].
    destruct (commit_A gs) as [l' o']; cbn in *. intros H. rewrite IH, HA; auto.
  - destruct (g_ok g); cbn; [|discriminate]. destruct (forallb it_ok (g_items g)); cbn; [|discriminate].
    destruct (commit_B gs) as [l' o']; cbn in *. intros H. now rewrite IH.
  - unfold group_writes. destruct (g_ok g); cbn; [|discriminate].
    destruct (g_items g) as [|it [|it2 rest]]; cbn; try discriminate.
    destruct (it_ok it); cbn; [|discriminate]. destruct (it_ser it); cbn; [|discriminate].
    destruct (commit_C gs) as [l' o']; cbn in *. intros H. now rewrite IH.
Qed.

Lemma commit_steps_sub ss x :
  In x (fst (commit_steps ss)) ->
  In x (flat_map (fun s : mode * path * list group => tag (snd (fst s)) (groups_writes (snd s))) ss).
Proof.
  induction ss as [|[[m r] gs] ss IH]; cbn; [auto|].
  pose proof (commit_sub m gs) as HS.
  destruct (commit m gs) as [l o]; cbn in HS.
  assert (T : In x (tag r l) -> In x (tag r (groups_writes gs))).
  { unfold tag. rewrite !in_map_iff. intros [y [<- Hy]]. exists y. auto. }
  destruct o; cbn.
  - destruct (commit_steps ss) as [l' o']; cbn in *. rewrite !in_app_iff. intros [H|H]; auto.
  - rewrite in_app_iff. auto.
Qed.

Lemma commit_steps_done ss :
  snd (commit_steps ss) = Done ->
  fst (commit_steps ss) = flat_map (fun s : mode * path * list group => tag (snd (fst s)) (groups_writes (snd s))) ss.
Proof.
  induction ss as [|[[m r] gs] ss IH]; cbn; [auto|].
  pose proof (commit_done m gs) as HD.
  destruct (commit m gs) as [l o]; cbn in HD. destruct o; cbn; [|discriminate].
  destruct (commit_steps ss) as [l' o']; cbn in *. intros H. now rewrite IH, HD.
Qed.

Lemma commit_call_sub c x : In x (commit_call c) -> In x (writes_call c).
Proof. apply commit_steps_sub. Qed.
Lemma commit_call_done c : outcome_call c = Done -> commit_call c = writes_call c.
Proof. apply commit_steps_done. Qed.

Lemma in_at_root root l x : In x (at_root root l) <-> In (root, x) l.
Proof.
  unfold at_root. rewrite in_map_iff. split.
  - intros [[r y] [E H]]. cbn in E. subst y. apply filter_In in H as [H1 H2]. cbn in H2.
    destruct (path_eqb_spec r root); [now subst | discriminate].
  - intros H. exists (root, x). split; [reflexivity|]. apply filter_In. split; [exact H|].
    cbn. apply path_eqb_refl.
Qed.

Definition keys_at (root : path) (l : list (path * kv)) : list key := map fst (at_root root l).

Lemma keys_commit_sub root c k : In k (keys_at root (commit_call c)) -> In k (keys_at root (writes_call c)).
Proof.
  unfold keys_at. rewrite !in_map_iff. intros [x [E H]]. exists x. split; [exact E|].
  apply in_at_root. apply commit_call_sub. now apply in_at_root.
Qed.

(* ------------------------------------------------------------------------------------------ *)
(* the corollaries the property names                                                           *)
(* ------------------------------------------------------------------------------------------ *)
Lemma history_ok_app root cs cs' : history_ok root (cs ++ cs') <-> history_ok root cs /\ history_ok root cs'.
Proof. apply Forall_app. Qed.

Lemma run_app cs cs' d : run (cs ++ cs') d = run cs' (run cs d).
Proof. revert d; induction cs as [|c cs IH]; intros d; cbn; [reflexivity | apply IH]. Qed.

Lemma commit_history_one c : commit_history [c] = commit_call c.
Proof. unfold commit_history; cbn. apply app_nil_r. Qed.

(* one more call, seen through k *)
Lemma step_view root cs c k :
  key_ok k = true -> history_ok root (cs ++ [c]) ->
  get root k (run (cs ++ [c]) []) = awrites (at_root root (commit_call c)) (view root (run cs [])) k.
Proof.
  intros Hk H. apply history_ok_app in H as [_ Hc]. rewrite run_app.
  rewrite (refines_from root [c] (run cs []) k Hk Hc). now rewrite commit_history_one.
Qed.

Theorem other_keys_untouched root cs c k :
  key_ok k = true -> history_ok root (cs ++ [c]) ->
  ~ In k (keys_at root (writes_call c)) ->
  get root k (run (cs ++ [c]) []) = get root k (run cs []).
Proof.
  intros Hk H N. rewrite (step_view root cs c k Hk H).
  rewrite awrites_notin; [reflexivity|]. intros I. apply N. now apply keys_commit_sub.
Qed.

Theorem never_written_raises root cs k :
  key_ok k = true -> history_ok root cs ->
  (forall c, In c cs -> ~ In k (keys_at root (writes_call c))) ->
  get root k (run cs []) = None.
Proof.
  intros Hk H N. rewrite (refines root cs k Hk H). unfold spec.
  rewrite awrites_notin; [reflexivity|].
  unfold commit_history. intros I. apply in_map_iff in I as [x [E I]].
  apply in_at_root in I. apply in_flat_map in I as [c [Hc I]].
  apply (N c Hc). apply keys_commit_sub. unfold keys_at. apply in_map_iff. exists x. split; [exact E|].
  now apply in_at_root.
Qed.

Theorem last_write_wins root cs c cs' k v :
  key_ok k = true -> history_ok root (cs ++ c :: cs') ->
  outcome_call c = Done ->
  (forall m, awrites (at_root root (writes_call c)) m k = Some v) ->
  (forall c', In c' cs' -> ~ In k (keys_at root (writes_call c'))) ->
  get root k (run (cs ++ c :: cs') []) = Some v.
Proof.
  intros Hk H D L N.
  change (cs ++ c :: cs') with (cs ++ [c] ++ cs') in *. rewrite app_assoc in *.
  pose proof H as H0. apply history_ok_app in H0 as [H1 H2].
  rewrite run_app. rewrite (refines_from root cs' _ k Hk H2).
  rewrite awrites_notin.
  - unfold view. rewrite (step_view root cs c k Hk H1). rewrite (commit_call_done c D). apply L.
  - unfold commit_history. intros I. apply in_map_iff in I as [x [E I]].
    apply in_at_root in I. apply in_flat_map in I as [c' [Hc I]].
    apply (N c' Hc). apply keys_commit_sub. unfold keys_at. apply in_map_iff. exists x. split; [exact E|].
    now apply in_at_root.
Qed.

(* whatever the call does (return or raise), a key keeps its value or takes one of the call's values
   for that key; in particular a readable key stays readable *)
Theorem rejected_update_keeps_old root cs c k :
  key_ok k = true -> history_ok root (cs ++ [c]) ->
  get root k (run (cs ++ [c]) []) = get root k (run cs [])
  \/ exists v, In (root, (k, v)) (writes_call c) /\ get root k (run (cs ++ [c]) []) = Some v.
Proof.
  intros Hk H. rewrite (step_view root cs c k Hk H).
  destruct (awrites_cases (at_root root (commit_call c)) (view root (run cs [])) k) as [E|[v [I E]]].
  - left. exact E.
  - right. exists v. split; [|exact E]. apply commit_call_sub. now apply in_at_root.
Qed.

Corollary stays_readable root cs c k v :
  key_ok k = true -> history_ok root (cs ++ [c]) ->
  get root k (run cs []) = Some v -> exists v', get root k (run (cs ++ [c]) []) = Some v'.
Proof.
  intros Hk H G. destruct (rejected_update_keeps_old root cs c k Hk H) as [E|[v' [_ E]]].
  - exists v. congruence.
  - exists v'. exact E.
Qed.

(* ------------------------------------------------------------------------------------------ *)
(* every file lies under the root of the call that created it                                   *)
(* ------------------------------------------------------------------------------------------ *)
Lemma is_prefix_app r x : is_prefix r (r ++ x) = true.
Proof. induction r as [|a r IH]; cbn; [reflexivity|]. now rewrite String.eqb_refl, IH. Qed.

Lemma files_exec m r gs d p :
  In p (files (fst (exec m r gs d))) -> In p (files d) \/ is_prefix r p = true.
Proof.
  destruct m; cbn [exec]; revert d; induction gs as [|g gs IH]; intros d; cbn; auto.
  - destruct (g_ok g); cbn; auto.
    assert (HA : forall items content d0,
               In p (files (fst (exec_A_items (r ++ g_path g) items content d0))) ->
               In p (files d0) \/ is_prefix r p = true).
    { induction items as [|it items IHi]; intros content d0; cbn; auto.
      destruct (it_ok it); cbn; auto. intros H. apply IHi in H as [H|H]; auto.
      apply files_write in H as [->|H]; auto. right. apply is_prefix_app. }
    specialize (HA (g_items g) (read_or_empty (r ++ g_path g) d) d).
    destruct (exec_A_items (r ++ g_path g) (g_items g) (read_or_empty (r ++ g_path g) d) d) as [d1 o1].
    cbn in HA. destruct o1; cbn; auto. intros H. apply IH in H as [H|H]; auto.
  - destruct (g_ok g); cbn; auto.
    destruct (set_items (g_items g) (read_or_empty (r ++ g_path g) d)); cbn; auto.
    intros H. apply IH in H as [H|H]; auto.
    apply files_write in H as [->|H]; auto. right. apply is_prefix_app.
  - destruct (g_ok g); cbn; auto.
    destruct (g_items g) as [|it [|it2 rest]]; cbn; auto.
    destruct (it_ok it); cbn; auto. destruct (it_ser it); cbn; auto.
    intros H. apply IH in H as [H|H]; auto.
    apply files_write in H as [->|H]; auto. right. apply is_prefix_app.
Qed.

Lemma files_run_steps ss d p :
  In p (files (fst (run_steps ss d))) ->
  In p (files d) \/ exists s, In s ss /\ is_prefix (snd (fst s)) p = true.
Proof.
  revert d; induction ss as [|[[m r] gs] ss IH]; intros d; cbn [run_steps]; [auto|].
  pose proof (files_exec m r gs d p) as HE.
  destruct (exec m r gs d) as [d1 o1]; cbn [fst] in HE. destruct o1; cbn [fst].
  - intros H. apply IH in H as [H|[s [Hs H]]].
    + apply HE in H as [H|H]; auto. right. exists (m, r, gs). split; [now left | exact H].
    + right. exists s. split; [now right | exact H].
  - intros H. apply HE in H as [H|H]; auto. right. exists (m, r, gs). split; [now left | exact H].
Qed.

Theorem writes_under_root cs d p :
  In p (files (run cs d)) ->
  In p (files d) \/ exists c, In c cs /\ is_prefix (call_root c) p = true.
Proof.
  revert d; induction cs as [|c cs IH]; intros d; cbn [run]; [auto|].
  intros H. apply IH in H as [H|[c' [Hc H]]].
  - unfold run_call in H. apply files_run_steps in H as [H|[s [Hs H]]]; auto.
    right. exists c. split; [now left|]. now rewrite <- (steps_root c s Hs).
  - right. exists c'. split; [now right | exact H].
Qed.

(* separatedb decides separation *)
Lemma separatedb_sound r r' : separatedb r r' = true -> separated r r'.
Proof.
  revert r'; induction r as [|a r IH]; destruct r' as [|b r']; cbn; try discriminate.
  intros H x y E. injection E as E1 E2.
  apply orb_true_iff in H as [H|H].
  - subst b. rewrite String.eqb_refl in H. discriminate.
  - exact (IH r' H x y E2).
Qed.
