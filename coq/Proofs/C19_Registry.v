(* C19 -- lemmas about the registry model (Model/C19_Registry.v). *)
Require Import Cherab.Common.Qx.
From Coq Require Import String Ascii DecimalString Qabs.
Require Import Cherab.Model.C19_Registry.
Local Open Scope Z_scope.

(* ------------------------------------------------------------------------------------------ *)
(* strings                                                                                     *)
(* ------------------------------------------------------------------------------------------ *)
Lemma lower_app a b : lower (sapp a b) = sapp (lower a) (lower b).
Proof. unfold sapp. induction a as [|c a IH]; simpl; [reflexivity | rewrite IH; reflexivity]. Qed.

Lemma lower_uint d : lower (NilEmpty.string_of_uint d) = NilEmpty.string_of_uint d.
Proof. induction d; simpl; try rewrite IHd; reflexivity. Qed.

Lemma lower_zstr z : lower (zstr z) = zstr z.
Proof.
  unfold zstr. destruct (Z.to_int z) as [d|d]; unfold NilZero.string_of_int, NilZero.string_of_uint.
  - destruct d; try reflexivity; apply lower_uint.
  - destruct d; try reflexivity; cbn [lower]; f_equal; apply lower_uint.
Qed.

(* ------------------------------------------------------------------------------------------ *)
(* association lists                                                                           *)
(* ------------------------------------------------------------------------------------------ *)
Lemma fold_cons_in {A} (o : A) ks : forall (ix : index A) k x,
  In (k, x) (fold_left (fun acc k0 => (k0, o) :: acc) ks ix) <-> In (k, x) ix \/ (x = o /\ In k ks).
Proof.
  induction ks as [|k0 ks IH]; intros ix k x; simpl.
  - tauto.
  - rewrite IH. simpl. split.
    + intros [[H|H]|H].
      * inversion H; subst. right; split; auto.
      * left; exact H.
      * right; tauto.
    + intros [H|[H1 [H2|H2]]].
      * left; right; exact H.
      * subst. left; left; reflexivity.
      * right; tauto.
Qed.

Lemma build_index_in_gen {A} (keys : A -> list string) objs : forall (ix : index A) k x,
  In (k, x) (fold_left (add_keys keys) objs ix) <-> In (k, x) ix \/ (In x objs /\ In k (keys x)).
Proof.
  induction objs as [|o objs IH]; intros ix k x; simpl.
  - tauto.
  - rewrite IH. unfold add_keys at 1. rewrite fold_cons_in. split.
    + intros [[H|[H1 H2]]|[H1 H2]]; subst; auto.
    + intros [H|[[H1|H1] H2]]; subst; auto.
Qed.

Lemma build_index_in {A} (keys : A -> list string) objs k x :
  In (k, x) (build_index keys objs) <-> In x objs /\ In k (keys x).
Proof. unfold build_index. rewrite build_index_in_gen. simpl. tauto. Qed.

Lemma idx_get_some {A} (ix : index A) k x : idx_get ix k = Some x -> In (k, x) ix.
Proof.
  induction ix as [|[k' v] t IH]; simpl; [discriminate|].
  destruct (String.eqb_spec k' k).
  - intros H; inversion H; subst; auto.
  - auto.
Qed.

Lemma idx_get_none {A} (ix : index A) k : idx_get ix k = None -> forall x, ~ In (k, x) ix.
Proof.
  induction ix as [|[k' v] t IH]; simpl; [auto|].
  destruct (String.eqb_spec k' k); [discriminate|].
  intros H x [E|E]; [inversion E; congruence | eapply IH; eauto].
Qed.

(* ------------------------------------------------------------------------------------------ *)
(* boolean predicates                                                                          *)
(* ------------------------------------------------------------------------------------------ *)
Lemma existsb_eqb_in k l : existsb (String.eqb k) l = true <-> In k l.
Proof.
  rewrite existsb_exists. split.
  - intros [x [H1 H2]]. apply String.eqb_eq in H2. subst; exact H1.
  - intros H; exists k; split; [exact H | apply String.eqb_refl].
Qed.

Lemma disjointb_spec l1 l2 k : disjointb l1 l2 = true -> In k l1 -> In k l2 -> False.
Proof.
  unfold disjointb. rewrite forallb_forall. intros H H1 H2.
  specialize (H k H1). apply negb_true_iff in H.
  apply existsb_eqb_in in H2. congruence.
Qed.

Lemma pairwise_disjoint_spec {A} (nm : A -> string) keys (l : list A) :
  pairwise_disjoint nm keys l = true ->
  forall a b k, In a l -> In b l -> In k (keys a) -> In k (keys b) -> nm a = nm b.
Proof.
  unfold pairwise_disjoint. rewrite forallb_forall. intros H a b k Ha Hb Ka Kb.
  specialize (H (nm a, keys a) (in_map (fun a => (nm a, keys a)) l a Ha)).
  rewrite forallb_forall in H.
  specialize (H (nm b, keys b) (in_map (fun a => (nm a, keys a)) l b Hb)).
  cbn [fst snd] in H. apply orb_true_iff in H. destruct H as [H|H].
  - apply String.eqb_eq; exact H.
  - exfalso; eapply disjointb_spec; eauto.
Qed.

Lemma nodupb_spec l : nodupb l = true -> NoDup l.
Proof.
  induction l as [|x t IH]; simpl; intros H; [constructor|].
  apply andb_true_iff in H. destruct H as [H1 H2]. constructor; [|auto].
  intros Hin. apply existsb_eqb_in in Hin. rewrite Hin in H1. discriminate.
Qed.

Lemma NoDup_map_inj {A} (f : A -> string) (l : list A) :
  NoDup (map f l) -> forall a b, In a l -> In b l -> f a = f b -> a = b.
Proof.
  induction l as [|x t IH]; simpl; intros H a b Ha Hb E; [contradiction|].
  inversion H as [|? ? Hnot Hrest]; subst.
  destruct Ha as [Ha|Ha], Hb as [Hb|Hb]; subst; auto.
  - exfalso; apply Hnot. rewrite E. apply in_map; exact Hb.
  - exfalso; apply Hnot. rewrite <- E. apply in_map; exact Ha.
Qed.

(* the central fact: when different objects never write the same key, looking a key of [o] up
   in the index built from any list containing [o] returns [o] -- for every list length *)
Lemma index_lookup {A} (nm : A -> string) keys (l : list A) :
  pairwise_disjoint nm keys l = true -> NoDup (map nm l) ->
  forall o k, In o l -> In k (keys o) -> idx_get (build_index keys l) k = Some o.
Proof.
  intros Hpd Hnd o k Ho Hk.
  destruct (idx_get (build_index keys l) k) as [o'|] eqn:E.
  - apply idx_get_some in E. apply build_index_in in E. destruct E as [Ho' Hk'].
    f_equal. eapply NoDup_map_inj; eauto. eapply pairwise_disjoint_spec; eauto.
  - exfalso. eapply idx_get_none; [exact E|]. apply build_index_in. split; eauto.
Qed.

(* and a key that no object writes is not found *)
Lemma index_miss {A} keys (l : list A) k :
  (forall o, In o l -> ~ In k (keys o)) -> idx_get (build_index keys l) k = None.
Proof.
  intros H. destruct (idx_get (build_index keys l) k) as [o'|] eqn:E; [|reflexivity].
  apply idx_get_some in E. apply build_index_in in E. destruct E as [Ho' Hk']. exfalso; eapply H; eauto.
Qed.

(* ------------------------------------------------------------------------------------------ *)
(* well-formed registries                                                                      *)
(* ------------------------------------------------------------------------------------------ *)
Lemma names_split r :
  map species_name (all_species r) = map e_name (elements r) ++ map i_name (isotopes r).
Proof. unfold all_species. rewrite map_app, !map_map. reflexivity. Qed.

Lemma Qeqb_struct_eq a b : Qeqb_struct a b = true -> a = b.
Proof.
  unfold Qeqb_struct. intros H. apply andb_true_iff in H. destruct H as [H1 H2].
  apply Z.eqb_eq in H1. apply Pos.eqb_eq in H2. destruct a, b; simpl in *; subst; reflexivity.
Qed.

Lemma element_eqb_eq a b : element_eqb a b = true -> a = b.
Proof.
  unfold element_eqb. rewrite !andb_true_iff. intros [[[H1 H2] H3] H4].
  apply String.eqb_eq in H1, H2. apply Z.eqb_eq in H3. apply Qeqb_struct_eq in H4.
  destruct a, b; simpl in *; subst; reflexivity.
Qed.

Record wf_spec (r : registry) : Prop := {
  ws_names : NoDup (map species_name (all_species r));
  ws_ekeys : pairwise_disjoint e_name element_keys (elements r) = true;
  ws_ikeys : pairwise_disjoint i_name isotope_keys (isotopes r) = true;
  ws_periodic : forall e, In e (elements r) -> in_periodic_table e = true;
  ws_iso : forall i, In i (isotopes r) -> isotope_ok r i = true }.

Lemma wf_parts r : wf r = true -> wf_spec r.
Proof.
  unfold wf. rewrite !andb_true_iff. intros [[[[H1 H2] H3] H4] H5].
  constructor; auto using nodupb_spec.
  - apply forallb_forall; exact H4.
  - apply forallb_forall; exact H5.
Qed.

Lemma NoDup_app_parts {A} (l l' : list A) : NoDup (l ++ l') -> NoDup l /\ NoDup l'.
Proof.
  induction l as [|x l IH]; simpl; intros H.
  - split; [constructor | exact H].
  - inversion H as [|? ? Hnot Hrest]; subst. destruct (IH Hrest) as [H1 H2]. split; [|exact H2].
    constructor; [|exact H1]. intros Hin; apply Hnot; apply in_or_app; left; exact Hin.
Qed.

Lemma wf_enames r : wf_spec r -> NoDup (map e_name (elements r)).
Proof. intros W. pose proof (ws_names r W) as H. rewrite names_split in H. apply NoDup_app_parts in H. tauto. Qed.

Lemma wf_inames r : wf_spec r -> NoDup (map i_name (isotopes r)).
Proof. intros W. pose proof (ws_names r W) as H. rewrite names_split in H. apply NoDup_app_parts in H. tauto. Qed.

Lemma element_key_lookup r : wf r = true -> forall e k, In e (elements r) -> In k (element_keys e) ->
  idx_get (element_index r) k = Some e.
Proof.
  intros W e k He Hk. apply wf_parts in W. unfold element_index.
  eapply index_lookup; eauto using ws_ekeys, wf_enames.
Qed.

Lemma isotope_key_lookup r : wf r = true -> forall i k, In i (isotopes r) -> In k (isotope_keys i) ->
  idx_get (isotope_index r) k = Some i.
Proof.
  intros W i k Hi Hk. apply wf_parts in W. unfold isotope_index.
  eapply index_lookup; eauto using ws_ikeys, wf_inames.
Qed.

(* ---- lookups --------------------------------------------------------------------------------- *)
Definition element_spelling (e : element) (s : string) : Prop :=
  lower s = lower (e_name e) \/ lower s = lower (e_symbol e) \/ lower s = zstr (e_Z e).

Lemma lookup_element_str r : wf r = true -> forall e, In e (elements r) ->
  forall s, element_spelling e s -> lookup_element r (VStr s) = Ok e.
Proof.
  intros W e He s Hs. unfold lookup_element, lookup_element_ix. cbn [py_str].
  rewrite (element_key_lookup r W e (lower s) He); [reflexivity|].
  unfold element_keys. destruct Hs as [H|[H|H]]; rewrite H; simpl; auto.
Qed.

Lemma lookup_element_int r : wf r = true -> forall e, In e (elements r) ->
  lookup_element r (VInt (e_Z e)) = Ok e.
Proof.
  intros W e He. unfold lookup_element, lookup_element_ix. cbn [py_str]. rewrite lower_zstr.
  rewrite (element_key_lookup r W e (zstr (e_Z e)) He); [reflexivity|]. simpl; auto.
Qed.

Lemma lookup_element_obj r e : lookup_element r (VSpecies (SE e)) = Ok e.
Proof. reflexivity. Qed.

Definition isotope_spelling (i : isotope) (s : string) : Prop :=
  lower s = lower (i_name i) \/ lower s = lower (i_symbol i)
  \/ lower s = lower (sapp (e_symbol (i_element i)) (zstr (i_A i)))
  \/ lower s = lower (sapp (e_name (i_element i)) (zstr (i_A i))).

Lemma truthy_none_or_zero n : n = None \/ n = Some 0 -> truthy n = None.
Proof. intros [H|H]; subst; reflexivity. Qed.

Lemma lookup_isotope_str r : wf r = true -> forall i, In i (isotopes r) ->
  forall s n, isotope_spelling i s -> n = None \/ n = Some 0 -> lookup_isotope r (VStr s) n = Ok i.
Proof.
  intros W i Hi s n Hs Hn. unfold lookup_isotope, lookup_isotope_ix, lookup_isotope_core.
  rewrite (truthy_none_or_zero n Hn). cbn [py_str option_map].
  rewrite (isotope_key_lookup r W i (lower s) Hi); [reflexivity|].
  unfold isotope_keys. destruct Hs as [H|[H|[H|H]]]; rewrite H; try rewrite lower_app, lower_zstr; simpl; auto.
Qed.

Lemma wf_mass_nonzero r : wf r = true -> forall i, In i (isotopes r) -> i_A i <> 0.
Proof.
  intros W i Hi. apply wf_parts in W. pose proof (ws_iso r W i Hi) as H.
  unfold isotope_ok in H. rewrite !andb_true_iff in H. destruct H as [[[[_ _] _] H] _].
  apply Z.leb_le in H. lia.
Qed.

(* element given in any way that lookup_element resolves to the isotope's element, plus the mass number *)
(* the general form: any argument (string, int, Element object, any other object) that
   lookup_element resolves to the isotope's element, and any truthy number whose str() is the
   decimal mass number (an int, a numpy integer, the string "2" ...) *)
Lemma lookup_isotope_core_number r : wf r = true -> forall i, In i (isotopes r) ->
  forall v, (forall j, v <> VSpecies (SI j)) -> lookup_element r v = Ok (i_element i) ->
  lookup_isotope_core (element_index r) (isotope_index r) v (Some (zstr (i_A i))) = Ok i.
Proof.
  intros W i Hi v Hv Hl. unfold lookup_isotope_core. unfold lookup_element in Hl.
  destruct v as [s|z|[e|j]|s].
  - rewrite Hl. rewrite lower_app, lower_zstr.
    rewrite (isotope_key_lookup r W i _ Hi); [reflexivity|]. simpl; auto.
  - rewrite Hl. rewrite lower_app, lower_zstr.
    rewrite (isotope_key_lookup r W i _ Hi); [reflexivity|]. simpl; auto.
  - rewrite Hl. rewrite lower_app, lower_zstr.
    rewrite (isotope_key_lookup r W i _ Hi); [reflexivity|]. simpl; auto.
  - exfalso; eapply Hv; reflexivity.
  - rewrite Hl. rewrite lower_app, lower_zstr.
    rewrite (isotope_key_lookup r W i _ Hi); [reflexivity|]. simpl; auto.
Qed.

Lemma lookup_isotope_number r : wf r = true -> forall i, In i (isotopes r) ->
  forall v, (forall j, v <> VSpecies (SI j)) -> lookup_element r v = Ok (i_element i) ->
  lookup_isotope r v (Some (i_A i)) = Ok i.
Proof.
  intros W i Hi v Hv Hl. unfold lookup_isotope, lookup_isotope_ix.
  assert (T : truthy (Some (i_A i)) = Some (i_A i)).
  { unfold truthy. destruct (Z.eqb_spec (i_A i) 0) as [E|E]; [|reflexivity].
    exfalso; eapply wf_mass_nonzero; eauto. }
  rewrite T. cbn [option_map]. apply lookup_isotope_core_number; assumption.
Qed.

(* any other object whose str() spells an identifier of the element (numpy.str_('He'), numpy.int64(2), ...) *)
Lemma lookup_element_other r : wf r = true -> forall e, In e (elements r) ->
  forall s, element_spelling e s -> lookup_element r (VOther s) = Ok e.
Proof.
  intros W e He s Hs. unfold lookup_element, lookup_element_ix. cbn [py_str].
  rewrite (element_key_lookup r W e (lower s) He); [reflexivity|].
  unfold element_keys. destruct Hs as [H|[H|H]]; rewrite H; simpl; auto.
Qed.

Lemma lookup_isotope_obj r i n : lookup_isotope r (VSpecies (SI i)) n = Ok i.
Proof. reflexivity. Qed.

(* a string that is no key of any element is rejected, not silently resolved *)
Lemma lookup_element_unknown r s :
  (forall e, In e (elements r) -> ~ In (lower s) (element_keys e)) -> lookup_element r (VStr s) = ErrValue.
Proof.
  intros H. unfold lookup_element, lookup_element_ix, element_index. cbn [py_str].
  rewrite index_miss; auto.
Qed.

Lemma lookup_isotope_unknown r s :
  (forall i, In i (isotopes r) -> ~ In (lower s) (isotope_keys i)) -> lookup_isotope r (VStr s) None = ErrValue.
Proof.
  intros H. unfold lookup_isotope, lookup_isotope_ix, lookup_isotope_core, isotope_index. cbn [py_str truthy option_map].
  rewrite index_miss; auto.
Qed.

(* ---- uniqueness -------------------------------------------------------------------------------- *)
Lemma names_unique r : wf r = true -> forall a b, In a (all_species r) -> In b (all_species r) ->
  species_name a = species_name b -> a = b.
Proof. intros W. apply wf_parts in W. apply NoDup_map_inj. apply ws_names; exact W. Qed.

Lemma element_symbols_unique r : wf r = true -> forall a b, In a (elements r) -> In b (elements r) ->
  lower (e_symbol a) = lower (e_symbol b) -> a = b.
Proof.
  intros W a b Ha Hb E. apply wf_parts in W.
  eapply NoDup_map_inj; [apply wf_enames; exact W | exact Ha | exact Hb |].
  eapply (pairwise_disjoint_spec e_name element_keys); [apply ws_ekeys; exact W | exact Ha | exact Hb | |].
  - left; reflexivity.
  - rewrite E. left; reflexivity.
Qed.

Lemma element_numbers_unique r : wf r = true -> forall a b, In a (elements r) -> In b (elements r) ->
  e_Z a = e_Z b -> a = b.
Proof.
  intros W a b Ha Hb E. apply wf_parts in W.
  eapply NoDup_map_inj; [apply wf_enames; exact W | exact Ha | exact Hb |].
  eapply (pairwise_disjoint_spec e_name element_keys); [apply ws_ekeys; exact W | exact Ha | exact Hb | |].
  - right; right; left; reflexivity.
  - rewrite E. right; right; left; reflexivity.
Qed.

Lemma isotope_symbols_unique r : wf r = true -> forall a b, In a (isotopes r) -> In b (isotopes r) ->
  lower (i_symbol a) = lower (i_symbol b) -> a = b.
Proof.
  intros W a b Ha Hb E. apply wf_parts in W.
  eapply NoDup_map_inj; [apply wf_inames; exact W | exact Ha | exact Hb |].
  eapply (pairwise_disjoint_spec i_name isotope_keys); [apply ws_ikeys; exact W | exact Ha | exact Hb | |].
  - left; reflexivity.
  - rewrite E. left; reflexivity.
Qed.

(* element + mass number determines the isotope *)
Lemma isotope_element_mass_unique r : wf r = true -> forall a b, In a (isotopes r) -> In b (isotopes r) ->
  i_element a = i_element b -> i_A a = i_A b -> a = b.
Proof.
  intros W a b Ha Hb E1 E2. apply wf_parts in W.
  eapply NoDup_map_inj; [apply wf_inames; exact W | exact Ha | exact Hb |].
  eapply (pairwise_disjoint_spec i_name isotope_keys); [apply ws_ikeys; exact W | exact Ha | exact Hb | |].
  - right; right; left; reflexivity.
  - rewrite E1, E2. right; right; left; reflexivity.
Qed.

(* ---- periodic table, isotope consistency ----------------------------------------------------- *)
Definition periodic_row (e : element) : Prop :=
  exists z nm sy, In (z, nm, sy) periodic_table /\ e_Z e = z /\ lower (e_symbol e) = lower sy
                  /\ (lower (e_name e) = nm \/ In (z, lower (e_name e)) alternate_names).

Lemma in_periodic_table_spec e : in_periodic_table e = true -> periodic_row e.
Proof.
  unfold in_periodic_table. rewrite existsb_exists. intros [[[z nm] sy] [Hin H]].
  unfold row_matches in H. rewrite !andb_true_iff in H. destruct H as [[H1 H2] H3].
  exists z, nm, sy. apply Z.eqb_eq in H1. apply String.eqb_eq in H2.
  repeat split; auto. apply orb_true_iff in H3. destruct H3 as [H3|H3].
  - left. apply String.eqb_eq; exact H3.
  - right. apply existsb_exists in H3. destruct H3 as [[z' a] [Ha Hb]]. cbn [fst snd] in Hb.
    apply andb_true_iff in Hb. destruct Hb as [Hb1 Hb2].
    apply Z.eqb_eq in Hb1. apply String.eqb_eq in Hb2. rewrite Hb2, <- Hb1. exact Ha.
Qed.

Lemma atomic_numbers_match r : wf r = true -> forall e, In e (elements r) -> periodic_row e.
Proof. intros W e He. apply wf_parts in W. apply in_periodic_table_spec. apply (ws_periodic r W); assumption. Qed.

Lemma periodic_table_sane :
  map (fun row => fst (fst row)) periodic_table = map Z.of_nat (seq 1 118)
  /\ NoDup (map (fun row => snd (fst row)) periodic_table)
  /\ NoDup (map (fun row => lower (snd row)) periodic_table).
Proof. split; [vm_compute; reflexivity | split; apply nodupb_spec; vm_compute; reflexivity]. Qed.

Lemma isotope_consistent r : wf r = true -> forall i, In i (isotopes r) ->
  In (i_element i) (elements r) /\ i_Z i = e_Z (i_element i) /\ i_Z i <= i_A i
  /\ (Qabs (i_weight i - inject_Z (i_A i)) <= 1 # 10)%Q.
Proof.
  intros W i Hi. apply wf_parts in W. pose proof (ws_iso r W i Hi) as H.
  unfold isotope_ok in H. rewrite !andb_true_iff in H. destruct H as [[[[H1 H2] H3] _] H5].
  apply existsb_exists in H1. destruct H1 as [e [He Heq]]. apply element_eqb_eq in Heq. subst e.
  apply Z.eqb_eq in H2. apply Z.leb_le in H3. apply Qle_bool_iff in H5. auto.
Qed.

(* ---- equality and hashing ---------------------------------------------------------------------- *)
Lemma Qeq_bool_refl q : Qeq_bool q q = true.
Proof. apply Qeq_bool_iff. reflexivity. Qed.

Lemma element_eq_refl e : element_eq e e = true.
Proof. unfold element_eq. rewrite !String.eqb_refl, Z.eqb_refl, Qeq_bool_refl. reflexivity. Qed.

Lemma isotope_eq_refl i : isotope_eq i i = true.
Proof. unfold isotope_eq. rewrite !String.eqb_refl, !Z.eqb_refl, Qeq_bool_refl, element_eq_refl. reflexivity. Qed.

Lemma py_eq_refl a : py_eq a a = true.
Proof. destruct a; unfold py_eq, py_cmp; simpl; [apply element_eq_refl | apply isotope_eq_refl]. Qed.

(* != is the negation of == for every pair of species (De Morgan over the field comparisons) *)
Lemma element_ne_negb a b : element_ne a b = negb (element_eq a b).
Proof. unfold element_ne, element_eq. rewrite !negb_andb. reflexivity. Qed.

Lemma isotope_ne_negb a b : isotope_ne a b = negb (isotope_eq a b).
Proof. unfold isotope_ne, isotope_eq. rewrite !negb_andb, element_ne_negb. reflexivity. Qed.

Lemma py_ne_negb a b : py_ne a b = negb (py_eq a b).
Proof.
  destruct a, b; unfold py_ne, py_eq, py_cmp; simpl;
    rewrite ?element_ne_negb, ?isotope_ne_negb; reflexivity.
Qed.

Lemma element_eq_name a b : element_eq a b = true -> e_name a = e_name b.
Proof. unfold element_eq. rewrite !andb_true_iff. intros [[[H _] _] _]. apply String.eqb_eq; exact H. Qed.

Lemma isotope_eq_name a b : isotope_eq a b = true -> i_name a = i_name b.
Proof. unfold isotope_eq. rewrite !andb_true_iff. intros [[[[[H _] _] _] _] _]. apply String.eqb_eq; exact H. Qed.

Lemma py_eq_name a b : py_eq a b = true -> species_name a = species_name b.
Proof.
  destruct a as [a|a], b as [b|b]; unfold py_eq, py_cmp; cbn [proper_subclass richcmp_eq]; intros H.
  - apply element_eq_name in H. exact H.
  - apply element_eq_name in H. exact H.
  - apply element_eq_name in H. symmetry; exact H.
  - apply isotope_eq_name in H. exact H.
Qed.

Lemma hatom_eqb_refl x : hatom_eqb x x = true.
Proof. destruct x; simpl; [apply String.eqb_refl | apply Z.eqb_refl | apply Qeq_bool_refl]. Qed.

Lemma hkey_eqb_refl k : hkey_eqb k k = true.
Proof. induction k as [|x k IH]; simpl; [reflexivity | rewrite hatom_eqb_refl, IH; reflexivity]. Qed.

(* two objects of the same class: equal => same hash key, whether or not they are registry members *)
Lemma eq_hash_same_class a b : proper_subclass a b = false -> proper_subclass b a = false ->
  py_eq a b = true -> hkey_eqb (hash_key a) (hash_key b) = true.
Proof.
  destruct a as [a|a], b as [b|b]; cbn [proper_subclass]; try discriminate; intros _ _;
    unfold py_eq, py_cmp; cbn [proper_subclass richcmp_eq base hash_key hkey_eqb hatom_eqb]; intros H.
  - unfold element_eq in H. rewrite !andb_true_iff in H. destruct H as [[[H1 H2] H3] H4].
    rewrite H1, H2, H3, H4. reflexivity.
  - unfold isotope_eq in H. rewrite !andb_true_iff in H. destruct H as [[[[[H1 H2] H3] H4] _] H6].
    rewrite H1, H2, H3, H4, H6. reflexivity.
Qed.

Lemma eq_implies_same r : wf r = true -> forall a b, In a (all_species r) -> In b (all_species r) ->
  py_eq a b = true -> a = b.
Proof. intros W a b Ha Hb E. eapply names_unique; eauto using py_eq_name. Qed.

Lemma eq_hash_agree r : wf r = true -> forall a b, In a (all_species r) -> In b (all_species r) ->
  (py_eq a b = true -> hkey_eqb (hash_key a) (hash_key b) = true)
  /\ (a <> b -> py_eq a b = false /\ py_ne a b = true)
  /\ py_eq a a = true /\ py_ne a a = false.
Proof.
  intros W a b Ha Hb. repeat split.
  - intros E. rewrite (eq_implies_same r W a b Ha Hb E). apply hkey_eqb_refl.
  - destruct (py_eq a b) eqn:E; [|reflexivity]. exfalso; apply H. eapply eq_implies_same; eauto.
  - rewrite py_ne_negb. destruct (py_eq a b) eqn:E; [|reflexivity]. exfalso; apply H. eapply eq_implies_same; eauto.
  - apply py_eq_refl.
  - rewrite py_ne_negb, py_eq_refl. reflexivity.
Qed.

(* ---- lines ------------------------------------------------------------------------------------ *)
Lemma line_ne_negb a b : line_ne a b = negb (line_eq a b).
Proof. unfold line_ne, line_eq. rewrite !negb_andb, py_ne_negb. reflexivity. Qed.

Lemma tval_eqb_eq a b : tval_eqb a b = true -> a = b.
Proof.
  destruct a, b; simpl; try discriminate; intros H;
    [apply Z.eqb_eq in H | apply String.eqb_eq in H]; subst; reflexivity.
Qed.

Lemma tlist_eqb_eq a : forall b, tlist_eqb a b = true -> a = b.
Proof.
  induction a as [|x a IH]; intros [|y b]; simpl; try discriminate; [reflexivity|].
  intros H. apply andb_true_iff in H. destruct H as [H1 H2].
  apply tval_eqb_eq in H1. apply IH in H2. subst; reflexivity.
Qed.

Lemma line_eq_same r : wf r = true -> forall a b, In (l_element a) (all_species r) -> In (l_element b) (all_species r) ->
  line_eq a b = true -> a = b.
Proof.
  intros W a b Ha Hb. unfold line_eq. rewrite !andb_true_iff. intros [[H1 H2] H3].
  apply (eq_implies_same r W _ _ Ha Hb) in H1. apply Z.eqb_eq in H2.
  apply tlist_eqb_eq in H3. destruct a, b; simpl in *; subst; reflexivity.
Qed.

Lemma tval_eqb_refl t : tval_eqb t t = true.
Proof. destruct t; simpl; [apply Z.eqb_refl | apply String.eqb_refl]. Qed.

Lemma tlist_eqb_refl t : tlist_eqb t t = true.
Proof. induction t as [|x t IH]; simpl; [reflexivity | rewrite tval_eqb_refl, IH; reflexivity]. Qed.

Lemma line_eq_refl a : line_eq a a = true.
Proof. unfold line_eq. rewrite py_eq_refl, Z.eqb_refl, tlist_eqb_refl. reflexivity. Qed.

Lemma line_key_refl a : line_key_eqb a a = true.
Proof. unfold line_key_eqb. rewrite hkey_eqb_refl, Z.eqb_refl, tlist_eqb_refl. reflexivity. Qed.

Lemma line_eq_hash r : wf r = true -> forall a b, In (l_element a) (all_species r) -> In (l_element b) (all_species r) ->
  (line_eq a b = true -> line_key_eqb a b = true)
  /\ (a <> b -> line_eq a b = false /\ line_ne a b = true)
  /\ line_eq a a = true /\ line_ne a a = false.
Proof.
  intros W a b Ha Hb. repeat split.
  - intros E. rewrite (line_eq_same r W a b Ha Hb E). apply line_key_refl.
  - destruct (line_eq a b) eqn:E; [|reflexivity]. exfalso; apply H. eapply line_eq_same; eauto.
  - rewrite line_ne_negb. destruct (line_eq a b) eqn:E; [|reflexivity]. exfalso; apply H. eapply line_eq_same; eauto.
  - apply line_eq_refl.
  - rewrite line_ne_negb, line_eq_refl. reflexivity.
Qed.

(* two lines built from same-class species (registry members or not): equal => same hash key *)
Lemma line_eq_key_same_class a b :
  proper_subclass (l_element a) (l_element b) = false -> proper_subclass (l_element b) (l_element a) = false ->
  line_eq a b = true -> line_key_eqb a b = true.
Proof.
  intros C1 C2. unfold line_eq, line_key_eqb. rewrite !andb_true_iff. intros [[H1 H2] H3].
  repeat split; auto. apply eq_hash_same_class; assumption.
Qed.

(* the constructor guard: a line exists exactly for 0 <= charge <= Z - 1 *)
Lemma new_line_guard o c tr :
  (0 <= c <= species_Z o - 1 -> new_line o c tr = Ok (mkLine o c tr))
  /\ (c < 0 \/ c > species_Z o - 1 -> new_line o c tr = ErrValue).
Proof.
  unfold new_line. destruct (Z.gtb_spec c (species_Z o - 1)); destruct (Z.ltb_spec c 0); split; intros; try reflexivity; lia.
Qed.

(* ---- dictionaries ----------------------------------------------------------------------------- *)
Section DictProofs.
  Context {K V : Type} (khash : K -> Z) (ksame keq : K -> K -> bool) (D : K -> Prop).
  Hypothesis match_refl : forall k, D k -> slot_match khash ksame keq k k = true.
  Hypothesis match_same : forall a b, D a -> D b -> slot_match khash ksame keq a b = true -> a = b.

  Notation get := (dict_get khash ksame keq).
  Notation set := (dict_set khash ksame keq).

  Definition keys_in (d : list (K * V)) : Prop := Forall (fun kv => D (fst kv)) d.

  Lemma dict_set_keys d k v : keys_in d -> D k -> keys_in (set d k v).
  Proof.
    induction d as [|[k0 x] t IH]; simpl; intros Hd Hk.
    - constructor; [exact Hk | constructor].
    - unfold keys_in in *. inversion Hd as [|? ? Hk0 Ht]; subst. cbn [fst] in Hk0.
      destruct (slot_match khash ksame keq k0 k); constructor; cbn [fst]; auto.
  Qed.

  Lemma dict_get_set_same d k v : keys_in d -> D k -> get (set d k v) k = Some v.
  Proof.
    induction d as [|[k0 x] t IH]; simpl; intros Hd Hk.
    - rewrite match_refl; auto.
    - inversion Hd; subst. destruct (slot_match khash ksame keq k0 k) eqn:E; simpl; rewrite E; auto.
  Qed.

  Lemma dict_get_set_other d k v k' : keys_in d -> D k -> D k' -> k <> k' -> get (set d k v) k' = get d k'.
  Proof.
    induction d as [|[k0 x] t IH]; simpl; intros Hd Hk Hk' Hne.
    - destruct (slot_match khash ksame keq k k') eqn:E; [|reflexivity].
      exfalso; apply Hne; apply match_same; auto.
    - inversion Hd as [|? ? Hk0 Ht]; subst. cbn [fst] in Hk0.
      destruct (slot_match khash ksame keq k0 k) eqn:E; simpl.
      + assert (k0 = k) by (apply match_same; auto). subst k0.
        destruct (slot_match khash ksame keq k k') eqn:E'; [|reflexivity].
        exfalso; apply Hne; apply match_same; auto.
      + destruct (slot_match khash ksame keq k0 k'); auto.
  Qed.

  (* every history of assignments keeps the keys inside the domain *)
  Lemma dict_run_keys ops : Forall (fun kv => D (fst kv)) ops -> keys_in (dict_run khash ksame keq ops).
  Proof.
    unfold dict_run. assert (G : forall d, keys_in d -> Forall (fun kv => D (fst kv)) ops ->
      keys_in (fold_left (fun d kv => set d (fst kv) (snd kv)) ops d)).
    { induction ops as [|[k v] ops IH]; simpl; intros d Hd Ho; [exact Hd|].
      inversion Ho; subst. apply IH; auto. apply dict_set_keys; auto. }
    intros H. apply G; [constructor | exact H].
  Qed.
End DictProofs.

Section SpeciesDict.
  Context (r : registry) (W : wf r = true).
  Context (khash : species -> Z) (ksame : species -> species -> bool).
  (* what is trusted of CPython: equal tuples hash equally; `is` holds only between an object and itself *)
  Hypothesis hash_respects_key : forall a b, hkey_eqb (hash_key a) (hash_key b) = true -> khash a = khash b.
  Hypothesis same_refl : forall a, ksame a a = true.
  Hypothesis same_id : forall a b, ksame a b = true -> a = b.

  Let D (o : species) := In o (all_species r).

  Lemma species_match_refl k : D k -> slot_match khash ksame py_eq k k = true.
  Proof. intros _. unfold slot_match. rewrite Z.eqb_refl, same_refl. reflexivity. Qed.

  Lemma species_match_same a b : D a -> D b -> slot_match khash ksame py_eq a b = true -> a = b.
  Proof.
    intros Ha Hb. unfold slot_match. rewrite andb_true_iff, orb_true_iff. intros [_ [H|H]].
    - apply same_id; exact H.
    - eapply eq_implies_same; eauto.
  Qed.

  Lemma species_dict V (d : list (species * V)) k v :
    keys_in D d -> D k ->
    dict_get khash ksame py_eq (dict_set khash ksame py_eq d k v) k = Some v
    /\ forall k', D k' -> k <> k' ->
       dict_get khash ksame py_eq (dict_set khash ksame py_eq d k v) k' = dict_get khash ksame py_eq d k'.
  Proof.
    intros Hd Hk. split.
    - eapply dict_get_set_same; eauto using species_match_refl.
    - intros k' Hk' Hne. eapply dict_get_set_other; eauto using species_match_same.
  Qed.
End SpeciesDict.

Section LineDict.
  Context (r : registry) (W : wf r = true).
  Context (khash : line -> Z) (ksame : line -> line -> bool).
  Hypothesis hash_respects_key : forall a b, line_key_eqb a b = true -> khash a = khash b.
  Hypothesis same_refl : forall a, ksame a a = true.
  Hypothesis same_id : forall a b, ksame a b = true -> a = b.

  Let D (l : line) := In (l_element l) (all_species r).

  Lemma line_dict V (d : list (line * V)) k v :
    keys_in D d -> D k ->
    dict_get khash ksame line_eq (dict_set khash ksame line_eq d k v) k = Some v
    /\ forall k', D k' -> k <> k' ->
       dict_get khash ksame line_eq (dict_set khash ksame line_eq d k v) k' = dict_get khash ksame line_eq d k'.
  Proof.
    assert (R : forall k, D k -> slot_match khash ksame line_eq k k = true).
    { intros k0 _. unfold slot_match. rewrite Z.eqb_refl, same_refl. reflexivity. }
    assert (S : forall a b, D a -> D b -> slot_match khash ksame line_eq a b = true -> a = b).
    { intros a b Ha Hb. unfold slot_match. rewrite andb_true_iff, orb_true_iff. intros [_ [H|H]].
      - apply same_id; exact H.
      - eapply line_eq_same; eauto. }
    intros Hd Hk. split.
    - eapply dict_get_set_same; eauto.
    - intros k' Hk' Hne. eapply dict_get_set_other; eauto.
  Qed.

End LineDict.

(* ---- the module body: what holds of every program that loads, by construction ------------------- *)
Definition species_built_ok (o : species) : Prop :=
  match o with SI i => i_Z i = e_Z (i_element i) | SE _ => True end.
Definition env_ok (en : env) : Prop := forall a o, In (a, o) en -> species_built_ok o.

Lemma env_set_in en k v : forall a o, In (a, o) (env_set en k v) -> In (a, o) en \/ o = v.
Proof.
  induction en as [|[k0 x] t IH]; simpl; intros a o H.
  - destruct H as [H|[]]. inversion H; auto.
  - destruct (String.eqb k0 k).
    + destruct H as [H|H]; [inversion H; auto | left; right; exact H].
    + destruct H as [H|H]; [left; left; exact H|]. destruct (IH a o H); auto.
Qed.

Lemma env_set_ok en k v : env_ok en -> species_built_ok v -> env_ok (env_set en k v).
Proof. intros He Hv a o H. destruct (env_set_in en k v a o H) as [H1|H1]; [eapply He; eauto | subst; exact Hv]. Qed.

Lemma exec_ok prog : forall en en', env_ok en -> exec prog en = Some en' -> env_ok en'.
Proof.
  induction prog as [|s t IH]; simpl; intros en en' He H.
  - inversion H; subst; exact He.
  - destruct s as [a n s z w | a n s ea m w].
    + eapply IH; [|exact H]. apply env_set_ok; [exact He | exact I].
    + destruct (env_get en ea) as [[el|j]|]; try discriminate.
      eapply IH; [|exact H]. apply env_set_ok; [exact He | reflexivity].
Qed.

Lemma insert_attr_in x l : forall y, In y (insert_attr x l) -> y = x \/ In y l.
Proof.
  induction l as [|z t IH]; simpl; intros y H.
  - destruct H as [H|[]]; auto.
  - destruct (String.leb (fst x) (fst z)).
    + destruct H as [H|H]; auto.
    + destruct H as [H|H]; [right; left; exact H|]. destruct (IH y H); auto.
Qed.

Lemma dir_sorted_in en : forall y, In y (dir_sorted en) -> In y en.
Proof.
  unfold dir_sorted. induction en as [|x t IH]; simpl; intros y H; [exact H|].
  destruct (insert_attr_in _ _ _ H); subst; auto.
Qed.

Lemma isotopes_of_env en i : In i (isotopes (registry_of_env en)) -> exists a, In (a, SI i) en.
Proof.
  unfold registry_of_env. cbn [isotopes]. rewrite in_flat_map. intros [[a o] [H1 H2]]. cbn [snd] in H2.
  destruct o as [e|j]; [destruct H2|]. destruct H2 as [H2|[]]. subst j.
  exists a. apply dir_sorted_in; exact H1.
Qed.

(* for EVERY program that loads (no wf needed): an isotope carries its element's atomic number *)
Lemma isotope_number_by_construction prog r : load prog = Some r ->
  forall i, In i (isotopes r) -> i_Z i = e_Z (i_element i).
Proof.
  unfold load. destruct (exec prog []) as [en|] eqn:E; [|discriminate]. cbn [option_map].
  intros H i Hi. inversion H; subst r. destruct (isotopes_of_env en i Hi) as [a Ha].
  assert (Hok : env_ok en) by (eapply exec_ok; [|exact E]; intros ? ? []).
  exact (Hok a (SI i) Ha).
Qed.

(* ---- the key-disjointness demanded by wf is necessary, not only sufficient ----------------------- *)
(* if two objects with different names write the same key, the lookup of that key cannot return both:
   for one of them an identifier does not lead back to the object *)
Lemma shared_key_breaks_lookup {A} (nm : A -> string) keys (l : list A) a b k :
  nm a <> nm b -> idx_get (build_index keys l) k = Some a -> idx_get (build_index keys l) k = Some b -> False.
Proof. intros Hn Ha Hb. rewrite Ha in Hb. inversion Hb. subst. apply Hn; reflexivity. Qed.

Lemma pairwise_disjoint_complete {A} (nm : A -> string) keys (l : list A) :
  (forall a b k, In a l -> In b l -> In k (keys a) -> In k (keys b) -> nm a = nm b) ->
  pairwise_disjoint nm keys l = true.
Proof.
  intros H. unfold pairwise_disjoint. apply forallb_forall. intros [na ka] Ha.
  apply forallb_forall. intros [nb kb] Hb. cbn [fst snd].
  apply in_map_iff in Ha. destruct Ha as [a [Ea Ha]]. inversion Ea; subst na ka.
  apply in_map_iff in Hb. destruct Hb as [b [Eb Hb]]. inversion Eb; subst nb kb.
  destruct (String.eqb_spec (nm a) (nm b)) as [E|E]; [reflexivity|]. cbn [orb].
  unfold disjointb. apply forallb_forall. intros k Hk. apply negb_true_iff.
  destruct (existsb (String.eqb k) (keys b)) eqn:X; [|reflexivity].
  apply existsb_eqb_in in X. exfalso; apply E. eapply H; eauto.
Qed.

(* if every key of every object leads back to that object, then the keys are pairwise disjoint *)
Lemma lookups_imply_disjoint {A} (nm : A -> string) keys (l : list A) :
  (forall o k, In o l -> In k (keys o) -> idx_get (build_index keys l) k = Some o) ->
  pairwise_disjoint nm keys l = true.
Proof.
  intros H. apply pairwise_disjoint_complete. intros a b k Ha Hb Ka Kb.
  pose proof (H a k Ha Ka) as E1. pose proof (H b k Hb Kb) as E2. rewrite E1 in E2. inversion E2; reflexivity.
Qed.
