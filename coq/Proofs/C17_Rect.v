(* The constructor's rectangle test (_has_rectangular_cross_section): the exact set of quadrilaterals it accepts. *)
Require Import Cherab.Common.Qx.
Require Import Cherab.Model.C17_Voxels Cherab.Proofs.C17_Polygon Cherab.Proofs.C17_Voxel.
From Coq Require Import Qabs Lqa.
Open Scope Q_scope.

(* accepted <-> four vertices, equal diagonals, stored edge 1-2 parallel to an axis *)
Lemma helper_accepts_iff l :
  has_rectangular_cross_section l = true <->
  exists v1 v2 v3 v4, l = [v1; v2; v3; v4] /\ dist2 v1 v3 == dist2 v2 v4 /\ (px v2 == px v1 \/ py v2 == py v1).
Proof.
  split.
  - destruct l as [|v1 [|v2 [|v3 [|v4 [|v5 r]]]]]; try discriminate. unfold has_rectangular_cross_section.
    destruct (Qeq_bool (dist2 v1 v3) (dist2 v2 v4)) eqn:Ed; [|discriminate]. cbn [negb].
    destruct (Qeq_bool (px v2 - px v1) 0) eqn:Ex; destruct (Qeq_bool (py v2 - py v1) 0) eqn:Ey; cbn [negb andb]; try discriminate;
      intros _; exists v1, v2, v3, v4; (split; [reflexivity|]); (split; [apply Qeq_bool_iff; exact Ed|]).
    + left. apply Qeq_bool_iff in Ex. lra.
    + left. apply Qeq_bool_iff in Ex. lra.
    + right. apply Qeq_bool_iff in Ey. lra.
  - intros (v1 & v2 & v3 & v4 & El & Hd & Hax). subst l. unfold has_rectangular_cross_section.
    apply Qeq_bool_iff in Hd. rewrite Hd. cbn [negb].
    destruct Hax as [H|H].
    + assert (E : px v2 - px v1 == 0) by lra. apply Qeq_bool_iff in E. rewrite E. reflexivity.
    + assert (E : py v2 - py v1 == 0) by lra. apply Qeq_bool_iff in E. rewrite E. cbn [negb]. rewrite Bool.andb_false_r. reflexivity.
Qed.

(* every isosceles trapezoid with horizontal bases, listed from the short base, is accepted although its area
   (w - d) h is not the bounding-box area w h unless d = 0 *)
Definition trapezoid (w d h : Q) : list pt := [(d, h); (w - d, h); (w, 0); (0, 0)].
Lemma helper_accepts_every_trapezoid w d h :
  has_rectangular_cross_section (trapezoid w d h) = true /\ shoelace2 (trapezoid w d h) == - (2 * ((w - d) * h)).
Proof.
  split.
  - apply helper_accepts_iff. exists (d, h), (w - d, h), (w, 0), (0, 0). split; [reflexivity|]. split.
    + unfold dist2, px, py. cbn [fst snd]. ring.
    + right. reflexivity.
  - unfold trapezoid, shoelace2, cyc_sum, open_sum, last, cross, px, py. cbn [fst snd]. ring.
Qed.

(* among parallelograms (v1 + v3 = v2 + v4) with v1 <> v2 the test accepts exactly the axis-aligned rectangles *)
Lemma helper_on_parallelograms v1 v2 v3 v4 :
  px v1 + px v3 == px v2 + px v4 -> py v1 + py v3 == py v2 + py v4 -> ~ (px v1 == px v2 /\ py v1 == py v2) ->
  (has_rectangular_cross_section [v1; v2; v3; v4] = true <->
   (py v2 == py v1 /\ px v3 == px v2 /\ px v4 == px v1 /\ py v4 == py v3) \/
   (px v2 == px v1 /\ py v3 == py v2 /\ py v4 == py v1 /\ px v4 == px v3)).
Proof.
  intros Hx Hy Hne. rewrite helper_accepts_iff. split.
  - intros (a & b & c & d & El & Hd & Hax). injection El as E1 E2 E3 E4. subst a b c d.
    unfold dist2 in Hd.
    assert (Hdot : (px v2 - px v1) * (px v3 - px v2) + (py v2 - py v1) * (py v3 - py v2) == 0).
    { assert (E4x : px v4 == px v1 + px v3 - px v2) by lra. assert (E4y : py v4 == py v1 + py v3 - py v2) by lra.
      rewrite E4x, E4y in Hd. nra. }
    destruct Hax as [Hax|Hax].
    + right. assert (Hyne : ~ py v2 - py v1 == 0) by (intro H0; apply Hne; split; lra).
      assert (E : (py v2 - py v1) * (py v3 - py v2) == 0) by (rewrite Hax in Hdot; nra).
      apply Qmult_integral in E. destruct E as [E|E]; [contradiction|]. repeat split; lra.
    + left. assert (Hxne : ~ px v2 - px v1 == 0) by (intro H0; apply Hne; split; lra).
      assert (E : (px v2 - px v1) * (px v3 - px v2) == 0) by (rewrite Hax in Hdot; nra).
      apply Qmult_integral in E. destruct E as [E|E]; [contradiction|]. repeat split; lra.
  - intros [(H1 & H2 & H3 & H4)|(H1 & H2 & H3 & H4)]; exists v1, v2, v3, v4; (split; [reflexivity|]); split.
    + unfold dist2. rewrite H2, H3, H4, H1. ring.
    + right. exact H1.
    + unfold dist2. rewrite H2, H3, H4, H1. ring.
    + left. exact H1.
Qed.
