(* Algebra of the cyclic edge sums used by AxisymmetricVoxel: rotation, reversal, translation,
   fan decomposition and removal of one vertex (ear clipping), for vertex lists of any length. *)
Require Import Cherab.Common.Qx.
Require Import Cherab.Model.C17_Voxels.
From Coq Require Import Qabs Lqa.
Open Scope Q_scope.

(* ---- lists ---------------------------------------------------------------------------------- *)
Lemma last_cons_default {A} (c : A) l d1 d2 : last (c :: l) d1 = last (c :: l) d2.
Proof. revert c; induction l as [|x l IH]; intros c; [reflexivity|]. cbn [last] in *. apply IH. Qed.

Lemma last_cons_ne {A} (x : A) l d : l <> [] -> last (x :: l) d = last l d.
Proof. destruct l; [congruence | reflexivity]. Qed.

Lemma last_snoc {A} (l : list A) z d : last (l ++ [z]) d = z.
Proof.
  induction l as [|x l IH]; [reflexivity|].
  change ((x :: l) ++ [z]) with (x :: (l ++ [z])). rewrite last_cons_ne; [exact IH | destruct l; discriminate].
Qed.

Lemma last_app_cons {A} (l : list A) c r d : last (l ++ c :: r) d = last (c :: r) d.
Proof.
  induction l as [|x l IH]; [reflexivity|].
  change ((x :: l) ++ c :: r) with (x :: (l ++ c :: r)). rewrite last_cons_ne; [exact IH | destruct l; discriminate].
Qed.

Lemma last_map {A B} (f : A -> B) l d : last (map f l) (f d) = f (last l d).
Proof. induction l as [|x l IH]; [reflexivity|]. cbn [map last]. destruct l; [reflexivity|]. exact IH. Qed.

Lemma hd_map {A B} (f : A -> B) l d : hd (f d) (map f l) = f (hd d l).
Proof. destruct l; reflexivity. Qed.

(* ---- open and cyclic sums for an arbitrary edge term ------------------------------------------ *)
Section Edge.
  Variable g : pt -> pt -> Q.

  Lemma open_cons2 a b t : open_sum g (a :: b :: t) = g a b + open_sum g (b :: t).
  Proof. reflexivity. Qed.

  Lemma open_snoc a l z : open_sum g ((a :: l) ++ [z]) == open_sum g (a :: l) + g (last (a :: l) a) z.
  Proof.
    revert a; induction l as [|b l IH]; intros a.
    - cbn. ring.
    - change ((a :: b :: l) ++ [z]) with (a :: ((b :: l) ++ [z])).
      change ((b :: l) ++ [z]) with (b :: (l ++ [z])) at 1.
      rewrite open_cons2. change (b :: l ++ [z]) with ((b :: l) ++ [z]). rewrite IH.
      rewrite open_cons2. change (last (a :: b :: l) a) with (last (b :: l) a).
      rewrite (last_cons_default b l a b). ring.
  Qed.

  Lemma open_app l x r : open_sum g (l ++ x :: r) == open_sum g (l ++ [x]) + open_sum g (x :: r).
  Proof.
    induction l as [|a l IH].
    - cbn [app]. change (open_sum g [x]) with 0. ring.
    - destruct l as [|b l].
      + cbn [app]. rewrite open_cons2. cbn [open_sum]. ring.
      + change ((a :: b :: l) ++ x :: r) with (a :: b :: (l ++ x :: r)).
        change ((a :: b :: l) ++ [x]) with (a :: b :: (l ++ [x])).
        rewrite !open_cons2. change (b :: l ++ x :: r) with ((b :: l) ++ x :: r).
        change (b :: l ++ [x]) with ((b :: l) ++ [x]). rewrite IH. ring.
  Qed.

  Lemma cyc_cons a l : cyc_sum g (a :: l) = open_sum g (a :: l) + g (last (a :: l) a) a.
  Proof. reflexivity. Qed.

  Lemma cyc_closed a l : cyc_sum g (a :: l) == open_sum g ((a :: l) ++ [a]).
  Proof. unfold cyc_sum. rewrite open_snoc. reflexivity. Qed.

  (* any cyclic rotation of the vertex list *)
  Lemma cyc_rotate l1 l2 : cyc_sum g (l2 ++ l1) == cyc_sum g (l1 ++ l2).
  Proof.
    destruct l1 as [|a l1]; [rewrite app_nil_r; reflexivity|].
    destruct l2 as [|b l2]; [rewrite app_nil_r; reflexivity|].
    change ((b :: l2) ++ a :: l1) with (b :: (l2 ++ a :: l1)).
    change ((a :: l1) ++ b :: l2) with (a :: (l1 ++ b :: l2)).
    rewrite !cyc_closed.
    assert (E1 : (b :: l2 ++ a :: l1) ++ [b] = (b :: l2) ++ a :: (l1 ++ [b]))
      by (cbn [app]; rewrite <- app_assoc; reflexivity).
    assert (E2 : (a :: l1 ++ b :: l2) ++ [a] = (a :: l1) ++ b :: (l2 ++ [a]))
      by (cbn [app]; rewrite <- app_assoc; reflexivity).
    rewrite E1, E2.
    rewrite (open_app (b :: l2) a), (open_app (a :: l1) b).
    change (a :: l1 ++ [b]) with ((a :: l1) ++ [b]). change (b :: l2 ++ [a]) with ((b :: l2) ++ [a]). ring.
  Qed.

End Edge.

Section Edge2.
  (* an edge term that differs by a potential difference gives the same cyclic sum *)
  Lemma open_tele (k : pt -> Q) a l :
    open_sum (fun p q => k q - k p) (a :: l) == k (last (a :: l) a) - k a.
  Proof.
    revert a; induction l as [|b l IH]; intros a.
    - cbn. ring.
    - rewrite open_cons2, IH. change (last (a :: b :: l) a) with (last (b :: l) a).
      rewrite (last_cons_default b l a b). ring.
  Qed.

  Lemma open_sum_ext (g1 g2 : pt -> pt -> Q) l : (forall p q, g1 p q == g2 p q) -> open_sum g1 l == open_sum g2 l.
  Proof.
    intros H. induction l as [|a l IH]; [reflexivity|]. destruct l as [|b l]; [reflexivity|].
    rewrite !open_cons2, IH, H. reflexivity.
  Qed.

  Lemma open_sum_plus (g1 g2 : pt -> pt -> Q) l :
    open_sum (fun p q => g1 p q + g2 p q) l == open_sum g1 l + open_sum g2 l.
  Proof.
    induction l as [|a l IH]; [cbn; ring|]. destruct l as [|b l]; [cbn; ring|].
    rewrite !open_cons2, IH. ring.
  Qed.

  Lemma open_sum_scale c (g1 : pt -> pt -> Q) l : open_sum (fun p q => c * g1 p q) l == c * open_sum g1 l.
  Proof.
    induction l as [|a l IH]; [cbn; ring|]. destruct l as [|b l]; [cbn; ring|].
    rewrite !open_cons2, IH. ring.
  Qed.
End Edge2.

Lemma cyc_sum_ext g1 g2 l : (forall p q, g1 p q == g2 p q) -> cyc_sum g1 l == cyc_sum g2 l.
Proof. intros H. destruct l as [|a l]; [reflexivity|]. unfold cyc_sum. rewrite (open_sum_ext g1 g2 _ H), H. reflexivity. Qed.

Lemma cyc_sum_plus g1 g2 l : cyc_sum (fun p q => g1 p q + g2 p q) l == cyc_sum g1 l + cyc_sum g2 l.
Proof. destruct l as [|a l]; [cbn; ring|]. unfold cyc_sum. rewrite open_sum_plus. ring. Qed.

Lemma cyc_sum_scale c g1 l : cyc_sum (fun p q => c * g1 p q) l == c * cyc_sum g1 l.
Proof. destruct l as [|a l]; [cbn; ring|]. unfold cyc_sum. rewrite open_sum_scale. ring. Qed.

Lemma cyc_tele (k : pt -> Q) l : cyc_sum (fun p q => k q - k p) l == 0.
Proof. destruct l as [|a l]; [reflexivity|]. unfold cyc_sum. rewrite open_tele. ring. Qed.

Lemma open_sum_map (T : pt -> pt) g l : open_sum g (map T l) = open_sum (fun p q => g (T p) (T q)) l.
Proof.
  induction l as [|a l IH]; [reflexivity|]. destruct l as [|b l]; [reflexivity|].
  cbn [map] in *. rewrite !open_cons2, IH. reflexivity.
Qed.

Lemma cyc_sum_map (T : pt -> pt) g l : cyc_sum g (map T l) = cyc_sum (fun p q => g (T p) (T q)) l.
Proof.
  destruct l as [|a l]; [reflexivity|]. unfold cyc_sum. cbn [map].
  change (T a :: map T l) with (map T (a :: l)). rewrite open_sum_map, last_map. reflexivity.
Qed.

(* ---- antisymmetric edge terms: reversal, fan, removal of a vertex -------------------------------- *)
Section Anti.
  Variable g : pt -> pt -> Q.
  Hypothesis anti : forall a b, g a b == - g b a.

  Lemma anti_diag a : g a a == 0.
  Proof. pose proof (anti a a) as H. lra. Qed.

  Lemma open_rev l : open_sum g (rev l) == - open_sum g l.
  Proof.
    induction l as [|a l IH]; [cbn; ring|].
    destruct l as [|b l]; [cbn; ring|].
    cbn [rev] in *. destruct (rev l ++ [b]) as [|c m] eqn:E; [destruct (rev l); discriminate|].
    rewrite open_snoc, IH, open_cons2.
    assert (L : last (c :: m) c = b) by (rewrite <- E; apply last_snoc).
    rewrite L, (anti b a). ring.
  Qed.

  (* the reversed vertex list *)
  Lemma cyc_rev l : cyc_sum g (rev l) == - cyc_sum g l.
  Proof.
    destruct l as [|a l]; [cbn; ring|].
    cbn [rev]. rewrite (cyc_rotate g [a] (rev l)). cbn [app].
    rewrite !cyc_closed.
    replace ((a :: rev l) ++ [a]) with (rev ((a :: l) ++ [a])).
    - apply open_rev.
    - rewrite rev_app_distr. reflexivity.
  Qed.

  Definition T3 (p a b : pt) : Q := g p a + g a b + g b p.

  (* fan from the first vertex *)
  Lemma cyc_fan p l : l <> [] -> cyc_sum g (p :: l) == open_sum (T3 p) l.
  Proof.
    intros Hl. destruct l as [|a l]; [congruence|].
    rewrite (open_sum_ext (T3 p) (fun x y => g x y + (g y p - g x p))).
    2:{ intros x y. unfold T3. rewrite (anti p x). ring. }
    rewrite open_sum_plus, (open_tele (fun x => g x p)).
    unfold cyc_sum. rewrite open_cons2. change (last (p :: a :: l) p) with (last (a :: l) p).
    rewrite (last_cons_default a l p a), (anti a p). ring.
  Qed.

  (* removing the vertex b that sits between p and n (cyclically) *)
  Lemma cyc_remove l1 b l2 :
    l1 ++ l2 <> [] ->
    cyc_sum g (l1 ++ b :: l2) == cyc_sum g (l1 ++ l2) + T3 (last l1 (last l2 b)) b (hd (hd b l1) l2).
  Proof.
    intros Hne. unfold T3.
    destruct l1 as [|a l1]; destruct l2 as [|c l2].
    - cbn in Hne. congruence.
    - change (last [] (last (c :: l2) b)) with (last (c :: l2) b).
      change (hd (hd b []) (c :: l2)) with c. cbn [app].
      rewrite (last_cons_default c l2 b c). set (z := last (c :: l2) c).
      rewrite !cyc_cons. rewrite open_cons2.
      change (last (b :: c :: l2) b) with (last (c :: l2) b).
      rewrite (last_cons_default c l2 b c). fold z.
      rewrite (anti c z). ring.
    - rewrite app_nil_r.
      change (last (a :: l1) (last [] b)) with (last (a :: l1) b).
      change (hd (hd b (a :: l1)) []) with a.
      rewrite (last_cons_default a l1 b a). set (z := last (a :: l1) a).
      change ((a :: l1) ++ [b]) with (a :: (l1 ++ [b])).
      rewrite !cyc_cons.
      rewrite (last_cons_ne a (l1 ++ [b]) a) by (destruct l1; discriminate).
      rewrite last_snoc.
      change (a :: l1 ++ [b]) with ((a :: l1) ++ [b]).
      rewrite open_snoc. fold z.
      rewrite (anti a z). ring.
    - change (hd (hd b (a :: l1)) (c :: l2)) with c.
      rewrite (last_cons_default a l1 _ a). set (z := last (a :: l1) a).
      change ((a :: l1) ++ b :: c :: l2) with (a :: (l1 ++ b :: c :: l2)).
      change ((a :: l1) ++ c :: l2) with (a :: (l1 ++ c :: l2)).
      rewrite !cyc_cons.
      rewrite (last_cons_ne a (l1 ++ b :: c :: l2) a) by (destruct l1; discriminate).
      rewrite (last_cons_ne a (l1 ++ c :: l2) a) by (destruct l1; discriminate).
      rewrite (last_app_cons l1 b (c :: l2) a), (last_app_cons l1 c l2 a).
      change (last (b :: c :: l2) a) with (last (c :: l2) a).
      change (a :: l1 ++ b :: c :: l2) with ((a :: l1) ++ b :: c :: l2).
      change (a :: l1 ++ c :: l2) with ((a :: l1) ++ c :: l2).
      rewrite (open_app g (a :: l1) b), (open_app g (a :: l1) c), !open_snoc, open_cons2.
      fold z.
      rewrite (anti c z). ring.
  Qed.
End Anti.

(* ---- the three edge terms of the code ------------------------------------------------------------ *)
Lemma cross_anti a b : cross a b == - cross b a.
Proof. unfold cross. ring. Qed.
Lemma gx_anti a b : gx a b == - gx b a.
Proof. unfold gx, cross. ring. Qed.
Lemma gy_anti a b : gy a b == - gy b a.
Proof. unfold gy, cross. ring. Qed.

Lemma T3_cross p a b : T3 cross p a b == tri2 p a b.
Proof. unfold T3, cross, tri2. ring. Qed.
Lemma T3_gx p a b : T3 gx p a b == (px p + px a + px b) * tri2 p a b.
Proof. unfold T3, gx, cross, tri2. ring. Qed.
Lemma T3_gy p a b : T3 gy p a b == (py p + py a + py b) * tri2 p a b.
Proof. unfold T3, gy, cross, tri2. ring. Qed.

(* winding2d's sum is minus the shoelace sum *)
Lemma gw_is_minus_cross l : cyc_sum gw l == - shoelace2 l.
Proof.
  unfold shoelace2.
  rewrite (cyc_sum_ext gw (fun p q => (-1) * cross p q + ((px q * py q) - (px p * py p)))).
  2:{ intros p q. unfold gw, cross. ring. }
  rewrite cyc_sum_plus, cyc_sum_scale, (cyc_tele (fun p => px p * py p)). ring.
Qed.

(* ---- translation --------------------------------------------------------------------------------- *)
Definition shift (t p : pt) : pt := (px p + px t, py p + py t).

Lemma shoelace2_shift t l : shoelace2 (map (shift t) l) == shoelace2 l.
Proof.
  unfold shoelace2. rewrite cyc_sum_map.
  rewrite (cyc_sum_ext _ (fun p q => cross p q + ((px t * py q - py t * px q) - (px t * py p - py t * px p)))).
  2:{ intros p q. unfold cross, shift, px, py. cbn. ring. }
  rewrite cyc_sum_plus, (cyc_tele (fun p => px t * py p - py t * px p)). ring.
Qed.

Lemma gx_shift t l : cyc_sum gx (map (shift t) l) == cyc_sum gx l + 3 * px t * shoelace2 l.
Proof.
  unfold shoelace2. rewrite cyc_sum_map.
  set (k := fun p : pt => px t * (px p * py p) - py t * (px p * px p) + 2 * px t * (px t * py p - py t * px p)).
  rewrite (cyc_sum_ext _ (fun p q => (gx p q + (3 * px t) * cross p q) + (k q - k p))).
  2:{ intros p q. unfold k, gx, cross, shift, px, py. cbn. ring. }
  rewrite cyc_sum_plus, cyc_sum_plus, cyc_sum_scale, (cyc_tele k). ring.
Qed.

Lemma gy_shift t l : cyc_sum gy (map (shift t) l) == cyc_sum gy l + 3 * py t * shoelace2 l.
Proof.
  unfold shoelace2. rewrite cyc_sum_map.
  set (k := fun p : pt => px t * (py p * py p) - py t * (px p * py p) + 2 * py t * (px t * py p - py t * px p)).
  rewrite (cyc_sum_ext _ (fun p q => (gy p q + (3 * py t) * cross p q) + (k q - k p))).
  2:{ intros p q. unfold k, gy, cross, shift, px, py. cbn. ring. }
  rewrite cyc_sum_plus, cyc_sum_plus, cyc_sum_scale, (cyc_tele k). ring.
Qed.
