(* C16: CzernyTurnerSpectrometer -- settings after any history equal those of a fresh instrument,
   for every resolution function (oracle), every deg2rad and every rounding. *)
Require Import Cherab.Common.Qx.
Require Import Cherab.Model.C16_Instruments Cherab.Proofs.C16_Base Cherab.Proofs.C16_Range.
From Coq Require Import String Lqa.

Section CT.
Variable rnd : Q -> Q.
Variable resolution : ct_key -> Q -> Q.
Variable deg2rad : Q -> Q.

Notation step := (ct_step rnd resolution deg2rad).
Notation construct := (ct_construct rnd resolution deg2rad).
Notation view := (ct_view rnd).

(* ---- the meaning of a call on the level of the eight constructor parameters ---- *)
Definition p_order (p : ct_params) v := {| ctp_order := v; ctp_grating := ctp_grating p; ctp_focal := ctp_focal p; ctp_spacing := ctp_spacing p; ctp_angle := ctp_angle p; ctp_acc := ctp_acc p; ctp_mbpp := ctp_mbpp p; ctp_name := ctp_name p |}.
Definition p_grating (p : ct_params) v := {| ctp_order := ctp_order p; ctp_grating := v; ctp_focal := ctp_focal p; ctp_spacing := ctp_spacing p; ctp_angle := ctp_angle p; ctp_acc := ctp_acc p; ctp_mbpp := ctp_mbpp p; ctp_name := ctp_name p |}.
Definition p_focal (p : ct_params) v := {| ctp_order := ctp_order p; ctp_grating := ctp_grating p; ctp_focal := v; ctp_spacing := ctp_spacing p; ctp_angle := ctp_angle p; ctp_acc := ctp_acc p; ctp_mbpp := ctp_mbpp p; ctp_name := ctp_name p |}.
Definition p_spacing (p : ct_params) v := {| ctp_order := ctp_order p; ctp_grating := ctp_grating p; ctp_focal := ctp_focal p; ctp_spacing := v; ctp_angle := ctp_angle p; ctp_acc := ctp_acc p; ctp_mbpp := ctp_mbpp p; ctp_name := ctp_name p |}.
Definition p_angle (p : ct_params) v := {| ctp_order := ctp_order p; ctp_grating := ctp_grating p; ctp_focal := ctp_focal p; ctp_spacing := ctp_spacing p; ctp_angle := v; ctp_acc := ctp_acc p; ctp_mbpp := ctp_mbpp p; ctp_name := ctp_name p |}.
Definition p_acc (p : ct_params) v := {| ctp_order := ctp_order p; ctp_grating := ctp_grating p; ctp_focal := ctp_focal p; ctp_spacing := ctp_spacing p; ctp_angle := ctp_angle p; ctp_acc := v; ctp_mbpp := ctp_mbpp p; ctp_name := ctp_name p |}.
Definition p_mbpp (p : ct_params) v := {| ctp_order := ctp_order p; ctp_grating := ctp_grating p; ctp_focal := ctp_focal p; ctp_spacing := ctp_spacing p; ctp_angle := ctp_angle p; ctp_acc := ctp_acc p; ctp_mbpp := v; ctp_name := ctp_name p |}.
Definition p_name (p : ct_params) v := {| ctp_order := ctp_order p; ctp_grating := ctp_grating p; ctp_focal := ctp_focal p; ctp_spacing := ctp_spacing p; ctp_angle := ctp_angle p; ctp_acc := ctp_acc p; ctp_mbpp := ctp_mbpp p; ctp_name := v |}.

(* an accepted assignment replaces that parameter; a rejected one and every read change nothing *)
Definition ct_pstep (o : ct_op) (p : ct_params) : ct_params :=
  match o with
  | CtSetOrder v => if (trunc v <=? 0)%Z then p else p_order p v
  | CtSetGrating v => if Qle_bool v 0 then p else p_grating p v
  | CtSetFocal v => if Qle_bool v 0 then p else p_focal p v
  | CtSetSpacing v => if Qle_bool v 0 then p else p_spacing p v
  | CtSetAngle v => if Qle_bool v 0 then p else p_angle p v
  | CtSetAcc v => if forallb acc_valid v then p_acc p v else p
  | CtSetMbpp v => if (trunc v <=? 0)%Z then p else p_mbpp p v
  | CtSetName v => p_name p v
  | _ => p
  end.

Definition ct_is_obs (o : ct_op) : bool :=
  match o with CtGet _ | CtGetW2p | CtGetWl => true | _ => false end.

Definition key_of (p : ct_params) : ct_key :=
  {| k_order := trunc (ctp_order p); k_grating := ctp_grating p; k_focal := ctp_focal p;
     k_spacing := ctp_spacing p; k_angle := deg2rad (ctp_angle p) |}.

Definition pvalid (p : ct_params) : Prop :=
  (trunc (ctp_order p) <=? 0)%Z = false /\ Qle_bool (ctp_grating p) 0 = false /\ Qle_bool (ctp_focal p) 0 = false
  /\ Qle_bool (ctp_spacing p) 0 = false /\ Qle_bool (ctp_angle p) 0 = false
  /\ forallb acc_valid (ctp_acc p) = true /\ (trunc (ctp_mbpp p) <=? 0)%Z = false.

(* the instrument s holds exactly what the parameters p determine, and its caches are coherent *)
Definition ct_rel (p : ct_params) (s : ct_state) : Prop :=
  pvalid p /\ ct_k s = key_of p /\ ct_acc s = Some (ctp_acc p) /\ ct_mbpp s = trunc (ctp_mbpp p)
  /\ b_name (ct_base s) = ctp_name p
  /\ ct_w2p s = ct_arrays rnd resolution (key_of p) (ctp_acc p)
  /\ ct_wl s = map (centres rnd) (ct_w2p s)
  /\ coh (view s) (ct_base s) /\ b_classes (ct_base s) = Missing.

Ltac rel_split := unfold ct_rel, pvalid; cbn;
  repeat match goal with |- _ /\ _ => split end; cbn; try assumption; try reflexivity; try congruence.

Lemma ct_construct_rel p s : construct p = Ok s -> ct_rel p s.
Proof.
  unfold ct_construct, ct_set_order, ct_set_pos, ct_set_angle, ct_set_acc, ct_set_mbpp, bind. cbn.
  destruct (trunc (ctp_order p) <=? 0)%Z eqn:E1; [discriminate|]. cbn.
  destruct (Qle_bool (ctp_grating p) 0) eqn:E2; [discriminate|]. cbn.
  destruct (Qle_bool (ctp_focal p) 0) eqn:E3; [discriminate|]. cbn.
  destruct (Qle_bool (ctp_spacing p) 0) eqn:E4; [discriminate|]. cbn.
  destruct (Qle_bool (ctp_angle p) 0) eqn:E5; [discriminate|]. cbn.
  destruct (forallb acc_valid (ctp_acc p)) eqn:E6; [|discriminate]. cbn.
  destruct (trunc (ctp_mbpp p) <=? 0)%Z eqn:E7; [discriminate|]. cbn.
  intros E. injection E as <-. rel_split.
  unfold coh; cbn. repeat split; intros; discriminate.
Qed.

Lemma ct_rel_construct p s : ct_rel p s -> exists sf, construct p = Ok sf.
Proof.
  intros ((E1 & E2 & E3 & E4 & E5 & E6 & E7) & _).
  unfold ct_construct, ct_set_order, ct_set_pos, ct_set_angle, ct_set_acc, ct_set_mbpp, bind. cbn.
  rewrite E1. cbn. rewrite E2. cbn. rewrite E3. cbn. rewrite E4. cbn. rewrite E5. cbn. rewrite E6. cbn.
  rewrite E7. cbn. eexists. reflexivity.
Qed.

Lemma ct_view_kw s s' : b_name (ct_base s') = b_name (ct_base s) -> v_kw (view s') = v_kw (view s) /\ v_cl (view s') = v_cl (view s).
Proof. intros E. unfold ct_view; cbn. rewrite E. split; reflexivity. Qed.

Lemma ct_step_rel o p s : ct_rel p s -> ct_rel (ct_pstep o p) (fst (step o s)).
Proof.
  intros R. pose proof R as ((E1 & E2 & E3 & E4 & E5 & E6 & E7) & Hk & Ha & Hm & Hn & Hw & Hwl & Hc & Hcl).
  destruct o; cbn.
  - (* order *) unfold ct_set_order. destruct (trunc v <=? 0)%Z eqn:E; cbn; [exact R|].
    unfold ct_update_w2p; cbn. rewrite Ha. rel_split.
    + unfold key_of; cbn. rewrite Hk. reflexivity.
    + unfold key_of; cbn. rewrite Hk. reflexivity.
    + eapply coh_clear_of; [| |exact Hc]; reflexivity.
  - (* grating *) unfold ct_set_pos. destruct (Qle_bool v 0) eqn:E; cbn; [exact R|].
    unfold ct_update_w2p; cbn. rewrite Ha. rel_split.
    + unfold key_of; cbn. rewrite Hk. reflexivity.
    + unfold key_of; cbn. rewrite Hk. reflexivity.
    + eapply coh_clear_of; [| |exact Hc]; reflexivity.
  - (* focal *) unfold ct_set_pos. destruct (Qle_bool v 0) eqn:E; cbn; [exact R|].
    unfold ct_update_w2p; cbn. rewrite Ha. rel_split.
    + unfold key_of; cbn. rewrite Hk. reflexivity.
    + unfold key_of; cbn. rewrite Hk. reflexivity.
    + eapply coh_clear_of; [| |exact Hc]; reflexivity.
  - (* spacing *) unfold ct_set_pos. destruct (Qle_bool v 0) eqn:E; cbn; [exact R|].
    unfold ct_update_w2p; cbn. rewrite Ha. rel_split.
    + unfold key_of; cbn. rewrite Hk. reflexivity.
    + unfold key_of; cbn. rewrite Hk. reflexivity.
    + eapply coh_clear_of; [| |exact Hc]; reflexivity.
  - (* angle *) unfold ct_set_angle. destruct (Qle_bool v 0) eqn:E; cbn; [exact R|].
    unfold ct_update_w2p; cbn. rewrite Ha. rel_split.
    + unfold key_of; cbn. rewrite Hk. reflexivity.
    + unfold key_of; cbn. rewrite Hk. reflexivity.
    + eapply coh_clear_of; [| |exact Hc]; reflexivity.
  - (* accommodated_spectra *) unfold ct_set_acc. destruct (forallb acc_valid v) eqn:E; cbn; [|exact R].
    unfold ct_update_w2p; cbn. rel_split.
    + rewrite Hk. reflexivity.
    + eapply coh_clear_of; [| |exact Hc]; reflexivity.
  - (* min_bins_per_pixel *) unfold ct_set_mbpp. destruct (trunc v <=? 0)%Z eqn:E; cbn; [exact R|].
    rel_split. eapply coh_clear_of; [| |exact Hc]; reflexivity.
  - (* name *) rel_split. eapply coh_set_name; [| |exact Hc]; reflexivity.
  - (* lazy getters *)
    pose proof (gstep_coh (view s) g (ct_base s) Hc) as C.
    pose proof (gstep_shape (view s) g (ct_base s)) as (En & Hs).
    destruct (gstep (view s) g (ct_base s)) as [b r]. cbn in *.
    rel_split.
    + replace (view (ct_with_base s b)) with (view s); [exact C|].
      unfold ct_view; cbn. rewrite En. reflexivity.
    + tauto.
  - exact R.
  - exact R.
  - exact R.
Qed.

Lemma ct_view_of_rel p s1 s2 : ct_rel p s1 -> ct_rel p s2 -> view s1 = view s2.
Proof.
  intros (_ & _ & _ & Hm1 & Hn1 & Hw1 & _) (_ & _ & _ & Hm2 & Hn2 & Hw2 & _).
  unfold ct_view. rewrite Hm1, Hm2, Hn1, Hn2, Hw1, Hw2. reflexivity.
Qed.

Lemma ct_obs_pstep o p : ct_is_obs o = true -> ct_pstep o p = p.
Proof. destruct o; try discriminate; reflexivity. Qed.

Lemma ct_obs_equiv obs : forall p s1 s2,
  ct_rel p s1 -> ct_rel p s2 -> total (view s1) -> forallb ct_is_obs obs = true ->
  snd (run step obs s1) = snd (run step obs s2).
Proof.
  induction obs as [|o t IH]; intros p s1 s2 R1 R2 T Ho; [reflexivity|].
  cbn in Ho. apply andb_prop in Ho as [Ho Ht].
  rewrite !run_cons_snd.
  pose proof (ct_view_of_rel p s1 s2 R1 R2) as EV.
  assert (snd (step o s1) = snd (step o s2)) as ->.
  { pose proof R1 as (_ & _ & _ & _ & _ & Hw1 & Hwl1 & Hc1 & Hcl1).
    pose proof R2 as (_ & _ & _ & _ & _ & Hw2 & Hwl2 & Hc2 & Hcl2).
    destruct o; try discriminate; cbn.
    - pose proof (gstep_answer (view s1) g (ct_base s1) T Hc1) as A1.
      rewrite EV in T. pose proof (gstep_answer (view s2) g (ct_base s2) T Hc2) as A2.
      destruct (gstep (view s1) g (ct_base s1)), (gstep (view s2) g (ct_base s2)). cbn in *.
      rewrite A1, A2, EV. unfold is_missing. rewrite Hcl1, Hcl2. reflexivity.
    - rewrite Hw1, Hw2. reflexivity.
    - rewrite Hwl1, Hwl2, Hw1, Hw2. reflexivity. }
  f_equal. apply (IH p); try assumption.
  - rewrite <- (ct_obs_pstep o p Ho). apply ct_step_rel, R1.
  - rewrite <- (ct_obs_pstep o p Ho). apply ct_step_rel, R2.
  - pose proof (ct_step_rel o p s1 R1) as R1'. rewrite (ct_obs_pstep o p Ho) in R1'.
    rewrite <- (ct_view_of_rel p s1 _ R1 R1'). exact T.
Qed.

Lemma ct_run_rel ops : forall p s, ct_rel p s -> ct_rel (fold_left (fun p o => ct_pstep o p) ops p) (fst (run step ops s)).
Proof.
  induction ops as [|o t IH]; intros p s R; [exact R|].
  rewrite run_cons_fst. cbn. apply IH, ct_step_rel, R.
Qed.

Theorem ct_history p0 s0 ops :
  construct p0 = Ok s0 ->
  let s := fst (run step ops s0) in
  let pf := fold_left (fun p o => ct_pstep o p) ops p0 in
  ct_rel pf s /\
  exists sf, construct pf = Ok sf /\
    (total (view s) -> forall obs, forallb ct_is_obs obs = true ->
       snd (run step obs s) = snd (run step obs sf)).
Proof.
  intros Hc s pf.
  assert (ct_rel pf s) as R by (apply ct_run_rel, ct_construct_rel, Hc).
  split; [exact R|].
  destruct (ct_rel_construct pf s R) as (sf & E). exists sf. split; [exact E|].
  intros T obs Ho. apply (ct_obs_equiv obs pf); try assumption. apply ct_construct_rel, E.
Qed.

End CT.

(* ---- exact arithmetic: a positive resolution gives strictly increasing pixel edges ---- *)
Lemma ct_edges_hd rnd (resolution : ct_key -> Q -> Q) k w n : exists t, ct_edges rnd resolution k w n = w :: t.
Proof. destruct n; eexists; reflexivity. Qed.

Lemma ct_edges_increasing (resolution : ct_key -> Q -> Q) k :
  (forall w, 0 < resolution k w) -> forall n w, increasing (ct_edges exact resolution k w n) = true.
Proof.
  intros Hpos. induction n as [|n IH]; intros w; [reflexivity|].
  change (ct_edges exact resolution k w (S n)) with (w :: ct_edges exact resolution k (exact (w + resolution k w)) n).
  assert (w < exact (w + resolution k w)) as Hlt by (unfold exact; specialize (Hpos w); lra).
  remember (exact (w + resolution k w)) as w' eqn:Ew'. clear Ew'.
  specialize (IH w').
  destruct (ct_edges_hd exact resolution k w' n) as (t & E).
  rewrite E in *.
  change (negb (Qle_bool w' w) && increasing (w' :: t) = true).
  rewrite IH, andb_true_r. apply negb_true_iff.
  destruct (Qle_bool w' w) eqn:E'; [|reflexivity].
  apply Qle_bool_iff in E'. lra.
Qed.

Lemma ct_edges_length rnd (resolution : ct_key -> Q -> Q) k n : forall w, List.length (ct_edges rnd resolution k w n) = S n.
Proof. induction n as [|n IH]; intros w; [reflexivity|]. cbn. rewrite IH. reflexivity. Qed.

(* hence every array of a Czerny-Turner instrument with valid accommodated spectra is a valid
   calibration array, and the coverage / bin-width theorems apply to it *)
Lemma ct_arrays_valid (resolution : ct_key -> Q -> Q) k acc :
  (forall w, 0 < resolution k w) -> forallb acc_valid acc = true ->
  forallb valid_arr (ct_arrays exact resolution k acc) = true.
Proof.
  intros Hpos Hv. unfold ct_arrays. rewrite forallb_forall in *. intros a Ha.
  apply in_map_iff in Ha as (mp & <- & Hin). specialize (Hv mp Hin).
  unfold valid_arr. rewrite ct_edges_increasing by assumption. rewrite andb_true_r.
  rewrite ct_edges_length. unfold acc_valid in Hv. apply andb_prop in Hv as [_ Hp].
  apply negb_true_iff, Z.leb_gt in Hp. apply Z.leb_le. lia.
Qed.
