(* BeamCXLine.emission and BeamEmissionLine.emission of the model against the specification. *)
Require Import Cherab.Common.Qx.
Require Import Cherab.Model.C05_BeamModels.
Require Import Cherab.Proofs.C05_Mean Cherab.Proofs.C05_Loops.
From Coq Require Import Lqa.
Open Scope Q_scope.

Definition rates_proper (rates : list (Z * rate5 * list rate3)) : Prop :=
  forall rt, In rt rates -> proper5 (snd (fst rt)) /\ (forall c, In c (snd rt) -> proper3 c).

Lemma ground_of_in rates g0 g :
  fold_left (fun g r => if (fst (fst r) =? 1)%Z then Some (snd (fst r)) else g) rates g0 = Some g ->
  g0 = Some g \/ exists rt : Z * rate5 * list rate3, In rt rates /\ snd (fst rt) = g.
Proof.
  revert g0. induction rates as [|rt rates IH]; intros g0 H; simpl in H; [left; assumption|].
  destruct (IH _ H) as [E|[rt' [Hin E]]].
  - destruct (fst (fst rt) =? 1)%Z.
    + right. exists rt. split; [left; reflexivity | congruence].
    + left. assumption.
  - right. exists rt'. split; [right; assumption | assumption].
Qed.

Lemma excited_of_in rates ex :
  In ex (excited_of rates) -> exists rt, In rt rates /\ ex = (snd (fst rt), snd rt).
Proof.
  unfold excited_of. intros H. apply in_map_iff in H. destruct H as [rt [E Hin]].
  apply filter_In in Hin. exists rt. split; [tauto | congruence].
Qed.

Lemma beam_density_cases beam_len beam_z att :
  (beam_z < 0 \/ beam_len < beam_z -> beam_density beam_len beam_z att = 0) /\
  (0 <= beam_z <= beam_len -> beam_density beam_len beam_z att = att).
Proof.
  unfold beam_density. split.
  - intros [H|H].
    + destruct (Qle_bool 0 beam_z) eqn:E; [apply Qle_bool_iff in E; lra | reflexivity].
    + destruct (Qle_bool 0 beam_z); simpl; [|reflexivity].
      destruct (Qle_bool beam_z beam_len) eqn:E; [apply Qle_bool_iff in E; lra | reflexivity].
  - intros [H1 H2]. apply Qle_bool_iff in H1, H2. rewrite H1, H2. reflexivity.
Qed.

Section WithSqrt.
  Variable sqrt : Q -> Q.
  Variable K : consts.

  (* ---- composite coefficient = population-weighted mean, coefficients at the five arguments ---- *)
  Lemma composite_spec sps bfield ie bv tr ground (exs : list (rate5 * list rate3)) q :
    proper5 ground ->
    (forall e, In e exs -> proper5 (fst e) /\ forall c, In c (snd e) -> proper3 c) ->
    composite_cx_rate sqrt K sps bfield ie bv tr ground (map (fun e => (fst e, combine sps (snd e))) exs) = Some q ->
    q == weighted_mean
           (apply5 ground (ie, tr, spec_ion_density sps, spec_zeff sps, vlen sqrt bfield))
           (map (fun ex => (spec_population sqrt K bv (combine sps (snd ex)),
                            apply5 (fst ex) (ie, tr, spec_ion_density sps, spec_zeff sps, vlen sqrt bfield))) exs).
  Proof.
    intros Hg Hex. unfold composite_cx_rate, cx_args.
    destruct (z_effective sps) as [zf|] eqn:Ez; [|discriminate].
    intros H. apply some_inj in H. subst q. cbv zeta.
    pose proof (z_effective_spec sps zf Ez) as Hzf.
    set (a5 := (ie, tr, ion_density sps, zf, vlen sqrt bfield)).
    set (a5' := (ie, tr, spec_ion_density sps, spec_zeff sps, vlen sqrt bfield)).
    assert (Ha : forall f, proper5 f -> apply5 f a5 == apply5 f a5').
    { intros f Hf. unfold a5, a5', apply5. apply Hf; try reflexivity; [apply ion_density_spec | assumption]. }
    destruct (comp_fold sqrt K bv a5 (map (fun e => (fst e, combine sps (snd e))) exs) (apply5 ground a5, 1)) as [H1 H2].
    rewrite nz_correct, H1, H2. cbn [fst snd]. unfold weighted_mean. rewrite !map_map. cbn [fst snd].
    assert (EN : Qsum (map (fun x => beam_population sqrt K bv (combine sps (snd x)) * apply5 (fst x) a5) exs)
                 == Qsum (map (fun x => spec_population sqrt K bv (combine sps (snd x)) * apply5 (fst x) a5') exs)).
    { apply Qsum_map_ext. intros e Hin. cbv beta. destruct (Hex e Hin) as [P5 P3].
      rewrite (Ha _ P5). rewrite beam_population_spec; [reflexivity|].
      intros sc Hsc. apply P3. destruct sc as [s c]. apply in_combine_r in Hsc. assumption. }
    assert (ED : Qsum (map (fun x => beam_population sqrt K bv (combine sps (snd x))) exs)
                 == Qsum (map (fun x => spec_population sqrt K bv (combine sps (snd x))) exs)).
    { apply Qsum_map_ext. intros e Hin. cbv beta. destruct (Hex e Hin) as [P5 P3].
      apply beam_population_spec. intros sc Hsc. apply P3. destruct sc as [s c]. apply in_combine_r in Hsc. assumption. }
    rewrite EN, ED, (Ha _ Hg). reflexivity.
  Qed.

  (* ---- BeamCXLine.emission ------------------------------------------------------------------------ *)
  Lemma cx_emission_formula sps bfield lel lch rates beam_len beam_z att dir energy r :
    rates_proper rates ->
    cx_emission sqrt K sps bfield lel lch rates beam_len beam_z att dir energy = AddLine r ->
    exists rs ground,
      find_species sps lel (lch + 1) = Some rs /\ ground_of rates = Some ground /\
      r == spec_cx_radiance sqrt K sps bfield rs (beam_density beam_len beam_z att)
                            (beam_velocity sqrt K dir energy) ground (excited_of rates).
  Proof.
    intros Hp. unfold cx_emission, cx_emission_gen.
    destruct (find_species sps lel (lch + 1)) as [rs|] eqn:Ef; [|discriminate].
    rewrite populate_cache_spec. cbn [fst snd].
    destruct (Qeq_bool (beam_density beam_len beam_z att) 0); [discriminate|].
    destruct (Qeq_bool (dens rs) 0); [discriminate|].
    destruct (Qeq_bool (temp rs) 0); [discriminate|].
    destruct (ground_of rates) as [ground|] eqn:Eg; [|discriminate].
    destruct (composite_cx_rate sqrt K sps bfield _ _ _ ground _) as [q|] eqn:Eq; [|discriminate].
    intros H. apply addline_inj in H. subst r. exists rs, ground. repeat split.
    apply composite_spec in Eq.
    - unfold spec_cx_radiance, spec_args5. rewrite Eq. reflexivity.
    - unfold ground_of in Eg. apply ground_of_in in Eg. destruct Eg as [E|[rt [Hin <-]]]; [discriminate|].
      apply (Hp rt Hin).
    - intros e Hin. apply excited_of_in in Hin. destruct Hin as [rt [Hin ->]]. cbn [fst snd]. apply (Hp rt Hin).
  Qed.

  (* q lies between the smallest and the largest coefficient when the relative populations are >= 0 *)
  Lemma cx_emission_bounded sps bfield lel lch rates beam_len beam_z att dir energy r :
    rates_proper rates ->
    (forall ex, In ex (excited_of rates) ->
       0 <= spec_population sqrt K (beam_velocity sqrt K dir energy) (combine sps (snd ex))) ->
    cx_emission sqrt K sps bfield lel lch rates beam_len beam_z att dir energy = AddLine r ->
    exists rs ground q,
      find_species sps lel (lch + 1) = Some rs /\ ground_of rates = Some ground /\
      r == c_k4pi K * beam_density beam_len beam_z att * dens rs * q /\
      let a5 := spec_args5 sqrt K sps bfield (beam_velocity sqrt K dir energy) rs in
      lmin (apply5 ground a5) (map (fun ex => apply5 (fst ex) a5) (excited_of rates)) <= q
      <= lmax (apply5 ground a5) (map (fun ex => apply5 (fst ex) a5) (excited_of rates)).
  Proof.
    intros Hp Hk H. destruct (cx_emission_formula _ _ _ _ _ _ _ _ _ _ _ Hp H) as [rs [ground [Ef [Eg Er]]]].
    exists rs, ground. eexists. split; [exact Ef|]. split; [exact Eg|]. split; [exact Er|].
    cbv zeta.
    set (a5 := spec_args5 sqrt K sps bfield (beam_velocity sqrt K dir energy) rs).
    set (kq := map (fun ex => (spec_population sqrt K (beam_velocity sqrt K dir energy) (combine sps (snd ex)),
                               apply5 (fst ex) a5)) (excited_of rates)).
    assert (E : map (fun ex => apply5 (fst ex) a5) (excited_of rates) = map snd kq).
    { unfold kq. rewrite map_map. reflexivity. }
    rewrite E. apply weighted_mean_min_max.
    intros p Hin. unfold kq in Hin. apply in_map_iff in Hin. destruct Hin as [ex [<- Hin]]. cbn [fst]. apply Hk; assumption.
  Qed.

  (* the relative population is a charge-density weighted mean of the population coefficients *)
  Lemma population_between bv (pd : list (species * rate3)) lo hi :
    (forall sf, In sf pd -> (0 <= charge (fst sf))%Z /\ 0 <= dens (fst sf)) ->
    0 < Qsum (map (fun sf => dens (fst sf) * zq (fst sf)) pd) ->
    (forall sf, In sf pd -> 0 < dens (fst sf) * zq (fst sf) -> lo <= coeff_value sqrt K bv (map fst pd) sf <= hi) ->
    lo <= spec_population sqrt K bv pd <= hi.
  Proof.
    intros Hs Hpos Hb. unfold spec_population.
    set (l := map (fun sf => (dens (fst sf) * zq (fst sf), coeff_value sqrt K bv (map fst pd) sf)) pd).
    assert (Ews : Qsum (map (fun sf => dens (fst sf) * zq (fst sf) * coeff_value sqrt K bv (map fst pd) sf) pd) == wsum l).
    { unfold wsum, l. rewrite map_map. apply Qsum_map_ext. intros; cbn [fst snd]; ring. }
    assert (Ewt : Qsum (map (fun sf => dens (fst sf) * zq (fst sf)) pd) == wtot l).
    { unfold wtot, l. rewrite map_map. apply Qsum_map_ext. intros; cbn [fst snd]; ring. }
    rewrite Ews, Ewt. apply wmean_bounds; [|rewrite <- Ewt; assumption].
    intros p Hin. unfold l in Hin. apply in_map_iff in Hin. destruct Hin as [sf [<- Hin]]. cbn [fst snd].
    destruct (Hs sf Hin) as [Hc Hd]. split; [|apply Hb; assumption].
    assert (0 <= zq (fst sf)) by (unfold zq; change 0 with (inject_Z 0); rewrite <- Zle_Qle; assumption). nra.
  Qed.

  (* what is known when a line was emitted: the three guards of emission() were passed *)
  Lemma cx_emission_guards sps bfield lel lch rates beam_len beam_z att dir energy r :
    cx_emission sqrt K sps bfield lel lch rates beam_len beam_z att dir energy = AddLine r ->
    exists rs, find_species sps lel (lch + 1) = Some rs /\
               ~ beam_density beam_len beam_z att == 0 /\ ~ dens rs == 0 /\ ~ temp rs == 0.
  Proof.
    unfold cx_emission, cx_emission_gen.
    destruct (find_species sps lel (lch + 1)) as [rs|] eqn:Ef; [|discriminate].
    destruct (Qeq_bool (beam_density beam_len beam_z att) 0) eqn:E1; [discriminate|].
    destruct (Qeq_bool (dens rs) 0) eqn:E2; [discriminate|].
    destruct (Qeq_bool (temp rs) 0) eqn:E3; [discriminate|].
    intros _. exists rs. apply Qeq_bool_neq in E1, E2, E3. auto.
  Qed.

  Lemma find_species_in sps el ch rs :
    find_species sps el ch = Some rs -> In rs sps /\ charge rs = ch.
  Proof.
    unfold find_species. intros H. apply find_some in H. destruct H as [Hin H].
    apply andb_true_iff in H. destruct H as [_ H]. apply Z.eqb_eq in H. auto.
  Qed.

  Lemma Qsum_nonneg {A} (f : A -> Q) l : (forall x, In x l -> 0 <= f x) -> 0 <= Qsum (map f l).
  Proof.
    induction l as [|x l IH]; intros H; cbn [map Qsum]; [lra|].
    assert (0 <= f x) by (apply H; left; reflexivity).
    assert (0 <= Qsum (map f l)) by (apply IH; intros; apply H; right; assumption). lra.
  Qed.

  Lemma Qsum_ge_member {A} (f : A -> Q) l a :
    (forall x, In x l -> 0 <= f x) -> In a l -> f a <= Qsum (map f l).
  Proof.
    induction l as [|x l IH]; intros H Hin; [destruct Hin|]. cbn [map Qsum].
    assert (0 <= f x) by (apply H; left; reflexivity).
    assert (0 <= Qsum (map f l)) by (apply Qsum_nonneg; intros; apply H; right; assumption).
    destruct Hin as [->|Hin]; [lra|].
    assert (f a <= Qsum (map f l)) by (apply IH; [intros; apply H; right; assumption | assumption]). lra.
  Qed.

  Lemma map_fst_combine {A B} (l : list A) (l' : list B) : length l' = length l -> map fst (combine l l') = l.
  Proof.
    revert l'. induction l as [|x l IH]; intros [|y l'] H; simpl in *; try discriminate; [reflexivity|].
    f_equal. apply IH. congruence.
  Qed.

  (* the relative population of an excited beam state is >= 0 for non-negative population tables *)
  Lemma population_nonneg bv (sps : list species) (cs : list rate3) rs :
    (forall s, In s sps -> (0 <= charge s)%Z /\ 0 <= dens s) ->
    length cs = length sps ->
    (forall c, In c cs -> forall e n t, 0 <= c e n t) ->
    In rs sps -> (0 < charge rs)%Z -> ~ dens rs == 0 ->
    0 <= spec_population sqrt K bv (combine sps cs).
  Proof.
    intros Hs Hlen Hc Hin Hz Hd. unfold spec_population.
    assert (Hzq : forall s, In s sps -> 0 <= zq s).
    { intros s Hs'. unfold zq. change 0 with (inject_Z 0). rewrite <- Zle_Qle. apply (Hs s Hs'). }
    assert (Hden : 0 < Qsum (map (fun sf : species * rate3 => dens (fst sf) * zq (fst sf)) (combine sps cs))).
    { assert (E : map (fun sf : species * rate3 => dens (fst sf) * zq (fst sf)) (combine sps cs)
                  = map (fun s => dens s * zq s) (map fst (combine sps cs))) by (rewrite map_map; reflexivity).
      rewrite E, (map_fst_combine sps cs Hlen).
      assert (G : dens rs * zq rs <= Qsum (map (fun s => dens s * zq s) sps)).
      { apply (Qsum_ge_member (fun s => dens s * zq s)); [|assumption].
        intros s Hs'. destruct (Hs s Hs') as [_ Hd']. specialize (Hzq s Hs'). nra. }
      assert (0 < zq rs) by (apply zq_pos, Z.ltb_lt; assumption).
      destruct (Hs rs Hin) as [_ Hd0].
      assert (0 < dens rs) by (destruct (Qlt_le_dec 0 (dens rs)) as [|Hle]; [assumption | exfalso; apply Hd; lra]).
      nra. }
    apply Qle_shift_div_l; [assumption|]. rewrite Qmult_0_l. apply Qsum_nonneg.
    intros [s c] Hsc. cbn [fst snd]. pose proof (in_combine_l _ _ _ _ Hsc) as Hs'. pose proof (in_combine_r _ _ _ _ Hsc) as Hc'.
    destruct (Hs s Hs') as [_ Hd']. specialize (Hzq s Hs'). unfold coeff_value. cbn [fst snd].
    pose proof (Hc c Hc' (interaction_energy sqrt K bv (vel s)) (spec_density_sum (map fst (combine sps cs)) / zq s) (temp s)) as Hv.
    apply Qmult_le_0_compat; [apply Qmult_le_0_compat; assumption | exact Hv].
  Qed.

  (* the bounded-mean statement with the population hypothesis discharged: non-negative densities, charges >= 0,
     a line of charge >= 0, one non-negative population coefficient per species of the composition *)
  Lemma cx_emission_bounded_nonneg sps bfield lel lch rates beam_len beam_z att dir energy r :
    rates_proper rates ->
    (forall s, In s sps -> (0 <= charge s)%Z /\ 0 <= dens s) ->
    (0 <= lch)%Z ->
    (forall rt, In rt rates -> length (snd rt) = length sps /\ forall c, In c (snd rt) -> forall e n t, 0 <= c e n t) ->
    cx_emission sqrt K sps bfield lel lch rates beam_len beam_z att dir energy = AddLine r ->
    exists rs ground q,
      find_species sps lel (lch + 1) = Some rs /\ ground_of rates = Some ground /\
      r == c_k4pi K * beam_density beam_len beam_z att * dens rs * q /\
      let a5 := spec_args5 sqrt K sps bfield (beam_velocity sqrt K dir energy) rs in
      lmin (apply5 ground a5) (map (fun ex => apply5 (fst ex) a5) (excited_of rates)) <= q
      <= lmax (apply5 ground a5) (map (fun ex => apply5 (fst ex) a5) (excited_of rates)).
  Proof.
    intros Hp Hs Hl Hr H. apply cx_emission_bounded; [assumption | | assumption].
    destruct (cx_emission_guards _ _ _ _ _ _ _ _ _ _ _ H) as [rs [Ef [_ [Hd _]]]].
    destruct (find_species_in _ _ _ _ Ef) as [Hin Hch].
    intros ex Hex. apply excited_of_in in Hex. destruct Hex as [rt [Hrt ->]]. cbn [snd].
    destruct (Hr rt Hrt) as [Hlen Hc].
    apply (population_nonneg _ sps (snd rt) rs); try assumption. lia.
  Qed.

  Lemma cx_vanishes sps bfield lel lch rates beam_len beam_z att dir energy rs :
    find_species sps lel (lch + 1) = Some rs ->
    beam_density beam_len beam_z att == 0 \/ dens rs == 0 ->
    cx_emission sqrt K sps bfield lel lch rates beam_len beam_z att dir energy = Unchanged.
  Proof.
    intros Ef H. unfold cx_emission, cx_emission_gen. rewrite Ef.
    destruct (Qeq_bool (beam_density beam_len beam_z att) 0) eqn:E1; [reflexivity|].
    destruct (Qeq_bool (dens rs) 0) eqn:E2; [reflexivity|].
    apply Qeq_bool_neq in E1, E2. tauto.
  Qed.

  (* ---- BeamEmissionLine.emission -------------------------------------------------------------------- *)
  Lemma bes_emission_formula sps pecs beam_len beam_z att dir energy r :
    (forall c, In c pecs -> proper3 c) ->
    bes_emission sqrt K sps pecs beam_len beam_z att dir energy = AddLine r ->
    r == spec_bes_radiance sqrt K (beam_density beam_len beam_z att) (beam_velocity sqrt K dir energy) (combine sps pecs).
  Proof.
    intros Hp. unfold bes_emission.
    destruct (Qeq_bool (beam_density beam_len beam_z att) 0); [discriminate|].
    intros H. apply addline_inj in H. subst r. unfold spec_bes_radiance.
    rewrite beam_emission_rate_spec; [reflexivity|].
    intros sc Hin. destruct sc as [s c]. apply in_combine_r in Hin. apply Hp; assumption.
  Qed.

  Lemma bes_vanishes sps pecs beam_len beam_z att dir energy :
    (beam_density beam_len beam_z att == 0 ->
     bes_emission sqrt K sps pecs beam_len beam_z att dir energy = Unchanged) /\
    ((forall s, In s sps -> dens s == 0) -> forall r,
     bes_emission sqrt K sps pecs beam_len beam_z att dir energy = AddLine r -> r == 0).
  Proof.
    unfold bes_emission. split.
    - intros H. apply Qeq_bool_iff in H. rewrite H. reflexivity.
    - intros H0 r. destruct (Qeq_bool (beam_density beam_len beam_z att) 0); [discriminate|].
      intros H. apply addline_inj in H. subst r. unfold beam_emission_rate. rewrite bes_fold.
      assert (E : Qsum (map (fun sc => dens (fst sc) * zq (fst sc) *
                    apply3 (snd sc) (args3 sqrt K (beam_velocity sqrt K dir energy) (density_sum (map fst (combine sps pecs))) (fst sc)))
                    (combine sps pecs)) == Qsum (map (fun _ => 0) (combine sps pecs))).
      { apply Qsum_map_ext. intros sc Hin. cbv beta. destruct sc as [s c]. apply in_combine_l in Hin.
        cbn [fst snd]. rewrite (H0 s Hin). ring. }
      rewrite E. assert (Z0 : forall (l : list (species * rate3)), Qsum (map (fun _ => 0) l) == 0).
      { induction l as [|x l IH]; simpl; [reflexivity | rewrite IH; ring]. }
      rewrite Z0. ring.
  Qed.

  (* ---- the interaction-energy frame ------------------------------------------------------------------ *)
  (* sqrt is only required to be a square root at the three points where the code calls it *)
  Lemma interaction_energy_frame dir energy v :
    0 < c_e K -> 0 < c_amu K -> 0 < norm2 dir -> 0 <= energy ->
    let bv := beam_velocity sqrt K dir energy in
    sqrt (norm2 dir) * sqrt (norm2 dir) == norm2 dir ->
    sqrt (2 * energy * c_e K * (1 / c_amu K)) * sqrt (2 * energy * c_e K * (1 / c_amu K)) == 2 * energy * c_e K * (1 / c_amu K) ->
    sqrt (norm2 (vsub bv v)) * sqrt (norm2 (vsub bv v)) == norm2 (vsub bv v) ->
    (* the beam velocity has the beam energy per unit mass ... *)
    (1 # 2) * norm2 bv * (c_amu K / c_e K) == energy /\
    (* ... the interaction energy is the kinetic energy per unit mass of the relative motion ... *)
    interaction_energy sqrt K bv v == (1 # 2) * norm2 (vsub bv v) * (c_amu K / c_e K) /\
    (* ... so for a species at rest it is the beam energy itself *)
    (v = (0, 0, 0) -> interaction_energy sqrt K bv v == energy).
  Proof.
    intros He Ha Hn Hen bv H1 H2 H3.
    assert (Hs : ~ sqrt (norm2 dir) == 0).
    { intros E. rewrite E in H1. lra. }
    assert (Hvm : forall a k, norm2 (vmul a k) == k * k * norm2 a).
    { intros a k. unfold norm2, vmul, mkvec, vx, vy, vz. cbn [fst snd]. rewrite !nz_correct. ring. }
    assert (Hbv : norm2 bv == 2 * energy * c_e K * (1 / c_amu K)).
    { unfold bv, beam_velocity, normalise, vlen, evamu_to_ms. rewrite !Hvm.
      set (s := sqrt (norm2 dir)) in *. set (w := sqrt (2 * energy * c_e K * (1 / c_amu K))) in *.
      rewrite <- H1, H2. field. split; [lra | assumption]. }
    assert (Hie : interaction_energy sqrt K bv v == (1 # 2) * norm2 (vsub bv v) * (c_amu K / c_e K)).
    { unfold interaction_energy, ms_to_evamu, vlen. rewrite nz_correct, H3. field. lra. }
    split; [|split].
    - rewrite Hbv. field. split; lra.
    - exact Hie.
    - intros ->. rewrite Hie.
      assert (E : norm2 (vsub bv (0, 0, 0)) == norm2 bv).
      { unfold norm2, vsub, mkvec, vx, vy, vz. cbn [fst snd]. rewrite !nz_correct. ring. }
      rewrite E, Hbv. field. split; lra.
  Qed.
End WithSqrt.
