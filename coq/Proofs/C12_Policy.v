(* Facts about the argument policy and the polygon mask. *)
Require Import Cherab.Common.Qx.
Require Import Cherab.Model.C12_Equilibrium Cherab.Model.C12_Profile Cherab.Model.C12_Polygon.
Require Import Cherab.Proofs.C12_Equilibrium.
Open Scope Q_scope.

(* a 2xN array with N >= 2 strictly increasing knots is never rejected, whatever follows the two rows, and
   it is used as given: first row knots, second row values (no transposition, also for N = 2) *)
Lemma valid_array_accepted xs ys rest :
  (2 <= length xs)%nat -> increasing xs = true -> convert (AMat (xs :: ys :: rest)) = AcceptArray xs ys.
Proof.
  intros Hn Hi. unfold convert. destruct (Nat.ltb_spec (length xs) 2); [lia|]. rewrite Hi. reflexivity.
Qed.

(* conversely an accepted array has at least two strictly increasing knots and came as the first two rows *)
Lemma accepted_array_is_valid a xs ys :
  convert a = AcceptArray xs ys ->
  exists rest, a = AMat (xs :: ys :: rest) /\ (2 <= length xs)%nat /\ increasing xs = true.
Proof.
  destruct a as [| |l|rows|]; try discriminate. unfold convert.
  destruct rows as [|r0 [|r1 rest]]; try discriminate.
  destruct (Nat.ltb_spec (length r0) 2) as [Hlt|Hge]; [discriminate|].
  destruct (increasing r0) eqn:Hi; [|discriminate].
  intros Heq. injection Heq as <- <-. exists rest. repeat split; assumption.
Qed.

Lemma increasing_spec l : increasing l = true -> forall i, (S i < length l)%nat -> nth i l 0 < nth (S i) l 0.
Proof.
  induction l as [|a [|b t] IH]; intros H i Hi; cbn [length] in Hi; try lia.
  cbn [increasing] in H. apply andb_true_iff in H. destruct H as [H1 H2].
  destruct i as [|i]; [cbn [nth]; apply Qlt_b_true, H1|].
  change (nth (S i) (a :: b :: t) 0) with (nth i (b :: t) 0).
  change (nth (S (S i)) (a :: b :: t) 0) with (nth (S i) (b :: t) 0).
  apply IH; [exact H2 | cbn [length] in *; lia].
Qed.

(* callables are never converted or rejected; every rejection is one of the two kinds *)
Lemma callable_accepted : convert AFun = AcceptFun.
Proof. reflexivity. Qed.

Lemma outside_defaults : outside_vector None = vzero /\ outside_scalar None = 0 /\
                         (forall v, outside_vector (Some v) = v) /\ (forall q, outside_scalar (Some q) = q).
Proof. repeat split. Qed.

(* the polygon mask takes the values 0 and 1 only; with it the LCFS mask of the model is
   "inside the polygon (even-odd) and psi_n <= 1" *)
Lemma poly_mask_01 poly x y : poly_mask poly x y = 1 \/ poly_mask poly x y = 0.
Proof. unfold poly_mask. destruct (pip poly x y); [left | right]; reflexivity. Qed.

Lemma inside_with_polygon E poly r z :
  e_poly E = poly_mask poly ->
  (inside_b E r z = true <-> (pip poly r z = true /\ psi_n E r z <= 1)).
Proof.
  intros Hp. rewrite inside_b_iff, Hp. unfold poly_mask.
  destruct (pip poly r z); split; intros [A B]; split; try assumption; try reflexivity; try discriminate.
Qed.
