(* C02: the polarisation setter keeps no history; accepted constructor arguments satisfy what the theorems assume. *)
Require Import Cherab.Common.Qx.
Require Import Cherab.Model.C02_LineShape Cherab.Model.C02_Policy.
Require Import Cherab.Proofs.C02_Norm.
From Coq Require Import String Ascii Lqa.
Open Scope Q_scope.

Lemma pol_roundtrip p : pol_of_string (pol_get p) = Some p.
Proof. destruct p; reflexivity. Qed.

Lemma pol_run_app st vs v :
  fst (pol_run st (vs ++ [v])) = match pol_of_string v with Some p => p | None => fst (pol_run st vs) end.
Proof.
  revert st; induction vs as [|x t IH]; intros st.
  - cbn [app pol_run]. unfold pol_set. destruct (pol_of_string v); reflexivity.
  - cbn [app pol_run]. destruct (pol_set st x) as [s1 e]. specialize (IH s1).
    destruct (pol_run s1 (t ++ [v])) as [s2 r]. destruct (pol_run s1 t) as [s3 r3]. exact IH.
Qed.

(* after ANY history the state is the last accepted value (or the initial one): two histories with the same last
   accepted value leave the object in the same state, and re-assigning the value read from the getter changes nothing *)
Theorem pol_history_independent st st' vs vs' v p : pol_of_string v = Some p ->
  fst (pol_run st (vs ++ [v])) = p /\ fst (pol_run st (vs ++ [v])) = fst (pol_run st' (vs' ++ [v]))
  /\ pol_set p (pol_get p) = (p, false).
Proof.
  intros H. rewrite !pol_run_app, H. repeat split. unfold pol_set. now rewrite pol_roundtrip.
Qed.

Theorem validation_sound :
  (forall a b, param_zeeman_valid a b = true -> 0 < a /\ 0 <= b) /\
  (forall c a b, stark_coeff_valid c a b = true -> 0 < c /\ 0 < a /\ 0 < b) /\
  (forall w f, stark_function_valid w f = true -> 0 < w /\ 0 < f) /\
  (forall rs, multiplet_valid rs = true -> Qsum rs == 1).
Proof.
  split; [|split; [|split]].
  - intros a b H. unfold param_zeeman_valid in H. apply andb_true_iff in H as [H1 H2].
    apply negb_true_iff in H1, H2. split; [now apply Qle_bool_false | now apply Qltb_false].
  - intros c a b H. unfold stark_coeff_valid in H. apply andb_true_iff in H as [H H3]. apply andb_true_iff in H as [H1 H2].
    apply negb_true_iff in H1, H2, H3. repeat split; now apply Qle_bool_false.
  - intros w f H. unfold stark_function_valid in H. apply andb_true_iff in H as [H1 H2].
    apply negb_true_iff in H1, H2. split; now apply Qle_bool_false.
  - intros rs H. unfold multiplet_valid in H. now apply Qeq_bool_iff.
Qed.
