(* C02: after any history of setter calls evaluate() reads, for every order it tries, the cache row that
   _build_cache wrote for that order, and never reads past the allocated length. *)
Require Import Cherab.Common.Qx.
Require Import Cherab.Model.C02_Quadrature.
Open Scope Z_scope.

Definition q_inv (s : qstate) : Prop := c_min s = q_min s /\ c_max s = q_max s /\ 1 <= q_min s <= q_max s.

Lemma q_init_inv mx mn p s : q_init mx mn p = Some s -> q_inv s.
Proof.
  unfold q_init. destruct (Z.ltb_spec mn 1), (Z.ltb_spec mx 1); cbn [orb]; try discriminate.
  destruct (Z.ltb_spec mx mn); [discriminate|]. destruct (negb p); [discriminate|].
  intros H'; inversion H'. unfold q_inv, rebuild; cbn. lia.
Qed.

Lemma q_step_inv s o : q_inv s -> q_inv (fst (q_step s o)).
Proof.
  intros (A & B & C). destruct o as [v|v|p|]; cbn [q_step].
  - destruct (Z.ltb_spec v 1); [cbn; unfold q_inv; lia|].
    destruct (Z.ltb_spec (q_max s) v); cbn; unfold q_inv; cbn; lia.
  - destruct (Z.ltb_spec v 1); [cbn; unfold q_inv; lia|].
    destruct (Z.ltb_spec v (q_min s)); cbn; unfold q_inv; cbn; lia.
  - cbn; unfold q_inv; lia.
  - cbn; unfold q_inv; lia.
Qed.

Lemma q_run_inv ops : forall s, q_inv s -> q_inv (fst (q_run s ops)).
Proof.
  induction ops as [|o t IH]; intros s H; cbn [q_run]; [exact H|].
  pose proof (q_step_inv s o H) as H1. destruct (q_step s o) as [s1 e]. cbn [fst] in H1.
  specialize (IH s1 H1). destruct (q_run s1 t) as [s2 es]. exact IH.
Qed.

Lemma sum_orders_app a n m : sum_orders a (n + m) = sum_orders a n + sum_orders (a + Z.of_nat n) m.
Proof.
  revert a; induction n as [|n IH]; intros a.
  - cbn. now replace (a + 0) with a by lia.
  - cbn [Nat.add sum_orders]. rewrite IH. replace (a + 1 + Z.of_nat n) with (a + Z.of_nat (S n)) by lia. lia.
Qed.

Lemma sum_orders_closed a n : 2 * sum_orders a n = Z.of_nat n * (2 * a + Z.of_nat n - 1).
Proof. revert a; induction n as [|n IH]; intros a; [cbn; lia|]. cbn [sum_orders]. specialize (IH (a + 1)). nia. Qed.

Lemma sum_orders_nonneg a n : 0 <= a -> 0 <= sum_orders a n.
Proof. revert a; induction n as [|n IH]; intros a H; cbn [sum_orders]; [lia|]. specialize (IH (a + 1)). lia. Qed.

Lemma cache_len_sum s : 1 <= c_min s <= c_max s -> cache_len s = sum_orders (c_min s) (Z.to_nat (c_max s - c_min s + 1)).
Proof.
  intros H. unfold cache_len. pose proof (sum_orders_closed (c_min s) (Z.to_nat (c_max s - c_min s + 1))) as C.
  rewrite Z2Nat.id in C by lia.
  replace ((c_max s + c_min s) * (c_max s - c_min s + 1)) with (sum_orders (c_min s) (Z.to_nat (c_max s - c_min s + 1)) * 2) by nia.
  now rewrite Z.div_mul by lia.
Qed.

(* THE BOOKKEEPING THEOREM *)
Theorem quadrature_rows mx mn p ops s0 : q_init mx mn p = Some s0 ->
  let s := fst (q_run s0 ops) in
  1 <= q_min s <= q_max s /\
  forall o, q_min s <= o <= q_max s ->
    row_in_eval s o = row_in_cache s o /\ 0 <= row_in_eval s o /\ row_in_eval s o + o <= cache_len s.
Proof.
  intros Hi. cbn zeta. pose proof (q_run_inv ops s0 (q_init_inv _ _ _ _ Hi)) as (A & B & C).
  set (s := fst (q_run s0 ops)) in *. split; [exact C|]. intros o Ho.
  unfold row_in_eval, row_in_cache. rewrite A. split; [reflexivity|]. split; [apply sum_orders_nonneg; lia|].
  rewrite cache_len_sum by lia. rewrite A, B.
  replace (Z.to_nat (q_max s - q_min s + 1)) with (Z.to_nat (o - q_min s) + (1 + Z.to_nat (q_max s - o)))%nat by lia.
  rewrite sum_orders_app. rewrite Z2Nat.id by lia. replace (q_min s + (o - q_min s)) with o by lia.
  cbn [Nat.add sum_orders]. pose proof (sum_orders_nonneg (o + 1) (Z.to_nat (q_max s - o))). lia.
Qed.

(* the record of a setter that skips the rebuild: raising the minimum then leaves evaluate() on a wrong row *)
Example stale_cache_reads_wrong_row :
  let s := {| q_min := 3; q_max := 5; c_min := 1; c_max := 5 |} in row_in_eval s 4 <> row_in_cache s 4.
Proof. vm_compute. congruence. Qed.
