(* C02: the bin loop of add_gaussian_line / add_lorentzian_line refines the per-bin specification
   (gbin / lbin), for an arbitrary function in place of erf / of the bin integrator. *)
Require Import Cherab.Common.Qx.
Require Import Cherab.Model.C02_LineShape.
From Coq Require Import Qround Qabs.
Open Scope Q_scope.

(* ---- add_at ---- *)
Lemma add_at_nil k l : add_at k [] l = l.
Proof.
  revert k; induction l as [|x t IH]; intros k; [reflexivity|].
  destruct k; cbn [add_at]; [reflexivity | now rewrite IH].
Qed.

Lemma add_at_length k c l : length (add_at k c l) = length l.
Proof.
  revert k c; induction l as [|x t IH]; intros k c; [reflexivity|].
  destruct k; cbn [add_at].
  - destruct c; cbn [length]; [reflexivity | now rewrite IH].
  - cbn [length]; now rewrite IH.
Qed.

Definition in_add_range (k len n i : nat) : bool := ((k <=? i) && (i <? k + len) && (i <? n))%nat.

Lemma nth_add_at : forall l k c i,
  nth i (add_at k c l) 0 == nth i l 0 + (if in_add_range k (length c) (length l) i then nth (i - k) c 0 else 0).
Proof.
  unfold in_add_range.
  induction l as [|x t IH]; intros k c i.
  - cbn [add_at length]. replace (i <? 0)%nat with false by (symmetry; apply Nat.ltb_ge; lia).
    rewrite andb_false_r. destruct i; cbn [nth]; ring.
  - destruct k as [|k'].
    + destruct c as [|y c'].
      * cbn [add_at length]. replace (i <? 0 + 0)%nat with false by (symmetry; apply Nat.ltb_ge; lia).
        rewrite andb_false_r, andb_false_l. ring.
      * cbn [add_at]. destruct i as [|i'].
        -- cbn [nth length]. cbn. ring.
        -- cbn [nth]. rewrite (IH 0%nat c' i'). cbn [length].
           replace (S i' - 0)%nat with (S i') by lia. replace (i' - 0)%nat with i' by lia. cbn [nth].
           replace (S i' <? 0 + S (length c'))%nat with (i' <? 0 + length c')%nat
             by (destruct (Nat.ltb_spec i' (0 + length c')), (Nat.ltb_spec (S i') (0 + S (length c'))); auto; lia).
           replace (S i' <? S (length t))%nat with (i' <? length t)%nat
             by (destruct (Nat.ltb_spec i' (length t)), (Nat.ltb_spec (S i') (S (length t))); auto; lia).
           reflexivity.
    + cbn [add_at]. destruct i as [|i'].
      * cbn [nth]. replace (S k' <=? 0)%nat with false by reflexivity. rewrite !andb_false_l. ring.
      * cbn [nth]. rewrite (IH k' c i'). cbn [length].
        replace (S k' <=? S i')%nat with (k' <=? i')%nat by reflexivity.
        replace (S i' <? S k' + length c)%nat with (i' <? k' + length c)%nat
          by (destruct (Nat.ltb_spec i' (k' + length c)), (Nat.ltb_spec (S i') (S k' + length c)); auto; lia).
        replace (S i' <? S (length t))%nat with (i' <? length t)%nat
          by (destruct (Nat.ltb_spec i' (length t)), (Nat.ltb_spec (S i') (S (length t))); auto; lia).
        replace (S i' - S k')%nat with (i' - k')%nat by lia. reflexivity.
Qed.

(* ---- Z ranges and telescoping sums ---- *)
Fixpoint zrange (i : Z) (n : nat) : list Z :=
  match n with O => [] | S n' => i :: zrange (i + 1) n' end.

Lemma zrange_app i a b : zrange i (a + b) = zrange i a ++ zrange (i + Z.of_nat a) b.
Proof.
  revert i; induction a as [|a IH]; intros i.
  - cbn. now replace (i + 0)%Z with i by lia.
  - cbn [Nat.add zrange app]. rewrite IH. do 3 f_equal. lia.
Qed.

Lemma zrange_In i n x : In x (zrange i n) <-> (i <= x < i + Z.of_nat n)%Z.
Proof.
  revert i; induction n as [|n IH]; intros i; cbn [zrange In].
  - split; [tauto | lia].
  - rewrite IH. lia.
Qed.

Lemma Qsum_map_ext {A} (f h : A -> Q) l : (forall x, In x l -> f x == h x) -> Qsum (map f l) == Qsum (map h l).
Proof.
  induction l as [|a l IH]; intros H; cbn [map Qsum]; [reflexivity|].
  rewrite (H a (or_introl eq_refl)), IH; [reflexivity | intros; apply H; now right].
Qed.

Lemma Qsum_map_zero {A} (f : A -> Q) l : (forall x, In x l -> f x == 0) -> Qsum (map f l) == 0.
Proof.
  induction l as [|a l IH]; intros H; cbn [map Qsum]; [reflexivity|].
  rewrite (H a (or_introl eq_refl)), IH; [ring | intros; apply H; now right].
Qed.

Lemma Qsum_map_app {A} (f : A -> Q) l1 l2 : Qsum (map f (l1 ++ l2)) == Qsum (map f l1) + Qsum (map f l2).
Proof. rewrite map_app. apply Qsum_app. Qed.

Lemma Qsum_map_scale {A} (f : A -> Q) c l : Qsum (map (fun x => f x * c) l) == Qsum (map f l) * c.
Proof. induction l as [|a l IH]; cbn [map Qsum]; [ring | rewrite IH; ring]. Qed.

Lemma Qsum_map_plus {A} (f h : A -> Q) l : Qsum (map (fun x => f x + h x) l) == Qsum (map f l) + Qsum (map h l).
Proof. induction l as [|a l IH]; cbn [map Qsum]; [ring | rewrite IH; ring]. Qed.

Lemma telescope (f : Z -> Q) i n :
  Qsum (map (fun j => f (j + 1)%Z - f j) (zrange i n)) == f (i + Z.of_nat n)%Z - f i.
Proof.
  revert i; induction n as [|n IH]; intros i.
  - cbn [zrange map Qsum]. replace (i + Z.of_nat 0)%Z with i by lia. ring.
  - cbn [zrange map Qsum]. rewrite IH.
    replace (i + 1 + Z.of_nat n)%Z with (i + Z.of_nat (S n))%Z by lia. ring.
Qed.

Section Loop.
  Variable E : Q -> Q.
  Variable sqrt2 : Q.
  Variable I : Q -> Q -> Q -> Q -> Q.

  Lemma g_loop_length g R lam temp n : forall i lo, length (g_loop E g R lam temp i n lo) = n.
  Proof. induction n as [|n IH]; intros; cbn [g_loop length]; [reflexivity | now rewrite IH]. Qed.

  Lemma g_loop_nth g R lam temp : forall n i j, (j < n)%nat ->
    nth j (g_loop E g R lam temp i n (E (erfarg g lam temp i))) 0 ==
    R * (1 # 2) * (E (erfarg g lam temp (i + Z.of_nat j + 1)) - E (erfarg g lam temp (i + Z.of_nat j))) / gdelta g.
  Proof.
    induction n as [|n IH]; intros i j Hj; [lia|].
    cbn [g_loop]. destruct j as [|j'].
    - cbn [nth]. replace (i + Z.of_nat 0 + 1)%Z with (i + 1)%Z by lia.
      replace (i + Z.of_nat 0)%Z with i by lia. reflexivity.
    - cbn [nth]. rewrite (IH (i + 1)%Z j') by lia.
      replace (i + 1 + Z.of_nat j' + 1)%Z with (i + Z.of_nat (S j') + 1)%Z by lia.
      replace (i + 1 + Z.of_nat j')%Z with (i + Z.of_nat (S j'))%Z by lia. reflexivity.
  Qed.

  Lemma l_loop_length g R lam w n : forall i, length (l_loop I g R lam w i n) = n.
  Proof. induction n as [|n IH]; intros; cbn [l_loop length]; [reflexivity | now rewrite IH]. Qed.

  Lemma l_loop_nth g R lam w : forall n i j, (j < n)%nat ->
    nth j (l_loop I g R lam w i n) 0 ==
    R * I lam w (edge g (i + Z.of_nat j)) (edge g (i + Z.of_nat j + 1)) / gdelta g.
  Proof.
    induction n as [|n IH]; intros i j Hj; [lia|].
    cbn [l_loop]. destruct j as [|j'].
    - cbn [nth]. replace (i + Z.of_nat 0 + 1)%Z with (i + 1)%Z by lia.
      replace (i + Z.of_nat 0)%Z with i by lia. reflexivity.
    - cbn [nth]. rewrite (IH (i + 1)%Z j') by lia.
      replace (i + 1 + Z.of_nat j' + 1)%Z with (i + Z.of_nat (S j') + 1)%Z by lia.
      replace (i + 1 + Z.of_nat j')%Z with (i + Z.of_nat (S j'))%Z by lia. reflexivity.
  Qed.

  (* the range test of the loop, in nat positions, is the range test of the specification *)
  Lemma range_test (st en bins : Z) (n i : nat) :
    (0 <= st)%Z -> (en <= bins)%Z -> n = Z.to_nat bins ->
    in_add_range (Z.to_nat st) (Z.to_nat (en - st)) n i = ((st <=? Z.of_nat i)%Z && (Z.of_nat i <? en)%Z).
  Proof.
    intros Hst Hen ->. unfold in_add_range.
    destruct (Nat.leb_spec (Z.to_nat st) i), (Nat.ltb_spec i (Z.to_nat st + Z.to_nat (en - st))),
      (Nat.ltb_spec i (Z.to_nat bins)), (Z.leb_spec st (Z.of_nat i)), (Z.ltb_spec (Z.of_nat i) en);
      cbn [andb]; auto; lia.
  Qed.

  (* THE LOOP REFINES THE SPECIFICATION: after add_gaussian_line every bin i holds its old value
     plus R (Phi(edge (i+1)) - Phi(edge i)) / delta on [start, end) and is untouched elsewhere *)
  Theorem add_gaussian_nth R lam sig g smp i :
    length smp = Z.to_nat (gbins g) ->
    nth i (add_gaussian E sqrt2 R lam sig g smp) 0 == nth i smp 0 + gbin E sqrt2 R lam sig g (Z.of_nat i).
  Proof.
    intros Hlen. unfold add_gaussian, gbin, g_inrange, g_active.
    destruct (Qle_bool sig 0); cbn [negb andb]; [ring|].
    destruct (Qltb (gmax g) (g_cl lam sig)); cbn [negb andb]; [ring|].
    destruct (Qltb (g_cu lam sig) (gmin g)); cbn [negb andb]; [ring|].
    rewrite nth_add_at, g_loop_length.
    rewrite (range_test (g_start g lam sig) (g_end g lam sig) (gbins g)); auto;
      [| unfold g_start; lia | unfold g_end; lia].
    destruct (Z.leb_spec (g_start g lam sig) (Z.of_nat i)); cbn [andb]; [|reflexivity].
    destruct (Z.ltb_spec (Z.of_nat i) (g_end g lam sig)); [|reflexivity].
    assert (Hst0 : (0 <= g_start g lam sig)%Z) by (unfold g_start; lia).
    rewrite g_loop_nth by lia.
    replace (g_start g lam sig + Z.of_nat (i - Z.to_nat (g_start g lam sig)))%Z with (Z.of_nat i) by lia.
    reflexivity.
  Qed.

  Theorem add_lorentzian_nth R lam w g smp i :
    length smp = Z.to_nat (gbins g) ->
    nth i (add_lorentzian I R lam w g smp) 0 == nth i smp 0 + lbin I R lam w g (Z.of_nat i).
  Proof.
    intros Hlen. unfold add_lorentzian, lbin, l_inrange.
    destruct (Qle_bool w 0); cbn [negb andb]; [ring|].
    destruct (Qltb (gmax g) (l_cl lam w)); cbn [negb andb]; [ring|].
    destruct (Qltb (l_cu lam w) (gmin g)); cbn [negb andb]; [ring|].
    rewrite nth_add_at, l_loop_length.
    rewrite (range_test (l_start g lam w) (l_end g lam w) (gbins g)); auto;
      [| unfold l_start; lia | unfold l_end; lia].
    destruct (Z.leb_spec (l_start g lam w) (Z.of_nat i)); cbn [andb]; [|reflexivity].
    destruct (Z.ltb_spec (Z.of_nat i) (l_end g lam w)); [|reflexivity].
    assert (Hst0 : (0 <= l_start g lam w)%Z) by (unfold l_start; lia).
    rewrite l_loop_nth by lia.
    replace (l_start g lam w + Z.of_nat (i - Z.to_nat (l_start g lam w)))%Z with (Z.of_nat i) by lia.
    reflexivity.
  Qed.

  Lemma add_gaussian_length R lam sig g smp : length (add_gaussian E sqrt2 R lam sig g smp) = length smp.
  Proof.
    unfold add_gaussian.
    destruct (Qle_bool sig 0); [reflexivity|]. destruct (Qltb _ _); [reflexivity|].
    destruct (Qltb _ _); [reflexivity|]. apply add_at_length.
  Qed.

  Lemma add_lorentzian_length R lam w g smp : length (add_lorentzian I R lam w g smp) = length smp.
  Proof.
    unfold add_lorentzian.
    destruct (Qle_bool w 0); [reflexivity|]. destruct (Qltb _ _); [reflexivity|].
    destruct (Qltb _ _); [reflexivity|]. apply add_at_length.
  Qed.

  (* a whole component list: each bin receives the sum of the components' contributions *)
  Theorem add_comps_nth g cs : forall smp i,
    length smp = Z.to_nat (gbins g) ->
    nth i (add_comps E sqrt2 I g cs smp) 0 == nth i smp 0 + csbin E sqrt2 I g cs (Z.of_nat i).
  Proof.
    unfold add_comps, csbin.
    induction cs as [|c cs IH]; intros smp i Hlen; cbn [fold_left map Qsum]; [ring|].
    rewrite IH.
    - destruct c as [R lam sig | R lam w]; cbn [add_comp cbin].
      + rewrite add_gaussian_nth by assumption. ring.
      + rewrite add_lorentzian_nth by assumption. ring.
    - destruct c; cbn [add_comp]; [rewrite add_gaussian_length | rewrite add_lorentzian_length]; assumption.
  Qed.
End Loop.
