(* The certificate checkers that the correspondence runs on the real solver outputs are sound:
   a passed check gives eps-optimality of that output against every competitor. *)
Require Import Cherab.Common.Qx.
Require Import Cherab.Model.C11_Sart Cherab.Model.C11_Kkt Cherab.Model.C11_Check.
Require Import Cherab.Proofs.C11_Sart Cherab.Proofs.C11_Kkt.
From Coq Require Import Qabs Lqa.
Open Scope Q_scope.

Lemma stack_wf n W alpha Lm b :
  length b = length W -> Forall (fun c => length c = n) W ->
  Forall (fun c => length c = n) Lm -> length Lm = n ->
  length (stackd b n) = length (stackC W alpha Lm) /\ Forall (fun c => length c = n) (stackC W alpha Lm).
Proof.
  intros Hb HW HL HLn. unfold stackd, stackC. split.
  - rewrite !app_length, zeros_length, map_length. unfold mat, vec in *. lia.
  - apply Forall_app. split; [exact HW|]. apply Forall_forall. intros c Hc.
    apply in_map_iff in Hc. destruct Hc as (r & <- & Hr). rewrite scale_row_length.
    rewrite Forall_forall in HL. apply HL. exact Hr.
Qed.

Lemma check_nnls_sound rel n W b alpha L x rn :
  let Lm := tikhonov_or_identity n L in
  let C := stackC W alpha Lm in
  let d := stackd b n in
  length b = length W -> Forall (fun c => length c = n) W ->
  Forall (fun c => length c = n) Lm -> length Lm = n ->
  check_nnls rel n W b alpha L x rn = true ->
  Forall (Qle 0) x /\
  Qabs (rn * rn - tikhonov_objective W b alpha Lm x) <= rel * obj_scale C d x /\
  forall y, length y = n -> Forall (Qle 0) y ->
    tikhonov_objective W b alpha Lm x - 2 * (rel * grad_scale C d x) * Qsum y
      - 2 * inject_Z (Z.of_nat n) * (rel * obj_scale C d x)
    <= tikhonov_objective W b alpha Lm y.
Proof.
  intros Lm C d Hb HW HL HLn H. subst C d Lm. unfold check_nnls in H.
  apply andb_true_iff in H. destruct H as [Hn H]. apply Nat.eqb_eq in Hn. subst n.
  set (Lm := tikhonov_or_identity (length x) L) in *.
  apply andb_true_iff in H. destruct H as [H Hr]. apply andb_true_iff in H. destruct H as [Hk _].
  destruct (stack_wf (length x) W alpha Lm b Hb HW HL HLn) as [Hd HC].
  destruct (kkt_sufficient _ _ x _ _ Hd HC Hk) as [Hx Hopt].
  pose proof (stack_objective W b alpha Lm x Hb HLn) as Ex.
  split; [exact Hx|]. split.
  - unfold within in Hr. apply Qle_bool_iff in Hr. rewrite Ex in Hr. exact Hr.
  - intros y Hy Hpos. specialize (Hopt y Hy Hpos).
    pose proof (stack_objective W b alpha Lm y Hb ltac:(unfold mat, vec in *; lia)) as Ey.
    rewrite Hy in Ey. rewrite Ex, Ey in Hopt. exact Hopt.
Qed.

Lemma check_lstsq_sound rel n W b alpha L x res :
  let Lm := tikhonov_or_identity n L in
  let C := stackC W alpha Lm in
  let d := stackd b n in
  length b = length W -> Forall (fun c => length c = n) W ->
  Forall (fun c => length c = n) Lm -> length Lm = n ->
  check_lstsq rel n W b alpha L x res = true ->
  (forall r, res = [r] -> Qabs (r - tikhonov_objective W b alpha Lm x) <= rel * obj_scale C d x) /\
  forall y, length y = n ->
    tikhonov_objective W b alpha Lm x - 2 * (rel * grad_scale C d x) * Qsum (map Qabs (vsub y x))
    <= tikhonov_objective W b alpha Lm y.
Proof.
  intros Lm C d Hb HW HL HLn H. subst C d Lm. unfold check_lstsq in H.
  apply andb_true_iff in H. destruct H as [Hn H]. apply Nat.eqb_eq in Hn. subst n.
  set (Lm := tikhonov_or_identity (length x) L) in *.
  apply andb_true_iff in H. destruct H as [Hk Hr].
  destruct (stack_wf (length x) W alpha Lm b Hb HW HL HLn) as [Hd HC].
  pose proof (normal_eq_sufficient _ _ x _ Hd HC Hk) as Hopt.
  pose proof (stack_objective W b alpha Lm x Hb HLn) as Ex.
  split.
  - intros r ->. unfold within in Hr. apply Qle_bool_iff in Hr. rewrite Ex in Hr. exact Hr.
  - intros y Hy. specialize (Hopt y Hy).
    pose proof (stack_objective W b alpha Lm y Hb ltac:(unfold mat, vec in *; lia)) as Ey.
    rewrite Hy in Ey. rewrite Ex, Ey in Hopt. exact Hopt.
Qed.

Lemma check_svd_sound rel W b x :
  length b = length W -> Forall (fun c => length c = length x) W ->
  check_svd rel W b x = true ->
  forall y, length y = length x ->
    obj W b x - 2 * (rel * grad_scale W b x) * Qsum (map Qabs (vsub y x)) <= obj W b y.
Proof. intros Hb HW H. exact (normal_eq_sufficient W b x _ Hb HW H). Qed.
