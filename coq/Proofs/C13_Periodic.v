(* C13 -- periodic extension: the inner argument is always in [0, period). *)
Require Import Cherab.Common.Qx.
Require Import Cherab.Model.C13_Wrappers Cherab.Model.C13_Float.
Require Import Cherab.Proofs.C13_Routing.
From Coq Require Import Qabs Qround Lqa Qpower.
From Coq Require Import Uint63 PrimFloat SpecFloat FloatOps.
Open Scope Q_scope.

Lemma Qeq_bool_false_neq a b : Qeq_bool a b = false -> ~ a == b.
Proof. intros H E. apply Qeq_bool_iff in E. congruence. Qed.

Lemma inject_Z_minus a b : inject_Z (a - b) == inject_Z a - inject_Z b.
Proof. unfold Z.sub. rewrite inject_Z_plus, inject_Z_opp. ring. Qed.

(* floor brackets the quotient, scaled by a positive period *)
Lemma floor_bracket x p : 0 < p ->
  p * inject_Z (Qfloor (x / p)) <= x /\ x < p * inject_Z (Qfloor (x / p)) + p.
Proof.
  intros Hp.
  pose proof (Qfloor_le (x / p)) as L. pose proof (Qlt_floor (x / p)) as U.
  rewrite inject_Z_plus in U. change (inject_Z 1) with 1 in U.
  assert (E : x == p * (x / p)) by (field; lra).
  set (k := inject_Z (Qfloor (x / p))) in *. set (q := x / p) in *.
  split.
  - rewrite E. apply Qmult_le_l; assumption.
  - rewrite E at 1. setoid_replace (p * k + p) with (p * (k + 1)) by ring.
    apply Qmult_lt_l; assumption.
Qed.

Lemma ceiling_bracket x p : 0 < p ->
  x <= p * inject_Z (Qceiling (x / p)) /\ p * inject_Z (Qceiling (x / p)) - p < x.
Proof.
  intros Hp.
  pose proof (Qle_ceiling (x / p)) as L. pose proof (Qceiling_lt (x / p)) as U.
  rewrite inject_Z_minus in U. change (inject_Z 1) with 1 in U.
  assert (E : x == p * (x / p)) by (field; lra).
  set (k := inject_Z (Qceiling (x / p))) in *. set (q := x / p) in *.
  split.
  - rewrite E at 1. apply Qmult_le_l; assumption.
  - rewrite E at 1. setoid_replace (p * k - p) with (p * (k - 1)) by ring.
    apply Qmult_lt_l; assumption.
Qed.

(* 0 <= r < p *)
Lemma remainder_Q_range x p : 0 < p -> 0 <= remainder_Q x p /\ remainder_Q x p < p.
Proof.
  intros Hp. unfold remainder_Q.
  destruct (Qeq_bool p 0) eqn:E; [apply Qeq_bool_iff in E; lra |].
  destruct (floor_bracket x p Hp). split; lra.
Qed.

(* r differs from x by a whole number of periods *)
Lemma remainder_Q_congruent x p : exists k : Z, x == remainder_Q x p + inject_Z k * p.
Proof.
  unfold remainder_Q. destruct (Qeq_bool p 0).
  - exists 0%Z. change (inject_Z 0) with 0. ring.
  - exists (Qfloor (x / p)). ring.
Qed.

(* two points of [0, p) that differ by a whole number of periods are equal *)
Lemma period_unique p r1 r2 (k : Z) : 0 < p -> 0 <= r1 < p -> 0 <= r2 < p -> r1 == r2 + inject_Z k * p -> r1 == r2.
Proof.
  intros Hp H1 H2 E.
  destruct (Z_lt_le_dec k 0) as [N | N]; [| destruct (Z_lt_le_dec 0 k) as [P | P]].
  - assert (I : inject_Z k <= inject_Z (-1)) by (rewrite <- Zle_Qle; lia).
    assert (J : inject_Z (-1) == -1) by reflexivity.
    assert (inject_Z k * p <= (-1) * p) by (apply Qmult_le_compat_r; lra). lra.
  - assert (I : inject_Z 1 <= inject_Z k) by (rewrite <- Zle_Qle; lia).
    assert (J : inject_Z 1 == 1) by reflexivity.
    assert (1 * p <= inject_Z k * p) by (apply Qmult_le_compat_r; lra). lra.
  - assert (k = 0%Z) by lia. subst k. change (inject_Z 0) with 0 in E. lra.
Qed.

Lemma remainder_Q_unique x p r (k : Z) : 0 < p -> 0 <= r < p -> x == r + inject_Z k * p -> remainder_Q x p == r.
Proof.
  intros Hp Hr E. destruct (remainder_Q_congruent x p) as [k' E'].
  apply (period_unique p _ _ (k - k')%Z Hp (remainder_Q_range x p Hp) Hr).
  rewrite inject_Z_minus. lra.
Qed.

(* the extension is periodic, and the identity on [0, p) *)
Lemma remainder_Q_periodic x p (k : Z) : 0 < p -> remainder_Q (x + inject_Z k * p) p == remainder_Q x p.
Proof.
  intros Hp. destruct (remainder_Q_congruent x p) as [k' E'].
  apply (remainder_Q_unique _ p _ (k + k')%Z Hp (remainder_Q_range x p Hp)).
  rewrite inject_Z_plus. lra.
Qed.
Lemma remainder_Q_id x p : 0 <= x < p -> remainder_Q x p == x.
Proof.
  intros H. apply (remainder_Q_unique x p x 0%Z); [lra | assumption |]. change (inject_Z 0) with 0. ring.
Qed.

(* C fmod in exact arithmetic: |r| < p with the sign of x *)
Lemma fmod_Q_range x p : 0 < p ->
  (0 <= x -> 0 <= fmod_Q x p < p) /\ (x <= 0 -> - p < fmod_Q x p <= 0).
Proof.
  intros Hp. unfold fmod_Q, Qtrunc.
  assert (Q0 : forall q, 0 <= q -> Qle_bool 0 (q / p) = true).
  { intros q Hq. apply Qle_bool_iff. apply Qle_shift_div_l; lra. }
  split; intros Hx.
  - rewrite Q0 by assumption. destruct (floor_bracket x p Hp). lra.
  - destruct (Qle_bool 0 (x / p)) eqn:E.
    + apply Qle_bool_iff in E.
      assert (x == 0). { assert (0 <= x); [| lra]. setoid_replace x with (x / p * p) by (field; lra). apply Qmult_le_0_compat; lra. }
      assert (F : x / p == 0) by (rewrite H; field; lra).
      rewrite (Qfloor_comp _ _ F). change (inject_Z (Qfloor 0)) with 0. lra.
    + destruct (ceiling_bracket x p Hp). lra.
Qed.

(* the algorithm of periodic.pxd in exact arithmetic computes the specification *)
Lemma remainder_alg_Q_spec x p : 0 < p -> remainder_alg_Q x p == remainder_Q x p.
Proof.
  intros Hp. symmetry. unfold remainder_alg_Q.
  destruct (Qeq_bool p 0) eqn:E; [apply Qeq_bool_iff in E; lra |].
  destruct (fmod_Q_range x p Hp) as [Pos Neg].
  assert (C : forall z : Z, x == fmod_Q x p + inject_Z z * p -> x == fmod_Q x p + p + inject_Z (z - 1) * p).
  { intros z Hz. rewrite inject_Z_minus. change (inject_Z 1) with 1. lra. }
  assert (K : x == fmod_Q x p + inject_Z (Qtrunc (x / p)) * p) by (unfold fmod_Q; ring).
  destruct (Qltb (fmod_Q x p) 0) eqn:L.
  - apply Qltb_lt in L.
    assert (x < 0). { destruct (Qlt_le_dec x 0); [assumption |]. destruct (Pos q). lra. }
    apply (remainder_Q_unique x p _ (Qtrunc (x / p) - 1)%Z Hp); [| apply C, K].
    destruct Neg; lra.
  - apply Qltb_ge in L.
    apply (remainder_Q_unique x p _ (Qtrunc (x / p)) Hp); [| exact K].
    destruct (Qlt_le_dec x 0) as [N | N]; [destruct Neg; lra | destruct (Pos N); lra].
Qed.

Lemma remainder_alg_Q_range x p : 0 < p -> 0 <= remainder_alg_Q x p /\ remainder_alg_Q x p < p.
Proof. intros Hp. rewrite remainder_alg_Q_spec by assumption. apply remainder_Q_range, Hp. Qed.

Lemma remainder_alg_Q_zero_period x : remainder_alg_Q x 0 = x.
Proof. reflexivity. Qed.

(* ---- the rounded algorithm ------------------------------------------------------------------------ *)
Section Rounded.
  (* rnd: what binary64 does to the exact sum r + p.  Hypotheses: monotone, and 0 and the period are
     representable (rounded to themselves); pred_p is a representable value in [0, p). *)
  Variable rnd : Q -> Q.
  Variables p pred_p : Q.
  Hypothesis Hp : 0 < p.
  Hypothesis rnd_mono : forall a b, a <= b -> rnd a <= rnd b.
  Hypothesis rnd_0 : rnd 0 == 0.
  Hypothesis rnd_p : rnd p == p.
  Hypothesis pred_ok : 0 <= pred_p /\ pred_p < p.

  Lemma remainder_rounded_range x : 0 <= remainder_rounded rnd pred_p x p /\ remainder_rounded rnd pred_p x p < p.
  Proof.
    unfold remainder_rounded.
    destruct (Qeq_bool p 0) eqn:E; [apply Qeq_bool_iff in E; lra |].
    destruct (fmod_Q_range x p Hp) as [Pos Neg].
    destruct (Qltb (fmod_Q x p) 0) eqn:L.
    - apply Qltb_lt in L.
      assert (x < 0). { destruct (Qlt_le_dec x 0); [assumption |]. destruct (Pos q). lra. }
      assert (B : 0 <= fmod_Q x p + p <= p) by (destruct Neg; lra).
      pose proof (rnd_mono _ _ (proj1 B)) as B0. pose proof (rnd_mono _ _ (proj2 B)) as B1.
      rewrite rnd_0 in B0. rewrite rnd_p in B1.
      destruct (Qeq_bool (rnd (fmod_Q x p + p)) p) eqn:Q.
      + exact pred_ok.
      + apply Qeq_bool_false_neq in Q. split; [assumption |].
        destruct (Qlt_le_dec (rnd (fmod_Q x p + p)) p); [assumption |]. exfalso. apply Q. lra.
    - apply Qltb_ge in L.
      destruct (Qlt_le_dec x 0) as [N | N]; [destruct Neg; lra | destruct (Pos N); lra].
  Qed.
End Rounded.

(* without the correction the range claim fails: rounding to the nearest multiple of 1/2 is monotone and
   fixes 0 and 1, and the old algorithm returns the period itself for x = -1/8 *)
Definition rnd_half (q : Q) : Q := inject_Z (Qfloor (2 * q + (1 # 2))) / 2.
Lemma rnd_half_mono a b : a <= b -> rnd_half a <= rnd_half b.
Proof.
  intros H. unfold rnd_half. apply Qmult_le_compat_r; [| compute; discriminate].
  rewrite <- Zle_Qle. apply Qfloor_resp_le. lra.
Qed.
Lemma remainder_rounded_old_refuted :
  exists (rnd : Q -> Q) (x p : Q),
    0 < p /\ (forall a b, a <= b -> rnd a <= rnd b) /\ rnd 0 == 0 /\ rnd p == p /\
    remainder_rounded_old rnd x p == p.
Proof.
  exists rnd_half, (- (1 # 8)), 1. repeat split; try reflexivity. exact rnd_half_mono.
Qed.

(* ---- binary64 witnesses (vm_compute over Coq's primitive floats) ------------------------------------- *)
Definition one_F : float := F_of_bits (FFin false 4503599627370496 (-52)).
Definition tiny_neg_F : float := F_of_bits (FFin true 6646139978924579 (-119)).     (* -1e-20 *)

(* finding F10 (fixed by 0cf4f10): the unfixed algorithm returns the period itself *)
Lemma remainder_F_old_refuted :
  exists x p : float, is_finite x = true /\ (zero <? p)%float = true /\ in_period_F (remainder_F_old x p) p = false
                      /\ F_same (remainder_F_old x p) p = true.
Proof. exists tiny_neg_F, one_F. vm_compute. repeat split. Qed.
(* the fixed algorithm on the same input returns the largest double below the period *)
Lemma remainder_F_fixed_witness :
  in_period_F (remainder_F tiny_neg_F one_F) one_F = true /\ F_same (remainder_F tiny_neg_F one_F) (next_down one_F) = true.
Proof. vm_compute. split; reflexivity. Qed.

(* for every pair of doubles: on the branch where the correction applies (negative fmod result) the value
   returned is not the period, unless stepping from the period towards zero does not move (which no finite
   non-zero double does).  Pure case analysis on the algorithm, no floating-point axioms. *)
Lemma remainder_F_not_period x p :
  (p =? zero)%float = false -> (fmod_F x p <? zero)%float = true ->
  (toward_zero_F p =? p)%float = false -> (remainder_F x p =? p)%float = false.
Proof.
  intros H1 H2 H3. unfold remainder_F. rewrite H1, H2.
  destruct ((fmod_F x p + p =? p)%float) eqn:E; [exact H3 | exact E].
Qed.

(* ---- narrowing the hypothesis on the rounding: "round to nearest" by its DEFINITION ---------------------------
   [repr] is the set of representable numbers; rnd q is representable and no representable number is closer to q
   (any tie-breaking rule).  Monotonicity is not assumed: what the range proof needs follows from nearestness. *)
Section Nearest.
  Variable repr : Q -> Prop.
  Variable rnd : Q -> Q.
  Hypothesis rnd_nearest : forall q f, repr f -> Qabs (rnd q - q) <= Qabs (f - q).

  Lemma nearest_between lo hi q : repr lo -> repr hi -> lo <= q <= hi -> lo <= rnd q <= hi.
  Proof.
    intros Rlo Rhi [H1 H2]. split.
    - destruct (Qlt_le_dec (rnd q) lo) as [L |]; [| assumption]. exfalso.
      pose proof (rnd_nearest q lo Rlo) as N.
      rewrite (Qabs_neg (rnd q - q)) in N by lra. rewrite (Qabs_neg (lo - q)) in N by lra. lra.
    - destruct (Qlt_le_dec hi (rnd q)) as [L |]; [| assumption]. exfalso.
      pose proof (rnd_nearest q hi Rhi) as N.
      rewrite (Qabs_pos (rnd q - q)) in N by lra. rewrite (Qabs_pos (hi - q)) in N by lra. lra.
  Qed.

  Variables p pred_p : Q.
  Hypothesis Hp : 0 < p.
  Hypothesis repr_0 : repr 0.
  Hypothesis repr_p : repr p.
  Hypothesis pred_ok : 0 <= pred_p /\ pred_p < p.

  Lemma remainder_nearest_range x : 0 <= remainder_rounded rnd pred_p x p /\ remainder_rounded rnd pred_p x p < p.
  Proof.
    unfold remainder_rounded.
    destruct (Qeq_bool p 0) eqn:E; [apply Qeq_bool_iff in E; lra |].
    destruct (fmod_Q_range x p Hp) as [Pos Neg].
    destruct (Qltb (fmod_Q x p) 0) eqn:L.
    - apply Qltb_lt in L.
      assert (x < 0). { destruct (Qlt_le_dec x 0); [assumption |]. destruct (Pos q). lra. }
      assert (B : 0 <= fmod_Q x p + p <= p) by (destruct Neg; lra).
      pose proof (nearest_between 0 p _ repr_0 repr_p B) as [B0 B1].
      destruct (Qeq_bool (rnd (fmod_Q x p + p)) p) eqn:Q.
      + exact pred_ok.
      + apply Qeq_bool_false_neq in Q. split; [assumption |].
        destruct (Qlt_le_dec (rnd (fmod_Q x p + p)) p); [assumption |]. exfalso. apply Q. lra.
    - apply Qltb_ge in L.
      destruct (Qlt_le_dec x 0) as [N | N]; [destruct Neg; lra | destruct (Pos N); lra].
  Qed.
End Nearest.

(* ---- the integer core of the binary64 fmod is the exact truncated remainder ------------------------------------ *)
Lemma Qfloor_div_Z a b : (0 < b)%Z -> Qfloor (inject_Z a / inject_Z b) = (a / b)%Z.
Proof.
  intros Hb. destruct b as [| b | b]; try lia.
  unfold Qdiv, Qinv, inject_Z, Qmult, Qfloor. cbn [Qnum Qden Z.mul Pos.mul].
  rewrite Z.mul_1_r. reflexivity.
Qed.

Lemma fmod_Q_scaled (X P : Z) (s : Q) : (0 <= X)%Z -> (0 < P)%Z -> 0 < s ->
  fmod_Q (inject_Z X * s) (inject_Z P * s) == inject_Z (X mod P) * s.
Proof.
  intros HX HP Hs.
  assert (PQ : 0 < inject_Z P) by (change 0 with (inject_Z 0); rewrite <- Zlt_Qlt; exact HP).
  assert (XQ : 0 <= inject_Z X) by (change 0 with (inject_Z 0); rewrite <- Zle_Qle; exact HX).
  assert (E : inject_Z X * s / (inject_Z P * s) == inject_Z X / inject_Z P) by (field; split; lra).
  unfold fmod_Q, Qtrunc.
  assert (G : Qle_bool 0 (inject_Z X * s / (inject_Z P * s)) = true).
  { apply Qle_bool_iff. rewrite E. apply Qle_shift_div_l; lra. }
  rewrite G. rewrite (Qfloor_comp _ _ E), (Qfloor_div_Z X P HP).
  rewrite (Z.mod_eq X P) by lia. rewrite inject_Z_minus, inject_Z_mult. ring.
Qed.

Lemma pow2_pos e : 0 < pow2 e.
Proof. unfold pow2. apply Qpower_0_lt. reflexivity. Qed.
Lemma pow2_split a b : pow2 (a + b) == pow2 a * pow2 b.
Proof. unfold pow2. apply Qpower_plus. discriminate. Qed.
Lemma inject_Z_pow2 n : (0 <= n)%Z -> inject_Z (2 ^ n) == pow2 n.
Proof. intros H. unfold pow2. rewrite Zpower_Qpower by assumption. reflexivity. Qed.

Lemma Qtrunc_comp q q' : q == q' -> Qtrunc q = Qtrunc q'.
Proof.
  intros E. unfold Qtrunc.
  assert (B : Qle_bool 0 q = Qle_bool 0 q').
  { destruct (Qle_bool 0 q) eqn:A, (Qle_bool 0 q') eqn:A'; try reflexivity.
    - apply Qle_bool_iff in A. rewrite E in A. apply Qle_bool_iff in A. congruence.
    - apply Qle_bool_iff in A'. rewrite <- E in A'. apply Qle_bool_iff in A'. congruence. }
  rewrite B. destruct (Qle_bool 0 q'); [apply Qfloor_comp | apply Qceiling_comp]; exact E.
Qed.
Lemma fmod_Q_comp x x' p p' : x == x' -> p == p' -> fmod_Q x p == fmod_Q x' p'.
Proof.
  intros Ex Ep. unfold fmod_Q.
  assert (D : x / p == x' / p') by (rewrite Ex, Ep; reflexivity).
  rewrite (Qtrunc_comp _ _ D), Ex, Ep. reflexivity.
Qed.

(* value of a binary64 magnitude (mantissa, exponent) *)
Definition mag (m : positive) (e : Z) : Q := inject_Z (Zpos m) * pow2 e.

Lemma fmod_int_exact mx ex mp ep :
  let '(r, e) := fmod_int mx ex mp ep in
  inject_Z r * pow2 e == fmod_Q (mag mx ex) (mag mp ep)
  /\ (0 <= r)%Z /\ inject_Z r * pow2 e < mag mp ep /\ inject_Z r * pow2 e <= mag mx ex.
Proof.
  unfold fmod_int. set (e := Z.min ex ep).
  assert (Dx : (0 <= ex - e)%Z) by lia. assert (Dp : (0 <= ep - e)%Z) by lia.
  set (X := (Zpos mx * 2 ^ (ex - e))%Z). set (P := (Zpos mp * 2 ^ (ep - e))%Z).
  assert (HX : (0 <= X)%Z) by (unfold X; apply Z.mul_nonneg_nonneg; [lia | apply Z.pow_nonneg; lia]).
  assert (HP : (0 < P)%Z) by (unfold P; apply Z.mul_pos_pos; [lia | apply Z.pow_pos_nonneg; lia]).
  assert (Vx : mag mx ex == inject_Z X * pow2 e).
  { unfold mag, X. rewrite inject_Z_mult, inject_Z_pow2 by assumption.
    replace ex with ((ex - e) + e)%Z at 1 by lia. rewrite pow2_split. ring. }
  assert (Vp : mag mp ep == inject_Z P * pow2 e).
  { unfold mag, P. rewrite inject_Z_mult, inject_Z_pow2 by assumption.
    replace ep with ((ep - e) + e)%Z at 1 by lia. rewrite pow2_split. ring. }
  pose proof (pow2_pos e) as Se.
  pose proof (Z.mod_pos_bound X P HP) as [M0 M1].
  assert (M2 : (X mod P <= X)%Z) by (apply Z.mod_le; assumption).
  split; [| split; [assumption | split]].
  - rewrite (fmod_Q_comp _ _ _ _ Vx Vp). symmetry. apply fmod_Q_scaled; assumption.
  - rewrite Vp. apply Qmult_lt_r; [assumption |]. rewrite <- Zlt_Qlt. exact M1.
  - rewrite Vx. apply Qmult_le_r; [assumption |]. rewrite <- Zle_Qle. exact M2.
Qed.

(* ---- how far the rounded algorithm is from the exact reduction (the tolerance of the tie, 2^-52 p, is this bound for
   binary64: half a unit in the last place of a number below p, or the distance from p to its predecessor) ------------- *)
Section NearestClose.
  Variable repr : Q -> Prop.
  Variable rnd : Q -> Q.
  Hypothesis rnd_nearest : forall q f, repr f -> Qabs (rnd q - q) <= Qabs (f - q).
  Variables p pred_p : Q.
  Hypothesis Hp : 0 < p.
  Hypothesis repr_pred : repr pred_p.
  Hypothesis pred_ok : 0 <= pred_p /\ pred_p < p.

  Lemma remainder_nearest_close x :
    let s := fmod_Q x p + p in
    remainder_rounded rnd pred_p x p == remainder_Q x p
    \/ (s == remainder_Q x p /\
        (Qabs (remainder_rounded rnd pred_p x p - s) <= Qabs (rnd s - s)
         \/ Qabs (remainder_rounded rnd pred_p x p - s) <= p - pred_p)).
  Proof.
    intros s. pose proof (remainder_alg_Q_spec x p Hp) as Spec.
    unfold remainder_rounded, remainder_alg_Q in *.
    destruct (Qeq_bool p 0) eqn:E; [apply Qeq_bool_iff in E; lra |].
    destruct (fmod_Q_range x p Hp) as [Pos Neg].
    destruct (Qltb (fmod_Q x p) 0) eqn:L; [| left; exact Spec].
    apply Qltb_lt in L. right. split; [exact Spec |]. fold s.
    assert (x < 0). { destruct (Qlt_le_dec x 0); [assumption |]. destruct (Pos q). lra. }
    assert (B : 0 < s <= p) by (unfold s; destruct Neg; lra).
    destruct (Qeq_bool (rnd s) p) eqn:Q.
    - right. apply Qeq_bool_iff in Q.
      pose proof (rnd_nearest s pred_p repr_pred) as N. rewrite Q in N.
      rewrite (Qabs_pos (p - s)) in N by lra.
      destruct (Qlt_le_dec s pred_p) as [Lt | Ge].
      + rewrite (Qabs_pos (pred_p - s)) in N by lra. lra.
      + rewrite (Qabs_neg (pred_p - s)) by lra. lra.
    - left. apply Qle_refl.
  Qed.
End NearestClose.
