(* The mask / voxel_map state machine: a rejected assignment changes nothing, an accepted one does not depend on the
   state before, and the reported mask is the mask that was assigned. *)
Require Import Cherab.Common.Qx Cherab.Model.C10_RayTransfer Cherab.Model.C10_Emitter.
Open Scope Q_scope.

Lemma em_step_rejected sh st op : snd (em_step sh st op) = ErrValue -> fst (em_step sh st op) = st.
Proof.
  destruct op as [[[s m]|]|[s v]]; cbn [em_step]; try discriminate;
    destruct (shape_eqb s sh); cbn [fst snd]; congruence.
Qed.

Lemma em_step_accepted_independent sh st st' op :
  snd (em_step sh st op) = ErrNone -> em_step sh st op = em_step sh st' op.
Proof.
  destruct op as [[[s m]|]|[s v]]; cbn [em_step]; try reflexivity;
    destruct (shape_eqb s sh); cbn [fst snd]; try reflexivity; discriminate.
Qed.

Lemma mask_of_map_from_mask m : forall next, (0 <= next)%Z ->
  map (fun v => (-1 <? v)%Z) (map_from_mask_from next m) = m.
Proof.
  induction m as [|b t IH]; intros next Hn; [reflexivity|].
  destruct b; cbn [map_from_mask_from map].
  - rewrite IH by lia. replace (-1 <? next)%Z with true by (symmetry; apply Z.ltb_lt; lia). reflexivity.
  - rewrite IH by lia. reflexivity.
Qed.

(* after obj.mask = m (accepted) the object reports exactly m, whatever voxel map it carried before *)
Lemma mask_roundtrip sh st s m : shape_eqb s sh = true ->
  em_mask (fst (em_step sh st (OpMask (Some (s, m))))) = m.
Proof.
  intros H. cbn [em_step]. rewrite H. cbn [fst]. unfold em_mask, em_of_map. cbn [em_vm].
  apply mask_of_map_from_mask. lia.
Qed.
