(* C02: what add_gaussian_line / add_lorentzian_line add, summed over the bins:
   telescoping, support, window fraction, bounds, linearity -- for arbitrary oracle functions. *)
Require Import Cherab.Common.Qx.
Require Import Cherab.Model.C02_LineShape.
Require Import Cherab.Proofs.C02_Gauss.
From Coq Require Import Qround Qabs Lqa.
Open Scope Q_scope.

(* the stored delta_wavelength is consistent with the window *)
Definition grid_ok (g : grid) : Prop :=
  0 < gdelta g /\ (0 <= gbins g)%Z /\ gdelta g * inject_Z (gbins g) == gmax g - gmin g.

(* wavelength integral of a per-bin quantity: sum_i f(i) * delta *)
Definition integral (f : Z -> Q) (g : grid) : Q :=
  Qsum (map (fun i => f i * gdelta g) (zrange 0 (Z.to_nat (gbins g)))).

(* ---- floor / ceiling ---- *)
Lemma floor_le_iff x i : (Qfloor x <= i)%Z <-> x < inject_Z (i + 1).
Proof.
  split; intros H.
  - apply Qlt_le_trans with (inject_Z (Qfloor x + 1)); [apply Qlt_floor|].
    rewrite <- Zle_Qle. lia.
  - destruct (Z_le_gt_dec (Qfloor x) i) as [|Hgt]; [assumption|exfalso].
    assert (inject_Z (i + 1) <= x).
    { apply Qle_trans with (inject_Z (Qfloor x)); [rewrite <- Zle_Qle; lia | apply Qfloor_le]. }
    exact (Qlt_not_le _ _ H H0).
Qed.

Lemma lt_ceil_iff x i : (i < Qceiling x)%Z <-> inject_Z i < x.
Proof.
  split; intros H.
  - apply Qle_lt_trans with (inject_Z (Qceiling x - 1)); [rewrite <- Zle_Qle; lia | apply Qceiling_lt].
  - destruct (Z_lt_ge_dec i (Qceiling x)) as [|Hge]; [assumption|exfalso].
    assert (x <= inject_Z i).
    { apply Qle_trans with (inject_Z (Qceiling x)); [apply Qle_ceiling | rewrite <- Zle_Qle; lia]. }
    exact (Qlt_not_le _ _ H H0).
Qed.

Ltac nz := repeat split; apply Qnot_eq_sym, Qlt_not_eq; (assumption || lra).

Lemma div_lt_iff a c b : 0 < c -> (a / c < b <-> a < b * c).
Proof.
  intros Hc. split; intros H.
  - setoid_replace a with ((a / c) * c) by (field; nz). apply Qmult_lt_r; assumption.
  - apply Qlt_shift_div_r; assumption.
Qed.

Lemma lt_div_iff a c b : 0 < c -> (b < a / c <-> b * c < a).
Proof.
  intros Hc. split; intros H.
  - setoid_replace a with ((a / c) * c) by (field; nz). apply Qmult_lt_r; assumption.
  - apply Qlt_shift_div_l; assumption.
Qed.

Lemma div_le_to_mul a d z : 0 < d -> a / d <= z -> a <= d * z.
Proof.
  intros Hd H. set (q := a / d) in *. assert (Hq : a == q * d) by (unfold q; field; nz). clearbody q. nra.
Qed.

Lemma le_div_to_mul a d z : 0 < d -> z <= a / d -> d * z <= a.
Proof.
  intros Hd H. set (q := a / d) in *. assert (Hq : a == q * d) by (unfold q; field; nz). clearbody q. nra.
Qed.

Lemma Qle_bool_false a b : Qle_bool a b = false -> b < a.
Proof.
  intros H. apply Qnot_le_lt. intros Hle. apply Qle_bool_iff in Hle. congruence.
Qed.

Lemma Qltb_false a b : Qltb a b = false -> b <= a.
Proof. unfold Qltb. intros H. apply negb_false_iff in H. now apply Qle_bool_iff. Qed.

Lemma Qltb_true a b : Qltb a b = true -> a < b.
Proof. unfold Qltb. intros H. apply negb_true_iff in H. now apply Qle_bool_false. Qed.

Lemma inject_Z_plus1 i : inject_Z (i + 1) == inject_Z i + 1.
Proof. rewrite inject_Z_plus. reflexivity. Qed.

Section Norm.
  Variable E : Q -> Q.
  Variable sqrt2 : Q.
  Variable I : Q -> Q -> Q -> Q -> Q.

  Lemma edge_0 g : edge g 0 == gmin g.
  Proof. unfold edge. cbn. ring. Qed.

  Lemma edge_bins g : grid_ok g -> edge g (gbins g) == gmax g.
  Proof. intros (_ & _ & H). unfold edge. rewrite H. ring. Qed.

  Lemma edge_succ g i : edge g (i + 1) == edge g i + gdelta g.
  Proof. unfold edge. rewrite inject_Z_plus1. ring. Qed.

  (* SUPPORT: the bins the loop visits are exactly the bins of the spectrum that meet the open
     interval (lam - 10 sigma, lam + 10 sigma) *)
  Lemma range_support g (cl cu : Q) i : 0 < gdelta g ->
    ((Z.max 0 (Qfloor ((cl - gmin g) / gdelta g)) <= i < Z.min (gbins g) (Qceiling ((cu - gmin g) / gdelta g)))%Z
     <-> (0 <= i < gbins g)%Z /\ cl < edge g (i + 1) /\ edge g i < cu).
  Proof.
    intros Hd.
    assert (A : (Qfloor ((cl - gmin g) / gdelta g) <= i)%Z <-> cl < edge g (i + 1)).
    { rewrite floor_le_iff, div_lt_iff by assumption. unfold edge. rewrite (Qmult_comm (gdelta g)).
      set (p := inject_Z (i + 1) * gdelta g). split; intros; lra. }
    assert (B : (i < Qceiling ((cu - gmin g) / gdelta g))%Z <-> edge g i < cu).
    { rewrite lt_ceil_iff, lt_div_iff by assumption. unfold edge. rewrite (Qmult_comm (gdelta g)).
      set (p := inject_Z i * gdelta g). split; intros; lra. }
    split.
    - intros [H1 H2]. repeat split; try lia; [apply A | apply B]; lia.
    - intros ([H1 H2] & H3 & H4). apply A in H3. apply B in H4. lia.
  Qed.

  Theorem gauss_support g lam sig i : 0 < gdelta g ->
    ((g_start g lam sig <= i < g_end g lam sig)%Z
     <-> (0 <= i < gbins g)%Z /\ g_cl lam sig < edge g (i + 1) /\ edge g i < g_cu lam sig).
  Proof. intros Hd. unfold g_start, g_end. now apply range_support. Qed.

  (* the early exits fire exactly when the window misses [lam - 10 sigma, lam + 10 sigma] or sigma <= 0 *)
  Lemma g_active_iff g lam sig :
    g_active g lam sig = true <-> 0 < sig /\ g_cl lam sig <= gmax g /\ gmin g <= g_cu lam sig.
  Proof.
    unfold g_active. rewrite !andb_true_iff, !negb_true_iff. split.
    - intros [[H1 H2] H3]. repeat split; [now apply Qle_bool_false | now apply Qltb_false | now apply Qltb_false].
    - intros (H1 & H2 & H3). repeat split.
      + destruct (Qle_bool sig 0) eqn:Hb; [apply Qle_bool_iff in Hb; lra | reflexivity].
      + destruct (Qltb (gmax g) (g_cl lam sig)) eqn:Hb; [apply Qltb_true in Hb; lra | reflexivity].
      + destruct (Qltb (g_cu lam sig) (gmin g)) eqn:Hb; [apply Qltb_true in Hb; lra | reflexivity].
  Qed.

  Lemma range_order g (cl cu : Q) : grid_ok g -> cl <= cu -> cl <= gmax g -> gmin g <= cu ->
    (0 <= Z.max 0 (Qfloor ((cl - gmin g) / gdelta g)) <= Z.min (gbins g) (Qceiling ((cu - gmin g) / gdelta g)))%Z
    /\ (Z.min (gbins g) (Qceiling ((cu - gmin g) / gdelta g)) <= gbins g)%Z.
  Proof.
    intros (Hd & Hb & Hc) Hlu Hl Hu.
    set (a := (cl - gmin g) / gdelta g). set (b := (cu - gmin g) / gdelta g).
    assert (Hab : a <= b).
    { unfold a, b. apply Qle_shift_div_l; [assumption|].
      setoid_replace ((cl - gmin g) / gdelta g * gdelta g) with (cl - gmin g) by (field; nz). lra. }
    assert (H0b : 0 <= b) by (unfold b; apply Qle_shift_div_l; [assumption | lra]).
    assert (Hab' : a <= inject_Z (gbins g)).
    { unfold a. apply Qle_shift_div_r; [assumption|]. lra. }
    assert (F1 : (Qfloor a <= Qceiling b)%Z).
    { apply Z.le_trans with (Qfloor b); [now apply Qfloor_resp_le|].
      rewrite Zle_Qle. apply Qle_trans with b; [apply Qfloor_le | apply Qle_ceiling]. }
    assert (F2 : (0 <= Qceiling b)%Z).
    { rewrite Zle_Qle. apply Qle_trans with b; [assumption | apply Qle_ceiling]. }
    assert (F3 : (Qfloor a <= gbins g)%Z).
    { rewrite Zle_Qle. apply Qle_trans with a; [apply Qfloor_le | assumption]. }
    lia.
  Qed.

  (* ---- telescoping ---- *)
  Lemma sum_outside (f : Z -> Q) d l : (forall x, In x l -> f x == 0) -> Qsum (map (fun i => f i * d) l) == 0.
  Proof. intros H. apply Qsum_map_zero. intros x Hx. rewrite (H x Hx). ring. Qed.

  Lemma integral_split (f : Z -> Q) g (st en : Z) :
    (0 <= st <= en)%Z -> (en <= gbins g)%Z ->
    (forall i, ~ (st <= i < en)%Z -> f i == 0) ->
    integral f g == Qsum (map (fun i => f i * gdelta g) (zrange st (Z.to_nat (en - st)))).
  Proof.
    intros H1 H2 Hz. unfold integral.
    replace (Z.to_nat (gbins g)) with (Z.to_nat st + (Z.to_nat (en - st) + Z.to_nat (gbins g - en)))%nat by lia.
    rewrite zrange_app, Qsum_map_app, zrange_app, Qsum_map_app.
    rewrite (sum_outside f).
    - rewrite (sum_outside f (gdelta g) (zrange _ (Z.to_nat (gbins g - en)))).
      + replace (0 + Z.of_nat (Z.to_nat st))%Z with st by lia. ring.
      + intros x Hx. apply zrange_In in Hx. apply Hz. lia.
    - intros x Hx. apply zrange_In in Hx. apply Hz. lia.
  Qed.

  (* TELESCOPE: sum over all bins of (what bin i receives) * delta = R/2 (E u_end - E u_start), any E *)
  Theorem gauss_integral R lam sig g : grid_ok g -> g_active g lam sig = true ->
    integral (gbin E sqrt2 R lam sig g) g ==
    R * (1 # 2) * (E (erfarg g lam (g_temp sqrt2 sig) (g_end g lam sig)) - E (erfarg g lam (g_temp sqrt2 sig) (g_start g lam sig))).
  Proof.
    intros Hg Ha. pose proof Hg as (Hd & Hb & Hc).
    apply g_active_iff in Ha as Ha'. destruct Ha' as (Hs & Hl & Hu).
    assert (Hlu : g_cl lam sig <= g_cu lam sig) by (unfold g_cl, g_cu, cutoff_sigma; nra).
    destruct (range_order g _ _ Hg Hlu Hl Hu) as [Ho Hen]. fold (g_start g lam sig) in Ho. fold (g_end g lam sig) in Ho, Hen.
    rewrite (integral_split _ g (g_start g lam sig) (g_end g lam sig)); [| lia | lia |].
    - set (f := fun j => E (erfarg g lam (g_temp sqrt2 sig) j)).
      rewrite (Qsum_map_ext _ (fun j => (f (j + 1)%Z - f j) * (R * (1 # 2)))).
      + rewrite Qsum_map_scale, telescope. unfold f.
        replace (g_start g lam sig + Z.of_nat (Z.to_nat (g_end g lam sig - g_start g lam sig)))%Z with (g_end g lam sig) by lia.
        ring.
      + intros x Hx. apply zrange_In in Hx. unfold gbin, g_inrange. rewrite Ha.
        replace (g_start g lam sig <=? x)%Z with true by (symmetry; apply Z.leb_le; lia).
        replace (x <? g_end g lam sig)%Z with true by (symmetry; apply Z.ltb_lt; lia).
        cbn [andb]. unfold f. field. nz.
    - intros i Hi. unfold gbin, g_inrange. rewrite Ha. cbn [andb].
      destruct (Z.leb_spec (g_start g lam sig) i); cbn [andb]; [|reflexivity].
      destruct (Z.ltb_spec i (g_end g lam sig)); [lia | reflexivity].
  Qed.

  Theorem gauss_integral_inactive R lam sig g : g_active g lam sig = false ->
    integral (gbin E sqrt2 R lam sig g) g == 0.
  Proof.
    intros Ha. unfold integral. apply sum_outside. intros x _. unfold gbin, g_inrange. rewrite Ha. reflexivity.
  Qed.

  (* WINDOW FRACTION: the window lies inside the cut-off range: every bin is visited and the integral is
     R (Phi(max) - Phi(min)), the fraction of the profile inside the window *)
  Theorem gauss_window_fraction R lam sig g : grid_ok g -> 0 < sig ->
    g_cl lam sig <= gmin g -> gmax g <= g_cu lam sig ->
    g_start g lam sig = 0%Z /\ g_end g lam sig = gbins g /\
    integral (gbin E sqrt2 R lam sig g) g ==
    R * (1 # 2) * (E (erfarg g lam (g_temp sqrt2 sig) (gbins g)) - E (erfarg g lam (g_temp sqrt2 sig) 0)).
  Proof.
    intros Hg Hs Hl Hu. pose proof Hg as (Hd & Hb & Hc).
    assert (Hmm : gmin g <= gmax g) by (rewrite <- (Qplus_0_r (gmin g)); setoid_replace (gmax g) with (gmin g + (gmax g - gmin g)) by ring;
                                        apply Qplus_le_r; rewrite <- Hc; apply Qmult_le_0_compat; [lra | rewrite <- (Zle_Qle 0); assumption]).
    assert (S0 : g_start g lam sig = 0%Z).
    { unfold g_start. apply Z.max_l. apply floor_le_iff. change (inject_Z (0 + 1)) with 1.
      apply Qlt_shift_div_r; [assumption|]. lra. }
    assert (E0 : g_end g lam sig = gbins g).
    { unfold g_end. apply Z.min_l. rewrite Zle_Qle.
      apply Qle_trans with ((g_cu lam sig - gmin g) / gdelta g); [| apply Qle_ceiling].
      apply Qle_shift_div_l; [assumption|]. lra. }
    split; [assumption | split; [assumption|]].
    rewrite gauss_integral; [rewrite S0, E0; reflexivity | assumption |].
    apply g_active_iff. repeat split; lra.
  Qed.

  (* LINEARITY in the radiance *)
  Theorem gbin_linear a b R1 R2 lam sig g i :
    gbin E sqrt2 (a * R1 + b * R2) lam sig g i == a * gbin E sqrt2 R1 lam sig g i + b * gbin E sqrt2 R2 lam sig g i.
  Proof. unfold gbin. destruct (g_inrange g lam sig i); unfold Qdiv; ring. Qed.

  Lemma gbin_scale k R lam sig g i : gbin E sqrt2 (k * R) lam sig g i == k * gbin E sqrt2 R lam sig g i.
  Proof. unfold gbin. destruct (g_inrange g lam sig i); unfold Qdiv; ring. Qed.

  Lemma gbin_ext R1 R2 lam sig g i : R1 == R2 -> gbin E sqrt2 R1 lam sig g i == gbin E sqrt2 R2 lam sig g i.
  Proof. intros H. unfold gbin. destruct (g_inrange g lam sig i); [rewrite H|]; reflexivity. Qed.

  Lemma lbin_ext R1 R2 lam w g i : R1 == R2 -> lbin I R1 lam w g i == lbin I R2 lam w g i.
  Proof. intros H. unfold lbin. destruct (l_inrange g lam w i); [rewrite H|]; reflexivity. Qed.

  Lemma gbin_zero lam sig g i : gbin E sqrt2 0 lam sig g i == 0.
  Proof. unfold gbin. destruct (g_inrange g lam sig i); unfold Qdiv; ring. Qed.

  Lemma lbin_scale k R lam w g i : lbin I (k * R) lam w g i == k * lbin I R lam w g i.
  Proof. unfold lbin. destruct (l_inrange g lam w i); unfold Qdiv; ring. Qed.

  Theorem lbin_linear a b R1 R2 lam w g i :
    lbin I (a * R1 + b * R2) lam w g i == a * lbin I R1 lam w g i + b * lbin I R2 lam w g i.
  Proof. unfold lbin. destruct (l_inrange g lam w i); unfold Qdiv; ring. Qed.

  (* BOUNDS *)
  Definition monotone (f : Q -> Q) : Prop := forall x y, x <= y -> f x <= f y.

  Lemma erfarg_mono g lam temp i j : 0 < gdelta g -> 0 < temp -> (i <= j)%Z -> erfarg g lam temp i <= erfarg g lam temp j.
  Proof.
    intros Hd Ht Hij. unfold erfarg, edge. apply Qmult_le_compat_r; [|lra].
    rewrite Zle_Qle in Hij. nra.
  Qed.

  Lemma temp_pos sig : 0 < sqrt2 -> 0 < sig -> 0 < g_temp sqrt2 sig.
  Proof.
    intros H2 Hs. unfold g_temp. apply Qlt_shift_div_l; [nra | lra].
  Qed.

  Theorem gauss_bounds R lam sig g : grid_ok g -> monotone E -> 0 < sqrt2 -> 0 <= R ->
    (forall i, 0 <= gbin E sqrt2 R lam sig g i) /\
    ((forall x, -1 <= E x <= 1) -> 0 <= integral (gbin E sqrt2 R lam sig g) g <= R).
  Proof.
    intros Hg Hm H2 HR. pose proof Hg as (Hd & Hb & Hc). split.
    - intros i. unfold gbin. destruct (g_inrange g lam sig i) eqn:Hr; [|lra].
      unfold g_inrange in Hr. apply andb_true_iff in Hr as [Hr _]. apply andb_true_iff in Hr as [Ha _].
      apply g_active_iff in Ha as (Hs & _).
      assert (Hle : E (erfarg g lam (g_temp sqrt2 sig) i) <= E (erfarg g lam (g_temp sqrt2 sig) (i + 1))).
      { apply Hm, erfarg_mono; [assumption | now apply temp_pos | lia]. }
      apply Qle_shift_div_l; [assumption|]. nra.
    - intros HE. destruct (g_active g lam sig) eqn:Ha.
      + rewrite gauss_integral by assumption.
        apply g_active_iff in Ha as Ha'. destruct Ha' as (Hs & Hl & Hu).
        assert (Hlu : g_cl lam sig <= g_cu lam sig) by (unfold g_cl, g_cu, cutoff_sigma; nra).
        destruct (range_order g _ _ Hg Hlu Hl Hu) as [Ho _]. fold (g_start g lam sig) in Ho. fold (g_end g lam sig) in Ho.
        assert (Hle : E (erfarg g lam (g_temp sqrt2 sig) (g_start g lam sig)) <= E (erfarg g lam (g_temp sqrt2 sig) (g_end g lam sig))).
        { apply Hm, erfarg_mono; [assumption | now apply temp_pos | lia]. }
        pose proof (HE (erfarg g lam (g_temp sqrt2 sig) (g_start g lam sig))).
        pose proof (HE (erfarg g lam (g_temp sqrt2 sig) (g_end g lam sig))).
        split; nra.
      + rewrite gauss_integral_inactive by assumption. lra.
  Qed.

  (* WHOLE RADIANCE when the window spans the line, up to the truncation constant E(10/sqrt2):
     partial -- that 1 - erf(10/sqrt 2) = 1.5e-23 is a fact about erf, not proved here *)
  Theorem gauss_total_partial R lam sig g : grid_ok g -> monotone E -> 0 < sqrt2 -> 0 <= R -> 0 < sig ->
    gmin g <= g_cl lam sig -> g_cu lam sig <= gmax g ->
    R * (1 # 2) * (E (cutoff_sigma / sqrt2) - E (- (cutoff_sigma / sqrt2))) <= integral (gbin E sqrt2 R lam sig g) g.
  Proof.
    intros Hg Hm H2 HR Hs Hl Hu. pose proof Hg as (Hd & Hb & Hc).
    assert (Hlu : g_cl lam sig <= g_cu lam sig) by (unfold g_cl, g_cu, cutoff_sigma; nra).
    assert (Ha : g_active g lam sig = true) by (apply g_active_iff; repeat split; lra).
    rewrite gauss_integral by assumption.
    pose proof (temp_pos sig H2 Hs) as Ht.
    assert (Tq : cutoff_sigma * sig * g_temp sqrt2 sig == cutoff_sigma / sqrt2) by (unfold g_temp; field; nz).
    (* the last visited edge is at or beyond lam + 10 sigma *)
    assert (Uen : cutoff_sigma / sqrt2 <= erfarg g lam (g_temp sqrt2 sig) (g_end g lam sig)).
    { rewrite <- Tq. unfold erfarg. apply Qmult_le_compat_r; [|lra].
      unfold g_end. destruct (Z.min_spec (gbins g) (Qceiling ((g_cu lam sig - gmin g) / gdelta g))) as [[_ ->]|[_ ->]].
      - rewrite edge_bins by assumption. unfold g_cu in Hu. lra.
      - unfold edge.
        assert (Hq : (g_cu lam sig - gmin g) / gdelta g <= inject_Z (Qceiling ((g_cu lam sig - gmin g) / gdelta g))) by apply Qle_ceiling.
        assert (Hq' : g_cu lam sig - gmin g <= gdelta g * inject_Z (Qceiling ((g_cu lam sig - gmin g) / gdelta g)))
          by (apply div_le_to_mul; assumption).
        unfold g_cu in *. lra. }
    assert (Ust : erfarg g lam (g_temp sqrt2 sig) (g_start g lam sig) <= - (cutoff_sigma / sqrt2)).
    { rewrite <- Tq. unfold erfarg.
      setoid_replace (- (cutoff_sigma * sig * g_temp sqrt2 sig)) with ((- (cutoff_sigma * sig)) * g_temp sqrt2 sig) by ring.
      apply Qmult_le_compat_r; [|lra].
      unfold g_start. destruct (Z.max_spec 0 (Qfloor ((g_cl lam sig - gmin g) / gdelta g))) as [[_ ->]|[_ ->]].
      - unfold edge.
        assert (Hq : inject_Z (Qfloor ((g_cl lam sig - gmin g) / gdelta g)) <= (g_cl lam sig - gmin g) / gdelta g) by apply Qfloor_le.
        assert (Hq' : gdelta g * inject_Z (Qfloor ((g_cl lam sig - gmin g) / gdelta g)) <= g_cl lam sig - gmin g)
          by (apply le_div_to_mul; assumption).
        unfold g_cl in *. lra.
      - rewrite edge_0. unfold g_cl in Hl. lra. }
    apply Hm in Uen. apply Hm in Ust. nra.
  Qed.

  (* ---- the Stark part: if the bin integrator is additive over adjacent intervals the bins telescope ---- *)
  Definition additive (J : Q -> Q -> Q) : Prop := forall a b c, J a c == J a b + J b c.

  Lemma additive_sum (J : Q -> Q -> Q) g : additive J -> forall n i,
    Qsum (map (fun j => J (edge g j) (edge g (j + 1))) (zrange i n)) == J (edge g i) (edge g (i + Z.of_nat n)).
  Proof.
    intros HJ. induction n as [|n IH]; intros i.
    - cbn [zrange map Qsum]. replace (i + Z.of_nat 0)%Z with i by lia.
      pose proof (HJ (edge g i) (edge g i) (edge g i)). lra.
    - cbn [zrange map Qsum]. rewrite IH.
      replace (i + 1 + Z.of_nat n)%Z with (i + Z.of_nat (S n))%Z by lia.
      symmetry. apply HJ.
  Qed.

  Lemma l_active_iff g lam w :
    negb (Qle_bool w 0) && negb (Qltb (gmax g) (l_cl lam w)) && negb (Qltb (l_cu lam w) (gmin g)) = true
    <-> 0 < w /\ l_cl lam w <= gmax g /\ gmin g <= l_cu lam w.
  Proof.
    rewrite !andb_true_iff, !negb_true_iff. split.
    - intros [[H1 H2] H3]. repeat split; [now apply Qle_bool_false | now apply Qltb_false | now apply Qltb_false].
    - intros (H1 & H2 & H3). repeat split.
      + destruct (Qle_bool w 0) eqn:Hb; [apply Qle_bool_iff in Hb; lra | reflexivity].
      + destruct (Qltb (gmax g) (l_cl lam w)) eqn:Hb; [apply Qltb_true in Hb; lra | reflexivity].
      + destruct (Qltb (l_cu lam w) (gmin g)) eqn:Hb; [apply Qltb_true in Hb; lra | reflexivity].
  Qed.

  (* partial: that I integrates to 1 over +-50 FWHM (the hypergeometric normalisation constant) is not proved *)
  Theorem lorentz_integral R lam w g : grid_ok g -> additive (I lam w) ->
    0 < w -> l_cl lam w <= gmax g -> gmin g <= l_cu lam w ->
    integral (lbin I R lam w g) g == R * I lam w (edge g (l_start g lam w)) (edge g (l_end g lam w)).
  Proof.
    intros Hg HJ Hw Hl Hu. pose proof Hg as (Hd & Hb & Hc).
    assert (Hlu : l_cl lam w <= l_cu lam w) by (unfold l_cl, l_cu, lorentz_cutoff; nra).
    destruct (range_order g _ _ Hg Hlu Hl Hu) as [Ho Hen]. fold (l_start g lam w) in Ho. fold (l_end g lam w) in Ho, Hen.
    assert (Ha : negb (Qle_bool w 0) && negb (Qltb (gmax g) (l_cl lam w)) && negb (Qltb (l_cu lam w) (gmin g)) = true)
      by (apply l_active_iff; repeat split; assumption).
    rewrite (integral_split _ g (l_start g lam w) (l_end g lam w)); [| lia | lia |].
    - rewrite (Qsum_map_ext _ (fun j => I lam w (edge g j) (edge g (j + 1)) * R)).
      + rewrite Qsum_map_scale, (additive_sum (I lam w) g HJ).
        replace (l_start g lam w + Z.of_nat (Z.to_nat (l_end g lam w - l_start g lam w)))%Z with (l_end g lam w) by lia.
        ring.
      + intros x Hx. apply zrange_In in Hx. unfold lbin, l_inrange. rewrite Ha.
        replace (l_start g lam w <=? x)%Z with true by (symmetry; apply Z.leb_le; lia).
        replace (x <? l_end g lam w)%Z with true by (symmetry; apply Z.ltb_lt; lia).
        cbn [andb]. field. nz.
    - intros i Hi. unfold lbin, l_inrange. rewrite Ha. cbn [andb].
      destruct (Z.leb_spec (l_start g lam w) i); cbn [andb]; [|reflexivity].
      destruct (Z.ltb_spec i (l_end g lam w)); [lia | reflexivity].
  Qed.

  (* ---- component lists ---- *)
  Lemma csbin_app g cs1 cs2 i : csbin E sqrt2 I g (cs1 ++ cs2) i == csbin E sqrt2 I g cs1 i + csbin E sqrt2 I g cs2 i.
  Proof. unfold csbin. apply Qsum_map_app. Qed.

  Lemma total_rad_app cs1 cs2 : total_rad (cs1 ++ cs2) == total_rad cs1 + total_rad cs2.
  Proof. unfold total_rad. apply Qsum_map_app. Qed.

  (* the integral of a component list is the sum of the components' integrals *)
  Theorem integral_comps g cs :
    integral (csbin E sqrt2 I g cs) g == Qsum (map (fun c => integral (cbin E sqrt2 I g c) g) cs).
  Proof.
    unfold integral, csbin. induction cs as [|c cs IH]; cbn [map Qsum].
    - apply Qsum_map_zero. intros; ring.
    - rewrite <- IH, <- Qsum_map_plus. apply Qsum_map_ext. intros; ring.
  Qed.
End Norm.
