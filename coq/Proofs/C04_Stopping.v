(* C04: the composite stopping coefficient computed by the two loops of _beam_stopping is the
   documented sum, for any number of species and any species functions. *)
Require Import Cherab.Common.Qx.
From Coq Require Import Lqa.
Require Import Cherab.Model.C04_Beam.
Open Scope Q_scope.

Lemma fold_red_sum {A} (f : A -> Q) (l : list A) (a : Q) :
  fold_left (fun acc s => Qred (acc + f s)) l a == a + Qsum (map f l).
Proof.
  revert a; induction l as [|x l IH]; intros a; cbn [fold_left map Qsum].
  - ring.
  - rewrite IH, Qred_correct. ring.
Qed.

Lemma Qsum_map_ext {A} (f g : A -> Q) (l : list A) :
  (forall x, In x l -> f x == g x) -> Qsum (map f l) == Qsum (map g l).
Proof.
  induction l as [|x l IH]; intros H; cbn [map Qsum]; [reflexivity|].
  rewrite (H x (or_introl eq_refl)), IH; [reflexivity|]. intros y Hy; apply H; right; exact Hy.
Qed.

Lemma Qsum_nonneg (l : list Q) : (forall x, In x l -> 0 <= x) -> 0 <= Qsum l.
Proof.
  induction l as [|x l IH]; intros H; [apply Qle_refl|].
  change (0 <= x + Qsum l).
  assert (H1 : 0 <= x) by (apply H; left; reflexivity).
  assert (H2 : 0 <= Qsum l) by (apply IH; intros y Hy; apply H; right; exact Hy).
  lra.
Qed.

(* density_sum = sum_j Z_j^2 n_j *)
Lemma density_sum_spec sp r :
  density_sum sp r == Qsum (map (fun s => sp_charge s * sp_charge s * sp_dens s r) sp).
Proof. unfold density_sum. rewrite fold_red_sum. ring. Qed.

(* the interaction energy is |v_beam - v_i|^2 / (2e/amu): EvAmuToMS.inv of the relative speed *)
Lemma interaction_energy_spec cf bv s r :
  interaction_energy cf bv s r == norm2 (vsub bv (sp_vel s r)) / cf.
Proof. unfold interaction_energy. apply Qred_correct. Qed.

(* S = sum_i Z_i n_i S_i(E_i, (sum_j Z_j^2 n_j) / Z_i, T_i) *)
Lemma beam_stopping_spec cf sp bv r :
  beam_stopping cf sp bv r ==
  Qsum (map (fun s => sp_charge s * sp_dens s r *
                      sp_coef s (interaction_energy cf bv s r) (density_sum sp r / sp_charge s) (sp_temp s r)) sp).
Proof.
  unfold beam_stopping. rewrite fold_red_sum.
  setoid_replace (0 + Qsum (map (fun s => stopping_term cf bv (density_sum sp r) s r) sp))
    with (Qsum (map (fun s => stopping_term cf bv (density_sum sp r) s r) sp)) by ring.
  apply Qsum_map_ext. intros s _.
  cbv beta iota delta [stopping_term stopping_args]. ring.
Qed.

Lemma beam_stopping_nonneg cf sp bv r :
  (forall s, In s sp -> 0 <= sp_charge s /\ 0 <= sp_dens s r /\ forall e n t, 0 <= sp_coef s e n t) ->
  0 <= beam_stopping cf sp bv r.
Proof.
  intros H. rewrite beam_stopping_spec. apply Qsum_nonneg. intros x Hx.
  apply in_map_iff in Hx. destruct Hx as (s & <- & Hs). destruct (H s Hs) as (Hc & Hd & Hk).
  apply Qmult_le_0_compat; [apply Qmult_le_0_compat; assumption | apply Hk].
Qed.

Lemma Qsum_map_zero {A} (l : list A) : Qsum (map (fun _ => 0) l) == 0.
Proof. induction l as [|x l IH]; cbn [map Qsum]; [reflexivity | rewrite IH; ring]. Qed.

Lemma beam_stopping_zero cf sp bv r :
  (forall s, In s sp -> forall e n t, sp_coef s e n t == 0) -> beam_stopping cf sp bv r == 0.
Proof.
  intros H. rewrite beam_stopping_spec.
  rewrite (Qsum_map_ext _ (fun _ => 0)); [apply Qsum_map_zero|].
  intros s Hs. rewrite (H s Hs). ring.
Qed.
