(* Caching2D / Caching3D: the cached value is the tensor product of the 1-D cubic through the
   wrapped function's values at the raw nodes of the cell (Model/C14_Caching.v : spec2, spec3),
   whatever the coordinate and data normalisation. *)
Require Import Cherab.Common.Qx.
Require Import Cherab.Model.C14_Cache Cherab.Model.C14_Caching.
Require Import Cherab.Proofs.C14_Cache Cherab.Proofs.C14_History Cherab.Proofs.C14_Hermite Cherab.Proofs.C14_Find
               Cherab.Proofs.C14_Dim1.
From Coq Require Import Lqa Morphisms Setoid.
Open Scope Q_scope.

Global Instance HL_Proper :
  Proper (Qeq ==> Qeq ==> Qeq ==> Qeq ==> Qeq ==> Qeq ==> Qeq ==> Qeq ==> Qeq ==> Qeq) HL.
Proof. repeat intro. apply HL_ext; assumption. Qed.

(* one axis: normalised nodes, normalised data, normalised point *)
Lemma inner_norm y top j m s dm d0 d1 d2 t :
  increasing y top -> (1 <= j <= top - 2)%Z -> ~ s == 0 ->
  HL (nrm y top (y (j - 1)%Z)) (nrm y top (y j)) (nrm y top (y (j + 1)%Z)) (nrm y top (y (j + 2)%Z))
     ((dm - m) * (1 / s)) ((d0 - m) * (1 / s)) ((d1 - m) * (1 / s)) ((d2 - m) * (1 / s)) (nrm y top t)
  == (HL (y (j - 1)%Z) (y j) (y (j + 1)%Z) (y (j + 2)%Z) dm d0 d1 d2 t - m) * (1 / s).
Proof.
  intros Hinc Hj Hs. destruct (nodes_distinct y top Hinc j Hj) as (N0 & Nm & N2 & Nt).
  rewrite !nrm_eq. rewrite HL_coord_affine; try assumption; [|apply inv_nz; exact Nt].
  apply HL_data_affine; assumption.
Qed.

Lemma outer_norm x top i m s dm d0 d1 d2 t :
  increasing x top -> (1 <= i <= top - 2)%Z -> ~ s == 0 ->
  s * HL (nrm x top (x (i - 1)%Z)) (nrm x top (x i)) (nrm x top (x (i + 1)%Z)) (nrm x top (x (i + 2)%Z))
         ((dm - m) * (1 / s)) ((d0 - m) * (1 / s)) ((d1 - m) * (1 / s)) ((d2 - m) * (1 / s)) (nrm x top t) + m
  == HL (x (i - 1)%Z) (x i) (x (i + 1)%Z) (x (i + 2)%Z) dm d0 d1 d2 t.
Proof.
  intros Hinc Hi Hs. rewrite inner_norm by assumption. field. exact Hs.
Qed.

Section Dim2.
  Variables (x y : Z -> Q) (topx topy : Z).
  Hypothesis Hx : increasing x topx.
  Hypothesis Hy : increasing y topy.
  Variables (fb : option (Q * Q)) (nbe : bool) (f : Q * Q -> Q).

  Lemma build2_value i j p : (1 <= i <= topx - 2)%Z -> (1 <= j <= topy - 2)%Z ->
    evalc2 x y topx topy fb (build2 (i, j) (map (truth (nodept2 x y) f (normd fb)) (needed2 (i, j)))) p
    == spec2 x y f (i, j) p.
  Proof.
    intros Hi Hj. destruct p as [px py].
    pose proof (data_delta_nz fb) as Hs.
    unfold evalc2, build2, needed2, span, truth, nodept2, normd, reduce, nodes4.
    cbn [fst snd map flat_map app chunks4 HLl].
    rewrite !(inner_norm y topy j) by assumption.
    rewrite (outer_norm x topx i) by assumption.
    reflexivity.
  Qed.

  Lemma locate2_sound p i j : (0 < topx)%Z -> (0 < topy)%Z -> locate2 x y topx topy p = Some (i, j) ->
    locate1 x topx (fst p) = Some i /\ locate1 y topy (snd p) = Some j.
  Proof.
    unfold locate2. intros _ _.
    destruct (locate1 x topx (fst p)); [|discriminate]. destruct (locate1 y topy (snd p)); [|discriminate].
    intros [= -> ->]. auto.
  Qed.

  Theorem pure2_spec p c : (0 < topx)%Z -> (0 < topy)%Z -> locate2 x y topx topy p = Some c ->
    exists v, pure2 fb nbe x y topx topy f p = Val v /\ v == spec2 x y f c p.
  Proof.
    intros Tx Ty L. destruct c as [i j]. unfold pure2, pure_eval. rewrite L. eexists. split; [reflexivity|].
    destruct (locate2_sound p i j Tx Ty L) as (L1 & L2).
    apply build2_value; [apply (locate1_sound x topx (fst p) i Tx L1)|apply (locate1_sound y topy (snd p) j Ty L2)].
  Qed.

  Theorem pure2_outside p : locate2 x y topx topy p = None ->
    pure2 fb nbe x y topx topy f p = if nbe then Direct (f p) else Err.
  Proof. intros L. unfold pure2, pure_eval. rewrite L. reflexivity. Qed.
End Dim2.

Section Dim2Props.
  Variables (x y : Z -> Q) (topx topy : Z).
  Hypothesis Hx : increasing x topx.
  Hypothesis Hy : increasing y topy.
  Hypothesis Tx : (3 <= topx)%Z.
  Hypothesis Ty : (3 <= topy)%Z.
  Variables (fb : option (Q * Q)) (nbe : bool) (f : Q * Q -> Q).

  Theorem after2_spec hist p c : locate2 x y topx topy p = Some c ->
    exists v, eval_after2 fb nbe x y topx topy f hist p = Val v /\ v == spec2 x y f c p.
  Proof. intros L. rewrite history_independent_2d. apply pure2_spec; try assumption; lia. Qed.

  Lemma locate2_node i j : (1 <= i <= topx - 2)%Z -> (1 <= j <= topy - 2)%Z ->
    locate2 x y topx topy (x i, y j) = Some (i, j).
  Proof.
    intros Hi Hj. unfold locate2. cbn [fst snd].
    rewrite (locate1_complete x topx Hx (x i) i Hi (Qle_refl _)) by (apply (increasing_lt x topx Hx); lia).
    rewrite (locate1_complete y topy Hy (y j) j Hj (Qle_refl _)) by (apply (increasing_lt y topy Hy); lia).
    reflexivity.
  Qed.

  Theorem after2_node hist i j : (1 <= i <= topx - 2)%Z -> (1 <= j <= topy - 2)%Z ->
    exists v, eval_after2 fb nbe x y topx topy f hist (x i, y j) = Val v /\ v == f (x i, y j).
  Proof.
    intros Hi Hj. destruct (after2_spec hist (x i, y j) (i, j) (locate2_node i j Hi Hj)) as (v & E & V).
    exists v. split; [exact E|]. rewrite V. unfold spec2, spec1. cbn [fst snd].
    destruct (nodes_distinct x topx Hx i Hi) as (A0 & Am & A2 & _).
    destruct (nodes_distinct y topy Hy j Hj) as (B0 & Bm & B2 & _).
    rewrite HL_node0 by assumption. rewrite HL_node0 by assumption. reflexivity.
  Qed.

  (* a function linear in each coordinate is reproduced exactly *)
  Theorem after2_bilinear A B C D hist p v :
    (forall a b, f (a, b) == A + B * a + C * b + D * a * b) ->
    eval_after2 fb nbe x y topx topy f hist p = Val v -> v == f p.
  Proof.
    intros Hf E. rewrite history_independent_2d in E.
    destruct (locate2 x y topx topy p) as [[i j]|] eqn:L.
    - destruct (pure2_spec x y topx topy Hx Hy fb nbe f p (i, j) ltac:(lia) ltac:(lia) L) as (v' & E' & V).
      rewrite E in E'. injection E' as <-. rewrite V. destruct p as [px py].
      destruct (locate2_sound x y topx topy (px, py) i j ltac:(lia) ltac:(lia) L) as (L1 & L2).
      destruct (locate1_sound x topx px i ltac:(lia) L1) as (Hi & _).
      destruct (locate1_sound y topy py j ltac:(lia) L2) as (Hj & _).
      destruct (nodes_distinct x topx Hx i Hi) as (A0 & Am & A2 & _).
      destruct (nodes_distinct y topy Hy j Hj) as (B0 & Bm & B2 & _).
      unfold spec2, spec1. cbn [fst snd].
      assert (In : forall a, HL (y (j - 1)%Z) (y j) (y (j + 1)%Z) (y (j + 2)%Z)
                                (f (a, y (j - 1)%Z)) (f (a, y j)) (f (a, y (j + 1)%Z)) (f (a, y (j + 2)%Z)) py
                             == (A + C * py) + (B + D * py) * a).
      { intros a.
        setoid_replace (f (a, y (j - 1)%Z)) with ((A + B * a) + (C + D * a) * y (j - 1)%Z) by (rewrite Hf; ring).
        setoid_replace (f (a, y j)) with ((A + B * a) + (C + D * a) * y j) by (rewrite Hf; ring).
        setoid_replace (f (a, y (j + 1)%Z)) with ((A + B * a) + (C + D * a) * y (j + 1)%Z) by (rewrite Hf; ring).
        setoid_replace (f (a, y (j + 2)%Z)) with ((A + B * a) + (C + D * a) * y (j + 2)%Z) by (rewrite Hf; ring).
        rewrite HL_affine by assumption. ring. }
      rewrite !In. rewrite HL_affine by assumption. rewrite Hf. ring.
    - rewrite (pure2_outside x y topx topy fb nbe f p L) in E. destruct nbe; discriminate.
  Qed.

  Theorem after2_bounds_irrelevant fb' hist hist' p :
    result_equiv (eval_after2 fb nbe x y topx topy f hist p) (eval_after2 fb' nbe x y topx topy f hist' p).
  Proof.
    rewrite !history_independent_2d.
    destruct (locate2 x y topx topy p) as [c|] eqn:L.
    - destruct (pure2_spec x y topx topy Hx Hy fb nbe f p c ltac:(lia) ltac:(lia) L) as (v & -> & V).
      destruct (pure2_spec x y topx topy Hx Hy fb' nbe f p c ltac:(lia) ltac:(lia) L) as (v' & -> & V').
      cbn. rewrite V, V'. reflexivity.
    - rewrite !pure2_outside by exact L. destruct nbe; cbn; [reflexivity|exact I].
  Qed.

  Theorem after2_outside hist p :
    (fst p < x 1%Z \/ x (topx - 1)%Z <= fst p) \/ (snd p < y 1%Z \/ y (topy - 1)%Z <= snd p) ->
    eval_after2 fb nbe x y topx topy f hist p = if nbe then Direct (f p) else Err.
  Proof.
    intros H. rewrite history_independent_2d. apply pure2_outside. unfold locate2.
    destruct H as [H|H].
    - rewrite (locate1_outside x topx Hx (fst p)) by (try lia; exact H). reflexivity.
    - rewrite (locate1_outside y topy Hy (snd p)) by (try lia; exact H).
      destruct (locate1 x topx (fst p)); reflexivity.
  Qed.
End Dim2Props.

Section Dim3.
  Variables (x y z : Z -> Q) (topx topy topz : Z).
  Hypothesis Hx : increasing x topx.
  Hypothesis Hy : increasing y topy.
  Hypothesis Hz : increasing z topz.
  Variables (fb : option (Q * Q)) (nbe : bool) (f : Q * Q * Q -> Q).

  Lemma build3_value i j k p : (1 <= i <= topx - 2)%Z -> (1 <= j <= topy - 2)%Z -> (1 <= k <= topz - 2)%Z ->
    evalc3 x y z topx topy topz fb (build3 (i, j, k) (map (truth (nodept3 x y z) f (normd fb)) (needed3 (i, j, k)))) p
    == spec3 x y z f (i, j, k) p.
  Proof.
    intros Hi Hj Hk. destruct p as [[px py] pz].
    pose proof (data_delta_nz fb) as Hs.
    unfold evalc3, build3, needed3, span, truth, nodept3, normd, reduce, nodes4.
    cbn [fst snd map flat_map app chunks4 HLl].
    rewrite !(inner_norm z topz k) by assumption.
    rewrite !(inner_norm y topy j) by assumption.
    rewrite (outer_norm x topx i) by assumption.
    unfold spec3, spec1. cbv beta. apply Qeq_refl.
  Qed.

  Lemma locate3_sound p i j k : locate3 x y z topx topy topz p = Some (i, j, k) ->
    locate1 x topx (fst (fst p)) = Some i /\ locate1 y topy (snd (fst p)) = Some j /\ locate1 z topz (snd p) = Some k.
  Proof.
    destruct p as [[px py] pz]. unfold locate3. cbn [fst snd].
    destruct (locate1 x topx px); [|discriminate]. destruct (locate1 y topy py); [|discriminate].
    destruct (locate1 z topz pz); [|discriminate].
    intros [= -> -> ->]. auto.
  Qed.

  Theorem pure3_spec p c : (0 < topx)%Z -> (0 < topy)%Z -> (0 < topz)%Z -> locate3 x y z topx topy topz p = Some c ->
    exists v, pure3 fb nbe x y z topx topy topz f p = Val v /\ v == spec3 x y z f c p.
  Proof.
    intros Tx Ty Tz L. destruct c as [[i j] k]. unfold pure3, pure_eval. rewrite L. eexists. split; [reflexivity|].
    destruct (locate3_sound p i j k L) as (L1 & L2 & L3).
    apply build3_value; [apply (locate1_sound x topx _ i Tx L1)|apply (locate1_sound y topy _ j Ty L2)
                        |apply (locate1_sound z topz _ k Tz L3)].
  Qed.

  Theorem pure3_outside p : locate3 x y z topx topy topz p = None ->
    pure3 fb nbe x y z topx topy topz f p = if nbe then Direct (f p) else Err.
  Proof. intros L. unfold pure3, pure_eval. rewrite L. reflexivity. Qed.
End Dim3.

Section Dim3Props.
  Variables (x y z : Z -> Q) (topx topy topz : Z).
  Hypothesis Hx : increasing x topx.
  Hypothesis Hy : increasing y topy.
  Hypothesis Hz : increasing z topz.
  Hypothesis Tx : (3 <= topx)%Z.
  Hypothesis Ty : (3 <= topy)%Z.
  Hypothesis Tz : (3 <= topz)%Z.
  Variables (fb : option (Q * Q)) (nbe : bool) (f : Q * Q * Q -> Q).

  Theorem after3_spec hist p c : locate3 x y z topx topy topz p = Some c ->
    exists v, eval_after3 fb nbe x y z topx topy topz f hist p = Val v /\ v == spec3 x y z f c p.
  Proof. intros L. rewrite history_independent_3d. apply pure3_spec; try assumption; lia. Qed.

  Lemma locate3_node i j k : (1 <= i <= topx - 2)%Z -> (1 <= j <= topy - 2)%Z -> (1 <= k <= topz - 2)%Z ->
    locate3 x y z topx topy topz (x i, y j, z k) = Some (i, j, k).
  Proof.
    intros Hi Hj Hk. unfold locate3.
    rewrite (locate1_complete x topx Hx (x i) i Hi (Qle_refl _)) by (apply (increasing_lt x topx Hx); lia).
    rewrite (locate1_complete y topy Hy (y j) j Hj (Qle_refl _)) by (apply (increasing_lt y topy Hy); lia).
    rewrite (locate1_complete z topz Hz (z k) k Hk (Qle_refl _)) by (apply (increasing_lt z topz Hz); lia).
    reflexivity.
  Qed.

  Theorem after3_node hist i j k : (1 <= i <= topx - 2)%Z -> (1 <= j <= topy - 2)%Z -> (1 <= k <= topz - 2)%Z ->
    exists v, eval_after3 fb nbe x y z topx topy topz f hist (x i, y j, z k) = Val v /\ v == f (x i, y j, z k).
  Proof.
    intros Hi Hj Hk.
    destruct (after3_spec hist (x i, y j, z k) (i, j, k) (locate3_node i j k Hi Hj Hk)) as (v & E & V).
    exists v. split; [exact E|]. rewrite V. unfold spec3, spec1.
    destruct (nodes_distinct x topx Hx i Hi) as (A0 & Am & A2 & _).
    destruct (nodes_distinct y topy Hy j Hj) as (B0 & Bm & B2 & _).
    destruct (nodes_distinct z topz Hz k Hk) as (C0 & Cm & C2 & _).
    rewrite HL_node0 by assumption. rewrite HL_node0 by assumption. rewrite HL_node0 by assumption. reflexivity.
  Qed.

  (* a function linear in each coordinate is reproduced exactly *)
  Theorem after3_trilinear c0 cx cy cz cxy cxz cyz cxyz hist p v :
    (forall a b c, f (a, b, c) == c0 + cx * a + cy * b + cz * c + cxy * a * b + cxz * a * c + cyz * b * c + cxyz * a * b * c) ->
    eval_after3 fb nbe x y z topx topy topz f hist p = Val v -> v == f p.
  Proof.
    intros Hf E. rewrite history_independent_3d in E.
    destruct (locate3 x y z topx topy topz p) as [[[i j] k]|] eqn:L.
    - destruct (pure3_spec x y z topx topy topz Hx Hy Hz fb nbe f p (i, j, k) ltac:(lia) ltac:(lia) ltac:(lia) L)
        as (v' & E' & V).
      rewrite E in E'. injection E' as <-. rewrite V.
      destruct (locate3_sound x y z topx topy topz p i j k L) as (L1 & L2 & L3).
      destruct p as [[px py] pz]. cbn [fst snd] in L1, L2, L3.
      destruct (locate1_sound x topx px i ltac:(lia) L1) as (Hi & _).
      destruct (locate1_sound y topy py j ltac:(lia) L2) as (Hj & _).
      destruct (locate1_sound z topz pz k ltac:(lia) L3) as (Hk & _).
      destruct (nodes_distinct x topx Hx i Hi) as (A0 & Am & A2 & _).
      destruct (nodes_distinct y topy Hy j Hj) as (B0 & Bm & B2 & _).
      destruct (nodes_distinct z topz Hz k Hk) as (C0 & Cm & C2 & _).
      unfold spec3, spec1.
      assert (In : forall a b, HL (z (k - 1)%Z) (z k) (z (k + 1)%Z) (z (k + 2)%Z)
                                  (f (a, b, z (k - 1)%Z)) (f (a, b, z k)) (f (a, b, z (k + 1)%Z)) (f (a, b, z (k + 2)%Z)) pz
                               == ((c0 + cx * a + cz * pz + cxz * a * pz) + (cy + cxy * a + cyz * pz + cxyz * a * pz) * b)).
      { intros a b.
        setoid_replace (f (a, b, z (k - 1)%Z)) with ((c0 + cx * a + cy * b + cxy * a * b) + (cz + cxz * a + cyz * b + cxyz * a * b) * z (k - 1)%Z) by (rewrite Hf; ring).
        setoid_replace (f (a, b, z k)) with ((c0 + cx * a + cy * b + cxy * a * b) + (cz + cxz * a + cyz * b + cxyz * a * b) * z k) by (rewrite Hf; ring).
        setoid_replace (f (a, b, z (k + 1)%Z)) with ((c0 + cx * a + cy * b + cxy * a * b) + (cz + cxz * a + cyz * b + cxyz * a * b) * z (k + 1)%Z) by (rewrite Hf; ring).
        setoid_replace (f (a, b, z (k + 2)%Z)) with ((c0 + cx * a + cy * b + cxy * a * b) + (cz + cxz * a + cyz * b + cxyz * a * b) * z (k + 2)%Z) by (rewrite Hf; ring).
        rewrite HL_affine by assumption. ring. }
      assert (Mid : forall a, HL (y (j - 1)%Z) (y j) (y (j + 1)%Z) (y (j + 2)%Z)
                                 ((c0 + cx * a + cz * pz + cxz * a * pz) + (cy + cxy * a + cyz * pz + cxyz * a * pz) * y (j - 1)%Z)
                                 ((c0 + cx * a + cz * pz + cxz * a * pz) + (cy + cxy * a + cyz * pz + cxyz * a * pz) * y j)
                                 ((c0 + cx * a + cz * pz + cxz * a * pz) + (cy + cxy * a + cyz * pz + cxyz * a * pz) * y (j + 1)%Z)
                                 ((c0 + cx * a + cz * pz + cxz * a * pz) + (cy + cxy * a + cyz * pz + cxyz * a * pz) * y (j + 2)%Z) py
                              == ((c0 + cy * py + cz * pz + cyz * py * pz) + (cx + cxy * py + cxz * pz + cxyz * py * pz) * a)).
      { intros a. rewrite HL_affine by assumption. ring. }
      rewrite !In. rewrite !Mid. rewrite HL_affine by assumption. rewrite Hf. ring.
    - rewrite (pure3_outside x y z topx topy topz fb nbe f p L) in E. destruct nbe; discriminate.
  Qed.

  Theorem after3_bounds_irrelevant fb' hist hist' p :
    result_equiv (eval_after3 fb nbe x y z topx topy topz f hist p) (eval_after3 fb' nbe x y z topx topy topz f hist' p).
  Proof.
    rewrite !history_independent_3d.
    destruct (locate3 x y z topx topy topz p) as [c|] eqn:L.
    - destruct (pure3_spec x y z topx topy topz Hx Hy Hz fb nbe f p c ltac:(lia) ltac:(lia) ltac:(lia) L) as (v & -> & V).
      destruct (pure3_spec x y z topx topy topz Hx Hy Hz fb' nbe f p c ltac:(lia) ltac:(lia) ltac:(lia) L) as (v' & -> & V').
      cbn. rewrite V, V'. reflexivity.
    - rewrite !pure3_outside by exact L. destruct nbe; cbn; [reflexivity|exact I].
  Qed.

  Theorem after3_outside hist px py pz :
    (px < x 1%Z \/ x (topx - 1)%Z <= px) \/ (py < y 1%Z \/ y (topy - 1)%Z <= py) \/ (pz < z 1%Z \/ z (topz - 1)%Z <= pz) ->
    eval_after3 fb nbe x y z topx topy topz f hist (px, py, pz) = if nbe then Direct (f (px, py, pz)) else Err.
  Proof.
    intros H. rewrite history_independent_3d. apply pure3_outside. unfold locate3.
    destruct H as [H|[H|H]].
    - rewrite (locate1_outside x topx Hx px) by (try lia; exact H). reflexivity.
    - rewrite (locate1_outside y topy Hy py) by (try lia; exact H). destruct (locate1 x topx px); reflexivity.
    - rewrite (locate1_outside z topz Hz pz) by (try lia; exact H).
      destruct (locate1 x topx px); [destruct (locate1 y topy py)|]; reflexivity.
  Qed.
End Dim3Props.
