(* C19 -- second layer of lemmas: the index builders refine their specification for every list (no
   well-formedness needed), rebuilding is idempotent, lookups are case-blind for every registry,
   == is characterised field by field, dicts with deletion are finite maps, dir() order is a sorted
   permutation. *)
Require Import Cherab.Common.Qx.
From Coq Require Import String Ascii DecimalString Qabs Sorting.Sorted Permutation.
Require Import Cherab.Model.C19_Registry Cherab.Model.C19_Shape Cherab.Model.C19_Args Cherab.Proofs.C19_Registry.
Local Open Scope Z_scope.

(* ---- the builders' loop refines [last_with] ------------------------------------------------------- *)
Lemma idx_get_fold_cons {A} (o : A) ks : forall (ix : index A) k,
  idx_get (fold_left (fun acc k0 => (k0, o) :: acc) ks ix) k
  = if existsb (String.eqb k) ks then Some o else idx_get ix k.
Proof.
  induction ks as [|k0 ks IH]; intros ix k; simpl; [reflexivity|].
  rewrite IH. simpl. rewrite (String.eqb_sym k k0).
  destruct (existsb (String.eqb k) ks); destruct (String.eqb k0 k); reflexivity.
Qed.

Lemma idx_get_add_keys {A} (keys : A -> list string) (ix : index A) o k :
  idx_get (add_keys keys ix o) k = if existsb (String.eqb k) (keys o) then Some o else idx_get ix k.
Proof. unfold add_keys. apply idx_get_fold_cons. Qed.

Lemma idx_get_fold_objs {A} (keys : A -> list string) l : forall (ix : index A) k,
  idx_get (fold_left (add_keys keys) l ix) k
  = match last_with keys k l with Some o => Some o | None => idx_get ix k end.
Proof.
  induction l as [|o t IH]; intros ix k; simpl; [reflexivity|].
  rewrite IH. destruct (last_with keys k t); [reflexivity|]. rewrite idx_get_add_keys.
  destruct (existsb (String.eqb k) (keys o)); reflexivity.
Qed.

Lemma build_index_spec {A} (keys : A -> list string) (l : list A) k :
  idx_get (build_index keys l) k = last_with keys k l.
Proof. unfold build_index. rewrite idx_get_fold_objs. simpl. destruct (last_with keys k l); reflexivity. Qed.

(* running the builders a second time on top of the existing dictionaries changes no lookup *)
Lemma rebuild_idempotent {A} (keys : A -> list string) (l : list A) k :
  idx_get (fold_left (add_keys keys) l (build_index keys l)) k = idx_get (build_index keys l) k.
Proof. rewrite idx_get_fold_objs, build_index_spec. destruct (last_with keys k l); reflexivity. Qed.

(* ---- letter case ------------------------------------------------------------------------------------- *)
Lemma lower_ascii_idem c : lower_ascii (lower_ascii c) = lower_ascii c.
Proof. destruct c as [[] [] [] [] [] [] [] []]; reflexivity. Qed.

Lemma lower_idem s : lower (lower s) = lower s.
Proof. induction s as [|c s IH]; simpl; [reflexivity | rewrite lower_ascii_idem, IH; reflexivity]. Qed.

(* for EVERY registry: the outcome of a string lookup depends on the lower-cased string only *)
Lemma lookup_element_case_blind r s s' : lower s = lower s' ->
  lookup_element r (VStr s) = lookup_element r (VStr s').
Proof. unfold lookup_element, lookup_element_ix. cbn [py_str]. intros ->. reflexivity. Qed.

Lemma lookup_isotope_case_blind r s s' n : lower s = lower s' ->
  lookup_isotope r (VStr s) n = lookup_isotope r (VStr s') n.
Proof.
  unfold lookup_isotope, lookup_isotope_ix, lookup_isotope_core, lookup_element_ix. cbn [py_str]. intros ->. reflexivity.
Qed.

Lemma lookup_element_lower r s : lookup_element r (VStr (lower s)) = lookup_element r (VStr s).
Proof. apply lookup_element_case_blind. apply lower_idem. Qed.

(* ---- == characterised field by field ------------------------------------------------------------------- *)
Lemma element_eq_iff a b :
  element_eq a b = true <->
  e_name a = e_name b /\ e_symbol a = e_symbol b /\ e_Z a = e_Z b /\ (e_weight a == e_weight b)%Q.
Proof.
  unfold element_eq. rewrite !andb_true_iff, !String.eqb_eq, Z.eqb_eq, Qeq_bool_iff. tauto.
Qed.

Lemma isotope_eq_iff a b :
  isotope_eq a b = true <->
  i_name a = i_name b /\ i_symbol a = i_symbol b /\ i_Z a = i_Z b /\ (i_weight a == i_weight b)%Q
  /\ element_eq (i_element a) (i_element b) = true /\ i_A a = i_A b.
Proof.
  unfold isotope_eq. rewrite !andb_true_iff, !String.eqb_eq, !Z.eqb_eq, Qeq_bool_iff. tauto.
Qed.

(* ---- dicts with deletion are finite maps ------------------------------------------------------------------ *)
Section DictMap.
  Context {K V : Type} (khash : K -> Z) (ksame keq : K -> K -> bool) (D : K -> Prop).
  Hypothesis match_refl : forall k, D k -> slot_match khash ksame keq k k = true.
  Hypothesis match_same : forall a b, D a -> D b -> slot_match khash ksame keq a b = true -> a = b.

  Notation get := (dict_get khash ksame keq).
  Notation set := (dict_set khash ksame keq).
  Notation del := (dict_del khash ksame keq).
  Notation keys_in := (keys_in D).

  Definition dict_ok (d : list (K * V)) : Prop := keys_in d /\ NoDup (map (@fst K V) d).

  Lemma get_none_notin (d : list (K * V)) k : keys_in d -> D k -> get d k = None -> ~ In k (map fst d).
  Proof.
    induction d as [|[k0 x] t IH]; simpl; intros Hd Hk H; [tauto|].
    inversion Hd as [|? ? Hk0 Ht]; subst. cbn [fst] in Hk0.
    destruct (slot_match khash ksame keq k0 k) eqn:E; [discriminate|].
    intros [E0|Hin]; [subst; rewrite match_refl in E; [discriminate | assumption] | exact (IH Ht Hk H Hin)].
  Qed.

  Lemma get_in (d : list (K * V)) k v : dict_ok d -> D k -> (get d k = Some v <-> In (k, v) d).
  Proof.
    intros [Hd Hn] Hk. induction d as [|[k0 x] t IH]; simpl; [split; [discriminate | tauto]|].
    inversion Hd as [|? ? Hk0 Ht]; subst. cbn [fst] in Hk0. inversion Hn as [|? ? Hnot Hnt]; subst.
    destruct (slot_match khash ksame keq k0 k) eqn:E.
    - assert (k0 = k) by (apply match_same; auto). subst k0. split.
      + intros H; inversion H; auto.
      + intros [H|H]; [inversion H; reflexivity|]. exfalso; apply Hnot. change k with (fst (k, v)). apply in_map; exact H.
    - rewrite (IH Ht Hnt). split; [auto|]. intros [H|H]; [|exact H].
      inversion H; subst. rewrite match_refl in E; [discriminate | assumption].
  Qed.

  Lemma set_keys (d : list (K * V)) k v : forall k', In k' (map fst (set d k v)) -> k' = k \/ In k' (map fst d).
  Proof.
    induction d as [|[k0 x] t IH]; simpl; intros k' H.
    - destruct H as [H|[]]; auto.
    - destruct (slot_match khash ksame keq k0 k); simpl in H |- *.
      + destruct H; auto.
      + destruct H as [H|H]; [auto|]. destruct (IH k' H); auto.
  Qed.

  Lemma set_ok (d : list (K * V)) k v : dict_ok d -> D k -> dict_ok (set d k v).
  Proof.
    intros [Hd Hn] Hk. split; [apply dict_set_keys; assumption|].
    induction d as [|[k0 x] t IH]; simpl.
    - constructor; [tauto | constructor].
    - inversion Hd as [|? ? Hk0 Ht]; subst. cbn [fst] in Hk0. inversion Hn as [|? ? Hnot Hnt]; subst.
      destruct (slot_match khash ksame keq k0 k) eqn:E; simpl.
      + constructor; assumption.
      + constructor; [|apply IH; assumption]. intros Hin. destruct (set_keys t k v k0 Hin) as [H|H]; [|tauto].
        subst. rewrite match_refl in E; [discriminate | assumption].
  Qed.

  Lemma del_keys (d : list (K * V)) k : forall k', In k' (map fst (del d k)) -> In k' (map fst d).
  Proof.
    induction d as [|[k0 x] t IH]; simpl; intros k' H; [exact H|].
    destruct (slot_match khash ksame keq k0 k); simpl in H |- *; [auto|]. destruct H; auto.
  Qed.

  Lemma del_ok (d : list (K * V)) k : dict_ok d -> dict_ok (del d k).
  Proof.
    intros [Hd Hn]. induction d as [|[k0 x] t IH]; simpl; [split; assumption|].
    inversion Hd as [|? ? Hk0 Ht]; subst. inversion Hn as [|? ? Hnot Hnt]; subst.
    destruct (slot_match khash ksame keq k0 k); [split; assumption|].
    destruct (IH Ht Hnt) as [H1 H2]. split; [constructor; assumption|].
    simpl. constructor; [|exact H2]. intros Hin. apply Hnot. eapply del_keys; eauto.
  Qed.

  Lemma get_del_same (d : list (K * V)) k : dict_ok d -> D k -> get (del d k) k = None.
  Proof.
    intros [Hd Hn] Hk. induction d as [|[k0 x] t IH]; simpl; [reflexivity|].
    inversion Hd as [|? ? Hk0 Ht]; subst. cbn [fst] in Hk0. inversion Hn as [|? ? Hnot Hnt]; subst.
    destruct (slot_match khash ksame keq k0 k) eqn:E.
    - assert (k0 = k) by (apply match_same; auto). subst k0.
      destruct (get t k) eqn:G; [|reflexivity]. exfalso. apply Hnot.
      assert (In (k, v) t) by (apply (get_in t k v); [split; assumption | assumption | exact G]).
      change k with (fst (k, v)). apply in_map; assumption.
    - simpl. rewrite E. apply IH; assumption.
  Qed.

  Lemma get_del_other (d : list (K * V)) k k' : dict_ok d -> D k -> D k' -> k <> k' -> get (del d k) k' = get d k'.
  Proof.
    intros [Hd Hn] Hk Hk' Hne. induction d as [|[k0 x] t IH]; simpl; [reflexivity|].
    inversion Hd as [|? ? Hk0 Ht]; subst. cbn [fst] in Hk0. inversion Hn as [|? ? Hnot Hnt]; subst.
    destruct (slot_match khash ksame keq k0 k) eqn:E.
    - assert (k0 = k) by (apply match_same; auto). subst k0.
      destruct (slot_match khash ksame keq k k') eqn:E'; [|reflexivity].
      exfalso; apply Hne; apply match_same; auto.
    - simpl. destruct (slot_match khash ksame keq k0 k'); [reflexivity | apply IH; assumption].
  Qed.
End DictMap.

(* ---- dir(module): a sorted permutation of the namespace ---------------------------------------------------- *)
Definition attr_le (x y : string * species) : Prop := String.leb (fst x) (fst y) = true.

Lemma insert_attr_perm x l : Permutation (insert_attr x l) (x :: l).
Proof.
  induction l as [|y t IH]; simpl; [reflexivity|].
  destruct (String.leb (fst x) (fst y)); [reflexivity|].
  rewrite IH. apply perm_swap.
Qed.

Lemma dir_sorted_perm en : Permutation (dir_sorted en) en.
Proof.
  unfold dir_sorted. induction en as [|x t IH]; simpl; [reflexivity|].
  rewrite insert_attr_perm. constructor; exact IH.
Qed.

Lemma insert_attr_hd x a l : attr_le a x -> HdRel attr_le a l -> HdRel attr_le a (insert_attr x l).
Proof.
  intros Hax H. destruct l as [|y t]; simpl; [constructor; exact Hax|].
  destruct (String.leb (fst x) (fst y)); constructor; [exact Hax | inversion H; assumption].
Qed.

Lemma insert_attr_sorted x l : Sorted attr_le l -> Sorted attr_le (insert_attr x l).
Proof.
  induction l as [|y t IH]; simpl; intros H; [repeat constructor|].
  destruct (String.leb (fst x) (fst y)) eqn:E.
  - constructor; [exact H | constructor; exact E].
  - inversion H as [|? ? Hs Hh]; subst. constructor; [apply IH; exact Hs|].
    apply insert_attr_hd; [|exact Hh]. unfold attr_le.
    destruct (String.leb_total (fst x) (fst y)) as [T|T]; [congruence | exact T].
Qed.

Lemma dir_sorted_sorted en : Sorted attr_le (dir_sorted en).
Proof. unfold dir_sorted. induction en as [|x t IH]; simpl; [constructor | apply insert_attr_sorted; exact IH]. Qed.

(* ---- species as keys of a dict with deletion ---------------------------------------------------------------- *)
Section SpeciesDictMap.
  Context (r : registry) (W : wf r = true) (khash : species -> Z) (ksame : species -> species -> bool).
  Hypothesis same_refl : forall a, ksame a a = true.
  Hypothesis same_id : forall a b, ksame a b = true -> a = b.
  Let D (o : species) := In o (all_species r).

  Lemma sm_refl k : D k -> slot_match khash ksame py_eq k k = true.
  Proof. intros _. unfold slot_match. rewrite Z.eqb_refl, same_refl. reflexivity. Qed.

  Lemma sm_same a b : D a -> D b -> slot_match khash ksame py_eq a b = true -> a = b.
  Proof.
    intros Ha Hb. unfold slot_match. rewrite andb_true_iff, orb_true_iff. intros [_ [H|H]].
    - apply same_id; exact H.
    - eapply eq_implies_same; eauto.
  Qed.

  Lemma species_dict_map V (d : list (species * V)) k : dict_ok D d -> D k ->
    (forall v, dict_get khash ksame py_eq d k = Some v <-> In (k, v) d)
    /\ dict_get khash ksame py_eq (dict_del khash ksame py_eq d k) k = None
    /\ (forall k', D k' -> k <> k' ->
        dict_get khash ksame py_eq (dict_del khash ksame py_eq d k) k' = dict_get khash ksame py_eq d k')
    /\ dict_ok D (dict_del khash ksame py_eq d k)
    /\ (forall v, dict_ok D (dict_set khash ksame py_eq d k v)).
  Proof.
    intros Hd Hk. pose proof sm_refl as R. pose proof sm_same as S. repeat split.
    - apply (get_in khash ksame py_eq D R S d k v Hd Hk).
    - apply (get_in khash ksame py_eq D R S d k v Hd Hk).
    - eapply get_del_same; eauto.
    - intros k' Hk' Hne. eapply get_del_other; eauto.
    - eapply del_ok; eauto.
    - eapply del_ok; eauto.
    - eapply set_ok; eauto.
    - eapply set_ok; eauto.
  Qed.
End SpeciesDictMap.

(* ---- argument-validation policy of the constructors (Model/C19_Args.v) ------------------------------------- *)
Lemma conv_int_range v z : conv_int v = Done z -> in_int z = true.
Proof.
  destruct v; simpl; try discriminate.
  - destruct (in_int z0) eqn:E; [|discriminate]. intros H; inversion H; subst; exact E.
  - destruct b; intros H; inversion H; reflexivity.
  - destruct (in_int (trunc q)) eqn:E; [|discriminate]. intros H; inversion H; subst; exact E.
Qed.

(* whatever is passed to Element(...): if an object is built, its atomic number fits a C int, its name and
   symbol are the str arguments and nothing else was accepted in their place *)
Lemma element_init_sound args e : element_init_py args = Done e ->
  in_int (e_Z e) = true /\ exists n s zv wv, args = [PStr n; PStr s; zv; wv] /\ e_name e = n /\ e_symbol e = s
                                         /\ conv_int zv = Done (e_Z e) /\ conv_double wv = Done (e_weight e).
Proof.
  unfold element_init_py, convert_args, element_init_sig.
  destruct args as [|a [|b [|c [|d [|x t]]]]]; try discriminate.
  cbn [List.length Nat.eqb negb pass1 conv_c].
  destruct (conv_int c) as [z| |] eqn:Ci; destruct (conv_double d) as [w| |] eqn:Cd;
    destruct a; destruct b; cbn; try discriminate.
  intros HH. inversion HH; subst. cbn. split; [eapply conv_int_range; eauto|].
  do 4 eexists. repeat split; eauto.
Qed.

Lemma new_line_ok o c tr l : new_line o c tr = Ok l -> l = mkLine o c tr /\ 0 <= c <= species_Z o - 1.
Proof.
  unfold new_line. destruct (Z.gtb_spec c (species_Z o - 1)); [discriminate|].
  destruct (Z.ltb_spec c 0); [discriminate|]. intros E; inversion E. split; [reflexivity | lia].
Qed.

(* whatever is passed to Line(...): if a line is built, 0 <= charge <= Z - 1 for its species *)
Lemma line_init_sound args l : line_init_py args = Done l ->
  0 <= l_charge l <= species_Z (l_element l) - 1 /\ in_int (l_charge l) = true.
Proof.
  unfold line_init_py.
  destruct args as [|a [|c [|t [|x r]]]];
    try solve [destruct (convert_args line_init_sig _); discriminate
              | destruct a; destruct (convert_args line_init_sig _); discriminate].
  destruct a; try solve [destruct (convert_args line_init_sig _); discriminate].
  unfold convert_args, line_init_sig. cbn [List.length Nat.eqb negb pass1 conv_c].
  destruct (conv_int c) as [z| |] eqn:Ci; cbn; try solve [destruct o; destruct t; cbn; discriminate].
  destruct o as [e|i]; destruct t; cbn; try discriminate.
  + destruct (new_line (SE e) z l0) eqn:N; [|discriminate]. intros HH; inversion HH; subst.
    apply new_line_ok in N. destruct N as [-> N]. cbn. split; [exact N | eapply conv_int_range; eauto].
  + destruct (new_line (SI i) z l0) eqn:N; [|discriminate]. intros HH; inversion HH; subst.
    apply new_line_ok in N. destruct N as [-> N]. cbn. split; [exact N | eapply conv_int_range; eauto].
Qed.

Lemma element_init_complete n s z w : in_int z = true ->
  element_init_py [PStr n; PStr s; PInt z; PFloat w] = Done (new_element n s z w).
Proof. intros H. unfold element_init_py, convert_args, element_init_sig. cbn. rewrite H. reflexivity. Qed.

Lemma isotope_init_complete n s el a w : in_int a = true ->
  isotope_init_py [PStr n; PStr s; PSpecies (SE el); PInt a; PFloat w] = Done (new_isotope n s el a w).
Proof. intros H. unfold isotope_init_py, convert_args, isotope_init_sig. cbn. rewrite H. reflexivity. Qed.
