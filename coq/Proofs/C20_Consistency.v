(* Second-order consistency of the ADMT discretisation: in interior cells, for a QUADRATIC flux map and a
   QUADRATIC field f, the operator row applied to f equals sqrt(dx dy) times
     c_x f_x + c_y f_y + c_xx f_xx + 2 c_xy f_xy + c_yy f_yy
   evaluated with the EXACT derivatives of psi and f at the cell centre, i.e. (by admt_divergence_form)
   exactly div(D grad f) in cylindrical geometry at that point. *)
Require Import Cherab.Common.Qx.
Require Import Cherab.Model.C20_Stencil Cherab.Model.C20_Admt.
Require Import Cherab.Proofs.C20_Stencil Cherab.Proofs.C20_Admt.
Open Scope Q_scope.

Definition jet_eq (j k : jet) : Prop :=
  px j == px k /\ py j == py k /\ pxx j == pxx k /\ pxy j == pxy k /\ pyy j == pyy k /\
  dperp j == dperp k /\ dpar j == dpar k /\ dperp_x j == dperp_x k /\ dperp_y j == dperp_y k /\
  dpar_x j == dpar_x k /\ dpar_y j == dpar_y k /\ rad j == rad k.

Lemma coeffs_proper j k : jet_eq j k ->
  c_x j == c_x k /\ c_y j == c_y k /\ c_xx j == c_xx k /\ c_xy j == c_xy k /\ c_yy j == c_yy k.
Proof.
  intros (E1 & E2 & E3 & E4 & E5 & E6 & E7 & E8 & E9 & E10 & E11 & E12).
  destruct j as [a b axx axy ayy dp dl dpx dpy dlx dly r], k as [a' b' axx' axy' ayy' dp' dl' dpx' dpy' dlx' dly' r'].
  unfold c_x, c_y, c_xx, c_yy, c_xy, ddiff_term_cx, dnorm_term_cx, ddiff_term_cy, dnorm_term_cy,
         toroidal_term_cx, toroidal_term_cy, c_xx, c_xy, normalisation in *; cbn in *.
  rewrite E1, E2, E3, E4, E5, E6, E7, E8, E9, E10, E11, E12. repeat split; reflexivity.
Qed.

Section Grid.
  Variables nx ny ix iy : Z.
  Hypothesis Hnx : (2 <= nx)%Z.
  Hypothesis Hny : (2 <= ny)%Z.
  Hypothesis Hix : (0 < ix < nx - 1)%Z.      (* interior in x and in y *)
  Hypothesis Hiy : (0 < iy < ny - 1)%Z.
  Variables dx dy : Q.
  Hypothesis Hdx : ~ dx == 0.
  Hypothesis Hdy : ~ dy == 0.
  Variables x0 y0 : Q.

  Let X := xc x0 dx ix.
  Let Y := yc y0 dy iy.

  Ltac norm_coords :=
    unfold X, Y, xc, yc; rewrite ?inject_Z_plus;
    change (inject_Z (-1)) with (-1 # 1)%Q; change (inject_Z 1) with (1 # 1)%Q;
    change (inject_Z 0) with (0 # 1)%Q.
  Ltac solve_stencil :=
    unfold op_row, raw_Dx, raw_Dy, raw_Dxx, raw_Dyy, raw_Dxy; split_has; red_stencil; norm_coords;
    field; auto.

  (* centred differences are exact on quadratics in interior cells *)
  Lemma Dx_quad a b c d e g :
    apply (op_row ODx nx ny ix iy dx dy) (quad dx dy x0 y0 a b c d e g) ix iy == b + 2 * d * X + e * Y.
  Proof. unfold quad. solve_stencil. Qed.
  Lemma Dy_quad a b c d e g :
    apply (op_row ODy nx ny ix iy dx dy) (quad dx dy x0 y0 a b c d e g) ix iy == c + e * X + 2 * g * Y.
  Proof. unfold quad. solve_stencil. Qed.
  Lemma Dxy_quad a b c d e g :
    apply (op_row ODxy nx ny ix iy dx dy) (quad dx dy x0 y0 a b c d e g) ix iy == e.
  Proof. unfold quad. solve_stencil. Qed.
  Lemma Dxx_quad a b c d e g :
    apply (op_row ODxx nx ny ix iy dx dy) (quad dx dy x0 y0 a b c d e g) ix iy == 2 * d.
  Proof. unfold quad. solve_stencil. Qed.
  Lemma Dyy_quad a b c d e g :
    apply (op_row ODyy nx ny ix iy dx dy) (quad dx dy x0 y0 a b c d e g) ix iy == 2 * g.
  Proof. unfold quad. solve_stencil. Qed.

  (* the exact jet of a quadratic flux map at the cell centre, for uniform D_perp = 1/aniso, D_par = 1 *)
  Definition exact_jet (a b c d e g aniso r : Q) : jet :=
    {| px := b + 2 * d * X + e * Y; py := c + e * X + 2 * g * Y; pxx := 2 * d; pxy := e; pyy := 2 * g;
       dperp := 1 / aniso; dpar := 1; dperp_x := 0; dperp_y := 0; dpar_x := 0; dpar_y := 0; rad := r |}.

  Lemma jet_of_quadratic a b c d e g aniso r :
    jet_eq (jet_of (quad dx dy x0 y0 a b c d e g) aniso r nx ny ix iy dx dy) (exact_jet a b c d e g aniso r).
  Proof.
    assert (Hc : forall o k, apply (op_row o nx ny ix iy dx dy) (fun _ _ => k) ix iy == 0).
    { intros; apply const_annihilated; auto; lia. }
    unfold jet_eq, jet_of, exact_jet; cbn [px py pxx pxy pyy dperp dpar dperp_x dperp_y dpar_x dpar_y rad].
    repeat split; try reflexivity; try apply Hc.
    - apply Dx_quad. - apply Dy_quad. - apply Dxx_quad. - apply Dxy_quad. - apply Dyy_quad.
  Qed.

  (* the operator row applied to a quadratic field is the exact second-order differential expression *)
  Lemma admt_exact_on_quadratics a b c d e g aniso r s fa fb fc fd fe fg :
    let J := exact_jet a b c d e g aniso r in
    apply (admt_row (jet_of (quad dx dy x0 y0 a b c d e g) aniso r nx ny ix iy dx dy) nx ny ix iy dx dy s)
          (quad dx dy x0 y0 fa fb fc fd fe fg) ix iy ==
    (c_x J * (fb + 2 * fd * X + fe * Y) + c_y J * (fc + fe * X + 2 * fg * Y)
     + c_xx J * (2 * fd) + 2 * c_xy J * fe + c_yy J * (2 * fg)) * s.
  Proof.
    intros J.
    rewrite (apply_admt_row nx ny ix iy dx dy).
    destruct (coeffs_proper _ _ (jet_of_quadratic a b c d e g aniso r)) as (E1 & E2 & E3 & E4 & E5).
    fold J in E1, E2, E3, E4, E5.
    rewrite E1, E2, E3, E4, E5, Dx_quad, Dy_quad, Dxx_quad, Dxy_quad, Dyy_quad. reflexivity.
  Qed.
End Grid.

(* ... which is div (D grad f) in cylindrical geometry at the cell centre, by the divergence form *)
Lemma admt_exact_on_quadratics_div_form nx ny ix iy dx dy x0 y0 a b c d e g aniso r s fa fb fc fd fe fg :
  (2 <= nx)%Z -> (2 <= ny)%Z -> (0 < ix < nx - 1)%Z -> (0 < iy < ny - 1)%Z -> ~ dx == 0 -> ~ dy == 0 ->
  let X := xc x0 dx ix in let Y := yc y0 dy iy in
  let J := exact_jet ix iy dx dy x0 y0 a b c d e g aniso r in
  ~ normalisation J == 0 -> ~ r == 0 ->
  apply (admt_row (jet_of (quad dx dy x0 y0 a b c d e g) aniso r nx ny ix iy dx dy) nx ny ix iy dx dy s)
        (quad dx dy x0 y0 fa fb fc fd fe fg) ix iy ==
  (eval J div_cx * (fb + 2 * fd * X + fe * Y) + eval J div_cy * (fc + fe * X + 2 * fg * Y)
   + eval J eDxx * (2 * fd) + 2 * eval J eDxy * fe + eval J eDyy * (2 * fg)) * s.
Proof.
  intros Hnx Hny Hix Hiy Hdx Hdy X Y J HN Hr.
  rewrite (admt_exact_on_quadratics nx ny ix iy Hnx Hny Hix Hiy dx dy Hdx Hdy x0 y0).
  fold J X Y.
  destruct (admt_divergence_form J HN) as (E1 & E2 & E3 & E4 & E5); [exact Hr|].
  rewrite E1, E2, E3, E4, E5. reflexivity.
Qed.
