(* C04: line density along the axis, on-axis monotonicity, zero set, factorisation, flux.
   sqrt and exp are arbitrary functions with the listed hypotheses. *)
Require Import Cherab.Common.Qx.
From Coq Require Import Lqa.
Require Import Cherab.Model.C04_Beam Cherab.Proofs.C04_Stopping Cherab.Proofs.C04_Trapz.
Open Scope Q_scope.

Lemma Qltb_false a b : b <= a -> Qltb a b = false.
Proof. intros H. unfold Qltb. apply Qle_bool_iff in H. rewrite H. reflexivity. Qed.
Lemma Qltb_true a b : a < b -> Qltb a b = true.
Proof.
  intros H. unfold Qltb. destruct (Qle_bool b a) eqn:E; [|reflexivity]. apply Qle_bool_iff in E. lra.
Qed.

Lemma sqr_nonneg (a : Q) : 0 <= a * a.
Proof.
  destruct (Qlt_le_dec a 0) as [H|H].
  - setoid_replace (a * a) with ((- a) * (- a)) by ring. apply Qmult_le_0_compat; lra.
  - apply Qmult_le_0_compat; exact H.
Qed.

Lemma mul_le_mono a a' b b' : 0 <= a -> a <= a' -> 0 <= b -> b <= b' -> a * b <= a' * b'.
Proof.
  intros Ha Haa Hb Hbb.
  assert (H1 : 0 <= (a' - a) * b) by (apply Qmult_le_0_compat; lra).
  assert (H2 : 0 <= a' * (b' - b)) by (apply Qmult_le_0_compat; lra).
  setoid_replace ((a' - a) * b) with (a' * b - a * b) in H1 by ring.
  setoid_replace (a' * (b' - b)) with (a' * b' - a' * b) in H2 by ring. lra.
Qed.

Lemma frac_le a a' b b' : 0 <= a -> a' <= a -> 0 < b -> b <= b' -> a' / b' <= a / b.
Proof.
  intros Ha Haa Hb Hbb. assert (Hb' : 0 < b') by lra.
  apply Qle_trans with (a / b').
  - unfold Qdiv. apply Qmult_le_compat_r; [exact Haa|]. apply Qlt_le_weak, Qinv_lt_0_compat; exact Hb'.
  - apply Qle_shift_div_l; [exact Hb|].
    setoid_replace (a / b' * b) with (a * b / b') by (field; lra).
    apply Qle_shift_div_r; [exact Hb'|].
    assert (H : 0 <= a * (b' - b)) by (apply Qmult_le_0_compat; lra).
    setoid_replace (a * (b' - b)) with (a * b' - a * b) in H by ring. lra.
Qed.

Lemma chain_weaken (R R' : Q -> Q -> Prop) : (forall a b, R a b -> R' a b) ->
  forall l x, chain R x l -> chain R' x l.
Proof.
  intros H l; induction l as [|y l IH]; intros x Hc; cbn [chain] in *; [exact I|].
  destruct Hc as [A B]. split; [apply H; exact A | apply IH; exact B].
Qed.

Lemma chain_seq (f : nat -> Q) : (forall i, f i < f (S i)) ->
  forall k a, chain Qlt (f a) (map f (seq (S a) k)).
Proof.
  intros Hf k; induction k as [|k IH]; intros a; cbn [seq map chain]; [exact I|].
  split; [apply Hf | apply IH].
Qed.

(* ---- the axis nodes are strictly increasing, for any node count >= 2 ---- *)
Lemma beam_z_increasing c n : 0 < b_len c -> (2 <= n)%Z -> chained Qlt (beam_z_n c n).
Proof.
  intros Hlen Hn. unfold beam_z_n, Zseq. rewrite map_map.
  destruct (Z.to_nat n) as [|k] eqn:E; [exact I|]. cbn [seq map chained].
  apply (chain_seq (fun i => node_z c n (Z.of_nat i))). intros i. unfold node_z.
  rewrite !Qred_correct. unfold Qdiv. apply Qmult_lt_compat_r.
  - apply Qinv_lt_0_compat. change 0 with (inject_Z 0). rewrite <- Zlt_Qlt. lia.
  - rewrite Nat2Z.inj_succ. unfold Z.succ. rewrite inject_Z_plus.
    setoid_replace (b_len c * (inject_Z (Z.of_nat i) + inject_Z 1)) with (b_len c * inject_Z (Z.of_nat i) + b_len c) by ring.
    lra.
Qed.

Lemma beam_z_nonempty c n : (2 <= n)%Z -> beam_z_n c n <> [].
Proof.
  intros Hn. unfold beam_z_n, Zseq. destruct (Z.to_nat n) as [|k] eqn:E; [lia|]. cbn [seq map]. discriminate.
Qed.

Section Density.
  Variables sqrtf expf : Q -> Q.
  Hypothesis sqrt_pos : forall x, 0 < x -> 0 < sqrtf x.
  Hypothesis sqrt_mono : forall x y, 0 < x -> x <= y -> sqrtf x <= sqrtf y.
  Hypothesis exp_nonneg : forall x, 0 <= expf x.
  Hypothesis exp_mono : forall x y, x <= y -> expf x <= expf y.
  Hypothesis exp_proper : forall x y, x == y -> expf x == expf y.

  Variable c : beam_cfg.
  Hypothesis Hsig : 0 < b_sigma c.
  Hypothesis Hlen : 0 < b_len c.
  Hypothesis Hpi : 0 < k_pi c.
  Hypothesis HP : 0 <= b_power c.
  Hypothesis HE : 0 < b_energy c.
  Hypothesis Hm : 0 < b_mass c.
  Hypothesis Hec : 0 < k_ec c.
  Hypothesis Hcf : 0 < k_cf c.

  Lemma speed_pos : 0 < speed sqrtf c.
  Proof. unfold speed. apply sqrt_pos. apply Qmult_lt_0_compat; assumption. Qed.

  Lemma source_density_nonneg : 0 <= source_density sqrtf c.
  Proof.
    unfold source_density, particle_rate, Qdiv. pose proof speed_pos.
    apply Qmult_le_0_compat; [apply Qmult_le_0_compat; [exact HP|] |]; apply Qlt_le_weak, Qinv_lt_0_compat.
    - repeat apply Qmult_lt_0_compat; assumption.
    - assumption.
  Qed.

  (* a larger exponent gives a smaller line density *)
  Lemma line_of_antitone T T' : T <= T' -> line_of sqrtf expf c T' <= line_of sqrtf expf c T.
  Proof.
    intros H. unfold line_of. pose proof speed_pos as Hv. pose proof source_density_nonneg as Hn.
    assert (Hd : T / speed sqrtf c <= T' / speed sqrtf c).
    { unfold Qdiv. apply Qmult_le_compat_r; [exact H|]. apply Qlt_le_weak, Qinv_lt_0_compat; exact Hv. }
    assert (He : expf (- (T' / speed sqrtf c)) <= expf (- (T / speed sqrtf c))) by (apply exp_mono; lra).
    apply mul_le_mono; [exact Hn | lra | apply exp_nonneg | exact He].
  Qed.

  Variable n : Z.
  Hypothesis Hn : (2 <= n)%Z.

  Let nodes := line_nodes_n sqrtf expf c n.

  Lemma line_values_nonneg : Forall (fun zy => 0 <= snd zy) nodes.
  Proof.
    unfold nodes, line_nodes_n. apply Forall_combine_snd. apply Forall_forall. intros y Hy.
    apply in_map_iff in Hy. destruct Hy as (T & <- & _). unfold line_of.
    apply Qmult_le_0_compat; [apply source_density_nonneg | apply exp_nonneg].
  Qed.

  Lemma nodes_sorted : nodes_list_ok (fun _ _ => True) nodes.
  Proof.
    unfold nodes, line_nodes_n. apply nodes_list_ok_combine; [apply beam_z_increasing; assumption | apply chained_True].
  Qed.

  Lemma nodes_nonempty : nodes <> [].
  Proof.
    unfold nodes, line_nodes_n, stopping_nodes_n. pose proof (beam_z_nonempty c n Hn) as H.
    destruct (beam_z_n c n) as [|z0 zs]; [congruence|]. cbn [map cumtrapz combine]. discriminate.
  Qed.

  Section Decay.
    (* the composite stopping coefficient is non-negative at every axis point *)
    Hypothesis Hstop : forall z, 0 <= stopping_at sqrtf c z.

    Lemma exponents_nondecreasing : chained Qle (cumtrapz (stopping_nodes_n sqrtf c n)).
    Proof.
      apply cumtrapz_monotone.
      - unfold stopping_nodes_n. rewrite map_map. cbn [fst]. rewrite map_id.
        pose proof (beam_z_increasing c n Hlen Hn) as H. destruct (beam_z_n c n) as [|z0 zs]; [exact I|].
        cbn [chained] in *. apply (chain_weaken Qlt Qle); [intros; lra | exact H].
      - unfold stopping_nodes_n. apply Forall_forall. intros zs Hzs. apply in_map_iff in Hzs.
        destruct Hzs as (z & <- & _). cbn [snd]. apply Hstop.
    Qed.

    Lemma nodes_nonincreasing : nodes_list_ok Qger nodes.
    Proof.
      unfold nodes, line_nodes_n. apply nodes_list_ok_combine; [apply beam_z_increasing; assumption|].
      pose proof exponents_nondecreasing as H.
      destruct (cumtrapz (stopping_nodes_n sqrtf c n)) as [|T0 Ts]; [exact I|]. cbn [map chained] in *.
      apply (chain_map Qle Qger (line_of sqrtf expf c)); [|exact H].
      intros a b Hab. unfold Qger. apply line_of_antitone; exact Hab.
    Qed.

    (* line density (cross-section integrated density) never increases along z *)
    Lemma line_density_nonincreasing z z' : z <= z' -> lin_interp nodes z' <= lin_interp nodes z.
    Proof. intros H. apply lin_interp_monotone; [apply nodes_nonincreasing | exact H]. Qed.
  End Decay.

  Lemma line_density_nonneg z : 0 <= lin_interp nodes z.
  Proof. apply lin_interp_nonneg; [apply nodes_sorted | apply line_values_nonneg]. Qed.

  (* ---- beam widths ---- *)
  Lemma width_arg_pos t z : 0 < b_sigma c * b_sigma c + (z * t) * (z * t).
  Proof. pose proof (sqr_nonneg (z * t)). assert (0 < b_sigma c * b_sigma c) by (apply Qmult_lt_0_compat; assumption). lra. Qed.

  Lemma width_arg_mono t z z' : 0 <= z -> z <= z' ->
    b_sigma c * b_sigma c + (z * t) * (z * t) <= b_sigma c * b_sigma c + (z' * t) * (z' * t).
  Proof.
    intros H0 H.
    assert (E : forall u, (u * t) * (u * t) == (u * u) * (t * t)) by (intros; ring).
    rewrite !E. assert (Hzz : z * z <= z' * z') by (apply mul_le_mono; lra).
    pose proof (sqr_nonneg t) as Ht.
    assert (H1 : 0 <= (z' * z' - z * z) * (t * t)) by (apply Qmult_le_0_compat; lra).
    setoid_replace ((z' * z' - z * z) * (t * t)) with (z' * z' * (t * t) - z * z * (t * t)) in H1 by ring. lra.
  Qed.

  Lemma sigma_x_pos z : 0 < sigma_x sqrtf c z.
  Proof. unfold sigma_x. apply sqrt_pos, width_arg_pos. Qed.
  Lemma sigma_y_pos z : 0 < sigma_y sqrtf c z.
  Proof. unfold sigma_y. apply sqrt_pos, width_arg_pos. Qed.
  Lemma sigma_x_mono z z' : 0 <= z -> z <= z' -> sigma_x sqrtf c z <= sigma_x sqrtf c z'.
  Proof. intros. unfold sigma_x. apply sqrt_mono; [apply width_arg_pos | apply width_arg_mono; assumption]. Qed.
  Lemma sigma_y_mono z z' : 0 <= z -> z <= z' -> sigma_y sqrtf c z <= sigma_y sqrtf c z'.
  Proof. intros. unfold sigma_y. apply sqrt_mono; [apply width_arg_pos | apply width_arg_mono; assumption]. Qed.

  (* ---- zero set ---- *)
  Lemma zero_before_source nd x y z : z < 0 -> beam_density_with sqrtf expf nd c x y z = 0.
  Proof. intros H. unfold beam_density_with. rewrite (Qltb_true z 0 H). reflexivity. Qed.

  Lemma zero_beyond_length nd x y z : b_len c < z -> beam_density_with sqrtf expf nd c x y z = 0.
  Proof. intros H. unfold beam_density_with. rewrite (Qltb_true (b_len c) z H), orb_true_r. reflexivity. Qed.

  Lemma zero_outside_clamp nd x y z :
    a_clamp c = true ->
    a_clamp_sigma c * a_clamp_sigma c <
      (x / sigma_x sqrtf c z) * (x / sigma_x sqrtf c z) + (y / sigma_y sqrtf c z) * (y / sigma_y sqrtf c z) ->
    beam_density_with sqrtf expf nd c x y z = 0.
  Proof.
    intros Hc H. unfold beam_density_with. destruct (Qltb z 0 || Qltb (b_len c) z); [reflexivity|].
    unfold attenuator_density_with, density_core. rewrite Hc. cbn [andb].
    rewrite Qltb_true; [reflexivity|]. unfold clamp_sigma_sqr, norm_radius_sqr_of. rewrite Qred_correct. exact H.
  Qed.

  (* ---- inside [0, length] and not clamped: density = line(z) * g2(x/sx, y/sy) / (sx sy) ---- *)
  Definition g2 : Q -> Q -> Q := gauss2 expf c.

  Lemma density_inside nd x y z : 0 <= z -> z <= b_len c ->
    a_clamp c && Qltb (clamp_sigma_sqr c) (norm_radius_sqr sqrtf c x y z) = false ->
    beam_density_with sqrtf expf nd c x y z ==
    lin_interp nd z * (g2 (x / sigma_x sqrtf c z) (y / sigma_y sqrtf c z) / (sigma_x sqrtf c z * sigma_y sqrtf c z)).
  Proof.
    intros H0 H1 Hc. unfold beam_density_with. rewrite (Qltb_false z 0 H0), (Qltb_false (b_len c) z H1). cbn [orb].
    unfold attenuator_density_with, density_core. unfold norm_radius_sqr in Hc. rewrite Hc.
    unfold gaussian_of, g2, gauss2. pose proof (sigma_x_pos z). pose proof (sigma_y_pos z).
    rewrite (exp_proper (- (1 # 2) * norm_radius_sqr_of (sigma_x sqrtf c z) (sigma_y sqrtf c z) x y)
                        (- (1 # 2) * (x / sigma_x sqrtf c z * (x / sigma_x sqrtf c z) + y / sigma_y sqrtf c z * (y / sigma_y sqrtf c z)))).
    - field. repeat split; lra.
    - unfold norm_radius_sqr_of. rewrite Qred_correct. reflexivity.
  Qed.

  (* on the axis the clamp never applies *)
  Lemma on_axis_not_clamped z :
    a_clamp c && Qltb (clamp_sigma_sqr c) (norm_radius_sqr sqrtf c 0 0 z) = false.
  Proof.
    rewrite Qltb_false; [apply andb_false_r|].
    unfold norm_radius_sqr, norm_radius_sqr_of, clamp_sigma_sqr. rewrite Qred_correct.
    pose proof (sqr_nonneg (a_clamp_sigma c)) as H. pose proof (sigma_x_pos z). pose proof (sigma_y_pos z).
    setoid_replace (0 / sigma_x sqrtf c z * (0 / sigma_x sqrtf c z) + 0 / sigma_y sqrtf c z * (0 / sigma_y sqrtf c z)) with 0
      by (field; split; lra).
    exact H.
  Qed.

  Lemma on_axis_value z : 0 <= z -> z <= b_len c ->
    beam_density_with sqrtf expf nodes c 0 0 z ==
    lin_interp nodes z * expf 0 / (2 * k_pi c * sigma_x sqrtf c z * sigma_y sqrtf c z).
  Proof.
    intros H0 H1. rewrite (density_inside nodes 0 0 z H0 H1 (on_axis_not_clamped z)).
    unfold g2, gauss2. pose proof (sigma_x_pos z). pose proof (sigma_y_pos z).
    rewrite (exp_proper (- (1 # 2) * (0 / sigma_x sqrtf c z * (0 / sigma_x sqrtf c z) + 0 / sigma_y sqrtf c z * (0 / sigma_y sqrtf c z))) 0)
      by (field; split; lra).
    field. repeat split; lra.
  Qed.

  Lemma density_nonneg_on_axis z : 0 <= beam_density_with sqrtf expf nodes c 0 0 z.
  Proof.
    destruct (Qlt_le_dec z 0) as [Hz|Hz]; [rewrite zero_before_source by exact Hz; lra|].
    destruct (Qlt_le_dec (b_len c) z) as [Hl|Hl]; [rewrite zero_beyond_length by exact Hl; lra|].
    rewrite (on_axis_value z Hz Hl). pose proof (sigma_x_pos z). pose proof (sigma_y_pos z).
    unfold Qdiv. apply Qmult_le_0_compat.
    - apply Qmult_le_0_compat; [apply line_density_nonneg | apply exp_nonneg].
    - apply Qlt_le_weak, Qinv_lt_0_compat. repeat apply Qmult_lt_0_compat; lra.
  Qed.

  (* ---- on-axis density never increases with z (for z >= 0: in front of the source) ---- *)
  Lemma on_axis_nonincreasing :
    (forall z, 0 <= stopping_at sqrtf c z) ->
    forall z z', 0 <= z -> z <= z' ->
    beam_density_with sqrtf expf nodes c 0 0 z' <= beam_density_with sqrtf expf nodes c 0 0 z.
  Proof.
    intros Hstop z z' H0 Hzz.
    destruct (Qlt_le_dec (b_len c) z') as [Hl'|Hl'].
    { rewrite (zero_beyond_length nodes 0 0 z' Hl'). apply density_nonneg_on_axis. }
    assert (Hl : z <= b_len c) by lra. assert (H0' : 0 <= z') by lra.
    rewrite (on_axis_value z H0 Hl), (on_axis_value z' H0' Hl').
    pose proof (sigma_x_pos z). pose proof (sigma_y_pos z).
    pose proof (sigma_x_mono z z' H0 Hzz). pose proof (sigma_y_mono z z' H0 Hzz).
    apply frac_le.
    - apply Qmult_le_0_compat; [apply line_density_nonneg | apply exp_nonneg].
    - apply Qmult_le_compat_r; [apply line_density_nonincreasing; assumption | apply exp_nonneg].
    - repeat apply Qmult_lt_0_compat; lra.
    - setoid_replace (2 * k_pi c * sigma_x sqrtf c z * sigma_y sqrtf c z)
        with ((2 * k_pi c) * (sigma_x sqrtf c z * sigma_y sqrtf c z)) by ring.
      setoid_replace (2 * k_pi c * sigma_x sqrtf c z' * sigma_y sqrtf c z')
        with ((2 * k_pi c) * (sigma_x sqrtf c z' * sigma_y sqrtf c z')) by ring.
      apply mul_le_mono; [lra | lra | apply Qlt_le_weak, Qmult_lt_0_compat; lra | apply mul_le_mono; lra].
  Qed.

  (* ---- without stopping the line density is the source density at every z ---- *)
  Lemma no_stopping_flat :
    expf 0 == 1 -> (forall z, stopping_at sqrtf c z == 0) ->
    forall z, lin_interp nodes z == source_density sqrtf c.
  Proof.
    intros He Hs z. apply lin_interp_const; [apply nodes_nonempty | apply nodes_sorted|].
    unfold nodes, line_nodes_n. apply (Forall_combine_snd (fun y => y == source_density sqrtf c)).
    assert (HT : Forall (fun T => T == 0) (cumtrapz (stopping_nodes_n sqrtf c n))).
    { apply cumtrapz_zero. unfold stopping_nodes_n. apply Forall_forall. intros zs Hzs.
      apply in_map_iff in Hzs. destruct Hzs as (z1 & <- & _). cbn [snd]. apply Hs. }
    induction HT as [|T Ts HT0 _ IH]; cbn [map]; constructor; [|exact IH].
    unfold line_of. pose proof speed_pos.
    rewrite (exp_proper (- (T / speed sqrtf c)) 0) by (rewrite HT0; field; lra). rewrite He. ring.
  Qed.

  (* ---- flux: an abstract cross-section integral with change of variables and a normalised g2 ---- *)
  Section Flux.
    Variable I2 : (Q -> Q -> Q) -> Q.
    Hypothesis I2_ext : forall f g, (forall x y, f x y == g x y) -> I2 f == I2 g.
    Hypothesis I2_scale : forall k f, I2 (fun x y => k * f x y) == k * I2 f.
    Hypothesis I2_subst : forall g sx sy, 0 < sx -> 0 < sy ->
      I2 (fun x y => g (x / sx) (y / sy) / (sx * sy)) == I2 g.
    Hypothesis I2_gauss : I2 g2 == 1.

    Lemma flux_is_line_density nd z : 0 <= z -> z <= b_len c -> a_clamp c = false ->
      I2 (fun x y => beam_density_with sqrtf expf nd c x y z) == lin_interp nd z.
    Proof.
      intros H0 H1 Hc.
      rewrite (I2_ext _ (fun x y => lin_interp nd z *
                 (g2 (x / sigma_x sqrtf c z) (y / sigma_y sqrtf c z) / (sigma_x sqrtf c z * sigma_y sqrtf c z)))).
      - rewrite I2_scale, (I2_subst g2 _ _ (sigma_x_pos z) (sigma_y_pos z)), I2_gauss. ring.
      - intros x y. apply density_inside; [exact H0 | exact H1 | rewrite Hc; reflexivity].
    Qed.
  End Flux.
End Density.
