(* C13 -- routing wrappers (iso-mapping, swizzle, slice, clamp) and their constructor checks. *)
Require Import Cherab.Common.Qx.
Require Import Cherab.Model.C13_Wrappers.
From Coq Require Import Qabs String Lqa.
Open Scope Q_scope.

(* ---- iso-mapping, swizzle, slice: for every carrier, every wrapped function, every argument ---- *)
Lemma iso2_spec {A B C} (g : B -> C) (f : A -> A -> B) x y : iso2 g f x y = g (f x y).
Proof. reflexivity. Qed.
Lemma iso3_spec {A B C} (g : B -> C) (f : A -> A -> A -> B) x y z : iso3 g f x y z = g (f x y z).
Proof. reflexivity. Qed.
Lemma swizzle2_spec {A B} (f : A -> A -> B) x y : swizzle2 f x y = f y x.
Proof. reflexivity. Qed.

(* the i-th of the three arguments, counted as the docstring does (0 = x, 1 = y, 2 = z) *)
Definition arg3 {A} (i : Z) (x y z : A) : A := nth (Z.to_nat i) [x; y; z] x.

Lemma pick3_arg3 {A} i (x y z : A) : (0 <= i <= 2)%Z -> pick3 i x y z = arg3 i x y z.
Proof.
  intros H. assert (i = 0 \/ i = 1 \/ i = 2)%Z as [-> | [-> | ->]] by lia; reflexivity.
Qed.

Lemma swizzle3_spec {A B} (f : A -> A -> A -> B) s0 s1 s2 x y z :
  (0 <= s0 <= 2)%Z -> (0 <= s1 <= 2)%Z -> (0 <= s2 <= 2)%Z ->
  swizzle3 s0 s1 s2 f x y z = f (arg3 s0 x y z) (arg3 s1 x y z) (arg3 s2 x y z).
Proof. intros. unfold swizzle3. rewrite !pick3_arg3 by assumption. reflexivity. Qed.

(* the constructor accepts exactly the 27 tuples of three selectors in {0,1,2} *)
Lemma swizzle3_validate_spec is_tuple shape :
  swizzle3_validate is_tuple shape = None <->
  is_tuple = true /\ exists a b c, shape = [a; b; c] /\ (0 <= a <= 2)%Z /\ (0 <= b <= 2)%Z /\ (0 <= c <= 2)%Z.
Proof.
  unfold swizzle3_validate. split.
  - destruct (forallb _ shape) eqn:E; cbn [negb]; [| discriminate].
    destruct is_tuple; cbn [andb]; [| discriminate].
    destruct (Z.eqb_spec (Z.of_nat (List.length shape)) 3) as [L |]; [| discriminate]. intros _.
    split; [reflexivity |].
    destruct shape as [| a [| b [| c [| d t]]]]; cbn in L; try lia.
    exists a, b, c. split; [reflexivity |].
    cbn in E. rewrite !andb_true_iff in E. rewrite !Z.leb_le in E. lia.
  - intros (-> & a & b & c & -> & Ha & Hb & Hc). cbn.
    assert (forall i, (0 <= i <= 2)%Z -> ((0 <=? i)%Z && (i <=? 2)%Z = true)%bool) as K
      by (intros; rewrite andb_true_iff, !Z.leb_le; lia).
    rewrite !K by assumption. reflexivity.
Qed.

(* slicing: the fixed value is inserted at position [axis] of the argument list *)
Definition insert_at {A} (axis : Z) (v : A) (l : list A) : list A :=
  firstn (Z.to_nat axis) l ++ v :: skipn (Z.to_nat axis) l.

Lemma slice2_spec {A B} (f : A -> A -> B) axis v x : (0 <= axis <= 1)%Z ->
  forall d, slice2 axis v f x = f (nth 0 (insert_at axis v [x]) d) (nth 1 (insert_at axis v [x]) d).
Proof. intros H d. assert (axis = 0 \/ axis = 1)%Z as [-> | ->] by lia; reflexivity. Qed.

Lemma slice3_spec {A B} (f : A -> A -> A -> B) axis v x y : (0 <= axis <= 2)%Z ->
  forall d, slice3 axis v f x y =
            f (nth 0 (insert_at axis v [x; y]) d) (nth 1 (insert_at axis v [x; y]) d) (nth 2 (insert_at axis v [x; y]) d).
Proof. intros H d. assert (axis = 0 \/ axis = 1 \/ axis = 2)%Z as [-> | [-> | ->]] by lia; reflexivity. Qed.

Lemma slice_validate_range dims a k : (2 <= dims)%Z -> slice_validate dims a = inr k -> (0 <= k < dims)%Z.
Proof.
  intros D. destruct a as [s | z]; cbn.
  - unfold axis_of_name.
    destruct (_ || _)%bool; [intros [= <-]; lia |].
    destruct (_ || _)%bool; [intros [= <-]; lia |].
    destruct (Z.ltb_spec 2 dims); cbn [andb].
    + destruct (_ || _)%bool; [intros [= <-]; lia | discriminate].
    + discriminate.
  - destruct (Z.leb_spec 0 z), (Z.ltb_spec z dims); cbn [andb]; try discriminate.
    intros [= <-]. lia.
Qed.

(* ---- clamping over the rationals ---------------------------------------------------------------------- *)
Lemma Qltb_lt a b : Qltb a b = true <-> a < b.
Proof.
  unfold Qltb. rewrite negb_true_iff. split.
  - intros H. apply Qnot_le_lt. intros L. apply Qle_bool_iff in L. congruence.
  - intros H. destruct (Qle_bool b a) eqn:E; [| reflexivity]. apply Qle_bool_iff in E. lra.
Qed.
Lemma Qltb_ge a b : Qltb a b = false <-> b <= a.
Proof.
  unfold Qltb. rewrite negb_false_iff. apply Qle_bool_iff.
Qed.

Ltac qltb :=
  repeat match goal with
         | |- context [Qltb ?a ?b] => let E := fresh "E" in destruct (Qltb a b) eqn:E;
                                      [apply Qltb_lt in E | apply Qltb_ge in E]
         end.

Lemma clamp_range v lo hi : lo <= hi -> lo <= clampG Qltb v lo hi <= hi.
Proof. intros H. unfold clampG. qltb; lra. Qed.

Lemma clamp_id_inside v lo hi : lo <= v <= hi -> clampG Qltb v lo hi = v.
Proof. intros H. unfold clampG. qltb; try lra. reflexivity. Qed.

(* the clamped value is the point of [lo, hi] nearest to v *)
Lemma clamp_nearest v lo hi w : lo <= hi -> lo <= w <= hi ->
  Qabs (clampG Qltb v lo hi - v) <= Qabs (w - v).
Proof.
  intros H Hw. unfold clampG. qltb.
  - rewrite (Qabs_pos (lo - v)) by lra. rewrite (Qabs_pos (w - v)) by lra. lra.
  - rewrite (Qabs_neg (hi - v)) by lra. rewrite (Qabs_neg (w - v)) by lra. lra.
  - setoid_replace (v - v) with 0 by ring. apply Qabs_nonneg.
Qed.

(* extended bounds (None = infinite): what the default arguments of the constructors mean *)
Definition le_lo (lo : option Q) (v : Q) : Prop := match lo with Some l => l <= v | None => True end.
Definition le_hi (v : Q) (hi : option Q) : Prop := match hi with Some h => v <= h | None => True end.

Lemma clampQ_range v lo hi : clamp_validate lo hi = None -> le_lo lo (clampQ v lo hi) /\ le_hi (clampQ v lo hi) hi.
Proof.
  unfold clamp_validate, clampQ, le_lo, le_hi.
  destruct lo as [l |], hi as [h |]; try (intros _; qltb; split; trivial; lra).
  destruct (Qle_bool h l) eqn:E; [discriminate |]. intros _.
  assert (l < h) by (apply Qltb_lt; unfold Qltb; rewrite E; reflexivity).
  qltb; split; lra.
Qed.

Lemma clampQ_id_inside v lo hi : le_lo lo v -> le_hi v hi -> clampQ v lo hi = v.
Proof.
  unfold clampQ, le_lo, le_hi. destruct lo as [l |], hi as [h |]; intros; qltb; try lra; reflexivity.
Qed.

Lemma clamp_validate_spec lo hi :
  clamp_validate lo hi = None <-> (match lo, hi with Some l, Some h => l < h | _, _ => True end).
Proof.
  unfold clamp_validate. destruct lo as [l |], hi as [h |]; try tauto.
  destruct (Qle_bool h l) eqn:E.
  - apply Qle_bool_iff in E. split; [discriminate | lra].
  - split; [| reflexivity]. intros _. apply Qltb_lt. unfold Qltb. rewrite E. reflexivity.
Qed.

(* input clamps route the clamped coordinates, output clamps clamp the value: by definition, for all f *)
Lemma clamp_in3_spec {B} (f : Q -> Q -> Q -> B) xl xh yl yh zl zh x y z :
  clamp_in3 Qltb xl xh yl yh zl zh f x y z = f (clampG Qltb x xl xh) (clampG Qltb y yl yh) (clampG Qltb z zl zh).
Proof. reflexivity. Qed.
Lemma clamp_out3_spec (f : Q -> Q -> Q -> Q) lo hi x y z :
  clamp_out3 Qltb lo hi f x y z = clampG Qltb (f x y z) lo hi.
Proof. reflexivity. Qed.

(* ---- the remaining constructor / range validation policies, characterised exactly ---------------------------- *)
Lemma range_validate_spec len a b n :
  range_validate len a b n = None <-> (len = 3%Z /\ a <= b /\ (1 <= n)%Z).
Proof.
  unfold range_validate.
  destruct (Z.eqb_spec len 3); cbn [negb].
  - destruct (Qltb b a) eqn:E; [apply Qltb_lt in E | apply Qltb_ge in E].
    + split; [discriminate | intros (_ & H & _); lra].
    + destruct (Z.ltb_spec n 1).
      * split; [discriminate | intros (_ & _ & H'); lia].
      * split; [intros _; repeat split; assumption | reflexivity].
  - split; [discriminate | intros (H & _); contradiction].
Qed.

Lemma period1_validate_spec p : period1_validate p = None <-> 0 < p.
Proof.
  unfold period1_validate. destruct (Qle_bool p 0) eqn:E.
  - apply Qle_bool_iff in E. split; [discriminate | lra].
  - split; [| reflexivity]. intros _. apply Qltb_lt. unfold Qltb. rewrite E. reflexivity.
Qed.

Lemma periodn_validate_spec ps : periodn_validate ps = None <-> Forall (fun p => 0 <= p) ps.
Proof.
  unfold periodn_validate. destruct (forallb (fun p => Qle_bool 0 p) ps) eqn:E.
  - split; [| reflexivity]. intros _. apply Forall_forall. intros p Hp.
    rewrite forallb_forall in E. apply Qle_bool_iff, E, Hp.
  - split; [discriminate |]. intros F. exfalso.
    assert (forallb (fun p => Qle_bool 0 p) ps = true); [| congruence].
    apply forallb_forall. intros p Hp. apply Qle_bool_iff. rewrite Forall_forall in F. apply F, Hp.
Qed.

Lemma slice_validate_num_spec dims z k : slice_validate dims (AxNum z) = inr k <-> (k = z /\ (0 <= z < dims)%Z).
Proof.
  cbn. destruct (Z.leb_spec 0 z), (Z.ltb_spec z dims); cbn [andb]; split; try discriminate;
    try (intros [= <-]; split; [reflexivity | lia]); try (intros (-> & H'); try reflexivity; lia).
Qed.
Lemma slice_validate_name_spec dims s k : slice_validate dims (AxName s) = inr k <-> axis_of_name dims s = Some k.
Proof.
  cbn. destruct (axis_of_name dims s) as [j |]; split; try discriminate; intros [= ->]; reflexivity.
Qed.
