(* emissivity_from_function: exact for constants for every draw sequence; the sample point is a
   convex combination of the selected triangle's vertices; every ear-clipping triangulation has the
   polygon's signed area and first moments; hence the area-weighted estimator's expectation for a
   linear emissivity is its value at the polygon centroid. *)
Require Import Cherab.Common.Qx.
Require Import Cherab.Model.C17_Voxels Cherab.Proofs.C17_Polygon Cherab.Proofs.C17_Voxel.
From Coq Require Import Qabs Lqa.
Open Scope Q_scope.

(* ---- constants --------------------------------------------------------------------------------- *)
Lemma Qsum_const {A} (l : list A) c : Qsum (map (fun _ => c) l) == inject_Z (Z.of_nat (length l)) * c.
Proof.
  induction l as [|a t IH]; [cbn; ring|].
  cbn [map Qsum length]. rewrite IH, Nat2Z.inj_succ, <- Z.add_1_r, inject_Z_plus. ring.
Qed.

Lemma constant_function_exact sqrt l tris draws c : draws <> [] ->
  emissivity sqrt (fun _ => c) l tris draws == c.
Proof.
  intros Hne. unfold emissivity.
  rewrite (Qsum_const draws c). field.
  destruct draws as [|d t]; [congruence|]. cbn [length]. rewrite Nat2Z.inj_succ.
  intro H. assert (E : (Z.succ (Z.of_nat (length t)) # 1) == 0) by exact H.
  unfold Qeq in E. cbn in E. lia.
Qed.

(* ---- the sample point lies in the chosen triangle -------------------------------------------------- *)
Lemma bary_convex temp u2 : 0 <= temp -> temp <= 1 -> 0 <= u2 -> u2 <= 1 ->
  let '(al, be, ga) := bary temp u2 in 0 <= al /\ 0 <= be /\ 0 <= ga /\ al + be + ga == 1.
Proof.
  intros H1 H2 H3 H4. unfold bary. cbv beta iota zeta. repeat split; first [lra | nra | ring].
Qed.

Lemma linear_at_sample c0 c1 c2 temp u2 a b c :
  let '(al, be, ga) := bary temp u2 in
  linf c0 c1 c2 (point_triangle temp u2 a b c) == al * linf c0 c1 c2 a + be * linf c0 c1 c2 b + ga * linf c0 c1 c2 c.
Proof. unfold point_triangle, bary, linf, px, py. cbv beta iota zeta. cbn [fst snd]. ring. Qed.

(* ---- sums over lists ------------------------------------------------------------------------------- *)
Lemma Qsum_map_ext_in {A} (F G : A -> Q) l : (forall t, In t l -> F t == G t) -> Qsum (map F l) == Qsum (map G l).
Proof.
  induction l as [|a t IH]; intros H; [reflexivity|]. cbn [map Qsum].
  rewrite (H a (or_introl eq_refl)), IH; [reflexivity|]. intros b Hb. apply H. right. exact Hb.
Qed.

Lemma Qsum_map_lin3 {A} (F0 F1 F2 : A -> Q) k0 k1 k2 l :
  Qsum (map (fun t => k0 * F0 t + k1 * F1 t + k2 * F2 t) l) ==
  k0 * Qsum (map F0 l) + k1 * Qsum (map F1 l) + k2 * Qsum (map F2 l).
Proof. induction l as [|a t IH]; cbn [map Qsum]; [ring | rewrite IH; ring]. Qed.

Lemma Qsum_combine_map {A} (F G : A -> Q) l :
  Qsum (map (fun am => fst am * snd am) (combine (map F l) (map G l))) == Qsum (map (fun t => F t * G t) l).
Proof. induction l as [|a t IH]; cbn [map combine Qsum fst snd]; [reflexivity | rewrite IH; reflexivity]. Qed.

(* ---- ear clipping ------------------------------------------------------------------------------------ *)
Lemma split_at_spec b : forall act l1 l2, split_at b act = Some (l1, l2) -> act = l1 ++ b :: l2.
Proof.
  induction act as [|a t IH]; intros l1 l2 H; [discriminate|].
  cbn [split_at] in H. destruct (Nat.eqb a b) eqn:E.
  - apply Nat.eqb_eq in E. inversion H. subst. reflexivity.
  - destruct (split_at b t) as [[m1 m2]|]; [|discriminate]. inversion H. subst.
    rewrite (IH m1 l2 eq_refl). reflexivity.
Qed.

Section Clip.
  Variable g : pt -> pt -> Q.
  Hypothesis anti : forall a b, g a b == - g b a.
  Variable P : nat -> pt.

  Definition tri_T (t : tri) : Q := let '(a, b, c) := t in T3 g (P a) (P b) (P c).

  (* whatever ears were chosen, the triangles' T3 terms add up to the cyclic sum of the polygon *)
  Lemma clip_sum : forall tris act, clip_check act tris = true -> Qsum (map tri_T tris) == cyc_sum g (map P act).
  Proof.
    induction tris as [|[[a b] c] rest IH]; intros act H; [discriminate|].
    cbn [clip_check] in H. destruct rest as [|t2 rest'].
    - destruct act as [|a' [|b' [|c' [|? ?]]]]; try discriminate.
      apply andb_prop in H. destruct H as [H Hc]. apply andb_prop in H. destruct H as [Ha Hb].
      apply Nat.eqb_eq in Ha, Hb, Hc. subst.
      cbn [map Qsum tri_T]. unfold cyc_sum, open_sum, last, T3. ring.
    - destruct (split_at b act) as [[l1 l2]|] eqn:Es; [|discriminate].
      apply andb_prop in H. destruct H as [H Hcc]. apply andb_prop in H. destruct H as [H Hn].
      apply andb_prop in H. destruct H as [Hlen Hp].
      apply Nat.eqb_eq in Hn, Hp. subst a c.
      apply split_at_spec in Es. subst act.
      change (map tri_T ((prev_of l1 l2 b, b, next_of l1 l2 b) :: t2 :: rest'))
        with (tri_T (prev_of l1 l2 b, b, next_of l1 l2 b) :: map tri_T (t2 :: rest')).
      cbn [Qsum]. rewrite (IH (l1 ++ l2) Hcc).
      rewrite !map_app. cbn [map]. rewrite (cyc_remove g anti).
      + unfold tri_T, prev_of, next_of.
        rewrite (last_map P l2 b), (last_map P l1 (last l2 b)), (hd_map P l1 b), (hd_map P l2 (hd b l1)). ring.
      + intro E. apply Bool.negb_true_iff, Nat.eqb_neq in Hlen. apply Hlen.
        rewrite <- map_app in E. apply map_eq_nil in E. rewrite <- app_length, E. reflexivity.
  Qed.
End Clip.

Lemma map_vtx_seq l : map (vtx l) (seq 0 (length l)) = l.
Proof.
  induction l as [|a t IH]; [reflexivity|].
  cbn [length seq map]. unfold vtx at 1. cbn [nth]. f_equal.
  rewrite <- seq_shift, map_map. exact IH.
Qed.

(* signed area and first moments of any ear-clipping triangulation of the whole vertex list *)
Lemma ear_clipping_sums l tris : clip_check (seq 0 (length l)) tris = true ->
  Qsum (map (tri2_of l) tris) == shoelace2 l /\
  Qsum (map (fun t => 3 * px (tri_centroid_of l t) * tri2_of l t) tris) == cyc_sum gx l /\
  Qsum (map (fun t => 3 * py (tri_centroid_of l t) * tri2_of l t) tris) == cyc_sum gy l.
Proof.
  intros H. split; [|split].
  - unfold shoelace2. pose proof (clip_sum cross cross_anti (vtx l) tris _ H) as C.
    rewrite map_vtx_seq in C. rewrite <- C.
    apply Qsum_map_ext_in. intros [[i j] k] _. unfold tri2_of, tri_T. symmetry. apply T3_cross.
  - pose proof (clip_sum gx gx_anti (vtx l) tris _ H) as C. rewrite map_vtx_seq in C. rewrite <- C.
    apply Qsum_map_ext_in. intros [[i j] k] _. unfold tri2_of, tri_centroid_of, tri_T. rewrite T3_gx.
    unfold px at 1. cbn [fst]. field.
  - pose proof (clip_sum gy gy_anti (vtx l) tris _ H) as C. rewrite map_vtx_seq in C. rewrite <- C.
    apply Qsum_map_ext_in. intros [[i j] k] _. unfold tri2_of, tri_centroid_of, tri_T. rewrite T3_gy.
    unfold py at 1. cbn [snd]. field.
Qed.

Lemma tri_area_clockwise l t : tri2_of l t <= 0 -> tri_area_of l t == - (1 # 2) * tri2_of l t.
Proof.
  destruct t as [[i j] k]. unfold tri_area_of, tri2_of, tri_area. intros H.
  rewrite Qabs_neg by exact H. ring.
Qed.

(* the triangle areas of a clockwise ear clipping add up to the reported area *)
Lemma triangle_areas_sum_to_area l tris : clip_check (seq 0 (length l)) tris = true ->
  (forall t, In t tris -> tri2_of l t <= 0) -> Qsum (map (tri_area_of l) tris) == area l.
Proof.
  intros H Hcw. destruct (ear_clipping_sums l tris H) as (HS & _ & _).
  rewrite (Qsum_map_ext_in (tri_area_of l) (fun t => - (1 # 2) * tri2_of l t + 0 * 0 + 0 * 0)).
  2:{ intros t Ht. rewrite tri_area_clockwise by (apply Hcw; exact Ht). ring. }
  rewrite (Qsum_map_lin3 (tri2_of l) (fun _ => 0) (fun _ => 0)), HS. unfold area.
  assert (Hle : shoelace2 l <= 0).
  { rewrite <- HS. clear HS H. induction tris as [|t ts IH]; cbn [map Qsum]; [lra|].
    pose proof (Hcw t (or_introl eq_refl)).
    assert (Qsum (map (tri2_of l) ts) <= 0) by (apply IH; intros u Hu; apply Hcw; right; exact Hu). lra. }
  rewrite Qabs_neg by exact Hle. field.
Qed.

(* expectation of the estimator for a linear emissivity = its value at the centroid *)
Lemma expected_linear l tris c0 c1 c2 : clip_check (seq 0 (length l)) tris = true ->
  (forall t, In t tris -> tri2_of l t <= 0) -> ~ shoelace2 l == 0 ->
  exists c, centroid l = Some c /\
    expected_estimate (map (tri_area_of l) tris) (map (fun t => linf c0 c1 c2 (tri_centroid_of l t)) tris)
    == linf c0 c1 c2 c.
Proof.
  intros H Hcw Hne. destruct (ear_clipping_sums l tris H) as (HS & HX & HY).
  unfold centroid. destruct (Qeq_bool (shoelace2 l / 2) 0) eqn:E.
  { apply Qeq_bool_iff, half_eq0_l in E. contradiction. }
  eexists. split; [reflexivity|].
  unfold expected_estimate. rewrite Qsum_combine_map.
  rewrite (triangle_areas_sum_to_area l tris H Hcw).
  rewrite (Qsum_map_ext_in _ (fun t => (- (1 # 2) * c0) * tri2_of l t
                                      + (- (1 # 6) * c1) * (3 * px (tri_centroid_of l t) * tri2_of l t)
                                      + (- (1 # 6) * c2) * (3 * py (tri_centroid_of l t) * tri2_of l t))).
  2:{ intros t Ht. rewrite tri_area_clockwise by (apply Hcw; exact Ht). unfold linf. ring. }
  rewrite Qsum_map_lin3, HS, HX, HY.
  assert (Hle : shoelace2 l <= 0).
  { rewrite <- HS. clear - Hcw. induction tris as [|t ts IH]; cbn [map Qsum]; [lra|].
    pose proof (Hcw t (or_introl eq_refl)).
    assert (Qsum (map (tri2_of l) ts) <= 0) by (apply IH; intros u Hu; apply Hcw; right; exact Hu). lra. }
  unfold area. rewrite Qabs_neg by exact Hle.
  unfold linf, px, py. cbn [fst snd]. field. exact Hne.
Qed.

Lemma expected_constant areas c n : ~ Qsum areas == 0 -> length areas = n ->
  expected_estimate areas (repeat c n) == c.
Proof.
  intros Hne Hn. unfold expected_estimate.
  assert (E : Qsum (map (fun am => fst am * snd am) (combine areas (repeat c n))) == c * Qsum areas).
  { subst n. clear Hne. induction areas as [|a t IH]; cbn [length repeat combine map Qsum fst snd]; [ring|].
    rewrite IH. ring. }
  rewrite E. field. exact Hne.
Qed.

(* ---- every sample count ---------------------------------------------------------------------------- *)
Lemma Qsum_repeat c n : Qsum (repeat c n) == inject_Z (Z.of_nat n) * c.
Proof.
  induction n as [|n IH]; [cbn; ring|].
  cbn [repeat Qsum]. rewrite IH, Nat2Z.inj_succ, <- Z.add_1_r, inject_Z_plus. ring.
Qed.

Lemma expected_emissivity_any_count areas means n : (1 <= n)%nat ->
  expected_emissivity areas means n == expected_estimate areas means.
Proof.
  intros Hn. unfold expected_emissivity. rewrite Qsum_repeat. field.
  intro H. assert (E : (Z.of_nat n # 1) == 0) by exact H. unfold Qeq in E. cbn in E. lia.
Qed.

Lemma stratified_choice_refuted :
  exists areas means, (forall a, In a areas -> 0 < a) /\
    ~ stratified_estimate areas means 1 == expected_estimate areas means /\
    expected_emissivity areas means 1 == expected_estimate areas means.
Proof.
  exists [1; 3], [0; 1]. split; [|split].
  - intros a [Ha|[Ha|[]]]; rewrite <- Ha; reflexivity.
  - vm_compute. congruence.
  - vm_compute. reflexivity.
Qed.

(* ---- the constructor's validation and the draw stream ------------------------------------------------------- *)
Lemma validate_rows_ok rows l : validate_rows rows = inr l ->
  rows = map (fun p => [px p; py p]) l /\ forall p, In p l -> 0 <= px p.
Proof.
  revert l; induction rows as [|r t IH]; intros l H.
  - cbn in H. inversion H. split; [reflexivity | intros p []].
  - cbn [validate_rows] in H. destruct r as [|x [|y [|z r']]]; try discriminate.
    destruct (Qlt_b x 0) eqn:E; [discriminate|].
    destruct (validate_rows t) as [e|l'] eqn:Et; [discriminate|]. injection H as Hl. subst l.
    destruct (IH l' eq_refl) as [H1 H2]. split.
    + cbn [map px py fst snd]. rewrite <- H1. reflexivity.
    + intros p [Hp|Hp]; [|apply H2; exact Hp]. subst p. cbn [px fst].
      unfold Qlt_b in E. apply Bool.negb_false_iff, Qle_bool_iff in E. exact E.
Qed.

Lemma construct_accepts rows ptype l : construct rows ptype = inr l ->
  exists pts, rows = map (fun p => [px p; py p]) pts /\ l = normalise pts /\ (3 <= length pts)%nat /\
              (forall p, In p pts -> 0 <= px p) /\ (ptype = 0 \/ ptype = 1)%Z.
Proof.
  unfold construct. intros H.
  destruct (Z.of_nat (length rows) <? 3)%Z eqn:E3; [discriminate|]. apply Z.ltb_ge in E3.
  destruct (validate_rows rows) as [e|pts] eqn:Ev; [discriminate|].
  destruct ((ptype =? 0)%Z || (ptype =? 1)%Z) eqn:Ep; [|discriminate]. injection H as Hl.
  destruct (validate_rows_ok rows pts Ev) as [H1 H2]. exists pts. repeat split; try assumption; try (symmetry; assumption).
  - rewrite H1, map_length in E3. lia.
  - apply Bool.orb_true_iff in Ep. destruct Ep as [Ep|Ep]; apply Z.eqb_eq in Ep; auto.
Qed.

Lemma take_draws_length ntri : forall n stream, (3 * n <= length stream)%nat ->
  length (fst (take_draws ntri n stream)) = n.
Proof.
  induction n as [|n IH]; intros stream H; [reflexivity|].
  cbn [take_draws]. destruct (1 <? ntri)%nat.
  - destruct stream as [|a [|b [|c rest]]]; try (cbn in H; lia).
    specialize (IH rest). destruct (take_draws ntri n rest) as [ds r]. cbn [fst length] in *. rewrite IH; [reflexivity | cbn in H; lia].
  - destruct stream as [|a [|b rest]]; try (cbn in H; lia).
    specialize (IH rest). destruct (take_draws ntri n rest) as [ds r]. cbn [fst length] in *. rewrite IH; [reflexivity | cbn in H; lia].
Qed.

(* the call with a positive grid_samples is the estimator of the theorems, on the draws taken from the stream *)
Lemma emissivity_call_positive sqrt f l tris n stream : (0 < n)%Z -> (3 * Z.to_nat n <= length stream)%nat ->
  fst (emissivity_call sqrt f l tris n stream) =
  Some (Qsum (map (fun d => f (sample_point sqrt l tris d)) (fst (take_draws (length tris) (Z.to_nat n) stream))) / inject_Z n)
  /\ length (fst (take_draws (length tris) (Z.to_nat n) stream)) = Z.to_nat n.
Proof.
  intros Hn Hs. unfold emissivity_call. destruct (n =? 0)%Z eqn:E; [apply Z.eqb_eq in E; lia|].
  split; [|apply take_draws_length; exact Hs].
  destruct (take_draws (length tris) (Z.to_nat n) stream) as [ds r]. reflexivity.
Qed.

Lemma emissivity_call_policy sqrt f l tris stream :
  fst (emissivity_call sqrt f l tris 0 stream) = None /\
  forall n, (n < 0)%Z -> exists q, fst (emissivity_call sqrt f l tris n stream) = Some q /\ q == 0 /\
                                   snd (emissivity_call sqrt f l tris n stream) = stream.
Proof.
  split; [reflexivity|]. intros n Hn. unfold emissivity_call.
  destruct (n =? 0)%Z eqn:E; [apply Z.eqb_eq in E; lia|].
  replace (Z.to_nat n) with O by lia. cbn [take_draws map Qsum fst snd].
  eexists. split; [reflexivity|]. split; [|reflexivity]. unfold Qdiv. ring.
Qed.
